(** Storage/Proofs.v — proofs about the storage state machine (Model.v). *)
From PdfV Require Import Base.Prelude Storage.Prim Storage.Model.

(* ------------------------------------------------------------------------------------------ *)
(** the change map *)

Lemma clookup_cinsert_same c id v : clookup (cinsert c id v) id = Some v.
Proof.
  induction c as [|[k w] t IH]; cbn [cinsert clookup].
  - rewrite N.eqb_refl. reflexivity.
  - destruct (k =? id) eqn:E; cbn [clookup]; rewrite E; [reflexivity|exact IH].
Qed.

Lemma clookup_cinsert_other c id id' v : id' <> id -> clookup (cinsert c id v) id' = clookup c id'.
Proof.
  intros Hne. induction c as [|[k w] t IH]; cbn [cinsert clookup].
  - destruct (id =? id') eqn:E; [apply N.eqb_eq in E; congruence|reflexivity].
  - destruct (k =? id) eqn:E; cbn [clookup].
    + apply N.eqb_eq in E. subst k. destruct (id =? id') eqn:E2; [apply N.eqb_eq in E2; congruence|reflexivity].
    + destruct (k =? id'); [reflexivity|exact IH].
Qed.

Lemma nthN_app_l {A} (l : list A) x i : i <> lenN l -> nthN (l ++ [x]) i = nthN l i.
Proof.
  unfold nthN, lenN. intros Hne.
  destruct (Nat.lt_ge_cases (N.to_nat i) (length l)) as [Hlt|Hge].
  - apply nth_error_app1. exact Hlt.
  - assert (N.to_nat i <> length l) by (intros E; apply Hne; rewrite <- E; rewrite N2Nat.id; reflexivity).
    rewrite (proj2 (nth_error_None l (N.to_nat i))) by lia.
    apply nth_error_None. rewrite app_length. cbn. lia.
Qed.

Lemma nthN_app_new {A} (l : list A) x : nthN (l ++ [x]) (lenN l) = Some x.
Proof.
  unfold nthN, lenN. rewrite Nat2N.id. rewrite nth_error_app2 by lia.
  rewrite Nat.sub_diag. reflexivity.
Qed.

(* ------------------------------------------------------------------------------------------ *)
(** the cross-reference stream: what write_stream emits is what the reader decodes *)

Lemma be_bytes_length w n : length (be_bytes w n) = w.
Proof. induction w as [|w IH]; cbn [be_bytes length]; [reflexivity|rewrite IH; reflexivity]. Qed.

Lemma be_val_be_bytes w n acc :
  be_val (be_bytes w n) acc = acc * 256 ^ N.of_nat w + n mod 256 ^ N.of_nat w.
Proof.
  revert acc. induction w as [|w IH]; intros acc.
  - cbn [be_bytes be_val N.of_nat]. rewrite N.pow_0_r, N.mod_1_r. lia.
  - cbn [be_bytes be_val]. rewrite IH. rewrite Nat2N.inj_succ, N.pow_succ_r'.
    set (P := 256 ^ N.of_nat w).
    assert (HP : P <> 0) by (apply N.pow_nonzero; lia).
    rewrite (N.mul_comm 256 P). rewrite (N.mod_mul_r n P 256) by lia. lia.
Qed.

Lemma read_u64_be w n rest :
  w <= 8 -> n < 256 ^ w ->
  read_u64 w (be_bytes (N.to_nat w) n ++ rest) = Ok (n, rest).
Proof.
  intros Hw Hn. unfold read_u64.
  destruct (8 <? w) eqn:E; [apply N.ltb_lt in E; lia|].
  assert (Hl : lenN (be_bytes (N.to_nat w) n ++ rest) <? w = false).
  { apply N.ltb_ge. unfold lenN. rewrite app_length, be_bytes_length. lia. }
  rewrite Hl. unfold take, drop.
  rewrite <- (be_bytes_length (N.to_nat w) n) at 1 3.
  rewrite firstn_app, Nat.sub_diag, firstn_all, firstn_O, app_nil_r.
  rewrite skipn_app, Nat.sub_diag, skipn_all, skipn_O. cbn [app].
  rewrite be_val_be_bytes, N2Nat.id. rewrite N.mod_small by exact Hn. reflexivity.
Qed.

(** every field of the entry fits the widths *)
Definition fits (aw bw : N) (e : xent) : Prop :=
  match xfields e with Some (_, a, b) => a < 256 ^ aw /\ b < 256 ^ bw | None => True end.

Lemma be_bytes_1 ty : ty < 256 -> be_bytes (N.to_nat 1) ty = [ty].
Proof.
  intros H. change (N.to_nat 1) with 1%nat. cbn [be_bytes N.of_nat]. rewrite N.pow_0_r, N.div_1_r.
  rewrite N.mod_small by exact H. reflexivity.
Qed.

Lemma read_type_byte ty rest : ty < 256 -> read_u64 1 (ty :: rest) = Ok (ty, rest).
Proof.
  intros H. replace (ty :: rest) with (be_bytes (N.to_nat 1) ty ++ rest) by (rewrite be_bytes_1 by exact H; reflexivity).
  apply read_u64_be; [lia|rewrite N.pow_1_r; exact H].
Qed.

Lemma rows_roundtrip aw bw es : aw <= 8 -> bw <= 8 ->
  forall data rest, Forall (fits aw bw) es ->
  write_rows (N.to_nat aw) (N.to_nat bw) es = Ok data ->
  read_rows (length es) 1 aw bw (data ++ rest) = Ok (es, rest) /\
  lenN data = lenN es * (1 + aw + bw).
Proof.
  intros Ha Hb. induction es as [|e t IH]; intros data rest Hf Hw.
  - cbn in Hw. inversion Hw. subst. cbn. split; reflexivity.
  - inversion Hf as [|? ? Hfe Hft]; subst.
    cbn [write_rows] in Hw. unfold fits in Hfe.
    destruct (xfields e) as [[[ty a] b]|] eqn:Ex; [|discriminate].
    destruct (write_rows (N.to_nat aw) (N.to_nat bw) t) as [r| | |] eqn:Er; cbn [bind] in Hw; try discriminate.
    inversion Hw; subst data; clear Hw.
    destruct (IH r rest Hft eq_refl) as [IHr IHl].
    destruct Hfe as [Hfa Hfb].
    assert (Hty : ty < 256 /\ e = (if ty =? 0 then XFree a b else if ty =? 1 then XRaw a b else XStream a b) /\ ty <= 2).
    { destruct e; cbn in Ex; inversion Ex; subst; repeat split; lia. }
    destruct Hty as [Hty [He Hty2]].
    split.
    + cbn [length read_rows]. change (1 =? 0) with false. cbv iota.
      cbn [app]. rewrite <- !app_assoc.
      rewrite (read_type_byte ty _ Hty). cbn [bind fst snd].
      rewrite (read_u64_be aw a _ Ha Hfa). cbn [bind fst snd].
      rewrite (read_u64_be bw b _ Hb Hfb). cbn [bind fst snd].
      rewrite IHr.
      destruct (ty =? 0) eqn:E0; cbn [bind fst snd]; [subst e; reflexivity|].
      destruct (ty =? 1) eqn:E1; cbn [bind fst snd]; [subst e; reflexivity|].
      destruct (ty =? 2) eqn:E2; cbn [bind fst snd]; [subst e; reflexivity|].
      apply N.eqb_neq in E0, E1, E2. lia.
    + unfold lenN in *. cbn [length]. rewrite !app_length, !be_bytes_length.
      rewrite !Nat2N.inj_succ, !Nat2N.inj_add, !N2Nat.id. lia.
Qed.

(** xref.rs: byte_len at the powers of 256: exactly one byte more from 256^k on, not before (the column of the cross-reference
    stream grows when — and only when — the largest offset reaches 256, 65536, …; the boundary an off-by-one in byte_len moves) *)
Lemma byte_len_boundaries :
  forallb (fun k => (byte_len (256 ^ k - 1) =? k) && (byte_len (256 ^ k) =? k + 1) && (byte_len (256 ^ k + 1) =? k + 1))
          [1; 2; 3; 4; 5; 6; 7] = true /\ byte_len 0 = 1 /\ byte_len 1 = 1 /\ byte_len (2 ^ 64 - 1) = 8.
Proof. vm_compute. repeat split; reflexivity. Qed.

(** xref.rs: byte_len is wide enough (and at most 8) for every u64 *)
Lemma byte_len_fits n : n < 2 ^ 64 -> n < 256 ^ byte_len n /\ byte_len n <= 8 /\ 1 <= byte_len n.
Proof.
  intros Hn. unfold byte_len, lz64.
  destruct (n =? 0) eqn:E.
  - apply N.eqb_eq in E. subst. vm_compute. repeat split; try discriminate; reflexivity.
  - apply N.eqb_neq in E.
    assert (Hpos : 0 < n) by lia.
    pose proof (N.log2_spec n Hpos) as [Hlo Hhi].
    set (L := N.log2 n) in *.
    assert (HL : L < 64).
    { apply (N.pow_lt_mono_r_iff 2); [lia|]. eapply N.le_lt_trans; [exact Hlo|exact Hn]. }
    replace (64 + 8 - 1 - (63 - L)) with (8 + L) by lia.
    replace (8 + L) with (L + 1 * 8) by lia. rewrite N.div_add by lia. rewrite N.add_0_r.
    pose proof (N.div_mod L 8 ltac:(lia)) as Hdm.
    pose proof (N.mod_lt L 8 ltac:(lia)) as Hm.
    set (q := L / 8) in *.
    split; [|split; [|lia]].
    + change 256 with (2 ^ 8). rewrite <- N.pow_mul_r.
      eapply N.lt_le_trans; [exact Hhi|]. apply N.pow_le_mono_r; lia.
    + assert (q <= 7) by (apply N.lt_succ_r; apply N.div_lt_upper_bound; lia). lia.
Qed.

Lemma max_widths_ge es : forall a0 b0,
  let m := fold_left (fun (ab : N * N) e =>
               match xfields e with
               | Some (_, x, y) => (N.max (fst ab) x, N.max (snd ab) y)
               | None => ab
               end) es (a0, b0) in
  a0 <= fst m /\ b0 <= snd m /\
  Forall (fun e => match xfields e with Some (_, x, y) => x <= fst m /\ y <= snd m | None => True end) es.
Proof.
  induction es as [|e t IH]; intros a0 b0; cbn [fold_left].
  - cbn. repeat split; try lia. constructor.
  - destruct (xfields e) as [[[ty x] y]|] eqn:Ex; cbn [fst snd].
    + specialize (IH (N.max a0 x) (N.max b0 y)). cbv zeta in IH. destruct IH as [H1 [H2 H3]].
      repeat split; try lia. constructor; [rewrite Ex; split; lia|exact H3].
    + specialize (IH a0 b0). cbv zeta in IH. destruct IH as [H1 [H2 H3]].
      repeat split; try lia. constructor; [rewrite Ex; exact I|exact H3].
Qed.

(** the table written by save decodes to itself: every entry, in order, nothing left over *)
Theorem write_stream_roundtrip es aw bw data :
  Forall (fun e => match xfields e with Some (_, x, y) => x < 2 ^ 64 /\ y < 2 ^ 64 | None => True end) es ->
  write_stream es (lenN es) = Ok (aw, bw, data) ->
  read_section 0 (lenN es) 1 aw bw data = Ok ((0, es), []) /\ aw <= 8 /\ bw <= 8 /\ lenN data = lenN es * (1 + aw + bw).
Proof.
  intros Hu. unfold write_stream.
  destruct (max_field_widths es) as [ma mb] eqn:Em.
  unfold take, lenN. rewrite Nat2N.id, firstn_all.
  destruct (write_rows (N.to_nat (byte_len ma)) (N.to_nat (byte_len mb)) es) as [d| | |] eqn:Ew; cbn [bind]; try discriminate.
  intros H. inversion H; subst; clear H.
  pose proof (max_widths_ge es 0 0) as Hm. cbv zeta in Hm. fold (max_field_widths es) in Hm. rewrite Em in Hm.
  cbn [fst snd] in Hm. destruct Hm as [_ [_ Hall]].
  assert (Hma : ma < 2 ^ 64 /\ mb < 2 ^ 64).
  { unfold max_field_widths in Em.
    assert (G : forall l a0 b0, a0 < 2 ^ 64 -> b0 < 2 ^ 64 ->
              Forall (fun e => match xfields e with Some (_, x, y) => x < 2 ^ 64 /\ y < 2 ^ 64 | None => True end) l ->
              let m := fold_left (fun (ab : N * N) e => match xfields e with
                         | Some (_, x, y) => (N.max (fst ab) x, N.max (snd ab) y) | None => ab end) l (a0, b0) in
              fst m < 2 ^ 64 /\ snd m < 2 ^ 64).
    { induction l as [|e t IH]; intros a0 b0 Ha Hb Hf; cbn [fold_left]; [split; assumption|].
      inversion Hf as [|? ? He Ht]; subst.
      destruct (xfields e) as [[[ty x] y]|]; [|apply IH; assumption].
      destruct He. apply IH; cbn [fst snd]; try assumption; apply N.max_lub_lt; assumption. }
    assert (Z0 : 0 < 2 ^ 64) by (vm_compute; reflexivity).
    specialize (G es 0 0 Z0 Z0 Hu). cbv zeta in G. rewrite Em in G. exact G. }
  destruct Hma as [Hma Hmb].
  destruct (byte_len_fits ma Hma) as [Fa [La _]]. destruct (byte_len_fits mb Hmb) as [Fb [Lb _]].
  assert (Hfits : Forall (fits (byte_len ma) (byte_len mb)) es).
  { eapply Forall_impl; [|exact Hall]. intros e. unfold fits.
    destruct (xfields e) as [[[ty x] y]|]; [|intros; exact I]. intros [H1 H2]. split; eapply N.le_lt_trans; eassumption. }
  destruct (rows_roundtrip (byte_len ma) (byte_len mb) es La Lb data [] Hfits Ew) as [Hr Hl].
  rewrite app_nil_r in Hr.
  split; [|split; [assumption|split; [assumption|exact Hl]]].
  unfold read_section. fold (lenN es). rewrite Hl.
  rewrite N.ltb_irrefl. unfold lenN. rewrite Nat2N.id. rewrite Hr. reflexivity.
Qed.

(* ------------------------------------------------------------------------------------------ *)
(** table updates *)

Lemma set_nth_length {A} (l : list A) i x : length (set_nth l i x) = length l.
Proof. revert i. induction l as [|h t IH]; intros [|i]; cbn; try reflexivity. rewrite IH. reflexivity. Qed.

Lemma set_nth_same {A} (l : list A) i x : (i < length l)%nat -> nth_error (set_nth l i x) i = Some x.
Proof. revert i. induction l as [|h t IH]; intros [|i] H; cbn in *; try lia; [reflexivity|apply IH; lia]. Qed.

Lemma set_nth_other {A} (l : list A) i j x : i <> j -> nth_error (set_nth l i x) j = nth_error l j.
Proof.
  revert i j. induction l as [|h t IH]; intros [|i] [|j] H; cbn; try reflexivity; try congruence.
  apply IH. congruence.
Qed.

Lemma xset_length l i e : length (xset l i e) = length l.
Proof. apply set_nth_length. Qed.

Lemma xset_same l i e : i < lenN l -> nthN (xset l i e) i = Some e.
Proof. unfold nthN, xset, lenN. intros H. apply set_nth_same. lia. Qed.

Lemma xset_other l i j e : i <> j -> nthN (xset l i e) j = nthN l j.
Proof. unfold nthN, xset. intros H. apply set_nth_other. intros E. apply H. apply N2Nat.inj. exact E. Qed.

Lemma nthN_take {A} (l : list A) n i : i < n -> nthN (take n l) i = nthN l i.
Proof.
  unfold nthN, take. intros H. revert l i H. induction (N.to_nat n) as [|k IH] eqn:Ek in n |- *; intros l i H.
  - lia.
  - destruct l as [|h t]; [destruct (N.to_nat i); reflexivity|].
    destruct (N.to_nat i) as [|j] eqn:Ej; [reflexivity|]. cbn.
    specialize (IH (N.of_nat k) ltac:(rewrite Nat2N.id; reflexivity) t (N.of_nat j)).
    rewrite Nat2N.id in IH. apply IH. lia.
Qed.

Lemma nthN_none {A} (l : list A) i : lenN l <= i -> nthN l i = None.
Proof. unfold nthN, lenN. intros H. apply nth_error_None. lia. Qed.

Lemma lenN_take {A} (l : list A) n : n <= lenN l -> lenN (take n l) = n.
Proof. unfold lenN, take. intros H. rewrite firstn_length_le by lia. lia. Qed.

Lemma clookup_In c id v : clookup c id = Some v -> In (id, v) c.
Proof.
  induction c as [|[k w] t IH]; cbn [clookup]; [discriminate|].
  destruct (k =? id) eqn:E.
  - apply N.eqb_eq in E. intros H. inversion H. subst. left. reflexivity.
  - intros H. right. apply IH. exact H.
Qed.

Lemma clookup_None_notin c id : clookup c id = None -> ~ In id (map fst c).
Proof.
  induction c as [|[k w] t IH]; cbn [clookup map fst]; [intros _ []|].
  destruct (k =? id) eqn:E; [discriminate|]. apply N.eqb_neq in E.
  intros H [H1|H1]; [congruence|exact (IH H H1)].
Qed.

From Coq Require Import Permutation.

Lemma ins_sorted_perm x l : Permutation (ins_sorted x l) (x :: l).
Proof.
  induction l as [|y t IH]; cbn [ins_sorted]; [apply Permutation_refl|].
  destruct (fst x <=? fst y); [apply Permutation_refl|].
  eapply Permutation_trans; [apply perm_skip; exact IH|apply perm_swap].
Qed.

Lemma sort_changes_perm c : Permutation (sort_changes c) c.
Proof.
  induction c as [|x t IH]; cbn; [constructor|].
  eapply Permutation_trans; [apply ins_sorted_perm|apply perm_skip; exact IH].
Qed.

Section WithOracles.
Variable ser : prim -> res bytes.
Variable parse_obj : bytes -> N -> res (N * N * prim).
Variable member : bytes -> prim -> N -> res prim.
Variable read_classic : bytes -> N -> res (list section * dict).

Notation resolve_ref := (resolve_ref parse_obj member).
Notation resolve := (resolve parse_obj member).
Notation get := (get parse_obj member).
Notation save := (save ser).
Notation write_revision := (write_revision ser).
Notation write_changes := (write_changes ser).

(** reads consult the pending changes first, whatever the table says, whatever the generation *)
Lemma resolve_ref_changed f s r p g :
  clookup (changes s) (fst r) = Some (p, g) -> resolve_ref f s r = Ok p.
Proof. intros H. destruct f; cbn [Model.resolve_ref]; rewrite H; reflexivity. Qed.

(** no object-stream entry of the table names [id] as its container *)
Definition not_container (s : st) (id : N) : Prop :=
  forall i sid idx, nthN (refs s) i = Some (XStream sid idx) -> sid <> id.

(** two states that differ only at number [id] (pending value, table entry) and in the cache read alike elsewhere *)
Lemma resolve_ref_frame f s s' id :
  (forall i, i <> id -> nthN (refs s') i = nthN (refs s) i) -> backend s' = backend s -> start s' = start s ->
  (forall i, i <> id -> clookup (changes s') i = clookup (changes s) i) ->
  not_container s id ->
  forall r, fst r <> id -> resolve_ref f s' r = resolve_ref f s r.
Proof.
  intros Hr Hb Hs Hc Hn. induction f as [|f IH]; intros r Hne; cbn [Model.resolve_ref];
    rewrite (Hc _ Hne), (Hr _ Hne), Hb, Hs.
  - reflexivity.
  - destruct (clookup (changes s) (fst r)) as [[p g]|]; [reflexivity|].
    destruct (nthN (refs s) (fst r)) as [e|] eqn:En; [|reflexivity].
    destruct e; try reflexivity.
    rewrite IH; [reflexivity|]. cbn [fst]. exact (Hn _ _ _ En).
Qed.

(** ---- read your writes --------------------------------------------------------------------- *)

Lemma update_ryw s old v s' r :
  update s old v = Ok (s', r) ->
  fst r = fst old /\ (forall f g, resolve_ref f s' (fst old, g) = Ok v) /\
  (not_container s (fst old) -> forall f r0, fst r0 <> fst old -> resolve_ref f s' r0 = resolve_ref f s r0) /\
  backend s' = backend s /\ refs s' = refs s /\ cache s' = [].
Proof.
  unfold update. destruct (nthN (refs s) (fst old)) as [e|]; [|discriminate].
  destruct e; cbn [bind]; try discriminate; intros H; inversion H; subst; clear H; cbn [fst snd];
    (split; [reflexivity|]); (split; [intros f g; eapply resolve_ref_changed; cbn [changes fst]; apply clookup_cinsert_same|]);
    (split; [|split; [reflexivity|split; reflexivity]]);
    intros Hn f r0 Hne; apply (resolve_ref_frame f _ _ (fst old)); try reflexivity; try assumption;
    intros i Hi; cbn [changes]; apply clookup_cinsert_other; exact Hi.
Qed.

Lemma create_ryw s v s' r :
  create s v = (s', r) ->
  r = (lenN (refs s), 0) /\ (forall f g, resolve_ref f s' (fst r, g) = Ok v) /\
  (not_container s (fst r) -> forall f r0, fst r0 <> fst r -> resolve_ref f s' r0 = resolve_ref f s r0) /\
  backend s' = backend s /\ cache s' = [].
Proof.
  unfold create. intros H. inversion H; subst; clear H. cbn [fst].
  split; [reflexivity|]. split.
  - intros f g. eapply resolve_ref_changed. cbn [changes fst]. apply clookup_cinsert_same.
  - split; [|split; reflexivity].
    intros Hn f r0 Hne. apply (resolve_ref_frame f _ _ (lenN (refs s))); try reflexivity; try assumption.
    + intros i Hi. cbn [refs]. apply nthN_app_l. exact Hi.
    + intros i Hi. cbn [changes]. apply clookup_cinsert_other. exact Hi.
Qed.

(** promise changes what nobody can have written: only the fresh number reads differently (as an error) *)
Lemma promise_frame s s' r :
  promise s = (s', r) ->
  r = (lenN (refs s), 0) /\ changes s' = changes s /\ backend s' = backend s /\
  (not_container s (fst r) -> forall f r0, fst r0 <> fst r -> resolve_ref f s' r0 = resolve_ref f s r0).
Proof.
  unfold promise. intros H. inversion H; subst; clear H. cbn [fst changes backend].
  repeat split.
  intros Hn f r0 Hne. apply (resolve_ref_frame f _ _ (lenN (refs s))); try reflexivity; try assumption.
  intros i Hi. cbn [refs]. apply nthN_app_l. exact Hi.
Qed.

(** ---- create for a value whose conversion uses the updater ------------------------------------ *)

Lemma not_container_snoc s s' id :
  refs s' = refs s ++ [XPromised] -> not_container s id -> not_container s' id.
Proof.
  intros Hr Hn i sid idx Hi. rewrite Hr in Hi.
  destruct (N.eq_dec i (lenN (refs s))) as [E|E].
  - subst i. unfold nthN, lenN in Hi. rewrite Nat2N.id in Hi.
    rewrite nth_error_app2 in Hi by lia. rewrite Nat.sub_diag in Hi. cbn in Hi. discriminate.
  - rewrite nthN_app_l in Hi by exact E. exact (Hn _ _ _ Hi).
Qed.

(** create on a Primitive is the instance of create_with whose conversion is the identity *)
Lemma create_is_create_with s v : create_with s (fun s1 => Ok (s1, v)) = Ok (create s v).
Proof. reflexivity. Qed.

(** create(Nested{child}): two fresh, distinct numbers — the parent's is the one reserved before the conversion ran, the child's
    the next one; the parent reads as << /Child c >>, the child as the value given, every other number as before *)
Lemma create_nested_ryw s v s' rp rc :
  create_nested s v = Ok (s', (rp, rc)) ->
  rp = (lenN (refs s), 0) /\ rc = (lenN (refs s) + 1, 0) /\ fst rp <> fst rc /\
  (forall f g, resolve_ref f s' (fst rc, g) = Ok v) /\
  (forall f g, resolve_ref f s' (fst rp, g) = Ok (PDict [(k_Child, PRef (fst rc) (snd rc))])) /\
  (not_container s (fst rp) -> not_container s (fst rc) -> forall f r0, fst r0 <> fst rp -> fst r0 <> fst rc ->
     resolve_ref f s' r0 = resolve_ref f s r0) /\
  backend s' = backend s /\ cache s' = [] /\ lenN (refs s') = lenN (refs s) + 2.
Proof.
  unfold create_nested, create_with, nested_conv, create. cbn [bind refs changes backend start cache cached fst snd].
  intros H. inversion H; subst; clear H. cbn [fst snd refs changes backend cache].
  assert (Hl : lenN (refs s ++ [XPromised]) = lenN (refs s) + 1).
  { unfold lenN. rewrite app_length. cbn [length]. lia. }
  rewrite Hl.
  split; [reflexivity|]. split; [reflexivity|]. split; [lia|].
  split.
  { intros f g. eapply resolve_ref_changed. cbn [changes fst].
    rewrite clookup_cinsert_other by lia. apply clookup_cinsert_same. }
  split.
  { intros f g. eapply resolve_ref_changed. cbn [changes fst]. apply clookup_cinsert_same. }
  split.
  { intros Hnp Hnc f r0 Hne1 Hne2.
    set (s1 := mkSt (refs s ++ [XPromised]) (changes s) (backend s) (start s) [] (cached s)).
    set (s2 := mkSt ((refs s ++ [XPromised]) ++ [XPromised]) (cinsert (changes s) (lenN (refs s) + 1) (v, 0)) (backend s) (start s) [] (cached s)).
    transitivity (resolve_ref f s2 r0).
    - apply (resolve_ref_frame f _ _ (lenN (refs s))); try reflexivity; try assumption.
      + intros i Hi. cbn [changes s2]. apply clookup_cinsert_other. exact Hi.
      + apply (not_container_snoc s1 s2); [reflexivity|]. apply (not_container_snoc s s1); [reflexivity|exact Hnp].
    - transitivity (resolve_ref f s1 r0).
      + apply (resolve_ref_frame f _ _ (lenN (refs s) + 1)); try reflexivity; try assumption.
        * intros i Hi. cbn [refs s1 s2]. apply nthN_app_l. rewrite Hl. exact Hi.
        * intros i Hi. cbn [changes s1 s2]. apply clookup_cinsert_other. exact Hi.
        * apply (not_container_snoc s s1); [reflexivity|exact Hnc].
      + apply (resolve_ref_frame f _ _ (lenN (refs s))); try reflexivity; try assumption.
        intros i Hi. cbn [refs s1]. apply nthN_app_l. exact Hi. }
  split; [reflexivity|]. split; [reflexivity|].
  unfold lenN. rewrite !app_length. cbn [length]. lia.
Qed.

(** ---- create for ANY typed value: the conversion is a program over the storage ----------------- *)

(** two states that agree below [n] (table, pending values, bytes) read alike below [n], provided the containers of the
    object streams of the table lie below [n] as well *)
Lemma resolve_ref_below f s s' n :
  (forall i, i < n -> nthN (refs s') i = nthN (refs s) i) -> backend s' = backend s -> start s' = start s ->
  (forall i, i < n -> clookup (changes s') i = clookup (changes s) i) ->
  (forall i sid idx, i < n -> nthN (refs s) i = Some (XStream sid idx) -> sid < n) ->
  forall r, fst r < n -> resolve_ref f s' r = resolve_ref f s r.
Proof.
  intros Hr Hb Hs Hc Hn. induction f as [|f IH]; intros r Hlt; cbn [Model.resolve_ref];
    rewrite (Hc _ Hlt), (Hr _ Hlt), Hb, Hs.
  - reflexivity.
  - destruct (clookup (changes s) (fst r)) as [[p g]|]; [reflexivity|].
    destruct (nthN (refs s) (fst r)) as [e|] eqn:En; [|reflexivity].
    destruct e; try reflexivity.
    rewrite IH; [reflexivity|]. cbn [fst]. exact (Hn _ _ _ Hlt En).
Qed.

(** what a conversion may do to the storage it is handed: allocate (append to the table), write the numbers it allocated,
    leave everything below untouched.  Every ObjectWrite::to_primitive that only calls create / promise / fulfil-its-own
    through the updater is of this kind; [nested_conv] is (lemma below). *)
Definition conservative (conv : st -> res (st * prim)) : Prop :=
  forall s1 s2 p, conv s1 = Ok (s2, p) ->
    (exists more, refs s2 = refs s1 ++ more) /\
    (forall i, i < lenN (refs s1) -> clookup (changes s2) i = clookup (changes s1) i) /\
    backend s2 = backend s1 /\ start s2 = start s1.

Lemma nthN_app_below {A} (l more : list A) i : i < lenN l -> nthN (l ++ more) i = nthN l i.
Proof.
  unfold nthN, lenN. intros Hlt. apply nth_error_app1. lia.
Qed.

(** Updater::create for any conservative conversion: the number handed out is the one reserved before the conversion ran
    (so nothing the conversion allocates can collide with it), it reads back as the converted value, and every number
    that existed before reads as before *)
Lemma create_with_ryw s conv s' r :
  conservative conv -> create_with s conv = Ok (s', r) ->
  r = (lenN (refs s), 0) /\
  (exists s2 p, conv (mkSt (refs s ++ [XPromised]) (changes s) (backend s) (start s) [] (cached s)) = Ok (s2, p) /\
     (forall f g, resolve_ref f s' (fst r, g) = Ok p) /\
     lenN (refs s) < lenN (refs s') /\ refs s' = refs s2) /\
  ((forall i sid idx, i < lenN (refs s) -> nthN (refs s) i = Some (XStream sid idx) -> sid < lenN (refs s)) ->
     forall f r0, fst r0 < lenN (refs s) -> resolve_ref f s' r0 = resolve_ref f s r0) /\
  backend s' = backend s.
Proof.
  intros Hc. unfold create_with.
  set (s1 := mkSt (refs s ++ [XPromised]) (changes s) (backend s) (start s) [] (cached s)).
  destruct (conv s1) as [[s2 p]| | |] eqn:Ec; cbn [bind]; try discriminate.
  intros H. inversion H; subst; clear H. cbn [fst].
  destruct (Hc _ _ _ Ec) as [[more Hm] [Hch [Hb Hs]]].
  assert (Hl1 : lenN (refs s1) = lenN (refs s) + 1).
  { unfold s1. cbn [refs]. unfold lenN. rewrite app_length. cbn [length]. lia. }
  split; [reflexivity|]. split.
  { exists s2, p. split; [reflexivity|]. split.
    - intros f g. eapply resolve_ref_changed. cbn [changes fst]. apply clookup_cinsert_same.
    - cbn [refs]. split; [|reflexivity]. rewrite Hm. unfold lenN in *. rewrite app_length. lia. }
  split.
  { intros Hn f r0 Hlt.
    apply (resolve_ref_below f _ _ (lenN (refs s))); cbn [refs changes backend start]; try assumption.
    - intros i Hi. rewrite Hm. unfold s1. cbn [refs]. rewrite <- app_assoc. apply nthN_app_below. exact Hi.
    - intros i Hi. rewrite clookup_cinsert_other by lia. rewrite Hch by lia. reflexivity. }
  cbn [backend]. exact Hb.
Qed.

(** conservative conversions are closed under nesting: a conversion that itself creates a value with a conservative
    conversion (and builds its result from the reference it got) is conservative — pages whose contents create streams
    whose dictionaries create … to any depth *)
Lemma create_with_conservative conv (k : N * N -> prim) :
  conservative conv -> conservative (fun s => do r <- create_with s conv; Ok (fst r, k (snd r))).
Proof.
  intros Hc s1 s3 p. unfold create_with.
  set (s1' := mkSt (refs s1 ++ [XPromised]) (changes s1) (backend s1) (start s1) [] (cached s1)).
  destruct (conv s1') as [[s2 q]| | |] eqn:Ec; cbn [bind]; try discriminate.
  intros H. inversion H; subst; clear H. cbn [fst snd refs changes backend start].
  destruct (Hc _ _ _ Ec) as [[more Hm] [Hch [Hb Hs]]].
  split; [exists ([XPromised] ++ more); rewrite Hm; unfold s1'; cbn [refs]; rewrite <- app_assoc; reflexivity|].
  split; [|split; [exact Hb|exact Hs]].
  intros i Hi. rewrite clookup_cinsert_other by lia. rewrite Hch; [reflexivity|].
  unfold s1'. cbn [refs]. unfold lenN in *. rewrite app_length. cbn [length]. lia.
Qed.

Lemma nested_conv_conservative v : conservative (nested_conv v).
Proof.
  intros s1 s2 p. unfold nested_conv, create. intros H. inversion H; subst; clear H. cbn [refs changes backend start].
  split; [exists [XPromised]; reflexivity|]. split; [|split; reflexivity].
  intros i Hi. apply clookup_cinsert_other. lia.
Qed.

(** ---- the cache is invisible -------------------------------------------------------------- *)

Definition cache_ok (s : st) : Prop :=
  forall r v, cache_get (cache s) r = Some v -> v = resolve s r.

Lemma cache_ok_empty s : cache s = [] -> cache_ok s.
Proof. intros E r v. rewrite E. discriminate. Qed.

Lemma get_coherent s r s' v :
  cache_ok s -> get s r = (s', v) ->
  v = resolve s r /\ cache_ok s' /\ refs s' = refs s /\ changes s' = changes s /\ backend s' = backend s /\
  (forall r0, resolve s' r0 = resolve s r0).
Proof.
  intros Hok. unfold Model.get. destruct (cached s).
  - destruct (cache_get (cache s) r) as [c|] eqn:Ec; intros H; inversion H; subst; clear H.
    + repeat split; try assumption. apply Hok. exact Ec.
    + repeat split.
      intros r0 v0. cbn [cache cache_get].
      destruct ((fst r =? fst r0) && (snd r =? snd r0)) eqn:E.
      * apply andb_prop in E. destruct E as [E1 E2]. apply N.eqb_eq in E1, E2.
        intros Hv. inversion Hv. destruct r, r0. cbn in E1, E2. subst. reflexivity.
      * intros Hv. rewrite (Hok _ _ Hv). reflexivity.
  - intros H; inversion H; subst. repeat split; assumption.
Qed.

(** ---- save ---------------------------------------------------------------------------------- *)

(** the loop of write_revision: appends, touches only the entries of the changed numbers, turns them into
    in-use entries, and on success records for every change where its bytes are *)
Lemma write_changes_frame cs : forall rf base out rf' out' fl,
  write_changes cs rf base out = (rf', out', fl) ->
  length rf' = length rf /\ (exists ext, out' = out ++ ext) /\
  (forall i, ~ In i (map fst cs) -> nthN rf' i = nthN rf i) /\
  (forall i e, nthN rf' i = Some e -> nthN rf i = Some e \/ exists p g, e = XRaw p g).
Proof.
  induction cs as [|[id [p g]] t IH]; intros rf base out rf' out' fl H; cbn [Model.write_changes] in H.
  - inversion H; subst. repeat split; try reflexivity. exists []. rewrite app_nil_r. reflexivity.
    intros i e He. left. exact He.
  - set (rf1 := xset rf id (XRaw (base + lenN out) g)) in *.
    assert (F1 : length rf1 = length rf) by apply xset_length.
    assert (F2 : forall i, ~ In i (map fst ((id, (p, g)) :: t)) -> nthN rf1 i = nthN rf i).
    { intros i Hi. apply xset_other. intros E. apply Hi. left. exact E. }
    assert (F3 : forall i e, nthN rf1 i = Some e -> nthN rf i = Some e \/ exists p g, e = XRaw p g).
    { intros i e He. destruct (N.eq_dec id i) as [E|E].
      - subst i. destruct (N.lt_ge_cases id (lenN rf)) as [L|L].
        + unfold rf1 in He. rewrite xset_same in He by exact L. inversion He. right. eauto.
        + rewrite nthN_none in He; [discriminate|]. unfold lenN in *. rewrite F1. exact L.
      - unfold rf1 in He. rewrite xset_other in He by exact E. left. exact He. }
    destruct (ser p) as [body|e|k|] eqn:Es.
    + destruct (IH _ _ _ _ _ _ H) as [L [[ext Hext] [Fr Fk]]].
      split; [congruence|]. split; [exists (obj_bytes id g body ++ ext); rewrite Hext, app_assoc; reflexivity|].
      split.
      * intros i Hi. rewrite Fr; [apply F2; exact Hi|]. intros Hin. apply Hi. right. exact Hin.
      * intros i e He. destruct (Fk i e He) as [H1|H1]; [apply F3; exact H1|right; exact H1].
    + inversion H; subst. split; [exact F1|]. split; [exists []; rewrite app_nil_r; reflexivity|]. split; assumption.
    + inversion H; subst. split; [exact F1|]. split; [exists []; rewrite app_nil_r; reflexivity|]. split; assumption.
    + inversion H; subst. split; [exact F1|]. split; [exists []; rewrite app_nil_r; reflexivity|]. split; assumption.
Qed.

Lemma write_changes_layout cs : forall rf base out rf' out',
  write_changes cs rf base out = (rf', out', None) ->
  NoDup (map fst cs) -> (forall i, In i (map fst cs) -> i < lenN rf) ->
  forall id p g, In (id, (p, g)) cs ->
  exists body pre post, ser p = Ok body /\ out' = pre ++ obj_bytes id g body ++ post /\
                        nthN rf' id = Some (XRaw (base + lenN pre) g).
Proof.
  induction cs as [|[id0 [p0 g0]] t IH]; intros rf base out rf' out' H Hnd Hrange id p g Hin; [destruct Hin|].
  cbn [Model.write_changes] in H. cbn [map fst] in Hnd. inversion Hnd as [|? ? Hnotin Hnd']; subst.
  destruct (ser p0) as [body0|e|k|] eqn:Es; try (inversion H; fail).
  destruct Hin as [E|Hin].
  - inversion E; subst id0 p0 g0; clear E.
    destruct (write_changes_frame _ _ _ _ _ _ _ H) as [L [[ext Hext] [Fr _]]].
    exists body0, out, ext. split; [exact Es|]. split; [rewrite Hext, app_assoc; reflexivity|].
    rewrite Fr by exact Hnotin. apply xset_same. apply Hrange. left. reflexivity.
  - apply (IH _ _ _ _ _ H Hnd'); [|exact Hin].
    intros i Hi. unfold lenN. rewrite xset_length. apply Hrange. right. exact Hi.
Qed.

(** a well-formed state: unique pending numbers, all inside the table, header inside the buffer *)
Definition wf_st (s : st) : Prop :=
  NoDup (map fst (changes s)) /\ (forall i, In i (map fst (changes s)) -> i < lenN (refs s)) /\ start s <= lenN (backend s).

Lemma cinsert_keys c id v : forall i, In i (map fst (cinsert c id v)) <-> (i = id \/ In i (map fst c)).
Proof.
  induction c as [|[k w] t IH]; intros i; cbn [cinsert map fst In].
  - split; [intros [H|[]]; left; congruence|intros [H|[]]; left; congruence].
  - destruct (k =? id) eqn:E; cbn [map fst In].
    + apply N.eqb_eq in E. subst. intuition (subst; auto).
    + rewrite IH. intuition (subst; auto).
Qed.

Lemma cinsert_nodup c id v : NoDup (map fst c) -> NoDup (map fst (cinsert c id v)).
Proof.
  induction c as [|[k w] t IH]; intros H; cbn [cinsert map fst].
  - constructor; [intros []|constructor].
  - inversion H as [|? ? Hn Ht]; subst. destruct (k =? id) eqn:E; cbn [map fst].
    + constructor; assumption.
    + constructor; [|apply IH; exact Ht]. rewrite cinsert_keys. apply N.eqb_neq in E. intros [H1|H1]; [congruence|exact (Hn H1)].
Qed.

Lemma create_wf s v s' r : wf_st s -> create s v = (s', r) -> wf_st s'.
Proof.
  intros [H1 [H2 H3]] H. unfold create in H. inversion H; subst; clear H. unfold wf_st. cbn [changes refs backend start].
  split; [apply cinsert_nodup; exact H1|]. split; [|exact H3].
  intros i Hi. apply cinsert_keys in Hi. unfold lenN in *. rewrite app_length. cbn [length].
  destruct Hi as [Hi|Hi]; [subst; lia|specialize (H2 i Hi); lia].
Qed.

Lemma promise_wf s s' r : wf_st s -> promise s = (s', r) -> wf_st s'.
Proof.
  intros [H1 [H2 H3]] H. unfold promise in H. inversion H; subst; clear H. unfold wf_st. cbn [changes refs backend start].
  split; [exact H1|]. split; [|exact H3].
  intros i Hi. unfold lenN in *. rewrite app_length. cbn [length]. specialize (H2 i Hi). lia.
Qed.

Lemma update_wf s old v s' r : wf_st s -> update s old v = Ok (s', r) -> wf_st s'.
Proof.
  intros [H1 [H2 H3]]. unfold update. destruct (nthN (refs s) (fst old)) as [e|] eqn:En; [|discriminate].
  assert (Hlt : fst old < lenN (refs s)).
  { destruct (N.lt_ge_cases (fst old) (lenN (refs s))) as [L|L]; [exact L|]. rewrite nthN_none in En by exact L. discriminate. }
  destruct e; cbn [bind]; try discriminate; intros H; inversion H; subst; clear H; unfold wf_st; cbn [changes refs backend start];
    (split; [apply cinsert_nodup; exact H1|]); (split; [|exact H3]);
    intros i Hi; apply cinsert_keys in Hi; destruct Hi as [Hi|Hi]; [subst; exact Hlt|exact (H2 i Hi)| subst; exact Hlt|exact (H2 i Hi)| subst; exact Hlt|exact (H2 i Hi)].
Qed.

(** the previous bytes are an unmodified prefix of whatever save leaves in the buffer *)
Theorem save_prefix s tr s' tr' fl :
  save s tr = Ok (s', tr', fl) -> exists ext, backend s' = backend s ++ ext.
Proof.
  unfold Model.save.
  set (s1i := match t_info tr with Some d => let '(s1, r) := create s (PDict d) in (s1, Some r) | None => (s, None) end).
  assert (Hb : backend (fst s1i) = backend s).
  { unfold s1i. destruct (t_info tr); [unfold create; reflexivity|reflexivity]. }
  destruct s1i as [s1 iref]. cbn [fst] in Hb.
  unfold Model.write_revision.
  destruct (write_changes (sort_changes (changes s1)) (refs s1 ++ [XPromised]) (lenN (backend s1) - start s1) []) as [[rf1 out1] fail] eqn:Ew.
  destruct fail as [e|].
  - destruct e; try discriminate. intros H. inversion H; subst. exists []. rewrite app_nil_r. exact Hb.
  - match goal with |- context [write_stream ?a ?b] => destruct (write_stream a b) as [[[aw bw] data]|e|k|] eqn:Es end; try discriminate.
    + match goal with |- context [ser ?x] => destruct (ser x) as [xs|e|k|] eqn:Ex end; try discriminate.
      * intros H. inversion H; subst. cbn [backend]. rewrite Hb. eexists. reflexivity.
      * intros H. inversion H; subst. exists []. rewrite app_nil_r. exact Hb.
    + intros H. inversion H; subst. exists []. rewrite app_nil_r. exact Hb.
Qed.

(** the state in which write_revision runs: after Trailer::to_dict created the information dictionary *)
Definition save_pre (s : st) (tr : trailer) : st :=
  match t_info tr with Some d => fst (create s (PDict d)) | None => s end.

Lemma save_pre_wf s tr : wf_st s -> wf_st (save_pre s tr).
Proof.
  intros H. unfold save_pre. destruct (t_info tr); [|exact H].
  eapply create_wf; [exact H|]. apply surjective_pairing.
Qed.

Lemma save_pre_keeps s tr id v : wf_st s -> clookup (changes s) id = Some v -> clookup (changes (save_pre s tr)) id = Some v.
Proof.
  intros [_ [H2 _]] H. unfold save_pre. destruct (t_info tr); [|exact H].
  unfold create. cbn [fst changes]. rewrite clookup_cinsert_other; [exact H|].
  intros E. subst id. specialize (H2 (lenN (refs s))). apply clookup_In in H.
  assert (Hi : In (lenN (refs s)) (map fst (changes s))) by (apply in_map_iff; exists (lenN (refs s), v); split; [reflexivity|exact H]).
  specialize (H2 Hi). lia.
Qed.

Definition table_in_range (rf : list xent) : Prop :=
  Forall (fun e => match xfields e with Some (_, x, y) => x < 2 ^ 64 /\ y < 2 ^ 64 | None => True end) rf.

(** what a successful save leaves behind (the link between the in-memory state and the bytes) *)
Theorem save_layout s tr s' tr' :
  wf_st s -> save s tr = Ok (s', tr', None) ->
  let s1 := save_pre s tr in
  (* every pending object is in the buffer, at the offset (relative to the header) its entry announces *)
  (forall id p g, clookup (changes s1) id = Some (p, g) ->
     exists body pre post, ser p = Ok body /\ backend s' = pre ++ obj_bytes id g body ++ post /\
                           start s <= lenN pre /\ nthN (refs s') id = Some (XRaw (lenN pre - start s) g)) /\
  (* entries of numbers that were not written are exactly what they were *)
  (forall i, clookup (changes s1) i = None -> i < lenN (refs s1) -> nthN (refs s') i = nthN (refs s1) i) /\
  (* the table has one more entry — the cross-reference stream itself — and was written out completely *)
  lenN (refs s') = lenN (refs s1) + 1 /\
  (exists xpos aw bw data xd xs,
     write_stream (refs s') (lenN (refs s')) = Ok (aw, bw, data) /\
     nthN (refs s') (lenN (refs s1)) = Some (XRaw xpos 0) /\
     ser (PStreamData xd data) = Ok xs /\
     (exists pre, backend s' = pre ++ obj_header (lenN (refs s1)) 0 ++ xs ++ kw_endobj_nl ++ startxref_tail xpos /\
                  lenN pre = start s + xpos)) /\
  start s' = start s /\ cache s' = [].
Proof.
  intros Hwf0 H. cbv zeta.
  pose proof (save_pre_wf s tr Hwf0) as Hwf.
  assert (Hst : start (save_pre s tr) = start s /\ backend (save_pre s tr) = backend s).
  { unfold save_pre. destruct (t_info tr); split; reflexivity. }
  destruct Hst as [Hst Hbk].
  unfold Model.save in H.
  assert (Epre : match t_info tr with Some d => let '(s1, r) := create s (PDict d) in (s1, Some r) | None => (s, None) end
                 = (save_pre s tr, match t_info tr with Some d => Some (snd (create s (PDict d))) | None => None end)).
  { unfold save_pre. destruct (t_info tr); reflexivity. }
  rewrite Epre in H. clear Epre.
  set (s1 := save_pre s tr) in *.
  set (td := trailer_dict tr (Z.of_N (lenN (refs s) + 2)) _) in H.
  unfold Model.write_revision in H.
  destruct (write_changes (sort_changes (changes s1)) (refs s1 ++ [XPromised]) (lenN (backend s1) - start s1) []) as [[rf1 out1] fail] eqn:Ew.
  destruct fail as [e|]; [destruct e; discriminate|].
  set (X := lenN (refs s1)) in *.
  set (xpos := lenN (backend s1) - start s1 + lenN out1) in *.
  destruct (write_stream (xset rf1 X (XRaw xpos 0)) (X + 1)) as [[[aw bw] data]|e|k|] eqn:Es; try discriminate.
  match type of H with context [ser ?x] => destruct (ser x) as [xs|e|k|] eqn:Ex end; try discriminate.
  inversion H; subst s' tr'; clear H. cbn [refs backend start cache].
  destruct Hwf as [Hnd [Hrange Hstart]].
  pose proof (sort_changes_perm (changes s1)) as Hperm.
  assert (Hnd' : NoDup (map fst (sort_changes (changes s1)))).
  { eapply Permutation_NoDup; [apply Permutation_sym; apply Permutation_map; exact Hperm|exact Hnd]. }
  assert (Hrange' : forall i, In i (map fst (sort_changes (changes s1))) -> i < lenN (refs s1 ++ [XPromised])).
  { intros i Hi. unfold lenN. rewrite app_length. cbn [length].
    assert (In i (map fst (changes s1))) by (eapply Permutation_in; [apply Permutation_map; exact Hperm|exact Hi]).
    specialize (Hrange i H). unfold lenN in Hrange. lia. }
  destruct (write_changes_frame _ _ _ _ _ _ _ Ew) as [Hlen [_ [Hfr _]]].
  assert (HlenX : lenN rf1 = X + 1).
  { unfold lenN. rewrite Hlen, app_length. cbn [length]. unfold X, lenN. lia. }
  split; [|split; [|split; [|split; [|split; [exact Hst|reflexivity]]]]].
  - intros id p g Hl.
    assert (Hin : In (id, (p, g)) (sort_changes (changes s1))).
    { eapply Permutation_in; [apply Permutation_sym; exact Hperm|apply clookup_In; exact Hl]. }
    destruct (write_changes_layout _ _ _ _ _ _ Ew Hnd' Hrange' id p g Hin) as [body [pre [post [Hs [Ho Hn]]]]].
    exists body, (backend s1 ++ pre), (post ++ obj_header X 0 ++ xs ++ kw_endobj_nl ++ startxref_tail xpos).
    split; [exact Hs|]. split; [rewrite Ho; rewrite <- !app_assoc; reflexivity|].
    assert (Hidlt : id < X).
    { apply Hrange. apply in_map_iff. exists (id, (p, g)). split; [reflexivity|apply clookup_In; exact Hl]. }
    split; [unfold lenN in *; rewrite app_length; rewrite <- Hst; fold s1; lia|].
    rewrite xset_other by lia. rewrite Hn. f_equal. f_equal.
    unfold lenN in *. rewrite app_length. rewrite <- Hst. fold s1. lia.
  - intros i Hi Hlt. rewrite xset_other by (unfold X; lia).
    rewrite Hfr.
    + apply nthN_app_l. unfold X in *. lia.
    + intros Hin. apply (clookup_None_notin _ _ Hi).
      eapply Permutation_in; [apply Permutation_map; exact Hperm|exact Hin].
  - unfold lenN. rewrite xset_length. fold (lenN rf1). rewrite HlenX. reflexivity.
  - exists xpos, aw, bw, data, (merge_dict (xref_info_dict (X + 1) aw bw (lenN data)) td), xs.
    assert (Hl2 : lenN (xset rf1 X (XRaw xpos 0)) = X + 1) by (unfold lenN; rewrite xset_length; exact HlenX).
    split; [rewrite Hl2; exact Es|].
    split; [apply xset_same; lia|].
    split; [exact Ex|].
    exists (backend s1 ++ out1). split; [rewrite <- !app_assoc; reflexivity|].
    unfold lenN in *. rewrite app_length. unfold xpos, lenN. rewrite <- Hst. fold s1. lia.
Qed.

(** after a reload whose table agrees with the saved one, every written reference resolves to the last
    value written (oracle premise parse_ser = property C04), whatever generation the caller passes *)
Theorem reload_sees_writes s tr s' tr' s3 :
  (forall pre id g p body post, ser p = Ok body ->
     parse_obj (pre ++ obj_bytes id g body ++ post) (lenN pre) = Ok (id, g, p)) ->
  wf_st s -> save s tr = Ok (s', tr', None) ->
  changes s3 = [] -> backend s3 = backend s' -> start s3 = start s ->
  (forall i, i < lenN (refs s') -> nthN (refs s3) i = nthN (refs s') i) ->
  forall id p g g', clookup (changes (save_pre s tr)) id = Some (p, g) -> resolve s3 (id, g') = Ok p.
Proof.
  intros Hparse Hwf Hsave Hc Hb Hs Ht id p g g' Hl.
  destruct (save_layout s tr s' tr' Hwf Hsave) as [H1 [_ [Hlen _]]].
  destruct (H1 id p g Hl) as [body [pre [post [Hser [Hbk [Hle Hn]]]]]].
  unfold Model.resolve, Model.resolve_ref. cbn [fst]. rewrite Hc. cbn [clookup].
  assert (Hid : id < lenN (refs s')).
  { destruct (N.lt_ge_cases id (lenN (refs s'))) as [L|L]; [exact L|]. rewrite nthN_none in Hn by exact L. discriminate. }
  rewrite (Ht id Hid), Hn, Hb, Hs, Hbk.
  replace (start s + (lenN pre - start s)) with (lenN pre) by lia.
  rewrite (Hparse pre id g p body post Hser). reflexivity.
Qed.

(** ... and every untouched object of the previous revision to what it was (oracle premise parse_stable) *)
Theorem reload_keeps_untouched s tr s' tr' s3 :
  (forall b ext pos v, parse_obj b pos = Ok v -> parse_obj (b ++ ext) pos = Ok v) ->
  wf_st s -> save s tr = Ok (s', tr', None) ->
  changes s3 = [] -> backend s3 = backend s' -> start s3 = start s ->
  (forall i, i < lenN (refs s') -> nthN (refs s3) i = nthN (refs s') i) ->
  forall i g pos gen v, clookup (changes (save_pre s tr)) i = None -> nthN (refs s) i = Some (XRaw pos gen) ->
    parse_obj (backend s) (start s + pos) = Ok v ->
    resolve s3 (i, g) = Ok (snd v).
Proof.
  intros Hstable Hwf Hsave Hc Hb Hs Ht i g pos gen v Hl Hn Hp.
  destruct (save_layout s tr s' tr' Hwf Hsave) as [_ [H2 [Hlen _]]].
  destruct (save_prefix _ _ _ _ _ Hsave) as [ext Hext].
  assert (Hi : i < lenN (refs s)).
  { destruct (N.lt_ge_cases i (lenN (refs s))) as [L|L]; [exact L|]. rewrite nthN_none in Hn by exact L. discriminate. }
  assert (Hrefs1 : nthN (refs (save_pre s tr)) i = nthN (refs s) i /\ lenN (refs s) <= lenN (refs (save_pre s tr))).
  { unfold save_pre. destruct (t_info tr); [|split; [reflexivity|lia]]. unfold create. cbn [fst refs].
    split; [apply nthN_app_l; lia|unfold lenN; rewrite app_length; lia]. }
  destruct Hrefs1 as [Hr1 Hr2].
  unfold Model.resolve, Model.resolve_ref. cbn [fst]. rewrite Hc. cbn [clookup].
  rewrite (Ht i ltac:(lia)), (H2 i Hl ltac:(lia)), Hr1, Hn, Hb, Hs, Hext.
  rewrite (Hstable _ ext _ _ Hp). reflexivity.
Qed.

(** a failed save: the buffer is untouched, the pending changes are all still there, the table has its
    old length, no entry became Promised, and entries of unwritten numbers are what they were — the
    state a retry starts from differs from the state before only in offsets that the retry overwrites *)
Theorem failed_save_recovers s tr s' tr' e :
  wf_st s -> save s tr = Ok (s', tr', Some e) ->
  let s1 := save_pre s tr in
  backend s' = backend s /\ changes s' = changes s1 /\ lenN (refs s') = lenN (refs s1) /\ tr' = tr /\
  (forall i, clookup (changes s1) i = None -> nthN (refs s') i = nthN (refs s1) i) /\
  (forall i x, nthN (refs s') i = Some x -> nthN (refs s1) i = Some x \/ exists p g, x = XRaw p g) /\
  wf_st s'.
Proof.
  intros Hwf0 H. cbv zeta.
  pose proof (save_pre_wf s tr Hwf0) as Hwf.
  assert (Hbk : backend (save_pre s tr) = backend s).
  { unfold save_pre. destruct (t_info tr); reflexivity. }
  unfold Model.save in H.
  assert (Epre : match t_info tr with Some d => let '(s1, r) := create s (PDict d) in (s1, Some r) | None => (s, None) end
                 = (save_pre s tr, match t_info tr with Some d => Some (snd (create s (PDict d))) | None => None end)).
  { unfold save_pre. destruct (t_info tr); reflexivity. }
  rewrite Epre in H. clear Epre.
  set (s1 := save_pre s tr) in *.
  unfold Model.write_revision in H.
  destruct (write_changes (sort_changes (changes s1)) (refs s1 ++ [XPromised]) (lenN (backend s1) - start s1) []) as [[rf1 out1] fail] eqn:Ew.
  pose proof (sort_changes_perm (changes s1)) as Hperm.
  destruct (write_changes_frame _ _ _ _ _ _ _ Ew) as [Hlen [_ [Hfr Hk]]].
  set (X := lenN (refs s1)) in *.
  assert (HlenX : lenN rf1 = X + 1).
  { unfold lenN. rewrite Hlen, app_length. cbn [length]. unfold X, lenN. lia. }
  (* the table handed back in every failing branch has the shape [take X (… rf1 …)] *)
  assert (G : forall rf, lenN rf = X + 1 ->
              (forall i, i <> X -> nthN rf i = nthN rf1 i) ->
              let s2 := mkSt (take X rf) (changes s1) (backend s1) (start s1) (cache s1) (cached s1) in
              backend s2 = backend s /\ changes s2 = changes s1 /\ lenN (refs s2) = X /\
              (forall i, clookup (changes s1) i = None -> nthN (refs s2) i = nthN (refs s1) i) /\
              (forall i x, nthN (refs s2) i = Some x -> nthN (refs s1) i = Some x \/ exists p g, x = XRaw p g) /\
              wf_st s2).
  { intros rf Hl Hsame. cbv zeta. cbn [backend changes refs start].
    assert (Hlt : lenN (take X rf) = X) by (apply lenN_take; lia).
    split; [exact Hbk|]. split; [reflexivity|]. split; [exact Hlt|].
    assert (Hget : forall i, i < X -> nthN (take X rf) i = nthN rf1 i).
    { intros i Hi. rewrite nthN_take by exact Hi. apply Hsame. lia. }
    split; [|split].
    - intros i Hi. destruct (N.lt_ge_cases i X) as [L|L].
      + rewrite Hget by exact L. rewrite Hfr.
        * apply nthN_app_l. unfold X in L. lia.
        * intros Hin. apply (clookup_None_notin _ _ Hi). eapply Permutation_in; [apply Permutation_map; exact Hperm|exact Hin].
      + rewrite nthN_none by lia. symmetry. apply nthN_none. exact L.
    - intros i x Hx. destruct (N.lt_ge_cases i X) as [L|L].
      + rewrite Hget in Hx by exact L. destruct (Hk i x Hx) as [H1|H1]; [|right; exact H1].
        left. rewrite nthN_app_l in H1 by (unfold X in L; lia). exact H1.
      + rewrite nthN_none in Hx by lia. discriminate.
    - destruct Hwf as [W1 [W2 W3]]. unfold wf_st. cbn [changes refs backend start]. split; [exact W1|]. split; [|exact W3].
      intros i Hi. rewrite Hlt. apply W2. exact Hi. }
  destruct fail as [e0|].
  - destruct e0 as [|e0| |]; try discriminate. inversion H; subst s' tr' e0; clear H.
    destruct (G rf1 HlenX ltac:(intros; reflexivity)) as [G1 [G2 [G3 [G4 [G5 G6]]]]].
    (split; [exact G1|split; [exact G2|split; [exact G3|split; [reflexivity|split; [exact G4|split; [exact G5|exact G6]]]]]]).
  - set (xpos := lenN (backend s1) - start s1 + lenN out1) in *.
    assert (G' := G (xset rf1 X (XRaw xpos 0)) ltac:(unfold lenN; rewrite xset_length; exact HlenX)
                    ltac:(intros i Hi; apply xset_other; congruence)).
    cbv zeta in G'. destruct G' as [G1 [G2 [G3 [G4 [G5 G6]]]]].
    destruct (write_stream (xset rf1 X (XRaw xpos 0)) (X + 1)) as [[[aw bw] data]|e0|k|] eqn:Es; try discriminate.
    + match type of H with context [ser ?x] => destruct (ser x) as [xs|e0|k|] eqn:Ex end; try discriminate.
      inversion H; subst s' tr' e0; clear H. (split; [exact G1|split; [exact G2|split; [exact G3|split; [reflexivity|split; [exact G4|split; [exact G5|exact G6]]]]]]).
    + inversion H; subst s' tr' e0; clear H. (split; [exact G1|split; [exact G2|split; [exact G3|split; [reflexivity|split; [exact G4|split; [exact G5|exact G6]]]]]]).
Qed.

(** a saved state is well-formed again: everything above applies to the second save, the third, ... *)
Theorem save_wf s tr s' tr' :
  wf_st s -> save s tr = Ok (s', tr', None) -> wf_st s' /\ backend s' <> backend s.
Proof.
  intros Hwf0 H.
  pose proof (save_pre_wf s tr Hwf0) as Hwf.
  assert (Hbk : backend (save_pre s tr) = backend s).
  { unfold save_pre. destruct (t_info tr); reflexivity. }
  unfold Model.save in H.
  assert (Epre : match t_info tr with Some d => let '(s1, r) := create s (PDict d) in (s1, Some r) | None => (s, None) end
                 = (save_pre s tr, match t_info tr with Some d => Some (snd (create s (PDict d))) | None => None end)).
  { unfold save_pre. destruct (t_info tr); reflexivity. }
  rewrite Epre in H. clear Epre.
  set (s1 := save_pre s tr) in *.
  unfold Model.write_revision in H.
  destruct (write_changes (sort_changes (changes s1)) (refs s1 ++ [XPromised]) (lenN (backend s1) - start s1) []) as [[rf1 out1] fail] eqn:Ew.
  destruct fail as [e|]; [destruct e; discriminate|].
  destruct (write_changes_frame _ _ _ _ _ _ _ Ew) as [Hlen _].
  match type of H with context [write_stream ?a ?b] => destruct (write_stream a b) as [[[aw bw] data]|e|k|] eqn:Es end; try discriminate.
  match type of H with context [ser ?x] => destruct (ser x) as [xs|e|k|] eqn:Ex end; try discriminate.
  inversion H; subst s' tr'; clear H.
  destruct Hwf as [W1 [W2 W3]].
  split.
  - unfold wf_st. cbn [changes refs backend start].
    split; [apply cinsert_nodup; exact W1|]. split.
    + intros i Hi. apply cinsert_keys in Hi. unfold lenN in *. rewrite xset_length, Hlen, app_length. cbn [length].
      destruct Hi as [Hi|Hi]; [subst; lia|specialize (W2 i Hi); lia].
    + unfold lenN in *. rewrite app_length. lia.
  - cbn [backend]. rewrite Hbk. intros E. apply (f_equal (@length N)) in E. unfold startxref_tail in E.
    rewrite !app_length in E. cbn [length] in E. lia.
Qed.

End WithOracles.
