(** Storage/RunBuild.v — harness entry point of the builder model (Builder.v): mode `build_bytes`.
    Fields: page lines `mb=<l,b,r,t|-> cb=… tb=… rot=<int> ct=<hex of the serialised content stream> other=<canon dict>`,
    information lines `<Key>=<hex>` (`-` = no information dictionary).  Output: the bytes of the built file.
    Mirrors harness/src/modes/storage.rs: build_bytes.  No proofs in this file. *)
From PdfV Require Import Base.Prelude Storage.Prim Storage.Model Storage.Builder Storage.Run.

Fixpoint after_eq (t : bytes) : bytes :=
  match t with [] => [] | c :: r => if c =? 61 then r else after_eq r end.
Fixpoint before_eq (t : bytes) : bytes :=
  match t with [] => [] | c :: r => if c =? 61 then [] else c :: before_eq r end.

(** a coordinate as the serialiser prints it: `{}` of the f32 (with a fraction: a real; without: `n as i64`) *)
Definition num_of (t : bytes) : prim := if existsb (fun b => b =? 46) t then PReal t else PInt (Z_of_dec t).
Definition box_of (t : bytes) : option (list prim) :=
  if beq_bytes t [45] then None else Some (map num_of (split_on 44 t [])).

Definition page_of (line : bytes) : res page :=
  let '(t1, r1) := tok line [] in
  let '(t2, r2) := tok r1 [] in
  let '(t3, r3) := tok r2 [] in
  let '(t4, r4) := tok r3 [] in
  let '(t5, r5) := tok r4 [] in
  match uncanon (after_eq r5) with
  | Some (PDict d) =>
      Ok (mkPage d (box_of (after_eq t1)) (box_of (after_eq t2)) (box_of (after_eq t3)) (Z_of_dec (after_eq t4))
                 (fst (unhex (after_eq t5) [])))
  | _ => Err 90
  end.

Fixpoint pages_of (ls : list bytes) : res (list page) :=
  match ls with
  | [] => Ok []
  | [] :: t => pages_of t
  | l :: t => do p <- page_of l; do r <- pages_of t; Ok (p :: r)
  end.

Definition info_of (t : bytes) : option dict :=
  if beq_bytes t [45] then None
  else Some (flat_map (fun l => match l with [] => [] | _ => [(before_eq l, PStr (fst (unhex (after_eq l) [])))] end)
                      (split_on 10 t [])).

Definition run_build_bytes (fs : list bytes) : res (list bytes) :=
  do ps <- pages_of (split_on 10 (field fs 0) []);
  do r <- build ps (info_of (field fs 1));
  match r with
  | (s', _, None) => Ok [backend s']
  | (_, _, Some e) => Err e
  end.
