(** Storage/Prim.v — the object model of the storage area IS the shared one (PdfV.Syn.Prim.prim: the
    constructors of pdf::primitive::Primitive, streams [PStreamData] = StreamInner::Pending and
    [PStream] = StreamInner::InFile; a real is carried as the decimal text the serialiser prints / the
    lexer hands to str::parse::<f32>).  This file adds the dictionary helpers in the argument order of the
    storage model, the canonical text form of the harness protocol (harness/src/util.rs::canon, reals as
    f32 bit patterns) and the lexical helpers of the reload glue.  No proofs in this file. *)
From PdfV Require Import Base.Prelude.
From PdfV Require Export Syn.Prim.

Fixpoint beq_bytes (a b : bytes) : bool :=
  match a, b with
  | [], [] => true
  | x :: a', y :: b' => (x =? y) && beq_bytes a' b'
  | _, _ => false
  end.

(** primitive.rs: Dictionary::get *)
Fixpoint dget (d : dict) (k : bytes) : option prim :=
  match d with
  | [] => None
  | (k', v) :: t => if beq_bytes k k' then Some v else dget t k
  end.

(** primitive.rs: Dictionary::insert (IndexMap: an existing key keeps its position) *)
Fixpoint dinsert (d : dict) (k : bytes) (v : prim) : dict :=
  match d with
  | [] => [(k, v)]
  | (k', v') :: t => if beq_bytes k k' then (k', v) :: t else (k', v') :: dinsert t k v
  end.

Fixpoint dremove (d : dict) (k : bytes) : dict :=
  match d with
  | [] => []
  | (k', v') :: t => if beq_bytes k k' then t else (k', v') :: dremove t k
  end.

(* ------------------------------------------------------------------------------------------ *)
(** canonical text form (harness/src/util.rs: canon_into) *)

Definition hexdig (n : N) : N := if n <? 10 then 48 + n else 87 + n.
Fixpoint hexs (l : bytes) : bytes :=
  match l with [] => [] | b :: t => hexdig (b / 16) :: hexdig (b mod 16) :: hexs t end.

Fixpoint hex_fixed (w : nat) (n : N) : bytes :=
  match w with O => [] | S k => hexdig ((n / 16 ^ N.of_nat k) mod 16) :: hex_fixed k n end.

(** Backend::read(lo..hi) as used by stream_data (no decryption, no filters) *)
Definition read_range (bk : bytes) (lo hi : N) : option bytes :=
  if (lo <=? hi) && (hi <=? lenN bk) then Some (take (hi - lo) (drop lo bk)) else None.

(** PdfStream::raw_data without filters: the bytes of a stream value ([bk] = the backend for in-file streams) *)
Definition raw_data (bk : bytes) (p : prim) : option bytes :=
  match p with
  | PStreamData _ data => Some data
  | PStream _ _ _ st ln => read_range bk st (st + ln)
  | _ => None
  end.

(** the f32 denoted by a decimal text (sign? digits ('.' digits)?) — str::parse::<f32> on the executable
    domain (exactly representable values, see [f32_of_dec] below); [None] outside *)
Fixpoint span_dig (s : bytes) : bytes * bytes :=
  match s with
  | c :: t => if (48 <=? c) && (c <=? 57) then let '(a, r) := span_dig t in (c :: a, r) else ([], s)
  | [] => ([], [])
  end.

(** str::parse::<f32> for decimals that are exactly representable (execution only) *)
Definition f32_of_dec (neg : bool) (mant : N) (scale : N) : option N :=
  let p5 := 5 ^ scale in
  if negb (mant mod p5 =? 0) then None
  else
    let q := mant / p5 in
    if q =? 0 then Some (if neg then 2147483648 else 0)
    else
      let L := N.log2 q in
      if 23 <? L then None
      else
        let M := q * 2 ^ (23 - L) in
        let E := 127 + L in
        if E <=? scale then None
        else
          let E' := E - scale in
          if 254 <? E' then None
          else Some ((if neg then 2147483648 else 0) + E' * 8388608 + (M - 8388608)).

Definition bits_of_text (w : bytes) : option N :=
  let '(neg, w1) := match w with c :: t => if c =? 45 then (true, t) else if c =? 43 then (false, t) else (false, w) | [] => (false, w) end in
  let '(ip, r) := span_dig w1 in
  match r with
  | [] => match ip with [] => None | _ => f32_of_dec neg (N_of_dec ip) 0 end
  | c :: r1 =>
    if c =? 46 then
      let '(fp, r2) := span_dig r1 in
      match r2, ip ++ fp with
      | [], _ :: _ => f32_of_dec neg (N_of_dec (ip ++ fp)) (lenN fp)
      | _, _ => None
      end
    else None
  end.

Definition canon_real (w : bytes) : bytes :=
  114 :: match bits_of_text w with Some b => hex_fixed 8 b | None => [33] ++ w ++ [59] end.

Fixpoint canon (bk : bytes) (p : prim) {struct p} : bytes :=
  let cdict := fix go (d : list (bytes * prim)) (first : bool) : bytes :=
    match d with
    | [] => []
    | (k, v) :: t => (if first then [] else [32]) ++ hexs k ++ [58] ++ canon bk v ++ go t false
    end in
  let cdata (o : option bytes) : bytes :=
    match o with Some x => hexs x | None => [33; 79; 116; 104; 101; 114] (* !Other *) end ++ [59] in
  match p with
  | PNull => [110]
  | PBool true => [116]
  | PBool false => [102]
  | PInt z => 105 :: dec_of_Z z
  | PReal w => canon_real w
  | PNum e _ => canon_real e
  | PName s => [78] ++ hexs s ++ [59]
  | PStr s => [83] ++ hexs s ++ [59]
  | PRef i g => [82] ++ dec_of_N i ++ [44] ++ dec_of_N g
  | PArr l => [91] ++ (fix go (l : list prim) (first : bool) : bytes :=
                 match l with [] => [] | x :: t => (if first then [] else [32]) ++ canon bk x ++ go t false end) l true ++ [93]
  | PDict d => [123] ++ cdict d true ++ [125]
  | PStream d _ _ st ln => [115; 123] ++ cdict d true ++ [125] ++ cdata (read_range bk st (st + ln))
  | PStreamData d x => [115; 123] ++ cdict d true ++ [125] ++ cdata (Some x)
  end.

(* ------------------------------------------------------------------------------------------ *)
(** f32 formatting ({} of f32) for values whose exact decimal expansion is the shortest one
    (integral values and small dyadic fractions); execution only — in theorems the serialiser is
    a Section function. *)
Definition fmt_f32 (bits : N) : bytes :=
  let sign := bits / 2147483648 in
  let e := (bits / 8388608) mod 256 in
  let m := bits mod 8388608 in
  let sg := if sign =? 0 then [] else [45] in
  if (e =? 0) && (m =? 0) then sg ++ [48]
  else
    let M := 8388608 + m in
    if 150 <=? e then sg ++ dec_of_N (M * 2 ^ (e - 150))
    else
      let sh := 150 - e in
      let ip := M / 2 ^ sh in
      let fr := M mod 2 ^ sh in
      if fr =? 0 then sg ++ dec_of_N ip
      else
        (* fr / 2^sh = fr * 5^sh / 10^sh : exactly sh fractional digits, trailing zeros stripped *)
        let digs := dec_of_N (fr * 5 ^ sh) in
        let padded := repeatN 48 (N.to_nat sh - length digs) ++ digs in
        let stripped := rev ((fix strip (l : bytes) : bytes :=
                                match l with c :: t => if c =? 48 then strip t else l | [] => [] end) (rev padded)) in
        sg ++ dec_of_N ip ++ [46] ++ stripped.

(** uncanon of `r<bits>`: Primitive::Number(f32::from_bits(bits)) — carried as the text Primitive::serialize
    prints for it ([ser_num] of the exact expansion; on the executable domain the exact expansion is also what
    `{}` prints) *)
Definition real_text (bits : N) : bytes :=
  let t := fmt_f32 bits in
  let neg := match t with c :: _ => c =? 45 | [] => false end in
  let body := if neg then tl t else t in
  if existsb (fun b => b =? 46) t then t
  else if N_of_dec body <? 2147483648 then (if neg && negb (N_of_dec body =? 0) then t else body)
  else t ++ [46].
Definition real_of_bits (bits : N) : prim := PReal (real_text bits).

(* ------------------------------------------------------------------------------------------ *)
(** canonical text -> prim (harness/src/modes/storage.rs: uncanon) *)

Definition is_hex (c : N) : bool := ((48 <=? c) && (c <=? 57)) || ((97 <=? c) && (c <=? 102)).
Definition hexv (c : N) : N := if c <=? 57 then c - 48 else c - 87.
Definition is_digit (c : N) : bool := (48 <=? c) && (c <=? 57).

Fixpoint unhex (s : bytes) (acc : bytes) {struct s} : bytes * bytes :=
  match s with
  | a :: ((b :: t) as t1) => if is_hex a && is_hex b then unhex t (hexv a * 16 + hexv b :: acc) else (rev acc, s)
  | _ => (rev acc, s)
  end.

Fixpoint span_digits (s : bytes) (acc : bytes) : bytes * bytes :=
  match s with
  | c :: t => if is_digit c then span_digits t (c :: acc) else (rev acc, s)
  | [] => (rev acc, [])
  end.

Definition cdec (s : bytes) : option (Z * bytes) :=
  match s with
  | c :: t => if c =? 45 then
                let '(d, r) := span_digits t [] in
                match d with [] => None | _ => Some (Z.opp (Z.of_N (N_of_dec d)), r) end
              else let '(d, r) := span_digits s [] in
                match d with [] => None | _ => Some (Z.of_N (N_of_dec d), r) end
  | [] => None
  end.

Definition eat (c : N) (s : bytes) : option bytes :=
  match s with x :: t => if x =? c then Some t else None | [] => None end.

Definition skip_sp (s : bytes) : bytes :=
  match s with x :: t => if x =? 32 then t else s | [] => s end.

Fixpoint cval (fuel : nat) (s : bytes) {struct fuel} : option (prim * bytes) :=
  match fuel with
  | O => None
  | S f =>
    let cdict := fix go (k : nat) (s : bytes) (acc : dict) {struct k} : option (dict * bytes) :=
      match k with
      | O => None
      | S k' =>
        match s with
        | [] => None
        | c :: t =>
          if c =? 125 then Some (rev acc, t)
          else let s1 := skip_sp s in
               let '(key, r) := unhex s1 [] in
               match eat 58 r with
               | None => None
               | Some r1 => match cval f r1 with
                            | Some (v, r2) => go k' r2 ((key, v) :: acc)
                            | None => None
                            end
               end
        end
      end in
    match s with
    | [] => None
    | c :: t =>
      if c =? 110 then Some (PNull, t)
      else if c =? 116 then Some (PBool true, t)
      else if c =? 102 then Some (PBool false, t)
      else if c =? 105 then match cdec t with Some (z, r) => Some (PInt z, r) | None => None end
      else if c =? 114 then
        let h := firstn 8 t in
        if (length h =? 8)%nat && forallb is_hex h then
          Some (real_of_bits (fold_left (fun a x => a * 16 + hexv x) h 0), skipn 8 t) else None
      else if c =? 78 then let '(b, r) := unhex t [] in match eat 59 r with Some r1 => Some (PName b, r1) | None => None end
      else if c =? 83 then let '(b, r) := unhex t [] in match eat 59 r with Some r1 => Some (PStr b, r1) | None => None end
      else if c =? 82 then
        match cdec t with
        | Some (i, r) => match eat 44 r with
                         | Some r1 => match cdec r1 with Some (g, r2) => Some (PRef (Z.to_N i) (Z.to_N g), r2) | None => None end
                         | None => None end
        | None => None
        end
      else if c =? 91 then
        (fix items (k : nat) (s : bytes) (acc : list prim) {struct k} : option (prim * bytes) :=
           match k with
           | O => None
           | S k' =>
             match s with
             | [] => None
             | c :: t' => if c =? 93 then Some (PArr (rev acc), t')
                          else match cval f (skip_sp s) with
                               | Some (v, r) => items k' r (v :: acc)
                               | None => None
                               end
             end
           end) fuel t []
      else if c =? 123 then
        match cdict fuel t [] with Some (d, r) => Some (PDict d, r) | None => None end
      else if c =? 115 then
        match eat 123 t with
        | None => None
        | Some t1 =>
          match cdict fuel t1 [] with
          | Some (d, r) => let '(data, r1) := unhex r [] in
                           match eat 59 r1 with Some r2 => Some (PStreamData d data, r2) | None => None end
          | None => None
          end
        end
      else None
    end
  end.

Definition uncanon (s : bytes) : option prim :=
  match cval (S (length s)) s with
  | Some (v, []) => Some v
  | _ => None
  end.

(* ------------------------------------------------------------------------------------------ *)
(** lexical classes and words (lexer/mod.rs: is_whitespace, is_delimiter, next_word) *)

Definition is_ws (c : N) : bool := (c =? 0) || (c =? 9) || (c =? 10) || (c =? 12) || (c =? 13) || (c =? 32).
Definition is_delim (c : N) : bool :=
  (c =? 40) || (c =? 41) || (c =? 60) || (c =? 62) || (c =? 91) || (c =? 93) || (c =? 123) || (c =? 125) || (c =? 47) || (c =? 37).
Definition is_regular (c : N) : bool := negb (is_ws c) && negb (is_delim c).

Definition cur := (N * bytes)%type.

(** lexer/mod.rs: skip_whitespace + comments *)
Fixpoint skip_ws (pos : N) (s : bytes) (incomment : bool) {struct s} : cur :=
  match s with
  | [] => (pos, [])
  | c :: t =>
    if incomment then skip_ws (pos + 1) t (negb ((c =? 10) || (c =? 13)))
    else if is_ws c then skip_ws (pos + 1) t false
    else if c =? 37 then skip_ws (pos + 1) t true
    else (pos, s)
  end.

Fixpoint span_regular (s : bytes) (acc : bytes) : bytes * bytes :=
  match s with
  | c :: t => if is_regular c then span_regular t (c :: acc) else (rev acc, s)
  | [] => (rev acc, [])
  end.

(** next word (after white-space): (word, cursor after it) *)
Definition next_word (c : cur) : bytes * cur :=
  let '(p, s) := skip_ws (fst c) (snd c) false in
  let '(w, r) := span_regular s [] in
  (w, (p + lenN w, r)).

Definition all_digits (w : bytes) : bool := match w with [] => false | _ => forallb is_digit w end.

