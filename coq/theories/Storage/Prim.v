(** Storage/Prim.v — abstract primitives (pdf::primitive::Primitive), their canonical text form
    (harness/src/util.rs::canon) and the concrete serialiser (primitive.rs: Primitive::serialize).
    No proofs in this file. *)
From PdfV Require Import Base.Prelude.

(** primitive.rs: enum StreamInner { InFile { id, file_range }, Pending { data } } *)
Inductive sinner :=
| SPending (data : bytes)
| SInFile (lo hi : N).        (* absolute byte range in the backend *)

(** primitive.rs: enum Primitive; Dictionary = IndexMap<Name, Primitive> as an association list
    (insertion order, unique keys); Number carries the f32 bit pattern *)
Inductive prim :=
| PNull
| PInt (z : Z)
| PReal (bits : N)
| PBool (b : bool)
| PStr (s : bytes)
| PStream (d : list (bytes * prim)) (inner : sinner)
| PDict (d : list (bytes * prim))
| PArr (l : list prim)
| PRef (id gen : N)
| PName (s : bytes).

Definition dict := list (bytes * prim).

Fixpoint beq_bytes (a b : bytes) : bool :=
  match a, b with
  | [], [] => true
  | x :: a', y :: b' => (x =? y) && beq_bytes a' b'
  | _, _ => false
  end.

(** primitive.rs: Dictionary::get *)
Fixpoint dget (d : dict) (k : bytes) : option prim :=
  match d with
  | [] => None
  | (k', v) :: t => if beq_bytes k k' then Some v else dget t k
  end.

(** primitive.rs: Dictionary::insert (IndexMap: an existing key keeps its position) *)
Fixpoint dinsert (d : dict) (k : bytes) (v : prim) : dict :=
  match d with
  | [] => [(k, v)]
  | (k', v') :: t => if beq_bytes k k' then (k', v) :: t else (k', v') :: dinsert t k v
  end.

Fixpoint dremove (d : dict) (k : bytes) : dict :=
  match d with
  | [] => []
  | (k', v') :: t => if beq_bytes k k' then t else (k', v') :: dremove t k
  end.

(* ------------------------------------------------------------------------------------------ *)
(** canonical text form (harness/src/util.rs: canon_into) *)

Definition hexdig (n : N) : N := if n <? 10 then 48 + n else 87 + n.
Fixpoint hexs (l : bytes) : bytes :=
  match l with [] => [] | b :: t => hexdig (b / 16) :: hexdig (b mod 16) :: hexs t end.

Fixpoint hex_fixed (w : nat) (n : N) : bytes :=
  match w with O => [] | S k => hexdig ((n / 16 ^ N.of_nat k) mod 16) :: hex_fixed k n end.

(** Backend::read(lo..hi) as used by stream_data (no decryption, no filters) *)
Definition read_range (bk : bytes) (lo hi : N) : option bytes :=
  if (lo <=? hi) && (hi <=? lenN bk) then Some (take (hi - lo) (drop lo bk)) else None.

Definition raw_data (bk : bytes) (i : sinner) : option bytes :=
  match i with SPending d => Some d | SInFile lo hi => read_range bk lo hi end.

Fixpoint canon (bk : bytes) (p : prim) {struct p} : bytes :=
  let cdict := fix go (d : list (bytes * prim)) (first : bool) : bytes :=
    match d with
    | [] => []
    | (k, v) :: t => (if first then [] else [32]) ++ hexs k ++ [58] ++ canon bk v ++ go t false
    end in
  match p with
  | PNull => [110]
  | PBool true => [116]
  | PBool false => [102]
  | PInt z => 105 :: dec_of_Z z
  | PReal b => 114 :: hex_fixed 8 b
  | PName s => [78] ++ hexs s ++ [59]
  | PStr s => [83] ++ hexs s ++ [59]
  | PRef i g => [82] ++ dec_of_N i ++ [44] ++ dec_of_N g
  | PArr l => [91] ++ (fix go (l : list prim) (first : bool) : bytes :=
                 match l with [] => [] | x :: t => (if first then [] else [32]) ++ canon bk x ++ go t false end) l true ++ [93]
  | PDict d => [123] ++ cdict d true ++ [125]
  | PStream d i => [115; 123] ++ cdict d true ++ [125] ++
                   match raw_data bk i with Some x => hexs x | None => [33; 79; 116; 104; 101; 114] (* !Other *) end ++ [59]
  end.

(* ------------------------------------------------------------------------------------------ *)
(** canonical text -> prim (harness/src/modes/storage.rs: uncanon) *)

Definition is_hex (c : N) : bool := ((48 <=? c) && (c <=? 57)) || ((97 <=? c) && (c <=? 102)).
Definition hexv (c : N) : N := if c <=? 57 then c - 48 else c - 87.
Definition is_digit (c : N) : bool := (48 <=? c) && (c <=? 57).

Fixpoint unhex (s : bytes) (acc : bytes) {struct s} : bytes * bytes :=
  match s with
  | a :: ((b :: t) as t1) => if is_hex a && is_hex b then unhex t (hexv a * 16 + hexv b :: acc) else (rev acc, s)
  | _ => (rev acc, s)
  end.

Fixpoint span_digits (s : bytes) (acc : bytes) : bytes * bytes :=
  match s with
  | c :: t => if is_digit c then span_digits t (c :: acc) else (rev acc, s)
  | [] => (rev acc, [])
  end.

Definition cdec (s : bytes) : option (Z * bytes) :=
  match s with
  | c :: t => if c =? 45 then
                let '(d, r) := span_digits t [] in
                match d with [] => None | _ => Some (Z.opp (Z.of_N (N_of_dec d)), r) end
              else let '(d, r) := span_digits s [] in
                match d with [] => None | _ => Some (Z.of_N (N_of_dec d), r) end
  | [] => None
  end.

Definition eat (c : N) (s : bytes) : option bytes :=
  match s with x :: t => if x =? c then Some t else None | [] => None end.

Definition skip_sp (s : bytes) : bytes :=
  match s with x :: t => if x =? 32 then t else s | [] => s end.

Fixpoint cval (fuel : nat) (s : bytes) {struct fuel} : option (prim * bytes) :=
  match fuel with
  | O => None
  | S f =>
    let cdict := fix go (k : nat) (s : bytes) (acc : dict) {struct k} : option (dict * bytes) :=
      match k with
      | O => None
      | S k' =>
        match s with
        | [] => None
        | c :: t =>
          if c =? 125 then Some (rev acc, t)
          else let s1 := skip_sp s in
               let '(key, r) := unhex s1 [] in
               match eat 58 r with
               | None => None
               | Some r1 => match cval f r1 with
                            | Some (v, r2) => go k' r2 ((key, v) :: acc)
                            | None => None
                            end
               end
        end
      end in
    match s with
    | [] => None
    | c :: t =>
      if c =? 110 then Some (PNull, t)
      else if c =? 116 then Some (PBool true, t)
      else if c =? 102 then Some (PBool false, t)
      else if c =? 105 then match cdec t with Some (z, r) => Some (PInt z, r) | None => None end
      else if c =? 114 then
        let h := firstn 8 t in
        if (length h =? 8)%nat && forallb is_hex h then
          Some (PReal (fold_left (fun a x => a * 16 + hexv x) h 0), skipn 8 t) else None
      else if c =? 78 then let '(b, r) := unhex t [] in match eat 59 r with Some r1 => Some (PName b, r1) | None => None end
      else if c =? 83 then let '(b, r) := unhex t [] in match eat 59 r with Some r1 => Some (PStr b, r1) | None => None end
      else if c =? 82 then
        match cdec t with
        | Some (i, r) => match eat 44 r with
                         | Some r1 => match cdec r1 with Some (g, r2) => Some (PRef (Z.to_N i) (Z.to_N g), r2) | None => None end
                         | None => None end
        | None => None
        end
      else if c =? 91 then
        (fix items (k : nat) (s : bytes) (acc : list prim) {struct k} : option (prim * bytes) :=
           match k with
           | O => None
           | S k' =>
             match s with
             | [] => None
             | c :: t' => if c =? 93 then Some (PArr (rev acc), t')
                          else match cval f (skip_sp s) with
                               | Some (v, r) => items k' r (v :: acc)
                               | None => None
                               end
             end
           end) fuel t []
      else if c =? 123 then
        match cdict fuel t [] with Some (d, r) => Some (PDict d, r) | None => None end
      else if c =? 115 then
        match eat 123 t with
        | None => None
        | Some t1 =>
          match cdict fuel t1 [] with
          | Some (d, r) => let '(data, r1) := unhex r [] in
                           match eat 59 r1 with Some r2 => Some (PStream d (SPending data), r2) | None => None end
          | None => None
          end
        end
      else None
    end
  end.

Definition uncanon (s : bytes) : option prim :=
  match cval (S (length s)) s with
  | Some (v, []) => Some v
  | _ => None
  end.

(* ------------------------------------------------------------------------------------------ *)
(** lexical classes and words (lexer/mod.rs: is_whitespace, is_delimiter, next_word) *)

Definition is_ws (c : N) : bool := (c =? 0) || (c =? 9) || (c =? 10) || (c =? 12) || (c =? 13) || (c =? 32).
Definition is_delim (c : N) : bool :=
  (c =? 40) || (c =? 41) || (c =? 60) || (c =? 62) || (c =? 91) || (c =? 93) || (c =? 123) || (c =? 125) || (c =? 47) || (c =? 37).
Definition is_regular (c : N) : bool := negb (is_ws c) && negb (is_delim c).

Definition cur := (N * bytes)%type.

(** lexer/mod.rs: skip_whitespace + comments *)
Fixpoint skip_ws (pos : N) (s : bytes) (incomment : bool) {struct s} : cur :=
  match s with
  | [] => (pos, [])
  | c :: t =>
    if incomment then skip_ws (pos + 1) t (negb ((c =? 10) || (c =? 13)))
    else if is_ws c then skip_ws (pos + 1) t false
    else if c =? 37 then skip_ws (pos + 1) t true
    else (pos, s)
  end.

Fixpoint span_regular (s : bytes) (acc : bytes) : bytes * bytes :=
  match s with
  | c :: t => if is_regular c then span_regular t (c :: acc) else (rev acc, s)
  | [] => (rev acc, [])
  end.

(** next word (after white-space): (word, cursor after it) *)
Definition next_word (c : cur) : bytes * cur :=
  let '(p, s) := skip_ws (fst c) (snd c) false in
  let '(w, r) := span_regular s [] in
  (w, (p + lenN w, r)).

Definition all_digits (w : bytes) : bool := match w with [] => false | _ => forallb is_digit w end.

(* ------------------------------------------------------------------------------------------ *)
(** f32 formatting ({} of f32) for values whose exact decimal expansion is the shortest one
    (integral values and small dyadic fractions); execution only — in theorems the serialiser is
    a Section function. *)
Definition fmt_f32 (bits : N) : bytes :=
  let sign := bits / 2147483648 in
  let e := (bits / 8388608) mod 256 in
  let m := bits mod 8388608 in
  let sg := if sign =? 0 then [] else [45] in
  if (e =? 0) && (m =? 0) then sg ++ [48]
  else
    let M := 8388608 + m in
    if 150 <=? e then sg ++ dec_of_N (M * 2 ^ (e - 150))
    else
      let sh := 150 - e in
      let ip := M / 2 ^ sh in
      let fr := M mod 2 ^ sh in
      if fr =? 0 then sg ++ dec_of_N ip
      else
        (* fr / 2^sh = fr * 5^sh / 10^sh : exactly sh fractional digits, trailing zeros stripped *)
        let digs := dec_of_N (fr * 5 ^ sh) in
        let padded := repeatN 48 (N.to_nat sh - length digs) ++ digs in
        let stripped := rev ((fix strip (l : bytes) : bytes :=
                                match l with c :: t => if c =? 48 then strip t else l | [] => [] end) (rev padded)) in
        sg ++ dec_of_N ip ++ [46] ++ stripped.

(** str::parse::<f32> for decimals that are exactly representable (execution only) *)
Definition f32_of_dec (neg : bool) (mant : N) (scale : N) : option N :=
  let p5 := 5 ^ scale in
  if negb (mant mod p5 =? 0) then None
  else
    let q := mant / p5 in
    if q =? 0 then Some (if neg then 2147483648 else 0)
    else
      let L := N.log2 q in
      if 23 <? L then None
      else
        let M := q * 2 ^ (23 - L) in
        let E := 127 + L in
        if E <=? scale then None
        else
          let E' := E - scale in
          if 254 <? E' then None
          else Some ((if neg then 2147483648 else 0) + E' * 8388608 + (M - 8388608)).

(* ------------------------------------------------------------------------------------------ *)
(** primitive.rs: Primitive::serialize, serialize_list, serialize_name, Dictionary::serialize,
    PdfStream::serialize, PdfString::serialize.   Err 9 = PdfError::Other (unimplemented!() on an
    in-file stream); Panic 106 = serialize_name's panic!("only ASCII"). *)

Definition esc_bytes (s : bytes) : bytes :=
  flat_map (fun b => if (b =? 92) || (b =? 40) || (b =? 41) then [92; b] else [b]) s.

(** primitive.rs: PdfString::serialize *)
Definition ser_string (s : bytes) : bytes :=
  if existsb (fun b => 128 <=? b) s then [60] ++ hexs s ++ [62]
  else [40] ++ esc_bytes s ++ [41].

(** primitive.rs: serialize_name *)
Definition ser_name (s : bytes) : res bytes :=
  if existsb (fun b => 126 <? b) s then Panic 106 else Ok (47 :: esc_bytes s).

Fixpoint ser_prim (p : prim) {struct p} : res bytes :=
  let sdict := fix go (d : list (bytes * prim)) : res bytes :=
    match d with
    | [] => Ok []
    | (k, v) :: t => do sv <- ser_prim v; do st <- go t; Ok ([47] ++ k ++ [32] ++ sv ++ [10] ++ st)
    end in
  match p with
  | PNull => Ok [110; 117; 108; 108]
  | PInt z => Ok (dec_of_Z z)
  | PReal b => Ok (fmt_f32 b)
  | PBool true => Ok [116; 114; 117; 101]
  | PBool false => Ok [102; 97; 108; 115; 101]
  | PStr s => Ok (ser_string s)
  | PName s => ser_name s
  | PRef i g => Ok (dec_of_N i ++ [32] ++ dec_of_N g ++ [32; 82])
  | PArr l => do body <- (fix go (l : list prim) (first : bool) : res bytes :=
                match l with
                | [] => Ok []
                | x :: t => do sx <- ser_prim x; do st <- go t false; Ok ((if first then [] else [32]) ++ sx ++ st)
                end) l true;
              Ok ([91] ++ body ++ [93])
  | PDict d => do body <- sdict d; Ok ([60; 60; 10] ++ body ++ [62; 62; 10])
  | PStream d i =>
      do body <- sdict d;
      match i with
      | SInFile _ _ => Err 9
      | SPending data =>
          Ok ([60; 60; 10] ++ body ++ [62; 62; 10] ++ [115; 116; 114; 101; 97; 109; 10] ++ data ++
              [10; 101; 110; 100; 115; 116; 114; 101; 97; 109; 10])
      end
  end.
