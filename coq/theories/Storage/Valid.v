(** Storage/Valid.v — valid_pdf: an independent structural reading of PDF bytes (ISO 32000-1 §7.5), used as the
    specification object of property C10.  It shares no code with the parser model. No proofs in this file. *)
From PdfV Require Import Base.Prelude.

(** Twin of tools/oracle/validate.py: same functions, same names, same logic.  A function here takes the
    remaining bytes [s] and returns the new suffix where the Python one takes [(d, i)] and returns the new
    position.  [Err code] is the number of the first failing check:

     1 header: no %PDF- at the start of the file (within the first 1024 bytes)
     2 startxref: last 'startxref', digits, %%EOF missing or malformed, or offset >= file length
     3 startxref offset is not 'n g obj' followed by a dictionary
     4 xref stream dictionary has no /Type /XRef
     5 xref stream dictionary has no integer /Size
     6 /W is not an array of three integers <= 8 with a positive sum
     7 /Index is not an array of an even number of integers
     8 xref stream /Length is not a direct non-negative integer
     9 xref stream has a /Filter (only unfiltered xref streams are validated)
    10 xref stream: 'stream' EOL, /Length data bytes, optional EOL, 'endstream' not found
    11 xref stream: (sum of /Index counts) * (w0+w1+w2) differs from /Length
    12 /Index subsection exceeds /Size
    13 xref entry type other than 0, 1, 2, or an object number listed twice
    14 type-1 entry: offset is not the position of 'num gen obj' with these numbers
    15 the xref stream object itself is not a type-1 entry at the startxref offset
    16 type-2 entry: the object stream number is not a type-1 entry
    17 object body: malformed token, unbalanced brackets, stray 'stream'/'obj', or 'endobj' not reached
    18 reference to an undefined object
    19 stream dictionary has no direct non-negative integer /Length
    20 /Length differs from the byte count (no 'endstream' after /Length bytes)
    21 /Size is not greater than every object number
    99 internal: out of fuel (cannot happen: every loop consumes a byte and the fuel exceeds the file length) *)

Definition guard (c : bool) (code : N) : res unit := if c then Ok tt else Err code.
Definition need {A} (o : option A) (code : N) : res A :=
  match o with Some a => Ok a | None => Err code end.

(* ---------------------------------------------------------------- character classes *)

Definition is_ws (c : N) : bool := memN c [0; 9; 10; 12; 13; 32].
Definition is_delim (c : N) : bool := memN c [40; 41; 60; 62; 91; 93; 123; 125; 47; 37]. (* ( ) < > [ ] { } / % *)
Definition is_regular (c : N) : bool := negb (is_ws c) && negb (is_delim c).
Definition is_digit (c : N) : bool := (48 <=? c) && (c <=? 57).
Definition all_digits (w : bytes) : bool := forallb is_digit w.

(** a decimal spelling without leading zeros (other than the number 0 itself) *)
Definition canon_digits (ds : bytes) : bool :=
  match ds with
  | [] => false
  | [_] => true
  | c :: _ => negb (c =? 48)
  end.

(* ---------------------------------------------------------------- byte-level helpers *)

Fixpoint bytes_eqb (a b : bytes) : bool :=
  match a, b with
  | [], [] => true
  | x :: a', y :: b' => (x =? y) && bytes_eqb a' b'
  | _, _ => false
  end.

Fixpoint starts_with (p s : bytes) : bool :=
  match p with
  | [] => true
  | x :: p' => match s with
               | y :: s' => (x =? y) && starts_with p' s'
               | [] => false
               end
  end.

Fixpoint skip_ws (s : bytes) : bytes :=
  match s with
  | c :: t => if is_ws c then skip_ws t else s
  | [] => []
  end.

(** at least one white-space byte *)
Definition ws1 (s : bytes) : option bytes :=
  match s with
  | c :: t => if is_ws c then Some (skip_ws t) else None
  | [] => None
  end.

Fixpoint read_digits (s : bytes) : bytes * bytes :=
  match s with
  | c :: t => if is_digit c then let (ds, r) := read_digits t in (c :: ds, r) else ([], s)
  | [] => ([], [])
  end.

(** LF or CR LF (after the keyword stream) *)
Definition skip_eol_strict (s : bytes) : option bytes :=
  match s with
  | c :: t =>
    if c =? 10 then Some t
    else if c =? 13 then
      match t with
      | c2 :: t2 => if c2 =? 10 then Some t2 else None
      | [] => None
      end
    else None
  | [] => None
  end.

(** optional LF, CR LF or CR (before endstream) *)
Definition skip_eol_opt (s : bytes) : bytes :=
  match s with
  | c :: t =>
    if c =? 10 then t
    else if c =? 13 then
      match t with
      | c2 :: t2 => if c2 =? 10 then t2 else t
      | [] => t
      end
    else s
  | [] => []
  end.

(** the suffix after exactly [n] more bytes, [None] if there are fewer *)
Fixpoint drop_exact (s : bytes) (n : N) : option bytes :=
  if n =? 0 then Some s
  else match s with
       | [] => None
       | _ :: t => drop_exact t (N.pred n)
       end.

(** the suffix just after the last occurrence of [p] *)
Fixpoint find_last (p s : bytes) (acc : option bytes) : option bytes :=
  let acc' := if starts_with p s then Some (drop (lenN p) s) else acc in
  match s with
  | [] => acc'
  | _ :: t => find_last p t acc'
  end.

Definition header_window : nat := N.to_nat 1020. (* the header must lie within the first 1024 bytes; 1 = offset 0 only *)

(** the suffix starting at the first %PDF- at an offset < fuel *)
Fixpoint find_header (fuel : nat) (s : bytes) : option bytes :=
  match fuel with
  | O => None
  | S f =>
    if starts_with [37; 80; 68; 70; 45] (* %PDF- *) s then Some s
    else match s with
         | [] => None
         | _ :: t => find_header f t
         end
  end.

(* ---------------------------------------------------------------- tokenizer *)

Inductive token :=
| TDictOpen | TDictClose | TArrOpen | TArrClose | TBraceOpen | TBraceClose
| TStr | THex
| TName (n : bytes)
| TInt (v : N)
| TOther (w : bytes).

(** skip white-space and comments *)
Fixpoint skip_wsc (in_comment : bool) (s : bytes) : bytes :=
  match s with
  | [] => []
  | c :: t =>
    if in_comment then (if (c =? 10) || (c =? 13) then skip_wsc false t else skip_wsc true t)
    else if is_ws c then skip_wsc false t
    else if c =? 37 then skip_wsc true t
    else s
  end.

Fixpoint span_regular (s : bytes) : bytes * bytes :=
  match s with
  | c :: t => if is_regular c then let (w, r) := span_regular t in (c :: w, r) else ([], s)
  | [] => ([], [])
  end.

(** [s] is just after '('; the suffix after the matching ')' *)
Fixpoint skip_lit (depth : nat) (s : bytes) : option bytes :=
  match s with
  | [] => None
  | c :: t =>
    if c =? 92 then
      match t with
      | [] => None
      | _ :: t2 => skip_lit depth t2
      end
    else if c =? 40 then skip_lit (S depth) t
    else if c =? 41 then
      match depth with
      | O => Some t
      | S d => skip_lit d t
      end
    else skip_lit depth t
  end.

Fixpoint skip_hex (s : bytes) : option bytes :=
  match s with
  | [] => None
  | c :: t => if c =? 62 then Some t else skip_hex t
  end.

(** (token, suffix after it), or [None] at the end of the input / on a malformed token *)
Definition next_token (s : bytes) : option (token * bytes) :=
  match skip_wsc false s with
  | [] => None
  | c :: t =>
    if c =? 60 then
      match t with
      | [] => None
      | c2 :: t2 =>
        if c2 =? 60 then Some (TDictOpen, t2)
        else match skip_hex t with Some r => Some (THex, r) | None => None end
      end
    else if c =? 62 then
      match t with
      | c2 :: t2 => if c2 =? 62 then Some (TDictClose, t2) else None
      | [] => None
      end
    else if c =? 91 then Some (TArrOpen, t)
    else if c =? 93 then Some (TArrClose, t)
    else if c =? 123 then Some (TBraceOpen, t)
    else if c =? 125 then Some (TBraceClose, t)
    else if c =? 40 then
      match skip_lit O t with Some r => Some (TStr, r) | None => None end
    else if c =? 41 then None
    else if c =? 47 then let (n, r) := span_regular t in Some (TName n, r)
    else if c =? 37 then None
    else
      let (w, r) := span_regular (c :: t) in
      if all_digits w then Some (TInt (N_of_dec w), r) else Some (TOther w, r)
  end.

(** 1, 2, 3 for << [ {; 0 otherwise *)
Definition open_kind (tok : token) : N :=
  match tok with TDictOpen => 1 | TArrOpen => 2 | TBraceOpen => 3 | _ => 0 end.
Definition close_kind (tok : token) : N :=
  match tok with TDictClose => 1 | TArrClose => 2 | TBraceClose => 3 | _ => 0 end.

(** skip tokens until the bracket stack (non-empty on entry) is empty *)
Fixpoint skip_group (fuel : nat) (s : bytes) (stack : list N) : option bytes :=
  match fuel with
  | O => None
  | S f =>
    match next_token s with
    | None => None
    | Some (tok, r) =>
      if negb (open_kind tok =? 0) then skip_group f r (open_kind tok :: stack)
      else if negb (close_kind tok =? 0) then
        match stack with
        | [] => None
        | k :: stk =>
          if k =? close_kind tok then
            match stk with
            | [] => Some r
            | _ => skip_group f r stk
            end
          else None
        end
      else skip_group f r stack
    end
  end.

(* ---------------------------------------------------------------- dictionaries (top-level entries) *)

Inductive value :=
| VName (n : bytes)
| VInt (v : N)
| VIntArr (l : list N)
| VRef (n g : N)
| VOther.

(** [s] is just after '['; (VIntArr l | VOther, suffix after the matching ']') *)
Fixpoint read_int_array (fuel : nat) (s : bytes) (acc : list N) (pure : bool) : option (value * bytes) :=
  match fuel with
  | O => None
  | S f =>
    match next_token s with
    | None => None
    | Some (tok, r) =>
      match tok with
      | TArrClose => Some (if pure then VIntArr (rev acc) else VOther, r)
      | TInt v => read_int_array f r (v :: acc) pure
      | _ =>
        if negb (open_kind tok =? 0) then
          match skip_group fuel r [open_kind tok] with
          | Some r2 => read_int_array f r2 acc false
          | None => None
          end
        else if negb (close_kind tok =? 0) then None
        else read_int_array f r acc false
      end
    end
  end.

Definition parse_value (fuel : nat) (s : bytes) : option (value * bytes) :=
  match next_token s with
  | None => None
  | Some (tok, r) =>
    match tok with
    | TInt a =>
      match next_token r with
      | Some (TInt g, r2) =>
        match next_token r2 with
        | Some (TOther w, r3) => if bytes_eqb w [82] (* R *) then Some (VRef a g, r3) else Some (VInt a, r)
        | _ => Some (VInt a, r)
        end
      | _ => Some (VInt a, r)
      end
    | TName n => Some (VName n, r)
    | TArrOpen => read_int_array fuel r [] true
    | _ =>
      if negb (open_kind tok =? 0) then
        match skip_group fuel r [open_kind tok] with
        | Some r2 => Some (VOther, r2)
        | None => None
        end
      else if negb (close_kind tok =? 0) then None
      else Some (VOther, r)
    end
  end.

(** [s] is just after '<<'; ([(key, value)], suffix after the matching '>>') *)
Fixpoint parse_dict_entries (fuel : nat) (s : bytes) (acc : list (bytes * value))
  : option (list (bytes * value) * bytes) :=
  match fuel with
  | O => None
  | S f =>
    match next_token s with
    | Some (TDictClose, r) => Some (rev acc, r)
    | Some (TName k, r) =>
      match parse_value fuel r with
      | Some (v, r2) => parse_dict_entries f r2 ((k, v) :: acc)
      | None => None
      end
    | _ => None
    end
  end.

Fixpoint lookup (k : bytes) (ents : list (bytes * value)) : option value :=
  match ents with
  | [] => None
  | (k2, v) :: t => if bytes_eqb k2 k then Some v else lookup k t
  end.

Definition as_int (o : option value) : option N :=
  match o with Some (VInt v) => Some v | _ => None end.

Definition as_w (o : option value) : option (N * N * N) :=
  match o with
  | Some (VIntArr [w0; w1; w2]) =>
    if (w0 <=? 8) && (w1 <=? 8) && (w2 <=? 8) && (0 <? w0 + w1 + w2) then Some (w0, w1, w2) else None
  | _ => None
  end.

Fixpoint pairs (l : list N) : option (list (N * N)) :=
  match l with
  | [] => Some []
  | [_] => None
  | a :: b :: t => match pairs t with Some ps => Some ((a, b) :: ps) | None => None end
  end.

Definition as_index (size : N) (o : option value) : option (list (N * N)) :=
  match o with
  | None => Some [(0, size)]
  | Some (VIntArr l) => pairs l
  | Some _ => None
  end.

(* ---------------------------------------------------------------- objects and streams *)

(** digits ws+ digits ws+ 'obj' followed by a white-space or delimiter byte:
    (num digits, gen digits, suffix after obj) *)
Definition parse_obj_header (s : bytes) : option (bytes * bytes * bytes) :=
  let (nd, r) := read_digits s in
  match nd with
  | [] => None
  | _ =>
    match ws1 r with
    | None => None
    | Some r1 =>
      let (gd, r2) := read_digits r1 in
      match gd with
      | [] => None
      | _ =>
        match ws1 r2 with
        | None => None
        | Some r3 =>
          if starts_with [111; 98; 106] (* obj *) r3 then
            let r4 := drop 3 r3 in
            match r4 with
            | c :: _ => if is_ws c || is_delim c then Some (nd, gd, r4) else None
            | [] => None
            end
          else None
        end
      end
    end
  end.

(** [s] is just after the keyword stream: (suffix at the data, suffix after endstream) *)
Definition read_stream (s : bytes) (length : N) : option (bytes * bytes) :=
  match skip_eol_strict s with
  | None => None
  | Some ds =>
    match drop_exact ds length with
    | None => None
    | Some e =>
      let e2 := skip_eol_opt e in
      if starts_with [101; 110; 100; 115; 116; 114; 101; 97; 109] (* endstream *) e2
      then Some (ds, drop 9 e2) else None
    end
  end.

(** [s] is the start of an object body that is a dictionary: its direct /Length *)
Definition dict_length (fuel : nat) (s : bytes) : option N :=
  match next_token s with
  | Some (TDictOpen, r) =>
    match parse_dict_entries fuel r [] with
    | Some (ents, _) => as_int (lookup [76; 101; 110; 103; 116; 104] (* Length *) ents)
    | None => None
    end
  | _ => None
  end.

(* ---------------------------------------------------------------- the cross-reference stream *)

Definition find_startxref (b : bytes) : option N :=
  match find_last [115; 116; 97; 114; 116; 120; 114; 101; 102] (* startxref *) b None with
  | None => None
  | Some r =>
    let (ds, r2) := read_digits (skip_ws r) in
    match ds with
    | [] => None
    | _ => if starts_with [37; 37; 69; 79; 70] (* %%EOF *) (skip_ws r2) then Some (N_of_dec ds) else None
    end
  end.

Definition entry := (N * (N * N * N))%type.   (* (num, (type, f2, f3)) *)

(** (xn, size, (w0, w1, w2), subsections, length, data) *)
Definition read_xref_object (fuel : nat) (s : bytes)
  : res (N * N * (N * N * N) * list (N * N) * N * bytes) :=
  do hdr <- need (parse_obj_header s) 3;
  let '(nd, gd, r) := hdr in
  do r1 <- match next_token r with Some (TDictOpen, r1) => Ok r1 | _ => Err 3 end;
  do pe <- need (parse_dict_entries fuel r1 []) 3;
  let '(ents, r2) := pe in
  do _ <- guard (match lookup [84; 121; 112; 101] (* Type *) ents with
                 | Some (VName n) => bytes_eqb n [88; 82; 101; 102] (* XRef *)
                 | _ => false
                 end) 4;
  do size <- need (as_int (lookup [83; 105; 122; 101] (* Size *) ents)) 5;
  do w <- need (as_w (lookup [87] (* W *) ents)) 6;
  do subs <- need (as_index size (lookup [73; 110; 100; 101; 120] (* Index *) ents)) 7;
  do length <- need (as_int (lookup [76; 101; 110; 103; 116; 104] (* Length *) ents)) 8;
  do _ <- guard (match lookup [70; 105; 108; 116; 101; 114] (* Filter *) ents with None => true | Some _ => false end) 9;
  do r3 <- match next_token r2 with
           | Some (TOther kw, r3) => if bytes_eqb kw [115; 116; 114; 101; 97; 109] (* stream *) then Ok r3 else Err 10
           | _ => Err 10
           end;
  do sd <- need (read_stream r3 length) 10;
  Ok (N_of_dec nd, size, w, subs, length, take length (fst sd)).

Fixpoint read_be (w : nat) (acc : N) (s : bytes) : N * bytes :=
  match w with
  | O => (acc, s)
  | S k => match s with
           | [] => (acc, [])
           | c :: t => read_be k (acc * 256 + c) t
           end
  end.

Fixpoint decode_rows (fuel : nat) (w0 w1 w2 : N) (s : bytes) : list (N * N * N) :=
  match fuel with
  | O => []
  | S f =>
    match s with
    | [] => []
    | _ =>
      let (t, r0) := read_be (N.to_nat w0) 0 s in
      let (f2, r1) := read_be (N.to_nat w1) 0 r0 in
      let (f3, r2) := read_be (N.to_nat w2) 0 r1 in
      ((if w0 =? 0 then 1 else t), f2, f3) :: decode_rows f w0 w1 w2 r2
    end
  end.

Fixpoint drop_empty (subs : list (N * N)) : list (N * N) :=
  match subs with
  | (f, c) :: t => if c =? 0 then drop_empty t else subs
  | [] => []
  end.

(** number the rows: [(num, (type, f2, f3))] *)
Fixpoint assign (rows : list (N * N * N)) (subs : list (N * N)) : list entry :=
  match rows with
  | [] => []
  | r :: t =>
    match drop_empty subs with
    | [] => []
    | (f, c) :: st => (f, r) :: assign t ((f + 1, c - 1) :: st)
    end
  end.

Definition overlap (a b : N * N) : bool :=
  negb (snd a =? 0) && negb (snd b =? 0) && (fst a <? fst b + snd b) && (fst b <? fst a + snd a).

Fixpoint subs_disjoint (subs : list (N * N)) : bool :=
  match subs with
  | [] => true
  | a :: t => forallb (fun b => negb (overlap a b)) t && subs_disjoint t
  end.

Fixpoint lookup_entry (n : N) (tbl : list entry) : option (N * N * N) :=
  match tbl with
  | [] => None
  | (n2, e) :: t => if n2 =? n then Some e else lookup_entry n t
  end.

Definition is_type1 (o : option (N * N * N)) : bool :=
  match o with Some (t, _, _) => t =? 1 | None => false end.

(* ---------------------------------------------------------------- checks over the table *)

(** body suffix of the object at a type-1 entry's offset *)
Definition check_header (b : bytes) (len num off gen : N) : option bytes :=
  if negb (off <? len) then None
  else match parse_obj_header (drop off b) with
       | None => None
       | Some (nd, gd, r) =>
         if canon_digits nd && canon_digits gd && (N_of_dec nd =? num) && (N_of_dec gd =? gen)
         then Some r else None
       end.

(** the body suffixes of all type-1 entries, in table order *)
Fixpoint check_headers (b : bytes) (len : N) (tbl : list entry) : res (list bytes) :=
  match tbl with
  | [] => Ok []
  | (num, (t, f2, f3)) :: rest =>
    if t =? 1 then
      do r <- need (check_header b len num f2 f3) 14;
      do rs <- check_headers b len rest;
      Ok (r :: rs)
    else check_headers b len rest
  end.

Definition check_objstms (tbl : list entry) : bool :=
  forallb (fun e : entry => let '(_, (t, f2, _)) := e in
                            if t =? 2 then is_type1 (lookup_entry f2 tbl) else true) tbl.

Definition ref_ok (tbl : list entry) (n g : N) : bool :=
  match lookup_entry n tbl with
  | None => false
  | Some (t, _, f3) => if t =? 1 then f3 =? g else if t =? 2 then g =? 0 else false
  end.

Definition st_other (st : N) : N := if st =? 1 then 1 else 3.

(** scan an object body from [s0] to endobj: (code, hi) with hi = max (n + 1) over the references seen.
    [s] is the current suffix, [stack] the open brackets, [p2 p1] the two preceding tokens when they are
    integers.  [st]: 0 nothing read yet; 1 inside the dictionary that is the object's value; 2 just after
    it; 3 otherwise. *)
Fixpoint scan_body (fuel : nat) (tbl : list entry) (s0 s : bytes) (stack : list N) (p2 p1 : option N)
         (st hi : N) : N * N :=
  match fuel with
  | O => (99, hi)
  | S f =>
    match next_token s with
    | None => (17, hi)
    | Some (tok, r) =>
      if negb (open_kind tok =? 0) then
        let st' := if (st =? 0) && (open_kind tok =? 1) then 1 else st_other st in
        scan_body f tbl s0 r (open_kind tok :: stack) None None st' hi
      else if negb (close_kind tok =? 0) then
        match stack with
        | [] => (17, hi)
        | k :: stk =>
          if k =? close_kind tok then
            let st' := if (st =? 1) && (match stk with [] => true | _ => false end) then 2 else st_other st in
            scan_body f tbl s0 r stk None None st' hi
          else (17, hi)
        end
      else
        match tok with
        | TInt v => scan_body f tbl s0 r stack p1 (Some v) (st_other st) hi
        | TOther w =>
          if bytes_eqb w [82] (* R *) then
            match p2, p1 with
            | Some n, Some g =>
              if ref_ok tbl n g then scan_body f tbl s0 r stack None None (st_other st) (N.max hi (n + 1))
              else (18, hi)
            | _, _ => scan_body f tbl s0 r stack None None (st_other st) hi
            end
          else if bytes_eqb w [101; 110; 100; 111; 98; 106] (* endobj *) then
            match stack with
            | [] => (0, hi)
            | _ => (17, hi)
            end
          else if bytes_eqb w [115; 116; 114; 101; 97; 109] (* stream *) then
            if st =? 2 then
              match dict_length fuel s0 with
              | None => (19, hi)
              | Some length =>
                match read_stream r length with
                | None => (20, hi)
                | Some (_, r') => scan_body f tbl s0 r' stack None None 3 hi
                end
              end
            else (17, hi)
          else if bytes_eqb w [111; 98; 106] (* obj *) then (17, hi)
          else scan_body f tbl s0 r stack None None (st_other st) hi
        | _ => scan_body f tbl s0 r stack None None (st_other st) hi
        end
    end
  end.

Fixpoint scan_bodies (fuel : nat) (tbl : list entry) (bodies : list bytes) (hi : N) : res N :=
  match bodies with
  | [] => Ok hi
  | s0 :: rest =>
    let (code, hi') := scan_body fuel tbl s0 s0 [] None None 0 hi in
    if code =? 0 then scan_bodies fuel tbl rest hi' else Err code
  end.

(* ---------------------------------------------------------------- top level *)

(** [b] starts with the header; all offsets are relative to it *)
Definition valid_body (b : bytes) : res unit :=
  let fuel := S (length b) in
  let len := lenN b in
  do x <- need (find_startxref b) 2;
  do _ <- guard (x <? len) 2;
  do xo <- read_xref_object fuel (drop x b);
  let '(xn, size, (w0, w1, w2), subs, length, data) := xo in
  do _ <- guard (fold_right (fun fc acc => snd fc + acc) 0 subs * (w0 + w1 + w2) =? length) 11;
  do _ <- guard (forallb (fun fc : N * N => fst fc + snd fc <=? size) subs) 12;
  let tbl := assign (decode_rows fuel w0 w1 w2 data) subs in
  do _ <- guard (forallb (fun e : entry => let '(_, (t, _, _)) := e in t <=? 2) tbl && subs_disjoint subs) 13;
  do bodies <- check_headers b len tbl;
  do _ <- guard (match lookup_entry xn tbl with Some (t, f2, _) => (t =? 1) && (f2 =? x) | None => false end) 15;
  do _ <- guard (check_objstms tbl) 16;
  do hi <- scan_bodies fuel tbl bodies 0;
  do _ <- guard (forallb (fun e : entry => fst e <? size) tbl && (hi <=? size)) 21;
  Ok tt.

Definition valid_code (b : bytes) : N :=
  match find_header header_window b with
  | None => 1
  | Some s =>
    match valid_body s with
    | Ok _ => 0
    | Err code => code
    | _ => 99
    end
  end.

Definition valid_pdf (b : bytes) : bool := valid_code b =? 0.
