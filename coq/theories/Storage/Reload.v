(** Storage/Reload.v — the premise of C09_reload discharged: what [save] writes for a value — `id gen obj\n`,
    Primitive::serialize, `\nendobj\n` — is read back by parse_indirect_object as (id, gen, value).  This is the
    C04 theorem ([PdfV.Syn.SerProofs.ser_spells]: the serializer writes a conforming spelling) composed with the
    C03 theorems ([renders_Lexes], [parse_rendered], [parse_spelled_mut]) on the object framing of file.rs:
    write_revision.  Streams get their own lemma: the dictionary comes back and the data is the in-file range. *)
From PdfV Require Import Base.Prelude Base.DecProofs Gen.Generated.
From PdfV Require Import Storage.Prim Storage.Model Storage.Proofs Storage.Syntax.
From PdfV Require Import Lex.Lexer Lex.LexProofs Lex.NumProofs Syn.Prim Syn.Utf8 Syn.Parser Syn.Serialize Syn.Spells Syn.ParserProofs Syn.RenderProofs Syn.SerProofs.

Definition U64 : N := 18446744073709551616.

Lemma dec_regular n : Forall (fun b => is_reg b = true) (dec_of_N n) /\ dec_of_N n <> [].
Proof.
  destruct (dec_of_N_spec n) as (Hd & Hne & _). split; [|exact Hne].
  apply Forall_forall. intros d Hin. apply digit_regular. rewrite forallb_forall in Hd. apply Hd. exact Hin.
Qed.

Lemma sep_of_ws w : Forall (fun b => is_ws b = true) w -> sep w.
Proof. induction 1; [constructor|apply sep_ws; assumption]. Qed.

Lemma kw_obj_reg : Forall (fun b => is_reg b = true) kw_obj.
Proof. repeat constructor. Qed.
Lemma kw_endobj_reg : Forall (fun b => is_reg b = true) kw_endobj.
Proof. repeat constructor. Qed.

(** the object framing written by save, read by parse_indirect_object: any storable value *)
Theorem parse_framed v id g R allow p post :
  storable v -> vdepth v <= MAX_DEPTH -> id < U64 -> g < U64 ->
  exists body s', ser v = Ok body /\
    parse_indirect_object R allow F_ANY (mkLx p (obj_bytes id g body ++ post)) = Ok (id, g, v, s').
Proof.
  intros Hst Hd Hid Hg.
  destruct (ser_spells v Hst) as (core & Hs & Hsp & Hr).
  exists (core ++ trail v). 
  set (tl := 10 :: kw_endobj ++ 10 :: post).
  assert (Hbtl : boundary tl) by reflexivity.
  specialize (Hr tl Hbtl).
  destruct (dec_regular id) as [Rid Nid]. destruct (dec_regular g) as [Rg Ng].
  destruct (dec_of_N_u64 id Hid) as [Pid _]. destruct (dec_of_N_u64 g Hg) as [Pg _].
  (* the text *)
  assert (Etext : obj_bytes id g (core ++ trail v) ++ post =
                  [] ++ dec_of_N id ++ ([32] ++ dec_of_N g ++ ([32] ++ kw_obj ++ ([10] ++ core ++ trail v ++ tl)))).
  { unfold obj_bytes, obj_header, kw_endobj_nl, tl, kw_obj, kw_endobj. cbn [app]. rewrite <- !app_assoc. cbn [app].
    rewrite <- !app_assoc. cbn [app]. reflexivity. }
  set (text1 := [10] ++ core ++ trail v ++ tl) in *.
  assert (Hhead : renders [IWord (dec_of_N id); IWord (dec_of_N g); IWord kw_obj]
                    ([] ++ dec_of_N id ++ ([32] ++ dec_of_N g ++ ([32] ++ kw_obj ++ text1))) text1).
  { apply rn_reg; [constructor|exact Nid|exact Rid|reflexivity|].
    apply rn_reg; [apply sep_of_ws; repeat constructor|exact Ng|exact Rg|reflexivity|].
    apply rn_reg; [apply sep_of_ws; repeat constructor|discriminate|exact kw_obj_reg|reflexivity|constructor]. }
  destruct (renders_Lexes _ _ _ Hhead p) as (p1 & HL & Hp1).
  destruct (Lexes_word_inv _ _ _ _ HL) as [s1 [E1 HL1]].
  destruct (Lexes_word_inv _ _ _ _ HL1) as [s2 [E2 HL2]].
  destruct (Lexes_word_inv _ _ _ _ HL2) as [s3 [E3 HL3]].
  assert (Es3 : s3 = mkLx p1 text1) by (inversion HL3; reflexivity). subst s3.
  (* the value *)
  assert (Hval : renders (items_of v) text1 (trail v ++ tl)).
  { unfold text1. apply renders_ws_prefix; [repeat constructor|apply items_nonempty; exact Hst|exact Hr]. }
  set (p2 := p1 + 1 + lenN core).
  assert (Hnext : next (mkLx p2 ((trail v ++ [10]) ++ kw_endobj ++ 10 :: post))
                  = Ok (kw_endobj, mkLx (p2 + lenN (trail v ++ [10]) + lenN kw_endobj) (10 :: post))).
  { apply (next_of_next_word _ _ (p2 + lenN (trail v ++ [10]))).
    apply next_word_regular; [apply sep_of_ws; apply Forall_app; split; [apply trail_ws|repeat constructor]
                             |discriminate|exact kw_endobj_reg|reflexivity]. }
  assert (Etl : trail v ++ tl = (trail v ++ [10]) ++ kw_endobj ++ 10 :: post).
  { unfold tl. rewrite <- app_assoc. reflexivity. }
  destruct (follow_word _ _ _ _ Hnext eq_refl eq_refl) as [HF HN].
  rewrite <- Etl in HF, HN.
  pose proof (parse_rendered v (items_of v) text1 (trail v ++ tl) R (Some (id, g)) p1 Hsp Hd Hval p2) as Hparse.
  eexists. split; [exact Hs|].
  rewrite Etext. unfold parse_indirect_object.
  rewrite E1. cbn [bind]. rewrite Pid. cbn [bind]. rewrite E2. cbn [bind]. rewrite Pg. cbn [bind].
  unfold next_expect. rewrite E3. cbn [bind]. rewrite bytes_eqb_refl. cbv iota. cbn [bind].
  rewrite Hparse; [|unfold p2, text1; rewrite !lenN_app; change (lenN [10]) with 1; lia|exact HF|exact HN].
  cbn [bind]. rewrite Etl, Hnext. cbn [bind]. rewrite bytes_eqb_refl.
  destruct allow; reflexivity.
Qed.


Lemma kw_stream_reg : Forall (fun b => is_reg b = true) kw_stream.
Proof. repeat constructor. Qed.
Lemma kw_endstream_reg : Forall (fun b => is_reg b = true) kw_endstream.
Proof. repeat constructor. Qed.

Lemma take_app_exact {A} (a b : list A) : take (lenN a) (a ++ b) = a.
Proof. unfold take, lenN. rewrite Nat2N.id. rewrite firstn_app, Nat.sub_diag, firstn_all, firstn_O, app_nil_r. reflexivity. Qed.

(** a pending stream in the framing of save: the dictionary comes back, the data is the in-file range *)
Theorem parse_framed_stream d data id g R allow p w rest :
  storable (PDict d) -> vdepth (PDict d) <= MAX_DEPTH ->
  dict_get key_Length d = Some (PInt (Z.of_N (lenN data))) -> id < U64 -> g < U64 ->
  Forall (fun b => is_ws b = true) w -> boundary rest ->
  exists xs start s', ser (PStreamData d data) = Ok xs /\
    parse_indirect_object R allow F_ANY (mkLx p (obj_header id g ++ xs ++ w ++ kw_endobj ++ rest))
      = Ok (id, g, PStream d id g start (lenN data), s') /\
    p <= start /\ start + lenN data <= p + lenN (obj_header id g ++ xs ++ w ++ kw_endobj ++ rest) /\
    take (lenN data) (drop (start - p) (obj_header id g ++ xs ++ w ++ kw_endobj ++ rest)) = data.
Proof.
  intros Hst Hd HL Hid Hg Hw Hb.
  inversion Hst as [| | | | | | | |d' Hnd Hfd]; subst d'.
  assert (Hok : Forall (fun kv => ser_ok (snd kv)) d).
  { apply Forall_forall. intros kv Hin. rewrite Forall_forall in Hfd. apply ser_spells. apply Hfd. exact Hin. }
  destruct (ser_entries_ok d Hok Hfd) as (body & Hbd & Hspd & Hrd).
  destruct (dec_regular id) as [Rid Nid]. destruct (dec_regular g) as [Rg Ng].
  destruct (dec_of_N_u64 id Hid) as [Pid _]. destruct (dec_of_N_u64 g Hg) as [Pg _].
  set (tail3 := (10 :: w) ++ kw_endobj ++ rest).
  set (tail2 := [10] ++ kw_endstream ++ tail3).
  set (tail1 := [10] ++ kw_stream ++ 10 :: data ++ tail2).
  set (text1 := 10 :: body ++ 62 :: 62 :: tail1).
  exists (dict_open ++ body ++ dict_close ++ stream_open ++ data ++ stream_close).
  assert (Etext : obj_header id g ++ (dict_open ++ body ++ dict_close ++ stream_open ++ data ++ stream_close) ++ w ++ kw_endobj ++ rest =
                  [] ++ dec_of_N id ++ ([32] ++ dec_of_N g ++ ([32] ++ kw_obj ++ ([10] ++ 60 :: 60 :: text1)))).
  { unfold obj_header, dict_open, dict_close, stream_open, stream_close, text1, tail1, tail2, tail3, kw_obj, kw_stream, kw_endstream.
    repeat (cbn [app]; rewrite <- ?app_assoc). reflexivity. }
  set (text0 := [10] ++ 60 :: 60 :: text1) in *.
  assert (Hhead : renders [IWord (dec_of_N id); IWord (dec_of_N g); IWord kw_obj]
                    ([] ++ dec_of_N id ++ ([32] ++ dec_of_N g ++ ([32] ++ kw_obj ++ text0))) text0).
  { apply rn_reg; [constructor|exact Nid|exact Rid|reflexivity|].
    apply rn_reg; [apply sep_of_ws; repeat constructor|exact Ng|exact Rg|reflexivity|].
    apply rn_reg; [apply sep_of_ws; repeat constructor|discriminate|exact kw_obj_reg|reflexivity|constructor]. }
  destruct (renders_Lexes _ _ _ Hhead p) as (p0 & HLx & Hp0).
  destruct (Lexes_word_inv _ _ _ _ HLx) as [s1 [E1 HL1]].
  destruct (Lexes_word_inv _ _ _ _ HL1) as [s2 [E2 HL2]].
  destruct (Lexes_word_inv _ _ _ _ HL2) as [s3 [E3 HL3]].
  assert (Es3 : s3 = mkLx p0 text0) by (inversion HL3; reflexivity). subst s3.
  set (p1 := p0 + 1 + 2).
  assert (E4 : next (mkLx p0 text0) = Ok (kw_dict_open, mkLx p1 text1)).
  { apply (next_of_next_word _ _ (p0 + lenN [10])). unfold text0.
    apply (next_word_delim2 [10] 60 text1 p0); [apply sep_of_ws; repeat constructor|left; reflexivity]. }
  (* the entries *)
  assert (Hents : renders (items_dict d ++ [IWord kw_dict_close]) text1 tail1).
  { unfold text1. change (10 :: body ++ 62 :: 62 :: tail1) with ([10] ++ body ++ 62 :: 62 :: tail1).
    apply renders_ws_prefix; [repeat constructor|destruct (items_dict d); discriminate|apply Hrd]. }
  destruct (renders_Lexes _ _ _ Hents p1) as (p2 & HLe & Hp2).
  pose proof (renders_length _ _ _ Hents) as Hlen. rewrite app_length in Hlen. cbn [length] in Hlen.
  (* stream keyword, data, endstream, endobj *)
  assert (Nst : next_word (mkLx p2 ([10] ++ kw_stream ++ 10 :: data ++ tail2)) =
                Ok (kw_stream, p2 + 1, mkLx (p2 + 1 + lenN kw_stream) (10 :: data ++ tail2))).
  { apply (next_word_regular [10] kw_stream); [apply sep_of_ws; repeat constructor|discriminate|exact kw_stream_reg|reflexivity]. }
  set (q := p2 + 1 + lenN kw_stream + 1) in *.
  assert (Nes : next_word (mkLx (q + lenN data) ([10] ++ kw_endstream ++ tail3)) =
                Ok (kw_endstream, q + lenN data + 1, mkLx (q + lenN data + 1 + lenN kw_endstream) tail3)).
  { apply (next_word_regular [10] kw_endstream); [apply sep_of_ws; repeat constructor|discriminate|exact kw_endstream_reg|reflexivity]. }
  set (q2 := q + lenN data + 1 + lenN kw_endstream) in *.
  assert (Neo : next_word (mkLx q2 ((10 :: w) ++ kw_endobj ++ rest)) =
                Ok (kw_endobj, q2 + lenN (10 :: w), mkLx (q2 + lenN (10 :: w) + lenN kw_endobj) rest)).
  { apply (next_word_regular (10 :: w) kw_endobj); [apply sep_of_ws; constructor; [reflexivity|exact Hw]|discriminate|exact kw_endobj_reg|exact Hb]. }
  exists q. eexists. split.
  { change (ser (PStreamData d data)) with (do b <- ser_entries d; Ok (dict_open ++ b ++ dict_close ++ stream_open ++ data ++ stream_close)).
    rewrite Hbd. reflexivity. }
  split.
  - rewrite Etext. unfold parse_indirect_object.
    rewrite E1. cbn [bind]. rewrite Pid. cbn [bind]. rewrite E2. cbn [bind]. rewrite Pg. cbn [bind].
    unfold next_expect at 1. rewrite E3. cbn [bind]. rewrite bytes_eqb_refl. cbv iota. cbn [bind].
    unfold parse_ctx, fuel_for. cbn [lrest].
    match goal with |- context [parse_fuel ?F] => replace F with (S (2 * length text0 + 3))%nat by lia end.
    rewrite (parse_step _ _ _ _ _ _ _ _ E4). unfold parse_body.
    change (bytes_eqb kw_dict_open kw_dict_open) with true. cbv iota.
    destruct flags_any as (Fd & _). rewrite Fd. cbn [bind].
    change (MAX_DEPTH =? 0) with false. cbv iota.
    destruct (proj2 (proj2 parse_spelled_mut) d (items_dict d) Hspd (2 * length text0 + 3)%nat R (Some (id, g))
                (MAX_DEPTH - 1) (mkLx p1 text1) [] (mkLx p2 tail1) []) as (s5 & E5 & HL5).
    + unfold text0. rewrite app_length. cbn [length]. lia.
    + rewrite vdepth_dict in Hd. lia.
    + exact Hnd.
    + exact HLe.
    + assert (Es5 : s5 = mkLx p2 tail1) by (inversion HL5; reflexivity). subst s5.
      rewrite E5. cbn [bind app].
      unfold peek, tail1. rewrite Nst. cbn [bind]. rewrite bytes_eqb_refl. cbv iota.
      unfold parse_stream_object, next_stream, next. rewrite Nst. cbn [bind lrest].
      change (10 =? stream_lf) with true. cbv iota. cbn [bind].
      rewrite HL. change (0 <=? Z.of_N (lenN data))%Z with (Z.leb 0 (Z.of_N (lenN data))).
      assert (Hz : (0 <=? Z.of_N (lenN data))%Z = true) by (apply Z.leb_le; lia). rewrite Hz. cbn [bind].
      rewrite N2Z.id.
      unfold read_n, advance. cbn [lpos lrest]. change stream_after_lf with 1.
      change (drop 1 (10 :: data ++ tail2)) with (data ++ tail2).
      assert (Hmin : N.min (lenN data) (lenN (data ++ tail2)) = lenN data) by (rewrite lenN_app; lia).
      rewrite Hmin, N.eqb_refl. cbv iota. cbn [negb]. cbv iota.
      rewrite drop_app_exact. fold q. unfold tail2.
      unfold next_expect, next. rewrite Nes. cbn [bind]. rewrite bytes_eqb_refl. cbv iota. cbn [bind].
      fold q2. unfold tail3. rewrite Neo. cbn [bind]. rewrite bytes_eqb_refl. cbv iota.
      destruct allow; reflexivity.
  - assert (Hq : q = p + lenN (obj_header id g ++ dict_open ++ body ++ dict_close ++ stream_open)).
    { unfold q, p1. unfold text0, text1, tail1 in Hp0, Hp2. clear - Hp0 Hp2.
      unfold obj_header, dict_open, dict_close, stream_open, kw_stream, kw_obj in *.
      repeat (rewrite lenN_app in Hp0 || rewrite lenN_cons in Hp0).
      repeat (rewrite lenN_app in Hp2 || rewrite lenN_cons in Hp2).
      repeat (rewrite lenN_app || rewrite lenN_cons).
      change (lenN (@nil N)) with 0 in *. lia. }
    split; [lia|]. split; [rewrite Hq; rewrite <- !app_assoc; rewrite !lenN_app; lia|].
    replace (q - p) with (lenN (obj_header id g ++ dict_open ++ body ++ dict_close ++ stream_open)) by lia.
    replace (obj_header id g ++ (dict_open ++ body ++ dict_close ++ stream_open ++ data ++ stream_close) ++ w ++ kw_endobj ++ rest)
      with ((obj_header id g ++ dict_open ++ body ++ dict_close ++ stream_open) ++ data ++ (stream_close ++ w ++ kw_endobj ++ rest))
      by (rewrite <- !app_assoc; reflexivity).
    rewrite drop_app_exact. apply take_app_exact.
Qed.


(* ------------------------------------------------------------------------------------------ *)
(** the storage reader at the position of a saved object *)

Lemma drop_app_ge {A} (a b : list A) n : lenN a <= n -> drop n (a ++ b) = drop (n - lenN a) b.
Proof.
  unfold drop, lenN. intros H. rewrite skipn_app. 
  rewrite skipn_all2 by lia. cbn [app]. f_equal. lia.
Qed.

Lemma parse_obj_framed pre id g v post :
  storable v -> vdepth v <= MAX_DEPTH -> id < U64 -> g < U64 ->
  forall body, ser v = Ok body -> parse_obj (pre ++ obj_bytes id g body ++ post) (lenN pre) = Ok (id, g, v).
Proof.
  intros Hst Hd Hid Hg body Hb. unfold parse_obj.
  assert (Hl : lenN (pre ++ obj_bytes id g body ++ post) <? lenN pre = false) by (apply N.ltb_ge; rewrite lenN_app; lia).
  rewrite Hl, drop_app_exact.
  destruct (parse_framed v id g len_resolver false (lenN pre) post Hst Hd Hid Hg) as (body' & s' & Hs & Hp).
  rewrite Hs in Hb. inversion Hb; subst body'. rewrite Hp. reflexivity.
Qed.

Lemma parse_obj_framed_stream pre id g d data w rest :
  storable (PDict d) -> vdepth (PDict d) <= MAX_DEPTH ->
  dict_get key_Length d = Some (PInt (Z.of_N (lenN data))) -> id < U64 -> g < U64 ->
  Forall (fun b => is_ws b = true) w -> boundary rest ->
  forall xs, ser (PStreamData d data) = Ok xs ->
  exists start, parse_obj (pre ++ obj_header id g ++ xs ++ w ++ kw_endobj ++ rest) (lenN pre)
                  = Ok (id, g, PStream d id g start (lenN data)) /\
    read_range (pre ++ obj_header id g ++ xs ++ w ++ kw_endobj ++ rest) start (start + lenN data) = Some data.
Proof.
  intros Hst Hd HL Hid Hg Hw Hb xs Hxs. unfold parse_obj.
  set (text := obj_header id g ++ xs ++ w ++ kw_endobj ++ rest).
  assert (Hl : lenN (pre ++ text) <? lenN pre = false) by (apply N.ltb_ge; rewrite lenN_app; lia).
  rewrite Hl, drop_app_exact.
  destruct (parse_framed_stream d data id g len_resolver false (lenN pre) w rest Hst Hd HL Hid Hg Hw Hb)
    as (xs' & start & s' & Hs & Hp & Hge & Hle & Htake).
  rewrite Hs in Hxs. inversion Hxs; subst xs'. fold text in Hp, Hle, Htake.
  exists start. rewrite Hp. split; [reflexivity|].
  unfold read_range.
  assert (H1 : (start <=? start + lenN data) = true) by (apply N.leb_le; lia).
  assert (H2 : (start + lenN data <=? lenN (pre ++ text)) = true) by (apply N.leb_le; rewrite lenN_app; lia).
  rewrite H1, H2. cbn [andb]. replace (start + lenN data - start) with (lenN data) by lia.
  rewrite drop_app_ge by exact Hge. rewrite Htake. reflexivity.
Qed.

(** after a reload whose table agrees with the saved one, every written reference resolves to the last value
    written, whatever generation the caller passes — no premise about the parser: [storable] is C04's domain *)
Theorem reload_sees_storable member s tr s' tr' s3 :
  wf_st s -> save ser s tr = Ok (s', tr', None) ->
  changes s3 = [] -> backend s3 = backend s' -> start s3 = start s ->
  (forall i, i < lenN (refs s') -> nthN (refs s3) i = nthN (refs s') i) ->
  forall id p g g', clookup (changes (save_pre s tr)) id = Some (p, g) ->
    storable p -> vdepth p <= MAX_DEPTH -> id < U64 -> g < U64 ->
    resolve parse_obj member s3 (id, g') = Ok p.
Proof.
  intros Hwf Hsave Hc Hb Hs Ht id p g g' Hl Hst Hd Hid Hg.
  destruct (save_layout ser s tr s' tr' Hwf Hsave) as [H1 [_ [Hlen _]]].
  destruct (H1 id p g Hl) as [body [pre [post [Hser [Hbk [Hle Hn]]]]]].
  unfold Model.resolve, Model.resolve_ref. cbn [fst]. rewrite Hc. cbn [clookup].
  assert (Hidr : id < lenN (refs s')).
  { destruct (N.lt_ge_cases id (lenN (refs s'))) as [L|L]; [exact L|]. rewrite nthN_none in Hn by exact L. discriminate. }
  rewrite (Ht id Hidr), Hn, Hb, Hs, Hbk.
  replace (start s + (lenN pre - start s)) with (lenN pre) by lia.
  rewrite (parse_obj_framed pre id g p post Hst Hd Hid Hg body Hser). reflexivity.
Qed.

(** ... and a written stream (pending data, direct /Length = its byte count) resolves to a stream with the same
    dictionary whose data, read from the saved bytes, is the data written *)
Theorem reload_sees_stream member s tr s' tr' s3 :
  wf_st s -> save ser s tr = Ok (s', tr', None) ->
  changes s3 = [] -> backend s3 = backend s' -> start s3 = start s ->
  (forall i, i < lenN (refs s') -> nthN (refs s3) i = nthN (refs s') i) ->
  forall id d data g g', clookup (changes (save_pre s tr)) id = Some (PStreamData d data, g) ->
    storable (PDict d) -> vdepth (PDict d) <= MAX_DEPTH ->
    dict_get key_Length d = Some (PInt (Z.of_N (lenN data))) -> id < U64 -> g < U64 ->
    exists st, resolve parse_obj member s3 (id, g') = Ok (PStream d id g st (lenN data)) /\
               raw_data (backend s3) (PStream d id g st (lenN data)) = Some data.
Proof.
  intros Hwf Hsave Hc Hb Hs Ht id d data g g' Hl Hst Hd HL Hid Hg.
  destruct (save_layout ser s tr s' tr' Hwf Hsave) as [H1 [_ [Hlen _]]].
  destruct (H1 id _ g Hl) as [body [pre [post [Hser [Hbk [Hle Hn]]]]]].
  assert (Hidr : id < lenN (refs s')).
  { destruct (N.lt_ge_cases id (lenN (refs s'))) as [L|L]; [exact L|]. rewrite nthN_none in Hn by exact L. discriminate. }
  assert (Ebk : backend s' = pre ++ obj_header id g ++ body ++ [10] ++ kw_endobj ++ 10 :: post).
  { rewrite Hbk. unfold obj_bytes, kw_endobj_nl, kw_endobj. rewrite <- !app_assoc. reflexivity. }
  destruct (parse_obj_framed_stream pre id g d data [10] (10 :: post) Hst Hd HL Hid Hg ltac:(repeat constructor) eq_refl body Hser)
    as (st & Hp & Hr).
  exists st. split.
  - unfold Model.resolve, Model.resolve_ref. cbn [fst]. rewrite Hc. cbn [clookup].
    rewrite (Ht id Hidr), Hn, Hb, Hs, Ebk.
    replace (start s + (lenN pre - start s)) with (lenN pre) by lia.
    rewrite Hp. reflexivity.
  - cbn [raw_data]. rewrite Hb, Ebk. exact Hr.
Qed.
