(** Storage/Model.v — the storage state machine of pdf/src/file.rs (Storage: refs, changes, backend,
    start_offset, cache; Updater impl; save; resolve_ref), the cross-reference stream writer of
    pdf/src/xref.rs and the reader path a reload takes (backend.rs, parser/parse_xref.rs).

    Serialisation and parsing of primitives are Section functions ([ser], [parse_obj], [member],
    [read_classic]); everything else is concrete.  Error kinds: 1 FreeObject, 2 NullRef,
    8 UnspecifiedXRefEntry, 9 Other; 95..98 = outside the modelled domain (never an implementation
    outcome).  No proofs in this file. *)
From PdfV Require Import Base.Prelude Storage.Prim.

(* ------------------------------------------------------------------------------------------ *)
(** xref.rs: enum XRef *)
Inductive xent :=
| XFree (next gen : N)
| XRaw (pos gen : N)
| XStream (sid idx : N)
| XPromised
| XInvalid.

(** u64::leading_zeros *)
Definition lz64 (n : N) : N := if n =? 0 then 64 else 63 - N.log2 n.

(** xref.rs: byte_len *)
Definition byte_len (n : N) : N := (64 + 8 - 1 - lz64 n) / 8 + (if n =? 0 then 1 else 0).

(** the (type, field, field) triple of a writable entry (xref.rs: write_stream match) *)
Definition xfields (e : xent) : option (N * N * N) :=
  match e with
  | XFree n g => Some (0, n, g)
  | XRaw p g => Some (1, p, g)
  | XStream s i => Some (2, s, i)
  | _ => None
  end.

(** xref.rs: XRefTable::max_field_widths *)
Definition max_field_widths (es : list xent) : N * N :=
  fold_left (fun (ab : N * N) e =>
               match xfields e with
               | Some (_, x, y) => (N.max (fst ab) x, N.max (snd ab) y)
               | None => ab
               end) es (0, 0).

(** u64::to_be_bytes()[8 - w ..] *)
Fixpoint be_bytes (w : nat) (n : N) : bytes :=
  match w with
  | O => []
  | S k => (n / 256 ^ N.of_nat k) mod 256 :: be_bytes k n
  end.

(** xref.rs: write_stream, the row loop over entries.iter().take(size); Err 9 = bail!("invalid xref entry") *)
Fixpoint write_rows (aw bw : nat) (es : list xent) : res bytes :=
  match es with
  | [] => Ok []
  | e :: t =>
    match xfields e with
    | None => Err 9
    | Some (ty, a, b) => do r <- write_rows aw bw t; Ok (ty :: be_bytes aw a ++ be_bytes bw b ++ r)
    end
  end.

(** xref.rs: XRefTable::write_stream -> (a_w, b_w, data) *)
Definition write_stream (es : list xent) (size : N) : res (N * N * bytes) :=
  let '(ma, mb) := max_field_widths es in
  let aw := byte_len ma in
  let bw := byte_len mb in
  do data <- write_rows (N.to_nat aw) (N.to_nat bw) (take size es);
  Ok (aw, bw, data).

Definition k_Type := [84; 121; 112; 101].
Definition k_XRef := [88; 82; 101; 102].
Definition k_Size := [83; 105; 122; 101].
Definition k_Index := [73; 110; 100; 101; 120].
Definition k_W := [87].
Definition k_Length := [76; 101; 110; 103; 116; 104].
Definition k_Prev := [80; 114; 101; 118].
Definition k_Root := [82; 111; 111; 116].
Definition k_Info := [73; 110; 102; 111].
Definition k_ID := [73; 68].
Definition k_Filter := [70; 105; 108; 116; 101; 114].
Definition k_Encrypt := [69; 110; 99; 114; 121; 112; 116].

Definition pN (n : N) : prim := PInt (Z.of_N n).

(** xref.rs: XRefInfo (derive ObjectWrite, Type = "XRef") then stream.rs: to_pdf_stream inserts /Length *)
Definition xref_info_dict (size aw bw len : N) : dict :=
  [(k_Type, PName k_XRef); (k_Size, pN size); (k_Index, PArr [pN 0; pN size]);
   (k_W, PArr [pN 1; pN aw; pN bw]); (k_Length, pN len)].

(* ------------------------------------------------------------------------------------------ *)
(** reading a cross-reference stream (parser/parse_xref.rs) *)

Fixpoint be_val (l : bytes) (acc : N) : N :=
  match l with [] => acc | c :: t => be_val t (acc * 256 + c) end.

(** parse_xref.rs: read_u64_from_stream *)
Definition read_u64 (w : N) (data : bytes) : res (N * bytes) :=
  if 8 <? w then Err 9
  else if lenN data <? w then Err 9
  else Ok (be_val (take w data) 0, drop w data).

(** parse_xref.rs: parse_xref_section_from_stream, the entry loop *)
Fixpoint read_rows (n : nat) (w0 w1 w2 : N) (data : bytes) : res (list xent * bytes) :=
  match n with
  | O => Ok ([], data)
  | S k =>
    do t <- (if w0 =? 0 then Ok (1, data) else read_u64 w0 data);
    do f1 <- read_u64 w1 (snd t);
    do f2 <- read_u64 w2 (snd f1);
    do e <- (if fst t =? 0 then Ok (XFree (fst f1) (fst f2))
             else if fst t =? 1 then Ok (XRaw (fst f1) (fst f2))
             else if fst t =? 2 then Ok (XStream (fst f1) (fst f2))
             else Err 9);
    do r <- read_rows k w0 w1 w2 (snd f2);
    Ok (e :: fst r, snd r)
  end.

Definition section := (N * list xent)%type.

(** parse_xref.rs: parse_xref_section_from_stream (strict options) *)
Definition read_section (first num w0 w1 w2 : N) (data : bytes) : res (section * bytes) :=
  if lenN data <? num * (w0 + w1 + w2) then Err 9
  else do r <- read_rows (N.to_nat num) w0 w1 w2 data; Ok ((first, fst r), snd r).

Definition as_N (p : prim) : option N :=
  match p with PInt z => if (0 <=? z)%Z then Some (Z.to_N z) else None | _ => None end.

Fixpoint all_N (l : list prim) : option (list N) :=
  match l with
  | [] => Some []
  | p :: t => match as_N p, all_N t with Some n, Some r => Some (n :: r) | _, _ => None end
  end.

Fixpoint read_sections (fuel : nat) (index : list N) (w0 w1 w2 : N) (data : bytes) : res (list section) :=
  match fuel with
  | O => OutOfFuel
  | S f =>
    match index with
    | first :: num :: t =>
      do s <- read_section first num w0 w1 w2 data;
      do r <- read_sections f t w0 w1 w2 (snd s);
      Ok (fst s :: r)
    | _ => Ok []
    end
  end.

(** the dictionary of a stream value *)
Definition stream_dict (p : prim) : option dict :=
  match p with PStream d _ _ _ _ => Some d | PStreamData d _ => Some d | _ => None end.

(** xref.rs: XRefTable::new *)
Definition table_new (n : N) : list xent := repeatN XInvalid (N.to_nat n) ++ [XFree 0 65535].

Fixpoint set_nth {A} (l : list A) (i : nat) (x : A) : list A :=
  match l, i with
  | [], _ => []
  | _ :: t, O => x :: t
  | h :: t, S k => h :: set_nth t k x
  end.

(** xref.rs: XRefTable::set (in range by the invariant [changes_in_range]) *)
Definition xset (refs : list xent) (id : N) (e : xent) : list xent := set_nth refs (N.to_nat id) e.

(** xref.rs: XRef::get_gen_nr; Panic 41 *)
Definition get_gen_nr (e : xent) : res N :=
  match e with
  | XFree _ g => Ok g
  | XRaw _ g => Ok g
  | XStream _ _ => Ok 0
  | _ => Panic 41
  end.

(** xref.rs: XRefTable::add_entries_from *)
Fixpoint add_entries (tbl : list xent) (i : N) (es : list xent) : res (list xent) :=
  match es with
  | [] => Ok tbl
  | e :: t =>
    match nthN tbl i with
    | None => add_entries tbl (i + 1) t
    | Some dst =>
      do upd <- match dst with
                | XRaw _ g => do eg <- get_gen_nr e; Ok (g <? eg)
                | XFree _ g => do eg <- get_gen_nr e; Ok (g <? eg)
                | XStream _ _ => Ok true
                | XInvalid => Ok true
                | XPromised => Err 9
                end;
      add_entries (if upd then xset tbl i e else tbl) (i + 1) t
    end
  end.

Fixpoint add_sections (tbl : list xent) (ss : list section) : res (list xent) :=
  match ss with
  | [] => Ok tbl
  | (first, es) :: t => do tbl' <- add_entries tbl first es; add_sections tbl' t
  end.

(* ------------------------------------------------------------------------------------------ *)
(** locating the header and startxref (backend.rs) *)

Fixpoint prefixb (pat s : bytes) : bool :=
  match pat, s with
  | [], _ => true
  | p :: pt, c :: t => (p =? c) && prefixb pt t
  | _ :: _, [] => false
  end.

(** slice::windows(n).position(|w| w == pat) *)
Fixpoint find_sub (pat s : bytes) (i : N) : option N :=
  match s with
  | [] => None
  | _ :: t => if prefixb pat s then Some i else find_sub pat t (i + 1)
  end.

(** Lexer::seek_substr_back from the end: the last occurrence *)
Fixpoint find_last (pat s : bytes) (i : N) (acc : option N) : option N :=
  match s with
  | [] => acc
  | _ :: t => find_last pat t (i + 1) (if prefixb pat s then Some i else acc)
  end.

Definition HEADER := [37; 80; 68; 70; 45].
Definition kw_startxref := [115; 116; 97; 114; 116; 120; 114; 101; 102].
Definition kw_xref := [120; 114; 101; 102].
Definition MAX_ID := 1000000.

(** backend.rs: locate_start_offset *)
Definition locate_start_offset (b : bytes) : res N :=
  match find_sub HEADER (take (N.min 1024 (lenN b)) b) 0 with
  | Some i => Ok i
  | None => Err 9
  end.

(** backend.rs: locate_xref_offset *)
Definition locate_xref_offset (b : bytes) : res N :=
  match find_last kw_startxref b 0 None with
  | None => Err 9
  | Some i =>
    let '(w, _) := next_word (i + 9, drop (i + 9) b) in
    if all_digits w then Ok (N_of_dec w) else Err 9
  end.

(* ------------------------------------------------------------------------------------------ *)
(** the trailer as the typed struct of file.rs (Trailer), on the modelled domain: no /Encrypt;
    the information dictionary restricted to its text entries (InfoDict's field order) *)
Record trailer := mkTrailer {
  t_size : Z;
  t_prev : option Z;
  t_root : N * N;
  t_info : option dict;
  t_id : list bytes }.

Definition info_keys : list bytes :=
  [[84; 105; 116; 108; 101]; [65; 117; 116; 104; 111; 114]; [83; 117; 98; 106; 101; 99; 116];
   [75; 101; 121; 119; 111; 114; 100; 115]; [67; 114; 101; 97; 116; 111; 114]; [80; 114; 111; 100; 117; 99; 101; 114]].

(** InfoDict: from_primitive then to_primitive (derive: schema order, absent entries skipped) *)
Definition info_norm (d : dict) : dict :=
  flat_map (fun k => match dget d k with Some (PStr s) => [(k, PStr s)] | _ => [] end) info_keys.

Fixpoint all_str (l : list prim) : option (list bytes) :=
  match l with
  | [] => Some []
  | PStr s :: t => match all_str t with Some r => Some (s :: r) | None => None end
  | _ => None
  end.

(* ------------------------------------------------------------------------------------------ *)
Section Storage.

(** Primitive::serialize *)
Variable ser : prim -> res bytes.
(** parse_indirect_object at an absolute position of the backend *)
Variable parse_obj : bytes -> N -> res (N * N * prim).
(** ObjectStream::from_primitive + get_object_slice + parse: backend, container value, index *)
Variable member : bytes -> prim -> N -> res prim.
(** parse_xref_table_and_trailer at an absolute position *)
Variable read_classic : bytes -> N -> res (list section * dict).

(** file.rs: struct Storage (decoder = None, options = strict) *)
Record st := mkSt {
  refs : list xent;
  changes : list (N * (prim * N));       (* HashMap<ObjNr, (Primitive, GenNr)> *)
  backend : bytes;
  start : N;                             (* start_offset *)
  cache : list (N * N * res prim);       (* object cache keyed by PlainRef *)
  cached : bool }.                       (* false: NoCache *)

Fixpoint clookup (c : list (N * (prim * N))) (id : N) : option (prim * N) :=
  match c with
  | [] => None
  | (k, v) :: t => if k =? id then Some v else clookup t id
  end.

(** HashMap::insert *)
Fixpoint cinsert (c : list (N * (prim * N))) (id : N) (v : prim * N) : list (N * (prim * N)) :=
  match c with
  | [] => [(id, v)]
  | (k, w) :: t => if k =? id then (k, v) :: t else (k, w) :: cinsert t id v
  end.

(** file.rs: Storage::resolve_ref (flags = all); depth fuel for object streams inside object streams *)
Fixpoint resolve_ref (fuel : nat) (s : st) (r : N * N) : res prim :=
  match clookup (changes s) (fst r) with
  | Some (p, _) => Ok p
  | None =>
    match nthN (refs s) (fst r) with
    | None => Err 8
    | Some (XRaw pos _) => do x <- parse_obj (backend s) (start s + pos); Ok (snd x)
    | Some (XStream sid idx) =>
      match fuel with
      | O => OutOfFuel
      | S f => do c <- resolve_ref f s (sid, 0); member (backend s) c idx
      end
    | Some (XFree _ _) => Err 1
    | Some XPromised => Err 9
    | Some XInvalid => Err 2
    end
  end.

Definition resolve (s : st) (r : N * N) : res prim := resolve_ref 4 s r.

Fixpoint cache_get (c : list (N * N * res prim)) (r : N * N) : option (res prim) :=
  match c with
  | [] => None
  | (k, v) :: t => if (fst k =? fst r) && (snd k =? snd r) then Some v else cache_get t r
  end.

(** file.rs: StorageResolver::get::<Primitive> *)
Definition get (s : st) (r : N * N) : st * res prim :=
  if cached s then
    match cache_get (cache s) r with
    | Some v => (s, v)
    | None => let v := resolve s r in
              (mkSt (refs s) (changes s) (backend s) (start s) ((r, v) :: cache s) true, v)
    end
  else (s, resolve s r).

(** file.rs: Updater::create (T = Primitive: to_primitive is the identity) *)
Definition create (s : st) (v : prim) : st * (N * N) :=
  let id := lenN (refs s) in
  (mkSt (refs s ++ [XPromised]) (cinsert (changes s) id (v, 0)) (backend s) (start s) [] (cached s), (id, 0)).

(** file.rs: Updater::create for any T: the number is reserved (refs.push(Promised)) and the object cache cleared BEFORE
    obj.to_primitive(self) runs; [conv] is that conversion, a program over the same storage (it may create further objects). *)
Definition create_with (s : st) (conv : st -> res (st * prim)) : res (st * (N * N)) :=
  let id := lenN (refs s) in
  let s1 := mkSt (refs s ++ [XPromised]) (changes s) (backend s) (start s) [] (cached s) in
  do r <- conv s1;
  let '(s2, p) := r in
  Ok (mkSt (refs s2) (cinsert (changes s2) id (p, 0)) (backend s2) (start s2) (cache s2) (cached s2), (id, 0)).

Definition k_Child : bytes := [67; 104; 105; 108; 100].

(** harness storage.rs: Nested::to_primitive = { let c = update.create(child)?; << /Child c >> } (the shape of PageRc::create with
    direct contents / resources: the parent's conversion creates the child) *)
Definition nested_conv (child : prim) (s : st) : res (st * prim) :=
  let '(s2, c) := create s child in Ok (s2, PDict [(k_Child, PRef (fst c) (snd c))]).

(** create(Nested { child }): returns the parent's and the child's reference *)
Definition create_nested (s : st) (child : prim) : res (st * ((N * N) * (N * N))) :=
  do r <- create_with s (nested_conv child);
  let '(s', p) := r in
  Ok (s', (p, (lenN (refs s) + 1, 0))).

(** harness storage.rs: Nested2::to_primitive = { let m = update.create(Nested { child })?; << /Child m >> } *)
Definition nested2_conv (child : prim) (s : st) : res (st * prim) :=
  do r <- create_with s (nested_conv child); Ok (fst r, PDict [(k_Child, PRef (fst (snd r)) (snd (snd r)))]).

(** create(Nested2 { child }): parent, middle, leaf *)
Definition create_nested2 (s : st) (child : prim) : res (st * ((N * N) * (N * N) * (N * N))) :=
  do r <- create_with s (nested2_conv child);
  let '(s', p) := r in
  Ok (s', (p, (lenN (refs s) + 1, 0), (lenN (refs s) + 2, 0))).

(** file.rs: Updater::promise *)
Definition promise (s : st) : st * (N * N) :=
  let id := lenN (refs s) in
  (mkSt (refs s ++ [XPromised]) (changes s) (backend s) (start s) (cache s) (cached s), (id, 0)).

(** file.rs: Updater::update; Panic 383 / 387 = the two panic!() arms *)
Definition update (s : st) (old : N * N) (v : prim) : res (st * (N * N)) :=
  match nthN (refs s) (fst old) with
  | None => Err 8
  | Some e =>
    do r <- match e with
            | XFree _ _ => Panic 383
            | XRaw _ g => Ok (fst old, g)
            | XStream _ _ => Ok (fst old, 0)
            | XPromised => Ok (fst old, 0)
            | XInvalid => Panic 387
            end;
    Ok (mkSt (refs s) (cinsert (changes s) (fst old) (v, snd r)) (backend s) (start s) [] (cached s), r)
  end.

(** file.rs: Updater::fulfill *)
Definition fulfill (s : st) (p : N * N) (v : prim) : res (st * (N * N)) := update s p v.

(* ---- save ---------------------------------------------------------------------------------- *)

(** sort_unstable_by_key(id): insertion sort (keys are unique) *)
Fixpoint ins_sorted (x : N * (prim * N)) (l : list (N * (prim * N))) : list (N * (prim * N)) :=
  match l with
  | [] => [x]
  | y :: t => if fst x <=? fst y then x :: l else y :: ins_sorted x t
  end.
Definition sort_changes (c : list (N * (prim * N))) : list (N * (prim * N)) :=
  fold_right ins_sorted [] c.

Definition obj_header (id gen : N) : bytes := dec_of_N id ++ [32] ++ dec_of_N gen ++ [32; 111; 98; 106; 10].
Definition kw_endobj_nl := [101; 110; 100; 111; 98; 106; 10].

(** the bytes of one saved object: "id gen obj\n" value "\nendobj\n" *)
Definition obj_bytes (id gen : N) (body : bytes) : bytes := obj_header id gen ++ body ++ [10] ++ kw_endobj_nl.

(** file.rs: write_revision, the loop over the sorted changes.  [base] = backend.len() - start_offset
    before the loop.  Returns the table, the bytes appended so far and the error if serialisation failed. *)
Fixpoint write_changes (cs : list (N * (prim * N))) (rf : list xent) (base : N) (out : bytes)
  : list xent * bytes * option (res unit) :=
  match cs with
  | [] => (rf, out, None)
  | (id, (p, g)) :: t =>
    let rf' := xset rf id (XRaw (base + lenN out) g) in
    match ser p with
    | Ok body => write_changes t rf' base (out ++ obj_bytes id g body)
    | Err e => (rf', out, Some (Err e))
    | Panic k => (rf', out, Some (Panic k))
    | OutOfFuel => (rf', out, Some OutOfFuel)
    end
  end.

Definition startxref_tail (xpos : N) : bytes :=
  [10] ++ kw_startxref ++ [10] ++ dec_of_N xpos ++ [10; 37; 37; 69; 79; 70; 10].

(** file.rs: Trailer::to_dict (derive ObjectWrite; Info is `indirect`: created first) *)
Definition trailer_dict (tr : trailer) (size : Z) (info_ref : option (N * N)) : dict :=
  [(k_Size, PInt size)] ++
  match t_prev tr with Some p => [(k_Prev, PInt p)] | None => [] end ++
  [(k_Root, PRef (fst (t_root tr)) (snd (t_root tr)))] ++
  match info_ref with Some r => [(k_Info, PRef (fst r) (snd r))] | None => [] end ++
  [(k_ID, PArr (map PStr (t_id tr)))].

(** for (k, v) in trailer_dict.iter() { info.insert(k, v) } *)
Definition merge_dict (d td : dict) : dict := fold_left (fun acc kv => dinsert acc (fst kv) (snd kv)) td d.

(** file.rs: Storage::write_revision *)
Definition write_revision (s : st) (td : dict) : res st + (list xent * res unit) :=
  let X := lenN (refs s) in
  let rf0 := refs s ++ [XPromised] in
  let base := lenN (backend s) - start s in
  let '(rf1, out1, fail) := write_changes (sort_changes (changes s)) rf0 base [] in
  match fail with
  | Some e => inr (rf1, e)
  | None =>
    let xpos := base + lenN out1 in
    let rf2 := xset rf1 X (XRaw xpos 0) in
    match write_stream rf2 (X + 1) with
    | Ok (aw, bw, data) =>
      let xd := xref_info_dict (X + 1) aw bw (lenN data) in
      match ser (PStreamData (merge_dict xd td) data) with
      | Ok xs =>
        let out2 := out1 ++ obj_header X 0 ++ xs ++ kw_endobj_nl in
        (* fulfill(xref_promise, stream): update on a Raw entry *)
        let ch := cinsert (changes s) X (PStreamData xd data, 0) in
        inl (Ok (mkSt rf2 ch (backend s ++ out2 ++ startxref_tail xpos) (start s) [] (cached s)))
      | Err e => inr (rf2, Err e)
      | Panic k => inr (rf2, Panic k)
      | OutOfFuel => inr (rf2, OutOfFuel)
      end
    | Err e => inr (rf2, Err e)
    | Panic k => inr (rf2, Panic k)
    | OutOfFuel => inr (rf2, OutOfFuel)
    end
  end.

(** file.rs: Storage::save.  Ok (s', tr', None): saved; Ok (s', tr', Some e): save returned Err e
    and s' is the rolled-back state. *)
Definition save (s : st) (tr : trailer) : res (st * trailer * option N) :=
  let size := Z.of_N (lenN (refs s) + 2) in
  let '(s1, iref) := match t_info tr with
                     | Some d => let '(s1, r) := create s (PDict d) in (s1, Some r)
                     | None => (s, None)
                     end in
  let td := trailer_dict tr size iref in
  let nrefs := lenN (refs s1) in
  match write_revision s1 td with
  | inl (Ok s2) =>
    Ok (mkSt (refs s2) (changes s2) (backend s2) (start s2) [] (cached s2),
        mkTrailer size (t_prev tr) (t_root tr) (t_info tr) (t_id tr), None)
  | inl (Err e) => Err e
  | inl (Panic k) => Panic k
  | inl OutOfFuel => OutOfFuel
  | inr (rf, Err e) =>
    Ok (mkSt (take nrefs rf) (changes s1) (backend s1) (start s1) (cache s1) (cached s1), tr, Some e)
  | inr (_, Panic k) => Panic k
  | inr (_, _) => OutOfFuel
  end.

(* ---- load ---------------------------------------------------------------------------------- *)

(** parse_xref.rs: parse_xref_stream_and_trailer (the stream must be unfiltered: Err 96 otherwise) *)
Definition read_xref_stream (b : bytes) (pos : N) : res (list section * dict) :=
  do x <- parse_obj b pos;
  match stream_dict (snd x) with
  | Some d =>
    match dget d k_Filter with
    | Some _ => Err 96
    | None =>
      match dget d k_Type with
      | Some (PName t) =>
        if negb (beq_bytes t k_XRef) then Err 9 else
        match dget d k_Size, dget d k_W with
        | Some sz, Some (PArr wl) =>
          match as_N sz, all_N wl with
          | Some size, Some [w0; w1; w2] =>
            let index := match dget d k_Index with
                         | Some (PArr il) => all_N il
                         | Some _ => None
                         | None => Some [0; size]
                         end in
            match index, raw_data b (snd x) with
            | Some ix, Some data =>
              if negb (N.even (lenN ix)) then Err 9 else
              do ss <- read_sections (S (length ix)) ix w0 w1 w2 data;
              Ok (ss, d)
            | _, _ => Err 9
            end
          | _, _ => Err 9
          end
        | _, _ => Err 9
        end
      | _ => Err 9
      end
    end
  | None => Err 9
  end.

(** parse_xref.rs: read_xref_and_trailer_at *)
Definition read_xref_at (b : bytes) (pos : N) : res (list section * dict) :=
  let '(w, _) := next_word (pos, drop pos b) in
  if beq_bytes w kw_xref then read_classic b pos else read_xref_stream b pos.

(** backend.rs: read_xref_table_and_trailer, the /Prev loop *)
Fixpoint prev_loop (fuel : nat) (b : bytes) (st0 : N) (tbl : list xent) (prev : option N) (seen : list N)
  : res (list xent) :=
  match prev with
  | None => Ok tbl
  | Some off =>
    match fuel with
    | O => OutOfFuel
    | S f =>
      if memN off seen then Err 9 else
      if lenN b <? st0 + off then Err 9 else
      do x <- read_xref_at b (st0 + off);
      do tbl' <- add_sections tbl (fst x);
      match dget (snd x) k_Prev with
      | Some p => match as_N p with Some n => prev_loop f b st0 tbl' (Some n) (off :: seen) | None => Err 9 end
      | None => Ok tbl'
      end
    end
  end.

(** backend.rs: read_xref_table_and_trailer *)
Definition read_xref_table_and_trailer (b : bytes) (st0 : N) : res (list xent * dict) :=
  do xoff <- locate_xref_offset b;
  let pos := st0 + xoff in
  if lenN b <=? pos then Err 9 else
  do x <- read_xref_at b pos;
  match dget (snd x) k_Size with
  | None => Err 9
  | Some sz =>
    match as_N sz with
    | None => Err 9
    | Some size =>
      if MAX_ID <? size then Err 9 else
      do tbl <- add_sections (table_new size) (fst x);
      do prev <- match dget (snd x) k_Prev with
                 | Some p => match as_N p with Some n => Ok (Some n) | None => Err 9 end
                 | None => Ok None
                 end;
      do tbl' <- prev_loop 64 b st0 tbl prev [];
      Ok (tbl', snd x)
    end
  end.

(** file.rs: Storage::with_cache + load_storage_and_trailer (no /Encrypt) *)
Definition load (b : bytes) (c : bool) : res (st * dict) :=
  do st0 <- locate_start_offset b;
  do x <- read_xref_table_and_trailer b st0;
  Ok (mkSt (fst x) [] b st0 [] c, snd x).

(** file.rs: Trailer::from_primitive on the modelled domain (Err 95: /Encrypt present) *)
Definition trailer_of (s : st) (td : dict) : res trailer :=
  match dget td k_Encrypt with
  | Some _ => Err 95
  | None =>
    match dget td k_Size, dget td k_Root with
    | Some (PInt size), Some (PRef ri rg) =>
      do info <- match dget td k_Info with
                 | None => Ok None
                 | Some (PRef ii ig) =>
                   do v <- resolve s (ii, ig);
                   match v with PDict d => Ok (Some (info_norm d)) | _ => Err 9 end
                 | Some (PDict d) => Ok (Some (info_norm d))
                 | Some _ => Err 9
                 end;
      do ids <- match dget td k_ID with
                | None => Ok []
                | Some (PArr l) => match all_str l with Some r => Ok r | None => Err 9 end
                | Some _ => Err 9
                end;
      do prev <- match dget td k_Prev with
                 | None => Ok None
                 | Some (PInt p) => Ok (Some p)
                 | Some _ => Err 9
                 end;
      Ok (mkTrailer size prev (ri, rg) info ids)
    | _, _ => Err 9
    end
  end.

End Storage.
