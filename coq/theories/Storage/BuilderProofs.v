(** Storage/BuilderProofs.v — the builder model (Builder.v) composed with the C09 theorems (Proofs.v, Reload.v): what the
    built file contains, that every value the builder writes is in the storable domain of C04, hence what a reload
    of the built file resolves (C10_reload), and the structural validity of the bytes (C10_valid_struct). *)
From PdfV Require Import Base.Prelude Gen.Generated.
From PdfV Require Import Storage.Prim Storage.Model Storage.Proofs Storage.Syntax Storage.Builder Storage.Reload.
From PdfV Require Import Lex.Lexer Syn.Prim Syn.Utf8 Syn.Parser Syn.Serialize Syn.Spells Syn.ParserProofs Syn.RenderProofs Syn.SerProofs.

(* ---------------------------------------------------------------- dictionaries *)
Lemma beq_bytes_eq a b : beq_bytes a b = true <-> a = b.
Proof.
  revert b. induction a as [|x a IH]; intros [|y b]; cbn [beq_bytes]; split; intros H; try reflexivity; try discriminate.
  - apply andb_true_iff in H. destruct H as [H1 H2]. apply N.eqb_eq in H1. apply IH in H2. subst. reflexivity.
  - inversion H; subst. rewrite N.eqb_refl. cbn. apply IH. reflexivity.
Qed.
Lemma beq_bytes_neq a b : a <> b -> beq_bytes a b = false.
Proof. intros H. destruct (beq_bytes a b) eqn:E; [apply beq_bytes_eq in E; contradiction|reflexivity]. Qed.

Lemma dinsert_fresh d k v : ~ In k (keys d) -> dinsert d k v = d ++ [(k, v)].
Proof.
  induction d as [|[k' v'] t IH]; intros H; [reflexivity|].
  cbn [dinsert]. cbn [keys map fst In] in H.
  rewrite beq_bytes_neq by (intros ->; apply H; left; reflexivity).
  unfold keys in IH. rewrite IH by (intros Hin; apply H; right; exact Hin). reflexivity.
Qed.

Lemma keys_app (a b : dict) : keys (a ++ b) = keys a ++ keys b.
Proof. unfold keys. apply map_app. Qed.

Lemma merge_dict_fresh td : forall d, NoDup (keys td) -> (forall k, In k (keys td) -> ~ In k (keys d)) ->
  merge_dict d td = d ++ td.
Proof.
  unfold merge_dict. induction td as [|[k v] t IH]; intros d Hnd Hdis; cbn [fold_left]; [rewrite app_nil_r; reflexivity|].
  cbn [fst snd]. inversion Hnd as [|? ? Hn Ht]; subst.
  rewrite dinsert_fresh by (apply Hdis; left; reflexivity).
  rewrite IH; [rewrite <- app_assoc; reflexivity|exact Ht|].
  intros k' Hin. rewrite keys_app. intros Hin2. apply in_app_or in Hin2. destruct Hin2 as [H|[H|[]]].
  - exact (Hdis k' (or_intror Hin) H).
  - cbn in H. subst k'. exact (Hn Hin).
Qed.

Lemma ddepth_app a b : ddepth (a ++ b) = N.max (ddepth a) (ddepth b).
Proof.
  induction a as [|[k v] t IH]; cbn [app ddepth fold_right snd]; [fold (ddepth b); lia|].
  fold (ddepth (t ++ b)). fold (ddepth t). rewrite IH. lia.
Qed.

Lemma wfb l : forallb (fun b => b <? 256) l = true -> wf_bytes l.
Proof.
  intros H. apply Forall_forall. intros b Hin. rewrite forallb_forall in H. apply N.ltb_lt. apply H. exact Hin.
Qed.

Lemma NoDup_app_disj {A} (a b : list A) : NoDup a -> NoDup b -> (forall x, In x b -> ~ In x a) -> NoDup (a ++ b).
Proof.
  intros Ha Hb Hd. induction Ha as [|x a Hx Ha IH]; [exact Hb|]. cbn [app]. constructor.
  - intros Hin. apply in_app_or in Hin. destruct Hin as [H|H]; [exact (Hx H)|]. apply (Hd x H). left. reflexivity.
  - apply IH. intros y Hy Hin. apply (Hd y Hy). right. exact Hin.
Qed.

Lemma storable_dict_app a b :
  storable (PDict a) -> storable (PDict b) -> (forall k, In k (keys b) -> ~ In k (keys a)) -> storable (PDict (a ++ b)).
Proof.
  intros Ha Hb Hdis. inversion Ha as [| | | | | | | |? Na Fa]; subst. inversion Hb as [| | | | | | | |? Nb Fb]; subst.
  apply st_dict.
  - rewrite keys_app. apply NoDup_app_disj; assumption.
  - apply Forall_app. split; assumption.
Qed.

Lemma vdepth_dict_app a b : vdepth (PDict (a ++ b)) = N.max (vdepth (PDict a)) (vdepth (PDict b)).
Proof. rewrite !vdepth_dict, ddepth_app. lia. Qed.

(* ---------------------------------------------------------------- the values the builder writes *)
Definition I32 (z : Z) : Prop := (-2147483648 <= z <= 2147483647)%Z.
Definition num_ok (v : prim) : Prop := storable v /\ vdepth v = 0.
Definition box_ok (o : option (list prim)) : Prop := match o with Some l => Forall num_ok l | None => True end.
Definition page_keys : list bytes :=
  [kT; k_Parent; k_Resources; k_MediaBox; k_CropBox; k_TrimBox; k_Contents; k_Rotate].

Definition page_ok (p : page) : Prop :=
  storable (PDict (pg_other p)) /\ vdepth (PDict (pg_other p)) <= MAX_DEPTH /\
  (forall k, In k page_keys -> ~ In k (keys (pg_other p))) /\
  box_ok (pg_mb p) /\ box_ok (pg_cb p) /\ box_ok (pg_tb p) /\ I32 (pg_rot p) /\ lenN (pg_content p) < 2147483648.

Lemma key_ok k : forallb (fun b => b <? 256) k = true -> is_utf8 k = true -> wf_bytes k /\ is_utf8 k = true.
Proof. intros H1 H2. split; [apply wfb; exact H1|exact H2]. Qed.

Definition entry_okP (kv : bytes * prim) : Prop := wf_bytes (fst kv) /\ is_utf8 (fst kv) = true /\ storable (snd kv).
Lemma entry_ok k v : forallb (fun b => b <? 256) k = true -> is_utf8 k = true -> storable v -> entry_okP (k, v).
Proof. intros H1 H2 H3. split; [apply wfb; exact H1|]. split; [exact H2|exact H3]. Qed.
Lemma st_name' n : forallb (fun b => b <? 256) n = true -> is_utf8 n = true -> storable (PName n).
Proof. intros H1 H2. apply st_name; [apply wfb; exact H1|exact H2]. Qed.

Lemma st_ref' r : fst r < U64 -> snd r < U64 -> storable (pref r).
Proof. unfold U64, pref. intros H1 H2. exact (st_ref (fst r) (snd r) H1 H2). Qed.

Lemma opt_entry_storable k o : forallb (fun b => b <? 256) k = true -> is_utf8 k = true -> box_ok o ->
  Forall (fun kv => wf_bytes (fst kv) /\ is_utf8 (fst kv) = true /\ storable (snd kv)) (opt_entry k o).
Proof.
  intros H1 H2 Hb. destruct o as [l|]; cbn [opt_entry]; [|constructor].
  constructor; [|constructor]. cbn [fst snd]. split; [apply wfb; exact H1|]. split; [exact H2|].
  apply st_arr. eapply Forall_impl; [|exact Hb]. intros v [Hv _]. exact Hv.
Qed.

Lemma keys_opt_entry k o : keys (opt_entry k o) = match o with Some _ => [k] | None => [] end.
Proof. destruct o; reflexivity. Qed.

Lemma page_fields_keys tree rsrc cont p : forall k, In k (keys (page_fields tree rsrc cont p)) -> In k page_keys.
Proof.
  intros k. unfold page_fields. rewrite !keys_app, !keys_opt_entry.
  destruct (pg_mb p), (pg_cb p), (pg_tb p); cbn [keys map fst app In]; unfold page_keys; cbn [In]; tauto.
Qed.

Lemma ldepth_num l : Forall num_ok l -> ldepth l = 0.
Proof.
  induction 1 as [|v l [_ Hv] Hl IH]; [reflexivity|]. cbn [ldepth fold_right]. fold (ldepth l). rewrite Hv, IH. reflexivity.
Qed.
Lemma ddepth_opt_entry k o : box_ok o -> ddepth (opt_entry k o) <= 1.
Proof.
  destruct o as [l|]; cbn [opt_entry box_ok]; intros H; [|cbn; lia].
  cbn [ddepth fold_right snd]. rewrite vdepth_arr, (ldepth_num l H). lia.
Qed.

Lemma page_fields_nodup tree rsrc cont p : NoDup (keys (page_fields tree rsrc cont p)).
Proof.
  unfold page_fields. rewrite !keys_app, !keys_opt_entry.
  destruct (pg_mb p), (pg_cb p), (pg_tb p); cbn [keys map fst app];
    repeat (constructor; [cbn [In]; intuition discriminate|]); constructor.
Qed.

Lemma page_fields_storable tree rsrc cont p :
  fst tree < U64 -> snd tree < U64 -> fst rsrc < U64 -> snd rsrc < U64 -> fst cont < U64 -> snd cont < U64 ->
  box_ok (pg_mb p) -> box_ok (pg_cb p) -> box_ok (pg_tb p) -> I32 (pg_rot p) ->
  storable (PDict (page_fields tree rsrc cont p)) /\ vdepth (PDict (page_fields tree rsrc cont p)) <= 2.
Proof.
  intros T1 T2 R1 R2 C1 C2 Bm Bc Bt Hr. split.
  - apply st_dict; [apply page_fields_nodup|]. unfold page_fields.
    apply Forall_app; split; [|apply Forall_app; split; [|apply Forall_app; split; [|apply Forall_app; split]]].
    + constructor; [apply entry_ok; [reflexivity|reflexivity|apply st_name'; reflexivity]|].
      constructor; [apply entry_ok; [reflexivity|reflexivity|apply st_ref'; assumption]|].
      constructor; [apply entry_ok; [reflexivity|reflexivity|apply st_ref'; assumption]|constructor].
    + apply opt_entry_storable; [reflexivity|reflexivity|exact Bm].
    + apply opt_entry_storable; [reflexivity|reflexivity|exact Bc].
    + apply opt_entry_storable; [reflexivity|reflexivity|exact Bt].
    + constructor; [apply entry_ok; [reflexivity|reflexivity|apply st_ref'; assumption]|].
      constructor; [apply entry_ok; [reflexivity|reflexivity|apply st_int; exact Hr]|constructor].
  - rewrite vdepth_dict. unfold page_fields. rewrite !ddepth_app.
    pose proof (ddepth_opt_entry k_MediaBox _ Bm). pose proof (ddepth_opt_entry k_CropBox _ Bc). pose proof (ddepth_opt_entry k_TrimBox _ Bt).
    assert (E1 : ddepth [(kT, PName n_Page); (k_Parent, pref tree); (k_Resources, pref rsrc)] = 0) by reflexivity.
    assert (E2 : ddepth [(k_Contents, pref cont); (k_Rotate, PInt (pg_rot p))] = 0) by reflexivity.
    rewrite E1, E2. lia.
Qed.

Lemma page_dict_eq tree rsrc cont p : page_ok p ->
  page_dict tree rsrc cont p = pg_other p ++ page_fields tree rsrc cont p.
Proof.
  intros (_ & _ & Hdis & _). unfold page_dict. apply merge_dict_fresh; [apply page_fields_nodup|].
  intros k Hin. apply Hdis. eapply page_fields_keys. exact Hin.
Qed.

Lemma max_depth_2 : 2 <= MAX_DEPTH.
Proof. vm_compute. discriminate. Qed.

Lemma page_dict_storable tree rsrc cont p : page_ok p ->
  fst tree < U64 -> snd tree < U64 -> fst rsrc < U64 -> snd rsrc < U64 -> fst cont < U64 -> snd cont < U64 ->
  storable (PDict (page_dict tree rsrc cont p)) /\ vdepth (PDict (page_dict tree rsrc cont p)) <= MAX_DEPTH.
Proof.
  intros Hok T1 T2 R1 R2 C1 C2. rewrite (page_dict_eq _ _ _ _ Hok).
  destruct Hok as (So & Do & Hdis & Bm & Bc & Bt & Hr & _).
  destruct (page_fields_storable tree rsrc cont p T1 T2 R1 R2 C1 C2 Bm Bc Bt Hr) as [Sf Df].
  split.
  - apply storable_dict_app; [exact So|exact Sf|]. intros k Hin. apply Hdis. eapply page_fields_keys. exact Hin.
  - rewrite vdepth_dict_app. pose proof max_depth_2. lia.
Qed.

Lemma tree_dict_storable kids : Forall (fun r => fst r < U64 /\ snd r < U64) kids -> (Z.of_nat (length kids) <= 2147483647)%Z ->
  storable (PDict (tree_dict kids)) /\ vdepth (PDict (tree_dict kids)) <= MAX_DEPTH.
Proof.
  intros Hk Hn. split.
  - apply st_dict; [repeat (constructor; [cbn [In]; intuition discriminate|]); constructor|].
    constructor; [apply entry_ok; [reflexivity|reflexivity|apply st_name'; reflexivity]|].
    constructor; [apply entry_ok; [reflexivity|reflexivity|]|constructor; [apply entry_ok; [reflexivity|reflexivity|]|constructor]].
    + apply st_arr. apply Forall_forall. intros v Hin. apply in_map_iff in Hin. destruct Hin as (r & <- & Hr).
      rewrite Forall_forall in Hk. destruct (Hk r Hr). apply st_ref'; assumption.
    + apply st_int. unfold I32. lia.
  - rewrite vdepth_dict. unfold tree_dict. cbn [ddepth fold_right snd]. rewrite vdepth_arr.
    assert (E : ldepth (map pref kids) = 0).
    { clear. induction kids as [|r t IH]; [reflexivity|]. cbn [map ldepth fold_right]. fold (ldepth (map pref t)). rewrite IH. reflexivity. }
    rewrite E. pose proof max_depth_2. cbn [vdepth]. lia.
Qed.

Lemma catalog_dict_storable tree : fst tree < U64 -> snd tree < U64 ->
  storable (PDict (catalog_dict tree)) /\ vdepth (PDict (catalog_dict tree)) <= MAX_DEPTH.
Proof.
  intros T1 T2. split; [|vm_compute; discriminate].
  apply st_dict; [repeat (constructor; [cbn [In]; intuition discriminate|]); constructor|].
  constructor; [apply entry_ok; [reflexivity|reflexivity|apply st_name'; reflexivity]|].
  constructor; [apply entry_ok; [reflexivity|reflexivity|apply st_name'; reflexivity]|].
  constructor; [apply entry_ok; [reflexivity|reflexivity|apply st_ref'; assumption]|constructor].
Qed.

Lemma content_dict_storable (data : bytes) : lenN data < 2147483648 ->
  storable (PDict [(k_Length, PInt (Z.of_N (lenN data)))]) /\ vdepth (PDict [(k_Length, PInt (Z.of_N (lenN data)))]) <= MAX_DEPTH /\
  dict_get key_Length [(k_Length, PInt (Z.of_N (lenN data)))] = Some (PInt (Z.of_N (lenN data))).
Proof.
  intros H. split; [|split; [vm_compute; discriminate|reflexivity]].
  apply st_dict; [repeat (constructor; [cbn [In]; intuition discriminate|]); constructor|].
  constructor; [apply entry_ok; [reflexivity|reflexivity|apply st_int; lia]|constructor].
Qed.

(* ---------------------------------------------------------------- the builder's state *)
Lemma create_wf' s v s' r : wf_st s -> create s v = (s', r) -> wf_st s'.
Proof. first [exact (create_wf ser s v s' r)|exact (create_wf s v s' r)]. Qed.
Lemma update_wf' s old v s' r : wf_st s -> update s old v = Ok (s', r) -> wf_st s'.
Proof. first [exact (update_wf ser s old v s' r)|exact (update_wf s old v s' r)]. Qed.
Lemma promise_wf' s s' r : wf_st s -> promise s = (s', r) -> wf_st s'.
Proof. first [exact (promise_wf ser s s' r)|exact (promise_wf s s' r)]. Qed.

Lemma nthN_lt {A} (l : list A) i x : nthN l i = Some x -> i < lenN l.
Proof.
  intros H. destruct (N.lt_ge_cases i (lenN l)) as [L|L]; [exact L|]. rewrite nthN_none in H by exact L. discriminate.
Qed.

Lemma lenN_app1 {A} (l : list A) x : lenN (l ++ [x]) = lenN l + 1.
Proof. unfold lenN. rewrite app_length. cbn [length]. lia. Qed.

Lemma fulfil_pages_spec ps : forall proms s tree s',
  wf_st s -> length proms = length ps -> NoDup (map fst proms) ->
  (forall r, In r proms -> nthN (refs s) (fst r) = Some XPromised /\ snd r = 0) ->
  fulfil_pages s tree ps proms = Ok s' ->
  wf_st s' /\ backend s' = backend s /\ start s' = start s /\
  lenN (refs s') = lenN (refs s) + 2 * lenN ps /\
  (forall i, i < lenN (refs s) -> ~ In i (map fst proms) -> clookup (changes s') i = clookup (changes s) i) /\
  Forall2 (fun r p => exists rsrc cont,
     clookup (changes s') (fst r) = Some (PDict (page_dict tree rsrc cont p), 0) /\
     clookup (changes s') (fst rsrc) = Some (PDict [], 0) /\
     clookup (changes s') (fst cont) = Some (content_stream (pg_content p), 0) /\
     snd r = 0 /\ snd rsrc = 0 /\ snd cont = 0 /\ fst r < lenN (refs s') /\ fst rsrc < lenN (refs s') /\ fst cont < lenN (refs s')) proms ps.
Proof.
  induction ps as [|p ps IH]; intros proms s tree s' Hwf Hlen Hnd Hpr H.
  - destruct proms; [|discriminate]. cbn in H. inversion H; subst s'.
    repeat split; try reflexivity; try exact Hwf; try (apply Hwf). 
    + change (lenN (@nil page)) with 0. lia.
    + constructor.
  - destruct proms as [|r rs]; [discriminate|]. cbn [length] in Hlen. injection Hlen as Hlen.
    cbn [map] in Hnd. inversion Hnd as [|? ? Hnotin Hnd']; subst.
    destruct (Hpr r (or_introl eq_refl)) as [Hr Hr0].
    pose proof (nthN_lt _ _ _ Hr) as HrL.
    set (L := lenN (refs s)) in *.
    cbn [fulfil_pages] in H.
    destruct (create s (PDict [])) as [s1 rsrc] eqn:E1.
    destruct (create s1 (content_stream (pg_content p))) as [s2 cont] eqn:E2.
    assert (W1 : wf_st s1) by (eapply create_wf'; [exact Hwf|exact E1]). assert (W2 : wf_st s2) by (eapply create_wf'; [exact W1|exact E2]).
    unfold create in E1. inversion E1; subst s1 rsrc; clear E1. cbn [refs changes backend start cached] in *.
    unfold create in E2. cbn [refs changes backend start cached] in E2. inversion E2; subst s2 cont; clear E2.
    fold L in H, W2. rewrite lenN_app1 in H, W2. fold L in H, W2.
    unfold fulfill in H.
    set (v := PDict (page_dict tree (L, 0) (L + 1, 0) p)) in *.
    destruct (update _ r v) as [[s3 r3]| | |] eqn:E3; cbn [bind] in H; try discriminate. cbn [fst] in H.
    assert (W3 : wf_st s3) by (eapply update_wf'; [exact W2|exact E3]).
    unfold update in E3. cbn [refs changes backend start cached] in E3.
    rewrite !nthN_app_l in E3 by (rewrite ?lenN_app1; fold L; lia). rewrite Hr in E3. cbn [bind] in E3.
    inversion E3; subst s3 r3; clear E3.
    match type of H with fulfil_pages ?S3 _ _ _ = _ => set (s3 := S3) in * end.
    assert (HL3 : lenN (refs s3) = L + 2).
    { unfold s3. cbn [refs]. rewrite !lenN_app1. fold L. lia. }
    destruct (IH rs s3 tree s' W3 Hlen Hnd') as (W' & B' & S' & Ln' & Fr' & F2'); [|exact H|].
    { intros r' Hin. destruct (Hpr r' (or_intror Hin)) as [Hr' Hr0']. split; [|exact Hr0'].
      unfold s3. cbn [refs]. pose proof (nthN_lt _ _ _ Hr'). rewrite !nthN_app_l by (rewrite ?lenN_app1; fold L; lia). exact Hr'. }
    assert (Hrs : forall i, In i (map fst rs) -> i < L).
    { intros i Hin. apply in_map_iff in Hin. destruct Hin as (r' & <- & Hin). destruct (Hpr r' (or_intror Hin)) as [Hr' _].
      exact (nthN_lt _ _ _ Hr'). }
    assert (Hc3 : forall i, clookup (changes s3) i =
                   if i =? fst r then Some (v, 0) else if i =? L + 1 then Some (content_stream (pg_content p), 0)
                   else if i =? L then Some (PDict [], 0) else clookup (changes s) i).
    { intros i. unfold s3. cbn [changes snd].
      destruct (N.eqb_spec i (fst r)) as [->|N1]; [apply clookup_cinsert_same|]. rewrite clookup_cinsert_other by exact N1.
      destruct (N.eqb_spec i (L + 1)) as [->|N2]; [apply clookup_cinsert_same|]. rewrite clookup_cinsert_other by exact N2.
      destruct (N.eqb_spec i L) as [->|N3]; [apply clookup_cinsert_same|]. rewrite clookup_cinsert_other by exact N3. reflexivity. }
    split; [exact W'|]. split; [rewrite B'; reflexivity|]. split; [rewrite S'; reflexivity|].
    split; [rewrite Ln', HL3; rewrite (lenN_cons p ps); lia|].
    split.
    + intros i Hi Hni. cbn [map In] in Hni. rewrite Fr' by (rewrite ?HL3; try lia; intros Hin; apply Hni; right; exact Hin).
      rewrite Hc3.
      destruct (N.eqb_spec i (fst r)) as [->|N1]; [exfalso; apply Hni; left; reflexivity|].
      destruct (N.eqb_spec i (L + 1)) as [->|N2]; [lia|]. destruct (N.eqb_spec i L) as [->|N3]; [lia|]. reflexivity.
    + constructor; [|exact F2'].
      exists (L, 0), (L + 1, 0). cbn [fst snd].
      assert (G : forall i, i < L + 2 -> (In i (map fst rs) -> False) -> clookup (changes s') i = clookup (changes s3) i).
      { intros i Hi Hn. apply Fr'; [rewrite HL3; exact Hi|exact Hn]. }
      repeat split; try reflexivity; try exact Hr0; try (rewrite Ln', HL3; lia).
      * rewrite G; [|lia|exact Hnotin]. rewrite Hc3, N.eqb_refl. reflexivity.
      * rewrite G; [|lia|intros Hin; specialize (Hrs _ Hin); lia]. rewrite Hc3.
        destruct (N.eqb_spec L (fst r)) as [E|_]; [lia|]. destruct (N.eqb_spec L (L + 1)) as [E|_]; [lia|]. rewrite N.eqb_refl. reflexivity.
      * rewrite G; [|lia|intros Hin; specialize (Hrs _ Hin); lia]. rewrite Hc3.
        destruct (N.eqb_spec (L + 1) (fst r)) as [E|_]; [lia|]. rewrite N.eqb_refl. reflexivity.
Qed.

Lemma promise_all_frame k : forall s1 s2 rs, promise_all s1 k = (s2, rs) ->
  forall i, i < lenN (refs s1) -> nthN (refs s2) i = nthN (refs s1) i.
Proof.
  induction k as [|k IHk]; intros a b c Hk i Hi; cbn [promise_all] in Hk; [inversion Hk; reflexivity|].
  destruct (promise a) as [a1 ra] eqn:Ea. destruct (promise_all a1 k) as [a2 rsa] eqn:Eb. inversion Hk; subst.
  unfold promise in Ea. inversion Ea; subst a1 ra. rewrite (IHk _ _ _ Eb) by (cbn [refs]; rewrite lenN_app1; lia).
  cbn [refs]. apply nthN_app_l. lia.
Qed.

Lemma promise_all_spec n : forall s s' rs, wf_st s -> promise_all s n = (s', rs) ->
  wf_st s' /\ changes s' = changes s /\ backend s' = backend s /\ start s' = start s /\
  lenN (refs s') = lenN (refs s) + N.of_nat n /\ length rs = n /\ NoDup (map fst rs) /\
  (forall r, In r rs -> nthN (refs s') (fst r) = Some XPromised /\ snd r = 0 /\ lenN (refs s) <= fst r).
Proof.
  induction n as [|n IH]; intros s s' rs Hwf H; cbn [promise_all] in H.
  - inversion H; subst. split; [exact Hwf|]. split; [reflexivity|]. split; [reflexivity|]. split; [reflexivity|].
    split; [cbn; lia|]. split; [reflexivity|]. split; [constructor|intros r []].
  - destruct (promise s) as [s1 r] eqn:E1. destruct (promise_all s1 n) as [s2 rs'] eqn:E2. inversion H; subst s' rs; clear H.
    assert (W1 : wf_st s1) by (eapply promise_wf'; [exact Hwf|exact E1]).
    unfold promise in E1. inversion E1; subst s1 r; clear E1.
    destruct (IH _ _ _ W1 E2) as (W2 & C2 & B2 & S2 & L2 & N2 & D2 & P2).
    pose proof (promise_all_frame _ _ _ _ E2) as Fr.
    cbn [refs changes backend start] in *. rewrite lenN_app1 in *.
    split; [exact W2|]. split; [exact C2|]. split; [exact B2|]. split; [exact S2|].
    split; [rewrite L2; lia|]. split; [cbn [length]; lia|].
    split.
    + cbn [map fst]. constructor; [|exact D2]. intros Hin. apply in_map_iff in Hin. destruct Hin as (r' & E & Hin).
      destruct (P2 r' Hin) as (_ & _ & Hge). lia.
    + intros r [<-|Hin].
      * cbn [fst snd]. split; [|split; [reflexivity|lia]].
        rewrite Fr by lia. apply nthN_app_new.
      * destruct (P2 r Hin) as (Q1 & Q2 & Q3). split; [exact Q1|]. split; [exact Q2|lia].
Qed.

Lemma Forall2_imp {A B} (P Q : A -> B -> Prop) l1 l2 : (forall a b, P a b -> Q a b) -> Forall2 P l1 l2 -> Forall2 Q l1 l2.
Proof. intros H. induction 1; constructor; auto. Qed.

Definition page_written (s : st) (tree : N * N) (r : N * N) (p : page) : Prop :=
  exists rsrc cont,
     clookup (changes s) (fst r) = Some (PDict (page_dict tree rsrc cont p), 0) /\
     clookup (changes s) (fst rsrc) = Some (PDict [], 0) /\
     clookup (changes s) (fst cont) = Some (content_stream (pg_content p), 0) /\
     snd r = 0 /\ snd rsrc = 0 /\ snd cont = 0 /\ fst r < lenN (refs s) /\ fst rsrc < lenN (refs s) /\ fst cont < lenN (refs s).

(** the state PdfBuilder::build hands to save *)
Theorem build_catalog_spec ps s4 cat :
  build_catalog ps = Ok (s4, cat) ->
  wf_st s4 /\ start s4 = 0 /\ backend s4 = backend empty_storage /\ lenN (refs s4) = 3 * lenN ps + 3 /\
  exists tree kids,
    clookup (changes s4) (fst cat) = Some (PDict (catalog_dict tree), 0) /\ snd cat = 0 /\ fst cat < lenN (refs s4) /\
    clookup (changes s4) (fst tree) = Some (PDict (tree_dict kids), 0) /\ snd tree = 0 /\ fst tree < lenN (refs s4) /\
    Forall2 (page_written s4 tree) kids ps.
Proof.
  unfold build_catalog. destruct (promise_all empty_storage (length ps)) as [s1 proms] eqn:E1.
  assert (W0 : wf_st empty_storage).
  { unfold wf_st, empty_storage. cbn. split; [constructor|]. split; [intros i []|discriminate]. }
  destruct (promise_all_spec _ _ _ _ W0 E1) as (W1 & C1 & B1 & S1 & L1 & N1 & D1 & P1).
  destruct (create s1 (PDict (tree_dict proms))) as [s2 tree] eqn:E2.
  assert (W2 : wf_st s2) by (eapply create_wf'; [exact W1|exact E2]).
  unfold create in E2. inversion E2; subst s2 tree; clear E2.
  set (T := lenN (refs s1)) in *.
  match goal with |- context [fulfil_pages ?S _ _ _] => set (s2 := S) in * end.
  destruct (fulfil_pages s2 (T, 0) ps proms) as [s3| | |] eqn:E3; cbn [bind]; try discriminate.
  intros H. inversion H; subst s4 cat; clear H.
  destruct (fulfil_pages_spec ps proms s2 (T, 0) s3 W2 N1 D1) as (W3 & B3 & S3 & L3 & Fr3 & F3); [|exact E3|].
  { intros r Hin. destruct (P1 r Hin) as (Q1 & Q2 & Q3). split; [|exact Q2].
    unfold s2. cbn [refs]. rewrite nthN_app_l; [exact Q1|]. pose proof (nthN_lt _ _ _ Q1) as HQ. lia. }
  assert (L2 : lenN (refs s2) = T + 1) by (unfold s2; cbn [refs]; apply lenN_app1).
  assert (HT : T = 1 + lenN ps).
  { rewrite L1. unfold empty_storage, lenN. cbn [refs length]. lia. }
  set (C := lenN (refs s3)).
  assert (HC : C = 3 * lenN ps + 2) by (unfold C; rewrite L3, L2; lia).
  assert (W4 : wf_st (fst (create s3 (PDict (catalog_dict (T, 0)))))) by (eapply create_wf'; [exact W3|apply surjective_pairing]).
  unfold create in *. cbn [fst snd refs changes backend start] in *.
  split; [exact W4|]. split; [rewrite S3; unfold s2; cbn [start]; rewrite S1; reflexivity|].
  split; [rewrite B3; unfold s2; cbn [backend]; exact B1|].
  split; [rewrite lenN_app1; fold C; lia|].
  exists (T, 0), proms. cbn [fst snd]. fold C.
  assert (HpT : forall i, In i (map fst proms) -> i < T).
  { intros i Hin. apply in_map_iff in Hin. destruct Hin as (r & <- & Hin). destruct (P1 r Hin) as (Q1 & _). exact (nthN_lt _ _ _ Q1). }
  split; [apply clookup_cinsert_same|]. split; [reflexivity|]. split; [rewrite lenN_app1; fold C; lia|].
  split.
  { rewrite clookup_cinsert_other by lia. rewrite Fr3; [|rewrite L2; lia|intros Hin; specialize (HpT _ Hin); lia].
    unfold s2. cbn [changes]. apply clookup_cinsert_same. }
  split; [reflexivity|]. split; [rewrite lenN_app1; fold C; lia|].
  eapply Forall2_imp; [|exact F3].
  intros r p (rsrc & cont & Q1 & Q2 & Q3 & Q4 & Q5 & Q6 & Q7 & Q8 & Q9). exists rsrc, cont. fold C in Q7, Q8, Q9.
  cbn [changes refs]. rewrite !clookup_cinsert_other by lia. rewrite lenN_app1. fold C.
  repeat split; try assumption; lia.
Qed.

(* ---------------------------------------------------------------- reload of a built file *)
Lemma save_trailer sr s tr s' tr' : save sr s tr = Ok (s', tr', None) -> t_root tr' = t_root tr /\ t_info tr' = t_info tr.
Proof.
  unfold Model.save.
  destruct (match t_info tr with Some d => let '(s1, r) := create s (PDict d) in (s1, Some r) | None => (s, None) end) as [s1 iref].
  destruct (write_revision sr s1 _) as [[s2|e|k|]|[rf [u|e|k|]]]; try discriminate.
  intros H. inversion H; subst. split; reflexivity.
Qed.

Lemma Forall2_len {A B} (P : A -> B -> Prop) l1 l2 : Forall2 P l1 l2 -> length l1 = length l2.
Proof. induction 1; cbn [length]; congruence. Qed.

Definition reloaded (s' s3 : st) : Prop :=
  changes s3 = [] /\ backend s3 = backend s' /\ start s3 = 0 /\
  (forall i, i < lenN (refs s') -> nthN (refs s3) i = nthN (refs s') i).

Definition info_ok (info : option dict) : Prop :=
  match info with Some d => storable (PDict d) /\ vdepth (PDict d) <= MAX_DEPTH | None => True end.

Definition page_reloaded member (s3 : st) (tree kid : N * N) (p : page) : Prop :=
  exists rsrc cont st,
    resolve parse_obj member s3 kid = Ok (PDict (pg_other p ++ page_fields tree rsrc cont p)) /\
    resolve parse_obj member s3 rsrc = Ok (PDict []) /\
    resolve parse_obj member s3 cont
      = Ok (PStream [(k_Length, PInt (Z.of_N (lenN (pg_content p))))] (fst cont) 0 st (lenN (pg_content p))) /\
    raw_data (backend s3) (PStream [(k_Length, PInt (Z.of_N (lenN (pg_content p))))] (fst cont) 0 st (lenN (pg_content p)))
      = Some (pg_content p).

Theorem build_reload ps info s' tr' :
  Forall page_ok ps -> info_ok info -> lenN ps < 1000000 ->
  build ps info = Ok (s', tr', None) ->
  forall member s3, reloaded s' s3 ->
  exists tree kids,
    resolve parse_obj member s3 (t_root tr') = Ok (PDict (catalog_dict tree)) /\
    resolve parse_obj member s3 tree = Ok (PDict (tree_dict kids)) /\
    Forall2 (page_reloaded member s3 tree) kids ps /\
    t_info tr' = info /\
    match info with
    | Some d => resolve parse_obj member s3 (lenN (refs s') - 2, 0) = Ok (PDict d)
    | None => True
    end.
Proof.
  intros Hps Hinfo Hn Hb member s3 (Rc & Rb & Rs & Rt).
  unfold build in Hb. destruct (build_catalog ps) as [[s4 cat]| | |] eqn:Ec; cbn [bind fst snd] in Hb; try discriminate.
  destruct (build_catalog_spec ps s4 cat Ec) as (W4 & S4 & B4 & L4 & tree & kids & Ccat & Cat0 & CatL & Ctree & Tree0 & TreeL & F2).
  set (tr := build_trailer cat info) in *.
  destruct (save_trailer _ _ _ _ _ Hb) as [Troot Tinfo].
  assert (Rs' : start s3 = start s4) by (rewrite S4; exact Rs).
  assert (HU : forall i, i < lenN (refs s4) + 1 -> i < U64) by (intros i Hi; unfold U64; lia).
  assert (KP : forall id v, clookup (changes s4) id = Some v -> clookup (changes (save_pre s4 tr)) id = Some v)
    by (intros id v; apply save_pre_keeps; exact W4).
  pose proof (fun id p g g' => reload_sees_storable member s4 tr s' tr' s3 W4 Hb Rc Rb Rs' Rt id p g g') as RS.
  pose proof (fun id d data g g' => reload_sees_stream member s4 tr s' tr' s3 W4 Hb Rc Rb Rs' Rt id d data g g') as RST.
  assert (U0 : 0 < U64) by reflexivity.
  exists tree, kids.
  assert (Hkids : length kids = length ps) by (eapply Forall2_len; exact F2).
  split; [|split; [|split; [|split]]].
  - rewrite Troot. unfold tr, build_trailer. cbn [t_root]. destruct cat as [c0 c1]. cbn [fst snd] in *. subst c1.
    destruct (catalog_dict_storable tree) as [Sc Dc]; [apply HU; lia|rewrite Tree0; exact U0|].
    apply (RS c0 _ 0 0 (KP _ _ Ccat) Sc Dc); [apply HU; lia|exact U0].
  - destruct tree as [t0 t1]. cbn [fst snd] in *. subst t1.
    destruct (tree_dict_storable kids) as [St Dt].
    { clear - F2 HU U0. induction F2 as [|r p kids ps Hr _ IH]; constructor; [|exact IH].
      destruct Hr as (rsrc & cont & _ & _ & _ & Q4 & _ & _ & Q7 & _). split; [apply HU; lia|rewrite Q4; exact U0]. }
    { rewrite Hkids. unfold lenN in Hn. lia. }
    apply (RS t0 _ 0 0 (KP _ _ Ctree) St Dt); [apply HU; lia|exact U0].
  - clear Ccat Ctree Hkids Hn Ec L4. revert Hps. induction F2 as [|r p kids' ps' Hr _ IH]; intros Hps; constructor.
    + inversion Hps as [|? ? Hp _]; subst.
      destruct Hr as (rsrc & cont & Q1 & Q2 & Q3 & Q4 & Q5 & Q6 & Q7 & Q8 & Q9).
      destruct r as [r0 r1], rsrc as [a0 a1], cont as [c0 c1]. cbn [fst snd] in *. subst r1 a1 c1.
      assert (T0 : snd tree < U64) by (rewrite Tree0; exact U0).
      destruct (page_dict_storable tree (a0, 0) (c0, 0) p Hp) as [Sp Dp]; cbn [fst snd]; try exact U0; try (apply HU; lia).
      destruct (content_dict_storable (pg_content p)) as (Sd & Dd & Ld); [apply Hp|].
      destruct (RST c0 _ _ 0 0 (KP _ _ Q3) Sd Dd Ld) as (st & Hres & Hraw); [apply HU; lia|exact U0|].
      exists (a0, 0), (c0, 0), st. cbn [fst snd].
      split; [rewrite <- (page_dict_eq tree (a0, 0) (c0, 0) p Hp); apply (RS r0 _ 0 0 (KP _ _ Q1) Sp Dp); [apply HU; lia|exact U0]|].
      split; [|split; [exact Hres|exact Hraw]].
      apply (RS a0 _ 0 0 (KP _ _ Q2)); [apply st_dict; constructor|vm_compute; discriminate|apply HU; lia|exact U0].
    + apply IH. inversion Hps; subst; assumption.
  - rewrite Tinfo. reflexivity.
  - destruct info as [d|]; [|exact I]. destruct Hinfo as [Sd Dd].
    destruct (save_layout ser s4 tr s' tr' W4 Hb) as (_ & _ & Hlen & _).
    assert (E1 : lenN (refs (save_pre s4 tr)) = lenN (refs s4) + 1).
    { unfold save_pre, tr, build_trailer. cbn [t_info]. unfold create. cbn [fst refs]. apply lenN_app1. }
    replace (lenN (refs s') - 2) with (lenN (refs s4)) by lia.
    apply (RS (lenN (refs s4)) (PDict d) 0 0); [|exact Sd|exact Dd|apply HU; lia|exact U0].
    unfold save_pre, tr, build_trailer. cbn [t_info]. unfold create. cbn [fst changes]. apply clookup_cinsert_same.
Qed.

(* ---------------------------------------------------------------- structural validity of a built file *)
Definition all_promised (s : st) : Prop :=
  forall i e, nthN (refs s) i = Some e -> (i = 0 /\ e = XFree 0 65535) \/ (0 < i /\ e = XPromised).

Lemma nthN_app1_inv {A} (l : list A) x i e : nthN (l ++ [x]) i = Some e -> nthN l i = Some e \/ (i = lenN l /\ e = x).
Proof.
  intros H. destruct (N.eq_dec i (lenN l)) as [->|Hne].
  - rewrite nthN_app_new in H. inversion H. right. split; reflexivity.
  - rewrite nthN_app_l in H by exact Hne. left. exact H.
Qed.

Lemma all_promised_push s rf' : all_promised s -> 0 < lenN (refs s) -> rf' = refs s ++ [XPromised] ->
  forall i e, nthN rf' i = Some e -> (i = 0 /\ e = XFree 0 65535) \/ (0 < i /\ e = XPromised).
Proof.
  intros H H0 -> i e Hn. destruct (nthN_app1_inv _ _ _ _ Hn) as [Hl|[-> ->]]; [apply H; exact Hl|right; split; [exact H0|reflexivity]].
Qed.

Definition binv (s : st) : Prop :=
  all_promised s /\ 0 < lenN (refs s) /\ clookup (changes s) 0 = None /\
  (forall id p g, clookup (changes s) id = Some (p, g) -> g = 0).

Lemma promise_binv s : binv s -> binv (fst (promise s)).
Proof.
  intros (Hp & H0 & Hc & Hg). unfold promise. cbn [fst]. split; [|split; [|split]]; cbn [refs changes].
  - unfold all_promised. cbn [refs]. eapply all_promised_push; [exact Hp|exact H0|reflexivity].
  - rewrite lenN_app1. lia.
  - exact Hc.
  - exact Hg.
Qed.

Lemma create_binv s v : binv s -> binv (fst (create s v)).
Proof.
  intros (Hp & H0 & Hc & Hg). unfold create. cbn [fst]. split; [|split; [|split]]; cbn [refs changes].
  - unfold all_promised. cbn [refs]. eapply all_promised_push; [exact Hp|exact H0|reflexivity].
  - rewrite lenN_app1. lia.
  - rewrite clookup_cinsert_other by lia. exact Hc.
  - intros id p g. destruct (N.eq_dec id (lenN (refs s))) as [->|Hne].
    + rewrite clookup_cinsert_same. intros H. inversion H. reflexivity.
    + rewrite clookup_cinsert_other by exact Hne. apply Hg.
Qed.

Lemma update_binv s old v s' r : binv s -> update s old v = Ok (s', r) -> binv s'.
Proof.
  intros (Hp & H0 & Hc & Hg) H. unfold update in H. destruct (nthN (refs s) (fst old)) as [e|] eqn:En; [|discriminate].
  destruct (Hp _ _ En) as [[Hi ->]|[Hi ->]]; cbn [bind] in H; [discriminate|].
  inversion H; subst s' r; clear H. split; [|split; [|split]]; cbn [refs changes snd].
  - exact Hp.
  - exact H0.
  - rewrite clookup_cinsert_other by lia. exact Hc.
  - intros id p g. destruct (N.eq_dec id (fst old)) as [->|Hne].
    + rewrite clookup_cinsert_same. intros H. inversion H. reflexivity.
    + rewrite clookup_cinsert_other by exact Hne. apply Hg.
Qed.

Lemma promise_all_binv n : forall s s' rs, binv s -> promise_all s n = (s', rs) -> binv s'.
Proof.
  induction n as [|n IH]; intros s s' rs Hb H; cbn [promise_all] in H; [inversion H; subst; exact Hb|].
  pose proof (promise_binv s Hb) as H1.
  destruct (promise s) as [s1 r] eqn:E1. destruct (promise_all s1 n) as [s2 rs'] eqn:E2. inversion H; subst s' rs; clear H.
  cbn [fst] in H1. exact (IH _ _ _ H1 E2).
Qed.

Lemma fulfil_pages_binv ps : forall proms s tree s', binv s -> fulfil_pages s tree ps proms = Ok s' -> binv s'.
Proof.
  induction ps as [|p ps IH]; intros proms s tree s' Hb H; [destruct proms; cbn in H; inversion H; subst; exact Hb|].
  destruct proms as [|r rs]; [cbn in H; inversion H; subst; exact Hb|].
  cbn [fulfil_pages] in H.
  pose proof (create_binv s (PDict []) Hb) as B1.
  destruct (create s (PDict [])) as [s1 rsrc] eqn:E1. cbn [fst] in B1.
  pose proof (create_binv s1 (content_stream (pg_content p)) B1) as B2.
  destruct (create s1 (content_stream (pg_content p))) as [s2 cont] eqn:E2. cbn [fst] in B2.
  unfold fulfill in H. destruct (update s2 r _) as [[s3 r3]| | |] eqn:E3; cbn [bind fst] in H; try discriminate.
  exact (IH _ _ _ _ (update_binv _ _ _ _ _ B2 E3) H).
Qed.

Lemma build_catalog_binv ps s4 cat : build_catalog ps = Ok (s4, cat) -> binv s4.
Proof.
  unfold build_catalog. destruct (promise_all empty_storage (length ps)) as [s1 proms] eqn:E1.
  assert (B0 : binv empty_storage).
  { split; [|split; [reflexivity|split; [reflexivity|intros id p g H; discriminate]]]. intros i e H. unfold empty_storage, nthN in H. cbn [refs] in H.
    destruct (N.to_nat i) as [|k] eqn:Ei; [|destruct k; discriminate]. cbn in H. inversion H. left. split; [lia|reflexivity]. }
  pose proof (promise_all_binv _ _ _ _ B0 E1) as B1.
  pose proof (create_binv s1 (PDict (tree_dict proms)) B1) as B2.
  destruct (create s1 (PDict (tree_dict proms))) as [s2 tree] eqn:E2. cbn [fst] in B2.
  destruct (fulfil_pages s2 tree ps proms) as [s3| | |] eqn:E3; cbn [bind]; try discriminate.
  pose proof (fulfil_pages_binv _ _ _ _ _ B2 E3) as B3.
  intros H. inversion H; subst s4 cat. apply create_binv. exact B3.
Qed.

Lemma write_rows_in aw bw es data : write_rows aw bw es = Ok data -> forall e, In e es -> xfields e <> None.
Proof.
  revert data. induction es as [|e t IH]; intros data H x Hin; [destruct Hin|].
  cbn [write_rows] in H. destruct (xfields e) as [[[ty a] b]|] eqn:Ex; [|discriminate].
  destruct (write_rows aw bw t) as [r| | |] eqn:Er; cbn [bind] in H; try discriminate.
  destruct Hin as [<-|Hin]; [rewrite Ex; discriminate|exact (IH _ eq_refl _ Hin)].
Qed.

Lemma write_stream_in es aw bw data : write_stream es (lenN es) = Ok (aw, bw, data) -> forall i e, nthN es i = Some e -> xfields e <> None.
Proof.
  unfold write_stream. destruct (max_field_widths es) as [ma mb]. unfold take, lenN. rewrite Nat2N.id, firstn_all.
  destruct (write_rows _ _ es) as [d| | |] eqn:Ew; cbn [bind]; try discriminate. intros _ i e Hn.
  eapply write_rows_in; [exact Ew|]. unfold nthN in Hn. eapply nth_error_In. exact Hn.
Qed.

(** what an independent reader checks on the bytes of a file, stated on the bytes and the table [tbl] the file's own
    cross-reference stream encodes: header first; the file ends with the cross-reference stream object (the last entry
    of the table, at the offset `startxref` announces), `startxref`, that offset, `%%EOF`; the stream data is the table
    ([write_stream], which the reader inverts: C09_xref_roundtrip) and its dictionary announces /Size not below the
    number of entries, /Length = byte count of the data; entry 0 is free and every other entry is in use and points at the
    `num gen obj` header of that very number *)
Definition valid_struct (b : bytes) (tbl : list xent) : Prop :=
  prefixb HEADER b = true /\
  nthN tbl 0 = Some (XFree 0 65535) /\
  (forall id, 0 < id -> id < lenN tbl -> exists pos pre post,
      nthN tbl id = Some (XRaw pos 0) /\ b = pre ++ obj_header id 0 ++ post /\ lenN pre = pos) /\
  exists xpos aw bw data xd xs pre,
    0 < lenN tbl /\ nthN tbl (lenN tbl - 1) = Some (XRaw xpos 0) /\
    b = pre ++ obj_header (lenN tbl - 1) 0 ++ xs ++ kw_endobj_nl ++ startxref_tail xpos /\ lenN pre = xpos /\
    write_stream tbl (lenN tbl) = Ok (aw, bw, data) /\
    read_section 0 (lenN tbl) 1 aw bw data = Ok ((0, tbl), []) /\
    ser (PStreamData xd data) = Ok xs /\
    (exists size, dget xd k_Size = Some (PInt size) /\ (Z.of_N (lenN tbl) <= size)%Z) /\ dget xd k_Length = Some (pN (lenN data)) /\
    dget xd k_W = Some (PArr [pN 1; pN aw; pN bw]) /\ dget xd k_Index = Some (PArr [pN 0; pN (lenN tbl)]).

Lemma dget_dinsert d k v k' : dget (dinsert d k v) k' = if beq_bytes k' k then Some v else dget d k'.
Proof.
  induction d as [|[k0 v0] t IH]; cbn [dinsert dget].
  - destruct (beq_bytes k' k); reflexivity.
  - destruct (beq_bytes k k0) eqn:E.
    + apply beq_bytes_eq in E. subst k0. cbn [dget]. destruct (beq_bytes k' k); reflexivity.
    + cbn [dget]. destruct (beq_bytes k' k0) eqn:E2; [|exact IH].
      apply beq_bytes_eq in E2. subst k0. destruct (beq_bytes k' k) eqn:E3; [|reflexivity].
      apply beq_bytes_eq in E3. subst k'. rewrite (proj2 (beq_bytes_eq k k) eq_refl) in E. discriminate.
Qed.

Lemma dget_merge_other td : forall d k, ~ In k (keys td) -> dget (merge_dict d td) k = dget d k.
Proof.
  unfold merge_dict. induction td as [|[k0 v0] t IH]; intros d k Hn; cbn [fold_left]; [reflexivity|].
  cbn [fst snd]. rewrite IH by (intros H; apply Hn; right; exact H). rewrite dget_dinsert.
  rewrite beq_bytes_neq; [reflexivity|]. intros ->. apply Hn. left. reflexivity.
Qed.

Lemma dget_merge_head k v t d : ~ In k (keys t) -> dget (merge_dict d ((k, v) :: t)) k = Some v.
Proof.
  intros Hn. unfold merge_dict. cbn [fold_left fst snd]. fold (merge_dict (dinsert d k v) t).
  rewrite dget_merge_other by exact Hn. rewrite dget_dinsert. rewrite (proj2 (beq_bytes_eq k k) eq_refl). reflexivity.
Qed.

(** the cross-reference stream object of a successful save, with its dictionary *)
Lemma save_xref_obj s tr s' tr' :
  wf_st s -> save ser s tr = Ok (s', tr', None) ->
  exists xpos aw bw data xs pre iref,
    write_stream (refs s') (lenN (refs s')) = Ok (aw, bw, data) /\
    nthN (refs s') (lenN (refs s') - 1) = Some (XRaw xpos 0) /\
    ser (PStreamData (merge_dict (xref_info_dict (lenN (refs s')) aw bw (lenN data))
                                 (trailer_dict tr (Z.of_N (lenN (refs s) + 2)) iref)) data) = Ok xs /\
    backend s' = pre ++ obj_header (lenN (refs s') - 1) 0 ++ xs ++ kw_endobj_nl ++ startxref_tail xpos /\
    lenN pre = start s + xpos /\
    iref = match t_info tr with Some d => Some (lenN (refs s), 0) | None => None end.
Proof.
  intros Hwf0 H.
  pose proof (save_pre_wf ser s tr Hwf0) as Hwf.
  assert (Hst : start (save_pre s tr) = start s /\ backend (save_pre s tr) = backend s).
  { unfold save_pre. destruct (t_info tr); split; reflexivity. }
  destruct Hst as [Hst Hbk].
  unfold Model.save in H.
  assert (Epre : match t_info tr with Some d => let '(s1, r) := create s (PDict d) in (s1, Some r) | None => (s, None) end
                 = (save_pre s tr, match t_info tr with Some d => Some (snd (create s (PDict d))) | None => None end)).
  { unfold save_pre. destruct (t_info tr); reflexivity. }
  rewrite Epre in H. clear Epre.
  set (s1 := save_pre s tr) in *.
  set (iref := match t_info tr with Some d => Some (snd (create s (PDict d))) | None => None end) in *.
  unfold Model.write_revision in H.
  destruct (write_changes ser (sort_changes (changes s1)) (refs s1 ++ [XPromised]) (lenN (backend s1) - start s1) []) as [[rf1 out1] fail] eqn:Ew.
  destruct fail as [e|]; [destruct e; discriminate|].
  set (X := lenN (refs s1)) in *.
  set (xpos := lenN (backend s1) - start s1 + lenN out1) in *.
  destruct (write_stream (xset rf1 X (XRaw xpos 0)) (X + 1)) as [[[aw bw] data]|e|k|] eqn:Es; try discriminate.
  match type of H with context [ser ?x] => destruct (ser x) as [xs|e|k|] eqn:Ex end; try discriminate.
  inversion H; subst s' tr'; clear H. cbn [refs backend start cache].
  destruct (write_changes_frame ser _ _ _ _ _ _ _ Ew) as [Hlen _].
  assert (HlenX : lenN rf1 = X + 1).
  { unfold lenN. rewrite Hlen, app_length. cbn [length]. unfold X, lenN. lia. }
  assert (Hl2 : lenN (xset rf1 X (XRaw xpos 0)) = X + 1) by (unfold lenN; rewrite xset_length; exact HlenX).
  destruct Hwf as [_ [_ Hstart]].
  exists xpos, aw, bw, data, xs, (backend s1 ++ out1), iref. rewrite Hl2.
  replace (X + 1 - 1) with X by lia.
  split; [exact Es|]. split; [apply xset_same; lia|]. split; [exact Ex|].
  split; [rewrite <- !app_assoc; reflexivity|].
  split; [|unfold iref; destruct (t_info tr); reflexivity].
  unfold lenN in *. rewrite app_length. unfold xpos, lenN. rewrite <- Hst. fold s1. lia.
Qed.

Lemma save_pre_binv s tr : binv s -> binv (save_pre s tr).
Proof. intros H. unfold save_pre. destruct (t_info tr); [apply create_binv; exact H|exact H]. Qed.

Lemma In_nthN {A} (l : list A) x : In x l -> exists i, nthN l i = Some x.
Proof.
  intros H. destruct (In_nth_error _ _ H) as [n Hn]. exists (N.of_nat n). unfold nthN. rewrite Nat2N.id. exact Hn.
Qed.

Lemma nthN_some {A} (l : list A) i : i < lenN l -> exists e, nthN l i = Some e.
Proof.
  intros H. unfold nthN. destruct (nth_error l (N.to_nat i)) as [e|] eqn:E; [exists e; reflexivity|].
  apply nth_error_None in E. unfold lenN in H. lia.
Qed.

Theorem build_valid_struct ps info s' tr' :
  build ps info = Ok (s', tr', None) -> lenN (backend s') < 2 ^ 64 -> valid_struct (backend s') (refs s').
Proof.
  intros Hb Hsmall.
  unfold build in Hb. destruct (build_catalog ps) as [[s4 cat]| | |] eqn:Ec; cbn [bind fst snd] in Hb; try discriminate.
  destruct (build_catalog_spec ps s4 cat Ec) as (W4 & S4 & B4 & _).
  pose proof (build_catalog_binv _ _ _ Ec) as I4.
  set (tr := build_trailer cat info) in *.
  pose proof (save_pre_binv s4 tr I4) as (P1 & Q1 & Z1 & G1).
  pose proof (save_layout ser s4 tr s' tr' W4 Hb) as SL. cbv zeta in SL. destruct SL as (HA & HB & Hlen & _ & Hst' & _).
  destruct (save_xref_obj s4 tr s' tr' W4 Hb) as (xpos & aw & bw & data & xs & pre & iref & Hws & Hxe & Hxs & Hbk & Hpre & _).
  rewrite S4 in *. cbn [N.add] in Hpre.
  set (s1 := save_pre s4 tr) in *. set (X := lenN (refs s1)) in *.
  assert (HX : lenN (refs s') - 1 = X) by lia.
  (* every entry of the saved table *)
  assert (Hent : forall id, 0 < id -> id < lenN (refs s') -> exists pos pre post,
             nthN (refs s') id = Some (XRaw pos 0) /\ backend s' = pre ++ obj_header id 0 ++ post /\ lenN pre = pos).
  { intros id Hid Hlt. destruct (N.eq_dec id X) as [->|Hne].
    - exists xpos, pre, (xs ++ kw_endobj_nl ++ startxref_tail xpos). rewrite <- HX at 1. split; [exact Hxe|]. split; [|lia].
      rewrite Hbk, HX. reflexivity.
    - assert (HidX : id < X) by lia.
      destruct (clookup (changes s1) id) as [[p g]|] eqn:El.
      + destruct (HA id p g El) as (body & pre' & post & _ & Hb' & _ & Hn). pose proof (G1 _ _ _ El) as ->.
        exists (lenN pre'), pre', (body ++ [10] ++ kw_endobj_nl ++ post). split; [rewrite Hn; f_equal; f_equal; lia|].
        split; [|reflexivity]. rewrite Hb'. unfold obj_bytes. rewrite <- !app_assoc. reflexivity.
      + exfalso. pose proof (HB id El HidX) as Hsame.
        destruct (nthN_some (refs s1) id HidX) as [e En]. rewrite En in Hsame.
        destruct (P1 _ _ En) as [[Hi _]|[_ ->]]; [lia|].
        apply (write_stream_in _ _ _ _ Hws id XPromised Hsame). reflexivity. }
  assert (H0e : nthN (refs s') 0 = Some (XFree 0 65535)).
  { rewrite (HB 0 Z1 Q1). destruct (nthN_some (refs s1) 0 Q1) as [e En]. rewrite En.
    destruct (P1 _ _ En) as [[_ ->]|[Hi _]]; [reflexivity|lia]. }
  assert (Hrange : table_in_range (refs s')).
  { apply Forall_forall. intros e Hin. destruct (In_nthN _ _ Hin) as [i Hi]. pose proof (nthN_lt _ _ _ Hi) as Hlt.
    destruct (N.eq_dec i 0) as [->|Hne].
    - rewrite H0e in Hi. inversion Hi; subst e. cbn [xfields]. split; reflexivity.
    - destruct (Hent i ltac:(lia) Hlt) as (pos & pre' & post & Hn & Hb' & Hp). rewrite Hn in Hi. inversion Hi; subst e.
      cbn [xfields]. split; [|reflexivity]. rewrite <- Hp. apply (f_equal (@lenN N)) in Hb'. rewrite lenN_app in Hb'. lia. }
  destruct (write_stream_roundtrip (refs s') aw bw data Hrange Hws) as (Hrs & _).
  destruct (save_prefix ser _ _ _ _ _ Hb) as [ext Hext].
  split; [rewrite Hext, B4; reflexivity|]. split; [exact H0e|]. split; [exact Hent|].
  set (size := Z.of_N (lenN (refs s4) + 2)) in *.
  assert (Htd : exists rest, trailer_dict tr size iref = (k_Size, PInt size) :: rest /\ ~ In k_Size (keys rest) /\
                  ~ In k_Length (keys ((k_Size, PInt size) :: rest)) /\ ~ In k_W (keys ((k_Size, PInt size) :: rest)) /\
                  ~ In k_Index (keys ((k_Size, PInt size) :: rest))).
  { unfold trailer_dict, tr, build_trailer. cbn [t_prev t_root t_id app]. eexists. split; [reflexivity|].
    destruct iref; cbn [app keys map fst In]; repeat split; intuition discriminate. }
  destruct Htd as (rest & Etd & N1 & N2 & N3 & N4).
  eexists xpos, aw, bw, data, _, xs, pre.
  split; [lia|]. split; [exact Hxe|]. split; [rewrite HX in Hbk |- *; exact Hbk|]. split; [exact Hpre|].
  split; [exact Hws|]. split; [exact Hrs|]. split; [exact Hxs|].
  split.
  { exists size. split; [rewrite Etd; apply dget_merge_head; exact N1|].
    unfold size. assert (X <= lenN (refs s4) + 1); [|lia].
    unfold X, s1, save_pre. destruct (t_info tr); [unfold create; cbn [fst refs]; rewrite lenN_app1; lia|lia]. }
  rewrite Etd. rewrite !dget_merge_other by assumption. repeat split; reflexivity.
Qed.
