(** Storage/Tables.v — the literals regenerated from file.rs / xref.rs on every run (Gen/Generated.v,
    gen/extract_storage.py) are the ones the storage model is written with.  Each lemma is closed by
    computation on the generated term: an edit of the Rust literal makes the named lemma fail. *)
From PdfV Require Import Base.Prelude Gen.Generated Storage.Prim Storage.Model.

(** file.rs: save — trailer.size = refs.len() + 2 *)
Lemma sto_size_plus_model : sto_size_plus = 2.
Proof. reflexivity. Qed.

(** file.rs: write_revision — "{} {} obj\n" *)
Lemma sto_obj_header_model : forall id g, obj_header id g = dec_of_N id ++ firstn 1 sto_obj_header_fmt ++ dec_of_N g ++ skipn 1 sto_obj_header_fmt.
Proof. intros. reflexivity. Qed.

(** file.rs: write_revision — "\nendobj\n" after the value, "endobj\n" after the xref stream *)
Lemma sto_obj_end_model : forall id g body, obj_bytes id g body = obj_header id g ++ body ++ sto_obj_end.
Proof. intros. reflexivity. Qed.
Lemma sto_xobj_model : sto_xobj_header_fmt = sto_obj_header_fmt /\ sto_xobj_end = kw_endobj_nl.
Proof. split; reflexivity. Qed.

(** file.rs: write_revision — offsets and startxref are relative to the header *)
Lemma sto_relative_model : sto_pos_relative = 1 /\ sto_xpos_relative = 1.
Proof. split; reflexivity. Qed.

(** file.rs: write_revision — "\nstartxref\n{}\n%%EOF\n" *)
Lemma sto_tail_model : forall x, startxref_tail x = sto_tail_pre ++ dec_of_N x ++ sto_tail_post.
Proof. intros. reflexivity. Qed.

(** file.rs: write_revision — write_stream(id + 1); save rolls a failed revision back *)
Lemma sto_write_stream_plus_model : sto_write_stream_plus = 1 /\ sto_save_rolls_back = 1.
Proof. split; reflexivity. Qed.

(** file.rs: update — Free: panic, Raw: (id, gen_nr), Stream: (id, 0), Promised: (id, 0), Invalid: panic;
    one cache.clear(); no dictionary merge; create clears the cache as well *)
Lemma sto_update_model :
  sto_update_arms = [0; 1; 2; 2; 0] /\ sto_update_cache_clears = 1 /\ sto_update_merges = 0 /\ sto_create_cache_clears = 1.
Proof. repeat split; reflexivity. Qed.

(** xref.rs: XRefTable::new pushes Free { next_obj_nr: 0, gen_nr: 0xffff } *)
Lemma sto_table_new_model : forall n, table_new n = repeatN XInvalid (N.to_nat n) ++ [XFree sto_new_free_next sto_new_free_gen].
Proof. intros. reflexivity. Qed.

(** xref.rs: write_stream — type codes, /W [1 a b], /Index [0 size], to_be_bytes()[8 - w ..] *)
Lemma sto_write_stream_model :
  map (fun e => match xfields e with Some (t, _, _) => t | None => 99 end) [XFree 5 6; XRaw 5 6; XStream 5 6] = sto_xref_type_codes /\
  (forall size aw bw len, dget (xref_info_dict size aw bw len) k_W = Some (PArr [pN sto_xref_w0; pN aw; pN bw])) /\
  (forall size aw bw len, dget (xref_info_dict size aw bw len) k_Index = Some (PArr [pN sto_xref_index0; pN size])) /\
  sto_xref_be_base = [8; 8].
Proof. repeat split; reflexivity. Qed.

(** xref.rs: byte_len = (64 + 8 - 1 - lz) / 8 + (n == 0) *)
Lemma sto_byte_len_model : forall n,
  byte_len n = (nth 0 sto_byte_len_consts 0 + nth 1 sto_byte_len_consts 0 - nth 2 sto_byte_len_consts 0 - lz64 n) / nth 3 sto_byte_len_consts 1
               + (if n =? nth 4 sto_byte_len_consts 1 then 1 else 0).
Proof. intros. reflexivity. Qed.

(** file.rs: resolve_ref consults `changes` first and reads at start_offset + pos *)
Lemma sto_resolve_model : sto_resolve_changes_first = 1.
Proof. reflexivity. Qed.
