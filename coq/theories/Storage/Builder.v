(** Storage/Builder.v — pdf/src/build.rs: CatalogBuilder::build and PdfBuilder::build as a program over the storage
    model (Model.v), for arbitrary page lists.  A page carries what PageBuilder carries on the checked domain: the extra
    entries ([other]), the three optional boxes, the rotation and its operations as the already serialised content
    stream (content.rs: serialize_ops is property C08's); resources are the default (empty) Resources; metadata, lgi, vp
    absent.  The dictionaries are what the derived ObjectWrite impls build (pdf_derive: `let mut dict = self.other.clone();
    dict.insert("Type", ..); dict.insert(key, val) for every non-null field in declaration order`).  A box coordinate is the
    number as the serialiser prints it: [PInt] for an integral f32 below 2^31, [PReal text] otherwise.
    No proofs in this file. *)
From PdfV Require Import Base.Prelude Storage.Prim Storage.Model.
From PdfV Require Syn.Serialize.

Record page := mkPage {
  pg_other : dict;
  pg_mb : option (list prim);
  pg_cb : option (list prim);
  pg_tb : option (list prim);
  pg_rot : Z;
  pg_content : bytes }.

Definition kT := [84; 121; 112; 101].
Definition n_Page := [80; 97; 103; 101].
Definition n_Pages := [80; 97; 103; 101; 115].
Definition n_Catalog := [67; 97; 116; 97; 108; 111; 103].
Definition k_Parent := [80; 97; 114; 101; 110; 116].
Definition k_Resources := [82; 101; 115; 111; 117; 114; 99; 101; 115].
Definition k_MediaBox := [77; 101; 100; 105; 97; 66; 111; 120].
Definition k_CropBox := [67; 114; 111; 112; 66; 111; 120].
Definition k_TrimBox := [84; 114; 105; 109; 66; 111; 120].
Definition k_Contents := [67; 111; 110; 116; 101; 110; 116; 115].
Definition k_Rotate := [82; 111; 116; 97; 116; 101].
Definition k_Kids := [75; 105; 100; 115].
Definition k_Count := [67; 111; 117; 110; 116].
Definition k_Version := [86; 101; 114; 115; 105; 111; 110].
Definition k_Pages := [80; 97; 103; 101; 115].
Definition n_17 := [49; 46; 55].

Definition pref (r : N * N) : prim := PRef (fst r) (snd r).
Definition opt_entry (k : bytes) (o : option (list prim)) : dict :=
  match o with Some l => [(k, PArr l)] | None => [] end.

(** types.rs: Page (derive ObjectWrite, Type = "Page"), the entries inserted after `other` *)
Definition page_fields (tree rsrc cont : N * N) (p : page) : dict :=
  [(kT, PName n_Page); (k_Parent, pref tree); (k_Resources, pref rsrc)] ++
  opt_entry k_MediaBox (pg_mb p) ++ opt_entry k_CropBox (pg_cb p) ++ opt_entry k_TrimBox (pg_tb p) ++
  [(k_Contents, pref cont); (k_Rotate, PInt (pg_rot p))].
Definition page_dict (tree rsrc cont : N * N) (p : page) : dict :=
  merge_dict (pg_other p) (page_fields tree rsrc cont p).

(** content.rs: Content::to_primitive — Stream::new((), data).to_pdf_stream: /Length only *)
Definition content_stream (data : bytes) : prim := PStreamData [(k_Length, PInt (Z.of_N (lenN data)))] data.

(** types.rs: PageTree (Type = "Pages"); parent, resources, boxes absent *)
Definition tree_dict (kids : list (N * N)) : dict :=
  [(kT, PName n_Pages); (k_Kids, PArr (map pref kids)); (k_Count, PInt (Z.of_nat (length kids)))].

(** types.rs: Catalog (Type = "Catalog"), version "1.7" *)
Definition catalog_dict (tree : N * N) : dict :=
  [(kT, PName n_Catalog); (k_Version, PName n_17); (k_Pages, pref tree)].

(** build.rs: CatalogBuilder::build, `self.pages.iter().map(|_| update.promise())` *)
Fixpoint promise_all (s : st) (n : nat) : st * list (N * N) :=
  match n with
  | O => (s, [])
  | S k => let '(s1, r) := promise s in let '(s2, rs) := promise_all s1 k in (s2, r :: rs)
  end.

(** build.rs: CatalogBuilder::build, the loop over pages.zip(kids_promise): update.create(page.resources),
    then fulfill(promise, Leaf(page)) whose to_primitive creates the content stream *)
Fixpoint fulfil_pages (s : st) (tree : N * N) (ps : list page) (proms : list (N * N)) : res st :=
  match ps, proms with
  | p :: ps', r :: rs' =>
      let '(s1, rsrc) := create s (PDict []) in
      let '(s2, cont) := create s1 (content_stream (pg_content p)) in
      do x <- fulfill s2 r (PDict (page_dict tree rsrc cont p));
      fulfil_pages (fst x) tree ps' rs'
  | _, _ => Ok s
  end.

(** file.rs: Storage::empty (FileOptions::storage) *)
Definition empty_storage : st := mkSt [XFree 0 65535] [] [37; 80; 68; 70; 45; 49; 46; 55; 10] 0 [] false.

(** the state after CatalogBuilder::build + create(catalog), and the catalog reference *)
Definition build_catalog (ps : list page) : res (st * (N * N)) :=
  let '(s1, proms) := promise_all empty_storage (length ps) in
  let '(s2, tree) := create s1 (PDict (tree_dict proms)) in
  do s3 <- fulfil_pages s2 tree ps proms;
  Ok (create s3 (PDict (catalog_dict tree))).

Definition build_trailer (cat : N * N) (info : option dict) : trailer :=
  mkTrailer 0 None cat info [[102; 111; 111]; [98; 97; 114]].

(** build.rs: PdfBuilder::build *)
Definition build (ps : list page) (info : option dict) : res (st * trailer * option N) :=
  do x <- build_catalog ps;
  save Serialize.ser (fst x) (build_trailer (snd x) info).
