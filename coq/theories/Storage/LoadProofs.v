(** Storage/LoadProofs.v — the reload glue (backend.rs: read_xref_table_and_trailer, parse_xref.rs:
    parse_xref_stream_and_trailer, xref.rs: XRefTable::new / add_entries_from) on the bytes of a successful save:
    the cross-reference stream is read back by the parser model, its dictionary look-ups succeed, its data decodes
    to the saved table ([write_stream_roundtrip]) and merging that one section into XRefTable::new(/Size) yields
    the saved table — "reloaded table = saved table" as a theorem. *)
From PdfV Require Import Base.Prelude Base.DecProofs Gen.Generated.
From PdfV Require Import Storage.Prim Storage.Model Storage.Proofs Storage.Syntax Storage.Builder Storage.Reload Storage.BuilderProofs.
From PdfV Require Import Lex.Lexer Lex.LexProofs Syn.Prim Syn.Utf8 Syn.Parser Syn.Serialize Syn.Spells Syn.ParserProofs Syn.RenderProofs Syn.SerProofs.

(* ---------------------------------------------------------------- merging one full section into XRefTable::new *)
Lemma add_entries_fill es : forall tbl i,
  (forall j, i <= j -> j < i + lenN es -> nthN tbl j = Some XInvalid) ->
  i + lenN es <= lenN tbl ->
  exists tbl', add_entries tbl i es = Ok tbl' /\ lenN tbl' = lenN tbl /\
    (forall j, j < i -> nthN tbl' j = nthN tbl j) /\
    (forall j, j < lenN es -> nthN tbl' (i + j) = nthN es j) /\
    (forall j, i + lenN es <= j -> nthN tbl' j = nthN tbl j).
Proof.
  induction es as [|e t IH]; intros tbl i Hinv Hlen.
  - exists tbl. cbn [add_entries]. repeat split; try reflexivity. intros j Hj. change (lenN (@nil xent)) with 0 in Hj. lia.
  - rewrite lenN_cons in *. cbn [add_entries]. rewrite (Hinv i) by lia. cbn [bind].
    destruct (IH (xset tbl i e) (i + 1)) as (tbl' & E & L & F1 & F2 & F3).
    + intros j H1 H2. rewrite xset_other by lia. apply Hinv; lia.
    + unfold lenN in *. rewrite xset_length. lia.
    + exists tbl'. split; [exact E|]. split; [rewrite L; unfold lenN; rewrite xset_length; reflexivity|].
      split; [intros j Hj; rewrite F1 by lia; apply xset_other; lia|]. split.
      * intros j Hj. destruct (N.eq_dec j 0) as [->|Hne].
        -- rewrite N.add_0_r, F1 by lia. rewrite xset_same by lia. reflexivity.
        -- replace (i + j) with (i + 1 + (j - 1)) by lia. rewrite F2 by lia.
           unfold nthN. replace (N.to_nat j) with (S (N.to_nat (j - 1))) by lia. reflexivity.
      * intros j Hj. rewrite F3 by lia. apply xset_other. lia.
Qed.

Lemma nthN_table_new n j : j < n -> nthN (table_new n) j = Some XInvalid.
Proof.
  intros H. unfold table_new, nthN. rewrite nth_error_app1.
  - assert (G : forall k m, (m < k)%nat -> nth_error (repeatN XInvalid k) m = Some XInvalid).
    { induction k as [|k IHk]; intros m Hm; [lia|]. destruct m; [reflexivity|]. cbn. apply IHk. lia. }
    apply G. lia.
  - assert (G : forall k, length (repeatN XInvalid k) = k) by (induction k; cbn; congruence). rewrite G. lia.
Qed.

Lemma lenN_table_new n : lenN (table_new n) = n + 1.
Proof.
  unfold table_new, lenN. rewrite app_length. cbn [length].
  assert (G : forall k, length (repeatN XInvalid k) = k) by (induction k; cbn; congruence). rewrite G. lia.
Qed.

(** XRefTable::new(size) + add_entries_from of one section that starts at 0: the section's entries, in place *)
Lemma add_sections_full es size : lenN es <= size ->
  exists tbl, add_sections (table_new size) [(0, es)] = Ok tbl /\ forall j, j < lenN es -> nthN tbl j = nthN es j.
Proof.
  intros H. destruct (add_entries_fill es (table_new size) 0) as (tbl & E & _ & _ & F2 & _).
  - intros j _ Hj. apply nthN_table_new. lia.
  - rewrite lenN_table_new. lia.
  - exists tbl. cbn [add_sections]. rewrite E. cbn [bind]. split; [reflexivity|]. intros j Hj. rewrite <- (F2 j Hj). f_equal.
Qed.

(* ---------------------------------------------------------------- reading the cross-reference stream back *)
Definition xref_entries (size : Z) (n aw bw len : N) : dict :=
  [(k_Type, PName k_XRef); (k_Size, PInt size); (k_Index, PArr [pN 0; pN n]); (k_W, PArr [pN 1; pN aw; pN bw]); (k_Length, pN len)].

Lemma as_N_pN n : as_N (pN n) = Some n.
Proof. unfold as_N, pN. assert (H : (0 <=? Z.of_N n)%Z = true) by (apply Z.leb_le; lia). rewrite H, N2Z.id. reflexivity. Qed.

Lemma merge_xref n aw bw len size rest :
  NoDup (keys rest) -> (forall k, In k (keys rest) -> ~ In k (keys (xref_entries size n aw bw len))) ->
  merge_dict (xref_info_dict n aw bw len) ((k_Size, PInt size) :: rest) = xref_entries size n aw bw len ++ rest.
Proof.
  intros Hnd Hdis. unfold merge_dict. cbn [fold_left fst snd].
  change (dinsert (xref_info_dict n aw bw len) k_Size (PInt size)) with (xref_entries size n aw bw len).
  apply merge_dict_fresh; assumption.
Qed.

Lemma pN_storable n : n < 2147483648 -> storable (pN n).
Proof. intros H. apply st_int. lia. Qed.

Lemma xref_entries_storable size n aw bw len :
  (0 <= size <= 2147483647)%Z -> n < 2147483648 -> aw <= 8 -> bw <= 8 -> len < 2147483648 ->
  storable (PDict (xref_entries size n aw bw len)) /\ vdepth (PDict (xref_entries size n aw bw len)) <= 2.
Proof.
  intros Hs Hn Ha Hb Hl. split.
  - apply st_dict; [repeat (constructor; [cbn [In]; intuition discriminate|]); constructor|].
    constructor; [apply entry_ok; [reflexivity|reflexivity|apply st_name'; reflexivity]|].
    constructor; [apply entry_ok; [reflexivity|reflexivity|apply st_int; lia]|].
    constructor; [apply entry_ok; [reflexivity|reflexivity|apply st_arr; constructor; [apply pN_storable; lia|constructor; [apply pN_storable; lia|constructor]]]|].
    constructor; [apply entry_ok; [reflexivity|reflexivity|apply st_arr; constructor; [apply pN_storable; lia|constructor; [apply pN_storable; lia|constructor; [apply pN_storable; lia|constructor]]]]|].
    constructor; [apply entry_ok; [reflexivity|reflexivity|apply pN_storable; lia]|constructor].
  - rewrite vdepth_dict. cbn. lia.
Qed.

Lemma read_xref_stream_saved pre X size es aw bw data rest xs post :
  let xd := xref_entries size (lenN es) aw bw (lenN data) ++ rest in
  storable (PDict xd) -> vdepth (PDict xd) <= MAX_DEPTH -> (0 <= size)%Z -> dget rest k_Filter = None -> X < U64 ->
  ser (PStreamData xd data) = Ok xs ->
  read_section 0 (lenN es) 1 aw bw data = Ok ((0, es), []) ->
  boundary post ->
  read_xref_stream parse_obj (pre ++ obj_header X 0 ++ xs ++ kw_endobj ++ post) (lenN pre) = Ok ([(0, es)], xd).
Proof.
  intros xd Hst Hd Hsz Hflt HX Hxs Hrs Hb.
  destruct (parse_obj_framed_stream pre X 0 xd data [] post Hst Hd eq_refl HX ltac:(reflexivity) ltac:(constructor) Hb xs Hxs)
    as (st & Hp & Hr).
  cbn [app] in Hp, Hr. unfold read_xref_stream. rewrite Hp. cbn [bind snd stream_dict].
  change (dget xd k_Filter) with (dget rest k_Filter). rewrite Hflt.
  change (dget xd k_Type) with (Some (PName k_XRef)). cbv iota.
  change (beq_bytes k_XRef k_XRef) with true. cbn [negb]. cbv iota.
  change (dget xd k_Size) with (Some (PInt size)). change (dget xd k_W) with (Some (PArr [pN 1; pN aw; pN bw])). cbv iota.
  assert (Es : as_N (PInt size) = Some (Z.to_N size)).
  { unfold as_N. assert (H : (0 <=? size)%Z = true) by (apply Z.leb_le; lia). rewrite H. reflexivity. }
  rewrite Es. cbn [all_N]. rewrite !as_N_pN. cbv iota.
  change (dget xd k_Index) with (Some (PArr [pN 0; pN (lenN es)])). cbv iota. cbn [all_N]. rewrite !as_N_pN.
  cbn [raw_data]. rewrite Hr.
  change (N.even (lenN [0; lenN es])) with true. cbn [negb]. cbv iota.
  cbn [length read_sections]. rewrite Hrs. cbn [bind fst snd]. reflexivity.
Qed.

Lemma ids_storable ids : Forall wf_bytes ids -> storable (PArr (map PStr ids)) /\ vdepth (PArr (map PStr ids)) = 1.
Proof.
  intros H. split.
  - apply st_arr. induction H as [|x t Hx _ IH]; cbn [map]; constructor; [apply st_str; exact Hx|exact IH].
  - rewrite vdepth_arr. assert (E : ldepth (map PStr ids) = 0).
    { clear. induction ids as [|x t IH]; [reflexivity|]. cbn [map ldepth fold_right]. fold (ldepth (map PStr t)). rewrite IH. reflexivity. }
    rewrite E. reflexivity.
Qed.

(** the cross-reference stream a successful save wrote, read back by parse_xref_stream_and_trailer at the offset
    `startxref` announces: the one section [0, refs s') with exactly the saved table, and the trailer entries *)
Theorem save_xref_read_back s tr s' tr' :
  wf_st s -> save ser s tr = Ok (s', tr', None) -> t_prev tr = None ->
  lenN (refs s) < 100000000 -> table_in_range (refs s') ->
  Forall wf_bytes (t_id tr) -> fst (t_root tr) < U64 -> snd (t_root tr) < U64 ->
  exists xpos xd pre,
    backend s' = pre ++ startxref_tail xpos /\
    read_xref_stream parse_obj (backend s') (start s + xpos) = Ok ([(0, refs s')], xd) /\
    dget xd k_Size = Some (PInt (Z.of_N (lenN (refs s) + 2))) /\ dget xd k_Prev = None /\
    lenN (refs s') <= lenN (refs s) + 2 /\ start s + xpos < lenN (backend s') /\
    exists pre0 X rest0, backend s' = pre0 ++ obj_header X 0 ++ rest0 /\ lenN pre0 = start s + xpos.
Proof.
  intros Hwf Hsave Hprev Hsmall Hrange Hids Hr1 Hr2.
  destruct (save_xref_obj s tr s' tr' Hwf Hsave) as (xpos & aw & bw & data & xs & pre & iref & Hws & Hxe & Hxs & Hbk & Hpre & Hiref).
  destruct (write_stream_roundtrip (refs s') aw bw data Hrange Hws) as (Hrs & Haw & Hbw & Hdl).
  pose proof (save_layout ser s tr s' tr' Hwf Hsave) as SL. cbv zeta in SL. destruct SL as (_ & _ & Hlen & _).
  assert (Hn : lenN (refs s') <= lenN (refs s) + 2).
  { rewrite Hlen. unfold save_pre. destruct (t_info tr); [unfold create; cbn [fst refs]; rewrite lenN_app1; lia|lia]. }
  set (size := Z.of_N (lenN (refs s) + 2)) in *. set (n := lenN (refs s')) in *.
  set (rest := [(k_Root, PRef (fst (t_root tr)) (snd (t_root tr)))] ++
               match iref with Some r => [(k_Info, PRef (fst r) (snd r))] | None => [] end ++
               [(k_ID, PArr (map PStr (t_id tr)))]).
  assert (Etd : trailer_dict tr size iref = (k_Size, PInt size) :: rest).
  { unfold trailer_dict. rewrite Hprev. reflexivity. }
  destruct (ids_storable _ Hids) as [Sid Did].
  assert (Hiu : match iref with Some r => fst r < U64 /\ snd r < U64 | None => True end).
  { rewrite Hiref. destruct (t_info tr); [|exact I]. cbn [fst snd]. unfold U64. split; [lia|reflexivity]. }
  assert (Srest : storable (PDict rest) /\ vdepth (PDict rest) <= 2 /\ NoDup (keys rest) /\
                  (forall k, In k (keys rest) -> ~ In k (keys (xref_entries size n aw bw (lenN data)))) /\ dget rest k_Filter = None /\ dget rest k_Prev = None).
  { unfold rest. destruct iref as [r|]; cbn [app].
    - destruct Hiu as [I1 I2]. unfold U64 in I1, I2, Hr1, Hr2. split; [|split; [|split; [|split; [|split; reflexivity]]]].
      + apply st_dict; [repeat (constructor; [cbn [In]; intuition discriminate|]); constructor|].
        constructor; [apply entry_ok; [reflexivity|reflexivity|exact (st_ref _ _ Hr1 Hr2)]|].
        constructor; [apply entry_ok; [reflexivity|reflexivity|exact (st_ref _ _ I1 I2)]|].
        constructor; [apply entry_ok; [reflexivity|reflexivity|exact Sid]|constructor].
      + rewrite vdepth_dict. cbn [ddepth fold_right snd]. rewrite Did. cbn. lia.
      + repeat (constructor; [cbn [In]; intuition discriminate|]); constructor.
      + intros k Hin Hin2. unfold xref_entries in Hin2. cbn [keys map fst In] in Hin, Hin2.
        repeat (destruct Hin as [Hin|Hin]; [subst k; repeat (destruct Hin2 as [Hin2|Hin2]; [discriminate|]); destruct Hin2|]); destruct Hin.
    - unfold U64 in Hr1, Hr2. split; [|split; [|split; [|split; [|split; reflexivity]]]].
      + apply st_dict; [repeat (constructor; [cbn [In]; intuition discriminate|]); constructor|].
        constructor; [apply entry_ok; [reflexivity|reflexivity|exact (st_ref _ _ Hr1 Hr2)]|].
        constructor; [apply entry_ok; [reflexivity|reflexivity|exact Sid]|constructor].
      + rewrite vdepth_dict. cbn [ddepth fold_right snd]. rewrite Did. cbn. lia.
      + repeat (constructor; [cbn [In]; intuition discriminate|]); constructor.
      + intros k Hin Hin2. unfold xref_entries in Hin2. cbn [keys map fst In] in Hin, Hin2.
        repeat (destruct Hin as [Hin|Hin]; [subst k; repeat (destruct Hin2 as [Hin2|Hin2]; [discriminate|]); destruct Hin2|]); destruct Hin. }
  destruct Srest as (Sr & Dr & Nr & Disj & Flt & Prv).
  rewrite Etd, (merge_xref n aw bw (lenN data) size rest Nr Disj) in Hxs.
  assert (Hdata : lenN data < 2147483648).
  { rewrite Hdl. fold n. assert (n * (1 + aw + bw) <= n * 17) by (apply N.mul_le_mono_l; lia). lia. }
  destruct (xref_entries_storable size n aw bw (lenN data)) as [Sx Dx]; try assumption; [unfold size; lia|lia|].
  assert (Sxd : storable (PDict (xref_entries size n aw bw (lenN data) ++ rest))) by (apply storable_dict_app; assumption).
  assert (Dxd : vdepth (PDict (xref_entries size n aw bw (lenN data) ++ rest)) <= MAX_DEPTH).
  { rewrite vdepth_dict_app. pose proof max_depth_2. lia. }
  exists xpos, (xref_entries size n aw bw (lenN data) ++ rest), (pre ++ obj_header (n - 1) 0 ++ xs ++ kw_endobj_nl).
  split; [rewrite Hbk; rewrite <- !app_assoc; reflexivity|].
  split.
  { rewrite <- Hpre, Hbk.
    replace (pre ++ obj_header (n - 1) 0 ++ xs ++ kw_endobj_nl ++ startxref_tail xpos)
      with (pre ++ obj_header (n - 1) 0 ++ xs ++ kw_endobj ++ 10 :: startxref_tail xpos) by reflexivity.
    apply (read_xref_stream_saved pre (n - 1) size (refs s') aw bw data rest xs (10 :: startxref_tail xpos));
      try assumption; [unfold size; lia|unfold U64; lia|reflexivity]. }
  split; [reflexivity|]. split; [exact Prv|]. split; [exact Hn|].
  split; [rewrite Hbk, <- Hpre; rewrite !lenN_app; unfold obj_header; rewrite !lenN_app; cbn; lia|].
  exists pre, (n - 1), (xs ++ kw_endobj_nl ++ startxref_tail xpos). split; [exact Hbk|exact Hpre].
Qed.

(* ---------------------------------------------------------------- read_xref_and_trailer_at on an object header *)
Lemma sdigit_regular c : Storage.Prim.is_digit c = true -> Storage.Prim.is_regular c = true /\ Storage.Prim.is_ws c = false /\ (c =? 37) = false.
Proof.
  intros H. unfold Storage.Prim.is_digit in H. apply andb_true_iff in H. destruct H as [H1 H2]. apply N.leb_le in H1, H2.
  assert (T : forallb (fun c => Storage.Prim.is_regular c && negb (Storage.Prim.is_ws c) && negb (c =? 37)) (seqN 48 10) = true) by (vm_compute; reflexivity).
  rewrite forallb_forall in T. specialize (T c ltac:(apply seqN_In; cbn; lia)).
  apply andb_true_iff in T. destruct T as [T T3]. apply andb_true_iff in T. destruct T as [T1 T2].
  apply negb_true_iff in T2, T3. repeat split; assumption.
Qed.

Lemma span_regular_digits w : forall acc r, forallb Storage.Prim.is_digit w = true ->
  span_regular (w ++ 32 :: r) acc = (rev acc ++ w, 32 :: r).
Proof.
  induction w as [|c w IH]; intros acc r H; cbn [app span_regular].
  - change (Storage.Prim.is_regular 32) with false. cbv iota. rewrite app_nil_r. reflexivity.
  - cbn [forallb] in H. apply andb_true_iff in H. destruct H as [Hc Hw]. destruct (sdigit_regular c Hc) as (R & _ & _).
    rewrite R. rewrite IH by exact Hw. cbn [rev]. rewrite <- app_assoc. reflexivity.
Qed.

Lemma isdig_sdigit l : forallb isdig l = true -> forallb Storage.Prim.is_digit l = true.
Proof. intros H. exact H. Qed.

Lemma next_word_header pos X r : exists c, Storage.Prim.next_word (pos, obj_header X 0 ++ r) = (dec_of_N X, c).
Proof.
  destruct (dec_of_N_spec X) as (Hd & Hne & _). apply isdig_sdigit in Hd.
  unfold Storage.Prim.next_word, obj_header. cbn [fst snd]. rewrite <- !app_assoc. cbn [app].
  destruct (dec_of_N X) as [|c w] eqn:E; [contradiction|].
  cbn [forallb] in Hd. apply andb_true_iff in Hd. destruct Hd as [Hc Hw]. destruct (sdigit_regular c Hc) as (R & W & P).
  cbn [app Storage.Prim.skip_ws]. rewrite W, P.
  change (c :: w ++ 32 :: ?t) with ((c :: w) ++ 32 :: t).
  match goal with |- context [span_regular ((c :: w) ++ 32 :: ?t) []] => rewrite (span_regular_digits (c :: w) [] t) end.
  - cbn [rev app]. eexists. reflexivity.
  - cbn [forallb]. rewrite Hc, Hw. reflexivity.
Qed.

Lemma dec_not_xref X : beq_bytes (dec_of_N X) kw_xref = false.
Proof.
  destruct (dec_of_N_spec X) as (Hd & Hne & _). destruct (dec_of_N X) as [|c w]; [contradiction|].
  cbn [forallb] in Hd. apply andb_true_iff in Hd. destruct Hd as [Hc _].
  unfold kw_xref. cbn [beq_bytes]. destruct (N.eqb_spec c 120) as [->|_]; [discriminate|reflexivity].
Qed.

(** backend.rs: read_xref_table_and_trailer on the bytes of a successful save, given the two positions the reader
    looks for first (the header and the number after the last `startxref`) *)
Theorem load_saved_table read_classic s tr s' tr' c :
  wf_st s -> save ser s tr = Ok (s', tr', None) -> t_prev tr = None ->
  lenN (refs s) < 999998 -> table_in_range (refs s') ->
  Forall wf_bytes (t_id tr) -> fst (t_root tr) < U64 -> snd (t_root tr) < U64 ->
  locate_start_offset (backend s') = Ok (start s) ->
  (forall pre xpos, backend s' = pre ++ startxref_tail xpos -> locate_xref_offset (backend s') = Ok xpos) ->
  exists s3 td, load parse_obj read_classic (backend s') c = Ok (s3, td) /\
    changes s3 = [] /\ backend s3 = backend s' /\ start s3 = start s /\
    (forall i, i < lenN (refs s') -> nthN (refs s3) i = nthN (refs s') i) /\
    dget td k_Size = Some (PInt (Z.of_N (lenN (refs s) + 2))).
Proof.
  intros Hwf Hsave Hprev Hsmall Hrange Hids Hr1 Hr2 Hstart Hloc.
  destruct (save_xref_read_back s tr s' tr' Hwf Hsave Hprev ltac:(lia) Hrange Hids Hr1 Hr2)
    as (xpos & xd & pre & Hbk & Hread & Hsize & Hprv & Hn & Hpos & pre0 & X & rest0 & Hbk0 & Hpre0).
  specialize (Hloc pre xpos Hbk).
  destruct (add_sections_full (refs s') (lenN (refs s) + 2) Hn) as (tbl & Hadd & Htbl).
  exists (mkSt tbl [] (backend s') (start s) [] c), xd.
  split; [|repeat split; try reflexivity; [exact Htbl|exact Hsize]].
  unfold load. rewrite Hstart. cbn [bind]. unfold read_xref_table_and_trailer. rewrite Hloc. cbn [bind].
  assert (Hle : (lenN (backend s') <=? start s + xpos) = false) by (apply N.leb_gt; exact Hpos). rewrite Hle.
  assert (Hat : read_xref_at parse_obj read_classic (backend s') (start s + xpos) = Ok ([(0, refs s')], xd)).
  { assert (Hd : drop (start s + xpos) (backend s') = obj_header X 0 ++ rest0).
    { rewrite <- Hpre0. rewrite Hbk0. apply drop_app_exact. }
    unfold read_xref_at. rewrite Hd.
    destruct (next_word_header (start s + xpos) X rest0) as [c0 Hnw]. rewrite Hnw. rewrite dec_not_xref. exact Hread. }
  rewrite Hat. cbn [bind fst snd]. rewrite Hsize.
  assert (Es : as_N (PInt (Z.of_N (lenN (refs s) + 2))) = Some (lenN (refs s) + 2)) by apply as_N_pN.
  rewrite Es. assert (Hmax : (MAX_ID <? lenN (refs s) + 2) = false) by (apply N.ltb_ge; unfold MAX_ID; lia). rewrite Hmax.
  rewrite Hadd. cbn [bind]. rewrite Hprv. cbn [bind prev_loop]. reflexivity.
Qed.

(* ---------------------------------------------------------------- locating startxref and the header *)
Lemma find_last_nomatch t : forall j acc, Forall (fun c => c <> 115) t -> find_last kw_startxref t j acc = acc.
Proof.
  induction t as [|c t IH]; intros j acc H; [reflexivity|]. inversion H as [|? ? Hc Ht]; subst.
  cbn [find_last]. assert (E : prefixb kw_startxref (c :: t) = false).
  { unfold kw_startxref. cbn [prefixb]. destruct (115 =? c) eqn:E1; [apply N.eqb_eq in E1; subst c; contradiction|reflexivity]. }
  rewrite E. apply IH. exact Ht.
Qed.

Lemma find_last_tail pre1 tail : Forall (fun c => c <> 115) tail ->
  forall i acc, find_last kw_startxref (pre1 ++ kw_startxref ++ tail) i acc = Some (i + lenN pre1).
Proof.
  intros Ht. induction pre1 as [|x p IH]; intros i acc.
  - cbn [app]. set (rest := [116; 97; 114; 116; 120; 114; 101; 102] ++ tail).
    change (kw_startxref ++ tail) with (115 :: rest). cbn [find_last].
    assert (E : prefixb kw_startxref (115 :: rest) = true) by reflexivity.
    rewrite E. rewrite find_last_nomatch; [f_equal; change (lenN (@nil N)) with 0; lia|].
    unfold rest. apply Forall_app. split; [repeat (constructor; [discriminate|]); constructor|exact Ht].
  - cbn [app find_last]. rewrite IH. f_equal. rewrite lenN_cons. lia.
Qed.

Lemma span_regular_digits_t w t : Storage.Prim.is_regular t = false -> forall acc r, forallb Storage.Prim.is_digit w = true ->
  span_regular (w ++ t :: r) acc = (rev acc ++ w, t :: r).
Proof.
  intros Ht. induction w as [|c w IH]; intros acc r H; cbn [app span_regular].
  - rewrite Ht. rewrite app_nil_r. reflexivity.
  - cbn [forallb] in H. apply andb_true_iff in H. destruct H as [Hc Hw]. destruct (sdigit_regular c Hc) as (R & _ & _).
    rewrite R. rewrite IH by exact Hw. cbn [rev]. rewrite <- app_assoc. reflexivity.
Qed.

Lemma dec_no_s n : Forall (fun c => c <> 115) (dec_of_N n).
Proof.
  destruct (dec_of_N_spec n) as (Hd & _ & _). apply Forall_forall. intros c Hin. rewrite forallb_forall in Hd.
  specialize (Hd c Hin). unfold isdig in Hd. intros ->. vm_compute in Hd. discriminate.
Qed.

(** backend.rs: locate_xref_offset on a file that ends with the trailer save writes *)
Theorem locate_xref_offset_tail pre xpos : locate_xref_offset (pre ++ startxref_tail xpos) = Ok xpos.
Proof.
  unfold locate_xref_offset, startxref_tail.
  set (tail := [10] ++ dec_of_N xpos ++ [10; 37; 37; 69; 79; 70; 10]).
  replace (pre ++ [10] ++ kw_startxref ++ tail) with ((pre ++ [10]) ++ kw_startxref ++ tail) by (rewrite <- app_assoc; reflexivity).
  rewrite find_last_tail.
  2:{ unfold tail. constructor; [discriminate|]. apply Forall_app. split; [apply dec_no_s|repeat (constructor; [discriminate|]); constructor]. }
  rewrite N.add_0_l.
  replace (drop (lenN (pre ++ [10]) + 9) ((pre ++ [10]) ++ kw_startxref ++ tail)) with tail.
  2:{ rewrite app_assoc. change 9 with (lenN kw_startxref). rewrite <- lenN_app. symmetry. apply drop_app_exact. }
  destruct (dec_of_N_spec xpos) as (Hd & Hne & Hv). pose proof (isdig_sdigit _ Hd) as Hd'.
  unfold Storage.Prim.next_word, tail. cbn [fst snd app Storage.Prim.skip_ws].
  change (Storage.Prim.is_ws 10) with true. cbv iota.
  destruct (dec_of_N xpos) as [|c w] eqn:E; [contradiction|].
  cbn [forallb] in Hd'. apply andb_true_iff in Hd'. destruct Hd' as [Hc Hw]. destruct (sdigit_regular c Hc) as (R & W & P).
  cbn [app Storage.Prim.skip_ws]. rewrite W, P.
  change (c :: w ++ 10 :: ?t) with ((c :: w) ++ 10 :: t).
  rewrite (span_regular_digits_t (c :: w) 10 eq_refl [] _) by (cbn [forallb]; rewrite Hc, Hw; reflexivity).
  cbn [rev app]. unfold Storage.Prim.all_digits. cbn [forallb]. rewrite Hc, Hw. cbn [andb]. rewrite Hv. reflexivity.
Qed.

Lemma prefixb_firstn p : forall b n, prefixb p b = true -> (length p <= n)%nat -> prefixb p (firstn n b) = true.
Proof.
  induction p as [|x p IH]; intros b n H Hn; [reflexivity|]. destruct b as [|y b]; [discriminate|].
  cbn [prefixb] in H. apply andb_true_iff in H. destruct H as [H1 H2]. cbn [length] in Hn.
  destruct n as [|n]; [lia|]. cbn [firstn prefixb]. rewrite H1. cbn [andb]. apply IH; [exact H2|lia].
Qed.

Lemma prefixb_length p : forall b, prefixb p b = true -> (length p <= length b)%nat.
Proof.
  induction p as [|x p IH]; intros b H; [cbn; lia|]. destruct b as [|y b]; [discriminate|].
  cbn [prefixb] in H. apply andb_true_iff in H. destruct H as [_ H2]. cbn [length]. specialize (IH b H2). lia.
Qed.

(** backend.rs: locate_start_offset on a file that begins with the header *)
Lemma locate_start_header_first b : prefixb HEADER b = true -> locate_start_offset b = Ok 0.
Proof.
  intros H. unfold locate_start_offset. pose proof (prefixb_length _ _ H) as Hl. change (length HEADER) with 5%nat in Hl.
  assert (E : prefixb HEADER (take (N.min 1024 (lenN b)) b) = true).
  { unfold take. apply prefixb_firstn; [exact H|]. change (length HEADER) with 5%nat. unfold lenN. lia. }
  destruct (take (N.min 1024 (lenN b)) b) as [|c t] eqn:Et; [discriminate|]. cbn [find_sub]. rewrite E. reflexivity.
Qed.

(* ---------------------------------------------------------------- load of a saved file *)
(** FileOptions::load on the bytes of a successful save (no /Prev in the trailer; the header position the state
    carries is the one locate_start_offset finds): the loaded state is over the saved bytes, has no pending changes,
    the same header offset, and its table agrees with the saved table on every saved entry — the hypothesis
    "reloaded table = saved table" of C09_reload / C09_reload_stream / C09_reload_untouched, as a theorem *)
Theorem load_saved read_classic s tr s' tr' c :
  wf_st s -> save ser s tr = Ok (s', tr', None) -> t_prev tr = None ->
  lenN (refs s) < 999998 -> table_in_range (refs s') ->
  Forall wf_bytes (t_id tr) -> fst (t_root tr) < U64 -> snd (t_root tr) < U64 ->
  locate_start_offset (backend s') = Ok (start s) ->
  exists s3 td, load parse_obj read_classic (backend s') c = Ok (s3, td) /\
    changes s3 = [] /\ backend s3 = backend s' /\ start s3 = start s /\
    (forall i, i < lenN (refs s') -> nthN (refs s3) i = nthN (refs s') i) /\
    dget td k_Size = Some (PInt (Z.of_N (lenN (refs s) + 2))).
Proof.
  intros Hwf Hsave Hprev Hsmall Hrange Hids Hr1 Hr2 Hstart.
  apply (load_saved_table read_classic s tr s' tr' c Hwf Hsave Hprev Hsmall Hrange Hids Hr1 Hr2 Hstart).
  intros pre xpos ->. apply locate_xref_offset_tail.
Qed.

Lemma valid_struct_range b tbl : valid_struct b tbl -> lenN b < 2 ^ 64 -> table_in_range tbl.
Proof.
  intros (_ & H0 & Hent & _) Hsmall. apply Forall_forall. intros e Hin. destruct (In_nthN _ _ Hin) as [i Hi].
  pose proof (nthN_lt _ _ _ Hi) as Hlt. destruct (N.eq_dec i 0) as [->|Hne].
  - rewrite H0 in Hi. inversion Hi; subst e. cbn [xfields]. split; reflexivity.
  - destruct (Hent i ltac:(lia) Hlt) as (pos & pre' & post & Hn & Hb' & Hp). rewrite Hn in Hi. inversion Hi; subst e.
    cbn [xfields]. split; [|reflexivity]. rewrite <- Hp. apply (f_equal (@lenN N)) in Hb'. rewrite lenN_app in Hb'. lia.
Qed.

(** the file PdfBuilder::build produces loads, and the loaded state is a reload in the sense of C10_reload *)
Theorem build_load read_classic ps info s' tr' c :
  build ps info = Ok (s', tr', None) -> lenN ps < 300000 -> lenN (backend s') < 2 ^ 64 ->
  exists s3 td, load parse_obj read_classic (backend s') c = Ok (s3, td) /\ reloaded s' s3.
Proof.
  intros Hb Hn Hsmall.
  pose proof (build_valid_struct ps info s' tr' Hb Hsmall) as Hv.
  pose proof (valid_struct_range _ _ Hv Hsmall) as Hrange.
  destruct Hv as (Hhdr & _).
  unfold build in Hb. destruct (build_catalog ps) as [[s4 cat]| | |] eqn:Ec; cbn [bind fst snd] in Hb; try discriminate.
  destruct (build_catalog_spec ps s4 cat Ec) as (W4 & S4 & B4 & L4 & tree & kids & _ & Cat0 & CatL & _).
  destruct (load_saved read_classic s4 (build_trailer cat info) s' tr' c W4 Hb eq_refl) as (s3 & td & Hl & H1 & H2 & H3 & H4 & _).
  - rewrite L4. lia.
  - exact Hrange.
  - unfold build_trailer. cbn [t_id]. repeat constructor.
  - unfold build_trailer. cbn [t_root]. unfold U64. lia.
  - unfold build_trailer. cbn [t_root]. rewrite Cat0. reflexivity.
  - rewrite S4. apply locate_start_header_first. exact Hhdr.
  - exists s3, td. split; [exact Hl|]. unfold reloaded. rewrite S4 in H3. repeat split; assumption.
Qed.
