(** Lex/StrLexer.v — executable model of pdf/src/parser/lexer/str.rs
    (StringLexer::next_lexeme iterated to the closing parenthesis; HexStringLexer::next_hex_byte
    iterated to `>`).  Both return the decoded bytes and the number of bytes traversed. *)
From PdfV Require Import Base.Prelude Gen.Generated Lex.Lexer.

Definition BACKSLASH : N := 92.
Definition LPAREN : N := 40.
Definition RPAREN : N := 41.
Definition LF : N := 10.
Definition CR : N := 13.

Fixpoint assocN (k : N) (l : list (N * N)) : option N :=
  match l with
  | [] => None
  | (a, b) :: t => if a =? k then Some b else assocN k t
  end.

(* the `for _ in 0..3` loop: peek_byte()? fails with EOF at the end of the buffer *)
Fixpoint octal (n : nat) (l : bytes) (code k : N) : res (N * N * bytes) :=
  match n with
  | O => Ok (code, k, l)
  | S n' =>
    match l with
    | [] => Err E_EOF
    | c :: t =>
        if (str_octal_lo <=? c) && (c <=? str_octal_hi)
        then octal n' t (code * str_octal_base + (c - str_octal_lo)) (k + 1)
        else Ok (code, k, l)
    end
  end.

(* StringLexer: all of next_lexeme's cases, iterated; [nested] = parenthesis depth,
   [off] = bytes traversed, [acc] = output so far (reversed). *)
Fixpoint str_loop (fuel : nat) (nested : N) (off : N) (l : bytes) (acc : bytes) : res (bytes * N) :=
  match fuel with
  | O => OutOfFuel
  | S f =>
    match l with
    | [] => Err E_EOF
    | c :: t =>
      if c =? BACKSLASH then
        match t with
        | [] => Err E_EOF
        | e :: t2 =>
          match assocN e str_escapes with
          | Some v => str_loop f nested (off + 2) t2 (v :: acc)
          | None =>
            if e =? LF then str_loop f nested (off + 2) t2 acc
            else if e =? CR then
              match t2 with
              | x :: t3 => if x =? LF then str_loop f nested (off + 3) t3 acc
                           else str_loop f nested (off + 2) t2 acc
              | [] => str_loop f nested (off + 2) t2 acc
              end
            else
              match octal (N.to_nat str_octal_max_digits) t 0 0 with
              | Ok (code, k, r) =>
                  if k =? 0 then str_loop f nested (off + 1) t acc      (* the backslash is ignored *)
                  else str_loop f nested (off + 1 + k) r (code mod 256 :: acc)
              | Err x => Err x
              | Panic p => Panic p
              | OutOfFuel => OutOfFuel
              end
          end
        end
      else if c =? LPAREN then str_loop f (nested + 1) (off + 1) t (c :: acc)
      else if c =? RPAREN then
        if nested =? 0 then Ok (rev acc, off + 1)
        else str_loop f (nested - 1) (off + 1) t (c :: acc)
      else if c =? CR then
        match t with
        | x :: t2 => if x =? LF then str_loop f nested (off + 2) t2 (LF :: acc)
                     else str_loop f nested (off + 1) t (LF :: acc)
        | [] => str_loop f nested (off + 1) t (LF :: acc)
        end
      else str_loop f nested (off + 1) t (c :: acc)
    end
  end.

Definition string_lex (l : bytes) : res (bytes * N) := str_loop (S (length l)) 0 0 l [].

(* ---------------------------------------------------------------- hex strings *)
Fixpoint find3 (c : N) (rs : list (N * N * N)) : option N :=
  match rs with
  | [] => None
  | (lo, hi, base) :: t => if (lo <=? c) && (c <=? hi) then Some (c - lo + base) else find3 c t
  end.
Definition hex_digit (c : N) : option N := find3 c hexstr_digits.

(* HexStringLexer::next_non_whitespace_char *)
Fixpoint hex_next (off : N) (l : bytes) : option (N * N * bytes) :=
  match l with
  | [] => None
  | b :: t => if memN b hexstr_ws then hex_next (off + 1) t else Some (b, off + 1, t)
  end.

Definition E_HEX : N := 13.

Fixpoint hex_loop (fuel : nat) (off : N) (l : bytes) (acc : bytes) : res (bytes * N) :=
  match fuel with
  | O => OutOfFuel
  | S f =>
    match hex_next off l with
    | None => Err E_EOF
    | Some (c1, off1, l1) =>
      match hex_digit c1 with
      | None => if c1 =? hexstr_end then Ok (rev acc, off1) else Err E_HEX
      | Some hi =>
        match hex_next off1 l1 with
        | None => Err E_EOF
        | Some (c2, off2, l2) =>
          match hex_digit c2 with
          | Some lo => hex_loop f off2 l2 ((hi * 16 + lo) mod 256 :: acc)
          | None =>
            if c2 =? hexstr_end
            then hex_loop f (off2 - 1) (c2 :: l2) ((hi * 16) mod 256 :: acc)   (* back(): the `>` is read again *)
            else Err E_HEX
          end
        end
      end
    end
  end.

Definition hexstring_lex (l : bytes) : res (bytes * N) := hex_loop (S (length l)) 0 l [].
