(** Lex/NumProofs.v — every way ISO 32000-1 §7.3.3 writes a number is classified as the standard says:
    sign? digits  is an integer lexeme with the denoted value;  sign? digits* '.' digits*  (with a digit) is a real. *)
From PdfV Require Import Base.Prelude Gen.Generated Lex.Lexer Syn.Prim Syn.Parser Syn.Spells.

Definition sign_ok (sg : bytes) : Prop := sg = [] \/ sg = [PLUS] \/ sg = [MINUS].

Lemma digit_not_sign d : is_digit d = true -> is_sign d = false /\ (d =? DOT) = false /\ (d =? MINUS) = false /\ (d =? PLUS) = false.
Proof.
  unfold is_digit, is_sign, DOT, MINUS, PLUS. rewrite andb_true_iff, !N.leb_le. intros [H1 H2].
  repeat split; try apply orb_false_iff; try split; apply N.eqb_neq; lia.
Qed.

Lemma all_digits_app a b : all_digits (a ++ b) = all_digits a && all_digits b.
Proof. unfold all_digits. apply forallb_app. Qed.

(* ---- integers *)
Theorem int_spelling sg ds :
  sign_ok sg -> ds <> [] -> all_digits ds = true ->
  let v := Z.of_N (N_of_dec ds) in
  let z := if match sg with [c] => c =? MINUS | _ => false end then Z.opp v else v in
  (-2147483648 <= z <= 2147483647)%Z -> int_word (sg ++ ds) z.
Proof.
  intros Hsg Hne Hd v z Hr. destruct ds as [|d ds']; [contradiction|].
  assert (Hd0 : is_digit d = true) by (cbn [all_digits forallb] in Hd; apply andb_true_iff in Hd; tauto).
  destruct (digit_not_sign _ Hd0) as (Hs & _ & Hm & Hp).
  assert (Hrng : ((-2147483648 <=? z) && (z <=? 2147483647))%Z = true)
    by (apply andb_true_iff; split; apply Z.leb_le; lia).
  destruct Hsg as [->|[->| ->]]; cbn [app] in *; unfold int_word, is_integer, parse_i32.
  - assert (Ez : z = v) by reflexivity. rewrite Ez in *.
    rewrite Hs, Hm, Hp. split; [exact Hd|]. fold v. rewrite Hrng. reflexivity.
  - assert (Ez : z = v) by reflexivity. rewrite Ez in *.
    change (is_sign PLUS) with true. change (PLUS =? MINUS) with false. rewrite N.eqb_refl.
    split; [exact Hd|]. fold v. rewrite Hrng. reflexivity.
  - assert (Ez : z = Z.opp v) by reflexivity. rewrite Ez in *.
    change (is_sign MINUS) with true. rewrite N.eqb_refl.
    split; [exact Hd|]. fold v. rewrite Hrng. reflexivity.
Qed.

(* ---- reals *)
Lemma split_dot_digits ip fp : all_digits ip = true -> split_dot (ip ++ DOT :: fp) = Some (ip, fp).
Proof.
  induction ip as [|d ip IH]; intros H; cbn [app split_dot].
  - rewrite N.eqb_refl. reflexivity.
  - cbn [all_digits forallb] in H. apply andb_true_iff in H. destruct H as [H1 H2].
    destruct (digit_not_sign _ H1) as (_ & -> & _). rewrite (IH H2). reflexivity.
Qed.

Lemma digit_run_all l : all_digits l = true -> digit_run l = length l.
Proof.
  induction l as [|d l IH]; intros H; [reflexivity|]. cbn [all_digits forallb] in H. apply andb_true_iff in H.
  destruct H as [H1 H2]. cbn [digit_run length]. rewrite H1, (IH H2). reflexivity.
Qed.

Lemma dot_not_digit : is_digit DOT = false /\ is_sign DOT = false.
Proof. split; reflexivity. Qed.

Theorem real_spelling sg ip fp :
  sign_ok sg -> all_digits ip = true -> all_digits fp = true -> ip ++ fp <> [] ->
  real_word (sg ++ ip ++ DOT :: fp).
Proof.
  intros Hsg Hi Hf Hne. left.
  set (body := ip ++ DOT :: fp).
  assert (Hbody_int : all_digits body = false).
  { unfold body. rewrite all_digits_app. cbn [all_digits forallb]. rewrite (proj1 dot_not_digit).
    cbn [andb]. apply andb_false_r. }
  assert (Hbody_ne : body <> []) by (unfold body; destruct ip; discriminate).
  assert (Hreal : forall t, (t = body \/ exists c, is_sign c = true /\ t = c :: body) -> real_number t = Some t).
  { intros t Ht. unfold real_number.
    assert (E : exists c r, t = c :: r /\ (if is_sign c then r else t) = body /\
                            (is_sign c && match r with [] => true | _ => false end) = false).
    { destruct Ht as [->|[c [Hc ->]]].
      - destruct body as [|c r] eqn:Eb; [contradiction|]. exists c, r. split; [reflexivity|].
        assert (is_sign c = false).
        { unfold body in Eb. destruct ip as [|d ip']; cbn [app] in Eb; inversion Eb; subst.
          - reflexivity.
          - cbn [all_digits forallb] in Hi. apply andb_true_iff in Hi. apply digit_not_sign. tauto. }
        rewrite H. split; reflexivity.
      - exists c, body. rewrite Hc. split; [reflexivity|]. split; [reflexivity|].
        destruct body; [contradiction|reflexivity]. }
    destruct E as (c & r & -> & Esl & Eempty). rewrite Eempty, Esl.
    unfold body at 1. rewrite (split_dot_digits _ _ Hi), Hi, (digit_run_all _ Hf), Nat.ltb_irrefl. reflexivity. }
  assert (Hdig : forall t, (exists pre, t = pre ++ body) -> f32_parsable t = true).
  { intros t [pre ->]. unfold f32_parsable. rewrite existsb_app. apply orb_true_iff. right.
    unfold body. rewrite existsb_app. destruct ip as [|d ip'].
    - destruct fp as [|d fp']; [contradiction|]. cbn [existsb app]. cbn [all_digits forallb] in Hf.
      apply andb_true_iff in Hf. destruct Hf as [-> _]. apply orb_true_r.
    - cbn [existsb]. cbn [all_digits forallb] in Hi. apply andb_true_iff in Hi. destruct Hi as [-> _]. reflexivity. }
  destruct Hsg as [->|[->| ->]]; cbn [app]; fold body.
  - split; [|split; [apply Hreal; left; reflexivity|apply Hdig; exists []; reflexivity]].
    unfold is_integer. destruct body as [|c r] eqn:Eb; [reflexivity|].
    destruct (is_sign c) eqn:Ec.
    + exfalso. unfold body in Eb. destruct ip as [|d ip']; cbn [app] in Eb; inversion Eb; subst.
      * discriminate.
      * cbn [all_digits forallb] in Hi. apply andb_true_iff in Hi. destruct Hi as [Hi _].
        apply digit_not_sign in Hi. destruct Hi as [Hi _]. congruence.
    + exact Hbody_int.
  - split; [|split; [apply Hreal; right; exists PLUS; split; reflexivity|apply Hdig; exists [PLUS]; reflexivity]].
    unfold is_integer. change (is_sign PLUS) with true. cbv iota. destruct body; [reflexivity|exact Hbody_int].
  - split; [|split; [apply Hreal; right; exists MINUS; split; reflexivity|apply Hdig; exists [MINUS]; reflexivity]].
    unfold is_integer. change (is_sign MINUS) with true. cbv iota. destruct body; [reflexivity|exact Hbody_int].
Qed.

(* number characters are regular characters (so a number is one token) *)
Lemma number_chars_regular :
  forallb is_reg [43; 45; 46; 48; 49; 50; 51; 52; 53; 54; 55; 56; 57] = true.
Proof. vm_compute. reflexivity. Qed.
