(** Lex/Progress.v — every successful [next_word]/[next] consumes at least one byte; hence an item sequence that lexes
    from a state is no longer than the bytes left there.  (This discharges the fuel premises of the parser theorems:
    the fuel [fuel_for s] the implementation's recursion corresponds to always suffices.) *)
From PdfV Require Import Base.Prelude Gen.Generated Lex.Lexer.

Definition head_nonws (l : bytes) : Prop := match l with b :: _ => is_ws b = false | [] => True end.

Lemma skip_while_len p pos l : forall pos' r, skip_while p pos l = (pos', r) ->
  (length r <= length l)%nat /\ match r with b :: _ => p b = false | [] => True end.
Proof.
  revert pos. induction l as [|b t IH]; intros pos pos' r H; cbn [skip_while] in H.
  - injection H as <- <-. split; [lia|exact I].
  - destruct (p b) eqn:E.
    + destruct (IH _ _ _ H) as [Hl Hh]. split; [cbn [length]; lia|exact Hh].
    + injection H as <- <-. split; [lia|exact E].
Qed.

Lemma skip_ws_len s s1 : skip_ws s = Some s1 ->
  (length (lrest s1) <= length (lrest s))%nat /\ lrest s1 <> [] /\ head_nonws (lrest s1).
Proof.
  unfold skip_ws. destruct (skip_while is_ws (lpos s) (lrest s)) as [p r] eqn:E.
  destruct (skip_while_len _ _ _ _ _ E) as [Hl Hh].
  destruct r as [|b t]; [discriminate|]. intros H. injection H as <-. cbn [lrest].
  split; [exact Hl|]. split; [discriminate|exact Hh].
Qed.

Lemma after_eol_len pos l : forall p r, after_eol pos l = (p, r) -> (length r <= length l)%nat.
Proof.
  revert pos. induction l as [|b t IH]; intros pos p r H; cbn [after_eol] in H.
  - injection H as <- <-. lia.
  - destruct (memN b lex_comment_ends).
    + injection H as <- <-. cbn [length]. lia.
    + specialize (IH _ _ _ H). cbn [length]. lia.
Qed.

Lemma skip_comments_len fuel : forall s s', skip_comments fuel s = Ok s' -> head_nonws (lrest s) ->
  (length (lrest s') <= length (lrest s))%nat /\ head_nonws (lrest s').
Proof.
  induction fuel as [|f IH]; intros s s' H Hh; cbn [skip_comments] in H; [discriminate|].
  destruct (lrest s) as [|b t] eqn:Er.
  - injection H as <-. rewrite Er. split; [lia|exact I].
  - destruct (b =? lex_comment).
    + destruct (after_eol (lpos s + 1) t) as [p r] eqn:Ea.
      pose proof (after_eol_len _ _ _ _ Ea) as Hl.
      destruct (skip_ws (mkLx p r)) as [s2|] eqn:Ew; [|discriminate].
      destruct (skip_ws_len _ _ Ew) as (Hl2 & _ & Hh2). cbn [lrest] in Hl2.
      destruct (IH _ _ H Hh2) as [Hl3 Hh3]. split; [cbn [length]; lia|exact Hh3].
    + injection H as <-. rewrite Er. split; [lia|exact Hh].
Qed.

Lemma span_reg_split l : forall tok r, span_reg l = (tok, r) -> l = tok ++ r.
Proof.
  induction l as [|b t IH]; intros tok r H; cbn [span_reg] in H.
  - injection H as <- <-. reflexivity.
  - destruct (is_reg b).
    + destruct (span_reg t) as [tk rr]. injection H as <- <-. cbn [app]. f_equal. apply IH. reflexivity.
    + injection H as <- <-. reflexivity.
Qed.

(* a byte that is neither white-space nor a delimiter starts a non-empty run *)
Lemma span_reg_nonempty b t tok r : is_ws b = false -> is_delim b = false -> span_reg (b :: t) = (tok, r) -> tok <> [].
Proof.
  intros Hw Hd H. cbn [span_reg] in H. unfold is_reg in H. rewrite Hw, Hd in H. cbn [negb andb] in H.
  destruct (span_reg t). injection H as <- <-. discriminate.
Qed.

Theorem next_word_progress s tok st s' : next_word s = Ok (tok, st, s') -> (length (lrest s') < length (lrest s))%nat.
Proof.
  unfold next_word. destruct (lrest s) as [|b0 t0] eqn:Er; [discriminate|].
  destruct (skip_ws s) as [s1|] eqn:Ew; [|discriminate].
  destruct (skip_ws_len _ _ Ew) as (Hl1 & _ & Hh1). rewrite Er in Hl1.
  destruct (skip_comments (S (length (lrest s1))) s1) as [s2| | |] eqn:Ec; cbn [bind]; try discriminate.
  destruct (skip_comments_len _ _ _ Ec Hh1) as [Hl2 Hh2].
  destruct (lrest s2) as [|b t] eqn:Er2; [discriminate|]. cbn [head_nonws] in Hh2. cbn [length] in Hl2.
  destruct (is_delim b) eqn:Ed.
  - destruct (b =? SLASH).
    + destruct (span_reg t) as [tk r] eqn:Es. intros H. injection H as <- <- <-. cbn [lrest].
      pose proof (span_reg_split _ _ _ Es) as ->. rewrite app_length in Hl2. lia.
    + destruct t as [|b2 t2].
      * intros H. injection H as <- <- <-. cbn [lrest length] in *. lia.
      * destruct (((b =? LT) && (b2 =? LT)) || ((b =? GT) && (b2 =? GT))); intros H; injection H as <- <- <-;
          cbn [lrest length] in *; lia.
  - destruct (span_reg (b :: t)) as [tk r] eqn:Es. intros H. injection H as <- <- <-. cbn [lrest].
    pose proof (span_reg_nonempty _ _ _ _ Hh2 Ed Es) as Hne.
    pose proof (span_reg_split _ _ _ Es) as E. assert (length (b :: t) = length (tk ++ r)) as E' by (rewrite E; reflexivity).
    rewrite app_length in E'. cbn [length] in E'. destruct tk; [contradiction|]. cbn [length] in E'. lia.
Qed.

Theorem next_progress s tok s' : next s = Ok (tok, s') -> (length (lrest s') < length (lrest s))%nat.
Proof.
  unfold next. destruct (next_word s) as [[[t st] s1]| | |] eqn:E; cbn [bind]; try discriminate.
  intros H. injection H as <- <-. exact (next_word_progress _ _ _ _ E).
Qed.

Lemma advance_len s n : (length (lrest (advance s n)) <= length (lrest s))%nat.
Proof. unfold advance, drop. cbn [lrest]. rewrite skipn_length. lia. Qed.
