(** Lex/Lexer.v — executable model of pdf/src/parser/lexer/mod.rs.
    The lexer state (buf, pos) is represented by the absolute position and the remaining
    suffix of the buffer: [lrest = buf[lpos - base ..]]; a roll-back ([set_pos(pos_bk)]) is
    "keep using the old state".  Tables come from Gen.Generated. *)
From PdfV Require Import Base.Prelude Gen.Generated.

Record lx := mkLx { lpos : N; lrest : bytes }.

(* error kinds (coarse) *)
Definition E_EOF : N := 10.
Definition E_LEX : N := 11.      (* UnexpectedLexeme, invalid white-space after `stream`, … *)
Definition E_PARSE : N := 12.    (* str::parse failures, from_utf8 *)

(* lexer/mod.rs: is_whitespace, Lexer::is_delimiter *)
Definition is_ws (b : N) : bool := memN b lex_ws.
Definition is_delim (b : N) : bool := memN b lex_delims.
Definition is_reg (b : N) : bool := negb (is_ws b) && negb (is_delim b).

(* lexer/mod.rs: boundary(buf, pos, cond) on the suffix *)
Fixpoint skip_while (p : N -> bool) (pos : N) (l : bytes) : N * bytes :=
  match l with
  | b :: t => if p b then skip_while p (pos + 1) t else (pos, l)
  | [] => (pos, [])
  end.

(* Lexer::skip_whitespace: EOF when the end of the buffer is reached *)
Definition skip_ws (s : lx) : option lx :=
  let '(p, r) := skip_while is_ws (lpos s) (lrest s) in
  match r with [] => None | _ :: _ => Some (mkLx p r) end.

(* next_word, comment part: position just after the first end-of-comment byte;
   the end of the buffer when there is none *)
Fixpoint after_eol (pos : N) (l : bytes) : N * bytes :=
  match l with
  | [] => (pos, [])
  | b :: t => if memN b lex_comment_ends then (pos + 1, t) else after_eol (pos + 1) t
  end.

(* next_word: `while self.buf.get(pos) == Some(&b'%')` *)
Fixpoint skip_comments (fuel : nat) (s : lx) : res lx :=
  match fuel with
  | O => OutOfFuel
  | S f =>
    match lrest s with
    | b :: t =>
        if b =? lex_comment then
          let '(p, r) := after_eol (lpos s + 1) t in
          match skip_ws (mkLx p r) with
          | None => Err E_EOF
          | Some s2 => skip_comments f s2
          end
        else Ok s
    | [] => Ok s
    end
  end.

(* the maximal run of regular characters *)
Fixpoint span_reg (l : bytes) : bytes * bytes :=
  match l with
  | b :: t => if is_reg b then let '(tok, r) := span_reg t in (b :: tok, r) else ([], l)
  | [] => ([], [])
  end.

Definition SLASH : N := 47.
Definition LT : N := 60.
Definition GT : N := 62.

(* Lexer::next_word: (lexeme, its start position, state after it) *)
Definition next_word (s : lx) : res (bytes * N * lx) :=
  match lrest s with
  | [] => Err E_EOF
  | _ :: _ =>
    match skip_ws s with
    | None => Err E_EOF
    | Some s1 =>
      do s2 <- skip_comments (S (length (lrest s1))) s1;
      match lrest s2 with
      | [] => Err E_EOF
      | b :: t =>
        let start := lpos s2 in
        if is_delim b then
          if b =? SLASH then
            let '(tok, r) := span_reg t in
            Ok (b :: tok, start, mkLx (start + 1 + lenN tok) r)
          else
            match t with
            | b2 :: t2 =>
                if ((b =? LT) && (b2 =? LT)) || ((b =? GT) && (b2 =? GT))
                then Ok ([b; b2], start, mkLx (start + 2) t2)
                else Ok ([b], start, mkLx (start + 1) t)
            | [] => Ok ([b], start, mkLx (start + 1) t)
            end
        else
          let '(tok, r) := span_reg (b :: t) in
          Ok (tok, start, mkLx (start + lenN tok) r)
      end
    end
  end.

(* Lexer::next *)
Definition next (s : lx) : res (bytes * lx) :=
  do (tok, _, s') <- next_word s; Ok (tok, s').

(* Lexer::peek: the empty lexeme at the end of the buffer *)
Definition peek (s : lx) : res bytes :=
  match next_word s with
  | Ok (tok, _, _) => Ok tok
  | Err e => if e =? E_EOF then Ok [] else Err e
  | Panic p => Panic p
  | OutOfFuel => OutOfFuel
  end.

Fixpoint bytes_eqb (a b : bytes) : bool :=
  match a, b with
  | [], [] => true
  | x :: a', y :: b' => (x =? y) && bytes_eqb a' b'
  | _, _ => false
  end.

(* Lexer::next_expect *)
Definition next_expect (s : lx) (kw : bytes) : res lx :=
  do (tok, s') <- next s;
  if bytes_eqb tok kw then Ok s' else Err E_LEX.

Definition advance (s : lx) (n : N) : lx := mkLx (lpos s + n) (drop n (lrest s)).

(* Lexer::next_stream: skip the next lexeme (the `stream` keyword; it is not compared) and the
   end-of-line after it: LF or CR LF *)
Definition next_stream (s : lx) : res lx :=
  do (_, s1) <- next s;
  match lrest s1 with
  | [] => Err E_EOF
  | b0 :: t =>
    if b0 =? stream_lf then Ok (advance s1 stream_after_lf)
    else if b0 =? stream_cr then
      match t with
      | [] => Err E_EOF
      | b1 :: _ => if b1 =? stream_cr_lf then Ok (advance s1 stream_after_crlf) else Err E_LEX
      end
    else Err E_LEX
  end.

(* Lexer::read_n: (start, length of the returned slice, state after) *)
Definition read_n (s : lx) (n : N) : N * N * lx :=
  let have := lenN (lrest s) in
  let k := N.min n have in
  (lpos s, k, advance s k).

(* ---------------------------------------------------------------- Substr *)
Definition is_digit (b : N) : bool := (48 <=? b) && (b <=? 57).
Definition all_digits (l : bytes) : bool := forallb is_digit l.
Definition MINUS : N := 45.
Definition PLUS : N := 43.
Definition DOT : N := 46.
Definition is_sign (b : N) : bool := (b =? MINUS) || (b =? PLUS).

(* Substr::is_integer *)
Definition is_integer (t : bytes) : bool :=
  match t with
  | [] => false
  | c :: r => if is_sign c then match r with [] => false | _ :: _ => all_digits r end else all_digits t
  end.

Fixpoint split_dot (l : bytes) : option (bytes * bytes) :=
  match l with
  | [] => None
  | b :: t => if b =? DOT then Some ([], t)
              else match split_dot t with Some (a, c) => Some (b :: a, c) | None => None end
  end.

Fixpoint digit_run (l : bytes) : nat :=
  match l with b :: t => if is_digit b then S (digit_run t) else O | [] => O end.

(* Substr::real_number: the prefix of the lexeme that is handed to str::parse::<f32> *)
Definition real_number (t : bytes) : option bytes :=
  match t with
  | [] => None
  | c :: r =>
    let sl := if is_sign c then r else t in
    if is_sign c && match r with [] => true | _ => false end then None else
    let tail := match split_dot sl with
                | Some (before, after) => if all_digits before then Some after else None
                | None => Some sl
                end in
    match tail with
    | None => None
    | Some sl2 =>
      let k := digit_run sl2 in
      if Nat.ltb k (length sl2) then
        if Nat.eqb k 0 then None else Some (firstn (length t - length sl2 + k) t)
      else Some t
    end
  end.

(* str::parse::<i32> on a lexeme for which is_integer holds *)
Definition parse_i32 (t : bytes) : res Z :=
  match t with
  | [] => Err E_PARSE
  | c :: r =>
    let v := if c =? MINUS then Z.opp (Z.of_N (N_of_dec r))
             else if c =? PLUS then Z.of_N (N_of_dec r) else Z.of_N (N_of_dec t) in
    if ((-2147483648 <=? v) && (v <=? 2147483647))%Z then Ok v else Err E_PARSE
  end.

(* str::parse::<u64> on an arbitrary lexeme: optional '+', at least one digit, below 2^64 *)
Definition parse_u64 (t : bytes) : res N :=
  let d := match t with c :: r => if c =? PLUS then r else t | [] => [] end in
  match d with
  | [] => Err E_PARSE
  | _ :: _ => if all_digits d then
                let v := N_of_dec d in
                if v <? 18446744073709551616 then Ok v else Err E_PARSE
              else Err E_PARSE
  end.

(* str::parse::<f32> on a string of the shape produced by real_number / is_integer
   (sign? digits* ('.' digits* )?): it fails exactly when there is no digit at all *)
Definition f32_parsable (t : bytes) : bool := existsb is_digit t.
