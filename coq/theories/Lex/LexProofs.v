(** Lex/LexProofs.v — the lexer finds every token of a conforming text (C03, stage L):
    after any sequence of white-space and comments, [next_word] returns the next regular token, name,
    or delimiter token, and stops exactly behind it. *)
From PdfV Require Import Base.Prelude Gen.Generated Lex.Lexer.

(* ---- table facts (re-checked against the Rust source on every run) *)
Definition iso_ws : list N := [0; 9; 10; 12; 13; 32].           (* ISO 32000-1 Table 1 *)
Definition iso_delims : list N := [40; 41; 60; 62; 91; 93; 123; 125; 47; 37].   (* Table 2 *)

Lemma ws_table : forallb (fun b => Bool.eqb (is_ws b) (memN b iso_ws)) all_bytes = true.
Proof. vm_compute. reflexivity. Qed.
Lemma delim_table : forallb (fun b => Bool.eqb (is_delim b) (memN b iso_delims)) all_bytes = true.
Proof. vm_compute. reflexivity. Qed.
Lemma comment_table : lex_comment = 37 /\ lex_comment_ends = [10; 13].
Proof. split; reflexivity. Qed.

Lemma is_ws_iso b : b < 256 -> is_ws b = memN b iso_ws.
Proof. intros H. apply eqb_prop. exact (forall_bytes _ ws_table b H). Qed.
Lemma is_delim_iso b : b < 256 -> is_delim b = memN b iso_delims.
Proof. intros H. apply eqb_prop. exact (forall_bytes _ delim_table b H). Qed.

Lemma comment_not_ws : is_ws lex_comment = false.
Proof. reflexivity. Qed.
Lemma eol_is_ws e : memN e lex_comment_ends = true -> is_ws e = true.
Proof.
  unfold lex_comment_ends, memN. cbn [existsb]. rewrite !orb_true_iff. intros [H|[H|H]]; try discriminate;
    apply N.eqb_eq in H; subst; reflexivity.
Qed.

(* ---- separators: white-space bytes and comments (a comment runs to the first CR or LF) *)
Inductive sep : bytes -> Prop :=
| sep_nil : sep []
| sep_ws b r : is_ws b = true -> sep r -> sep (b :: r)
| sep_comment body e r :
    Forall (fun c => memN c lex_comment_ends = false) body -> memN e lex_comment_ends = true ->
    sep r -> sep (lex_comment :: body ++ e :: r).

Lemma after_eol_body p body e t :
  Forall (fun c => memN c lex_comment_ends = false) body -> memN e lex_comment_ends = true ->
  after_eol p (body ++ e :: t) = (p + lenN body + 1, t).
Proof.
  intros Hb He. revert p. induction Hb as [|c body Hc Hb IH]; intros p; cbn [app after_eol].
  - rewrite He. unfold lenN. cbn [length]. f_equal. lia.
  - rewrite Hc, IH. unfold lenN. cbn [length]. f_equal. lia.
Qed.

(* where skip_ws lands *)
Definition land (p : N) (l : bytes) : N * bytes := skip_while is_ws p l.

Lemma land_nonws p b t : is_ws b = false -> land p (b :: t) = (p, b :: t).
Proof. intros H. unfold land. cbn [skip_while]. rewrite H. reflexivity. Qed.

(* the start of a token: neither white-space nor the comment character *)
Definition tok_start (t : bytes) : Prop :=
  match t with b :: _ => is_ws b = false /\ (b =? lex_comment) = false | [] => False end.

Lemma land_length l : forall p p1 r1, land p l = (p1, r1) -> (length r1 <= length l)%nat.
Proof.
  unfold land. induction l as [|b l IH]; intros p p1 r1 EL; cbn [skip_while] in EL.
  - inversion EL; subst. cbn. lia.
  - destruct (is_ws b).
    + apply IH in EL. cbn [length]. lia.
    + inversion EL; subst. cbn [length]. lia.
Qed.

Lemma skip_sep sp : sep sp -> forall t p fuel, tok_start t ->
  forall p1 r1, land p (sp ++ t) = (p1, r1) -> (length r1 < fuel)%nat ->
  r1 <> [] /\ skip_comments fuel (mkLx p1 r1) = Ok (mkLx (p + lenN sp) t).
Proof.
  induction 1 as [|b r Hb Hr IH|body e r Hbody He Hr IH]; intros t p fuel Ht p1 r1 EL Hf.
  - cbn [app] in EL. destruct t as [|b t']; [contradiction|]. destruct Ht as [Hw Hc].
    rewrite (land_nonws _ _ _ Hw) in EL. inversion EL; subst. split; [discriminate|].
    destruct fuel as [|f]; [lia|]. cbn [skip_comments lrest]. rewrite Hc.
    unfold lenN. cbn [length]. f_equal. f_equal. lia.
  - cbn [app] in EL. unfold land in EL. cbn [skip_while] in EL. rewrite Hb in EL. fold (land (p + 1) (r ++ t)) in EL.
    destruct (IH t (p + 1) fuel Ht p1 r1 EL Hf) as [IH1 IH2]. split; [exact IH1|].
    rewrite IH2. f_equal. f_equal. unfold lenN. cbn [length]. lia.
  - cbn [app] in EL. rewrite (land_nonws _ _ _ comment_not_ws) in EL. inversion EL; subst p1 r1. split; [discriminate|].
    destruct fuel as [|f]; [lia|]. cbn [skip_comments lrest lpos]. rewrite N.eqb_refl.
    rewrite <- app_assoc. cbn [app]. rewrite (after_eol_body _ _ _ _ Hbody He).
    unfold skip_ws. cbn [lpos lrest]. fold (land (p + 1 + lenN body + 1) (r ++ t)).
    destruct (land (p + 1 + lenN body + 1) (r ++ t)) as [p2 r2] eqn:EL2.
    assert (Hlen : (length r2 < f)%nat).
    { apply land_length in EL2. cbn [length] in Hf. rewrite ?app_length in Hf. cbn [length] in Hf.
      rewrite ?app_length in *. lia. }
    destruct (IH t _ f Ht p2 r2 EL2 Hlen) as [IH1 IH2].
    destruct r2 as [|x r2']; [contradiction|]. rewrite IH2. f_equal. f_equal.
    unfold lenN. cbn [length]. rewrite app_length. cbn [length]. lia.
Qed.

(* ---- regular tokens *)
Lemma span_reg_tok tok rest :
  Forall (fun b => is_reg b = true) tok ->
  match rest with b :: _ => is_reg b = false | [] => True end ->
  span_reg (tok ++ rest) = (tok, rest).
Proof.
  intros Ht Hr. induction Ht as [|b tok Hb Ht IH]; cbn [app span_reg].
  - destruct rest as [|b r]; [reflexivity|]. cbn [span_reg]. rewrite Hr. reflexivity.
  - rewrite Hb, IH. reflexivity.
Qed.

Lemma is_reg_split b : is_reg b = true -> is_ws b = false /\ is_delim b = false.
Proof. unfold is_reg. rewrite andb_true_iff, !negb_true_iff. tauto. Qed.

Lemma reg_not_comment b : is_reg b = true -> (b =? lex_comment) = false.
Proof.
  intros H. apply is_reg_split in H. destruct H as [_ Hd].
  destruct (N.eqb_spec b lex_comment) as [->|]; [|reflexivity]. vm_compute in Hd. discriminate.
Qed.

Definition boundary (rest : bytes) : Prop := match rest with b :: _ => is_reg b = false | [] => True end.

(* next_word on   sep ++ token ++ rest : everything up to the dispatch on the first byte of the token *)
Lemma next_word_enter sp t p (k : lx -> res (bytes * N * lx)) : sep sp -> tok_start t ->
  (match lrest (mkLx p (sp ++ t)) with
   | [] => Err E_EOF
   | _ :: _ =>
     match skip_ws (mkLx p (sp ++ t)) with
     | None => Err E_EOF
     | Some s1 => do s2 <- skip_comments (S (length (lrest s1))) s1; k s2
     end
   end) = k (mkLx (p + lenN sp) t).
Proof.
  intros Hsp Ht.
  assert (Hne : sp ++ t <> []) by (destruct t; [contradiction|destruct sp; discriminate]).
  cbn [lrest]. destruct (sp ++ t) as [|x l] eqn:E; [contradiction|]. rewrite <- E.
  unfold skip_ws. cbn [lpos lrest]. fold (land p (sp ++ t)).
  destruct (land p (sp ++ t)) as [p1 r1] eqn:EL.
  destruct (skip_sep sp Hsp t p (S (length r1)) Ht p1 r1 EL ltac:(lia)) as [H1 H2].
  destruct r1 as [|y r1']; [contradiction|]. cbn [lrest]. rewrite H2. reflexivity.
Qed.

(* a regular token (number, keyword, operator …) *)
Theorem next_word_regular sp tok rest p :
  sep sp -> tok <> [] -> Forall (fun b => is_reg b = true) tok -> boundary rest ->
  next_word (mkLx p (sp ++ tok ++ rest)) =
    Ok (tok, p + lenN sp, mkLx (p + lenN sp + lenN tok) rest).
Proof.
  intros Hsp Hne Hreg Hb. destruct tok as [|b tok']; [contradiction|].
  assert (Hb0 : is_reg b = true) by (inversion Hreg; assumption).
  destruct (is_reg_split _ Hb0) as [Hw Hd].
  unfold next_word.
  rewrite (next_word_enter sp ((b :: tok') ++ rest) p _ Hsp).
  2:{ cbn [app tok_start]. split; [exact Hw|apply reg_not_comment; exact Hb0]. }
  cbn [lrest lpos app]. rewrite Hd.
  change (b :: tok' ++ rest) with ((b :: tok') ++ rest). rewrite (span_reg_tok _ _ Hreg Hb). reflexivity.
Qed.

(* a name token: the solidus and the regular characters after it *)
Theorem next_word_name sp enc rest p :
  sep sp -> Forall (fun b => is_reg b = true) enc -> boundary rest ->
  next_word (mkLx p (sp ++ (SLASH :: enc) ++ rest)) =
    Ok (SLASH :: enc, p + lenN sp, mkLx (p + lenN sp + 1 + lenN enc) rest).
Proof.
  intros Hsp Hreg Hb. unfold next_word.
  rewrite (next_word_enter sp ((SLASH :: enc) ++ rest) p _ Hsp).
  2:{ cbn [app tok_start]. split; reflexivity. }
  cbn [lrest lpos app]. change (is_delim SLASH) with true. cbv iota. rewrite N.eqb_refl.
  rewrite (span_reg_tok _ _ Hreg Hb). reflexivity.
Qed.

(* delimiter tokens: a single delimiter byte other than the solidus and the comment character … *)
Theorem next_word_delim1 sp d rest p :
  sep sp -> is_delim d = true -> (d =? SLASH) = false -> (d =? lex_comment) = false ->
  match rest with b2 :: _ => ((d =? LT) && (b2 =? LT)) || ((d =? GT) && (b2 =? GT)) = false | [] => True end ->
  next_word (mkLx p (sp ++ d :: rest)) = Ok ([d], p + lenN sp, mkLx (p + lenN sp + 1) rest).
Proof.
  intros Hsp Hd Hs Hc Hpair. unfold next_word.
  assert (Hw : is_ws d = false).
  { destruct (is_ws d) eqn:E; [|reflexivity]. exfalso.
    clear -E Hd. unfold is_ws, is_delim, lex_ws, lex_delims, memN in *. cbn [existsb] in *.
    repeat match goal with H : context [d =? ?c] |- _ => destruct (N.eqb_spec d c); [subst; vm_compute in E; vm_compute in Hd; try discriminate|] end;
    cbn in *; try discriminate. }
  rewrite (next_word_enter sp (d :: rest) p _ Hsp).
  2:{ cbn [tok_start]. split; assumption. }
  cbn [lrest lpos]. rewrite Hd, Hs. destruct rest as [|b2 t2]; [reflexivity|]. rewrite Hpair. reflexivity.
Qed.

(* … and the two double delimiters *)
Theorem next_word_delim2 sp d rest p :
  sep sp -> d = LT \/ d = GT ->
  next_word (mkLx p (sp ++ d :: d :: rest)) = Ok ([d; d], p + lenN sp, mkLx (p + lenN sp + 2) rest).
Proof.
  intros Hsp Hd. unfold next_word.
  rewrite (next_word_enter sp (d :: d :: rest) p _ Hsp).
  2:{ destruct Hd; subst; split; reflexivity. }
  cbn [lrest lpos]. destruct Hd; subst; reflexivity.
Qed.

(* the end of the text (possibly after trailing white-space and comments) is reported as EOF *)
