(** Lex/StrProofs.v — literal strings (ISO 32000-1 §7.3.4.2) and hexadecimal strings (§7.3.4.3):
    every way the standard lets a byte string be written is read back as that byte string.
    [spell_run n out text n']: reading [text] at parenthesis depth [n] yields [out] and ends at depth [n']. *)
From PdfV Require Import Base.Prelude Gen.Generated Lex.Lexer Lex.StrLexer.

Definition is_octal (c : N) : bool := (str_octal_lo <=? c) && (c <=? str_octal_hi).
Definition special (c : N) : bool := (c =? BACKSLASH) || (c =? LPAREN) || (c =? RPAREN) || (c =? CR).

(* what the next byte must not be, for constructs that look one byte ahead *)
Definition next_not (p : N -> bool) (l : bytes) : Prop := match l with b :: _ => p b = false | [] => False end.

Section Run.
  Variable closing : bytes.      (* the text after the run: starts with the closing parenthesis *)

  Inductive spell_run : N -> bytes -> bytes -> N -> Prop :=
  | run_nil n : spell_run n [] [] n
  | run_raw n n' c out text : special c = false ->
      spell_run n out text n' -> spell_run n (c :: out) (c :: text) n'
  | run_open n n' out text :
      spell_run (n + 1) out text n' -> spell_run n (LPAREN :: out) (LPAREN :: text) n'
  | run_close n n' out text : 0 < n ->
      spell_run (n - 1) out text n' -> spell_run n (RPAREN :: out) (RPAREN :: text) n'
  | run_esc n n' e v out text : assocN e str_escapes = Some v ->
      spell_run n out text n' -> spell_run n (v :: out) (BACKSLASH :: e :: text) n'
  | run_cont_lf n n' out text :
      spell_run n out text n' -> spell_run n out (BACKSLASH :: LF :: text) n'
  | run_cont_cr n n' out text : next_not (fun b => b =? LF) (text ++ closing) ->
      spell_run n out text n' -> spell_run n out (BACKSLASH :: CR :: text) n'
  | run_cont_crlf n n' out text :
      spell_run n out text n' -> spell_run n out (BACKSLASH :: CR :: LF :: text) n'
  | run_oct1 n n' d1 out text : is_octal d1 = true -> next_not is_octal (text ++ closing) ->
      spell_run n out text n' ->
      spell_run n ((d1 - str_octal_lo) mod 256 :: out) (BACKSLASH :: d1 :: text) n'
  | run_oct2 n n' d1 d2 out text : is_octal d1 = true -> is_octal d2 = true -> next_not is_octal (text ++ closing) ->
      spell_run n out text n' ->
      spell_run n (((d1 - str_octal_lo) * 8 + (d2 - str_octal_lo)) mod 256 :: out) (BACKSLASH :: d1 :: d2 :: text) n'
  | run_oct3 n n' d1 d2 d3 out text : is_octal d1 = true -> is_octal d2 = true -> is_octal d3 = true ->
      spell_run n out text n' ->
      spell_run n ((((d1 - str_octal_lo) * 8 + (d2 - str_octal_lo)) * 8 + (d3 - str_octal_lo)) mod 256 :: out)
                (BACKSLASH :: d1 :: d2 :: d3 :: text) n'
  | run_ignored n n' c out text :
      assocN c str_escapes = None -> (c =? LF) = false -> (c =? CR) = false -> is_octal c = false -> special c = false ->
      spell_run n out text n' -> spell_run n (c :: out) (BACKSLASH :: c :: text) n'
  | run_eol_cr n n' out text : next_not (fun b => b =? LF) (text ++ closing) ->
      spell_run n out text n' -> spell_run n (LF :: out) (CR :: text) n'
  | run_eol_crlf n n' out text :
      spell_run n out text n' -> spell_run n (LF :: out) (CR :: LF :: text) n'.
End Run.

(* table facts about the generated escape table and octal range *)
Lemma escapes_table :
  assocN LF str_escapes = None /\ assocN CR str_escapes = None /\
  forallb (fun d => match assocN d str_escapes with None => true | Some _ => false end) (seqN 48 8) = true /\
  str_octal_lo = 48 /\ str_octal_hi = 55 /\ str_octal_base = 8 /\ str_octal_max_digits = 3.
Proof. repeat split; reflexivity. Qed.

Lemma octal_facts d : is_octal d = true ->
  assocN d str_escapes = None /\ (d =? LF) = false /\ (d =? CR) = false /\ 48 <= d <= 55.
Proof.
  unfold is_octal. destruct escapes_table as (_ & _ & T & -> & -> & _). rewrite andb_true_iff, !N.leb_le. intros [H1 H2].
  rewrite forallb_forall in T. specialize (T d ltac:(apply seqN_In; cbn; lia)).
  destruct (assocN d str_escapes); [discriminate|]. repeat split; try (apply N.eqb_neq; unfold LF, CR; lia); lia.
Qed.

Lemma special_split c : special c = false ->
  (c =? BACKSLASH) = false /\ (c =? LPAREN) = false /\ (c =? RPAREN) = false /\ (c =? CR) = false.
Proof. unfold special. rewrite !orb_false_iff. tauto. Qed.

Lemma lenN_nil' {A} : lenN (@nil A) = 0.
Proof. reflexivity. Qed.
Lemma lenN_cons' {A} (x : A) l : lenN (x :: l) = 1 + lenN l.
Proof. unfold lenN. cbn [length]. lia. Qed.

Lemma lenN_app' {A} (a b : list A) : lenN (a ++ b) = lenN a + lenN b.
Proof. unfold lenN. rewrite app_length. lia. Qed.

Lemma octal_stop n l code k : next_not is_octal l ->
  octal (S n) l code k = Ok (code, k, l).
Proof. destruct l as [|b t]; [contradiction|]. cbn [next_not octal]. unfold is_octal. intros ->. reflexivity. Qed.

Lemma octal_step n d l code k : is_octal d = true ->
  octal (S n) (d :: l) code k = octal n l (code * str_octal_base + (d - str_octal_lo)) (k + 1).
Proof. cbn [octal]. unfold is_octal. intros ->. reflexivity. Qed.

Theorem string_run closing' n out text :
  spell_run (RPAREN :: closing') n out text 0 ->
  forall fuel off acc, (length text < fuel)%nat ->
    str_loop fuel n off (text ++ RPAREN :: closing') acc = Ok (rev acc ++ out, off + lenN text + 1).
Proof.
  intros H. remember 0 as n' eqn:En'. induction H; intros fuel off acc Hf; subst.
  all: destruct fuel as [|f]; [cbn [length] in Hf; lia|].
  all: cbn [app].
  - (* end: the closing parenthesis at depth 0 *)
    cbn [str_loop]. change (RPAREN =? BACKSLASH) with false. change (RPAREN =? LPAREN) with false.
    rewrite N.eqb_refl. change (0 =? 0) with true. cbv iota. rewrite app_nil_r. f_equal. f_equal. change (lenN (@nil N)) with 0. lia.
  - (* raw byte *)
    destruct (special_split _ H) as (H1 & H2 & H3 & H4). cbn [str_loop]. rewrite H1, H2, H3, H4.
    rewrite IHspell_run by (reflexivity || (cbn [length] in Hf; lia)). cbn [rev]. rewrite <- app_assoc. cbn [app].
    f_equal. f_equal. rewrite ?lenN_cons'. lia.
  - cbn [str_loop]. change (LPAREN =? BACKSLASH) with false. rewrite N.eqb_refl.
    rewrite IHspell_run by (reflexivity || (cbn [length] in Hf; lia)). cbn [rev]. rewrite <- app_assoc. cbn [app].
    f_equal. f_equal. rewrite ?lenN_cons'. lia.
  - cbn [str_loop]. change (RPAREN =? BACKSLASH) with false. change (RPAREN =? LPAREN) with false. rewrite N.eqb_refl.
    assert (n =? 0 = false) as -> by (apply N.eqb_neq; lia).
    rewrite IHspell_run by (reflexivity || (cbn [length] in Hf; lia)). cbn [rev]. rewrite <- app_assoc. cbn [app].
    f_equal. f_equal. rewrite ?lenN_cons'. lia.
  - (* named escape *)
    cbn [str_loop]. rewrite N.eqb_refl, H.
    rewrite IHspell_run by (reflexivity || (cbn [length] in Hf; lia)). cbn [rev]. rewrite <- app_assoc. cbn [app].
    f_equal. f_equal. rewrite ?lenN_cons'. lia.
  - (* continuation: backslash LF *)
    cbn [str_loop]. rewrite N.eqb_refl. destruct escapes_table as (-> & _). rewrite N.eqb_refl.
    rewrite IHspell_run by (reflexivity || (cbn [length] in Hf; lia)).
    f_equal. f_equal. rewrite ?lenN_cons'. lia.
  - (* continuation: backslash CR, not followed by LF *)
    cbn [str_loop]. rewrite N.eqb_refl. destruct escapes_table as (_ & -> & _).
    change (CR =? LF) with false. rewrite N.eqb_refl.
    destruct (text ++ RPAREN :: closing') as [|x t3] eqn:E; [contradiction|]. cbn [next_not] in H. rewrite H.
    rewrite IHspell_run by (reflexivity || (cbn [length] in Hf; lia)).
    f_equal. f_equal. rewrite ?lenN_cons'. lia.
  - (* continuation: backslash CR LF *)
    cbn [str_loop]. rewrite N.eqb_refl. destruct escapes_table as (_ & -> & _).
    change (CR =? LF) with false. rewrite !N.eqb_refl.
    rewrite IHspell_run by (reflexivity || (cbn [length] in Hf; lia)).
    f_equal. f_equal. rewrite ?lenN_cons'. lia.
  - (* one octal digit *)
    destruct (octal_facts _ H) as (Ha & Hl & Hc & _). cbn [str_loop]. rewrite N.eqb_refl, Ha, Hl, Hc.
    destruct escapes_table as (_ & _ & _ & _ & _ & _ & ->). change (N.to_nat 3) with 3%nat.
    rewrite (octal_step _ _ _ _ _ H). rewrite (octal_stop _ _ _ _ H0).
    change (0 + 1 =? 0) with false. cbv iota.
    rewrite IHspell_run by (reflexivity || (cbn [length] in Hf; lia)). cbn [rev]. rewrite <- app_assoc. cbn [app].
    unfold str_octal_base, str_octal_lo. f_equal. f_equal.
    all: try (rewrite ?lenN_cons'; lia).
    all: repeat f_equal; lia.
  - (* two octal digits *)
    destruct (octal_facts _ H) as (Ha & Hl & Hc & _). cbn [str_loop]. rewrite N.eqb_refl, Ha, Hl, Hc.
    destruct escapes_table as (_ & _ & _ & _ & _ & _ & ->). change (N.to_nat 3) with 3%nat.
    rewrite (octal_step _ _ _ _ _ H), (octal_step _ _ _ _ _ H0). rewrite (octal_stop _ _ _ _ H1).
    change (0 + 1 + 1 =? 0) with false. cbv iota.
    rewrite IHspell_run by (reflexivity || (cbn [length] in Hf; lia)). cbn [rev]. rewrite <- app_assoc. cbn [app].
    unfold str_octal_base, str_octal_lo. f_equal. f_equal.
    all: try (rewrite ?lenN_cons'; lia).
    all: repeat f_equal; lia.
  - (* three octal digits *)
    destruct (octal_facts _ H) as (Ha & Hl & Hc & _). cbn [str_loop]. rewrite N.eqb_refl, Ha, Hl, Hc.
    destruct escapes_table as (_ & _ & _ & _ & _ & _ & ->). change (N.to_nat 3) with 3%nat.
    rewrite (octal_step _ _ _ _ _ H), (octal_step _ _ _ _ _ H0), (octal_step _ _ _ _ _ H1). cbn [octal].
    change (0 + 1 + 1 + 1 =? 0) with false. cbv iota.
    rewrite IHspell_run by (reflexivity || (cbn [length] in Hf; lia)). cbn [rev]. rewrite <- app_assoc. cbn [app].
    unfold str_octal_base, str_octal_lo. f_equal. f_equal.
    all: try (rewrite ?lenN_cons'; lia).
    all: repeat f_equal; lia.
  - (* backslash before a character that starts no escape: ignored *)
    destruct (special_split _ H3) as (S1 & S2 & S3 & S4).
    cbn [str_loop]. rewrite N.eqb_refl, H, H0, H1.
    destruct escapes_table as (_ & _ & _ & _ & _ & _ & ->). change (N.to_nat 3) with 3%nat.
    rewrite octal_stop by (cbn [next_not]; exact H2). rewrite N.eqb_refl.
    destruct f as [|f']; [cbn [length] in Hf; lia|].
    cbn [str_loop]. rewrite S1, S2, S3, S4.
    rewrite IHspell_run by (reflexivity || (cbn [length] in Hf; lia)). cbn [rev]. rewrite <- app_assoc. cbn [app].
    f_equal. f_equal. rewrite ?lenN_cons'. lia.
  - (* raw CR = end-of-line = LF *)
    cbn [str_loop]. change (CR =? BACKSLASH) with false. change (CR =? LPAREN) with false. change (CR =? RPAREN) with false.
    rewrite N.eqb_refl. destruct (text ++ RPAREN :: closing') as [|x t3] eqn:E; [contradiction|]. cbn [next_not] in H. rewrite H.
    rewrite IHspell_run by (reflexivity || (cbn [length] in Hf; lia)). cbn [rev]. rewrite <- app_assoc. cbn [app].
    f_equal. f_equal. rewrite ?lenN_cons'. lia.
  - (* raw CR LF *)
    cbn [str_loop]. change (CR =? BACKSLASH) with false. change (CR =? LPAREN) with false. change (CR =? RPAREN) with false.
    rewrite !N.eqb_refl.
    rewrite IHspell_run by (reflexivity || (cbn [length] in Hf; lia)). cbn [rev]. rewrite <- app_assoc. cbn [app].
    f_equal. f_equal. rewrite ?lenN_cons'. lia.
Qed.

(** the whole literal string: the text between the parentheses, the closing parenthesis, then anything *)
Theorem string_lex_spelled out text rest :
  spell_run (RPAREN :: rest) 0 out text 0 ->
  string_lex (text ++ RPAREN :: rest) = Ok (out, lenN (text ++ [RPAREN])).
Proof.
  intros H. unfold string_lex.
  rewrite (string_run rest 0 out text H) by (rewrite app_length; cbn [length]; lia).
  cbn [rev app]. f_equal. f_equal. unfold lenN. rewrite app_length. cbn [length]. lia.
Qed.

(* ------------------------------------------------------------------ hexadecimal strings *)
(* table facts *)
Lemma hexstr_table :
  hexstr_end = 62 /\ memN hexstr_end hexstr_ws = false /\ hex_digit hexstr_end = None /\
  forallb (fun c => match hex_digit c with
                    | Some v => negb (memN c hexstr_ws) && (v <? 16)
                    | None => true end) all_bytes = true /\
  forallb (fun w => match hex_digit w with None => true | Some _ => false end) hexstr_ws = true.
Proof. repeat split; vm_compute; reflexivity. Qed.

Definition iso_hex_ws : list N := [0; 9; 10; 12; 13; 32].
Lemma hexstr_ws_iso : forallb (fun w => memN w hexstr_ws) iso_hex_ws = true.
Proof. vm_compute. reflexivity. Qed.

Definition hws (w : N) : Prop := memN w hexstr_ws = true.

Lemma hex_digit_facts c v : c < 256 -> hex_digit c = Some v -> memN c hexstr_ws = false /\ v < 16.
Proof.
  intros Hc Hd. destruct hexstr_table as (_ & _ & _ & T & _).
  pose proof (forall_bytes _ T c Hc) as H. cbv beta in H. rewrite Hd in H.
  apply andb_true_iff in H. destruct H as [H1 H2]. apply negb_true_iff in H1. apply N.ltb_lt in H2. tauto.
Qed.

Lemma hex_next_ws ws c t off : Forall hws ws -> memN c hexstr_ws = false ->
  hex_next off (ws ++ c :: t) = Some (c, off + lenN ws + 1, t).
Proof.
  intros Hw Hc. revert off. induction Hw as [|w ws Hw1 Hw IH]; intros off; cbn [app hex_next].
  - rewrite Hc. f_equal. f_equal. f_equal. change (lenN (@nil N)) with 0. lia.
  - unfold hws in Hw1. rewrite Hw1, IH. f_equal. f_equal. f_equal. rewrite lenN_cons'. lia.
Qed.

(* [hex_run out text]: the text between `<` and `>` *)
Inductive hex_run : bytes -> bytes -> Prop :=
| hx_nil ws : Forall hws ws -> hex_run [] ws
| hx_byte ws1 c1 ws2 c2 h l out text :
    Forall hws ws1 -> Forall hws ws2 -> c1 < 256 -> c2 < 256 -> hex_digit c1 = Some h -> hex_digit c2 = Some l ->
    hex_run out text -> hex_run (h * 16 + l :: out) (ws1 ++ c1 :: ws2 ++ c2 :: text)
| hx_odd ws1 c1 ws2 h :          (* an odd number of digits: the final digit is assumed to be 0 *)
    Forall hws ws1 -> Forall hws ws2 -> c1 < 256 -> hex_digit c1 = Some h ->
    hex_run [h * 16] (ws1 ++ c1 :: ws2).

Theorem hex_run_lex out text : hex_run out text ->
  forall rest fuel off acc, (length text < fuel)%nat ->
    hex_loop fuel off (text ++ hexstr_end :: rest) acc = Ok (rev acc ++ out, off + lenN text + 1).
Proof.
  destruct hexstr_table as (Eend & Hendws & Henddig & _ & _).
  induction 1 as [ws Hws|ws1 c1 ws2 c2 h l out text Hw1 Hw2 Hc1 Hc2 Hd1 Hd2 Hr IH|ws1 c1 ws2 h Hw1 Hw2 Hc1 Hd1];
    intros rest fuel off acc Hf; (destruct fuel as [|f]; [lia|]); cbn [hex_loop].
  - rewrite (hex_next_ws _ _ _ _ Hws Hendws). rewrite Henddig, N.eqb_refl. rewrite app_nil_r. reflexivity.
  - destruct (hex_digit_facts _ _ Hc1 Hd1) as [Hn1 Hv1]. destruct (hex_digit_facts _ _ Hc2 Hd2) as [Hn2 Hv2].
    rewrite <- app_assoc. cbn [app]. rewrite (hex_next_ws _ _ _ _ Hw1 Hn1), Hd1.
    rewrite <- app_assoc. cbn [app]. rewrite (hex_next_ws _ _ _ _ Hw2 Hn2), Hd2.
    rewrite IH.
    2:{ rewrite !app_length in Hf. cbn [length] in Hf. rewrite !app_length in Hf. cbn [length] in Hf. lia. }
    cbn [rev]. rewrite <- app_assoc. cbn [app]. rewrite (N.mod_small (h * 16 + l) 256) by lia.
    f_equal. f_equal. rewrite !lenN_app', !lenN_cons', lenN_app', lenN_cons'. lia.
  - destruct (hex_digit_facts _ _ Hc1 Hd1) as [Hn1 Hv1].
    rewrite <- app_assoc. cbn [app]. rewrite (hex_next_ws _ _ _ _ Hw1 Hn1), Hd1.
    rewrite (hex_next_ws _ _ _ _ Hw2 Hendws), Henddig, N.eqb_refl.
    destruct f as [|f']; [rewrite app_length in Hf; cbn [length] in Hf; lia|].
    cbn [hex_loop hex_next]. rewrite Hendws, Henddig, N.eqb_refl.
    cbn [rev]. rewrite (N.mod_small (h * 16) 256) by lia.
    f_equal. f_equal. rewrite lenN_app', lenN_cons'. lia.
Qed.

Theorem hexstring_lex_spelled out text rest : hex_run out text ->
  hexstring_lex (text ++ hexstr_end :: rest) = Ok (out, lenN (text ++ [hexstr_end])).
Proof.
  intros H. unfold hexstring_lex. rewrite (hex_run_lex _ _ H) by (rewrite app_length; cbn [length]; lia).
  cbn [rev app]. f_equal. f_equal. rewrite lenN_app', lenN_cons'. change (lenN (@nil N)) with 0. lia.
Qed.
