(** Base/DecProofs.v — decimal printing (Rust `{}` on integers, modelled by dec_of_N / dec_of_Z) and decimal reading
    (str::parse, modelled by N_of_dec) are inverse. *)
From PdfV Require Import Base.Prelude.

Definition isdig (b : N) : bool := (48 <=? b) && (b <=? 57).

Lemma dec_acc_app a l1 l2 : dec_acc a (l1 ++ l2) = dec_acc (dec_acc a l1) l2.
Proof. revert a. induction l1 as [|c l1 IH]; intros a; cbn [app dec_acc]; [reflexivity|apply IH]. Qed.

Lemma isdig_digit d : d < 10 -> isdig (48 + d) = true.
Proof. intros H. unfold isdig. apply andb_true_iff. split; apply N.leb_le; lia. Qed.

Lemma dec_digits_spec fuel : forall n acc, n < 10 ^ N.of_nat fuel -> (0 < fuel)%nat ->
  exists ds, dec_digits fuel n acc = ds ++ acc /\ forallb isdig ds = true /\ ds <> [] /\
             forall a, dec_acc a ds = a * 10 ^ N.of_nat (length ds) + n.
Proof.
  induction fuel as [|f IH]; intros n acc Hn Hf; [lia|].
  cbn [dec_digits].
  pose proof (N.div_mod n 10 ltac:(lia)) as Hdm. pose proof (N.mod_lt n 10 ltac:(lia)) as Hm.
  destruct (N.eqb_spec (n / 10) 0) as [Hz|Hnz].
  - exists [48 + n mod 10]. split; [reflexivity|]. split.
    + cbn [forallb]. rewrite (isdig_digit _ Hm). reflexivity.
    + split; [discriminate|]. intros a. cbn [dec_acc length]. change (N.of_nat 1) with 1. rewrite N.pow_1_r. clear Hn IH. rewrite Hz in Hdm. lia.
  - assert (Hf' : (0 < f)%nat).
    { destruct f; [|lia]. change (N.of_nat 1) with 1 in Hn. rewrite N.pow_1_r in Hn.
      exfalso. apply Hnz. apply N.div_small. exact Hn. }
    assert (Hn' : n / 10 < 10 ^ N.of_nat f).
    { apply N.div_lt_upper_bound; [lia|]. replace (N.of_nat (S f)) with (N.succ (N.of_nat f)) in Hn by lia.
      rewrite N.pow_succ_r' in Hn. exact Hn. }
    destruct (IH (n / 10) ((48 + n mod 10) :: acc) Hn' Hf') as (ds & E & Hd & Hne & Hv).
    exists (ds ++ [48 + n mod 10]). split; [rewrite E, <- app_assoc; reflexivity|]. split.
    + rewrite forallb_app, Hd. cbn [forallb]. rewrite (isdig_digit _ Hm). reflexivity.
    + split; [destruct ds; discriminate|]. intros a. rewrite dec_acc_app, Hv. cbn [dec_acc].
      rewrite app_length. cbn [length]. replace (N.of_nat (length ds + 1)) with (N.succ (N.of_nat (length ds))) by lia.
      rewrite N.pow_succ_r'. clear Hn Hn' IH E Hv. set (P := 10 ^ N.of_nat (length ds)).
      set (q := n / 10) in *. set (r := n mod 10) in *. replace (48 + r - 48) with r by lia.
      rewrite Hdm. ring.
Qed.

Lemma lt_pow10_log2 n : n < 10 ^ N.of_nat (S (N.to_nat (N.log2 n))).
Proof.
  replace (N.of_nat (S (N.to_nat (N.log2 n)))) with (N.succ (N.log2 n)) by lia.
  destruct (N.eq_dec n 0) as [->|Hn]; [reflexivity|].
  pose proof (N.log2_spec n ltac:(lia)) as [_ H].
  eapply N.lt_le_trans; [exact H|]. apply N.pow_le_mono_l. lia.
Qed.

Theorem dec_of_N_spec n :
  forallb isdig (dec_of_N n) = true /\ dec_of_N n <> [] /\ N_of_dec (dec_of_N n) = n.
Proof.
  unfold dec_of_N.
  destruct (dec_digits_spec (S (N.to_nat (N.log2 n))) n [] (lt_pow10_log2 n) ltac:(lia)) as (ds & E & Hd & Hne & Hv).
  rewrite E, app_nil_r. split; [exact Hd|]. split; [exact Hne|]. unfold N_of_dec. rewrite Hv. lia.
Qed.
