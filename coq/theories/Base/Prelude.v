(** Base/Prelude.v — shared conventions for every model (DESIGN.md §4).

    bytes are [N] (< 256 under [wf_bytes]); Rust panics are explicit outcomes
    ([Panic site]); recursion that is not structural takes fuel and returns
    [OutOfFuel] when it runs out (excluded by the theorems' statements). *)
From Coq Require Export List NArith ZArith Bool Lia.
Export ListNotations.
Open Scope N_scope.

Global Arguments N.add : simpl never.
Global Arguments N.sub : simpl never.
Global Arguments N.mul : simpl never.
Global Arguments N.div : simpl never.
Global Arguments N.modulo : simpl never.
Global Arguments N.eqb : simpl never.
Global Arguments N.ltb : simpl never.
Global Arguments N.leb : simpl never.
Global Arguments N.pow : simpl never.
Global Arguments Z.add : simpl never.
Global Arguments Z.sub : simpl never.
Global Arguments Z.mul : simpl never.
Global Arguments Z.div : simpl never.
Global Arguments Z.modulo : simpl never.
Global Arguments Z.eqb : simpl never.
Global Arguments Z.ltb : simpl never.
Global Arguments Z.leb : simpl never.

Definition byte := N.
Definition bytes := list N.

Definition wf_byte (b : N) : Prop := b < 256.
Definition wf_bytes (l : bytes) : Prop := Forall wf_byte l.

(** Outcome of a modelled Rust computation. *)
Inductive res (A : Type) : Type :=
| Ok (a : A)
| Err (e : N)          (* Result::Err, coarse kind *)
| Panic (site : N)     (* a Rust panic at a numbered site *)
| OutOfFuel.           (* model artefact; never an implementation outcome *)
Arguments Ok {A} a.
Arguments Err {A} e.
Arguments Panic {A} site.
Arguments OutOfFuel {A}.

Definition bind {A B} (r : res A) (f : A -> res B) : res B :=
  match r with
  | Ok a => f a
  | Err e => Err e
  | Panic s => Panic s
  | OutOfFuel => OutOfFuel
  end.
Notation "'do' x <- r ; k" := (bind r (fun x => k))
  (at level 200, x pattern, r at level 100, k at level 200, right associativity).

Definition rmap {A B} (f : A -> B) (r : res A) : res B :=
  match r with Ok a => Ok (f a) | Err e => Err e | Panic s => Panic s | OutOfFuel => OutOfFuel end.

Definition no_panic {A} (r : res A) : Prop :=
  match r with Panic _ => False | OutOfFuel => False | _ => True end.

Definition is_ok {A} (r : res A) : bool := match r with Ok _ => true | _ => false end.

(** membership in a byte table *)
Definition memN (x : N) (l : list N) : bool := existsb (N.eqb x) l.

Lemma memN_In x l : memN x l = true <-> In x l.
Proof.
  unfold memN. rewrite existsb_exists. split.
  - intros [y [Hy He]]. apply N.eqb_eq in He. subst. exact Hy.
  - intros H. exists x. split; [exact H|apply N.eqb_refl].
Qed.

(** ranges [lo, hi] given as pairs *)
Definition in_range (x : N) (r : N * N) : bool := (fst r <=? x) && (x <=? snd r).

(** [seqN a n] = [a; a+1; …; a+n-1] *)
Fixpoint seqN (a : N) (n : nat) : list N :=
  match n with O => [] | S k => a :: seqN (a + 1) k end.

Lemma seqN_In a n x : In x (seqN a n) <-> a <= x < a + N.of_nat n.
Proof.
  revert a. induction n as [|n IH]; intros a; cbn [seqN In].
  - lia.
  - rewrite IH. lia.
Qed.

Definition all_bytes : list N := seqN 0 256.

Lemma all_bytes_spec b : b < 256 <-> In b all_bytes.
Proof. unfold all_bytes. rewrite seqN_In. cbn. lia. Qed.

(** lift a computed sweep over all byte values to a universally quantified fact *)
Lemma forall_bytes (P : N -> bool) :
  forallb P all_bytes = true -> forall b, b < 256 -> P b = true.
Proof.
  intros H b Hb. rewrite forallb_forall in H. apply H. apply all_bytes_spec. exact Hb.
Qed.

Lemma wf_bytes_app a b : wf_bytes (a ++ b) <-> wf_bytes a /\ wf_bytes b.
Proof. unfold wf_bytes. apply Forall_app. Qed.

Lemma wf_bytes_cons a l : wf_bytes (a :: l) <-> a < 256 /\ wf_bytes l.
Proof. unfold wf_bytes, wf_byte. split; intros H; [inversion H; auto|constructor; tauto]. Qed.

(** decimal numbers carried in harness fields *)
Fixpoint dec_acc (acc : N) (l : bytes) : N :=
  match l with
  | [] => acc
  | c :: t => dec_acc (acc * 10 + (c - 48)) t
  end.
Definition N_of_dec (l : bytes) : N := dec_acc 0 l.

(** signed: leading '-' (45) *)
Definition Z_of_dec (l : bytes) : Z :=
  match l with
  | c :: t => if c =? 45 then Z.opp (Z.of_N (N_of_dec t)) else Z.of_N (N_of_dec l)
  | [] => 0%Z
  end.

Fixpoint dec_digits (fuel : nat) (n : N) (acc : bytes) : bytes :=
  match fuel with
  | O => acc
  | S f => let acc' := (48 + n mod 10) :: acc in
           if n / 10 =? 0 then acc' else dec_digits f (n / 10) acc'
  end.
Definition dec_of_N (n : N) : bytes := dec_digits (S (N.to_nat (N.log2 n))) n [].
Definition dec_of_Z (z : Z) : bytes :=
  if (z <? 0)%Z then 45 :: dec_of_N (Z.to_N (Z.opp z)) else dec_of_N (Z.to_N z).

(* list helpers with Rust slice semantics *)
Definition take {A} (n : N) (l : list A) : list A := firstn (N.to_nat n) l.
Definition drop {A} (n : N) (l : list A) : list A := skipn (N.to_nat n) l.
Definition lenN {A} (l : list A) : N := N.of_nat (length l).
Definition nthN {A} (l : list A) (i : N) : option A := nth_error l (N.to_nat i).

Fixpoint repeatN {A} (x : A) (n : nat) : list A :=
  match n with O => [] | S k => x :: repeatN x k end.
