(** Crypt/Model.v — executable model of pdf/src/crypt.rs (CryptDict, Decoder::{from_password, revision_6_kdf,
    key, decrypt}), of the decoder installation in pdf/src/file.rs (load_storage_and_trailer_password), of
    Storage::decode (decrypt before filters) and of the string decryption call site of the parser.

    External crates are Section oracles with result type [res] so that the runner can answer from a table and
    report a miss (Err 99); the theorems instantiate them with total functions.  RC4 is the concrete model of
    Crypt/Rc4.v; PKCS#7 unpadding (block-padding 0.3.3, strict) is modelled concretely.  No proofs here. *)
From PdfV Require Import Base.Prelude Gen.Generated Crypt.Rc4.

(* error kinds compared with the implementation *)
Definition E_INVALID_PASSWORD : N := 1.   (* PdfError::InvalidPassword *)
Definition E_MISSING : N := 2.            (* PdfError::MissingEntry *)
Definition E_DECRYPT : N := 3.            (* PdfError::DecryptionFailure *)
Definition E_OTHER : N := 9.              (* PdfError::Other / NoneError *)

(* crypt.rs: enum CryptMethod *)
Inductive method := MNone | MV2 | MAESV2 | MAESV3.

(* crypt.rs: struct CryptFilter (CFM, Length) *)
Record crypt_filter := { cf_method : method; cf_length : option N }.

(* crypt.rs: struct CryptDict, after the derive has read it *)
Record crypt_dict := {
  d_o : bytes; d_u : bytes; d_r : N; d_p : Z; d_v : Z; d_bits : N;
  d_cf : list (bytes * crypt_filter); d_stmf : option bytes; d_strf : option bytes; d_em : bool;
  d_oe : option bytes; d_ue : option bytes }.

Definition oref := option (N * N).     (* Option<PlainRef> *)

(* crypt.rs: struct Decoder *)
Record decoder := {
  k_size : N; k_key : bytes; k_method : method; k_smethod : method;
  k_enc_obj : oref; k_meta_obj : oref; k_em : bool }.

(* crypt.rs: Decoder::with_methods — [m] for streams (/StmF), [ms] for strings (/StrF) *)
Definition decoder_with (key : bytes) (key_size : N) (m ms : method) (em : bool) : decoder :=
  {| k_size := key_size; k_key := key; k_method := m; k_smethod := ms; k_enc_obj := None; k_meta_obj := None; k_em := em |}.

(* crypt.rs: Decoder::new *)
Definition decoder_new (key : bytes) (key_size : N) (m : method) (em : bool) : decoder := decoder_with key key_size m m em.

Definition identity_name : bytes := [73; 100; 101; 110; 116; 105; 116; 121].     (* "Identity" *)

Fixpoint bytes_eqb (a b : bytes) : bool :=
  match a, b with
  | [], [] => true
  | x :: a', y :: b' => (x =? y) && bytes_eqb a' b'
  | _, _ => false
  end.

Definition oref_is (o : oref) (id gen : N) : bool :=
  match o with Some (i, g) => (i =? id) && (g =? gen) | None => false end.

(* x.to_le_bytes()[..n] *)
Fixpoint le_bytes (n : nat) (x : N) : bytes :=
  match n with O => [] | S k => (x mod 256) :: le_bytes k (x / 256) end.
(* i32::to_le_bytes *)
Definition i32_le (p : Z) : bytes := le_bytes 4 (Z.to_N (p mod 4294967296)).

Definition xor_key (key : bytes) (i : N) : bytes := map (fun b => N.lxor b i) key.

Definition sumN (l : bytes) : N := fold_left N.add l 0.
Definition rep64 (u : bytes) : bytes := concat (repeat u 64).
Definition zero_iv : bytes := repeatN 0 16.
Definition salt_tag : bytes := [115; 65; 108; 84].     (* b"sAlT" *)

(* block-padding 0.3.3: Pkcs7::unpad (strict) through Padding::unpad_blocks (PadType::Reversible) *)
Definition pkcs7_unpad (p : bytes) : option bytes :=
  match rev p with
  | [] => None
  | n :: _ =>
      if (n =? 0) || (16 <? n) then None
      else let s := lenN p - n in
           if forallb (N.eqb n) (drop s p) then Some (take s p) else None
  end.

Section Oracles.
  Variable md5 : bytes -> res bytes.                       (* md5 0.7: compute / Context *)
  Variable sha256 sha384 sha512 : bytes -> res bytes.      (* sha2 0.10 *)
  Variable aes_enc : bytes -> bytes -> bytes -> res bytes. (* cbc::Encryptor<Aes128>, NoPadding: key iv data *)
  Variable aes_dec : bytes -> bytes -> bytes -> res bytes. (* cbc::Decryptor<Aes128|Aes256>, raw blocks: key iv data *)
  Variable prep : bytes -> res (option bytes).             (* String::from_utf8 then stringprep::saslprep; None = rejected *)

  (* the `if pass.len() < 32 {…} else {…}` prologue of both key derivations *)
  Definition pad_password (pass : bytes) : bytes :=
    if lenN pass <? 32 then pass ++ take (32 - lenN pass) PADDING else take 32 pass.

  (* from_password: fn compute_u_rev_2 *)
  Definition compute_u_rev_2 (key : bytes) : res bytes := rc4 key PADDING.

  (* `for i in a..` of Rc4::encrypt with key ^ i *)
  Fixpoint rc4_rounds (n : nat) (from : N) (key data : bytes) : res bytes :=
    match n with
    | O => Ok data
    | S n' => do d <- rc4 (xor_key key from) data; rc4_rounds n' (from + 1) key d
    end.

  (* from_password: fn compute_u_rev_3_4 *)
  Definition compute_u_rev_3_4 (id key : bytes) : res bytes :=
    do h <- md5 (PADDING ++ id);
    do d <- rc4 key h;
    rc4_rounds 19 1 key d.

  (* from_password: fn check_password_rc4 (check_password_rev_2 / check_password_rev_3_4) *)
  Definition check_password_rc4 (revision : N) (document_u id key : bytes) : res bool :=
    if revision =? 2 then do c <- compute_u_rev_2 key; Ok (bytes_eqb c document_u)
    else do c <- compute_u_rev_3_4 id key; Ok (bytes_eqb (take (lenN c) document_u) c).   (* starts_with *)

  Fixpoint md5_rounds (n : nat) (ks : N) (data : bytes) : res bytes :=
    match n with
    | O => Ok data
    | S n' => do d <- md5 (take (N.min ks 16) data); md5_rounds n' ks d
    end.

  (* from_password: fn key_derivation_user_password_rc4 *)
  Definition kd_user (revision key_size : N) (d : crypt_dict) (id pass : bytes) : res bytes :=
    do data <- md5 (pad_password pass ++ d_o d ++ i32_le (d_p d) ++ id
                    ++ (if (4 <=? revision) && negb (d_em d) then [255; 255; 255; 255] else []));
    do data <- (if 3 <=? revision then md5_rounds 50 key_size data else Ok data);
    Ok (data ++ repeatN 0 (N.to_nat (N.max key_size 16 - 16))).

  Fixpoint md5_iter (n : nat) (h : bytes) : res bytes :=
    match n with O => Ok h | S n' => do h' <- md5 h; md5_iter n' h' end.

  (* from_password: fn key_derivation_owner_password_rc4 *)
  Definition kd_owner (revision key_size : N) (pass : bytes) : res bytes :=
    if 16 <? key_size then Err E_OTHER else
    do h <- md5 (pad_password pass);
    do h <- (if 3 <=? revision then md5_iter 50 h else Ok h);
    Ok (take key_size h).

  Fixpoint cf_lookup (name : bytes) (cf : list (bytes * crypt_filter)) : option crypt_filter :=
    match cf with
    | [] => None
    | (n, f) :: t => if bytes_eqb n name then Some f else cf_lookup name t
    end.

  (* from_password: fn crypt_filter — the filter named by /StmF resp. /StrF: the key length it states and its method;
     an absent entry and the name Identity are the Identity filter (CryptMethod::None) *)
  Definition crypt_filter_of (d : crypt_dict) (name : option bytes) : res (option N * method) :=
    match name with
    | None => Ok (None, MNone)
    | Some nm =>
        if bytes_eqb nm identity_name then Ok (None, MNone) else
        match cf_lookup nm (d_cf d) with
        | None => Err E_OTHER
        | Some f =>
            do bits <- match cf_length f with
                       | Some n => if 8 * n <? 4294967296 then Ok (8 * n) else Err E_OTHER   (* checked_mul *)
                       | None => Ok (d_bits d)
                       end;
            match cf_method f with
            | MV2 => Ok (Some bits, MV2)
            | MAESV2 => Ok (Some bits, MAESV2)
            | MAESV3 => if (d_v d =? 5)%Z then Ok (Some bits, MAESV3) else Err E_OTHER
            | MNone => Err E_OTHER
            end
        end
    end.

  (* from_password: `let (key_bits, method, string_method) = match dict.v { … }` *)
  Definition crypt_method (d : crypt_dict) : res (N * method * method) :=
    if (d_v d =? 1)%Z then Ok (40, MV2, MV2)
    else if (d_v d =? 2)%Z then
      (if d_bits d mod 8 =? 0 then Ok (d_bits d, MV2, MV2) else Err E_OTHER)
    else if (4 <=? d_v d)%Z && (d_v d <=? 6)%Z then
      do a <- crypt_filter_of d (d_stmf d);
      do b <- crypt_filter_of d (d_strf d);
      Ok (match fst a with                                   (* stream_bits.or(string_bits).unwrap_or(dict.bits) *)
          | Some x => x
          | None => match fst b with Some y => y | None => d_bits d end
          end, snd a, snd b)
    else Err E_OTHER.

  (* Decoder::revision_6_kdf: the `while` loop; [last] is data[data_total_len - 1] *)
  Fixpoint kdf_loop (fuel : nat) (i : N) (password u block key iv : bytes) (last_e : N) : res bytes :=
    if (i <? 64) || (i <? last_e + 32) then
      match fuel with
      | O => OutOfFuel
      | S f =>
          do e <- aes_enc key iv (rep64 (password ++ block ++ u));
          let bs := (sumN (take 16 e) mod 3) * 16 + 32 in
          do block' <- (if bs =? 32 then sha256 e else if bs =? 48 then sha384 e else sha512 e);
          kdf_loop f (i + 1) password u block' (take 16 block') (take 16 (drop 16 block')) (last e 0)
      end
    else Ok (take 32 block).

  (* Decoder::revision_6_kdf *)
  Definition revision_6_kdf (fuel : nat) (password salt u : bytes) : res bytes :=
    do input <- sha256 (password ++ salt ++ u);
    kdf_loop fuel 0 password u input (take 16 input) (drop 16 input) 0.

  (* the level 5 hashes *)
  Definition r5_hash (password salt u : bytes) : res bytes := sha256 (password ++ salt ++ u).

  (* from_password, `level == 5 || level == 6` *)
  Definition from_password_56 (fuel : nat) (level : N) (m ms : method) (d : crypt_dict) (pass : bytes) : res decoder :=
    let u := d_u d in
    if negb (lenN u =? 48) then Err E_OTHER else
    let o := d_o d in
    if negb (lenN o =? 48) then Err E_OTHER else
    do pp <- prep pass;
    match pp with
    | None => Err E_INVALID_PASSWORD
    | Some prepped =>
        let pw := if 127 <? lenN prepped then take 127 prepped else prepped in
        match d_ue d with
        | None => Err E_MISSING
        | Some ue =>
            match d_oe d with
            | None => Err E_MISSING
            | Some oe =>
                let H := fun salt uu => if level =? 6 then revision_6_kdf fuel pw salt uu else r5_hash pw salt uu in
                do uh <- H (take 8 (drop 32 u)) [];
                do kw <- (if bytes_eqb uh (take 32 u)
                          then do ik <- H (take 8 (drop 40 u)) []; Ok (ik, ue)
                          else do oh <- H (take 8 (drop 32 o)) u;
                               if bytes_eqb oh (take 32 o)
                               then do ik <- H (take 8 (drop 40 o)) u; Ok (ik, oe)
                               else Err E_INVALID_PASSWORD);
                let '(ik, wrapped) := kw in
                if negb (lenN wrapped mod 16 =? 0) then Err E_INVALID_PASSWORD      (* UnpadError *)
                else do key <- aes_dec ik zero_iv wrapped;
                     if negb (lenN key =? 32) then Err E_OTHER            (* Algorithm 2.A: the 32-byte file key *)
                     else Ok (decoder_with key 32 m ms (d_em d || (d_v d <? 4)%Z))
            end
        end
    end.

  (* from_password, `level <= 4` *)
  Definition from_password_rc4 (level : N) (key_bits : N) (m ms : method) (d : crypt_dict) (id pass : bytes) : res decoder :=
    let key_size := key_bits / 8 in
    if key_size =? 0 then Err E_OTHER else
    let em := d_em d || (d_v d <? 4)%Z in
    do key <- kd_user level key_size d id pass;
    do okk <- check_password_rc4 level (d_u d) id (take (N.min key_size 16) key);
    if (okk : bool) then Ok (decoder_with key key_size m ms em)
    else
      do wrap <- kd_owner level key_size pass;
      do upw <- rc4_rounds (if level =? 2 then 1 else 20) 0 wrap (d_o d);
      do key <- kd_user level key_size d id upw;
      do okk <- check_password_rc4 level (d_u d) id (take key_size key);
      if (okk : bool) then Ok (decoder_with key key_size m ms em) else Err E_INVALID_PASSWORD.

  (* crypt.rs: Decoder::from_password *)
  Definition from_password (fuel : nat) (d : crypt_dict) (id pass : bytes) : res decoder :=
    do km <- crypt_method d;
    let '(key_bits, m, ms) := km in
    let level := d_r d in
    if negb ((2 <=? level) && (level <=? 6)) then Err E_OTHER
    else if level <=? 4 then from_password_rc4 level key_bits m ms d id pass
    else from_password_56 fuel level m ms d pass.

  (* crypt.rs: Decoder::key — `&self.key[.. min(self.key_size, 16)]` *)
  Definition dkey (dc : decoder) : res bytes :=
    let n := N.min (k_size dc) 16 in
    if lenN (k_key dc) <? n then Panic 603 else Ok (take n (k_key dc)).

  (* cipher 0.4.4 decrypt_padded_mut::<Pkcs7> after new_from_slices *)
  Definition aes_unpad (keylen : N) (key iv ct : bytes) : res bytes :=
    if negb (lenN key =? keylen) then Err E_DECRYPT               (* InvalidLength *)
    else if negb (lenN ct mod 16 =? 0) then Err E_DECRYPT
    else do p <- aes_dec key iv ct;
         match pkcs7_unpad p with Some x => Ok x | None => Err E_DECRYPT end.

  (* crypt.rs: Decoder::decrypt_with *)
  Definition decrypt_with (m : method) (dc : decoder) (id gen : N) (data : bytes) : res bytes :=
    if oref_is (k_enc_obj dc) id gen then Ok data
    else if negb (k_em dc) && oref_is (k_meta_obj dc) id gen then Ok data
    else if lenN data =? 0 then Ok data
    else match m with
         | MNone => Ok data                                         (* the Identity crypt filter *)
         | MV2 =>
             do k <- dkey dc;
             let n := lenN k in
             do ok <- md5 (k ++ le_bytes 3 id ++ le_bytes 2 gen);
             rc4 (take (N.min (n + 5) 16) ok) data
         | MAESV2 =>
             let n := N.min (k_size dc) 16 in
             do k <- dkey dc;
             do ok <- md5 (k ++ le_bytes 3 id ++ le_bytes 2 gen ++ salt_tag);
             if lenN data <? 16 then Err E_DECRYPT
             else aes_unpad 16 (take (N.min (n + 5) 16) ok) (take 16 data) (drop 16 data)
         | MAESV3 =>
             if lenN data <? 16 then Err E_DECRYPT
             else aes_unpad 32 (k_key dc) (take 16 data) (drop 16 data)
         end.

  (* crypt.rs: Decoder::decrypt — the data of a stream (/StmF) *)
  Definition decrypt (dc : decoder) (id gen : N) (data : bytes) : res bytes := decrypt_with (k_method dc) dc id gen data.

  (* crypt.rs: Decoder::decrypt_string — a string (/StrF) *)
  Definition decrypt_string (dc : decoder) (id gen : N) (data : bytes) : res bytes := decrypt_with (k_smethod dc) dc id gen data.

  (* file.rs: load_storage_and_trailer_password — the two assignments after from_password.
     [encrypt_ref]: Some r iff the trailer's /Encrypt is `Primitive::Reference(r)`;
     [metadata_ref]: Some m iff /Root is a reference and the catalog's /Metadata is a reference. *)
  Definition install (dc : decoder) (encrypt_ref metadata_ref : oref) : decoder :=
    {| k_size := k_size dc; k_key := k_key dc; k_method := k_method dc; k_smethod := k_smethod dc;
       k_enc_obj := encrypt_ref; k_meta_obj := metadata_ref; k_em := k_em dc |}.

  Definition load_decoder (fuel : nat) (d : crypt_dict) (id0 pass : bytes) (encrypt_ref metadata_ref : oref) : res decoder :=
    do dc <- from_password fuel d id0 pass; Ok (install dc encrypt_ref metadata_ref).

  (* parser/mod.rs: Context::decrypt — every string of an indirect object, with that object's id, through Decoder::decrypt_string *)
  Definition ctx_decrypt (dc : option decoder) (id gen : N) (s : bytes) : res bytes :=
    match dc with Some k => decrypt_string k id gen s | None => Ok s end.

  (* file.rs: Storage::decode — Decoder::decrypt (the stream method), then the filters in order *)
  Definition storage_decode (filters : bytes -> res bytes) (dc : option decoder) (id gen : N) (raw : bytes) : res bytes :=
    do x <- (match dc with Some k => decrypt k id gen raw | None => Ok raw end); filters x.
End Oracles.
