(** Crypt/Rc4Proofs.v — RC4 as implemented in crypt.rs is an involution for every key and message, and
    applications under different keys commute (both because the key stream does not depend on the data). *)
From PdfV Require Import Base.Prelude Crypt.Rc4.

Lemma rc4_go_invol st m : rc4_go st (rc4_go st m) = m.
Proof.
  revert st. induction m as [|b t IH]; intros st; cbn [rc4_go]; [reflexivity|].
  destruct (rc4_next st) as [x st'] eqn:E. cbn [rc4_go]. rewrite E.
  rewrite IH. f_equal. rewrite N.lxor_assoc, N.lxor_nilpotent, N.lxor_0_r. reflexivity.
Qed.

Lemma rc4_go_comm st1 st2 m : rc4_go st1 (rc4_go st2 m) = rc4_go st2 (rc4_go st1 m).
Proof.
  revert st1 st2. induction m as [|b t IH]; intros st1 st2; cbn [rc4_go]; [reflexivity|].
  destruct (rc4_next st1) as [x1 s1] eqn:E1. destruct (rc4_next st2) as [x2 s2] eqn:E2.
  cbn [rc4_go]. rewrite E1, E2. rewrite IH. f_equal.
  rewrite !N.lxor_assoc. f_equal. apply N.lxor_comm.
Qed.

Lemma rc4_go_length st m : length (rc4_go st m) = length m.
Proof.
  revert st. induction m as [|b t IH]; intros st; cbn [rc4_go]; [reflexivity|].
  destruct (rc4_next st) as [x st']. cbn [length]. rewrite IH. reflexivity.
Qed.

Lemma rc4_raw_invol k m : rc4_raw k (rc4_raw k m) = m.
Proof. unfold rc4_raw. apply rc4_go_invol. Qed.

Lemma rc4_raw_comm k1 k2 m : rc4_raw k1 (rc4_raw k2 m) = rc4_raw k2 (rc4_raw k1 m).
Proof. unfold rc4_raw. apply rc4_go_comm. Qed.

Lemma rc4_raw_length k m : length (rc4_raw k m) = length m.
Proof. unfold rc4_raw. apply rc4_go_length. Qed.

Lemma rc4_raw_nil k : rc4_raw k [] = [].
Proof. reflexivity. Qed.

(** the property as stated for the Rust function: every key of 1..256 bytes, every message *)
Theorem rc4_involution : forall k m, 1 <= lenN k <= 256 ->
  exists c, rc4 k m = Ok c /\ rc4 k c = Ok m /\ length c = length m.
Proof.
  intros k m [H1 H2]. unfold rc4, rc4_key_ok.
  replace (lenN k =? 0) with false by (symmetry; apply N.eqb_neq; lia).
  replace (lenN k <=? 256) with true by (symmetry; apply N.leb_le; lia).
  cbn [negb andb]. eexists. split; [reflexivity|]. split; [f_equal; apply rc4_raw_invol|apply rc4_raw_length].
Qed.

Theorem rc4_bad_key_panics : forall k m, lenN k = 0 \/ 256 < lenN k -> rc4 k m = Panic 601.
Proof.
  intros k m H. unfold rc4, rc4_key_ok. destruct H as [H|H].
  - rewrite H. reflexivity.
  - replace (lenN k <=? 256) with false by (symmetry; apply N.leb_gt; lia). rewrite andb_false_r. reflexivity.
Qed.

(** a list of RC4 passes under several keys: order is irrelevant and doing them twice is the identity *)
Definition rc4_passes (ks : list bytes) (x : bytes) : bytes := fold_left (fun acc k => rc4_raw k acc) ks x.

Lemma rc4_passes_push k ks x : rc4_raw k (rc4_passes ks x) = rc4_passes ks (rc4_raw k x).
Proof.
  revert x. induction ks as [|k' t IH]; intros x; cbn [rc4_passes fold_left]; [reflexivity|].
  fold (rc4_passes t (rc4_raw k' x)). rewrite IH. fold (rc4_passes t (rc4_raw k' (rc4_raw k x))).
  rewrite rc4_raw_comm. reflexivity.
Qed.

Lemma rc4_passes_twice ks x : rc4_passes ks (rc4_passes ks x) = x.
Proof.
  revert x. induction ks as [|k t IH]; intros x; [reflexivity|].
  change (rc4_passes (k :: t) (rc4_passes (k :: t) x)) with (rc4_passes t (rc4_raw k (rc4_passes t (rc4_raw k x)))).
  rewrite rc4_passes_push, IH. apply rc4_raw_invol.
Qed.

Lemma rc4_passes_app a b x : rc4_passes (a ++ b) x = rc4_passes b (rc4_passes a x).
Proof. unfold rc4_passes. apply fold_left_app. Qed.

Lemma rc4_passes_rev ks x : rc4_passes (rev ks) x = rc4_passes ks x.
Proof.
  revert x. induction ks as [|k t IH]; intros x; [reflexivity|].
  cbn [rev]. rewrite rc4_passes_app, IH.
  change (rc4_passes [k] (rc4_passes t x)) with (rc4_raw k (rc4_passes t x)).
  rewrite rc4_passes_push. reflexivity.
Qed.

Lemma rc4_passes_length ks x : length (rc4_passes ks x) = length x.
Proof.
  revert x. induction ks as [|k t IH]; intros x; [reflexivity|].
  change (rc4_passes (k :: t) x) with (rc4_passes t (rc4_raw k x)). rewrite IH. apply rc4_raw_length.
Qed.
