(** Crypt/SafeProofs.v — Decoder::from_password never panics, for any dictionary, document id and password, and the
    decoder it returns never makes Decoder::decrypt panic (the slice in Decoder::key, the assert! in Rc4::new).  The oracles are total functions; the one law used is that MD5 digests have
    16 bytes. *)
From PdfV Require Import Base.Prelude Gen.Generated Crypt.Rc4 Crypt.Rc4Proofs Crypt.Model Crypt.Spec Crypt.Tables Crypt.Proofs.

Lemma repeatN_lenN {A} (x : A) n : lenN (repeatN x n) = N.of_nat n.
Proof. unfold lenN. rewrite repeatN_length. reflexivity. Qed.

Section Safe.
  Variable MD5 SHA256 SHA384 SHA512 : bytes -> bytes.
  Variable AESE AESD : bytes -> bytes -> bytes -> bytes.
  Variable PREP : bytes -> option bytes.
  Hypothesis md5_len : forall x, length (MD5 x) = 16%nat.

  Let md5 := fun x : bytes => @Ok bytes (MD5 x).
  Let sha256 := fun x : bytes => @Ok bytes (SHA256 x).
  Let sha384 := fun x : bytes => @Ok bytes (SHA384 x).
  Let sha512 := fun x : bytes => @Ok bytes (SHA512 x).
  Let aes_enc := fun k iv x : bytes => @Ok bytes (AESE k iv x).
  Let aes_dec := fun k iv x : bytes => @Ok bytes (AESD k iv x).
  Let prep := fun x : bytes => @Ok (option bytes) (PREP x).

  Notation FP := (from_password md5 sha256 sha384 sha512 aes_enc aes_dec prep).

  (* what Decoder::decrypt needs of a decoder in order not to panic *)
  Definition dec_wf (dc : decoder) : Prop := N.min (k_size dc) 16 <= lenN (k_key dc).

  (* an outcome that is not a panic, and if it is a decoder, a well-formed one *)
  Definition safe_outcome (r : res decoder) : Prop :=
    (exists e, r = Err e) \/ r = OutOfFuel \/ (exists dc, r = Ok dc /\ dec_wf dc).

  Lemma kd_user_ok R n d id0 pw : exists k, kd_user md5 R n d id0 pw = Ok k /\ lenN k = N.max n 16.
  Proof.
    unfold kd_user. unfold md5 at 1. cbn [bind]. destruct (3 <=? R).
    - rewrite (md5_rounds_spec MD5). cbn [bind]. eexists. split; [reflexivity|].
      rewrite lenN_app, repeatN_lenN.
      rewrite (iterN_len 50 _ _ (fun x => md5_lenN MD5 md5_len _) (md5_lenN MD5 md5_len _)). lia.
    - cbn [bind]. eexists. split; [reflexivity|]. rewrite lenN_app, repeatN_lenN, (md5_lenN MD5 md5_len). lia.
  Qed.

  Lemma kd_owner_ok R n pw : 1 <= n ->
    (exists e, kd_owner md5 R n pw = Err e) \/ (n <= 16 /\ exists k, kd_owner md5 R n pw = Ok k /\ lenN k = n).
  Proof.
    intros Hn. unfold kd_owner. destruct (16 <? n) eqn:E; [left; eexists; reflexivity|]. apply N.ltb_ge in E.
    right. split; [exact E|]. unfold md5 at 1. cbn [bind]. destruct (3 <=? R).
    - rewrite (md5_iter_spec MD5). cbn [bind]. eexists. split; [reflexivity|]. apply lenN_take.
      rewrite (iterN_len 50 _ _ (md5_lenN MD5 md5_len) (md5_lenN MD5 md5_len _)). exact E.
    - cbn [bind]. eexists. split; [reflexivity|]. apply lenN_take. rewrite (md5_lenN MD5 md5_len). exact E.
  Qed.

  (* revisions 2-4 *)
  Lemma from_password_rc4_safe level bits m ms d id0 pass :
    safe_outcome (from_password_rc4 md5 level bits m ms d id0 pass).
  Proof.
    unfold from_password_rc4. set (n := bits / 8).
    destruct (n =? 0) eqn:E0; [left; eexists; reflexivity|]. apply N.eqb_neq in E0.
    destruct (kd_user_ok level n d id0 pass) as (k1 & Hk1 & Lk1). rewrite Hk1. cbn [bind].
    assert (Hkey : forall k : bytes, lenN k = N.max n 16 -> 1 <= lenN (take (N.min n 16) k) <= 256).
    { intros k Lk. rewrite lenN_take by lia. lia. }
    rewrite (check_password_spec MD5 md5_len) by (apply Hkey; exact Lk1). cbn [bind].
    assert (Hwf : forall k : bytes, lenN k = N.max n 16 -> safe_outcome (Ok (decoder_with k n m ms (d_em d || (d_v d <? 4)%Z)))).
    { intros k Lk. right. right. eexists. split; [reflexivity|]. unfold dec_wf.
      cbn [decoder_with k_size k_key]. lia. }
    destruct (u_matches MD5 level (take (N.min n 16) k1) (d_u d) id0); [apply Hwf; exact Lk1|].
    destruct (kd_owner_ok level n pass) as [[e He]|(Hn16 & w & Hw & Lw)]; [lia|rewrite He; left; eexists; reflexivity|].
    rewrite Hw. cbn [bind]. rewrite rc4_rounds_spec by lia. cbn [bind].
    match goal with |- context [kd_user md5 level n d id0 ?u] => destruct (kd_user_ok level n d id0 u) as (k2 & Hk2 & Lk2) end.
    rewrite Hk2. cbn [bind].
    rewrite (check_password_spec MD5 md5_len) by (rewrite lenN_take by lia; lia). cbn [bind].
    destruct (u_matches MD5 level (take n k2) (d_u d) id0); [apply Hwf; exact Lk2|left; eexists; reflexivity].
  Qed.

  (* the revision 6 hash: a value or fuel exhaustion *)
  Definition hash_safe (r : res bytes) : Prop := (exists h, r = Ok h) \/ r = OutOfFuel.

  Lemma kdf_loop_safe : forall fuel i pw u block key iv last_e,
    hash_safe (kdf_loop sha256 sha384 sha512 aes_enc fuel i pw u block key iv last_e).
  Proof.
    induction fuel as [|f IH]; intros i pw u block key iv last_e; cbn [kdf_loop].
    - destruct ((i <? 64) || (i <? last_e + 32)); [right; reflexivity|left; eexists; reflexivity].
    - destruct ((i <? 64) || (i <? last_e + 32)); [|left; eexists; reflexivity].
      unfold aes_enc at 1. cbn [bind].
      match goal with |- context [if ?a then sha256 ?e else if ?b then sha384 ?e else sha512 ?e] =>
        assert (Hb : exists b', (if a then sha256 e else if b then sha384 e else sha512 e) = Ok b')
          by (destruct a; [|destruct b]; eexists; reflexivity) end.
      destruct Hb as [b' Hb]. rewrite Hb. cbn [bind]. apply IH.
  Qed.

  Lemma code_hash_safe fuel level pw salt uu :
    hash_safe (if level =? 6 then revision_6_kdf sha256 sha384 sha512 aes_enc fuel pw salt uu else r5_hash sha256 pw salt uu).
  Proof.
    destruct (level =? 6).
    - unfold revision_6_kdf. unfold sha256 at 1. cbn [bind]. apply kdf_loop_safe.
    - left. eexists. reflexivity.
  Qed.

  (* revisions 5 and 6 *)
  Lemma from_password_56_safe fuel level m ms d pass :
    safe_outcome (from_password_56 sha256 sha384 sha512 aes_enc aes_dec prep fuel level m ms d pass).
  Proof.
    unfold from_password_56.
    destruct (negb (lenN (d_u d) =? 48)); [left; eexists; reflexivity|].
    destruct (negb (lenN (d_o d) =? 48)); [left; eexists; reflexivity|].
    unfold prep at 1. cbn [bind]. destruct (PREP pass) as [p|]; [|left; eexists; reflexivity].
    destruct (d_ue d) as [ue|]; [|left; eexists; reflexivity].
    destruct (d_oe d) as [oe|]; [|left; eexists; reflexivity].
    cbv beta zeta. set (pw := if 127 <? lenN p then take 127 p else p).
    assert (Hfin : forall ik wrapped,
      safe_outcome (if negb (lenN wrapped mod 16 =? 0) then Err E_INVALID_PASSWORD
                    else do key <- aes_dec ik zero_iv wrapped;
                         if negb (lenN key =? 32) then Err E_OTHER else Ok (decoder_with key 32 m ms (d_em d || (d_v d <? 4)%Z)))).
    { intros ik wrapped. destruct (negb (lenN wrapped mod 16 =? 0)); [left; eexists; reflexivity|].
      unfold aes_dec at 1. cbn [bind]. destruct (lenN (AESD ik zero_iv wrapped) =? 32) eqn:E; cbn [negb]; [|left; eexists; reflexivity].
      apply N.eqb_eq in E. right. right. eexists. split; [reflexivity|]. unfold dec_wf.
      cbn [decoder_with k_size k_key]. rewrite E. change (N.min 32 16) with 16. lia. }
    destruct (code_hash_safe fuel level pw (take 8 (drop 32 (d_u d))) []) as [[uh Huh]|Huh]; rewrite Huh; cbn [bind];
      [|right; left; reflexivity].
    destruct (bytes_eqb uh (take 32 (d_u d))).
    - destruct (code_hash_safe fuel level pw (take 8 (drop 40 (d_u d))) []) as [[ik Hik]|Hik]; rewrite Hik; cbn [bind];
        [apply Hfin|right; left; reflexivity].
    - destruct (code_hash_safe fuel level pw (take 8 (drop 32 (d_o d))) (d_u d)) as [[oh Hoh]|Hoh]; rewrite Hoh; cbn [bind];
        [|right; left; reflexivity].
      destruct (bytes_eqb oh (take 32 (d_o d))); [|left; eexists; reflexivity].
      destruct (code_hash_safe fuel level pw (take 8 (drop 40 (d_o d))) (d_u d)) as [[ik Hik]|Hik]; rewrite Hik; cbn [bind];
        [apply Hfin|right; left; reflexivity].
  Qed.

  Lemma crypt_filter_of_cases d name : (exists v, crypt_filter_of d name = Ok v) \/ (exists e, crypt_filter_of d name = Err e).
  Proof.
    unfold crypt_filter_of. destruct name as [nm|]; [|left; eexists; reflexivity].
    destruct (bytes_eqb nm identity_name); [left; eexists; reflexivity|].
    destruct (cf_lookup nm (d_cf d)) as [f|]; [|right; eexists; reflexivity].
    destruct (cf_length f) as [n|]; [destruct (8 * n <? 4294967296)|]; cbn [bind];
      try (right; eexists; reflexivity);
      (destruct (cf_method f); [right|left|left|destruct (d_v d =? 5)%Z; [left|right]]; eexists; reflexivity).
  Qed.

  Lemma crypt_method_cases d : (exists v, crypt_method d = Ok v) \/ (exists e, crypt_method d = Err e).
  Proof.
    unfold crypt_method. destruct (d_v d =? 1)%Z; [left; eexists; reflexivity|].
    destruct (d_v d =? 2)%Z; [destruct (d_bits d mod 8 =? 0); [left|right]; eexists; reflexivity|].
    destruct ((4 <=? d_v d)%Z && (d_v d <=? 6)%Z); [|right; eexists; reflexivity].
    destruct (crypt_filter_of_cases d (d_stmf d)) as [[a Ha]|[e He]]; [rewrite Ha|rewrite He; right; eexists; reflexivity].
    cbn [bind].
    destruct (crypt_filter_of_cases d (d_strf d)) as [[b Hb]|[e He]]; [rewrite Hb|rewrite He; right; eexists; reflexivity].
    cbn [bind]. left. eexists. reflexivity.
  Qed.

  (** Decoder::from_password ends in an error value, in fuel exhaustion of the model (the data-dependent loop of
      revision_6_kdf), or in a well-formed decoder — for every dictionary, document id, password and fuel *)
  Theorem from_password_safe : forall fuel d id0 pass, safe_outcome (FP fuel d id0 pass).
  Proof.
    intros fuel d id0 pass. unfold from_password.
    destruct (crypt_method_cases d) as [[[[bits m] ms] Hcm]|[e Hcm]]; rewrite Hcm; cbn [bind]; [|left; eexists; reflexivity].
    destruct (negb ((2 <=? d_r d) && (d_r d <=? 6))); [left; eexists; reflexivity|].
    destruct (d_r d <=? 4); [apply from_password_rc4_safe|apply from_password_56_safe].
  Qed.

  Theorem from_password_no_panic : forall fuel d id0 pass s, FP fuel d id0 pass <> Panic s.
  Proof.
    intros fuel d id0 pass s H. destruct (from_password_safe fuel d id0 pass) as [[e He]|[He|(dc & He & _)]];
      rewrite He in H; discriminate.
  Qed.

  Lemma install_wf dc enc meta : dec_wf dc -> dec_wf (install dc enc meta).
  Proof. unfold dec_wf, install. cbn [k_size k_key]. tauto. Qed.

  (** a well-formed decoder never makes Decoder::decrypt_with panic, whatever the method, object, generation and bytes *)
  Theorem decrypt_with_no_panic : forall m dc num gen data s, dec_wf dc -> decrypt_with md5 aes_dec m dc num gen data <> Panic s.
  Proof.
    intros m dc num gen data s Hk. unfold dec_wf in Hk. unfold decrypt_with.
    destruct (oref_is (k_enc_obj dc) num gen); [discriminate|].
    destruct (negb (k_em dc) && oref_is (k_meta_obj dc) num gen); [discriminate|].
    destruct (lenN data =? 0); [discriminate|].
    assert (Hdk : dkey dc = Ok (take (N.min (k_size dc) 16) (k_key dc))).
    { unfold dkey. replace (lenN (k_key dc) <? N.min (k_size dc) 16) with false by (symmetry; apply N.ltb_ge; exact Hk). reflexivity. }
    destruct m; [discriminate| | |].
    - rewrite Hdk. cbn [bind]. unfold md5 at 1. cbn [bind].
      rewrite rc4_ok; [discriminate|]. rewrite lenN_take by (rewrite (md5_lenN MD5 md5_len); lia). lia.
    - rewrite Hdk. cbn [bind]. unfold md5 at 1. cbn [bind].
      destruct (lenN data <? 16); [discriminate|]. unfold aes_unpad.
      repeat match goal with |- context [if ?c then _ else _] => destruct c end; try discriminate.
      unfold aes_dec at 1. cbn [bind]. destruct (pkcs7_unpad _); discriminate.
    - destruct (lenN data <? 16); [discriminate|]. unfold aes_unpad.
      repeat match goal with |- context [if ?c then _ else _] => destruct c end; try discriminate.
      unfold aes_dec at 1. cbn [bind]. destruct (pkcs7_unpad _); discriminate.
  Qed.

  (** the decoder installed by load_storage_and_trailer_password never makes a string or stream decryption panic *)
  Theorem loaded_decoder_no_panic : forall fuel d id0 pass enc meta dc num gen data s,
    load_decoder md5 sha256 sha384 sha512 aes_enc aes_dec prep fuel d id0 pass enc meta = Ok dc ->
    decrypt md5 aes_dec dc num gen data <> Panic s /\ ctx_decrypt md5 aes_dec (Some dc) num gen data <> Panic s.
  Proof.
    intros fuel d id0 pass enc meta dc num gen data s H. unfold load_decoder in H.
    destruct (from_password_safe fuel d id0 pass) as [[e He]|[He|(dc0 & He & Hwf)]]; rewrite He in H; cbn [bind] in H; try discriminate.
    inversion H; subst dc. split; apply decrypt_with_no_panic; apply install_wf; exact Hwf.
  Qed.
End Safe.
