(** Crypt/Spec.v — the standard security handler as the standards state it (writer's side and the reader's
    authentication algorithms), independent of crypt.rs:
      ISO 32000-1:2008 §7.6.3.3 Algorithm 2, §7.6.3.4 Algorithms 3-7, §7.6.2 Algorithm 1;
      ISO 32000-2:2020 §7.6.4.3.3 Algorithm 2.B, §7.6.4.4 Algorithms 8, 9, §7.6.3.2/3 Algorithm 1.A;  PKCS#7 padding (RFC 5652 §6.3).
    MD5, SHA-2, AES-CBC and SASLprep are total Section functions; RC4 is the function of Crypt/Rc4.v. *)
From PdfV Require Import Base.Prelude Crypt.Rc4 Crypt.Model.

(* ISO 32000-1 §7.6.3.3, Algorithm 2 step a: the 32-byte padding string *)
Definition spec_pad : bytes :=
  [40;191;78;94;78;117;138;65;100;0;78;86;255;250;1;8;46;46;0;182;208;104;62;128;47;12;169;254;100;83;105;122].

(* RFC 5652 §6.3: pad to a multiple of 16 with k bytes of value k, 1 <= k <= 16 *)
Definition pkcs7_pad (m : bytes) : bytes :=
  let k := 16 - (lenN m mod 16) in m ++ repeatN k (N.to_nat k).

(* "unsigned big-endian integer" *)
Definition be_nat (l : bytes) : N := fold_left (fun a b => a * 256 + b) l 0.

Fixpoint iterN {A} (n : nat) (f : A -> A) (x : A) : A := match n with O => x | S k => iterN k f (f x) end.

Section Std.
  Variable MD5 SHA256 SHA384 SHA512 : bytes -> bytes.
  Variable AESE : bytes -> bytes -> bytes -> bytes.      (* AES-CBC encrypt, no padding: key iv data *)
  Variable AESD : bytes -> bytes -> bytes -> bytes.

  (* Algorithm 2 a: "Pad or truncate the password string to exactly 32 bytes" *)
  Definition pad_pw (pw : bytes) : bytes := take 32 (pw ++ spec_pad).

  (* Algorithm 2: the file encryption key, n bytes *)
  Definition alg2 (R n : N) (pw O : bytes) (P : Z) (id0 : bytes) (em : bool) : bytes :=
    let h := MD5 (pad_pw pw ++ O ++ i32_le P ++ id0 ++ (if (4 <=? R) && negb em then [255;255;255;255] else [])) in
    take n (if 3 <=? R then iterN 50 (fun x => MD5 (take n x)) h else h).

  (* Algorithm 3 a-d: RC4 key from the owner password *)
  Definition owner_key (R n : N) (opw : bytes) : bytes :=
    take n (if 3 <=? R then iterN 50 MD5 (MD5 (pad_pw opw)) else MD5 (pad_pw opw)).

  (* the keys of the 19 extra passes: key XOR i, i = 1..19 *)
  Definition xkeys (key : bytes) (from : N) (n : nat) : list bytes := map (xor_key key) (seqN from n).

  (* Algorithm 3 e-h: the O entry ([opw] is the owner password, or the user password if there is none) *)
  Definition alg3 (R n : N) (opw upw : bytes) : bytes :=
    let k := owner_key R n opw in
    let x := rc4_raw k (pad_pw upw) in
    if 3 <=? R then fold_left (fun acc ki => rc4_raw ki acc) (xkeys k 1 19) x else x.

  (* Algorithm 4: U for revision 2 *)
  Definition alg4 (key : bytes) : bytes := rc4_raw key spec_pad.

  (* Algorithm 5: U for revision 3 and 4; 16 significant bytes followed by 16 arbitrary bytes *)
  Definition alg5_sig (key id0 : bytes) : bytes :=
    fold_left (fun acc ki => rc4_raw ki acc) (xkeys key 1 19) (rc4_raw key (MD5 (spec_pad ++ id0))).
  Definition alg5 (key id0 tail : bytes) : bytes := alg5_sig key id0 ++ tail.

  (* Algorithm 6: authenticating the user password -> the file key *)
  Definition alg6 (R n : N) (pw O U : bytes) (P : Z) (id0 : bytes) (em : bool) : option bytes :=
    let key := alg2 R n pw O P id0 em in
    if R =? 2 then (if bytes_eqb (alg4 key) U then Some key else None)
    else (if bytes_eqb (take 16 U) (alg5_sig key id0) then Some key else None).

  (* Algorithm 7: authenticating the owner password: "counting down from 19 to 0" *)
  Definition alg7 (R n : N) (pw O U : bytes) (P : Z) (id0 : bytes) (em : bool) : option bytes :=
    let k := owner_key R n pw in
    let upw := if R =? 2 then rc4_raw k O
               else fold_left (fun acc ki => rc4_raw ki acc) (rev (xkeys k 0 20)) O in
    alg6 R n upw O U P id0 em.

  (* Algorithm 2.B: the revision 6 hash; do-while form, "first 16 bytes of E as an unsigned big-endian integer modulo 3" *)
  Fixpoint alg2b_loop (fuel : nat) (i : N) (pw u K : bytes) : option bytes :=
    match fuel with
    | O => None
    | S f =>
        let K1 := rep64 (pw ++ K ++ u) in
        let E := AESE (take 16 K) (take 16 (drop 16 K)) K1 in
        let r := be_nat (take 16 E) mod 3 in
        let K' := if r =? 0 then SHA256 E else if r =? 1 then SHA384 E else SHA512 E in
        let i' := i + 1 in
        if (64 <=? i') && (last E 0 <=? i' - 32) then Some (take 32 K') else alg2b_loop f i' pw u K'
    end.
  Definition alg2b (fuel : nat) (pw salt u : bytes) : option bytes :=
    alg2b_loop fuel 0 pw u (SHA256 (pw ++ salt ++ u)).

  (* the hash of Algorithms 8/9/2.A: SHA-256 for revision 5, Algorithm 2.B for revision 6 *)
  Definition hash56 (R : N) (fuel : nat) (pw salt u : bytes) : option bytes :=
    if R =? 6 then alg2b fuel pw salt u else Some (SHA256 (pw ++ salt ++ u)).

  (* Algorithm 8: U = hash || validation salt || key salt ; UE = AES-256-CBC(no padding, zero IV) of the file key *)
  Definition alg8_U (h vs ks : bytes) : bytes := h ++ vs ++ ks.
  Definition alg8_UE (ik fk : bytes) : bytes := AESE ik zero_iv fk.

  (* Algorithm 9: O = hash(pw || validation salt || U) || validation salt || key salt ;
     OE = AES-256-CBC(no padding, zero IV) of the file key under hash(pw || key salt || U) *)
  Definition alg9_O (h vs ks : bytes) : bytes := h ++ vs ++ ks.
  Definition alg9_OE (ik fk : bytes) : bytes := AESE ik zero_iv fk.

  (* §7.6.4.4.7/8: "the 32 bytes of the hash, followed by 8 bytes of validation salt, followed by 8 bytes of key salt" *)
  Definition vsalt (X : bytes) : bytes := take 8 (drop 32 X).
  Definition ksalt (X : bytes) : bytes := take 8 (drop 40 X).

  (* Algorithm 2.A a: the SASLprep-prepared UTF-8 password, "truncate[d] to 127 bytes if it is longer" *)
  Definition pw56 (prepped : bytes) : bytes := take 127 prepped.

  (* Algorithm 2.A d-e (Algorithm 11): the user password.  Outer None: the hash is not defined on this fuel;
     inner None: the password is not the user password; inner Some: the file key unwrapped from UE *)
  Definition alg2a_user (R : N) (fuel : nat) (pw U UE : bytes) : option (option bytes) :=
    match hash56 R fuel pw (vsalt U) [] with
    | None => None
    | Some h =>
        if bytes_eqb h (take 32 U) then
          match hash56 R fuel pw (ksalt U) [] with
          | None => None
          | Some ik => Some (Some (AESD ik zero_iv UE))
          end
        else Some None
    end.

  (* Algorithm 2.A b-c (Algorithm 12): the owner password; the 48 bytes of U enter both hashes *)
  Definition alg2a_owner (R : N) (fuel : nat) (pw O U OE : bytes) : option (option bytes) :=
    match hash56 R fuel pw (vsalt O) U with
    | None => None
    | Some h =>
        if bytes_eqb h (take 32 O) then
          match hash56 R fuel pw (ksalt O) U with
          | None => None
          | Some ik => Some (Some (AESD ik zero_iv OE))
          end
        else Some None
    end.

  (* Algorithm 1 / 1.A: per-object key and encryption *)
  Definition obj_key (fk : bytes) (num gen : N) (aes : bool) : bytes :=
    take (N.min (lenN fk + 5) 16) (MD5 (fk ++ le_bytes 3 num ++ le_bytes 2 gen ++ (if aes then salt_tag else []))).

  Definition encrypt_obj (m : method) (fk : bytes) (num gen : N) (iv data : bytes) : bytes :=
    match m with
    | MNone => data
    | MV2 => rc4_raw (obj_key fk num gen false) data
    | MAESV2 => iv ++ AESE (obj_key fk num gen true) iv (pkcs7_pad data)
    | MAESV3 => iv ++ AESE fk iv (pkcs7_pad data)
    end.

  (* what a conforming writer stores for the bytes of a string / stream of object (num, gen):
     the strings of the encryption dictionary (object [enc]) and, when metadata is not encrypted (V >= 4 and
     EncryptMetadata false), the metadata stream [meta] are stored as they are *)
  Definition protect_bytes (m : method) (fk : bytes) (enc meta : oref) (meta_plain : bool) (num gen : N) (iv data : bytes) : bytes :=
    if oref_is enc num gen then data
    else if meta_plain && oref_is meta num gen then data
    else encrypt_obj m fk num gen iv data.
End Std.
