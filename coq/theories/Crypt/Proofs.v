(** Crypt/Proofs.v — the handler model refines the standard's algorithms (Crypt/Spec.v). *)
From PdfV Require Import Base.Prelude Gen.Generated Crypt.Rc4 Crypt.Rc4Proofs Crypt.Model Crypt.Spec Crypt.Tables.

(* ---------------------------------------------------------------- list / N helpers *)
Lemma lenN_length {A} (l : list A) n : length l = n -> lenN l = N.of_nat n.
Proof. intros; unfold lenN; congruence. Qed.

Lemma take_all {A} (l : list A) n : lenN l <= n -> take n l = l.
Proof. unfold take, lenN. intros H. apply firstn_all2. lia. Qed.

Lemma take_app_le {A} (a b : list A) n : n <= lenN a -> take n (a ++ b) = take n a.
Proof.
  unfold take, lenN. intros H. rewrite firstn_app.
  replace (N.to_nat n - length a)%nat with 0%nat by lia. cbn [firstn]. apply app_nil_r.
Qed.

Lemma take_app_exact {A} (a b : list A) n : lenN a = n -> take n (a ++ b) = a.
Proof. intros H. rewrite take_app_le by lia. apply take_all. lia. Qed.

Lemma drop_app_exact {A} (a b : list A) n : lenN a = n -> drop n (a ++ b) = b.
Proof.
  unfold drop, lenN. intros H. rewrite skipn_app.
  replace (N.to_nat n) with (length a) by lia. rewrite skipn_all, Nat.sub_diag. reflexivity.
Qed.

Lemma lenN_app {A} (a b : list A) : lenN (a ++ b) = lenN a + lenN b.
Proof. unfold lenN. rewrite app_length. lia. Qed.

Lemma lenN_take {A} (l : list A) n : n <= lenN l -> lenN (take n l) = n.
Proof. unfold lenN, take. intros H. rewrite firstn_length. lia. Qed.

Lemma bytes_eqb_eq a b : bytes_eqb a b = true <-> a = b.
Proof.
  revert b. induction a as [|x a IH]; intros [|y b]; cbn [bytes_eqb]; split; intros H; try reflexivity; try discriminate.
  - apply andb_true_iff in H. destruct H as [H1 H2]. apply N.eqb_eq in H1. apply IH in H2. congruence.
  - inversion H; subst. rewrite N.eqb_refl. cbn [andb]. apply IH. reflexivity.
Qed.
Lemma bytes_eqb_refl a : bytes_eqb a a = true.
Proof. apply bytes_eqb_eq. reflexivity. Qed.
Lemma bytes_eqb_neq a b : a <> b -> bytes_eqb a b = false.
Proof. intros H. destruct (bytes_eqb a b) eqn:E; [apply bytes_eqb_eq in E; contradiction|reflexivity]. Qed.

Lemma xor_key_0 k : xor_key k 0 = k.
Proof. unfold xor_key. induction k as [|b t IH]; cbn [map]; [reflexivity|]. rewrite N.lxor_0_r, IH. reflexivity. Qed.
Lemma xor_key_len k i : lenN (xor_key k i) = lenN k.
Proof. unfold xor_key, lenN. rewrite map_length. reflexivity. Qed.

Lemma rc4_ok k m : 1 <= lenN k <= 256 -> rc4 k m = Ok (rc4_raw k m).
Proof.
  intros [H1 H2]. unfold rc4, rc4_key_ok.
  replace (lenN k =? 0) with false by (symmetry; apply N.eqb_neq; lia).
  replace (lenN k <=? 256) with true by (symmetry; apply N.leb_le; lia). reflexivity.
Qed.

Lemma spec_pad_len : lenN spec_pad = 32.
Proof. reflexivity. Qed.

Lemma pad_pw_len pw : lenN (pad_pw pw) = 32.
Proof.
  unfold pad_pw. apply lenN_take. rewrite lenN_app, spec_pad_len. lia.
Qed.

(* crypt.rs's two-branch padding is the standard's "pad or truncate to 32 bytes" *)
Lemma pad_password_spec pw : pad_password pw = pad_pw pw.
Proof.
  unfold pad_password, pad_pw. rewrite padding_is_standard.
  destruct (lenN pw <? 32) eqn:E.
  - apply N.ltb_lt in E. unfold take, lenN in *. rewrite firstn_app.
    rewrite (firstn_all2 pw) by lia. f_equal. f_equal. lia.
  - apply N.ltb_ge in E. symmetry. apply take_app_le. exact E.
Qed.

Lemma pad_pw_idem pw : pad_pw (pad_pw pw) = pad_pw pw.
Proof.
  unfold pad_pw at 1. apply take_app_exact. apply pad_pw_len.
Qed.

(* ---------------------------------------------------------------- PKCS#7 *)
Lemma repeatN_snoc {A} (x : A) n : repeatN x (S n) = repeatN x n ++ [x].
Proof. induction n as [|n IH]; [reflexivity|]. cbn [repeatN app] in *. rewrite <- IH. reflexivity. Qed.

Lemma repeatN_length {A} (x : A) n : length (repeatN x n) = n.
Proof. induction n as [|n IH]; cbn [repeatN length]; [reflexivity|]. rewrite IH. reflexivity. Qed.

Lemma forallb_repeatN k n : forallb (N.eqb k) (repeatN k n) = true.
Proof. induction n as [|n IH]; cbn [repeatN forallb]; [reflexivity|]. rewrite N.eqb_refl, IH. reflexivity. Qed.

Lemma pad_amount (m : bytes) : 1 <= 16 - lenN m mod 16 <= 16.
Proof. assert (H : lenN m mod 16 < 16) by (apply N.mod_lt; discriminate). revert H. generalize (lenN m mod 16). intros r H. lia. Qed.

Lemma pkcs7_pad_len m : lenN (pkcs7_pad m) = lenN m + (16 - lenN m mod 16).
Proof. unfold pkcs7_pad. rewrite lenN_app. unfold lenN at 2. rewrite repeatN_length. lia. Qed.

Lemma pkcs7_pad_blocks m : lenN (pkcs7_pad m) mod 16 = 0.
Proof.
  rewrite pkcs7_pad_len. assert (H0 : lenN m = 16 * (lenN m / 16) + lenN m mod 16) by (apply N.div_mod; discriminate).
  assert (H1 : lenN m mod 16 < 16) by (apply N.mod_lt; discriminate).
  set (q := lenN m / 16) in *. set (r := lenN m mod 16) in *.
  replace (lenN m + (16 - r)) with ((q + 1) * 16) by lia. apply N.mod_mul. discriminate.
Qed.

(** PKCS#7 as implemented by block-padding (strict) removes exactly what the standard padding adds,
    for every message length, in particular 0 and multiples of the block size *)
Theorem pkcs7_unpad_pad m : pkcs7_unpad (pkcs7_pad m) = Some m.
Proof.
  pose proof (pad_amount m) as Hk. unfold pkcs7_unpad.
  pose proof (pkcs7_pad_len m) as HL. unfold pkcs7_pad in *. set (k := 16 - lenN m mod 16) in *.
  destruct (N.to_nat k) as [|j] eqn:Ej; [lia|].
  rewrite repeatN_snoc, app_assoc, rev_app_distr. cbn [rev app].
  replace (k =? 0) with false by (symmetry; apply N.eqb_neq; lia).
  replace (16 <? k) with false by (symmetry; apply N.ltb_ge; lia). cbn [orb].
  rewrite <- app_assoc, <- repeatN_snoc.
  replace (lenN (m ++ repeatN k (S j)) - k) with (lenN m) by lia.
  rewrite drop_app_exact by reflexivity. rewrite forallb_repeatN.
  rewrite take_app_exact by reflexivity. reflexivity.
Qed.

Lemma lenN_take_ge {A} (l : list A) n : lenN (take n l) = n -> n <= lenN l.
Proof. unfold lenN, take. rewrite firstn_length. lia. Qed.

Section Refinement.
  Variable MD5 SHA256 SHA384 SHA512 : bytes -> bytes.
  Variable AESE AESD : bytes -> bytes -> bytes -> bytes.
  Variable PREP : bytes -> option bytes.
  Hypothesis md5_len : forall x, length (MD5 x) = 16%nat.
  Hypothesis aes_inv : forall k iv x, lenN x mod 16 = 0 -> AESD k iv (AESE k iv x) = x.
  Hypothesis aes_len : forall k iv x, lenN (AESE k iv x) = lenN x.

  Let md5 := fun x : bytes => @Ok bytes (MD5 x).
  Let sha256 := fun x : bytes => @Ok bytes (SHA256 x).
  Let sha384 := fun x : bytes => @Ok bytes (SHA384 x).
  Let sha512 := fun x : bytes => @Ok bytes (SHA512 x).
  Let aes_enc := fun k iv x : bytes => @Ok bytes (AESE k iv x).
  Let aes_dec := fun k iv x : bytes => @Ok bytes (AESD k iv x).
  Let prep := fun x : bytes => @Ok (option bytes) (PREP x).

  Lemma md5_lenN x : lenN (MD5 x) = 16.
  Proof. unfold lenN. rewrite md5_len. reflexivity. Qed.

  Lemma md5_rounds_spec n ks data :
    md5_rounds md5 n ks data = Ok (iterN n (fun x => MD5 (take (N.min ks 16) x)) data).
  Proof. revert data. induction n as [|n IH]; intros data; cbn [md5_rounds iterN]; [reflexivity|]. unfold md5 at 1. cbn [bind]. apply IH. Qed.

  Lemma md5_iter_spec n h : md5_iter md5 n h = Ok (iterN n MD5 h).
  Proof. revert h. induction n as [|n IH]; intros h; cbn [md5_iter iterN]; [reflexivity|]. unfold md5 at 1. cbn [bind]. apply IH. Qed.

  Lemma iterN_len n f (h : bytes) : (forall x, lenN (f x) = 16) -> lenN h = 16 -> lenN (iterN n f h) = 16.
  Proof. intros Hf. revert h. induction n as [|n IH]; intros h Hh; cbn [iterN]; [exact Hh|]. apply IH. apply Hf. Qed.

  (* the 16-byte digest of Algorithm 2 before truncation to n bytes *)
  Definition alg2_full (R n : N) (pw O : bytes) (P : Z) (id0 : bytes) (em : bool) : bytes :=
    let h := MD5 (pad_pw pw ++ O ++ i32_le P ++ id0 ++ (if (4 <=? R) && negb em then [255;255;255;255] else [])) in
    if 3 <=? R then iterN 50 (fun x => MD5 (take n x)) h else h.

  Lemma alg2_take R n pw O P id0 em : alg2 MD5 R n pw O P id0 em = take n (alg2_full R n pw O P id0 em).
  Proof. reflexivity. Qed.

  Lemma alg2_full_len R n pw O P id0 em : lenN (alg2_full R n pw O P id0 em) = 16.
  Proof.
    unfold alg2_full. destruct (3 <=? R); [|apply md5_lenN].
    apply iterN_len; [intros; apply md5_lenN|apply md5_lenN].
  Qed.

  Lemma alg2_pad R n pw O P id0 em : alg2_full R n (pad_pw pw) O P id0 em = alg2_full R n pw O P id0 em.
  Proof. unfold alg2_full. rewrite pad_pw_idem. reflexivity. Qed.

  Lemma kd_user_spec R n d id0 pw : 1 <= n <= 16 ->
    kd_user md5 R n d id0 pw = Ok (alg2_full R n pw (d_o d) (d_p d) id0 (d_em d) ++ []).
  Proof.
    intros Hn. unfold kd_user. rewrite pad_password_spec. unfold md5 at 1. cbn [bind].
    replace (N.max n 16 - 16) with 0 by lia. cbn [N.to_nat repeatN].
    unfold alg2_full. destruct (3 <=? R).
    - rewrite md5_rounds_spec. cbn [bind]. replace (N.min n 16) with n by lia. reflexivity.
    - cbn [bind]. reflexivity.
  Qed.

  Lemma kd_owner_spec R n pw : 1 <= n <= 16 -> kd_owner md5 R n pw = Ok (owner_key MD5 R n pw).
  Proof.
    intros Hn. unfold kd_owner, owner_key. replace (16 <? n) with false by (symmetry; apply N.ltb_ge; lia).
    rewrite pad_password_spec. unfold md5 at 1. cbn [bind]. destruct (3 <=? R).
    - rewrite md5_iter_spec. cbn [bind]. reflexivity.
    - cbn [bind]. reflexivity.
  Qed.

  Lemma owner_key_len R n pw : 1 <= n <= 16 -> lenN (owner_key MD5 R n pw) = n.
  Proof.
    intros Hn. unfold owner_key. apply lenN_take. destruct (3 <=? R).
    - rewrite iterN_len; [lia|intros; apply md5_lenN|apply md5_lenN].
    - rewrite md5_lenN. lia.
  Qed.

  Lemma rc4_rounds_spec n from key data : 1 <= lenN key <= 256 ->
    rc4_rounds n from key data = Ok (rc4_passes (xkeys key from n) data).
  Proof.
    intros Hk. revert from data. induction n as [|n IH]; intros from data; cbn [rc4_rounds]; [reflexivity|].
    rewrite rc4_ok by (rewrite xor_key_len; exact Hk). cbn [bind]. rewrite IH. reflexivity.
  Qed.

  Lemma compute_u2_spec key : 1 <= lenN key <= 256 -> compute_u_rev_2 key = Ok (alg4 key).
  Proof. intros Hk. unfold compute_u_rev_2, alg4. rewrite padding_is_standard. apply rc4_ok. exact Hk. Qed.

  Lemma compute_u34_spec id0 key : 1 <= lenN key <= 256 -> compute_u_rev_3_4 md5 id0 key = Ok (alg5_sig MD5 key id0).
  Proof.
    intros Hk. unfold compute_u_rev_3_4, alg5_sig. unfold md5 at 1. cbn [bind]. rewrite padding_is_standard.
    rewrite rc4_ok by exact Hk. cbn [bind]. rewrite rc4_rounds_spec by exact Hk. reflexivity.
  Qed.

  Lemma alg5_sig_len key id0 : lenN (alg5_sig MD5 key id0) = 16.
  Proof.
    unfold alg5_sig. fold (rc4_passes (xkeys key 1 19) (rc4_raw key (MD5 (spec_pad ++ id0)))).
    unfold lenN. rewrite rc4_passes_length, rc4_raw_length, md5_len. reflexivity.
  Qed.

  (* the user-password test of crypt.rs is Algorithm 6's comparison *)
  Definition u_matches (R : N) (key U id0 : bytes) : bool :=
    if R =? 2 then bytes_eqb (alg4 key) U else bytes_eqb (take 16 U) (alg5_sig MD5 key id0).

  Lemma check_password_spec R U id0 key : 1 <= lenN key <= 256 ->
    check_password_rc4 md5 R U id0 key = Ok (u_matches R key U id0).
  Proof.
    intros Hk. unfold check_password_rc4, u_matches. destruct (R =? 2).
    - rewrite compute_u2_spec by exact Hk. reflexivity.
    - rewrite compute_u34_spec by exact Hk. cbn [bind]. rewrite alg5_sig_len. reflexivity.
  Qed.

  Lemma alg6_unfold R n pw O U P id0 em :
    alg6 MD5 R n pw O U P id0 em =
    if u_matches R (alg2 MD5 R n pw O P id0 em) U id0 then Some (alg2 MD5 R n pw O P id0 em) else None.
  Proof. unfold alg6, u_matches. destruct (R =? 2); reflexivity. Qed.

  Lemma xkeys_0_20 k : xkeys k 0 20 = k :: xkeys k 1 19.
  Proof. unfold xkeys. cbn [seqN map]. rewrite xor_key_0. reflexivity. Qed.

  Lemma xkeys_0_1 k : xkeys k 0 1 = [k].
  Proof. unfold xkeys. cbn [seqN map]. rewrite xor_key_0. reflexivity. Qed.

  (** from_password for revisions 2-4 is Algorithm 6 followed by Algorithm 7, for every dictionary, document id and
      password, whenever the key length is 1..16 bytes *)
  Theorem from_password_rc4_refines : forall R bits n m ms d id0 pass,
    2 <= R <= 4 -> bits / 8 = n -> 1 <= n <= 16 ->
    from_password_rc4 md5 R bits m ms d id0 pass =
      match alg6 MD5 R n pass (d_o d) (d_u d) (d_p d) id0 (d_em d) with
      | Some _ => Ok (decoder_with (alg2_full R n pass (d_o d) (d_p d) id0 (d_em d) ++ []) n m ms (d_em d || (d_v d <? 4)%Z))
      | None =>
          let upw := if R =? 2 then rc4_raw (owner_key MD5 R n pass) (d_o d)
                     else rc4_passes (rev (xkeys (owner_key MD5 R n pass) 0 20)) (d_o d) in
          match alg6 MD5 R n upw (d_o d) (d_u d) (d_p d) id0 (d_em d) with
          | Some _ => Ok (decoder_with (alg2_full R n upw (d_o d) (d_p d) id0 (d_em d) ++ []) n m ms (d_em d || (d_v d <? 4)%Z))
          | None => Err E_INVALID_PASSWORD
          end
      end.
  Proof.
    intros R bits n m ms d id0 pass HR Hb Hn. unfold from_password_rc4. rewrite Hb.
    replace (n =? 0) with false by (symmetry; apply N.eqb_neq; lia).
    rewrite kd_user_spec by exact Hn. cbn [bind].
    replace (N.min n 16) with n by lia.
    rewrite app_nil_r.
    assert (Hk : forall pw, 1 <= lenN (take n (alg2_full R n pw (d_o d) (d_p d) id0 (d_em d))) <= 256).
    { intros pw. rewrite lenN_take by (rewrite alg2_full_len; lia). lia. }
    rewrite check_password_spec by apply Hk. cbn [bind].
    rewrite alg6_unfold, alg2_take.
    destruct (u_matches R (take n (alg2_full R n pass (d_o d) (d_p d) id0 (d_em d))) (d_u d) id0) eqn:E1.
    { reflexivity. }
    rewrite kd_owner_spec by exact Hn. cbn [bind].
    assert (Hw : 1 <= lenN (owner_key MD5 R n pass) <= 256) by (rewrite owner_key_len by exact Hn; lia).
    rewrite rc4_rounds_spec by exact Hw. cbn [bind].
    set (upw_model := rc4_passes (xkeys (owner_key MD5 R n pass) 0 (if R =? 2 then 1%nat else 20%nat)) (d_o d)).
    set (upw := if R =? 2 then rc4_raw (owner_key MD5 R n pass) (d_o d)
                else rc4_passes (rev (xkeys (owner_key MD5 R n pass) 0 20)) (d_o d)).
    assert (Hu : upw_model = upw).
    { unfold upw_model, upw. destruct (R =? 2).
      - rewrite xkeys_0_1. reflexivity.
      - rewrite rc4_passes_rev. reflexivity. }
    rewrite Hu. rewrite kd_user_spec by exact Hn. cbn [bind]. rewrite app_nil_r.
    rewrite check_password_spec by apply Hk. cbn [bind].
    rewrite alg6_unfold, alg2_take.
    destruct (u_matches R (take n (alg2_full R n upw (d_o d) (d_p d) id0 (d_em d))) (d_u d) id0); reflexivity.
  Qed.

  (* ------------------------------------------------------------ corollaries at the level of Decoder::from_password *)
  Definition std_rc4_dict (d : crypt_dict) (R n : N) (m ms : method) : Prop :=
    crypt_method d = Ok (8 * n, m, ms) /\ d_r d = R /\ 2 <= R <= 4 /\ 1 <= n <= 16.

  Notation FP := (from_password md5 sha256 sha384 sha512 aes_enc aes_dec prep).

  Lemma from_password_rc4_entry fuel d id0 pass R n m ms : std_rc4_dict d R n m ms ->
    FP fuel d id0 pass = from_password_rc4 md5 R (8 * n) m ms d id0 pass.
  Proof.
    intros (Hcm & Hr & HR & Hn). unfold from_password. rewrite Hcm. cbn [bind]. rewrite Hr.
    replace (2 <=? R) with true by (symmetry; apply N.leb_le; lia).
    replace (R <=? 6) with true by (symmetry; apply N.leb_le; lia).
    replace (R <=? 4) with true by (symmetry; apply N.leb_le; lia).
    reflexivity.
  Qed.

  Lemma div8 n : 8 * n / 8 = n.
  Proof. rewrite N.mul_comm. apply N.div_mul. discriminate. Qed.

  Definition opens_with (r : res decoder) (n : N) (fk : bytes) (m ms : method) (em : bool) : Prop :=
    exists dc, r = Ok dc /\ k_size dc = n /\ take n (k_key dc) = fk /\ k_method dc = m /\ k_smethod dc = ms /\
               k_enc_obj dc = None /\ k_meta_obj dc = None /\ k_em dc = em.

  Definition u_entry (R : N) (fk id0 tail : bytes) : bytes := if R =? 2 then alg4 fk else alg5 MD5 fk id0 tail.

  Lemma u_entry_matches R fk id0 tail : u_matches R fk (u_entry R fk id0 tail) id0 = true.
  Proof.
    unfold u_matches, u_entry. destruct (R =? 2); [apply bytes_eqb_refl|].
    unfold alg5. rewrite take_app_exact by apply alg5_sig_len. apply bytes_eqb_refl.
  Qed.

  Theorem open_user_rc4 : forall fuel d id0 upw R n m ms tail, std_rc4_dict d R n m ms ->
    let fk := alg2 MD5 R n upw (d_o d) (d_p d) id0 (d_em d) in
    d_u d = u_entry R fk id0 tail ->
    opens_with (FP fuel d id0 upw) n fk m ms (d_em d || (d_v d <? 4)%Z).
  Proof.
    intros fuel d id0 upw R n m ms tail Hd fk HU. rewrite (from_password_rc4_entry fuel d id0 upw R n m ms Hd).
    destruct Hd as (Hcm & Hr & HR & Hn).
    rewrite (from_password_rc4_refines R (8 * n) n m ms d id0 upw HR (div8 n) Hn).
    rewrite alg6_unfold. fold fk. rewrite HU, u_entry_matches.
    eexists. split; [reflexivity|]. cbn [decoder_with k_size k_key k_method k_smethod k_enc_obj k_meta_obj k_em].
    rewrite app_nil_r. repeat split; reflexivity.
  Qed.

  Lemma alg3_unwrap R n opw upw : 2 <= R <= 4 ->
    (if R =? 2 then rc4_raw (owner_key MD5 R n opw) (alg3 MD5 R n opw upw)
     else rc4_passes (rev (xkeys (owner_key MD5 R n opw) 0 20)) (alg3 MD5 R n opw upw)) = pad_pw upw.
  Proof.
    intros HR. unfold alg3. destruct (R =? 2) eqn:E.
    - apply N.eqb_eq in E. subst R. cbn [N.leb]. replace (3 <=? 2) with false by reflexivity. apply rc4_raw_invol.
    - apply N.eqb_neq in E. replace (3 <=? R) with true by (symmetry; apply N.leb_le; lia).
      set (k := owner_key MD5 R n opw).
      change (fold_left (fun acc ki => rc4_raw ki acc) (xkeys k 1 19) (rc4_raw k (pad_pw upw)))
        with (rc4_passes (k :: xkeys k 1 19) (pad_pw upw)).
      rewrite <- xkeys_0_20, rc4_passes_rev. apply rc4_passes_twice.
  Qed.

  Theorem open_owner_rc4 : forall fuel d id0 upw opw R n m ms tail, std_rc4_dict d R n m ms ->
    d_o d = alg3 MD5 R n opw upw ->
    let fk := alg2 MD5 R n upw (d_o d) (d_p d) id0 (d_em d) in
    d_u d = u_entry R fk id0 tail ->
    alg6 MD5 R n opw (d_o d) (d_u d) (d_p d) id0 (d_em d) = None ->      (* the owner password is not also accepted as user password *)
    opens_with (FP fuel d id0 opw) n fk m ms (d_em d || (d_v d <? 4)%Z).
  Proof.
    intros fuel d id0 upw opw R n m ms tail Hd HO fk HU Hnot. rewrite (from_password_rc4_entry fuel d id0 opw R n m ms Hd).
    destruct Hd as (Hcm & Hr & HR & Hn).
    rewrite (from_password_rc4_refines R (8 * n) n m ms d id0 opw HR (div8 n) Hn).
    rewrite Hnot. cbv zeta. pose proof (alg3_unwrap R n opw upw HR) as Hun. rewrite <- HO in Hun. rewrite Hun.
    rewrite alg6_unfold, alg2_take, alg2_pad, <- alg2_take. fold fk. rewrite HU, u_entry_matches.
    eexists. split; [reflexivity|]. cbn [decoder_with k_size k_key k_method k_smethod k_enc_obj k_meta_obj k_em].
    rewrite app_nil_r. repeat split; reflexivity.
  Qed.

  Theorem wrong_pw_rc4 : forall fuel d id0 pw R n m ms, std_rc4_dict d R n m ms ->
    alg6 MD5 R n pw (d_o d) (d_u d) (d_p d) id0 (d_em d) = None ->
    alg7 MD5 R n pw (d_o d) (d_u d) (d_p d) id0 (d_em d) = None ->
    FP fuel d id0 pw = Err E_INVALID_PASSWORD.
  Proof.
    intros fuel d id0 pw R n m ms Hd H6 H7. rewrite (from_password_rc4_entry fuel d id0 pw R n m ms Hd).
    destruct Hd as (Hcm & Hr & HR & Hn).
    rewrite (from_password_rc4_refines R (8 * n) n m ms d id0 pw HR (div8 n) Hn).
    rewrite H6. cbv zeta. unfold alg7 in H7. unfold rc4_passes. rewrite H7. reflexivity.
  Qed.

  (* acceptance coincides with the standard's Algorithms 6 and 7: a password is rejected iff both reject it *)
  Theorem accepted_iff_rc4 : forall fuel d id0 pw R n m ms, std_rc4_dict d R n m ms ->
    (exists dc, FP fuel d id0 pw = Ok dc) <->
    (alg6 MD5 R n pw (d_o d) (d_u d) (d_p d) id0 (d_em d) <> None \/ alg7 MD5 R n pw (d_o d) (d_u d) (d_p d) id0 (d_em d) <> None).
  Proof.
    intros fuel d id0 pw R n m ms Hd. rewrite (from_password_rc4_entry fuel d id0 pw R n m ms Hd).
    destruct Hd as (Hcm & Hr & HR & Hn).
    rewrite (from_password_rc4_refines R (8 * n) n m ms d id0 pw HR (div8 n) Hn).
    unfold alg7, rc4_passes. cbv zeta.
    destruct (alg6 MD5 R n pw (d_o d) (d_u d) (d_p d) id0 (d_em d)) eqn:E6.
    - split; [intros _; left; discriminate|intros _; eexists; reflexivity].
    - match goal with |- context [match ?x with Some _ => _ | None => _ end] => destruct x eqn:E7 end.
      + split; [intros _; right; discriminate|intros _; eexists; reflexivity].
      + split; [intros [dc H]; discriminate|intros [H|H]; contradiction].
  Qed.

  (* ------------------------------------------------------------ per-object decryption inverts the writer's encryption *)
  (* the decoder holds the file key in the way method [m] reads it (nothing to hold for the Identity filter) *)
  Definition key_fits (dc : decoder) (fk : bytes) (m : method) : Prop :=
    match m with
    | MNone => True
    | MV2 => 1 <= lenN fk <= 16 /\ k_size dc = lenN fk /\ take (lenN fk) (k_key dc) = fk
    | MAESV2 => lenN fk = 16 /\ k_size dc = 16 /\ take 16 (k_key dc) = fk
    | MAESV3 => lenN fk = 32 /\ k_key dc = fk
    end.

  (* [m]: the crypt filter of streams (/StmF), [ms]: the crypt filter of strings (/StrF); MNone = Identity *)
  Definition decoder_for (dc : decoder) (fk : bytes) (m ms : method) : Prop :=
    k_method dc = m /\ k_smethod dc = ms /\ key_fits dc fk m /\ key_fits dc fk ms.

  Lemma dkey_ok dc fk : 1 <= lenN fk <= 16 -> k_size dc = lenN fk -> take (lenN fk) (k_key dc) = fk -> dkey dc = Ok fk.
  Proof.
    intros Hn Hs Hk. unfold dkey. rewrite Hs. replace (N.min (lenN fk) 16) with (lenN fk) by lia.
    assert (lenN fk <= lenN (k_key dc)) by (apply lenN_take_ge; rewrite Hk; reflexivity).
    replace (lenN (k_key dc) <? lenN fk) with false by (symmetry; apply N.ltb_ge; lia). rewrite Hk. reflexivity.
  Qed.

  Lemma obj_key_len fk num gen aes : lenN (obj_key MD5 fk num gen aes) = N.min (lenN fk + 5) 16.
  Proof. unfold obj_key. apply lenN_take. rewrite md5_lenN. lia. Qed.

  Lemma aes_round_trip key iv data : lenN iv = 16 -> lenN key = 16 \/ lenN key = 32 ->
    forall keylen, keylen = lenN key ->
    aes_unpad aes_dec keylen key (take 16 (iv ++ AESE key iv (pkcs7_pad data))) (drop 16 (iv ++ AESE key iv (pkcs7_pad data))) = Ok data.
  Proof.
    intros Hiv Hk keylen ->. rewrite take_app_exact, drop_app_exact by exact Hiv.
    unfold aes_unpad. rewrite N.eqb_refl. cbn [negb]. rewrite aes_len, pkcs7_pad_blocks. cbn [N.eqb negb].
    unfold aes_dec. cbn [bind]. rewrite aes_inv by apply pkcs7_pad_blocks. rewrite pkcs7_unpad_pad. reflexivity.
  Qed.

  Lemma aes_ct_len key iv data : lenN iv = 16 -> 16 <= lenN (iv ++ AESE key iv (pkcs7_pad data)).
  Proof. intros H. rewrite lenN_app, H. lia. Qed.

  (** what a conforming writer stored for object (num, gen) under the crypt filter method [m] — encrypted under Algorithm 1 /
      1.A with any 16-byte IV, left as it is for the Identity filter and for the exempt objects — is returned as the original
      bytes by Decoder::decrypt_with for that method, for every object number, generation and length *)
  Theorem plaintext_with : forall dc fk m num gen iv data,
    key_fits dc fk m -> lenN iv = 16 ->
    decrypt_with md5 aes_dec m dc num gen
      (protect_bytes MD5 AESE m fk (k_enc_obj dc) (k_meta_obj dc) (negb (k_em dc)) num gen iv data) = Ok data.
  Proof.
    intros dc fk m num gen iv data Hd Hiv. unfold decrypt_with, protect_bytes.
    destruct (oref_is (k_enc_obj dc) num gen); [reflexivity|].
    destruct (negb (k_em dc) && oref_is (k_meta_obj dc) num gen); [reflexivity|].
    destruct m; cbn [encrypt_obj key_fits] in *.
    - (* Identity *)
      destruct (lenN data =? 0); reflexivity.
    - (* RC4 *)
      destruct Hd as (Hn & Hs & Hk).
      destruct (lenN (rc4_raw (obj_key MD5 fk num gen false) data) =? 0) eqn:E0.
      + apply N.eqb_eq in E0. unfold lenN in E0. rewrite rc4_raw_length in E0.
        destruct data; [reflexivity|cbn [length] in E0; lia].
      + rewrite (dkey_ok dc fk Hn Hs Hk). cbn [bind]. unfold md5 at 1. cbn [bind].
        unfold obj_key. rewrite !app_nil_r.
        set (k := take (N.min (lenN fk + 5) 16) (MD5 (fk ++ le_bytes 3 num ++ le_bytes 2 gen))).
        assert (Hkl : 1 <= lenN k <= 256).
        { unfold k. rewrite lenN_take by (rewrite md5_lenN; lia). lia. }
        rewrite rc4_ok by exact Hkl. rewrite rc4_raw_invol. reflexivity.
    - (* AES-128 *)
      destruct Hd as (Hn & Hs & Hk). pose proof (aes_ct_len (obj_key MD5 fk num gen true) iv data Hiv) as HL.
      replace (lenN (iv ++ AESE (obj_key MD5 fk num gen true) iv (pkcs7_pad data)) =? 0) with false by (symmetry; apply N.eqb_neq; lia).
      rewrite Hs. rewrite (dkey_ok dc fk) by (try lia; try (rewrite Hn; exact Hk); rewrite Hs, Hn; reflexivity).
      cbn [bind]. unfold md5 at 1. cbn [bind].
      replace (lenN (iv ++ AESE (obj_key MD5 fk num gen true) iv (pkcs7_pad data)) <? 16) with false by (symmetry; apply N.ltb_ge; lia).
      replace (N.min 16 16) with 16 by reflexivity.
      replace (take (N.min (16 + 5) 16) (MD5 (fk ++ le_bytes 3 num ++ le_bytes 2 gen ++ salt_tag))) with (obj_key MD5 fk num gen true)
        by (unfold obj_key; rewrite Hn; reflexivity).
      apply aes_round_trip; [exact Hiv|left; rewrite obj_key_len, Hn; reflexivity|rewrite obj_key_len, Hn; reflexivity].
    - (* AES-256 *)
      destruct Hd as (Hn & Hk). pose proof (aes_ct_len fk iv data Hiv) as HL.
      replace (lenN (iv ++ AESE fk iv (pkcs7_pad data)) =? 0) with false by (symmetry; apply N.eqb_neq; lia).
      replace (lenN (iv ++ AESE fk iv (pkcs7_pad data)) <? 16) with false by (symmetry; apply N.ltb_ge; lia).
      rewrite Hk. apply aes_round_trip; [exact Hiv|right; exact Hn|symmetry; exact Hn].
  Qed.

  (** streams: Decoder::decrypt (the /StmF method) returns the plaintext of every stream a conforming writer stored *)
  Theorem plaintext : forall dc fk m ms num gen iv data,
    decoder_for dc fk m ms -> lenN iv = 16 ->
    decrypt md5 aes_dec dc num gen
      (protect_bytes MD5 AESE m fk (k_enc_obj dc) (k_meta_obj dc) (negb (k_em dc)) num gen iv data) = Ok data.
  Proof. intros dc fk m ms num gen iv data (Hm & _ & Hf & _) Hiv. unfold decrypt. rewrite Hm. apply plaintext_with; assumption. Qed.

  (** strings: the parser's Context::decrypt (Decoder::decrypt_string, the /StrF method) returns the plaintext of every
      string a conforming writer stored *)
  Theorem plaintext_string : forall dc fk m ms num gen iv s,
    decoder_for dc fk m ms -> lenN iv = 16 ->
    ctx_decrypt md5 aes_dec (Some dc) num gen
      (protect_bytes MD5 AESE ms fk (k_enc_obj dc) (k_meta_obj dc) (negb (k_em dc)) num gen iv s) = Ok s.
  Proof.
    intros dc fk m ms num gen iv s (_ & Hms & _ & Hf) Hiv. unfold ctx_decrypt, decrypt_string. rewrite Hms.
    apply plaintext_with; assumption.
  Qed.

  (** Storage::decode: the stream's filters see the plaintext *)
  Theorem plaintext_decode : forall filters dc fk m ms num gen iv data,
    decoder_for dc fk m ms -> lenN iv = 16 ->
    storage_decode md5 aes_dec filters (Some dc) num gen
      (protect_bytes MD5 AESE m fk (k_enc_obj dc) (k_meta_obj dc) (negb (k_em dc)) num gen iv data) = filters data.
  Proof.
    intros filters dc fk m ms num gen iv data Hd Hiv. unfold storage_decode.
    rewrite (plaintext dc fk m ms num gen iv data Hd Hiv). reflexivity.
  Qed.

  (** the strings and streams of the /Encrypt object and, when metadata encryption is off, of the /Metadata object are returned
      unmodified whatever they are — for the decoder as installed by load_storage_and_trailer_password, by either method *)
  Theorem exempt : forall dc enc meta data,
    (forall num gen, enc = Some (num, gen) ->
       decrypt md5 aes_dec (install dc enc meta) num gen data = Ok data /\
       decrypt_string md5 aes_dec (install dc enc meta) num gen data = Ok data) /\
    (forall num gen, meta = Some (num, gen) -> k_em dc = false ->
       decrypt md5 aes_dec (install dc enc meta) num gen data = Ok data /\
       decrypt_string md5 aes_dec (install dc enc meta) num gen data = Ok data).
  Proof.
    intros dc enc meta data. split; intros num gen ->.
    - unfold decrypt, decrypt_string, decrypt_with, install; cbn [k_enc_obj k_meta_obj k_em oref_is]. rewrite !N.eqb_refl. split; reflexivity.
    - intros Hem. unfold decrypt, decrypt_string, decrypt_with, install; cbn [k_enc_obj k_meta_obj k_em]. rewrite Hem.
      destruct (oref_is enc num gen); [split; reflexivity|]. cbn [oref_is negb]. rewrite !N.eqb_refl. split; reflexivity.
  Qed.

  (* installation keeps the key material: a decoder that opens a document still fits after install *)
  Lemma decoder_for_install dc fk m ms enc meta : decoder_for dc fk m ms -> decoder_for (install dc enc meta) fk m ms.
  Proof. unfold decoder_for, key_fits, install. cbn [k_method k_smethod k_size k_key]. tauto. Qed.
  (* ------------------------------------------------------------ from opening to reading *)
  (* which crypt filter methods can read a file key of n bytes *)
  Definition meth_fits (n : N) (m : method) : Prop :=
    match m with MNone => True | MV2 => 1 <= n <= 16 | MAESV2 => n = 16 | MAESV3 => n = 32 end.

  (** a decoder that "opens with" the n-byte file key fits it for both of its methods — the premise of the plaintext theorems
      (for a 32-byte key the decoder must hold exactly the key: AES-256 reads all of it) *)
  Lemma opens_decoder_for r n fk m ms em : opens_with r n fk m ms em -> lenN fk = n ->
    meth_fits n m -> meth_fits n ms -> (n = 32 -> exists dc, r = Ok dc /\ k_key dc = fk) ->
    exists dc, r = Ok dc /\ decoder_for dc fk m ms /\ k_em dc = em.
  Proof.
    intros (dc & Hr & Hs & Hk & Hm & Hms & _ & _ & Hem) Hn Fm Fms H32.
    exists dc. split; [exact Hr|]. split; [|exact Hem].
    assert (Hfit : forall x, meth_fits n x -> key_fits dc fk x).
    { intros x Hx. destruct x; cbn [meth_fits key_fits] in *.
      - exact I.
      - rewrite Hn. split; [lia|split; [exact Hs|exact Hk]].
      - rewrite <- Hx, <- Hn. split; [reflexivity|]. rewrite Hn. split; [exact Hs|exact Hk].
      - split; [lia|]. destruct (H32 Hx) as (dc' & Hr' & Hk'). rewrite Hr in Hr'. inversion Hr'; subst dc'. exact Hk'. }
    repeat split; [exact Hm|exact Hms|apply Hfit; exact Fm|apply Hfit; exact Fms].
  Qed.

  (** revisions 2-4, end to end: a dictionary written by Algorithms 3-5 opens with the user password and then every stream
      (under /StmF's method) and every string (under /StrF's method) a conforming writer stored reads back as its plaintext *)
  Theorem open_user_rc4_reads : forall fuel d id0 upw R n m ms tail, std_rc4_dict d R n m ms ->
    meth_fits n m -> meth_fits n ms ->
    let fk := alg2 MD5 R n upw (d_o d) (d_p d) id0 (d_em d) in
    d_u d = u_entry R fk id0 tail ->
    exists dc, FP fuel d id0 upw = Ok dc /\
      forall enc meta num gen iv data, lenN iv = 16 ->
        let dc' := install dc enc meta in
        decrypt md5 aes_dec dc' num gen (protect_bytes MD5 AESE m fk enc meta (negb (k_em dc)) num gen iv data) = Ok data /\
        ctx_decrypt md5 aes_dec (Some dc') num gen (protect_bytes MD5 AESE ms fk enc meta (negb (k_em dc)) num gen iv data) = Ok data.
  Proof.
    intros fuel d id0 upw R n m ms tail Hd Fm Fms fk HU.
    pose proof (open_user_rc4 fuel d id0 upw R n m ms tail Hd HU) as Ho. fold fk in Ho.
    destruct Hd as (_ & _ & _ & Hn).
    assert (Lfk : lenN fk = n).
    { unfold fk. rewrite alg2_take. apply lenN_take. rewrite alg2_full_len. lia. }
    destruct (opens_decoder_for _ _ _ _ _ _ Ho Lfk Fm Fms) as (dc & Hr & Hfor & _); [intros ->; lia|].
    exists dc. split; [exact Hr|]. intros enc meta num gen iv data Hiv dc'.
    pose proof (decoder_for_install dc fk m ms enc meta Hfor) as Hfor'. fold dc' in Hfor'.
    split.
    - exact (plaintext dc' fk m ms num gen iv data Hfor' Hiv).
    - exact (plaintext_string dc' fk m ms num gen iv data Hfor' Hiv).
  Qed.
End Refinement.
