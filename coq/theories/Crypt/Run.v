(** Crypt/Run.v — harness entry points of the Crypt model.  The external primitives (MD5, SHA-2, AES-CBC,
    SASLprep, zlib) are answered from an oracle table carried by the case (computed by python: hashlib and
    tools/oracle/security.py); a query that is not in the table is [Err 99] — a defect of the machinery,
    never a statement about the code. *)
From PdfV Require Import Base.Prelude Gen.Generated Codec.Model Crypt.Rc4 Crypt.Model.

Definition fld (fs : list bytes) (i : nat) : bytes := nth i fs [].
Definition opt_field (b : bytes) : option bytes :=
  match b with c :: t => if c =? 49 then Some t else None | [] => None end.
Definition method_of (n : N) : method :=
  if n =? 1 then MV2 else if n =? 2 then MAESV2 else if n =? 3 then MAESV3 else MNone.
Definition method_name (m : method) : bytes :=
  match m with MNone => [78;111;110;101] | MV2 => [86;50] | MAESV2 => [65;69;83;86;50] | MAESV3 => [65;69;83;86;51] end.

(* oracle table *)
Inductive oentry := OEnt (tag : N) (args : list bytes) (out : bytes).
Definition E_ORACLE : N := 99.

Fixpoint parse_tbl (fuel : nat) (fs : list bytes) : list oentry :=
  match fuel with
  | O => []
  | S f =>
      match fs with
      | [t] :: rest =>
          if (t =? 101) || (t =? 100) then
            match rest with a :: b :: c :: o :: r => OEnt t [a; b; c] o :: parse_tbl f r | _ => [] end
          else
            match rest with a :: o :: r => OEnt t [a] o :: parse_tbl f r | _ => [] end
      | _ => []
      end
  end.

Fixpoint args_eqb (a b : list bytes) : bool :=
  match a, b with
  | [], [] => true
  | x :: a', y :: b' => bytes_eqb x y && args_eqb a' b'
  | _, _ => false
  end.

Fixpoint lookup (tbl : list oentry) (tag : N) (args : list bytes) : res bytes :=
  match tbl with
  | [] => Err E_ORACLE
  | OEnt t a o :: rest => if (t =? tag) && args_eqb a args then Ok o else lookup rest tag args
  end.

Definition o_md5 tbl x := lookup tbl 109 [x].
Definition o_sha256 tbl x := lookup tbl 50 [x].
Definition o_sha384 tbl x := lookup tbl 51 [x].
Definition o_sha512 tbl x := lookup tbl 53 [x].
Definition o_enc tbl k iv x := lookup tbl 101 [k; iv; x].
Definition o_dec tbl k iv x := lookup tbl 100 [k; iv; x].
Definition o_prep tbl x : res (option bytes) := do r <- lookup tbl 112 [x]; Ok (opt_field r).
Definition o_zlib tbl x := lookup tbl 122 [x].

Fixpoint parse_cf (n : nat) (fs : list bytes) : list (bytes * crypt_filter) * list bytes :=
  match n with
  | O => ([], fs)
  | S k =>
      match fs with
      | nm :: m :: l :: rest =>
          let '(t, r) := parse_cf k rest in
          ((nm, {| cf_method := method_of (N_of_dec m);
                   cf_length := match opt_field l with Some x => Some (N_of_dec x) | None => None end |}) :: t, r)
      | _ => ([], [])
      end
  end.

(* R V P bits em O U OE? UE? StmF? StrF? ncf (name method len?)*  ->  dictionary, rest *)
Definition parse_dict (fs : list bytes) : crypt_dict * list bytes :=
  let ncf := N.to_nat (N_of_dec (fld fs 11)) in
  let '(cf, rest) := parse_cf ncf (skipn 12 fs) in
  ({| d_o := fld fs 5; d_u := fld fs 6; d_r := N_of_dec (fld fs 0); d_p := Z_of_dec (fld fs 2); d_v := Z_of_dec (fld fs 1);
      d_bits := (match fld fs 3 with [c] => if c =? 120 then 40 else N_of_dec [c] | l => N_of_dec l end);
      d_cf := cf; d_stmf := opt_field (fld fs 9); d_strf := opt_field (fld fs 10);
      d_em := (match fld fs 4 with [c] => negb (c =? 48) | _ => true end);
      d_oe := opt_field (fld fs 7); d_ue := opt_field (fld fs 8) |}, rest).

Definition ekind_name (e : N) : bytes :=
  if e =? 1 then [73;110;118;97;108;105;100;80;97;115;115;119;111;114;100]
  else if e =? 2 then [77;105;115;115;105;110;103;69;110;116;114;121]
  else if e =? 3 then [68;101;99;114;121;112;116;105;111;110;70;97;105;108;117;114;101]
  else [79;116;104;101;114].

(* "+data" | "!Kind"; an oracle miss, a panic or fuel exhaustion end the whole run *)
Definition item_of (r : res bytes) : res bytes :=
  match r with
  | Ok d => Ok (43 :: d)
  | Err e => if e =? E_ORACLE then Err E_ORACLE else Ok (33 :: ekind_name e)
  | Panic s => Panic s
  | OutOfFuel => OutOfFuel
  end.

Fixpoint run_items (tbl : list oentry) (dc : decoder) (n : nat) (fs : list bytes) : res (list bytes * list bytes) :=
  match n with
  | O => Ok ([], fs)
  | S k =>
      match fs with
      | [kind] :: a :: b :: c :: rest =>                 (* kind: "s" a string (decrypt_string), anything else a stream (decrypt) *)
          do x <- item_of ((if kind =? 115 then decrypt_string else decrypt) (o_md5 tbl) (o_dec tbl) dc (N_of_dec a) (N_of_dec b) c);
          do yr <- run_items tbl dc k rest;
          let '(y, r) := yr in Ok (x :: y, r)
      | _ => Err 98
      end
  end.

Definition tbl_after_items (n : nat) (fs : list bytes) : list bytes := skipn (4 * n) fs.

(* mode crypt_open: dict.. id password fuel nitems (kind obj gen data)* tables *)
Definition run_crypt_open (fs : list bytes) : res (list bytes) :=
  let '(d, rest) := parse_dict fs in
  let id0 := fld rest 0 in let pass := fld rest 1 in
  let fuel := N.to_nat (N_of_dec (fld rest 2)) in
  let n := N.to_nat (N_of_dec (fld rest 3)) in
  let items := skipn 4 rest in
  let tbl := parse_tbl (length fs) (tbl_after_items n items) in
  do dc <- from_password (o_md5 tbl) (o_sha256 tbl) (o_sha384 tbl) (o_sha512 tbl) (o_enc tbl) (o_dec tbl) (o_prep tbl) fuel d id0 pass;
  do k <- dkey dc;                                  (* the harness observes the decoder through its Debug impl *)
  do yr <- run_items tbl dc n items;
  Ok (k :: method_name (k_method dc) :: method_name (k_smethod dc) :: fst yr).

(* mode crypt_dec: key key_size method string_method em nitems (kind obj gen data)* tables *)
Definition run_crypt_dec (fs : list bytes) : res (list bytes) :=
  let dc := decoder_with (fld fs 0) (N_of_dec (fld fs 1)) (method_of (N_of_dec (fld fs 2))) (method_of (N_of_dec (fld fs 3)))
                         (match fld fs 4 with [c] => c =? 49 | _ => false end) in
  let n := N.to_nat (N_of_dec (fld fs 5)) in
  let items := skipn 6 fs in
  let tbl := parse_tbl (length fs) (tbl_after_items n items) in
  do yr <- run_items tbl dc n items;
  Ok (fst yr).

(* mode rc4: key data *)
Definition run_rc4 (fs : list bytes) : res (list bytes) := rmap (fun o => [o]) (rc4 (fld fs 0) (fld fs 1)).

(* filter chains of the document mode: "-" none, "h" ASCIIHex, "a" ASCII85, "z" Flate (oracle), combinations in order *)
Fixpoint filters_of (tbl : list oentry) (spec : bytes) (x : bytes) : res bytes :=
  match spec with
  | [] => Ok x
  | c :: t =>
      do y <- (if c =? 104 then decode_hex x else if c =? 97 then decode_85 x else if c =? 122 then o_zlib tbl x else Err 98);
      filters_of tbl t y
  end.

Definition oref_of (flag num gen : bytes) : oref :=
  match flag with [c] => if c =? 49 then Some (N_of_dec num, N_of_dec gen) else None | _ => None end.

(* leaves: (kind num gen filters data)*; kinds: S string of an indirect object, R raw stream data, D decoded stream data,
   P probe (Resolve::stream_data), M string of an object-stream member (parsed without a decryption context) *)
Fixpoint run_leaves (tbl : list oentry) (dc : decoder) (n : nat) (fs : list bytes) : res (list bytes) :=
  match n with
  | O => Ok []
  | S k =>
      match fs with
      | [kind] :: a :: b :: fl :: c :: rest =>
          let id := N_of_dec a in let gen := N_of_dec b in
          let md := o_md5 tbl in let ad := o_dec tbl in
          do x <- (if kind =? 83 then do s <- ctx_decrypt md ad (Some dc) id gen c; Ok (83 :: s)
                   else if kind =? 77 then do s <- ctx_decrypt md ad None id gen c; Ok (83 :: s)
                   else if kind =? 68 then do s <- item_of (storage_decode md ad (filters_of tbl fl) (Some dc) id gen c); Ok (68 :: s)
                   else do s <- item_of (storage_decode md ad (fun y => Ok y) (Some dc) id gen c); Ok (kind :: s));
          do y <- run_leaves tbl dc k rest;
          Ok (x :: y)
      | _ => Err 98
      end
  end.

(* mode crypt_doc (model side): dict.. id password fuel encflag encnum encgen metaflag metanum metagen nleaves leaves* tables *)
Definition run_crypt_doc (fs : list bytes) : res (list bytes) :=
  let '(d, rest) := parse_dict fs in
  let id0 := fld rest 0 in let pass := fld rest 1 in
  let fuel := N.to_nat (N_of_dec (fld rest 2)) in
  let er := oref_of (fld rest 3) (fld rest 4) (fld rest 5) in
  let mr := oref_of (fld rest 6) (fld rest 7) (fld rest 8) in
  let n := N.to_nat (N_of_dec (fld rest 9)) in
  let leaves := skipn 10 rest in
  let tbl := parse_tbl (length fs) (skipn (5 * n) leaves) in
  do dc <- load_decoder (o_md5 tbl) (o_sha256 tbl) (o_sha384 tbl) (o_sha512 tbl) (o_enc tbl) (o_dec tbl) (o_prep tbl) fuel d id0 pass er mr;
  run_leaves tbl dc n leaves.
