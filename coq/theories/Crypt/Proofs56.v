(** Crypt/Proofs56.v — Decoder::from_password for revisions 5 and 6 refines Algorithm 2.A of ISO 32000-2 §7.6.4.3.3
    (user test: Algorithm 11, owner test: Algorithm 12), and opens what Algorithms 8 (U/UE) and 9 (O/OE) write.
    SHA-2, AES-CBC and SASLprep are abstract functions; the laws used are explicit hypotheses:
    SHA-256 digests have 32 bytes (for the revision 6 hash, through kdf_refines), AES-CBC decryption inverts encryption on
    whole blocks. *)
From PdfV Require Import Base.Prelude Gen.Generated Crypt.Rc4 Crypt.Model Crypt.Spec Crypt.Proofs Crypt.KdfProofs.

Lemma take_127 (p : bytes) : (if 127 <? lenN p then take 127 p else p) = pw56 p.
Proof.
  unfold pw56. destruct (127 <? lenN p) eqn:E; [reflexivity|].
  apply N.ltb_ge in E. symmetry. apply take_all. exact E.
Qed.

Section R56.
  Variable MD5 SHA256 SHA384 SHA512 : bytes -> bytes.
  Variable AESE AESD : bytes -> bytes -> bytes -> bytes.
  Variable PREP : bytes -> option bytes.
  Hypothesis sha256_len : forall x, length (SHA256 x) = 32%nat.

  Let md5 := fun x : bytes => @Ok bytes (MD5 x).
  Let sha256 := fun x : bytes => @Ok bytes (SHA256 x).
  Let sha384 := fun x : bytes => @Ok bytes (SHA384 x).
  Let sha512 := fun x : bytes => @Ok bytes (SHA512 x).
  Let aes_enc := fun k iv x : bytes => @Ok bytes (AESE k iv x).
  Let aes_dec := fun k iv x : bytes => @Ok bytes (AESD k iv x).
  Let prep := fun x : bytes => @Ok (option bytes) (PREP x).

  Notation HASH := (hash56 SHA256 SHA384 SHA512 AESE).
  Notation FP56 := (from_password_56 sha256 sha384 sha512 aes_enc aes_dec prep).
  Notation FP := (from_password md5 sha256 sha384 sha512 aes_enc aes_dec prep).

  (* the hash the code computes: revision_6_kdf for level 6, one SHA-256 for level 5 *)
  Notation code_hash fuel level pw salt uu :=
    (if level =? 6 then revision_6_kdf sha256 sha384 sha512 aes_enc fuel pw salt uu else r5_hash sha256 pw salt uu).

  Lemma code_hash_refines fuel R pw salt uu h : HASH R fuel pw salt uu = Some h -> code_hash fuel R pw salt uu = Ok h.
  Proof.
    unfold hash56. destruct (R =? 6).
    - intros H. apply (kdf_refines SHA256 SHA384 SHA512 AESE sha256_len). exact H.
    - intros H. inversion H; subst h. reflexivity.
  Qed.

  Definition em_of (d : crypt_dict) : bool := d_em d || (d_v d <? 4)%Z.

  (* what the code makes of an unwrapped key *)
  Definition finish56 (m ms : method) (d : crypt_dict) (k : bytes) : res decoder :=
    if negb (lenN k =? 32) then Err E_OTHER else Ok (decoder_with k 32 m ms (em_of d)).

  Definition result56 (m ms : method) (d : crypt_dict) (r : option bytes) : res decoder :=
    match r with Some k => finish56 m ms d k | None => Err E_INVALID_PASSWORD end.

  (** from_password, revisions 5 and 6, is Algorithm 2.A with the user test first: for every dictionary whose U and O have
      48 bytes and whose UE/OE are whole AES blocks, every preparable password and every fuel on which the hashes are defined *)
  Theorem from_password_56_refines : forall fuel R m ms d pass p ue oe ru ro,
    PREP pass = Some p -> lenN (d_u d) = 48 -> lenN (d_o d) = 48 ->
    d_ue d = Some ue -> d_oe d = Some oe -> lenN ue mod 16 = 0 -> lenN oe mod 16 = 0 ->
    alg2a_user SHA256 SHA384 SHA512 AESE AESD R fuel (pw56 p) (d_u d) ue = Some ru ->
    (ru = None -> alg2a_owner SHA256 SHA384 SHA512 AESE AESD R fuel (pw56 p) (d_o d) (d_u d) oe = Some ro) ->
    FP56 fuel R m ms d pass = match ru with Some k => finish56 m ms d k | None => result56 m ms d ro end.
  Proof.
    intros fuel R m ms d pass p ue oe ru ro Hp HU HO Hue Hoe Lue Loe Hu Ho.
    unfold from_password_56. rewrite HU, HO. cbn [N.eqb Pos.eqb negb].
    unfold prep at 1. cbn [bind]. rewrite Hp, take_127, Hue, Hoe. cbv beta zeta.
    unfold alg2a_user in Hu. fold (vsalt (d_u d)) (ksalt (d_u d)) (vsalt (d_o d)) (ksalt (d_o d)).
    destruct (HASH R fuel (pw56 p) (vsalt (d_u d)) []) as [hv|] eqn:Ehv; [|discriminate].
    rewrite (code_hash_refines _ _ _ _ _ _ Ehv). cbn [bind].
    destruct (bytes_eqb hv (take 32 (d_u d))) eqn:Eu.
    - destruct (HASH R fuel (pw56 p) (ksalt (d_u d)) []) as [ik|] eqn:Eik; [|discriminate].
      inversion Hu; subst ru. rewrite (code_hash_refines _ _ _ _ _ _ Eik). cbn [bind].
      rewrite Lue. cbn [N.eqb negb]. unfold aes_dec at 1. cbn [bind]. reflexivity.
    - inversion Hu; subst ru. specialize (Ho eq_refl). unfold alg2a_owner in Ho.
      destruct (HASH R fuel (pw56 p) (vsalt (d_o d)) (d_u d)) as [ho|] eqn:Eho; [|discriminate].
      rewrite (code_hash_refines _ _ _ _ _ _ Eho). cbn [bind].
      destruct (bytes_eqb ho (take 32 (d_o d))) eqn:Eo.
      + destruct (HASH R fuel (pw56 p) (ksalt (d_o d)) (d_u d)) as [ik|] eqn:Eik; [|discriminate].
        inversion Ho; subst ro. rewrite (code_hash_refines _ _ _ _ _ _ Eik). cbn [bind].
        rewrite Loe. cbn [N.eqb negb]. unfold aes_dec at 1. cbn [bind]. reflexivity.
      + inversion Ho; subst ro. reflexivity.
  Qed.

  (* ------------------------------------------------------------ at the level of Decoder::from_password *)
  Definition std_56_dict (d : crypt_dict) (R : N) (m ms : method) : Prop :=
    (exists bits, crypt_method d = Ok (bits, m, ms)) /\ d_r d = R /\ (R = 5 \/ R = 6).

  Lemma from_password_56_entry fuel d id0 pass R m ms : std_56_dict d R m ms -> FP fuel d id0 pass = FP56 fuel R m ms d pass.
  Proof.
    intros ([bits Hcm] & Hr & HR). unfold from_password. rewrite Hcm. cbn [bind]. rewrite Hr.
    destruct HR as [-> | ->]; reflexivity.
  Qed.

  (* U / O as Algorithms 8 / 9 lay them out *)
  Lemma layout_len (h vs ks : bytes) : lenN h = 32 -> lenN vs = 8 -> lenN ks = 8 -> lenN (h ++ vs ++ ks) = 48.
  Proof. intros H1 H2 H3. rewrite !lenN_app. lia. Qed.
  Lemma layout_hash (h vs ks : bytes) : lenN h = 32 -> take 32 (h ++ vs ++ ks) = h.
  Proof. intros H. apply take_app_exact. exact H. Qed.
  Lemma layout_vsalt (h vs ks : bytes) : lenN h = 32 -> lenN vs = 8 -> vsalt (h ++ vs ++ ks) = vs.
  Proof. intros H1 H2. unfold vsalt. rewrite drop_app_exact by exact H1. apply take_app_exact. exact H2. Qed.
  Lemma layout_ksalt (h vs ks : bytes) : lenN h = 32 -> lenN vs = 8 -> lenN ks = 8 -> ksalt (h ++ vs ++ ks) = ks.
  Proof.
    intros H1 H2 H3. unfold ksalt. rewrite app_assoc. rewrite drop_app_exact by (rewrite lenN_app; lia).
    apply take_all. lia.
  Qed.

  Hypothesis sha384_len : forall x, length (SHA384 x) = 48%nat.
  Hypothesis sha512_len : forall x, length (SHA512 x) = 64%nat.
  Hypothesis aes_inv : forall k iv x, lenN x mod 16 = 0 -> AESD k iv (AESE k iv x) = x.
  Hypothesis aes_len : forall k iv x, lenN (AESE k iv x) = lenN x.

  Lemma alg2b_loop_len : forall fuel i pw u K h,
    alg2b_loop SHA256 SHA384 SHA512 AESE fuel i pw u K = Some h -> lenN h = 32.
  Proof.
    induction fuel as [|f IH]; intros i pw u K h H; [discriminate|]. cbn [alg2b_loop] in H.
    set (E := AESE (take 16 K) (take 16 (drop 16 K)) (rep64 (pw ++ K ++ u))) in *.
    destruct ((64 <=? i + 1) && (last E 0 <=? i + 1 - 32)); [|exact (IH _ _ _ _ _ H)].
    inversion H. apply lenN_take. unfold lenN.
    destruct (be_nat (take 16 E) mod 3 =? 0); [rewrite sha256_len; lia|].
    destruct (be_nat (take 16 E) mod 3 =? 1); [rewrite sha384_len|rewrite sha512_len]; lia.
  Qed.

  (* the hash of Algorithms 8, 9, 2.A has 32 bytes *)
  Lemma hash56_len R fuel pw salt uu h : HASH R fuel pw salt uu = Some h -> lenN h = 32.
  Proof.
    unfold hash56. destruct (R =? 6).
    - apply alg2b_loop_len.
    - intros H. inversion H. unfold lenN. rewrite sha256_len. reflexivity.
  Qed.

  (** a dictionary whose U and UE were written by Algorithm 8 for the (prepared) user password opens with it and the
      decoder holds the file key *)
  Lemma open_user_56_eq : forall fuel d id0 upw p R m ms hv hk vs ks fk oe,
    std_56_dict d R m ms -> PREP upw = Some p ->
    lenN vs = 8 -> lenN ks = 8 -> lenN fk = 32 ->
    HASH R fuel (pw56 p) vs [] = Some hv -> HASH R fuel (pw56 p) ks [] = Some hk ->
    d_u d = alg8_U hv vs ks -> d_ue d = Some (alg8_UE AESE hk fk) ->
    lenN (d_o d) = 48 -> d_oe d = Some oe -> lenN oe mod 16 = 0 ->
    FP fuel d id0 upw = Ok (decoder_with fk 32 m ms (em_of d)).
  Proof.
    intros fuel d id0 upw p R m ms hv hk vs ks fk oe Hd Hp Lvs Lks Lfk Hhv Hhk HU HUE LO HOE Loe.
    pose proof (hash56_len _ _ _ _ _ _ Hhv) as Lhv.
    rewrite (from_password_56_entry fuel d id0 upw R m ms Hd).
    assert (Lue : lenN (alg8_UE AESE hk fk) mod 16 = 0) by (unfold alg8_UE; rewrite aes_len, Lfk; reflexivity).
    assert (LU : lenN (d_u d) = 48) by (rewrite HU; apply layout_len; assumption).
    assert (Hu : alg2a_user SHA256 SHA384 SHA512 AESE AESD R fuel (pw56 p) (d_u d) (alg8_UE AESE hk fk) = Some (Some fk)).
    { unfold alg2a_user. rewrite HU. unfold alg8_U.
      rewrite layout_vsalt, layout_ksalt, layout_hash by assumption.
      rewrite Hhv, bytes_eqb_refl, Hhk. unfold alg8_UE. rewrite aes_inv by (rewrite Lfk; reflexivity). reflexivity. }
    rewrite (from_password_56_refines fuel R m ms d upw p _ oe _ None Hp LU LO HUE HOE Lue Loe Hu) by discriminate.
    unfold finish56. rewrite Lfk. reflexivity.
  Qed.

  Theorem open_user_56 : forall fuel d id0 upw p R m ms hv hk vs ks fk oe,
    std_56_dict d R m ms -> PREP upw = Some p ->
    lenN vs = 8 -> lenN ks = 8 -> lenN fk = 32 ->
    HASH R fuel (pw56 p) vs [] = Some hv -> HASH R fuel (pw56 p) ks [] = Some hk ->
    d_u d = alg8_U hv vs ks -> d_ue d = Some (alg8_UE AESE hk fk) ->
    lenN (d_o d) = 48 -> d_oe d = Some oe -> lenN oe mod 16 = 0 ->
    opens_with (FP fuel d id0 upw) 32 fk m ms (em_of d).
  Proof.
    intros fuel d id0 upw p R m ms hv hk vs ks fk oe Hd Hp Lvs Lks Lfk Hhv Hhk HU HUE LO HOE Loe.
    rewrite (open_user_56_eq fuel d id0 upw p R m ms hv hk vs ks fk oe Hd Hp Lvs Lks Lfk Hhv Hhk HU HUE LO HOE Loe).
    eexists. split; [reflexivity|]. cbn [decoder_with k_size k_key k_method k_smethod k_enc_obj k_meta_obj k_em].
    repeat split; try reflexivity. apply take_all. lia.
  Qed.

  (** a dictionary whose O and OE were written by Algorithm 9 for the (prepared) owner password opens with it and the decoder
      holds the file key (premise: the owner password is not also accepted as the user password) *)
  Lemma open_owner_56_eq : forall fuel d id0 opw p R m ms hx ho hk vs ks fk ue,
    std_56_dict d R m ms -> PREP opw = Some p ->
    lenN vs = 8 -> lenN ks = 8 -> lenN fk = 32 ->
    lenN (d_u d) = 48 -> d_ue d = Some ue -> lenN ue mod 16 = 0 ->
    HASH R fuel (pw56 p) (vsalt (d_u d)) [] = Some hx -> hx <> take 32 (d_u d) ->
    HASH R fuel (pw56 p) vs (d_u d) = Some ho -> HASH R fuel (pw56 p) ks (d_u d) = Some hk ->
    d_o d = alg9_O ho vs ks -> d_oe d = Some (alg9_OE AESE hk fk) ->
    FP fuel d id0 opw = Ok (decoder_with fk 32 m ms (em_of d)).
  Proof.
    intros fuel d id0 opw p R m ms hx ho hk vs ks fk ue Hd Hp Lvs Lks Lfk LU HUE Lue Hhx Hne Hho Hhk HO HOE.
    pose proof (hash56_len _ _ _ _ _ _ Hho) as Lho.
    rewrite (from_password_56_entry fuel d id0 opw R m ms Hd).
    assert (Loe : lenN (alg9_OE AESE hk fk) mod 16 = 0) by (unfold alg9_OE; rewrite aes_len, Lfk; reflexivity).
    assert (LO : lenN (d_o d) = 48) by (rewrite HO; apply layout_len; assumption).
    assert (Hu : alg2a_user SHA256 SHA384 SHA512 AESE AESD R fuel (pw56 p) (d_u d) ue = Some None).
    { unfold alg2a_user. rewrite Hhx, (bytes_eqb_neq _ _ Hne). reflexivity. }
    assert (Ho : alg2a_owner SHA256 SHA384 SHA512 AESE AESD R fuel (pw56 p) (d_o d) (d_u d) (alg9_OE AESE hk fk) = Some (Some fk)).
    { unfold alg2a_owner. rewrite HO. unfold alg9_O.
      rewrite layout_vsalt, layout_ksalt, layout_hash by assumption.
      rewrite Hho, bytes_eqb_refl, Hhk. unfold alg9_OE. rewrite aes_inv by (rewrite Lfk; reflexivity). reflexivity. }
    rewrite (from_password_56_refines fuel R m ms d opw p ue _ _ _ Hp LU LO HUE HOE Lue Loe Hu (fun _ => Ho)).
    unfold result56, finish56. rewrite Lfk. reflexivity.
  Qed.

  Theorem open_owner_56 : forall fuel d id0 opw p R m ms hx ho hk vs ks fk ue,
    std_56_dict d R m ms -> PREP opw = Some p ->
    lenN vs = 8 -> lenN ks = 8 -> lenN fk = 32 ->
    lenN (d_u d) = 48 -> d_ue d = Some ue -> lenN ue mod 16 = 0 ->
    HASH R fuel (pw56 p) (vsalt (d_u d)) [] = Some hx -> hx <> take 32 (d_u d) ->
    HASH R fuel (pw56 p) vs (d_u d) = Some ho -> HASH R fuel (pw56 p) ks (d_u d) = Some hk ->
    d_o d = alg9_O ho vs ks -> d_oe d = Some (alg9_OE AESE hk fk) ->
    opens_with (FP fuel d id0 opw) 32 fk m ms (em_of d).
  Proof.
    intros fuel d id0 opw p R m ms hx ho hk vs ks fk ue Hd Hp Lvs Lks Lfk LU HUE Lue Hhx Hne Hho Hhk HO HOE.
    rewrite (open_owner_56_eq fuel d id0 opw p R m ms hx ho hk vs ks fk ue Hd Hp Lvs Lks Lfk LU HUE Lue Hhx Hne Hho Hhk HO HOE).
    eexists. split; [reflexivity|]. cbn [decoder_with k_size k_key k_method k_smethod k_enc_obj k_meta_obj k_em].
    repeat split; try reflexivity. apply take_all. lia.
  Qed.

  (** a password that is neither the user password (Algorithm 11) nor the owner password (Algorithm 12), and a password
      that SASLprep rejects, end in InvalidPassword *)
  Theorem wrong_pw_56 : forall fuel d id0 pw R m ms ue oe,
    std_56_dict d R m ms -> lenN (d_u d) = 48 -> lenN (d_o d) = 48 ->
    d_ue d = Some ue -> d_oe d = Some oe -> lenN ue mod 16 = 0 -> lenN oe mod 16 = 0 ->
    (PREP pw = None \/
     exists p, PREP pw = Some p /\
       alg2a_user SHA256 SHA384 SHA512 AESE AESD R fuel (pw56 p) (d_u d) ue = Some None /\
       alg2a_owner SHA256 SHA384 SHA512 AESE AESD R fuel (pw56 p) (d_o d) (d_u d) oe = Some None) ->
    FP fuel d id0 pw = Err E_INVALID_PASSWORD.
  Proof.
    intros fuel d id0 pw R m ms ue oe Hd LU LO HUE HOE Lue Loe H.
    rewrite (from_password_56_entry fuel d id0 pw R m ms Hd). destruct H as [Hn | (p & Hp & Hu & Ho)].
    - unfold from_password_56. rewrite LU, LO. cbn [N.eqb Pos.eqb negb]. unfold prep at 1. cbn [bind]. rewrite Hn. reflexivity.
    - rewrite (from_password_56_refines fuel R m ms d pw p ue oe _ _ Hp LU LO HUE HOE Lue Loe Hu (fun _ => Ho)). reflexivity.
  Qed.

  (** ... and only then: a decoder is returned iff Algorithm 11 or Algorithm 12 accepts the prepared password (and the
      unwrapped key has the 32 bytes of a file key) *)
  Theorem accepted_iff_56 : forall fuel d id0 pw p R m ms ue oe ru ro,
    std_56_dict d R m ms -> PREP pw = Some p -> lenN (d_u d) = 48 -> lenN (d_o d) = 48 ->
    d_ue d = Some ue -> d_oe d = Some oe -> lenN ue mod 16 = 0 -> lenN oe mod 16 = 0 ->
    alg2a_user SHA256 SHA384 SHA512 AESE AESD R fuel (pw56 p) (d_u d) ue = Some ru ->
    alg2a_owner SHA256 SHA384 SHA512 AESE AESD R fuel (pw56 p) (d_o d) (d_u d) oe = Some ro ->
    ((exists dc, FP fuel d id0 pw = Ok dc) <->
     (exists k, lenN k = 32 /\ (ru = Some k \/ (ru = None /\ ro = Some k)))).
  Proof.
    intros fuel d id0 pw p R m ms ue oe ru ro Hd Hp LU LO HUE HOE Lue Loe Hu Ho.
    rewrite (from_password_56_entry fuel d id0 pw R m ms Hd).
    rewrite (from_password_56_refines fuel R m ms d pw p ue oe _ _ Hp LU LO HUE HOE Lue Loe Hu (fun _ => Ho)).
    assert (Hfin : forall k, (exists dc, finish56 m ms d k = Ok dc) <-> lenN k = 32).
    { intros k. unfold finish56. destruct (lenN k =? 32) eqn:E; cbn [negb].
      - apply N.eqb_eq in E. split; [intros _; exact E|intros _; eexists; reflexivity].
      - apply N.eqb_neq in E. split; [intros [dc H]; discriminate|intros H; contradiction]. }
    destruct ru as [k|].
    - rewrite Hfin. split.
      + intros H. exists k. split; [exact H|left; reflexivity].
      + intros (k' & Hk & [H|[H _]]); [inversion H; subst k'; exact Hk|discriminate].
    - destruct ro as [k|]; cbn [result56].
      + rewrite Hfin. split.
        * intros H. exists k. split; [exact H|right; split; reflexivity].
        * intros (k' & Hk & [H|[_ H]]); [discriminate|inversion H; subst k'; exact Hk].
      + split; [intros [dc H]; discriminate|intros (k' & _ & [H|[_ H]]); discriminate].
  Qed.
  (** revisions 5/6, end to end: the decoder an Algorithm-8/9 dictionary opens with reads back, as plaintext, every stream
      (under /StmF's method) and every string (under /StrF's method) a conforming writer stored under the 32-byte file key;
      [Hmd5]: MD5 is not used by AES-256 / Identity, the law is only needed to instantiate the plaintext theorems *)
  Theorem opened_56_reads : forall (Hmd5 : forall x, length (MD5 x) = 16%nat) r fk m ms em,
    r = Ok (decoder_with fk 32 m ms em) -> lenN fk = 32 -> meth_fits 32 m -> meth_fits 32 ms ->
    exists dc, r = Ok dc /\
      forall enc meta num gen iv data, lenN iv = 16 ->
        let dc' := install dc enc meta in
        decrypt md5 aes_dec dc' num gen (protect_bytes MD5 AESE m fk enc meta (negb (k_em dc)) num gen iv data) = Ok data /\
        ctx_decrypt md5 aes_dec (Some dc') num gen (protect_bytes MD5 AESE ms fk enc meta (negb (k_em dc)) num gen iv data) = Ok data.
  Proof.
    intros Hmd5 r fk m ms em Hr Lfk Fm Fms. exists (decoder_with fk 32 m ms em). split; [exact Hr|].
    intros enc meta num gen iv data Hiv dc'.
    assert (Hfit : forall x, meth_fits 32 x -> key_fits dc' fk x).
    { intros x Hx. destruct x; cbn [meth_fits key_fits] in *; [exact I|lia|lia|]. split; [exact Lfk|reflexivity]. }
    assert (Hfor : decoder_for dc' fk m ms).
    { split; [reflexivity|]. split; [reflexivity|]. split; apply Hfit; assumption. }
    split.
    - exact (plaintext MD5 AESE AESD Hmd5 aes_inv aes_len dc' fk m ms num gen iv data Hfor Hiv).
    - exact (plaintext_string MD5 AESE AESD Hmd5 aes_inv aes_len dc' fk m ms num gen iv data Hfor Hiv).
  Qed.
End R56.
