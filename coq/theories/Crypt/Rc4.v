(** Crypt/Rc4.v — model of pdf/src/crypt.rs: struct Rc4 (implemented in the crate, hence modelled concretely).
    No proofs here (Rc4Proofs.v). *)
From PdfV Require Import Base.Prelude.

(* slice indexing of the 256-byte state (indices are u8 in the code, so always in range) *)
Definition sget (s : list N) (i : N) : N := nth (N.to_nat i) s 0.
Fixpoint supd_nat (s : list N) (i : nat) (v : N) : list N :=
  match s with
  | [] => []
  | x :: t => match i with O => v :: t | S k => x :: supd_nat t k v end
  end.
Definition supd (s : list N) (i : N) (v : N) : list N := supd_nat s (N.to_nat i) v.

(* crypt.rs: rc4.state.swap(a, b) *)
Definition sswap (s : list N) (a b : N) : list N :=
  let x := sget s a in let y := sget s b in supd (supd s a y) b x.

(* crypt.rs: Rc4::new — the key-scheduling loop `for i in 0..256` *)
Fixpoint ksa_go (n : nat) (i j : N) (s : list N) (key : bytes) (klen : N) : list N :=
  match n with
  | O => s
  | S n' =>
      let j' := (j + sget s i + sget key (i mod klen)) mod 256 in   (* two wrapping_add on u8 *)
      ksa_go n' (i + 1) j' (sswap s i j') key klen
  end.
Definition ksa (key : bytes) : list N := ksa_go 256 0 0 (seqN 0 256) key (lenN key).

Record rc4_state := { r_i : N; r_j : N; r_s : list N }.

(* crypt.rs: Rc4::next *)
Definition rc4_next (st : rc4_state) : N * rc4_state :=
  let i := (r_i st + 1) mod 256 in
  let j := (r_j st + sget (r_s st) i) mod 256 in
  let s := sswap (r_s st) i j in
  (sget s ((sget s i + sget s j) mod 256), {| r_i := i; r_j := j; r_s := s |}).

(* crypt.rs: Rc4::encrypt — `for b in data.iter_mut() { *b ^= rc4.next() }` *)
Fixpoint rc4_go (st : rc4_state) (data : bytes) : bytes :=
  match data with
  | [] => []
  | b :: t => let '(x, st') := rc4_next st in N.lxor b x :: rc4_go st' t
  end.

Definition rc4_raw (key data : bytes) : bytes := rc4_go {| r_i := 0; r_j := 0; r_s := ksa key |} data.

(* crypt.rs: Rc4::new: assert!(!key.is_empty() && key.len() <= 256) *)
Definition rc4_key_ok (key : bytes) : bool := negb (lenN key =? 0) && (lenN key <=? 256).
Definition rc4 (key data : bytes) : res bytes :=
  if rc4_key_ok key then Ok (rc4_raw key data) else Panic 601.
