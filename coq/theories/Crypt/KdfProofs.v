(** Crypt/KdfProofs.v — Decoder::revision_6_kdf refines Algorithm 2.B of ISO 32000-2 (do-while form, big-endian integer mod 3). *)
From PdfV Require Import Base.Prelude Gen.Generated Crypt.Rc4 Crypt.Model Crypt.Spec.

Lemma mod3_step a s b : a mod 3 = s mod 3 -> (a * 256 + b) mod 3 = (s + b) mod 3.
Proof.
  intros H. replace (a * 256 + b) with (a + b + (85 * a) * 3) by lia.
  rewrite N.mod_add by discriminate. rewrite (N.add_mod a b), (N.add_mod s b) by discriminate. rewrite H. reflexivity.
Qed.

Lemma be_sum_mod3_gen l : forall a s, a mod 3 = s mod 3 ->
  fold_left (fun x b => x * 256 + b) l a mod 3 = fold_left N.add l s mod 3.
Proof.
  induction l as [|b t IH]; intros a s H; cbn [fold_left]; [exact H|]. apply IH. apply mod3_step. exact H.
Qed.

(** "the first 16 bytes as a big-endian integer, modulo 3" is the byte sum modulo 3 (256 = 1 mod 3) *)
Lemma be_sum_mod3 l : be_nat l mod 3 = sumN l mod 3.
Proof. unfold be_nat, sumN. apply be_sum_mod3_gen. reflexivity. Qed.

Section Kdf.
  Variable SHA256 SHA384 SHA512 : bytes -> bytes.
  Variable AESE : bytes -> bytes -> bytes -> bytes.
  Let sha256 := fun x : bytes => @Ok bytes (SHA256 x).
  Let sha384 := fun x : bytes => @Ok bytes (SHA384 x).
  Let sha512 := fun x : bytes => @Ok bytes (SHA512 x).
  Let aes_enc := fun k iv x : bytes => @Ok bytes (AESE k iv x).

  Lemma kdf_loop_exit f i pw u block key iv last_e : ((i <? 64) || (i <? last_e + 32)) = false ->
    kdf_loop sha256 sha384 sha512 aes_enc f i pw u block key iv last_e = Ok (take 32 block).
  Proof. intros H. destruct f; cbn [kdf_loop]; rewrite H; reflexivity. Qed.

  Lemma kdf_loop_refines : forall f i pw u K last_e h, ((i <? 64) || (i <? last_e + 32)) = true ->
    alg2b_loop SHA256 SHA384 SHA512 AESE f i pw u K = Some h ->
    kdf_loop sha256 sha384 sha512 aes_enc f i pw u K (take 16 K) (take 16 (drop 16 K)) last_e = Ok h.
  Proof.
    induction f as [|f IH]; intros i pw u K last_e h Hc Hs; [discriminate|].
    cbn [alg2b_loop] in Hs. cbn [kdf_loop]. rewrite Hc. unfold aes_enc at 1. cbn [bind].
    set (E := AESE (take 16 K) (take 16 (drop 16 K)) (rep64 (pw ++ K ++ u))) in *.
    rewrite <- be_sum_mod3.
    assert (Hr : be_nat (take 16 E) mod 3 < 3) by (apply N.mod_lt; discriminate).
    set (r := be_nat (take 16 E) mod 3) in *.
    set (K' := if r =? 0 then SHA256 E else if r =? 1 then SHA384 E else SHA512 E) in *.
    assert (HK : (do block' <- (if r * 16 + 32 =? 32 then sha256 E else if r * 16 + 32 =? 48 then sha384 E else sha512 E);
                  kdf_loop sha256 sha384 sha512 aes_enc f (i + 1) pw u block' (take 16 block') (take 16 (drop 16 block')) (last E 0))
                 = kdf_loop sha256 sha384 sha512 aes_enc f (i + 1) pw u K' (take 16 K') (take 16 (drop 16 K')) (last E 0)).
    { unfold K'. assert (Hcase : r = 0 \/ r = 1 \/ r = 2) by lia. destruct Hcase as [H0|[H0|H0]]; rewrite H0; reflexivity. }
    rewrite HK. clear HK.
    destruct ((64 <=? i + 1) && (last E 0 <=? i + 1 - 32)) eqn:Ex.
    - inversion Hs; subst h. apply kdf_loop_exit.
      apply andb_true_iff in Ex. destruct Ex as [E1 E2]. apply N.leb_le in E1. apply N.leb_le in E2.
      apply orb_false_iff. split; apply N.ltb_ge; lia.
    - apply IH; [|exact Hs].
      apply andb_false_iff in Ex. apply orb_true_iff. destruct Ex as [E1|E2].
      + left. apply N.ltb_lt. apply N.leb_gt in E1. exact E1.
      + apply N.leb_gt in E2. destruct (i + 1 <? 64) eqn:E3; [left; reflexivity|right]. apply N.ltb_ge in E3. apply N.ltb_lt. lia.
  Qed.

  (** for every fuel on which Algorithm 2.B (as the standard states it) returns, Decoder::revision_6_kdf returns the same hash *)
  Theorem kdf_refines : (forall x, length (SHA256 x) = 32%nat) ->
    forall fuel pw salt u h, alg2b SHA256 SHA384 SHA512 AESE fuel pw salt u = Some h ->
    revision_6_kdf sha256 sha384 sha512 aes_enc fuel pw salt u = Ok h.
  Proof.
    intros Hlen fuel pw salt u h H. unfold revision_6_kdf, alg2b in *. unfold sha256 at 1. cbn [bind].
    set (K := SHA256 (pw ++ salt ++ u)) in *.
    replace (drop 16 K) with (take 16 (drop 16 K)).
    - apply kdf_loop_refines; [reflexivity|exact H].
    - unfold take, drop. apply firstn_all2. rewrite skipn_length. unfold K. rewrite Hlen. change (N.to_nat 16) with 16%nat. lia.
  Qed.
End Kdf.
