(** Crypt/Tables.v — table lemmas: the constants the Crypt model was written with are the ones crypt.rs contains
    now (regenerated into Gen/Generated.v on every run), and the padding string is the one of ISO 32000-1.
    All by computation on the generated terms. *)
From PdfV Require Import Base.Prelude Gen.Generated Crypt.Rc4 Crypt.Model Crypt.Spec.

Lemma padding_is_standard : PADDING = spec_pad.
Proof. vm_compute. reflexivity. Qed.

Lemma salt_is_standard : crypt_salt = salt_tag.
Proof. vm_compute. reflexivity. Qed.

Definition crypt_constants : list N :=
  [crypt_u_round_first; crypt_u_round_last; crypt_md5_rev; crypt_md5_rounds; crypt_meta_rev; crypt_pw_len; crypt_key_cap;
   crypt_owner_max; crypt_owner_rev; crypt_owner_md5_rounds; crypt_owner_rev2; crypt_owner_rounds2; crypt_owner_rounds;
   crypt_v_rc4_40; crypt_bits_40; crypt_v_rc4; crypt_bits_mod; crypt_v_cf_lo; crypt_v_cf_hi; crypt_v_aesv3; crypt_r_lo; crypt_r_hi;
   crypt_r_rc4_max; crypt_u_len; crypt_o_len; crypt_pw_trunc; crypt_kdf_min; crypt_kdf_tail; crypt_kdf_rep; crypt_kdf_sum;
   crypt_kdf_mod; crypt_kdf_mul; crypt_kdf_add; crypt_kdf_out; crypt_id_bytes; crypt_gen_bytes; crypt_objkey_extra; crypt_objkey_cap;
   crypt_aes_min; crypt_iv_len; crypt_dkey_cap; crypt_fk_len; crypt_fk_size].

(* the literals that appear in Crypt/Model.v, in the same order *)
Lemma constants_as_modelled :
  crypt_constants = [1; 19; 3; 50; 4; 32; 16;  16; 3; 50; 2; 1; 20;  1; 40; 2; 8; 4; 6; 5; 2; 6;  4; 48; 48; 127; 64; 32; 64; 16;
                     3; 16; 32; 32; 3; 2; 5; 16;  16; 16; 16;  32; 32].
Proof. vm_compute. reflexivity. Qed.

Lemma meta_bytes_as_modelled : crypt_meta_bytes = [255; 255; 255; 255].
Proof. vm_compute. reflexivity. Qed.

Lemma r56_slices_as_modelled : crypt_r56_slices = [(0, 32); (32, 40); (40, 48); (0, 32); (32, 40); (40, 48)].
Proof. vm_compute. reflexivity. Qed.

Lemma kdf_arms_as_modelled : crypt_kdf_arms = [(32, 256); (48, 384); (64, 512)].
Proof. vm_compute. reflexivity. Qed.

Lemma padding_length : length PADDING = 32%nat.
Proof. vm_compute. reflexivity. Qed.

Lemma identity_name_as_modelled : crypt_identity_name = identity_name.
Proof. vm_compute. reflexivity. Qed.
