(** Crypt/Rc4Spec.v — RC4 written from its published description, independently of crypt.rs and of Crypt/Rc4.v, and the
    proof that the model of crypt.rs's Rc4 (Crypt/Rc4.v: the state as a 256-entry list, slice indexing, list update) computes it.

    Published description (the 1994 "alleged RC4" posting; Schneier, Applied Cryptography 2nd ed. §17.1; RFC 6229 §1 refers to it):
      KSA:   for i = 0..255: S[i] = i
             j = 0
             for i = 0..255: j = (j + S[i] + K[i mod keylen]) mod 256; swap S[i], S[j]
      PRGA:  i = j = 0
             for each byte: i = (i + 1) mod 256; j = (j + S[i]) mod 256; swap S[i], S[j];
                            output byte xor S[(S[i] + S[j]) mod 256]
    The permutation S is a function N -> N here ("array as function"); a swap is a function update. *)
From PdfV Require Import Base.Prelude Crypt.Rc4.

Definition perm := N -> N.

(* swap S[a], S[b] *)
Definition pswap (S : perm) (a b : N) : perm :=
  fun x => if x =? a then S b else if x =? b then S a else S x.

(* K[i mod keylen] *)
Definition key_byte (key : bytes) (i : N) : N := nth (N.to_nat (i mod lenN key)) key 0.

(* the second loop of the key-scheduling algorithm, [n] iterations left, at index [i] *)
Fixpoint ksa_spec_go (n : nat) (i j : N) (S : perm) (key : bytes) : perm :=
  match n with
  | O => S
  | S n' => let j' := (j + S i + key_byte key i) mod 256 in ksa_spec_go n' (i + 1) j' (pswap S i j') key
  end.

Definition ksa_spec (key : bytes) : perm := ksa_spec_go 256 0 0 (fun i => i) key.

(* the pseudo-random generation algorithm, xor-ed onto the data *)
Fixpoint prga_spec (S : perm) (i j : N) (data : bytes) : bytes :=
  match data with
  | [] => []
  | b :: t =>
      let i' := (i + 1) mod 256 in
      let j' := (j + S i') mod 256 in
      let S' := pswap S i' j' in
      N.lxor b (S' ((S' i' + S' j') mod 256)) :: prga_spec S' i' j' t
  end.

Definition rc4_spec (key data : bytes) : bytes := prga_spec (ksa_spec key) 0 0 data.

(* ------------------------------------------------------------------------------------------------ refinement *)
(* the list [s] represents the permutation [S] *)
Definition repr (s : list N) (S : perm) : Prop := length s = 256%nat /\ forall k, k < 256 -> sget s k = S k.

Lemma supd_nat_length s i v : length (supd_nat s i v) = length s.
Proof. revert i. induction s as [|x t IH]; intros i; cbn [supd_nat]; [reflexivity|]. destruct i; cbn [length]; [reflexivity|]. rewrite IH. reflexivity. Qed.

Lemma nth_supd_nat s i v k : (i < length s)%nat -> nth k (supd_nat s i v) 0 = if Nat.eqb k i then v else nth k s 0.
Proof.
  revert i k. induction s as [|x t IH]; intros i k Hi; cbn [length] in Hi; [lia|]. cbn [supd_nat].
  destruct i as [|i].
  - destruct k; reflexivity.
  - destruct k as [|k]; cbn [nth]; [reflexivity|]. rewrite IH by lia. reflexivity.
Qed.

Lemma sget_supd s i v k : length s = 256%nat -> i < 256 -> k < 256 ->
  sget (supd s i v) k = if k =? i then v else sget s k.
Proof.
  intros Hl Hi Hk. unfold sget, supd. rewrite nth_supd_nat by lia.
  destruct (k =? i) eqn:E.
  - apply N.eqb_eq in E. subst k. rewrite Nat.eqb_refl. reflexivity.
  - apply N.eqb_neq in E. replace (Nat.eqb (N.to_nat k) (N.to_nat i)) with false; [reflexivity|].
    symmetry. apply Nat.eqb_neq. lia.
Qed.

Lemma supd_length s i v : length (supd s i v) = length s.
Proof. apply supd_nat_length. Qed.

Lemma repr_swap s S a b : repr s S -> a < 256 -> b < 256 -> repr (sswap s a b) (pswap S a b).
Proof.
  intros [Hl Hs] Ha Hb. unfold sswap. split; [rewrite !supd_length; exact Hl|].
  intros k Hk. unfold pswap.
  rewrite sget_supd by (try rewrite supd_length; assumption).
  rewrite sget_supd by assumption. rewrite !Hs by assumption.
  destruct (k =? b) eqn:Eb; destruct (k =? a) eqn:Ea; try reflexivity.
  apply N.eqb_eq in Eb. apply N.eqb_eq in Ea. subst. reflexivity.
Qed.

Lemma nth_seqN a n k : (k < n)%nat -> nth k (seqN a n) 0 = a + N.of_nat k.
Proof.
  revert a k. induction n as [|n IH]; intros a k Hk; [lia|]. cbn [seqN].
  destruct k as [|k]; cbn [nth]; [lia|]. rewrite IH by lia. lia.
Qed.

Lemma seqN_length a n : length (seqN a n) = n.
Proof. revert a. induction n as [|n IH]; intros a; cbn [seqN length]; [reflexivity|]. rewrite IH. reflexivity. Qed.

Lemma repr_init : repr (seqN 0 256) (fun i => i).
Proof.
  split; [apply seqN_length|]. intros k Hk. unfold sget. rewrite nth_seqN by lia. lia.
Qed.

Lemma ksa_go_repr : forall n i j s S key, repr s S -> i + N.of_nat n = 256 ->
  repr (ksa_go n i j s key (lenN key)) (ksa_spec_go n i j S key).
Proof.
  induction n as [|n IH]; intros i j s S key Hr Hi; cbn [ksa_go ksa_spec_go]; [exact Hr|].
  assert (Hi' : i < 256) by lia.
  destruct Hr as [Hl Hs]. rewrite (Hs i Hi'). unfold key_byte. fold (sget key (i mod lenN key)).
  apply IH; [|lia]. apply repr_swap; [split; assumption|exact Hi'|apply N.mod_lt; discriminate].
Qed.

Lemma ksa_repr key : repr (ksa key) (ksa_spec key).
Proof. unfold ksa, ksa_spec. apply ksa_go_repr; [apply repr_init|reflexivity]. Qed.

Lemma rc4_go_spec : forall data s S i j, repr s S ->
  rc4_go {| r_i := i; r_j := j; r_s := s |} data = prga_spec S i j data.
Proof.
  induction data as [|b t IH]; intros s S i j Hr; cbn [rc4_go prga_spec]; [reflexivity|].
  unfold rc4_next. cbn [r_i r_j r_s].
  assert (Hi : (i + 1) mod 256 < 256) by (apply N.mod_lt; discriminate).
  pose proof Hr as [Hl Hs]. rewrite (Hs _ Hi).
  set (i' := (i + 1) mod 256) in *. set (j' := (j + S i') mod 256).
  assert (Hj : j' < 256) by (apply N.mod_lt; discriminate).
  pose proof (repr_swap s S i' j' Hr Hi Hj) as Hr'. pose proof Hr' as [Hl' Hs'].
  rewrite (Hs' i' Hi), (Hs' j' Hj).
  rewrite (Hs' ((pswap S i' j' i' + pswap S i' j' j') mod 256)) by (apply N.mod_lt; discriminate).
  f_equal. apply IH. exact Hr'.
Qed.

(** the model of crypt.rs's Rc4 computes published RC4, for every key and message *)
Theorem rc4_raw_is_spec key data : rc4_raw key data = rc4_spec key data.
Proof. unfold rc4_raw, rc4_spec. apply rc4_go_spec. apply ksa_repr. Qed.

Theorem rc4_is_spec : forall k m, 1 <= lenN k <= 256 -> rc4 k m = Ok (rc4_spec k m).
Proof.
  intros k m [H1 H2]. unfold rc4, rc4_key_ok.
  replace (lenN k =? 0) with false by (symmetry; apply N.eqb_neq; lia).
  replace (lenN k <=? 256) with true by (symmetry; apply N.leb_le; lia).
  cbn [negb andb]. rewrite rc4_raw_is_spec. reflexivity.
Qed.

(* published test vector: key "Key", plaintext "Plaintext" -> BBF316E8D940AF0AD3 *)
Example rc4_spec_vector :
  rc4_spec [75; 101; 121] [80; 108; 97; 105; 110; 116; 101; 120; 116] = [187; 243; 22; 232; 217; 64; 175; 10; 211].
Proof. vm_compute. reflexivity. Qed.
