(** Typed/Run.v — harness entry points of the typed models (modes typed_roundtrip, dangling). *)
From PdfV Require Import Base.Prelude Gen.Generated Typed.Prim Typed.Schema Typed.Derive Typed.Hand.

Definition field (fs : list bytes) (i : nat) : bytes := nth i fs [].
Definition run_fuel : nat := 64.

(* error chain text, mirrored by harness/src/modes/typed.rs::chain *)
Definition base_name (c : N) : bytes :=
  if c =? 1 then [78;117;108;108;82;101;102]                                  (* NullRef *)
  else if c =? 2 then [70;114;101;101;79;98;106;101;99;116]                   (* FreeObject *)
  else if c =? 3 then [85;110;115;112;101;99;105;102;105;101;100]             (* Unspecified *)
  else if c =? 4 then [85;110;101;120;112;101;99;116;101;100]                 (* Unexpected *)
  else if c =? 5 then [75;101;121;86;97;108;117;101]                          (* KeyValue *)
  else if c =? 6 then [85;110;107;110;111;119;110;86;97;114;105;97;110;116]   (* UnknownVariant *)
  else if c =? 7 then [79;116;104;101;114]                                    (* Other *)
  else if c =? 8 then [78;111;79;112;65;114;103]                              (* NoOpArg *)
  else if c =? 9 then [80;97;114;115;101]                                     (* Parse *)
  else if c =? 10 then [82;101;102;101;114;101;110;99;101]                    (* Reference *)
  else if c =? 11 then [78;111;110;101;69;114;114;111;114]                     (* NoneError *)
  else if c =? 12 then [87;114;111;110;103;84;121;112;101]                     (* WrongType *)
  else 63 :: dec_of_N c.
Fixpoint chain_text (e : perr) : bytes :=
  match e with
  | EBase c => base_name c
  | EMissing f => [77;105;115;115;105;110;103;40] ++ f ++ [41]                (* Missing(f) *)
  | ETry e' => [84;114;121;62] ++ chain_text e'                               (* Try> *)
  | EShared e' => [83;104;97;114;101;100;62] ++ chain_text e'                 (* Shared> *)
  | EFromPrim f e' => [70;80;40] ++ f ++ [41;62] ++ chain_text e'             (* FP(f)> *)
  end.

Definition ok_text : bytes := [111; 107].

(* type name -> type: derived structs by (instantiated) name, hand-written types by name *)
Fixpoint index_of (n : bytes) (l : list bytes) (i : N) : option N :=
  match l with [] => None | x :: t => if beqb n x then Some i else index_of n t (i + 1) end.
(* containers on their own, named as in harness/src/modes/typed.rs *)
Definition container_types : list (bytes * ty) :=
  [([86; 101; 99; 60; 79; 112; 116; 105; 111; 110; 60; 105; 51; 50; 62; 62], TVec (TOption TI32))  (* Vec<Option<i32>> *);
   ([86; 101; 99; 60; 80; 114; 105; 109; 105; 116; 105; 118; 101; 62], TVec TPrim)  (* Vec<Primitive> *);
   ([86; 101; 99; 60; 79; 112; 116; 105; 111; 110; 60; 68; 105; 99; 116; 105; 111; 110; 97; 114; 121; 62; 62], TVec (TOption TDict))  (* Vec<Option<Dictionary>> *);
   ([86; 101; 99; 60; 79; 112; 116; 105; 111; 110; 60; 86; 101; 99; 60; 79; 112; 116; 105; 111; 110; 60; 105; 51; 50; 62; 62; 62; 62], TVec (TOption (TVec (TOption TI32))))  (* Vec<Option<Vec<Option<i32>>>> *);
   ([79; 112; 116; 105; 111; 110; 60; 86; 101; 99; 60; 80; 114; 105; 109; 105; 116; 105; 118; 101; 62; 62], TOption (TVec TPrim))  (* Option<Vec<Primitive>> *);
   ([86; 101; 99; 60; 79; 112; 116; 105; 111; 110; 60; 78; 97; 109; 101; 62; 62], TVec (TOption TName))  (* Vec<Option<Name>> *);
   (* the leaf types and wrappers of object/mod.rs / primitive.rs on their own *)
   ([105; 51; 50], TI32)  (* i32 *);
   ([117; 51; 50], TU32)  (* u32 *);
   ([117; 115; 105; 122; 101], TUsize)  (* usize *);
   ([102; 51; 50], TF32)  (* f32 *);
   ([98; 111; 111; 108], TBool)  (* bool *);
   ([78; 97; 109; 101], TName)  (* Name *);
   ([80; 100; 102; 83; 116; 114; 105; 110; 103], TStr)  (* PdfString *);
   ([80; 114; 105; 109; 105; 116; 105; 118; 101], TPrim)  (* Primitive *);
   ([68; 105; 99; 116; 105; 111; 110; 97; 114; 121], TDict)  (* Dictionary *);
   ([80; 108; 97; 105; 110; 82; 101; 102], TRef)  (* PlainRef *);
   ([40; 41], TUnit)  (* () *);
   ([82; 101; 102; 60; 68; 105; 99; 116; 105; 111; 110; 97; 114; 121; 62], TRef)  (* Ref<Dictionary> *);
   ([82; 99; 82; 101; 102; 60; 68; 105; 99; 116; 105; 111; 110; 97; 114; 121; 62], TRcRef TDict)  (* RcRef<Dictionary> *);
   ([77; 97; 121; 98; 101; 82; 101; 102; 60; 68; 105; 99; 116; 105; 111; 110; 97; 114; 121; 62], TMaybeRef TDict)  (* MaybeRef<Dictionary> *);
   ([77; 97; 121; 98; 101; 82; 101; 102; 60; 105; 51; 50; 62], TMaybeRef TI32)  (* MaybeRef<i32> *);
   ([76; 97; 122; 121; 60; 68; 105; 99; 116; 105; 111; 110; 97; 114; 121; 62], TLazy TDict)  (* Lazy<Dictionary> *);
   ([66; 111; 120; 60; 105; 51; 50; 62], TBox TI32)  (* Box<i32> *);
   ([79; 112; 116; 105; 111; 110; 60; 105; 51; 50; 62], TOption TI32)  (* Option<i32> *);
   ([79; 112; 116; 105; 111; 110; 60; 78; 97; 109; 101; 62], TOption TName)  (* Option<Name> *);
   ([72; 97; 115; 104; 77; 97; 112; 60; 78; 97; 109; 101; 44; 105; 51; 50; 62], TMap TI32)  (* HashMap<Name,i32> *);
   ([72; 97; 115; 104; 77; 97; 112; 60; 78; 97; 109; 101; 44; 79; 112; 116; 105; 111; 110; 60; 105; 51; 50; 62; 62], TMap (TOption TI32))  (* HashMap<Name,Option<i32>> *);
   ([40; 105; 51; 50; 44; 78; 97; 109; 101; 41], TPair TI32 TName)  (* (i32,Name) *);
   ([40; 102; 51; 50; 44; 102; 51; 50; 41], TPair TF32 TF32)  (* (f32,f32) *);
   ([86; 101; 99; 60; 105; 51; 50; 62], TVec TI32)  (* Vec<i32> *);
   ([86; 101; 99; 60; 102; 51; 50; 62], TVec TF32)  (* Vec<f32> *);
   ([86; 101; 99; 60; 78; 97; 109; 101; 62], TVec TName)  (* Vec<Name> *);
   ([86; 101; 99; 60; 117; 51; 50; 62], TVec TU32)  (* Vec<u32> *)].
Fixpoint assoc_ty (n : bytes) (l : list (bytes * ty)) : option ty :=
  match l with [] => None | (k, t) :: r => if beqb n k then Some t else assoc_ty n r end.

Definition ty_by_name (n : bytes) : option ty :=
  match struct_by_name gen_schemas n with
  | Some (i, _) => Some (TStruct i)
  | None => match index_of n typed_hand_names 0 with
            | Some i => Some (THand i)
            | None =>
              match find_name ne_name n (nenums gen_schemas) 0 with
              | Some (i, _) => Some (TNameEnum i)              (* derived name enums by name: BaseEncoding, FontType … *)
              | None => match find_name ie_name n (ienums gen_schemas) 0 with
                        | Some (i, _) => Some (TIntEnum i)
                        | None => assoc_ty n container_types
                        end
              end
            end
  end.

Definition write_any (E : env) (t : ty) (v : value) : tres (prim * env) :=
  match t with
  | TStruct i => write_top gen_schemas hands run_fuel E i v
  | _ => tmap (fun p => (p, E)) (write gen_schemas hands run_fuel t v)
  end.

(* a struct without #[derive(ObjectWrite)] is only read (the harness observes success) *)
Definition writable (t : ty) : bool :=
  match t with
  | TStruct i => match get_struct gen_schemas i with Some s => s_write s | None => false end
  | _ => true
  end.

Definition created (E0 E1 : env) : bytes :=
  canon (PArr (map (fun x => match x with XObj p => p | _ => PNull end) (skipn (length E0) E1))).

(* one from_primitive → to_primitive step: the result fields and, when both halves succeed, the written primitive
   and the table after the writer's allocations *)
Definition step (allow : bool) (E : env) (t : ty) (p : prim) : res (list bytes * option (prim * env)) :=
  match read gen_schemas hands allow E run_fuel [] t p with
  | TPanic s => Panic s
  | TFuel => OutOfFuel
  | TErr e => Ok ([chain_text e], None)
  | TOk v =>
    if negb (writable t) then Ok ([ok_text; []; []], None) else
    match write_any E t v with
    | TPanic s => Panic s
    | TFuel => OutOfFuel
    | TErr e => Ok ([ok_text; 33 :: chain_text e], None)
    | TOk (q, E') => Ok ([ok_text; canon q; created E E'], Some (q, E'))
    end
  end.

Fixpoint parse_objs (l : list bytes) : option (list prim) :=
  match l with
  | [] => Some []
  | x :: t => match parse_canon x, parse_objs t with Some p, Some r => Some (p :: r) | _, _ => None end
  end.

(* typed_roundtrip: type, value (canon), objects 1..n (canon)  ->  r1 w1 c1 r2 w2 c2
   (Storage::empty: entry 0 is free, created objects are appended) *)
Definition run_typed_roundtrip (fs : list bytes) : res (list bytes) :=
  match ty_by_name (field fs 0), parse_canon (field fs 1), parse_objs (skipn 2 fs) with
  | Some t, Some p, Some objs =>
    let E := XFree :: map XObj objs in
    do a <- step opt_strict_allow_error_in_option E t p;
    match snd a with
    | Some (q, E') => do b <- step opt_strict_allow_error_in_option E' t q; Ok (fst a ++ fst b)
    | None => Ok (fst a)
    end
  | _, _, _ => Err 1000
  end.

(* dangling: opts ('s' | 't'), type, dictionary (canon), key, reference (canon), /Size, entries "<id> <x (free) | canon>" …
   -> A = read+write of the dictionary with key ↦ reference, B = of the dictionary without the key:  rA wA cA | rB wB cB
   table: backend.rs read_xref_table_and_trailer / xref.rs XRefTable::new: /Size Invalid entries, one Free, then the sections *)
Fixpoint split_sp (l : bytes) : bytes * bytes :=
  match l with
  | [] => ([], [])
  | c :: t => if c =? 32 then ([], t) else let (a, b) := split_sp t in (c :: a, b)
  end.
Fixpoint set_nth {A} (n : nat) (x : A) (l : list A) : list A :=
  match n, l with
  | O, _ :: t => x :: t
  | S k, h :: t => h :: set_nth k x t
  | _, [] => []
  end.
Fixpoint build_table (es : list bytes) (E : env) : option env :=
  match es with
  | [] => Some E
  | e :: t =>
    let (i, r) := split_sp e in
    let x := if beqb r [120] then Some XFree else match parse_canon r with Some p => Some (XObj p) | None => None end in
    match x with Some x => build_table t (set_nth (N.to_nat (N_of_dec i)) x E) | None => None end
  end.

(* the key field: `key`, or `key=<canon>` when the comparison dictionary B carries that value under the key instead of
   lacking the key (array elements: the array without the planted element) *)
Fixpoint split_eq (l : bytes) : bytes * option bytes :=
  match l with
  | [] => ([], None)
  | c :: t => if c =? 61 then ([], Some t) else let (a, b) := split_eq t in (c :: a, b)
  end.

Definition run_dangling (fs : list bytes) : res (list bytes) :=
  let allow := if beqb (field fs 0) [116] then opt_tolerant_allow_error_in_option else opt_strict_allow_error_in_option in
  match ty_by_name (field fs 1), parse_canon (field fs 2), parse_canon (field fs 4),
        build_table (skipn 6 fs) (repeatN XInvalid (N.to_nat (N_of_dec (field fs 5))) ++ [XFree]) with
  | Some t, Some (PDict d), Some r, Some E =>
    let (key, alt) := split_eq (field fs 3) in
    match (match alt with
           | None => Some (ddel key d)
           | Some a => match parse_canon a with Some q => Some (dinsert key q d) | None => None end
           end) with
    | None => Err 1000
    | Some dB =>
      do a <- step allow E t (PDict (dinsert key r d));
      let E' := match snd a with Some (_, E') => E' | None => E end in
      do b <- step allow E' t (PDict dB);
      Ok (fst a ++ [124] :: fst b)
    end
  | _, _, _, _ => Err 1000
  end.
