(** Typed/ReadProofs.v — the reader half of the dictionary round trip: for a typed model with a catch-all field,
    reading a dictionary and writing the value back preserves every entry of the input, recognised or not
    (recognised entries up to the per-type normalisation wr (rd q)). *)
From PdfV Require Import Base.Prelude Gen.Generated Typed.Prim Typed.Schema Typed.Derive Typed.DictProofs Typed.DeriveProofs.

(* IndexMap invariant: at most one entry per key *)
Definition nodup_keys (d : dict) : Prop := forall k, dget k (ddel k d) = None.

(** * small generic facts *)
Lemma rw_map_err_ok {A} (g : perr -> perr) (r : tres A) x : map_err g r = TOk x <-> r = TOk x.
Proof. destruct r; cbn [map_err]; split; intros H; try discriminate; exact H. Qed.

Lemma rw_forallb_false {A} (p : A -> bool) l : forallb p l = false -> exists x, In x l /\ p x = false.
Proof.
  induction l as [|a l IH]; cbn [forallb]; [discriminate|].
  destruct (p a) eqn:Ha; cbn [andb].
  - intros H. destruct (IH H) as [x [Hin Hx]]. exists x. split; [right; exact Hin|exact Hx].
  - intros _. exists a. split; [left; reflexivity|exact Ha].
Qed.

(** * dictionaries: removal only removes *)
Lemma rw_dget_ddel_none k k' d : dget k d = None -> dget k (ddel k' d) = None.
Proof.
  induction d as [|[k2 v2] d IH]; cbn [dget ddel]; [intros _; reflexivity|].
  destruct (beqb k k2) eqn:Hk; [discriminate|]. intros H.
  destruct (beqb k' k2); [exact H|]. cbn [dget]. rewrite Hk. apply IH. exact H.
Qed.

Lemma rw_nodup_ddel k k' d : dget k (ddel k d) = None -> dget k (ddel k (ddel k' d)) = None.
Proof.
  induction d as [|[k2 v2] d IH]; cbn [ddel]; [intros H; exact H|].
  destruct (beqb k' k2) eqn:H2; destruct (beqb k k2) eqn:H1.
  - intros H. apply dget_ddel_fresh. exact H.
  - cbn [dget]. rewrite H1. intros H. exact H.
  - intros H. cbn [ddel]. rewrite H1. apply rw_dget_ddel_none. exact H.
  - cbn [dget ddel]. rewrite H1. cbn [dget]. rewrite H1. exact IH.
Qed.

Lemma rw_nodup_keys_ddel k d : nodup_keys d -> nodup_keys (ddel k d).
Proof. intros H k'. apply rw_nodup_ddel. apply H. Qed.

(** * the remainder the catch-all field receives: the input minus the keys of the normal fields *)
Fixpoint rw_strip (fs : list field) (d : dict) : dict :=
  match fs with
  | [] => d
  | fd :: rest => rw_strip rest (if normal fd then ddel (f_key fd) d else d)
  end.

Lemma rw_strip_get_fresh k fs : forall d, key_fresh k fs = true -> dget k (rw_strip fs d) = dget k d.
Proof.
  induction fs as [|fd fr IH]; intros d Hk; cbn [rw_strip]; [reflexivity|].
  cbn [key_fresh forallb] in Hk. apply andb_true_iff in Hk. destruct Hk as [Hk1 Hk2]. fold (key_fresh k fr) in Hk2.
  rewrite IH by exact Hk2. destruct (normal fd); [|reflexivity].
  cbn [negb orb] in Hk1. apply negb_true_iff in Hk1. apply dget_ddel_other. exact Hk1.
Qed.

Lemma rw_strip_none k fs : forall d, dget k d = None -> dget k (rw_strip fs d) = None.
Proof.
  induction fs as [|fd fr IH]; intros d H; cbn [rw_strip]; [exact H|].
  apply IH. destruct (normal fd); [apply rw_dget_ddel_none|]; exact H.
Qed.

Lemma rw_strip_field fs : forall d fd, In fd fs -> normal fd = true ->
  dget (f_key fd) (ddel (f_key fd) d) = None -> dget (f_key fd) (rw_strip fs d) = None.
Proof.
  induction fs as [|g fr IH]; intros d fd Hin Hn Hd; [destruct Hin|].
  cbn [rw_strip]. destruct Hin as [Heq|Hin].
  - subst g. rewrite Hn. apply rw_strip_none. exact Hd.
  - apply IH; [exact Hin|exact Hn|]. destruct (normal g); [apply rw_nodup_ddel|]; exact Hd.
Qed.

(** * the head of from_dict: what passed checks say about the input *)
Lemma rw_expect_name d k n req v : expect d k n req = TOk tt -> dget k d = Some v -> v = PName n.
Proof.
  unfold expect. intros He Hg. rewrite Hg in He.
  destruct v; cbn [as_name unexpected tbind] in He; try discriminate.
  destruct (beqb s n) eqn:Hb; [|discriminate]. apply beqb_eq in Hb. subst s. reflexivity.
Qed.

Lemma rw_expect_all_in d cs : expect_all d cs = TOk tt -> forall k n, In (k, n) cs -> expect d k n true = TOk tt.
Proof.
  induction cs as [|[k0 n0] cs IH]; intros H k n Hin; [destruct Hin|].
  cbn [expect_all] in H. destruct (expect d k0 n0 true) as [[]| | |] eqn:He; cbn [tbind] in H; try discriminate.
  destruct Hin as [Heq|Hin]; [inversion Heq; subst; exact He|apply IH; assumption].
Qed.

Lemma rw_read_checks_inv s d : read_checks s d = TOk tt ->
  ((s_tmode s =? 0) = false -> expect d TypeKey (s_type s) (s_tmode s =? 2) = TOk tt)
  /\ expect_all d (s_checks s) = TOk tt.
Proof.
  unfold read_checks. destruct (s_tmode s =? 0).
  - cbn [tbind]. intros H. split; [discriminate|exact H].
  - destruct (expect d TypeKey (s_type s) (s_tmode s =? 2)) as [[]| | |]; cbn [tbind]; try discriminate.
    intros H. split; [reflexivity|exact H].
Qed.

(* an entry of the writer's base dictionary is /Type, a checked key, or an entry of the catch-all dictionary *)
Lemma rw_base_cases s od k : head_wf s = true ->
  (k = TypeKey /\ (s_tmode s =? 0) = false /\ dget k (base_from s od) = Some (PName (s_type s)))
  \/ (exists n, In (k, n) (s_checks s) /\ dget k (base_from s od) = Some (PName n))
  \/ dget k (base_from s od) = dget k od.
Proof.
  intros Hw. destruct (forallb (fun c => negb (beqb k (fst c))) (s_checks s)) eqn:Hc.
  - destruct (beqb k TypeKey) eqn:Ht.
    + apply beqb_eq in Ht. subst k. destruct (s_tmode s =? 0) eqn:Hm.
      * right. right. unfold base_from. rewrite Hm. apply fold_ins_get_other. exact Hc.
      * left. split; [reflexivity|]. split; [reflexivity|]. apply base_from_type; assumption.
    + right. right. apply base_from_get_other; assumption.
  - right. left. destruct (rw_forallb_false _ _ Hc) as [[k' n] [Hin Hb]]. cbn [fst] in Hb.
    apply negb_false_iff in Hb. apply beqb_eq in Hb. subst k'. exists n. split; [exact Hin|].
    apply base_from_check; assumption.
Qed.

(** * the field loops, for an arbitrary field reader/writer pair *)
Section RwLoops.
Variable rd : ty -> prim -> tres value.
Variable wr : ty -> value -> tres prim.
Variable never_null : ty -> bool.

(* what the reader binds to a normal field, given the dictionary it sees *)
Definition rw_field_read (fd : field) (d : dict) (x : value) : Prop :=
  match dget (f_key fd) d with
  | Some q => rd (f_ty fd) q = TOk x
  | None => match f_default fd with
            | DNone => rd (f_ty fd) PNull = TOk x
            | dv => exists acc, x = default_value dv acc
            end
  end.

(* read_fields without the accumulator, as a relation *)
Fixpoint rw_reads (fs : list field) (d : dict) (vs : list value) : Prop :=
  match fs, vs with
  | [], [] => True
  | fd :: rest, x :: vr =>
    if f_skip fd then x = VUnit /\ rw_reads rest d vr
    else if f_other fd then x = VDict d /\ rw_reads rest d vr
    else rw_field_read fd d x /\ rw_reads rest (ddel (f_key fd) d) vr
  | _, _ => False
  end.

Lemma rw_read_fields_reads fs : forall d acc v, read_fields rd fs d acc = TOk v ->
  exists vs, v = VStruct (rev acc ++ vs) /\ rw_reads fs d vs.
Proof.
  induction fs as [|fd fr IH]; intros d acc v H; cbn [read_fields] in H.
  - inversion H. exists []. rewrite app_nil_r. split; [reflexivity|exact I].
  - assert (Hstep : forall x d', read_fields rd fr d' (x :: acc) = TOk v ->
                    exists vr, v = VStruct (rev acc ++ x :: vr) /\ rw_reads fr d' vr).
    { intros x d' H'. destruct (IH _ _ _ H') as [vr [Hv Hr]]. exists vr. split; [|exact Hr].
      rewrite Hv. cbn [rev]. rewrite <- app_assoc. reflexivity. }
    destruct (f_skip fd) eqn:Hskip.
    { destruct (Hstep _ _ H) as [vr [Hv Hr]]. exists (VUnit :: vr). split; [exact Hv|].
      cbn [rw_reads]. rewrite Hskip. split; [reflexivity|exact Hr]. }
    destruct (f_other fd) eqn:Hoth.
    { destruct (Hstep _ _ H) as [vr [Hv Hr]]. exists (VDict d :: vr). split; [exact Hv|].
      cbn [rw_reads]. rewrite Hskip, Hoth. split; [reflexivity|exact Hr]. }
    unfold dremove in H.
    assert (Hfin : forall x, rw_field_read fd d x -> read_fields rd fr (ddel (f_key fd) d) (x :: acc) = TOk v ->
                   exists vs, v = VStruct (rev acc ++ vs) /\ rw_reads (fd :: fr) d vs).
    { intros x Hx H'. destruct (Hstep _ _ H') as [vr [Hv Hr]]. exists (x :: vr). split; [exact Hv|].
      cbn [rw_reads]. rewrite Hskip, Hoth. split; [exact Hx|exact Hr]. }
    destruct (dget (f_key fd) d) as [q|] eqn:Hg.
    + destruct (rd (f_ty fd) q) as [x| | |] eqn:Hrx; cbn [map_err tbind] in H; try discriminate.
      apply (Hfin x); [|exact H]. unfold rw_field_read. rewrite Hg. exact Hrx.
    + destruct (f_default fd) eqn:Hdf.
      * destruct (rd (f_ty fd) PNull) as [x| | |] eqn:Hrx; cbn [map_err tbind] in H; try discriminate.
        apply (Hfin x); [|exact H]. unfold rw_field_read. rewrite Hg, Hdf. exact Hrx.
      * cbn [tbind] in H. eapply Hfin; [|exact H]. unfold rw_field_read. rewrite Hg, Hdf. eexists. reflexivity.
      * cbn [tbind] in H. eapply Hfin; [|exact H]. unfold rw_field_read. rewrite Hg, Hdf. eexists. reflexivity.
      * cbn [tbind] in H. eapply Hfin; [|exact H]. unfold rw_field_read. rewrite Hg, Hdf. eexists. reflexivity.
      * cbn [tbind] in H. eapply Hfin; [|exact H]. unfold rw_field_read. rewrite Hg, Hdf. eexists. reflexivity.
      * cbn [tbind] in H. eapply Hfin; [|exact H]. unfold rw_field_read. rewrite Hg, Hdf. eexists. reflexivity.
      * cbn [tbind] in H. eapply Hfin; [|exact H]. unfold rw_field_read. rewrite Hg, Hdf. eexists. reflexivity.
Qed.

(* one step of the writer on a normal, non-indirect field *)
Lemma rw_write_step fd fr x vr B dw :
  f_skip fd = false -> f_other fd = false -> f_indirect fd = false ->
  write_fields wr (fd :: fr) (x :: vr) B = TOk (PDict dw) ->
  exists val B', wr (f_ty fd) x = TOk val
    /\ write_fields wr fr vr B' = TOk (PDict dw)
    /\ dget (f_key fd) B' = (if is_null val then dget (f_key fd) B else Some val)
    /\ (forall k, beqb k (f_key fd) = false -> dget k B' = dget k B).
Proof.
  intros Hskip Hoth Hind Hw. cbn [write_fields] in Hw. rewrite Hskip, Hoth in Hw. cbn [orb] in Hw.
  destruct (wr (f_ty fd) x) as [val| | |] eqn:Hwx; cbn [tbind] in Hw; try discriminate.
  exists val. destruct (is_null val) eqn:Hnull.
  - exists B. split; [reflexivity|]. split; [exact Hw|]. split; [reflexivity|]. intros k _. reflexivity.
  - rewrite Hind in Hw. exists (dinsert (f_key fd) val B). split; [reflexivity|]. split; [exact Hw|].
    split; [apply dget_dinsert_same|]. intros k Hk. apply dget_dinsert_other. exact Hk.
Qed.

(* reader and writer loops together: every normal field is written as the written form of the value bound to it
   (or left as in the start dictionary when that form is Null); the catch-all holds the remainder *)
Lemma rw_loop fs : fields_wf never_null fs = true -> forall d vs B dw,
  rw_reads fs d vs -> write_fields wr fs vs B = TOk (PDict dw) ->
  (forall fd, In fd fs -> normal fd = true ->
     exists x val, rw_field_read fd d x /\ wr (f_ty fd) x = TOk val
                   /\ dget (f_key fd) dw = (if is_null val then dget (f_key fd) B else Some val))
  /\ (existsb f_other fs = true -> other_of fs vs = rw_strip fs d).
Proof.
  induction fs as [|fd fr IH]; intros Hwf d vs B dw Hr Hw.
  - split; [intros fd []|discriminate].
  - destruct vs as [|x vr]; [destruct Hr|]. cbn [rw_reads] in Hr.
    cbn [fields_wf] in Hwf. apply andb_true_iff in Hwf. destruct Hwf as [Hwf Hwfr].
    apply andb_true_iff in Hwf. destruct Hwf as [Hskip Hfd]. apply negb_true_iff in Hskip.
    rewrite Hskip in Hr.
    destruct (f_other fd) eqn:Hoth.
    + (* the catch-all: last field *)
      destruct fr as [|g fr']; [|discriminate]. destruct Hr as [Hx Hr].
      destruct vr as [|y vr']; [|destruct Hr]. subst x.
      assert (Hn : normal fd = false) by (unfold normal; rewrite Hskip, Hoth; reflexivity).
      split.
      * intros fd0 [Heq|[]] Hn0. subst fd0. rewrite Hn in Hn0. discriminate.
      * intros _. cbn [other_of rw_strip]. rewrite Hoth, Hn. reflexivity.
    + apply andb_true_iff in Hfd. destruct Hfd as [Hfd Hind]. apply negb_true_iff in Hind.
      apply andb_true_iff in Hfd. destruct Hfd as [Hkf _].
      assert (Hn : normal fd = true) by (unfold normal; rewrite Hskip, Hoth; reflexivity).
      destruct Hr as [Hr1 Hrr].
      destruct (rw_write_step _ _ _ _ _ _ Hskip Hoth Hind Hw) as [val [B' [Hwx [Hw' [HB1 HB2]]]]].
      destruct (IH Hwfr _ _ _ _ Hrr Hw') as [IHa IHc].
      split.
      * intros fd0 [Heq|Hin] Hn0.
        -- subst fd0. exists x, val. split; [exact Hr1|]. split; [exact Hwx|].
           rewrite (write_fields_get _ _ _ Hkf _ _ _ Hw'). exact HB1.
        -- destruct (IHa fd0 Hin Hn0) as [x0 [val0 [Hr0 [Hw0 Hg0]]]]. exists x0, val0.
           assert (Hne : beqb (f_key fd0) (f_key fd) = false) by (eapply key_fresh_sym_get; eassumption).
           split.
           { unfold rw_field_read in Hr0 |- *. rewrite dget_ddel_other in Hr0 by exact Hne. exact Hr0. }
           split; [exact Hw0|]. rewrite Hg0. rewrite HB2 by exact Hne. reflexivity.
      * intros Hex. cbn [existsb] in Hex. rewrite Hoth in Hex. cbn [orb] in Hex.
        cbn [other_of rw_strip]. rewrite Hoth, Hn. apply IHc. exact Hex.
Qed.

Theorem read_write_fields s d vs dw :
  fields_wf never_null (s_fields s) = true ->
  head_wf s = true -> key_fresh TypeKey (s_fields s) = true ->
  forallb (fun c => key_fresh (fst c) (s_fields s)) (s_checks s) = true ->
  existsb f_other (s_fields s) = true ->
  nodup_keys d ->
  read_checks s d = TOk tt ->
  read_fields rd (s_fields s) d [] = TOk (VStruct vs) ->
  write_fields wr (s_fields s) vs (base_of s vs) = TOk (PDict dw) ->
  (* (1) unrecognised entries (also /Type and the checked keys) are written back verbatim *)
  (forall k v, key_fresh k (s_fields s) = true -> dget k d = Some v -> dget k dw = Some v)
  /\
  (* (2) a recognised entry is written as the written form of the value read from it; it disappears only when
         that written form is Null *)
  (forall fd q, In fd (s_fields s) -> normal fd = true -> dget (f_key fd) d = Some q ->
     exists x val, rd (f_ty fd) q = TOk x /\ wr (f_ty fd) x = TOk val
                   /\ dget (f_key fd) dw = (if is_null val then None else Some val))
  /\
  (* (3) nothing is invented *)
  (forall k val, dget k dw = Some val -> dget k d = None ->
     (k = TypeKey /\ val = PName (s_type s))
     \/ (exists n, In (k, n) (s_checks s) /\ val = PName n)
     \/ exists fd x, In fd (s_fields s) /\ normal fd = true /\ k = f_key fd /\ wr (f_ty fd) x = TOk val /\
          (match f_default fd with
           | DNone => rd (f_ty fd) PNull = TOk x
           | dv => exists acc, x = default_value dv acc
           end)).
Proof.
  intros Hwf Hhead Htk Hck Hex Hnd Hchk Hrd Hw.
  destruct (rw_read_fields_reads _ _ _ _ Hrd) as [vs' [Hv Hreads]]. cbn [rev app] in Hv.
  inversion Hv. subst vs'. clear Hv.
  destruct (rw_loop _ Hwf _ _ _ _ Hreads Hw) as [Hfld Hoth]. specialize (Hoth Hex).
  rewrite base_of_from, Hoth in Hw, Hfld.
  set (R := rw_strip (s_fields s) d) in *.
  assert (HR1 : forall k, key_fresh k (s_fields s) = true -> dget k R = dget k d)
    by (intros k Hk; apply rw_strip_get_fresh; exact Hk).
  assert (HR2 : forall fd, In fd (s_fields s) -> normal fd = true -> dget (f_key fd) R = None)
    by (intros fd Hin Hn; apply rw_strip_field; [exact Hin|exact Hn|apply Hnd]).
  assert (HBf : forall fd, In fd (s_fields s) -> normal fd = true -> dget (f_key fd) (base_from s R) = None).
  { intros fd Hin Hn. rewrite base_from_get_other.
    - apply HR2; assumption.
    - eapply key_fresh_sym_get; eassumption.
    - rewrite forallb_forall in Hck |- *. intros c Hc. apply negb_true_iff.
      eapply key_fresh_sym_get; [apply Hck; exact Hc|exact Hin|exact Hn]. }
  assert (Hfr : forall k, key_fresh k (s_fields s) = true -> dget k dw = dget k (base_from s R))
    by (intros k Hk; exact (write_fields_get _ _ _ Hk _ _ _ Hw)).
  destruct (rw_read_checks_inv _ _ Hchk) as [Hty Hall].
  split; [|split].
  - intros k v Hk Hg. rewrite (Hfr k Hk).
    destruct (rw_base_cases s R k Hhead) as [[Hkt [Hm Hb]]|[[n [Hin Hb]]|Hb]]; rewrite Hb.
    + subst k. rewrite (rw_expect_name _ _ _ _ _ (Hty Hm) Hg). reflexivity.
    + rewrite (rw_expect_name _ _ _ _ _ (rw_expect_all_in _ _ Hall _ _ Hin) Hg). reflexivity.
    + rewrite HR1 by exact Hk. exact Hg.
  - intros fd q Hin Hn Hg. destruct (Hfld fd Hin Hn) as [x [val [Hr [Hwx Hd]]]]. exists x, val.
    unfold rw_field_read in Hr. rewrite Hg in Hr. split; [exact Hr|]. split; [exact Hwx|].
    rewrite Hd, (HBf fd Hin Hn). reflexivity.
  - intros k val Hgw Hgd. destruct (key_fresh k (s_fields s)) eqn:Hk.
    + rewrite (Hfr k Hk) in Hgw.
      destruct (rw_base_cases s R k Hhead) as [[Hkt [Hm Hb]]|[[n [Hin Hb]]|Hb]]; rewrite Hb in Hgw.
      * left. inversion Hgw. split; [exact Hkt|reflexivity].
      * right. left. exists n. inversion Hgw. split; [exact Hin|reflexivity].
      * rewrite HR1 in Hgw by exact Hk. rewrite Hgd in Hgw. discriminate.
    + right. right. unfold key_fresh in Hk. destruct (rw_forallb_false _ _ Hk) as [fd [Hin Hb]].
      apply orb_false_iff in Hb. destruct Hb as [Hn Hb]. apply negb_false_iff in Hn, Hb.
      apply beqb_eq in Hb. subst k.
      destruct (Hfld fd Hin Hn) as [x [val' [Hr [Hwx Hd]]]]. rewrite (HBf fd Hin Hn) in Hd. rewrite Hd in Hgw.
      destruct (is_null val'); [discriminate|]. inversion Hgw. subst val'.
      exists fd, x. split; [exact Hin|]. split; [exact Hn|]. split; [reflexivity|]. split; [exact Hwx|].
      unfold rw_field_read in Hr. rewrite Hgd in Hr. exact Hr.
Qed.

End RwLoops.

(** * the interpreter *)
Lemma rw_read_struct_shape SC H allow E f chain i p v :
  read SC H allow E f chain (TStruct i) p = TOk v -> exists vs, v = VStruct vs.
Proof.
  destruct f as [|f]; [discriminate|]. cbn [read]. destruct (get_struct SC i) as [s|]; [|discriminate].
  destruct (read_dict E (S f) p) as [d| | |]; cbn [tbind]; try discriminate.
  destruct (read_checks s d) as [[]| | |]; cbn [tbind]; try discriminate.
  intros Hr. destruct (rw_read_fields_reads _ _ _ _ _ Hr) as [vs [Hv _]]. eexists. exact Hv.
Qed.

Theorem dict_rt_read SC H allow E f chain i s d vs dw :
  get_struct SC i = Some s -> schema_wf s = true -> existsb f_other (s_fields s) = true -> nodup_keys d ->
  read SC H allow E (S f) chain (TStruct i) (PDict d) = TOk (VStruct vs) ->
  write SC H (S f) (TStruct i) (VStruct vs) = TOk (PDict dw) ->
  (forall k v, key_fresh k (s_fields s) = true -> dget k d = Some v -> dget k dw = Some v)
  /\
  (forall fd q, In fd (s_fields s) -> normal fd = true -> dget (f_key fd) d = Some q ->
     exists x val, read SC H allow E f chain (f_ty fd) q = TOk x /\ write SC H f (f_ty fd) x = TOk val
                   /\ dget (f_key fd) dw = (if is_null val then None else Some val))
  /\
  (forall k val, dget k dw = Some val -> dget k d = None ->
     (k = TypeKey /\ val = PName (s_type s))
     \/ (exists n, In (k, n) (s_checks s) /\ val = PName n)
     \/ exists fd x, In fd (s_fields s) /\ normal fd = true /\ k = f_key fd /\ write SC H f (f_ty fd) x = TOk val /\
          (match f_default fd with
           | DNone => read SC H allow E f chain (f_ty fd) PNull = TOk x
           | dv => exists acc, x = default_value dv acc
           end)).
Proof.
  intros Hs Hwf Hex Hnd Hr Hw.
  cbn [read] in Hr. rewrite Hs in Hr. cbn [read_dict tbind] in Hr.
  destruct (read_checks s d) as [[]| | |] eqn:Hchk; cbn [tbind] in Hr; try discriminate.
  cbn [write] in Hw. rewrite Hs in Hw.
  unfold schema_wf in Hwf. apply andb_true_iff in Hwf. destruct Hwf as [Hwf Hck].
  apply andb_true_iff in Hwf. destruct Hwf as [Hwf Htk]. apply andb_true_iff in Hwf. destruct Hwf as [Hhead Hfwf].
  exact (read_write_fields _ _ never_null s d vs dw Hfwf Hhead Htk Hck Hex Hnd Hchk Hr Hw).
Qed.

(* the same with the shape of the value derived *)
Corollary dict_rt_read' SC H allow E f chain i s d v dw :
  get_struct SC i = Some s -> schema_wf s = true -> existsb f_other (s_fields s) = true -> nodup_keys d ->
  read SC H allow E (S f) chain (TStruct i) (PDict d) = TOk v ->
  write SC H (S f) (TStruct i) v = TOk (PDict dw) ->
  exists vs, v = VStruct vs /\
  (forall k q, key_fresh k (s_fields s) = true -> dget k d = Some q -> dget k dw = Some q)
  /\
  (forall fd q, In fd (s_fields s) -> normal fd = true -> dget (f_key fd) d = Some q ->
     exists x val, read SC H allow E f chain (f_ty fd) q = TOk x /\ write SC H f (f_ty fd) x = TOk val
                   /\ dget (f_key fd) dw = (if is_null val then None else Some val)).
Proof.
  intros Hs Hwf Hex Hnd Hr Hw. destruct (rw_read_struct_shape _ _ _ _ _ _ _ _ _ Hr) as [vs Hv]. subst v.
  exists vs. split; [reflexivity|].
  destruct (dict_rt_read _ _ _ _ _ _ _ _ _ _ _ Hs Hwf Hex Hnd Hr Hw) as [H1 [H2 _]]. split; assumption.
Qed.


(** * non-vacuity: a model with an optional integer field and a catch-all; the input carries the field, /Type and an
      unknown key *)
Definition rw_ex_schema : schema :=
  {| s_name := [83]; s_type := [88]; s_tmode := 1; s_checks := [([83], [89])];
     s_fields := [ {| f_name := [97]; f_key := [65]; f_ty := TOption TI32; f_default := DNone;
                      f_other := false; f_indirect := false; f_skip := false |};
                   {| f_name := [98]; f_key := [66]; f_ty := TI32; f_default := DInt 5;
                      f_other := false; f_indirect := false; f_skip := false |};
                   {| f_name := [111]; f_key := []; f_ty := TDict; f_default := DNone;
                      f_other := true; f_indirect := false; f_skip := false |} ];
     s_read := true; s_write := true |}.
Definition rw_ex_SC : schemas := {| structs := [rw_ex_schema]; nenums := []; ienums := [] |}.
Definition rw_ex_hand : hand := {| h_read := fun _ _ _ => unmodelled; h_write := fun _ _ => unmodelled |}.
Definition rw_ex_d : dict := [([65], PInt 7); (TypeKey, PName [88]); ([83], PName [89]); ([90], PStr [1; 2])].

Example rw_ex_hyps :
  get_struct rw_ex_SC 0 = Some rw_ex_schema /\ schema_wf rw_ex_schema = true
  /\ existsb f_other (s_fields rw_ex_schema) = true /\ nodup_keys rw_ex_d
  /\ read rw_ex_SC rw_ex_hand false [] 3 [] (TStruct 0) (PDict rw_ex_d)
     = TOk (VStruct [VSome (VInt 7); VInt 5; VDict [(TypeKey, PName [88]); ([83], PName [89]); ([90], PStr [1; 2])]])
  /\ write rw_ex_SC rw_ex_hand 3 (TStruct 0)
       (VStruct [VSome (VInt 7); VInt 5; VDict [(TypeKey, PName [88]); ([83], PName [89]); ([90], PStr [1; 2])]])
     = TOk (PDict [(TypeKey, PName [88]); ([83], PName [89]); ([90], PStr [1; 2]); ([65], PInt 7); ([66], PInt 5)]).
Proof.
  split; [reflexivity|]. split; [vm_compute; reflexivity|]. split; [reflexivity|].
  split; [|split; vm_compute; reflexivity].
  intros k. unfold rw_ex_d. cbn [ddel dget].
  destruct (beqb k [65]) eqn:H1; cbn [dget]; rewrite ?H1;
  destruct (beqb k TypeKey) eqn:H2; cbn [dget]; rewrite ?H1, ?H2;
  destruct (beqb k [83]) eqn:H3; cbn [dget]; rewrite ?H1, ?H2, ?H3;
  destruct (beqb k [90]) eqn:H4; cbn [dget]; rewrite ?H1, ?H2, ?H3, ?H4; try reflexivity;
  repeat match goal with Hx : beqb k _ = true |- _ => apply beqb_eq in Hx; subst k end; discriminate.
Qed.
