(** Typed/HandProofs.v — round trip of the hand-written Rectangle and Matrix pairs, and the hand law used to close
    the generic theorem for the concrete table Hand.hands. *)
From PdfV Require Import Base.Prelude Gen.Generated Typed.Prim Typed.Schema Typed.Derive Typed.Hand.

Lemma numbers_pnum l : numbers (map (fun z => PNum (Z.to_N z)) l) = TOk (map (fun z => Z.of_N (Z.to_N z)) l).
Proof. induction l as [|z l IH]; cbn [map numbers]; [reflexivity|]. cbn [as_number tbind]. rewrite IH. reflexivity. Qed.

Lemma take_numbers_pnum l : take_numbers (length l) (map (fun z => PNum (Z.to_N z)) l) = TOk (map (fun z => Z.of_N (Z.to_N z)) l).
Proof. induction l as [|z l IH]; cbn [map take_numbers length]; [reflexivity|]. cbn [as_number tbind]. rewrite IH. reflexivity. Qed.

Lemma map_to_of l : map (fun z => PNum (Z.to_N z)) (map (fun z => Z.of_N (Z.to_N z)) l) = map (fun z => PNum (Z.to_N z)) l.
Proof. rewrite map_map. apply map_ext. intros z. rewrite N2Z.id. reflexivity. Qed.

(* Rectangle: every value the writer accepts reads back (whatever the resolver) to a value with the same written form *)
Theorem rectangle_rt rs v p : write_numbers 4 v = TOk p ->
  exists v', read_rectangle rs p = TOk v' /\ write_numbers 4 v' = TOk p.
Proof.
  destruct v; cbn [write_numbers]; try discriminate.
  destruct (length l =? 4)%nat eqn:Hl; [|discriminate]. intros Hp. inversion Hp. subst p.
  apply Nat.eqb_eq in Hl.
  exists (VNums (map (fun z => Z.of_N (Z.to_N z)) l)).
  unfold read_rectangle. cbn [resolve_if_ref tbind into_array]. rewrite map_length, Hl. cbn [Nat.eqb negb].
  rewrite numbers_pnum. cbn [tmap write_numbers]. rewrite map_length, Hl. cbn [Nat.eqb]. rewrite map_to_of. split; reflexivity.
Qed.

Theorem matrix_rt rs v p : write_numbers 6 v = TOk p ->
  exists v', read_matrix rs p = TOk v' /\ write_numbers 6 v' = TOk p.
Proof.
  destruct v; cbn [write_numbers]; try discriminate.
  destruct (length l =? 6)%nat eqn:Hl; [|discriminate]. intros Hp. inversion Hp. subst p.
  apply Nat.eqb_eq in Hl.
  exists (VNums (map (fun z => Z.of_N (Z.to_N z)) l)).
  unfold read_matrix. destruct matrix_reader_resolves; cbn [resolve_if_ref tbind into_array]; rewrite <- Hl at 1; rewrite take_numbers_pnum;
  cbn [tmap write_numbers]; rewrite map_length, Hl; cbn [Nat.eqb]; rewrite map_to_of; split; reflexivity.
Qed.

(* non-vacuity: a Date, a Rectangle and a Matrix go through their pairs *)
Example date_example :
  tbind (write_date (VNums [1998; 12; 23; 19; 52; 0; 0; 8; 0]%Z)) (read_date (fun _ => TErr (EBase 1)))
  = TOk (VNums [1998; 12; 23; 19; 52; 0; 0; 8; 0]%Z).
Proof. vm_compute. reflexivity. Qed.

Example rectangle_example :
  tbind (write_numbers 4 (VNums [0; 0; 1142947840; 1145569280]%Z)) (read_rectangle (fun _ => TErr (EBase 1)))
  = TOk (VNums [0; 0; 1142947840; 1145569280]%Z).
Proof. vm_compute. reflexivity. Qed.

(** * Date: every value the writer accepts reads back to a value with the same written form *)
(** * Date round trip *)

(* digit bytes are neither separators, nor '+', nor non-ASCII *)
Lemma date_digit_range c : is_digit c = true -> 48 <= c <= 57.
Proof. unfold is_digit. intros H. apply andb_true_iff in H. destruct H as [H1 H2]. apply N.leb_le in H1, H2. lia. Qed.

Lemma date_digit_not_sep c : is_digit c = true -> is_sep c = false.
Proof.
  intros H. apply date_digit_range in H. unfold is_sep.
  destruct (N.eqb_spec c 43); [lia|]. destruct (N.eqb_spec c 45); [lia|]. destruct (N.eqb_spec c 90); [lia|]. reflexivity.
Qed.

Lemma date_digit_ascii c : is_digit c = true -> (c <? 128) = true.
Proof. intros H. apply date_digit_range in H. apply N.ltb_lt. lia. Qed.

Lemma date_digit_not_plus c : is_digit c = true -> (c =? 43) = false.
Proof. intros H. apply date_digit_range in H. apply N.eqb_neq. lia. Qed.

(* the two- and four-digit fields, by a computed sweep *)
Definition date_chk2 (k : N) : bool :=
  match pad 2 k with
  | [a; b] => is_digit a && is_digit b && match digits_val [a; b] 0 with Some v => v =? k | None => false end
  | _ => false
  end.

Definition date_chk4 (k : N) : bool :=
  match pad 4 k with
  | [a; b; c; d] => is_digit a && is_digit b && is_digit c && is_digit d
                    && match digits_val [a; b; c; d] 0 with Some v => v =? k | None => false end
  | _ => false
  end.

Lemma date_chk2_all : forallb date_chk2 (seqN 0 (N.to_nat 100)) = true.
Proof. vm_compute. reflexivity. Qed.

Lemma date_chk4_all : forallb date_chk4 (seqN 0 (N.to_nat 10000)) = true.
Proof. vm_compute. reflexivity. Qed.

Lemma date_pad2 k : k < 100 ->
  exists a b, pad 2 k = [a; b] /\ is_digit a = true /\ is_digit b = true /\ digits_val [a; b] 0 = Some k.
Proof.
  intros Hk. pose proof date_chk2_all as H. rewrite forallb_forall in H.
  specialize (H k). rewrite seqN_In, N2Nat.id in H. specialize (H ltac:(lia)).
  unfold date_chk2 in H.
  destruct (pad 2 k) as [|a [|b [|c l]]]; try discriminate.
  exists a, b. apply andb_true_iff in H. destruct H as [H H3]. apply andb_true_iff in H. destruct H as [H1 H2].
  destruct (digits_val [a; b] 0) as [v|]; [|discriminate]. apply N.eqb_eq in H3. subst v. auto.
Qed.

Lemma date_pad4 k : k < 10000 ->
  exists a b c d, pad 4 k = [a; b; c; d] /\ is_digit a = true /\ is_digit b = true /\ is_digit c = true /\
                  is_digit d = true /\ digits_val [a; b; c; d] 0 = Some k.
Proof.
  intros Hk. pose proof date_chk4_all as H. rewrite forallb_forall in H.
  specialize (H k). rewrite seqN_In, N2Nat.id in H. specialize (H ltac:(lia)).
  unfold date_chk4 in H.
  destruct (pad 4 k) as [|a [|b [|c [|d [|e l]]]]]; try discriminate.
  exists a, b, c, d. apply andb_true_iff in H. destruct H as [H H5]. apply andb_true_iff in H. destruct H as [H H4].
  apply andb_true_iff in H. destruct H as [H H3]. apply andb_true_iff in H. destruct H as [H1 H2].
  destruct (digits_val [a; b; c; d] 0) as [v|]; [|discriminate]. apply N.eqb_eq in H5. subst v. auto 10.
Qed.

Lemma date_parse_unsigned c t k max :
  is_digit c = true -> digits_val (c :: t) 0 = Some k -> k <= max -> parse_unsigned (c :: t) max = Some k.
Proof.
  intros Hc Hd Hk. unfold parse_unsigned. rewrite (date_digit_not_plus c Hc), Hd.
  apply N.leb_le in Hk. rewrite Hk. reflexivity.
Qed.

(* the reader on a string of the writer's shape *)
Lemma date_read_shape rs y1 y2 y3 y4 yr m1 m2 mo d1 d2 dd h1 h2 hh i1 i2 mi s1 s2 ss o t1 t2 th u1 u2 tm :
  is_digit y1 = true -> is_digit y2 = true -> is_digit y3 = true -> is_digit y4 = true ->
  digits_val [y1; y2; y3; y4] 0 = Some yr -> yr < 10000 ->
  is_digit m1 = true -> is_digit m2 = true -> digits_val [m1; m2] 0 = Some mo -> mo < 100 ->
  is_digit d1 = true -> is_digit d2 = true -> digits_val [d1; d2] 0 = Some dd -> dd < 100 ->
  is_digit h1 = true -> is_digit h2 = true -> digits_val [h1; h2] 0 = Some hh -> hh < 100 ->
  is_digit i1 = true -> is_digit i2 = true -> digits_val [i1; i2] 0 = Some mi -> mi < 100 ->
  is_digit s1 = true -> is_digit s2 = true -> digits_val [s1; s2] 0 = Some ss -> ss < 100 ->
  is_digit t1 = true -> is_digit t2 = true -> digits_val [t1; t2] 0 = Some th -> th < 100 ->
  is_digit u1 = true -> is_digit u2 = true -> digits_val [u1; u2] 0 = Some tm -> tm < 100 ->
  is_sep o = true -> (o <? 128) = true ->
  read_date rs (PStr [68; 58; y1; y2; y3; y4; m1; m2; d1; d2; h1; h2; i1; i2; s1; s2; o; t1; t2; 39; u1; u2])
  = TOk (VNums (map Z.of_N [yr; mo; dd; hh; mi; ss; (if o =? 45 then 0 else if o =? 43 then 1 else 2); th; tm])).
Proof.
  intros Hy1 Hy2 Hy3 Hy4 Hyr Byr Hm1 Hm2 Hmo Bmo Hd1 Hd2 Hdd Bdd Hh1 Hh2 Hhh Bhh Hi1 Hi2 Hmi Bmi Hs1 Hs2 Hss Bss
         Ht1 Ht2 Hth Bth Hu1 Hu2 Htm Btm Ho Hoa.
  unfold read_date. cbn [resolve_if_ref tbind].
  assert (Ha : ascii [68; 58; y1; y2; y3; y4; m1; m2; d1; d2; h1; h2; i1; i2; s1; s2; o; t1; t2; 39; u1; u2] = true).
  { unfold ascii. cbn [forallb].
    change (68 <? 128) with true. change (58 <? 128) with true. change (39 <? 128) with true.
    rewrite Hoa, (date_digit_ascii y1 Hy1), (date_digit_ascii y2 Hy2), (date_digit_ascii y3 Hy3), (date_digit_ascii y4 Hy4), (date_digit_ascii m1 Hm1), (date_digit_ascii m2 Hm2), (date_digit_ascii d1 Hd1), (date_digit_ascii d2 Hd2), (date_digit_ascii h1 Hh1), (date_digit_ascii h2 Hh2), (date_digit_ascii i1 Hi1), (date_digit_ascii i2 Hi2), (date_digit_ascii s1 Hs1), (date_digit_ascii s2 Hs2), (date_digit_ascii t1 Ht1), (date_digit_ascii t2 Ht2), (date_digit_ascii u1 Hu1), (date_digit_ascii u2 Hu2). reflexivity. }
  rewrite Ha. cbn [negb].
  change (68 =? 68) with true. change (58 =? 58) with true. cbn [andb].
  assert (Hf : find_sep [68; 58; y1; y2; y3; y4; m1; m2; d1; d2; h1; h2; i1; i2; s1; s2; o; t1; t2; 39; u1; u2] 0
               = Some (16%nat, o)).
  { cbn [find_sep]. change (is_sep 68) with false. change (is_sep 58) with false.
    rewrite (date_digit_not_sep y1 Hy1), (date_digit_not_sep y2 Hy2), (date_digit_not_sep y3 Hy3), (date_digit_not_sep y4 Hy4), (date_digit_not_sep m1 Hm1), (date_digit_not_sep m2 Hm2), (date_digit_not_sep d1 Hd1), (date_digit_not_sep d2 Hd2), (date_digit_not_sep h1 Hh1), (date_digit_not_sep h2 Hh2), (date_digit_not_sep i1 Hi1), (date_digit_not_sep i2 Hi2), (date_digit_not_sep s1 Hs1), (date_digit_not_sep s2 Hs2), Ho. reflexivity. }
  rewrite Hf.
  unfold slice at 1. cbn [length Nat.leb firstn skipn].
  rewrite (date_parse_unsigned y1 [y2; y3; y4] yr 65535 Hy1 Hyr ltac:(lia)).
  unfold parse_or, slice. cbn [length Nat.leb firstn skipn].
  rewrite (date_parse_unsigned m1 [m2] mo 255 Hm1 Hmo ltac:(lia)).
  rewrite (date_parse_unsigned d1 [d2] dd 255 Hd1 Hdd ltac:(lia)).
  rewrite (date_parse_unsigned h1 [h2] hh 255 Hh1 Hhh ltac:(lia)).
  rewrite (date_parse_unsigned i1 [i2] mi 255 Hi1 Hmi ltac:(lia)).
  rewrite (date_parse_unsigned s1 [s2] ss 255 Hs1 Hss ltac:(lia)).
  rewrite (date_parse_unsigned t1 [t2] th 255 Ht1 Hth ltac:(lia)).
  rewrite (date_parse_unsigned u1 [u2] tm 255 Hu1 Htm ltac:(lia)).
  reflexivity.
Qed.

(* Date: every value the writer accepts reads back (whatever the resolver) to a value with the same written form *)
Theorem date_rt rs v p : write_date v = TOk p ->
  exists v', read_date rs p = TOk v' /\ write_date v' = TOk p.
Proof.
  destruct v; try discriminate.
  destruct l as [|year [|month [|day [|hour [|minute [|second [|rel [|tzh [|tzm [|x l]]]]]]]]]]; try discriminate.
  unfold write_date.
  destruct ((9999 <? Z.to_N year) || (99 <? Z.to_N month) || (99 <? Z.to_N day) || (23 <? Z.to_N hour)
            || (60 <=? Z.to_N minute) || (60 <=? Z.to_N second) || (24 <=? Z.to_N tzh) || (60 <=? Z.to_N tzm)) eqn:Hr;
    [discriminate|].
  intros Hp. inversion Hp as [Hp']. clear Hp Hp'.
  pose proof Hr as Hr'.
  repeat (apply orb_false_iff in Hr'; destruct Hr' as [Hr' ?]).
  repeat match goal with
         | H : (_ <? _) = false |- _ => apply N.ltb_ge in H
         | H : (_ <=? _) = false |- _ => apply N.leb_gt in H
         end.
  set (o := if Z.to_N rel =? 0 then 45 else if Z.to_N rel =? 1 then 43 else 90).
  destruct (date_pad4 (Z.to_N year) ltac:(lia)) as (y1 & y2 & y3 & y4 & Ey & Hy1 & Hy2 & Hy3 & Hy4 & Vy).
  destruct (date_pad2 (Z.to_N month) ltac:(lia)) as (m1 & m2 & Em & Hm1 & Hm2 & Vm).
  destruct (date_pad2 (Z.to_N day) ltac:(lia)) as (d1 & d2 & Ed & Hd1 & Hd2 & Vd).
  destruct (date_pad2 (Z.to_N hour) ltac:(lia)) as (h1 & h2 & Eh & Hh1 & Hh2 & Vh).
  destruct (date_pad2 (Z.to_N minute) ltac:(lia)) as (i1 & i2 & Ei & Hi1 & Hi2 & Vi).
  destruct (date_pad2 (Z.to_N second) ltac:(lia)) as (s1 & s2 & Es & Hs1 & Hs2 & Vs).
  destruct (date_pad2 (Z.to_N tzh) ltac:(lia)) as (t1 & t2 & Et & Ht1 & Ht2 & Vt).
  destruct (date_pad2 (Z.to_N tzm) ltac:(lia)) as (u1 & u2 & Eu & Hu1 & Hu2 & Vu).
  assert (Ho : is_sep o = true /\ (o <? 128) = true /\
               Z.to_N (Z.of_N (if o =? 45 then 0 else if o =? 43 then 1 else 2)) =
               (if o =? 45 then 0 else if o =? 43 then 1 else 2) /\
               (if (if o =? 45 then 0 else if o =? 43 then 1 else 2) =? 0 then 45
                else if (if o =? 45 then 0 else if o =? 43 then 1 else 2) =? 1 then 43 else 90) = o).
  { rewrite N2Z.id. subst o. destruct (Z.to_N rel =? 0); [|destruct (Z.to_N rel =? 1)]; repeat split; reflexivity. }
  destruct Ho as (Ho1 & Ho2 & Ho3 & Ho4).
  exists (VNums (map Z.of_N [Z.to_N year; Z.to_N month; Z.to_N day; Z.to_N hour; Z.to_N minute; Z.to_N second;
                             (if o =? 45 then 0 else if o =? 43 then 1 else 2); Z.to_N tzh; Z.to_N tzm])).
  split.
  - rewrite Ey, Em, Ed, Eh, Ei, Es, Et, Eu. cbn [app].
    apply date_read_shape; try assumption; lia.
  - cbn [map]. rewrite !N2Z.id. rewrite Hr. rewrite Ho4. reflexivity.
Qed.

(** * Action (after fix C15-b): a Goto with a named destination, and any other action whose /S is a name other than
      GoTo, reads back to a value with the same written form *)
Definition action_ok (v : value) : Prop :=
  match v with
  | VSome (VStr _) => True
  | VDict d => exists n, dget k_S d = Some (PName n) /\ beqb n n_GoTo = false
  | _ => False
  end.

Theorem action_rt rs v p : action_ok v -> write_action v = TOk p ->
  exists v', read_action rs p = TOk v' /\ write_action v' = TOk p.
Proof.
  destruct v as [| | | | | |d| | | |x| | | | | | | | |]; cbn [action_ok]; try contradiction.
  - intros [n [Hs Hn]] Hw. cbn [write_action] in Hw. inversion Hw. subst p.
    exists (VDict d). unfold read_action. cbn [resolve_if_ref tbind into_dictionary t_try].
    rewrite Hs. cbn [as_name tbind]. rewrite Hn. split; reflexivity.
  - destruct x; try contradiction. intros _ Hw. cbn [write_action] in Hw. inversion Hw. subst p.
    exists (VSome (VStr s)). split; reflexivity.
Qed.

(* before the fix the Goto arm wrote only /D: such a dictionary is not an action for the reader *)
Lemma action_goto_without_S_unreadable rs s :
  read_action rs (PDict (dinsert k_D (PStr s) [])) = TErr (EBase c_NoneError).
Proof. reflexivity. Qed.

(** * NameTree<Primitive> (after fix C15-c): a node the writer accepts reads back to the identical value *)
Lemma read_write_names rs l : forall ns, write_names l = TOk ns -> read_names rs ns = TOk l.
Proof.
  induction l as [|x t IH]; intros ns H.
  - cbn in H. inversion H. reflexivity.
  - destruct x as [| | | | | | | | | | | | |a b| | | | | |]; try discriminate.
    destruct a; try discriminate. destruct b; try discriminate.
    cbn [write_names] in H. destruct (write_names t) as [r| | |] eqn:Hr; try discriminate.
    cbn [tbind] in H. inversion H. subst ns.
    cbn [read_names resolve_if_ref tbind into_string]. rewrite (IH r eq_refl). reflexivity.
Qed.
Lemma read_write_kids l : forall ks, write_kids l = TOk ks -> read_kids ks = TOk l.
Proof.
  induction l as [|x t IH]; intros ks H.
  - cbn in H. inversion H. reflexivity.
  - destruct x; try discriminate.
    cbn [write_kids] in H. destruct (write_kids t) as [r| | |] eqn:Hr; try discriminate.
    cbn [tbind] in H. inversion H. subst ks. cbn [read_kids]. rewrite (IH r eq_refl). reflexivity.
Qed.

Theorem nametree_rt rs v p : write_nametree v = TOk p -> read_nametree rs p = TOk v.
Proof.
  destruct v as [| | | | | | | | | | | | |limits node| | | | | |]; try discriminate.
  unfold write_nametree.
  assert (Hl : forall d0, (match limits with
               | VNone => TOk []
               | VSome (VPair (VStr x) (VStr y)) => TOk (dinsert k_Limits (PArr [PStr x; PStr y]) [])
               | _ => ill_typed end) = TOk d0 ->
               (limits = VNone /\ d0 = []) \/ exists x y, limits = VSome (VPair (VStr x) (VStr y)) /\ d0 = [(k_Limits, PArr [PStr x; PStr y])]).
  { intros d0 H. destruct limits as [| | | | | | | | |  |l| | | | | | | | |]; try discriminate.
    - inversion H. left. split; reflexivity.
    - destruct l as [| | | | | | | | | | | | |a b| | | | | |]; try discriminate.
      destruct a; try discriminate. destruct b; try discriminate. inversion H. right. do 2 eexists. split; reflexivity. }
  destruct (match limits with
            | VNone => TOk []
            | VSome (VPair (VStr x) (VStr y)) => TOk (dinsert k_Limits (PArr [PStr x; PStr y]) [])
            | _ => ill_typed end) as [d0| | |] eqn:Hd; try discriminate.
  specialize (Hl d0 eq_refl). cbn [tbind].
  destruct node as [| | | | | | | | | |n| | | |n| | | | |]; try discriminate;
    destruct n as [| | | | | | | | | | |l| | | | | | | |]; try discriminate.
  - (* leaf *)
    destruct (write_names l) as [ns| | |] eqn:Hn; try discriminate. cbn [tbind]. intros Hp. inversion Hp. subst p.
    pose proof (read_write_names rs l ns Hn) as Hr.
    destruct Hl as [[Hlim Hd0]|(x & y & Hlim & Hd0)]; subst limits d0; unfold read_nametree;
      cbn [resolve_if_ref tbind into_dictionary t_try]; vm_compute dget; cbn [resolve_if_ref tbind into_array into_string];
      rewrite Hr; reflexivity.
  - (* intermediate *)
    destruct (write_kids l) as [ks| | |] eqn:Hk; try discriminate. cbn [tbind]. intros Hp. inversion Hp. subst p.
    pose proof (read_write_kids l ks Hk) as Hr.
    destruct Hl as [[Hlim Hd0]|(x & y & Hlim & Hd0)]; subst limits d0; unfold read_nametree;
      cbn [resolve_if_ref tbind into_dictionary t_try]; vm_compute dget; cbn [resolve_if_ref tbind into_array into_string];
      rewrite Hr; reflexivity.
Qed.

(* before the fix the writer was `todo!()`: the witness of finding C15-c now goes round *)
Example nametree_witness_rt :
  tbind (tbind (read_nametree (fun _ => TErr (EBase 1)) (PDict [(k_Names, PArr [PStr [97]; PInt 1; PStr [98]; PName [120]])])) write_nametree)
        (read_nametree (fun _ => TErr (EBase 1)))
  = read_nametree (fun _ => TErr (EBase 1)) (PDict [(k_Names, PArr [PStr [97]; PInt 1; PStr [98]; PName [120]])]).
Proof. vm_compute. reflexivity. Qed.

(** * the values of hand-written types covered by a proved round trip, and the law that closes the generic theorem *)
Definition hand_ok (i : N) (v : value) : Prop :=
  i = hid_Rectangle \/ i = hid_Matrix \/ i = hid_Date \/ (i = hid_Action /\ action_ok v) \/ i = hid_NameTreePrim.

Theorem hands_law E : forall i x p, hand_ok i x -> h_write hands i x = TOk p ->
  exists x', h_read hands i (resolve E) p = TOk x' /\ h_write hands i x' = TOk p.
Proof.
  intros i x p [Hi|[Hi|[Hi|[[Hi Hok]|Hi]]]] Hw; subst i; cbn [hands h_write h_read] in *; unfold hand_write, hand_read in *; cbn in Hw |- *.
  - eapply rectangle_rt. exact Hw.
  - eapply matrix_rt. exact Hw.
  - eapply date_rt. exact Hw.
  - eapply action_rt; eassumption.
  - exists x. split; [eapply nametree_rt; exact Hw|exact Hw].
Qed.
