(** Typed/HandProofs.v — round trip of the hand-written Rectangle and Matrix pairs, and the hand law used to close
    the generic theorem for the concrete table Hand.hands. *)
From PdfV Require Import Base.Prelude Typed.Prim Typed.Schema Typed.Derive Typed.Hand.

Lemma numbers_pnum l : numbers (map (fun z => PNum (Z.to_N z)) l) = TOk (map (fun z => Z.of_N (Z.to_N z)) l).
Proof. induction l as [|z l IH]; cbn [map numbers]; [reflexivity|]. cbn [as_number tbind]. rewrite IH. reflexivity. Qed.

Lemma take_numbers_pnum l : take_numbers (length l) (map (fun z => PNum (Z.to_N z)) l) = TOk (map (fun z => Z.of_N (Z.to_N z)) l).
Proof. induction l as [|z l IH]; cbn [map take_numbers length]; [reflexivity|]. cbn [as_number tbind]. rewrite IH. reflexivity. Qed.

Lemma map_to_of l : map (fun z => PNum (Z.to_N z)) (map (fun z => Z.of_N (Z.to_N z)) l) = map (fun z => PNum (Z.to_N z)) l.
Proof. rewrite map_map. apply map_ext. intros z. rewrite N2Z.id. reflexivity. Qed.

(* Rectangle: every value the writer accepts reads back (whatever the resolver) to a value with the same written form *)
Theorem rectangle_rt rs v p : write_numbers 4 v = TOk p ->
  exists v', read_rectangle rs p = TOk v' /\ write_numbers 4 v' = TOk p.
Proof.
  destruct v; cbn [write_numbers]; try discriminate.
  destruct (length l =? 4)%nat eqn:Hl; [|discriminate]. intros Hp. inversion Hp. subst p.
  apply Nat.eqb_eq in Hl.
  exists (VNums (map (fun z => Z.of_N (Z.to_N z)) l)).
  unfold read_rectangle. cbn [resolve_if_ref tbind into_array]. rewrite map_length, Hl. cbn [Nat.eqb negb].
  rewrite numbers_pnum. cbn [tmap write_numbers]. rewrite map_length, Hl. cbn [Nat.eqb]. rewrite map_to_of. split; reflexivity.
Qed.

Theorem matrix_rt v p : write_numbers 6 v = TOk p ->
  exists v', read_matrix p = TOk v' /\ write_numbers 6 v' = TOk p.
Proof.
  destruct v; cbn [write_numbers]; try discriminate.
  destruct (length l =? 6)%nat eqn:Hl; [|discriminate]. intros Hp. inversion Hp. subst p.
  apply Nat.eqb_eq in Hl.
  exists (VNums (map (fun z => Z.of_N (Z.to_N z)) l)).
  unfold read_matrix. cbn [tbind into_array]. rewrite <- Hl at 1. rewrite take_numbers_pnum.
  cbn [tmap write_numbers]. rewrite map_length, Hl. cbn [Nat.eqb]. rewrite map_to_of. split; reflexivity.
Qed.

(* the values of hand-written types covered by a proved round trip *)
Definition hand_ok (i : N) (v : value) : Prop := i = hid_Rectangle \/ i = hid_Matrix.

Theorem hands_law E : forall i x p, hand_ok i x -> h_write hands i x = TOk p ->
  exists x', h_read hands i (resolve E) p = TOk x' /\ h_write hands i x' = TOk p.
Proof.
  intros i x p [Hi|Hi] Hw; subst i; cbn [hands h_write h_read] in *; unfold hand_write, hand_read in *; cbn in Hw |- *.
  - eapply rectangle_rt. exact Hw.
  - eapply matrix_rt. exact Hw.
Qed.

(* non-vacuity: a Date, a Rectangle and a Matrix go through their pairs *)
Example date_example :
  tbind (write_date (VNums [1998; 12; 23; 19; 52; 0; 0; 8; 0]%Z)) (read_date (fun _ => TErr (EBase 1)))
  = TOk (VNums [1998; 12; 23; 19; 52; 0; 0; 8; 0]%Z).
Proof. vm_compute. reflexivity. Qed.

Example rectangle_example :
  tbind (write_numbers 4 (VNums [0; 0; 1142947840; 1145569280]%Z)) (read_rectangle (fun _ => TErr (EBase 1)))
  = TOk (VNums [0; 0; 1142947840; 1145569280]%Z).
Proof. vm_compute. reflexivity. Qed.
