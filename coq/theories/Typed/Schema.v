(** Typed/Schema.v — the type universe of the derive macros, schemas, values; decoding of the generated tables
    (Gen.Generated.typed_structs / typed_name_enums / typed_int_enums, written by gen/extract_typed.py).  No proofs. *)
From PdfV Require Import Base.Prelude Gen.Generated Typed.Prim.

(* the field types the derive macros meet (pdf/src/object/mod.rs impls) *)
Inductive ty : Type :=
| TI32 | TU32 | TUsize | TF32 | TBool | TName | TStr | TPrim | TDict | TRef | TUnit
| TOption (t : ty) | TVec (t : ty) | TMap (t : ty) | TPair (a b : ty) | TBox (t : ty)
| TMaybeRef (t : ty) | TRcRef (t : ty) | TLazy (t : ty)
| TStruct (i : N) | TNameEnum (i : N) | TIntEnum (i : N) | THand (i : N).

(* #[pdf(default = "...")] expressions that occur (extract_typed.py: default encoding) *)
Inductive dflt : Type :=
| DNone | DInt (z : Z) | DBool (b : bool) | DF32 (bits : N) | DVec0 (field : N) | DEnum (e v : N) | DUnknown.

Record field : Type := {
  f_name : bytes; f_key : bytes; f_ty : ty; f_default : dflt;
  f_other : bool; f_indirect : bool; f_skip : bool }.

(* pdf_derive/src/lib.rs: GlobalAttrs + fields.  s_tmode: 0 no Type attribute, 1 `Type = "X?"`, 2 `Type = "X"` *)
Record schema : Type := {
  s_name : bytes; s_type : bytes; s_tmode : N; s_checks : list (bytes * bytes); s_fields : list field;
  s_read : bool; s_write : bool }.

Record nenum : Type := { ne_name : bytes; ne_pairs : list (bytes * bytes); ne_other : bool; ne_read : bool; ne_write : bool }.
Record ienum : Type := { ie_name : bytes; ie_variants : list (bytes * Z); ie_read : bool; ie_write : bool }.
Record schemas : Type := { structs : list schema; nenums : list nenum; ienums : list ienum }.

Definition get_struct (S : schemas) (i : N) : option schema := nth_error (structs S) (N.to_nat i).
Definition get_nenum (S : schemas) (i : N) : option nenum := nth_error (nenums S) (N.to_nat i).
Definition get_ienum (S : schemas) (i : N) : option ienum := nth_error (ienums S) (N.to_nat i).

(** typed values (what the Rust structs hold) *)
Inductive value : Type :=
| VInt (z : Z) | VF32 (bits : N) | VBool (b : bool) | VName (s : bytes) | VStr (s : bytes)
| VPrim (p : prim)              (* Primitive, Lazy<T> (the unread primitive) *)
| VDict (d : dict) | VRef (i g : N) | VUnit
| VNone | VSome (v : value)
| VVec (l : list value)
| VMap (l : list (bytes * value))
| VPair (a b : value)
| VDirect (v : value)           (* MaybeRef::Direct *)
| VIndirect (i g : N) (v : value)   (* MaybeRef::Indirect / RcRef: the reference and the loaded object *)
| VStruct (fs : list value)     (* one value per schema field, in order; the `other` field is a VDict *)
| VEnum (idx : N) | VEnumOther (s : bytes)
| VNums (l : list Z).           (* hand-written plain records: Date (9 numbers), Rectangle (4), Matrix (6) *)

(** decoding of the generated encoding (codes documented in gen/extract_typed.py) *)
Fixpoint decode_ty (fuel : nat) (l : list N) : option (ty * list N) :=
  match fuel with
  | O => None
  | S f =>
    match l with
    | [] => None
    | c :: r =>
      let one (k : ty -> ty) := match decode_ty f r with Some (t, r') => Some (k t, r') | None => None end in
      let idx (k : N -> ty) := match r with i :: r' => Some (k i, r') | [] => None end in
      if c =? 0 then Some (TI32, r) else if c =? 1 then Some (TU32, r) else if c =? 2 then Some (TUsize, r)
      else if c =? 3 then Some (TF32, r) else if c =? 4 then Some (TBool, r) else if c =? 5 then Some (TName, r)
      else if c =? 6 then Some (TStr, r) else if c =? 7 then Some (TPrim, r) else if c =? 8 then Some (TDict, r)
      else if c =? 9 then Some (TRef, r) else if c =? 10 then Some (TUnit, r)
      else if c =? 20 then one TOption else if c =? 21 then one TVec else if c =? 22 then one TMap
      else if c =? 23 then
        match decode_ty f r with
        | Some (a, r1) => match decode_ty f r1 with Some (b, r2) => Some (TPair a b, r2) | None => None end
        | None => None end
      else if c =? 24 then one TBox else if c =? 25 then one TMaybeRef else if c =? 26 then one TRcRef
      else if c =? 27 then one TLazy
      else if c =? 30 then idx TStruct else if c =? 31 then idx TNameEnum else if c =? 32 then idx TIntEnum
      else if c =? 33 then idx THand else None
    end
  end.

(* an undecodable type is a hand/unmodelled type with an impossible index: schemas_wf rejects it *)
Definition bad_ty : ty := THand 4294967295.
Definition ty_of (l : list N) : ty :=
  match decode_ty (S (length l)) l with Some (t, []) => t | _ => bad_ty end.

Definition Z_of_sign (neg abs : N) : Z := if neg =? 0 then Z.of_N abs else Z.opp (Z.of_N abs).

Definition dflt_of (d : N * list N) : dflt :=
  let (k, a) := d in
  if k =? 0 then DNone
  else if k =? 1 then match a with [neg; abs] => DInt (Z_of_sign neg abs) | _ => DUnknown end
  else if k =? 2 then match a with [b] => DBool (negb (b =? 0)) | _ => DUnknown end
  else if k =? 3 then match a with [b] => DF32 b | _ => DUnknown end
  else if k =? 4 then match a with [i] => DVec0 i | _ => DUnknown end
  else if k =? 5 then match a with [e; v] => DEnum e v | _ => DUnknown end
  else DUnknown.

Definition field_of (x : list N * list N * list N * (N * list N) * N) : field :=
  let '(nm, key, t, d, fl) := x in
  {| f_name := nm; f_key := key; f_ty := ty_of t; f_default := dflt_of d;
     f_other := N.testbit fl 0; f_indirect := N.testbit fl 1; f_skip := N.testbit fl 2 |}.

Definition schema_of (x : list N * (list N * N) * list (list N * list N) * list (list N * list N * list N * (N * list N) * N) * N) : schema :=
  let '(nm, (tn, tm), checks, fs, fl) := x in
  {| s_name := nm; s_type := tn; s_tmode := tm; s_checks := checks; s_fields := map field_of fs;
     s_read := N.testbit fl 0; s_write := N.testbit fl 1 |}.

Definition nenum_of (x : list N * list (list N * list N) * N * N) : nenum :=
  let '(nm, pairs, oth, fl) := x in
  {| ne_name := nm; ne_pairs := pairs; ne_other := negb (oth =? 0); ne_read := N.testbit fl 0; ne_write := N.testbit fl 1 |}.

Definition ienum_of (x : list N * list (list N * (N * N)) * N) : ienum :=
  let '(nm, vs, fl) := x in
  {| ie_name := nm; ie_variants := map (fun v => (fst v, Z_of_sign (fst (snd v)) (snd (snd v)))) vs;
     ie_read := N.testbit fl 0; ie_write := N.testbit fl 1 |}.

(* the schemas of the Rust sources as they are now *)
Definition gen_schemas : schemas :=
  {| structs := map schema_of typed_structs; nenums := map nenum_of typed_name_enums; ienums := map ienum_of typed_int_enums |}.

Fixpoint find_name {A} (name : A -> bytes) (n : bytes) (l : list A) (i : N) : option (N * A) :=
  match l with
  | [] => None
  | x :: t => if beqb n (name x) then Some (i, x) else find_name name n t (i + 1)
  end.
Definition struct_by_name (S : schemas) (n : bytes) : option (N * schema) := find_name s_name n (structs S) 0.
