(** Typed/DanglingProofs.v — C18: references to missing or free objects read as null.
    The path: file.rs resolve_ref (bare NullRef / FreeObject, Try-wrapped UnspecifiedXRefEntry) → Resolve::get (Shared)
    → MaybeRef / RcRef / scalar / container readers → derived field reader → Option<T>::from_primitive. *)
From PdfV Require Import Base.Prelude Gen.Generated Typed.Prim Typed.Schema Typed.Derive Typed.DictProofs.

(** * table lemmas: facts about the generated constants, re-checked against the sources on every run *)
(* the three ways a reference can dangle, as resolve_ref reports them *)
Lemma dangling_kinds_missing :
  is_missing (EBase resolve_ref_free_err) = true /\
  is_missing (EBase resolve_ref_invalid_err) = true /\
  is_missing (if resolve_ref_get_in_try then ETry (EBase xref_get_none_err) else EBase xref_get_none_err) = true.
Proof. vm_compute. repeat split; reflexivity. Qed.

(* FromPrimitive { typ, field, source } is what a derived reader wraps around the failure of one ENTRY of an object that exists:
   the Option reader and the Vec element reader must not take it for "the reference I followed designates nothing" *)
Lemma existing_object_not_missing : forall f e, is_missing (EFromPrim f e) = false /\ opt_none (EFromPrim f e) = false.
Proof. intros f e. unfold opt_none. cbn [is_missing]. vm_compute. split; reflexivity. Qed.

(* Resolve::get's wrapper is looked through by the Option reader *)
Lemma shared_looked_through : forall e, is_missing e = true ->
  is_missing (if get_wraps_shared then EShared e else e) = true.
Proof. intros e He. cbn. exact He. Qed.

Lemma try_looked_through : forall e, is_missing e = true -> is_missing (ETry e) = true.
Proof. intros e He. cbn. exact He. Qed.

Lemma missing_opt_none e : is_missing e = true -> opt_none e = true.
Proof. intros He. unfold opt_none. rewrite He. apply orb_true_r. Qed.

(** * dangling references *)
Definition dangling (E : env) (i : N) : Prop :=
  nth_error E (N.to_nat i) = None \/ nth_error E (N.to_nat i) = Some XFree \/ nth_error E (N.to_nat i) = Some XInvalid.

Lemma dangling_resolve E i : dangling E i -> exists e, resolve E i = TErr e /\ is_missing e = true.
Proof.
  destruct dangling_kinds_missing as [Hf [Hi Hn]].
  intros [Hd|[Hd|Hd]]; unfold resolve; rewrite Hd; eexists; (split; [reflexivity|]); assumption.
Qed.

Section Dangling.
Variable SC : schemas.
Variable H : hand.
Variable allow : bool.           (* both option sets: the statements hold for either value *)
Variable E : env.
Notation rd := (read SC H allow E).

(* field types whose reader follows a reference at once *)
Definition resolving (t : ty) : bool :=
  match t with
  | TI32 | TU32 | TUsize | TF32 | TBool | TName | TStr | TDict | TVec _ | TMap _ | TPair _ _ | TMaybeRef _ | TRcRef _ => true
  | TStruct i => match get_struct SC i with Some _ => true | None => false end
  (* derived enums resolve before matching (generated constants: pdf_derive impl_object_for_enum, fix C18-c) *)
  | TNameEnum i => name_enum_reader_resolves && match get_nenum SC i with Some _ => true | None => false end
  | TIntEnum i => int_enum_reader_resolves && match get_ienum SC i with Some _ => true | None => false end
  | _ => false
  end.
(* … and those that keep it unread *)
Definition deferring (t : ty) : bool := match t with TRef | TPrim | TLazy _ => true | _ => false end.

Lemma holder_dangling f chain t i g : resolving t = true -> dangling E i -> chain_has i g chain = false ->
  exists e, rd (S f) chain t (PRef i g) = TErr e /\ is_missing e = true.
Proof.
  intros Ht Hd Hc. destruct (dangling_resolve _ _ Hd) as [e [He Hm]].
  destruct t; try discriminate Ht; cbn [read read_dict]; rewrite ?Hc, ?He; cbn [tbind tmap];
    try (exists e; split; [reflexivity|exact Hm]);
    (* mayberef, rcref: whether or not Resolve::get wraps the error (generated constant) *)
    try (eexists; split; [reflexivity|]; apply shared_looked_through; exact Hm).
  - (* struct *) cbn [resolving] in Ht. destruct (get_struct SC i0); [|discriminate]. cbn [tbind]. rewrite ?He. cbn [tbind].
    exists e. split; [reflexivity|exact Hm].
  - (* name enum *) cbn [resolving] in Ht. apply andb_true_iff in Ht. destruct Ht as [Hr Hg]. rewrite Hr.
    destruct (get_nenum SC i0); [|discriminate]. rewrite ?He. cbn [tbind]. exists e. split; [reflexivity|exact Hm].
  - (* integer enum *) cbn [resolving] in Ht. apply andb_true_iff in Ht. destruct Ht as [Hr Hg]. rewrite Hr.
    destruct (get_ienum SC i0); [|discriminate]. rewrite ?He. cbn [tbind]. exists e. split; [reflexivity|exact Hm].
Qed.

(* Option<T>::from_primitive on a dangling reference: None, in strict and in tolerant mode *)
Theorem option_dangling f chain t i g : resolving t = true -> dangling E i -> chain_has i g chain = false ->
  rd (S (S f)) chain (TOption t) (PRef i g) = TOk VNone.
Proof.
  intros Ht Hd Hc. destruct (holder_dangling f chain t i g Ht Hd Hc) as [e [He Hm]].
  cbn [read] in He |- *. rewrite He. rewrite (missing_opt_none _ Hm). reflexivity.
Qed.

(** * array elements (object/mod.rs: impl Object for Vec<T>, after fix C18-b) *)
Lemma vec_elements_null : vec_missing_element_null = true.
Proof. reflexivity. Qed.

Lemma read_elems_same r x y pre post : read_elem r x = read_elem r y ->
  read_elems r (pre ++ x :: post) = read_elems r (pre ++ y :: post).
Proof. intros Hxy. induction pre as [|a pre IH]; cbn [app read_elems]; [rewrite Hxy; reflexivity|rewrite IH; reflexivity]. Qed.

Lemma read_elems_skip r x pre post : read_elem r x = TOk [] ->
  read_elems r (pre ++ x :: post) = read_elems r (pre ++ post).
Proof.
  intros Hx. induction pre as [|a pre IH]; cbn [app read_elems].
  - rewrite Hx. cbn [tbind]. destruct (read_elems r post); reflexivity.
  - rewrite IH. reflexivity.
Qed.

(* the element reader on a dangling reference *)
Lemma elem_dangling f chain t i g : resolving t = true -> dangling E i -> chain_has i g chain = false ->
  read_elem (rd (S f) chain t) (PRef i g) =
  match rd (S f) chain t PNull with TOk v => TOk [v] | TErr _ => TOk [] | TPanic s => TPanic s | TFuel => TFuel end.
Proof.
  intros Ht Hd Hc. destruct (holder_dangling f chain t i g Ht Hd Hc) as [e [He Hm]].
  unfold read_elem. rewrite He, vec_elements_null, Hm. reflexivity.
Qed.

Lemma read_vec_arr f chain t l : rd (S f) chain (TVec t) (PArr l) = tmap VVec (read_elems (rd f chain t) l).
Proof. reflexivity. Qed.

(* a dangling element of an array whose element type does not read Null is left out … *)
Theorem element_dangling_skipped f chain t i g pre post e0 : resolving t = true -> dangling E i -> chain_has i g chain = false ->
  rd (S f) chain t PNull = TErr e0 ->
  rd (S (S f)) chain (TVec t) (PArr (pre ++ PRef i g :: post)) = rd (S (S f)) chain (TVec t) (PArr (pre ++ post)).
Proof.
  intros Ht Hd Hc Hn. rewrite !read_vec_arr. f_equal. apply read_elems_skip. rewrite (elem_dangling f chain t i g Ht Hd Hc), Hn. reflexivity.
Qed.

(* … and is the null object where the element type reads Null *)
Theorem element_dangling_null f chain t i g pre post v0 : resolving t = true -> dangling E i -> chain_has i g chain = false ->
  rd (S f) chain t PNull = TOk v0 ->
  rd (S (S f)) chain (TVec t) (PArr (pre ++ PRef i g :: post)) = rd (S (S f)) chain (TVec t) (PArr (pre ++ PNull :: post)).
Proof.
  intros Ht Hd Hc Hn. rewrite !read_vec_arr. f_equal. apply read_elems_same. rewrite (elem_dangling f chain t i g Ht Hd Hc), Hn.
  unfold read_elem. rewrite Hn. reflexivity.
Qed.

(* a deferring holder keeps the reference: reading succeeds, nothing is resolved *)
Theorem option_deferred f chain t i g : deferring t = true ->
  exists v, rd (S (S f)) chain (TOption t) (PRef i g) = TOk (VSome v).
Proof. destruct t; try discriminate; intros _; eexists; reflexivity. Qed.

End Dangling.

(** * the derived reader: a planted reference in an optional field reads like the absent key *)
Lemma ddel_dinsert_any k q d : ddel k (dinsert k q d) = ddel k d.
Proof.
  induction d as [|[k' v'] d IH]; cbn [dinsert ddel].
  - rewrite beqb_refl. reflexivity.
  - destruct (beqb k k') eqn:Hk; cbn [ddel].
    + rewrite beqb_refl. reflexivity.
    + rewrite Hk, IH. reflexivity.
Qed.

Lemma ddel_comm k k' d : ddel k (ddel k' d) = ddel k' (ddel k d).
Proof.
  induction d as [|[k2 v2] d IH]; [reflexivity|]. cbn [ddel].
  destruct (beqb k' k2) eqn:H1; destruct (beqb k k2) eqn:H2; cbn [ddel]; rewrite ?H1, ?H2; try reflexivity.
  - apply beqb_eq in H1, H2. subst. reflexivity.
  - rewrite IH. reflexivity.
Qed.

Section Planted.
Variable rd : ty -> prim -> tres value.

Lemma read_fields_planted k q v0 pre : forall fd0 post d acc,
  Forall (fun g => normal g = true /\ beqb (f_key g) k = false) pre ->
  normal fd0 = true -> f_key fd0 = k -> f_default fd0 = DNone ->
  rd (f_ty fd0) q = TOk v0 -> rd (f_ty fd0) PNull = TOk v0 ->
  dget k (ddel k d) = None ->             (* the dictionary has at most one entry for k (IndexMap) *)
  read_fields rd (pre ++ fd0 :: post) (dinsert k q d) acc = read_fields rd (pre ++ fd0 :: post) (ddel k d) acc.
Proof.
  induction pre as [|g pre IH]; intros fd0 post d acc Hpre Hn Hk Hdef Hq Hnull Huniq; cbn [app read_fields].
  - unfold normal in Hn. apply negb_true_iff in Hn. apply orb_false_iff in Hn. destruct Hn as [Hs Ho]. rewrite Hs, Ho.
    unfold dremove. rewrite Hk, dget_dinsert_same, Huniq, Hdef, Hq, Hnull. cbn [map_err tbind].
    rewrite ddel_dinsert_any, (ddel_fresh _ _ Huniq). reflexivity.
  - inversion Hpre as [|? ? [Hgn Hgk] Hpre']. subst.
    unfold normal in Hgn. apply negb_true_iff in Hgn. apply orb_false_iff in Hgn. destruct Hgn as [Hs Ho]. rewrite Hs, Ho.
    unfold dremove.
    rewrite (dget_dinsert_other _ _ _ _ Hgk), (dget_ddel_other _ _ _ Hgk).
    assert (Hkg : beqb (f_key fd0) (f_key g) = false) by (rewrite beqb_sym; exact Hgk).
    rewrite (ddel_dinsert_other _ _ _ _ Hgk), (ddel_comm (f_key g) (f_key fd0)).
    destruct (match dget (f_key g) d with
              | Some q0 => map_err (EFromPrim (f_name g)) (rd (f_ty g) q0)
              | None => match f_default g with
                        | DNone => map_err (fun _ => EMissing (f_name g)) (rd (f_ty g) PNull)
                        | dv => TOk (default_value dv (rev acc))
                        end
              end) as [v| | |]; cbn [tbind]; try reflexivity.
    apply IH; try assumption; try reflexivity.
    rewrite ddel_comm, (dget_ddel_other _ _ _ Hkg). exact Huniq.
Qed.

(* a required field whose reader fails is reported by an error naming the field (never a panic: the result is TErr) *)
Lemma read_fields_required_err fd0 post d acc e :
  normal fd0 = true -> dget (f_key fd0) d = Some (PRef (fst e) (snd e)) ->
  forall e', rd (f_ty fd0) (PRef (fst e) (snd e)) = TErr e' ->
  read_fields rd (fd0 :: post) d acc = TErr (EFromPrim (f_name fd0) e').
Proof.
  intros Hn Hg e' He. cbn [read_fields].
  unfold normal in Hn. apply negb_true_iff in Hn. apply orb_false_iff in Hn. destruct Hn as [Hs Ho]. rewrite Hs, Ho.
  unfold dremove. rewrite Hg, He. reflexivity.
Qed.

End Planted.

Lemma expect_same d1 d2 k v r : dget k d1 = dget k d2 -> expect d1 k v r = expect d2 k v r.
Proof. intros Hd. unfold expect. rewrite Hd. reflexivity. Qed.

Lemma expect_all_same d1 d2 cs : (forall c, In c cs -> dget (fst c) d1 = dget (fst c) d2) -> expect_all d1 cs = expect_all d2 cs.
Proof.
  induction cs as [|[k v] cs IH]; intros Hc; cbn [expect_all]; [reflexivity|].
  rewrite (expect_same d1 d2 k v true) by (apply (Hc (k, v)); left; reflexivity).
  destruct (expect d2 k v true); cbn [tbind]; try reflexivity. apply IH. intros c Hin. apply Hc. right. exact Hin.
Qed.

(** the property at the level of a derived struct *)
Theorem struct_optional_null SC H allow E f chain i s pre fd0 post t0 d r g :
  get_struct SC i = Some s -> s_fields s = pre ++ fd0 :: post ->
  Forall (fun g => normal g = true /\ beqb (f_key g) (f_key fd0) = false) pre ->
  normal fd0 = true -> f_default fd0 = DNone -> f_ty fd0 = TOption t0 -> resolving SC t0 = true ->
  beqb (f_key fd0) TypeKey = false -> forallb (fun c => negb (beqb (fst c) (f_key fd0))) (s_checks s) = true ->
  dget (f_key fd0) (ddel (f_key fd0) d) = None ->
  dangling E r -> chain_has r g chain = false ->
  read SC H allow E (S (S (S f))) chain (TStruct i) (PDict (dinsert (f_key fd0) (PRef r g) d))
  = read SC H allow E (S (S (S f))) chain (TStruct i) (PDict (ddel (f_key fd0) d)).
Proof.
  intros Hs Hfs Hpre Hn Hdef Hty Hres Hkt Hkc Huniq Hd Hc.
  cbn [read]. rewrite Hs. cbn [read_dict tbind].
  set (k := f_key fd0) in *.
  assert (Hchk : read_checks s (dinsert k (PRef r g) d) = read_checks s (ddel k d)).
  { unfold read_checks.
    assert (Ht : dget TypeKey (dinsert k (PRef r g) d) = dget TypeKey (ddel k d)).
    { rewrite dget_dinsert_other, dget_ddel_other; try reflexivity; rewrite beqb_sym; exact Hkt. }
    rewrite (expect_same _ _ _ _ _ Ht).
    assert (Hcs : expect_all (dinsert k (PRef r g) d) (s_checks s) = expect_all (ddel k d) (s_checks s)).
    { apply expect_all_same. intros c Hin. rewrite forallb_forall in Hkc. specialize (Hkc c Hin). apply negb_true_iff in Hkc.
      rewrite dget_dinsert_other, dget_ddel_other; try reflexivity; exact Hkc. }
    rewrite Hcs. reflexivity. }
  rewrite Hchk. destruct (read_checks s (ddel k d)); cbn [tbind]; try reflexivity.
  rewrite Hfs. apply (read_fields_planted _ k (PRef r g) VNone); try assumption; try reflexivity.
  - rewrite Hty. apply option_dangling; assumption.
  - rewrite Hty. reflexivity.
Qed.

(* a required field holding a dangling reference: an error naming the field, whose cause is the missing object *)
Theorem required_dangling SC H allow E f chain fd0 post d acc r g :
  normal fd0 = true -> resolving SC (f_ty fd0) = true -> dget (f_key fd0) d = Some (PRef r g) ->
  dangling E r -> chain_has r g chain = false ->
  exists e, read_fields (read SC H allow E (S f) chain) (fd0 :: post) d acc = TErr (EFromPrim (f_name fd0) e)
            /\ is_missing e = true.
Proof.
  intros Hn Hres Hg Hd Hc. destruct (holder_dangling SC H allow E f chain _ r g Hres Hd Hc) as [e [He Hm]].
  exists e. split; [|exact Hm]. apply (read_fields_required_err _ fd0 post d acc (r, g)); assumption.
Qed.

(** * the former open findings C18-b (array elements) and C18-c (enums, Matrix) are repaired: the statements above
      cover them ([element_dangling_skipped], [element_dangling_null]; [resolving] includes the derived enums).
      Non-vacuity on the generated schemas: *)
Definition no_hands : hand := {| h_read := fun _ _ _ => TErr (EBase 99); h_write := fun _ _ => TErr (EBase 99) |}.

Example enum_holder_example :
  read gen_schemas no_hands false [XFree] 8 [] (TOption (TNameEnum 0)) (PRef 5 0) = TOk VNone.
Proof. vm_compute. reflexivity. Qed.

Example container_element_example :
  read gen_schemas no_hands false [XFree] 8 [] (TVec TI32) (PArr [PInt 1; PRef 5 0; PInt 2]) = TOk (VVec [VInt 1; VInt 2])
  /\ read gen_schemas no_hands false [XFree] 8 [] (TVec (TOption TI32)) (PArr [PInt 1; PRef 5 0]) = TOk (VVec [VSome (VInt 1); VNone]).
Proof. vm_compute. split; reflexivity. Qed.

(** * open finding C18-e: the generation number of a reference is ignored.  file.rs: resolve_ref looks the object up by
      number only ([resolve E id] — the table carries no generation); every in-use object of the generated files has
      generation 0, so `i 1 R` designates an undefined object and should read as null (ISO 32000-1 7.3.10), but it reads
      as object `i 0`. *)
Lemma generation_ignored_refuted : exists E i g, g <> 0 /\ nth_error E (N.to_nat i) = Some (XObj (PInt 7)) /\
  read gen_schemas no_hands false E 8 [] (TOption TI32) (PRef i g) = TOk (VSome (VInt 7)).
Proof. exists [XFree; XObj (PInt 7)], 1, 1. split; [discriminate|]. split; [reflexivity|]. vm_compute. reflexivity. Qed.
