(** Typed/DictProofs.v — lemmas about dictionaries (Prim.dget/dinsert/ddel) and about the struct loops of the
    derive macros (Derive.read_fields / write_fields), for an arbitrary field reader/writer pair. *)
From PdfV Require Import Base.Prelude Typed.Prim Typed.Schema Typed.Derive.

Lemma beqb_refl a : beqb a a = true.
Proof. induction a as [|x a IH]; cbn [beqb]; [reflexivity|]. rewrite N.eqb_refl, IH. reflexivity. Qed.

Lemma beqb_eq a b : beqb a b = true -> a = b.
Proof.
  revert b. induction a as [|x a IH]; intros [|y b] Hab; cbn [beqb] in Hab; try discriminate; [reflexivity|].
  apply andb_true_iff in Hab. destruct Hab as [Hx Hr]. apply N.eqb_eq in Hx. subst. f_equal. apply IH. exact Hr.
Qed.

Lemma beqb_sym a b : beqb a b = beqb b a.
Proof.
  revert b. induction a as [|x a IH]; intros [|y b]; cbn [beqb]; try reflexivity.
  rewrite N.eqb_sym, IH. reflexivity.
Qed.

Lemma beqb_neq_trans k k1 k2 : beqb k k1 = true -> beqb k k2 = false -> beqb k1 k2 = false.
Proof. intros H1 H2. apply beqb_eq in H1. subst. exact H2. Qed.

(** * dget / dinsert / ddel *)
Lemma dget_dinsert_same k v d : dget k (dinsert k v d) = Some v.
Proof.
  induction d as [|[k' v'] d IH]; cbn [dinsert dget].
  - rewrite beqb_refl. reflexivity.
  - destruct (beqb k k') eqn:Hk; cbn [dget]; [rewrite beqb_refl; reflexivity|]. rewrite Hk. exact IH.
Qed.

Lemma dget_dinsert_other k k' v d : beqb k k' = false -> dget k (dinsert k' v d) = dget k d.
Proof.
  intros Hk. induction d as [|[k2 v2] d IH]; cbn [dinsert dget].
  - rewrite Hk. reflexivity.
  - destruct (beqb k' k2) eqn:H2; cbn [dget].
    + rewrite Hk. apply beqb_eq in H2. subst. rewrite Hk. reflexivity.
    + destruct (beqb k k2); [reflexivity|exact IH].
Qed.

Lemma ddel_fresh k d : dget k d = None -> ddel k d = d.
Proof.
  induction d as [|[k' v'] d IH]; cbn [dget ddel]; [reflexivity|].
  destruct (beqb k k'); [discriminate|]. intros H. rewrite IH by exact H. reflexivity.
Qed.

Lemma ddel_dinsert_same k v d : dget k d = None -> ddel k (dinsert k v d) = d.
Proof.
  induction d as [|[k' v'] d IH]; cbn [dget dinsert ddel].
  - rewrite beqb_refl. reflexivity.
  - destruct (beqb k k') eqn:Hk; [discriminate|]. intros H. cbn [ddel]. rewrite Hk, IH by exact H. reflexivity.
Qed.

Lemma ddel_dinsert_other k k' v d : beqb k k' = false -> ddel k (dinsert k' v d) = dinsert k' v (ddel k d).
Proof.
  intros Hk. induction d as [|[k2 v2] d IH]; cbn [dinsert ddel].
  - rewrite Hk. reflexivity.
  - destruct (beqb k' k2) eqn:H2; destruct (beqb k k2) eqn:H3; cbn [ddel dinsert].
    + apply beqb_eq in H2, H3. subst. rewrite beqb_refl in Hk. discriminate.
    + rewrite Hk, H2. reflexivity.
    + rewrite H3. reflexivity.
    + rewrite H3, H2, IH. reflexivity.
Qed.

Lemma dget_ddel_other k k' d : beqb k k' = false -> dget k (ddel k' d) = dget k d.
Proof.
  intros Hk. induction d as [|[k2 v2] d IH]; cbn [ddel dget]; [reflexivity|].
  destruct (beqb k' k2) eqn:H2; cbn [dget].
  - apply beqb_eq in H2. subst. rewrite Hk. reflexivity.
  - destruct (beqb k k2); [reflexivity|exact IH].
Qed.

Lemma dget_ddel_fresh k d : dget k d = None -> dget k (ddel k d) = None.
Proof. intros H. rewrite ddel_fresh by exact H. exact H. Qed.

Lemma dinsert_idem k v d : dget k d = Some v -> dinsert k v d = d.
Proof.
  induction d as [|[k' v'] d IH]; cbn [dget dinsert]; [discriminate|].
  destruct (beqb k k') eqn:Hk.
  - intros H. inversion H. apply beqb_eq in Hk. subst. reflexivity.
  - intros H. rewrite IH by exact H. reflexivity.
Qed.

(** * the base dictionary of the writer *)
Definition base_from (s : schema) (od : dict) : dict :=
  fold_left ins_name (s_checks s) (if s_tmode s =? 0 then od else dinsert TypeKey (PName (s_type s)) od).

Lemma base_of_from s vs : base_of s vs = base_from s (other_of (s_fields s) vs).
Proof. reflexivity. Qed.

Lemma fold_ins_get_other k cs d :
  forallb (fun c => negb (beqb k (fst c))) cs = true -> dget k (fold_left ins_name cs d) = dget k d.
Proof.
  revert d. induction cs as [|c cs IH]; intros d H; cbn [fold_left]; [reflexivity|].
  cbn [forallb] in H. apply andb_true_iff in H. destruct H as [H1 H2].
  rewrite IH by exact H2. unfold ins_name. apply dget_dinsert_other. apply negb_true_iff. exact H1.
Qed.

(* check keys pairwise distinct *)
Fixpoint checks_nodup (cs : list (bytes * bytes)) : bool :=
  match cs with
  | [] => true
  | c :: t => forallb (fun c' => negb (beqb (fst c') (fst c))) t && checks_nodup t
  end.

Lemma fold_ins_get_in cs : checks_nodup cs = true ->
  forall d k v, In (k, v) cs -> dget k (fold_left ins_name cs d) = Some (PName v).
Proof.
  induction cs as [|c cs IH]; intros Hn d k v Hin; [destruct Hin|].
  cbn [checks_nodup] in Hn. apply andb_true_iff in Hn. destruct Hn as [H1 H2].
  cbn [fold_left]. destruct Hin as [Heq|Hin].
  - subst c. rewrite fold_ins_get_other.
    + unfold ins_name. cbn [fst snd]. apply dget_dinsert_same.
    + cbn [fst] in H1. rewrite forallb_forall in H1 |- *. intros c' Hc'. specialize (H1 c' Hc').
      rewrite beqb_sym. exact H1.
  - apply IH; assumption.
Qed.

Lemma fold_ins_idem cs : forall d, (forall k v, In (k, v) cs -> dget k d = Some (PName v)) -> fold_left ins_name cs d = d.
Proof.
  induction cs as [|[k v] cs IH]; intros d H; cbn [fold_left]; [reflexivity|].
  assert (Hd : ins_name d (k, v) = d).
  { unfold ins_name. cbn [fst snd]. apply dinsert_idem. apply H. left. reflexivity. }
  rewrite Hd. apply IH. intros k' v' Hin. apply H. right. exact Hin.
Qed.

(* Type key is not a check key; check keys distinct *)
Definition head_wf (s : schema) : bool :=
  checks_nodup (s_checks s) && forallb (fun c => negb (beqb TypeKey (fst c))) (s_checks s).

Lemma base_from_type s od : head_wf s = true -> (s_tmode s =? 0) = false ->
  dget TypeKey (base_from s od) = Some (PName (s_type s)).
Proof.
  intros Hw Hm. unfold head_wf in Hw. apply andb_true_iff in Hw. destruct Hw as [_ Ht].
  unfold base_from. rewrite Hm. rewrite fold_ins_get_other by exact Ht. apply dget_dinsert_same.
Qed.

Lemma base_from_check s od k v : head_wf s = true -> In (k, v) (s_checks s) ->
  dget k (base_from s od) = Some (PName v).
Proof.
  intros Hw Hin. unfold head_wf in Hw. apply andb_true_iff in Hw. destruct Hw as [Hn _].
  unfold base_from. apply fold_ins_get_in; assumption.
Qed.

Lemma base_from_idem s od : head_wf s = true -> base_from s (base_from s od) = base_from s od.
Proof.
  intros Hw. set (B := base_from s od). unfold base_from at 1.
  assert (H1 : (if s_tmode s =? 0 then B else dinsert TypeKey (PName (s_type s)) B) = B).
  { destruct (s_tmode s =? 0) eqn:Hm; [reflexivity|]. apply dinsert_idem. apply base_from_type; assumption. }
  rewrite H1. apply fold_ins_idem. intros k v Hin. apply base_from_check; assumption.
Qed.

(* a key that is neither Type nor a check key is as in the other dictionary *)
Lemma base_from_get_other s od k :
  beqb k TypeKey = false -> forallb (fun c => negb (beqb k (fst c))) (s_checks s) = true ->
  dget k (base_from s od) = dget k od.
Proof.
  intros Ht Hc. unfold base_from. rewrite fold_ins_get_other by exact Hc.
  destruct (s_tmode s =? 0); [reflexivity|]. apply dget_dinsert_other. exact Ht.
Qed.

(** * expect *)
Lemma expect_ok d k v req : dget k d = Some (PName v) -> expect d k v req = TOk tt.
Proof. intros H. unfold expect. rewrite H. cbn [as_name tbind]. rewrite beqb_refl. reflexivity. Qed.

Lemma expect_all_ok d cs : (forall k v, In (k, v) cs -> dget k d = Some (PName v)) -> expect_all d cs = TOk tt.
Proof.
  induction cs as [|[k v] cs IH]; intros H; cbn [expect_all]; [reflexivity|].
  rewrite expect_ok by (apply H; left; reflexivity). cbn [tbind]. apply IH. intros k' v' Hin. apply H. right. exact Hin.
Qed.

(** * the field loops *)
Definition normal (fd : field) : bool := negb (f_skip fd || f_other fd).

(* key k is not the key of any normal field of fs *)
Definition key_fresh (k : bytes) (fs : list field) : bool :=
  forallb (fun g => negb (normal g) || negb (beqb k (f_key g))) fs.

Section Loops.
Variable rd : ty -> prim -> tres value.
Variable wr : ty -> value -> tres prim.

Lemma write_fields_dict fs : forall vs d p, write_fields wr fs vs d = TOk p -> exists dw, p = PDict dw.
Proof.
  induction fs as [|fd fr IH]; intros [|x vr] d p H; cbn [write_fields] in H; try discriminate.
  - inversion H. eexists. reflexivity.
  - destruct (f_skip fd || f_other fd); [eapply IH; exact H|].
    destruct (wr (f_ty fd) x) as [val| | |]; cbn [tbind] in H; try discriminate.
    destruct (is_null val); [eapply IH; exact H|].
    destruct (f_indirect fd); [destruct val; try discriminate|]; eapply IH; exact H.
Qed.

Lemma write_fields_get k fs : key_fresh k fs = true ->
  forall vs d dw, write_fields wr fs vs d = TOk (PDict dw) -> dget k dw = dget k d.
Proof.
  induction fs as [|fd fr IH]; intros Hk [|x vr] d dw H; cbn [write_fields] in H; try discriminate.
  - inversion H. reflexivity.
  - cbn [key_fresh forallb] in Hk. apply andb_true_iff in Hk. destruct Hk as [Hk1 Hk2]. fold (key_fresh k fr) in Hk2.
    unfold normal in Hk1.
    destruct (f_skip fd || f_other fd) eqn:Hso; [eapply IH; eassumption|].
    cbn [negb orb] in Hk1. apply negb_true_iff in Hk1.
    destruct (wr (f_ty fd) x) as [val| | |]; cbn [tbind] in H; try discriminate.
    destruct (is_null val); [eapply IH; eassumption|].
    assert (Hi : forall dw', write_fields wr fr vr (dinsert (f_key fd) val d) = TOk (PDict dw') -> dget k dw' = dget k d).
    { intros dw' H'. rewrite (IH Hk2 _ _ _ H'). apply dget_dinsert_other. exact Hk1. }
    destruct (f_indirect fd); [destruct val; try discriminate|]; apply Hi; exact H.
Qed.

Lemma write_fields_del k fs : key_fresh k fs = true ->
  forall vs d dw, write_fields wr fs vs d = TOk (PDict dw) ->
  write_fields wr fs vs (ddel k d) = TOk (PDict (ddel k dw)).
Proof.
  induction fs as [|fd fr IH]; intros Hk [|x vr] d dw H; cbn [write_fields] in H |- *; try discriminate.
  - inversion H. reflexivity.
  - cbn [key_fresh forallb] in Hk. apply andb_true_iff in Hk. destruct Hk as [Hk1 Hk2]. fold (key_fresh k fr) in Hk2.
    unfold normal in Hk1.
    destruct (f_skip fd || f_other fd) eqn:Hso; [eapply IH; eassumption|].
    cbn [negb orb] in Hk1. apply negb_true_iff in Hk1.
    destruct (wr (f_ty fd) x) as [val| | |]; cbn [tbind] in H |- *; try discriminate.
    destruct (is_null val); [eapply IH; eassumption|].
    assert (Hi : write_fields wr fr vr (dinsert (f_key fd) val d) = TOk (PDict dw) ->
                 write_fields wr fr vr (dinsert (f_key fd) val (ddel k d)) = TOk (PDict (ddel k dw))).
    { intros H'. rewrite <- ddel_dinsert_other by exact Hk1. apply IH; assumption. }
    destruct (f_indirect fd); [destruct val; try discriminate|]; apply Hi; exact H.
Qed.

(* two value lists whose fields write to the same primitives *)
Fixpoint same_writes (fs : list field) (vs vs' : list value) : Prop :=
  match fs, vs, vs' with
  | [], [], [] => True
  | fd :: fr, x :: vr, x' :: vr' =>
    (normal fd = true -> wr (f_ty fd) x' = wr (f_ty fd) x) /\ same_writes fr vr vr'
  | _, _, _ => False
  end.

Lemma write_fields_ext fs : forall vs vs', same_writes fs vs vs' ->
  forall d, write_fields wr fs vs' d = write_fields wr fs vs d.
Proof.
  induction fs as [|fd fr IH]; intros [|x vr] [|x' vr'] H d; cbn [same_writes] in H; try contradiction; cbn [write_fields]; [reflexivity|].
  destruct H as [H1 H2]. unfold normal in H1.
  destruct (f_skip fd || f_other fd); [apply IH; exact H2|].
  rewrite H1 by reflexivity.
  destruct (wr (f_ty fd) x) as [val| | |]; cbn [tbind]; try reflexivity.
  destruct (is_null val); [apply IH; exact H2|].
  destruct (f_indirect fd); [destruct val; try reflexivity|]; apply IH; exact H2.
Qed.

(* per-field round trip *)
Fixpoint fields_rt (fs : list field) (vs : list value) : Prop :=
  match fs, vs with
  | fd :: fr, x :: vr =>
    (normal fd = true -> forall p, wr (f_ty fd) x = TOk p -> exists x', rd (f_ty fd) p = TOk x' /\ wr (f_ty fd) x' = TOk p)
    /\ fields_rt fr vr
  | _, _ => True
  end.

(* well-formed field list: no skip; the catch-all is last; keys of normal fields pairwise distinct; a field with a
   default expression has a type whose writer never produces Null; no `indirect` (pure writer) *)
Variable never_null : ty -> bool.
Hypothesis never_null_ok : forall t x, never_null t = true -> wr t x <> TOk PNull.

Fixpoint fields_wf (fs : list field) : bool :=
  match fs with
  | [] => true
  | fd :: rest =>
    negb (f_skip fd) &&
    (if f_other fd then match rest with [] => true | _ => false end
     else key_fresh (f_key fd) rest
          && match f_default fd with DNone => true | _ => never_null (f_ty fd) end
          && negb (f_indirect fd))
    && fields_wf rest
  end.

Definition last_other (fs : list field) : bool := match rev fs with fd :: _ => f_other fd | [] => false end.

Lemma rt_fields fs : fields_wf fs = true ->
  forall vs d dw acc,
  (forall fd, In fd fs -> normal fd = true -> dget (f_key fd) d = None) ->
  write_fields wr fs vs d = TOk (PDict dw) ->
  fields_rt fs vs ->
  exists vs', read_fields rd fs dw acc = TOk (VStruct (rev acc ++ vs'))
              /\ same_writes fs vs vs'
              /\ (existsb f_other fs = true -> other_of fs vs' = d).
Proof.
  induction fs as [|fd fr IH]; intros Hwf [|x vr] d dw acc Hfresh Hw Hrt; cbn [write_fields] in Hw; try discriminate.
  - inversion Hw. subst dw. exists []. cbn [read_fields same_writes existsb]. rewrite app_nil_r.
    split; [reflexivity|]. split; [exact I|discriminate].
  - cbn [fields_wf] in Hwf. apply andb_true_iff in Hwf. destruct Hwf as [Hwf Hwfr].
    apply andb_true_iff in Hwf. destruct Hwf as [Hskip Hfd]. apply negb_true_iff in Hskip.
    cbn [fields_rt] in Hrt. destruct Hrt as [Hrt1 Hrtr].
    destruct (f_other fd) eqn:Hoth.
    + (* the catch-all: last field *)
      destruct fr as [|g fr']; [|discriminate].
      rewrite Hskip in Hw. cbn [orb] in Hw. destruct vr as [|y vr']; cbn [write_fields] in Hw; [|discriminate].
      inversion Hw. subst dw.
      exists [VDict d]. cbn [read_fields]. rewrite Hskip, Hoth. cbn [read_fields rev].
      split; [reflexivity|].
      split.
      * cbn [same_writes]. split; [|exact I]. unfold normal. rewrite Hskip, Hoth. discriminate.
      * intros _. cbn [other_of]. rewrite Hoth. reflexivity.
    + apply andb_true_iff in Hfd. destruct Hfd as [Hfd Hind]. apply negb_true_iff in Hind.
      apply andb_true_iff in Hfd. destruct Hfd as [Hkf Hdef].
      rewrite Hskip in Hw. cbn [orb] in Hw.
      assert (Hn : normal fd = true) by (unfold normal; rewrite Hskip, Hoth; reflexivity).
      assert (Hkd : dget (f_key fd) d = None) by (apply Hfresh; [left; reflexivity|exact Hn]).
      destruct (wr (f_ty fd) x) as [val| | |] eqn:Hwx; cbn [tbind] in Hw; try discriminate.
      destruct (Hrt1 Hn val eq_refl) as [x' [Hrx Hwx']].
      assert (Hfresh' : forall g, In g fr -> normal g = true -> dget (f_key g) d = None)
        by (intros g Hg; apply Hfresh; right; exact Hg).
      destruct (is_null val) eqn:Hnull.
      * (* nothing written for this field *)
        destruct val; try discriminate.
        assert (Hg : dget (f_key fd) dw = None) by (rewrite (write_fields_get _ _ Hkf _ _ _ Hw); exact Hkd).
        destruct (IH Hwfr vr d dw (x' :: acc) Hfresh' Hw Hrtr) as [vr' [Hr [Hs Ho]]].
        exists (x' :: vr'). cbn [read_fields]. rewrite Hskip, Hoth. unfold dremove. rewrite Hg.
        assert (Hdn : f_default fd = DNone).
        { destruct (f_default fd); try reflexivity; exfalso; eapply never_null_ok; eassumption. }
        rewrite Hdn, Hrx. cbn [map_err tbind]. rewrite (ddel_fresh _ _ Hg). rewrite Hr. cbn [rev]. rewrite <- app_assoc.
        split; [reflexivity|]. split.
        -- cbn [same_writes]. split; [intros _; rewrite Hwx', Hwx; reflexivity|exact Hs].
        -- cbn [existsb other_of]. rewrite Hoth. cbn [orb]. exact Ho.
      * rewrite Hind in Hw.
        assert (Hg : dget (f_key fd) dw = Some val).
        { rewrite (write_fields_get _ _ Hkf _ _ _ Hw). apply dget_dinsert_same. }
        pose proof (write_fields_del _ _ Hkf _ _ _ Hw) as Hdel.
        rewrite ddel_dinsert_same in Hdel by exact Hkd.
        destruct (IH Hwfr vr d (ddel (f_key fd) dw) (x' :: acc) Hfresh' Hdel Hrtr) as [vr' [Hr [Hs Ho]]].
        exists (x' :: vr'). cbn [read_fields]. rewrite Hskip, Hoth. unfold dremove. rewrite Hg, Hrx. cbn [map_err tbind].
        rewrite Hr. cbn [rev]. rewrite <- app_assoc.
        split; [reflexivity|]. split.
        -- cbn [same_writes]. split; [intros _; rewrite Hwx', Hwx; reflexivity|exact Hs].
        -- cbn [existsb other_of]. rewrite Hoth. cbn [orb]. exact Ho.
Qed.

End Loops.
