(** Typed/Font.v — font.rs: the hand-written Object/ObjectWrite pair of Font, for simple fonts (Subtype Type1 / TrueType,
    data = TFont) without /Encoding and /ToUnicode; everything else is [unmodelled].  Far enough to exhibit finding C15-e:
    the entries Font keeps in `_other` are not written back.  Not wired into the correspondence (the harness judges Font
    by the specification oracle only); the witness below is replayed on the real code on every run. *)
From PdfV Require Import Base.Prelude Gen.Generated Typed.Prim Typed.Schema Typed.Derive Typed.Hand.

Definition k_Subtype : bytes := [83; 117; 98; 116; 121; 112; 101].
Definition k_BaseFont : bytes := [66; 97; 115; 101; 70; 111; 110; 116].
Definition k_Encoding : bytes := [69; 110; 99; 111; 100; 105; 110; 103].
Definition k_ToUnicode : bytes := [84; 111; 85; 110; 105; 99; 111; 100; 101].
Definition n_Font : bytes := [70; 111; 110; 116].
Definition n_Type1 : bytes := [84; 121; 112; 101; 49].
Definition n_TrueType : bytes := [84; 114; 117; 101; 84; 121; 112; 101].
Definition n_TFont : bytes := [84; 70; 111; 110; 116].

Definition tfont_ty : option ty := match struct_by_name gen_schemas n_TFont with Some (i, _) => Some (TStruct i) | None => None end.

(* value: VPair (VName subtype) (VPair name (VPair data (VDict _other))) *)
(* font.rs: impl Object for Font *)
Definition read_font (allow : bool) (E : env) (fuel : nat) (p : prim) : tres value :=
  tdo q <- resolve_if_ref (resolve E) p;
  tdo d <- into_dictionary q;
  match dget k_Subtype d with
  | None => TErr (EMissing k_Subtype)                                   (* dict.require("Font", "Subtype") *)
  | Some sp =>
    let d1 := ddel k_Subtype d in
    tdo st <- t_try (as_name sp);
    if negb (beqb st n_Type1 || beqb st n_TrueType) then unmodelled else
    tdo _ <- expect d1 TypeKey n_Font true;
    tdo name <- (match dget k_BaseFont d1 with
                 | Some np => tdo nq <- t_try (resolve_if_ref (resolve E) np); tdo n <- t_try (as_name nq); TOk (VSome (VName n))
                 | None => TErr (EMissing k_BaseFont)
                 end);
    match dget k_Encoding d1, dget k_ToUnicode d1, tfont_ty with
    | None, None, Some t =>
      let other := d1 in                                                (* let _other = dict.clone(); *)
      tdo data <- read gen_schemas hands allow E fuel [] t (PDict d1);  (* TFont::from_dict(dict, resolve) *)
      TOk (VPair (VName st) (VPair name (VPair data (VDict other))))
    | _, _, _ => unmodelled
    end
  end.

(* font.rs: impl ObjectWrite for Font — `let mut dict = d.to_dict(update)?` : the typed part only *)
Definition write_font (fuel : nat) (v : value) : tres prim :=
  match v, tfont_ty with
  | VPair (VName st) (VPair name (VPair data (VDict _))), Some t =>
    tdo p <- write gen_schemas hands fuel t data;
    match p with
    | PDict d =>
      let d1 := match name with VSome (VName n) => dinsert k_BaseFont (PName n) d | _ => d end in
      TOk (PDict (dinsert TypeKey (PName n_Font) (dinsert k_Subtype (PName st) d1)))
    | _ => ill_typed
    end
  | _, _ => ill_typed
  end.

(** C15-e: Font keeps unrecognised entries (`_other`) but does not write them back *)
Definition font_witness : dict :=
  [(TypeKey, PName n_Font); (k_Subtype, PName n_Type1); (k_BaseFont, PName [72]); ([90; 122; 49], PInt 7)].

Lemma font_other_refuted : exists k x v dw,
  read_font false [] 16 (PDict font_witness) = TOk v /\ write_font 16 v = TOk (PDict dw) /\
  dget k font_witness = Some x /\
  (exists st name data other, v = VPair st (VPair name (VPair data (VDict other))) /\ dget k other = Some x) /\
  dget k dw = None.
Proof.
  exists [90; 122; 49], (PInt 7). eexists. eexists.
  split; [vm_compute; reflexivity|]. split; [vm_compute; reflexivity|]. split; [reflexivity|].
  split; [do 4 eexists; split; [reflexivity|vm_compute; reflexivity]|vm_compute; reflexivity].
Qed.

(* the typed part does go round: the second write equals the first *)
Example font_typed_part_rt :
  tbind (tbind (read_font false [] 16 (PDict font_witness)) (write_font 16))
        (fun p => tbind (read_font false [] 16 p) (write_font 16))
  = tbind (read_font false [] 16 (PDict font_witness)) (write_font 16).
Proof. vm_compute. reflexivity. Qed.
