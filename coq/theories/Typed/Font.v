(** Typed/Font.v — font.rs: the hand-written Object/ObjectWrite pair of Font, for simple fonts (Subtype Type1 / TrueType,
    data = TFont) without /Encoding and /ToUnicode; everything else is [unmodelled].  Finding C15-e (the entries Font keeps in `_other` were
    not written back) is fixed: the writer merges them ([merge_other], [merge_other_keeps], [font_mapped_keys_match]).  Not wired into the correspondence (the harness judges Font
    by the specification oracle only); the witness below is replayed on the real code on every run. *)
From PdfV Require Import Base.Prelude Gen.Generated Typed.Prim Typed.Schema Typed.Derive Typed.Hand Typed.DictProofs.

Definition k_Subtype : bytes := [83; 117; 98; 116; 121; 112; 101].
Definition k_BaseFont : bytes := [66; 97; 115; 101; 70; 111; 110; 116].
Definition k_Encoding : bytes := [69; 110; 99; 111; 100; 105; 110; 103].
Definition k_ToUnicode : bytes := [84; 111; 85; 110; 105; 99; 111; 100; 101].
Definition n_Font : bytes := [70; 111; 110; 116].
Definition n_Type1 : bytes := [84; 121; 112; 101; 49].
Definition n_TrueType : bytes := [84; 114; 117; 101; 84; 121; 112; 101].
Definition n_TFont : bytes := [84; 70; 111; 110; 116].

Definition tfont_ty : option ty := match struct_by_name gen_schemas n_TFont with Some (i, _) => Some (TStruct i) | None => None end.

(* value: VPair (VName subtype) (VPair name (VPair data (VDict _other))) *)
(* font.rs: impl Object for Font *)
Definition read_font (allow : bool) (E : env) (fuel : nat) (p : prim) : tres value :=
  tdo q <- resolve_if_ref (resolve E) p;
  tdo d <- into_dictionary q;
  match dget k_Subtype d with
  | None => TErr (EMissing k_Subtype)                                   (* dict.require("Font", "Subtype") *)
  | Some sp =>
    let d1 := ddel k_Subtype d in
    tdo st <- t_try (as_name sp);
    if negb (beqb st n_Type1 || beqb st n_TrueType) then unmodelled else
    tdo _ <- expect d1 TypeKey n_Font true;
    tdo name <- (match dget k_BaseFont d1 with
                 | Some np => tdo nq <- t_try (resolve_if_ref (resolve E) np); tdo n <- t_try (as_name nq); TOk (VSome (VName n))
                 | None => TErr (EMissing k_BaseFont)
                 end);
    match dget k_Encoding d1, dget k_ToUnicode d1, tfont_ty with
    | None, None, Some t =>
      let other := d1 in                                                (* let _other = dict.clone(); *)
      tdo data <- read gen_schemas hands allow E fuel [] t (PDict d1);  (* TFont::from_dict(dict, resolve) *)
      TOk (VPair (VName st) (VPair name (VPair data (VDict other))))
    | _, _, _ => unmodelled
    end
  end.

Fixpoint mem_key (k : bytes) (l : list bytes) : bool :=
  match l with [] => false | x :: t => beqb k x || mem_key k t end.

(* font.rs: impl ObjectWrite for Font (after fix C15-e) — the entries of `_other` whose key the typed part does not map
   (FontData::mapped_keys, generated) and which the typed part did not write are written back *)
Fixpoint merge_other (mapped : list bytes) (other : dict) (d : dict) : dict :=
  match other with
  | [] => d
  | (k, v) :: t =>
    merge_other mapped t (if font_writer_merges_other && negb (mem_key k mapped) && negb (dhas k d) then dinsert k v d else d)
  end.

Definition write_font (fuel : nat) (v : value) : tres prim :=
  match v, tfont_ty with
  | VPair (VName st) (VPair name (VPair data (VDict other))), Some t =>
    tdo p <- write gen_schemas hands fuel t data;
    match p with
    | PDict d =>
      let d0 := merge_other font_mapped_keys_tfont other d in
      let d1 := match name with VSome (VName n) => dinsert k_BaseFont (PName n) d0 | _ => d0 end in
      TOk (PDict (dinsert TypeKey (PName n_Font) (dinsert k_Subtype (PName st) d1)))
    | _ => ill_typed
    end
  | _, _ => ill_typed
  end.

(** the tie of the hand-maintained key list to the derived struct: FontData::mapped_keys lists exactly the keys of
    TFont's (resp. Type0Font's) fields — a field added to the struct without the list fails here *)
Definition struct_keys (n : bytes) : list bytes :=
  match struct_by_name gen_schemas n with
  | Some (_, s) => map f_key (filter (fun fd => negb (f_other fd || f_skip fd)) (s_fields s))
  | None => []
  end.
Lemma font_mapped_keys_match :
  font_mapped_keys_tfont = struct_keys n_TFont /\
  font_mapped_keys_type0 = struct_keys [84; 121; 112; 101; 48; 70; 111; 110; 116] /\
  font_writer_merges_other = true.
Proof. vm_compute. repeat split; reflexivity. Qed.

(** merge: an entry of `_other` with an unmapped key is in the result (its own value, or the one already written) *)
Lemma dhas_dinsert_mono k k' v d : dhas k d = true -> dhas k (dinsert k' v d) = true.
Proof.
  unfold dhas. destruct (beqb k k') eqn:E.
  - apply beqb_eq in E. subst k'. rewrite dget_dinsert_same. reflexivity.
  - rewrite (dget_dinsert_other k k' v d E). exact (fun H => H).
Qed.

Lemma merge_other_mono mapped other : forall d k, dhas k d = true -> dhas k (merge_other mapped other d) = true.
Proof.
  induction other as [|[k' v'] t IH]; intros d k Hk; [exact Hk|].
  cbn [merge_other]. apply IH.
  destruct (font_writer_merges_other && negb (mem_key k' mapped) && negb (dhas k' d)); [|exact Hk].
  apply dhas_dinsert_mono. exact Hk.
Qed.

Lemma merge_other_keeps mapped other : forall d k v,
  font_writer_merges_other = true -> dget k other = Some v -> mem_key k mapped = false ->
  dhas k (merge_other mapped other d) = true.
Proof.
  induction other as [|[k' v'] t IH]; intros d k v Hm Hg Hk; [discriminate|].
  cbn [dget] in Hg. cbn [merge_other]. rewrite Hm. cbn [andb].
  destruct (beqb k k') eqn:E.
  - apply beqb_eq in E. subst k'. rewrite Hk. cbn [negb andb]. apply merge_other_mono.
    destruct (dhas k d) eqn:Hd; cbn [negb]; [exact Hd|]. unfold dhas. rewrite dget_dinsert_same. reflexivity.
  - eapply IH; eassumption.
Qed.

(** C15-e (fixed): the witness dictionary's unrecognised entry /Zz1 7 is written back *)
Definition font_witness : dict :=
  [(TypeKey, PName n_Font); (k_Subtype, PName n_Type1); (k_BaseFont, PName [72]); ([90; 122; 49], PInt 7)].

Lemma font_other_written : exists v dw,
  read_font false [] 16 (PDict font_witness) = TOk v /\ write_font 16 v = TOk (PDict dw) /\
  dget [90; 122; 49] dw = Some (PInt 7).
Proof. do 2 eexists. split; [vm_compute; reflexivity|]. split; vm_compute; reflexivity. Qed.

(* the second write equals the first *)
Example font_typed_part_rt :
  tbind (tbind (read_font false [] 16 (PDict font_witness)) (write_font 16))
        (fun p => tbind (read_font false [] 16 p) (write_font 16))
  = tbind (read_font false [] 16 (PDict font_witness)) (write_font 16).
Proof. vm_compute. reflexivity. Qed.
