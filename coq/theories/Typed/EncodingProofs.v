(** Typed/EncodingProofs.v — the hand-written pair of `Encoding` (encoding.rs): for every differences map the written
    /Differences array is the run-length form of ISO 32000-1 9.6.6.1 (a code, then the names of consecutive codes, one
    group per maximal run) and reads back to the same map. *)
From PdfV Require Import Base.Prelude Gen.Generated Typed.Prim Typed.Schema Typed.Derive Typed.Hand.

(** the maps: codes strictly increasing (the sorted HashMap), each a u32; [lb] is a lower bound of the first code *)
Fixpoint codes_ok (lb : N) (m : list (N * bytes)) : bool :=
  match m with
  | [] => true
  | (c, _) :: t => (lb <=? c) && (c <? two32) && codes_ok (c + 1) t
  end.

(** * the standard's form, defined without the writer: the maximal runs of consecutive codes *)
Fixpoint group (m : list (N * bytes)) : list (N * list bytes) :=
  match m with
  | [] => []
  | (c, n) :: t =>
    match group t with
    | (c', ns) :: r => if c + 1 =? c' then (c, n :: ns) :: r else (c, [n]) :: (c', ns) :: r
    | [] => [(c, [n])]
    end
  end.
(* a group is written as its first code followed by its names *)
Definition run_form (g : list (N * list bytes)) : list prim :=
  flat_map (fun r => PInt (i32_of_u32 (fst r)) :: map PName (snd r)) g.
(* what a group denotes (Table 114): the names are those of consecutive codes, counting from the group's code *)
Fixpoint expand_run (c : N) (ns : list bytes) : list (N * bytes) :=
  match ns with [] => [] | n :: t => (c, n) :: expand_run (c + 1) t end.
Definition expand (g : list (N * list bytes)) : list (N * bytes) := flat_map (fun r => expand_run (fst r) (snd r)) g.
(* no group could be joined with the next one, none is empty *)
Fixpoint maximal (g : list (N * list bytes)) : Prop :=
  match g with
  | (c, ns) :: r => ns <> [] /\ match r with (c', _) :: _ => c + N.of_nat (length ns) <> c' | [] => True end /\ maximal r
  | [] => True
  end.

Lemma group_head c n t : exists ns r, group ((c, n) :: t) = (c, n :: ns) :: r.
Proof.
  cbn [group]. destruct (group t) as [|[c' ns] r]; [exists [], []; reflexivity|].
  destruct (c + 1 =? c'); [exists ns, r|exists [], ((c', ns) :: r)]; reflexivity.
Qed.

Lemma expand_group m : expand (group m) = m.
Proof.
  induction m as [|[c n] t IH]; [reflexivity|].
  cbn [group]. destruct (group t) as [|[c' ns] r] eqn:G.
  - cbn in IH. subst t. reflexivity.
  - destruct (N.eqb_spec (c + 1) c') as [E|E].
    + subst c'. unfold expand in *. cbn [flat_map fst snd expand_run app] in *. rewrite IH. reflexivity.
    + unfold expand in *. cbn [flat_map fst snd expand_run app] in *. rewrite IH. reflexivity.
Qed.

Lemma maximal_group m : maximal (group m).
Proof.
  induction m as [|[c n] t IH]; [exact I|].
  cbn [group]. destruct (group t) as [|[c' ns] r] eqn:G.
  - cbn. repeat split; try discriminate.
  - destruct (N.eqb_spec (c + 1) c') as [E|E].
    + subst c'. cbn [maximal] in *. destruct IH as (Hn & Hadj & Hr). repeat split; [discriminate| |exact Hr].
      destruct r as [|[c'' ns''] r']; [exact I|]. cbn [length]. lia.
    + cbn [maximal] in *. repeat split; try discriminate; try tauto; cbn [length]; lia.
Qed.

(** * the writer produces exactly that form *)
Lemma write_diffs_group m :
  write_diffs m None = run_form (group m) /\
  forall n, write_diffs m (Some n) =
            match m with
            | (c, _) :: _ => if n + 1 =? c then tl (run_form (group m)) else run_form (group m)
            | [] => []
            end.
Proof.
  induction m as [|[c nm] t IH]; [split; [reflexivity|intros; reflexivity]|].
  destruct IH as [_ IHs]. specialize (IHs c).
  assert (Hstep : PName nm :: write_diffs t (Some c) = tl (run_form (group ((c, nm) :: t)))).
  { cbn [group]. destruct t as [|[c' nm'] t'].
    - reflexivity.
    - destruct (group_head c' nm' t') as (ns & r & G). rewrite G in IHs |- *. rewrite IHs.
      unfold run_form. cbn [flat_map fst snd map app tl].
      destruct (c + 1 =? c'); cbn [flat_map fst snd map app tl]; reflexivity. }
  assert (Hhd : run_form (group ((c, nm) :: t)) = PInt (i32_of_u32 c) :: tl (run_form (group ((c, nm) :: t)))).
  { destruct (group_head c nm t) as (ns & r & G). rewrite G. reflexivity. }
  split.
  - cbn [write_diffs app]. rewrite Hstep. symmetry. exact Hhd.
  - intros n. cbn [write_diffs]. destruct (n + 1 =? c); cbn [app]; rewrite Hstep; [reflexivity|symmetry; exact Hhd].
Qed.

(** * the reader inverts the writer *)
Lemma u32_i32_id c : c < two32 -> u32_of_i32 (i32_of_u32 c) = c.
Proof.
  unfold two32, u32_of_i32, i32_of_u32. intros Hc.
  destruct (N.ltb_spec c 2147483648) as [H|H].
  - rewrite Z.mod_small by lia. apply N2Z.id.
  - rewrite <- (Z.mod_unique (Z.of_N c - 4294967296) 4294967296 (-1) (Z.of_N c)) by lia. apply N2Z.id.
Qed.

Lemma dins_above c nm acc : Forall (fun x => fst x < c) acc -> dins c nm acc = acc ++ [(c, nm)].
Proof.
  induction 1 as [|[c' n'] l Hx _ IH]; [reflexivity|].
  cbn [dins fst app] in *. destruct (N.ltb_spec c c') as [H|H]; [lia|].
  destruct (N.eqb_spec c c') as [E|E]; [lia|]. rewrite IH. reflexivity.
Qed.

Lemma read_write_diffs t : forall acc last gid lb,
  codes_ok lb t = true ->
  Forall (fun x => fst x < lb) acc ->
  (forall n c nm t', last = Some n -> t = (c, nm) :: t' -> n + 1 = c -> gid = c) ->
  read_diffs (write_diffs t last) gid acc = TOk (acc ++ t).
Proof.
  induction t as [|[c nm] t' IH]; intros acc last gid lb Hok Hacc Hgid.
  - cbn. rewrite app_nil_r. reflexivity.
  - cbn [codes_ok] in Hok. apply andb_true_iff in Hok. destruct Hok as [Hok Hrest].
    apply andb_true_iff in Hok. destruct Hok as [Hlb Hc]. apply N.leb_le in Hlb. apply N.ltb_lt in Hc.
    assert (Hins : dins c nm acc = acc ++ [(c, nm)]).
    { apply dins_above. eapply Forall_impl; [|exact Hacc]. cbn. intros a Ha. lia. }
    assert (Hnext : read_diffs (PName nm :: write_diffs t' (Some c)) c acc = TOk (acc ++ (c, nm) :: t')).
    { cbn [read_diffs]. rewrite Hins.
      rewrite (IH (acc ++ [(c, nm)]) (Some c) (wrapping_succ c) (c + 1) Hrest).
      - rewrite <- app_assoc. reflexivity.
      - apply Forall_app. split; [eapply Forall_impl; [|exact Hacc]; cbn; intros a Ha; lia|].
        constructor; [cbn; lia|constructor].
      - intros n c' nm' t'' Hn Ht Hnc. inversion Hn. subst n t'. cbn [codes_ok] in Hrest.
        apply andb_true_iff in Hrest. destruct Hrest as [Hr _]. apply andb_true_iff in Hr. destruct Hr as [_ Hc'].
        apply N.ltb_lt in Hc'. unfold wrapping_succ. rewrite N.mod_small by lia. exact Hnc. }
    cbn [write_diffs]. destruct last as [n|].
    + destruct (N.eqb_spec (n + 1) c) as [E|E]; cbn [app].
      * rewrite (Hgid n c nm t' eq_refl eq_refl E). exact Hnext.
      * cbn [read_diffs]. rewrite u32_i32_id by exact Hc. exact Hnext.
    + cbn [app read_diffs]. rewrite u32_i32_id by exact Hc. exact Hnext.
Qed.

Theorem diffs_rt m : codes_ok 0 m = true -> read_diffs (write_diffs m None) 0 [] = TOk m.
Proof.
  intros H. apply (read_write_diffs m [] None 0 0 H); [constructor|]. intros n c nm t' Hn. discriminate.
Qed.

Lemma diffs_of_to m : diffs_of_values (map (fun cn => VPair (VInt (Z.of_N (fst cn))) (VName (snd cn))) m) = Some m.
Proof.
  induction m as [|[c n] t IH]; [reflexivity|]. cbn [map diffs_of_values fst snd]. rewrite IH, N2Z.id. reflexivity.
Qed.

(** the base encodings the pair round-trips: the written name reads back to the same variant *)
Definition base_ok (b : value) : Prop :=
  exists s, write_base_encoding b = TOk (PName s) /\ forall rs, read_base_encoding rs (PName s) = TOk b.

Lemma dget_base x y : dget k_BaseEncoding [(k_BaseEncoding, x); (k_Differences, y)] = Some x.
Proof. reflexivity. Qed.
Lemma dget_diffs x y : dget k_Differences [(k_BaseEncoding, x); (k_Differences, y)] = Some y.
Proof. reflexivity. Qed.
Lemma dinsert_both x y : dinsert k_Differences y (dinsert k_BaseEncoding x []) = [(k_BaseEncoding, x); (k_Differences, y)].
Proof. reflexivity. Qed.

(** every encoding value: base in the round-tripping set, any differences map over u32 codes *)
Theorem encoding_rt rs b m : base_ok b -> codes_ok 0 m = true ->
  exists p, write_encoding (enc_value b m) = TOk p
    /\ read_encoding rs p = TOk (enc_value b m)
    /\ (m <> [] -> exists bp, write_base_encoding b = TOk bp /\
                    p = PDict [(k_BaseEncoding, bp); (k_Differences, PArr (run_form (group m)))])
    /\ (m = [] -> write_base_encoding b = TOk p)
    /\ expand (group m) = m /\ maximal (group m).
Proof.
  intros (s & Hw & Hr) Hm.
  unfold write_encoding, enc_value, diffs_to_value. rewrite diffs_of_to, Hw. cbn [tbind].
  destruct m as [|cn t] eqn:Em.
  - exists (PName s). split; [reflexivity|]. split.
    + unfold read_encoding, read_encoding_direct. rewrite Hr. reflexivity.
    + split; [intros H; contradiction|]. split; [reflexivity|]. split; [reflexivity|exact I].
  - rewrite <- Em in *. rewrite dinsert_both.
    exists (PDict [(k_BaseEncoding, PName s); (k_Differences, PArr (write_diffs m None))]).
    replace (match m with [] => TOk (PName s) | _ :: _ => TOk (PDict [(k_BaseEncoding, PName s); (k_Differences, PArr (write_diffs m None))]) end)
      with (TOk (A := prim) (PDict [(k_BaseEncoding, PName s); (k_Differences, PArr (write_diffs m None))])) by (rewrite Em; reflexivity).
    split; [reflexivity|]. split.
    + unfold read_encoding, read_encoding_direct. rewrite dget_base, dget_diffs, Hr.
      cbn [tbind resolve_if_ref into_array]. rewrite (diffs_rt m Hm). reflexivity.
    + split.
      * intros _. exists (PName s). split; [reflexivity|]. rewrite (proj1 (write_diffs_group m)). reflexivity.
      * split; [intros H; rewrite Em in H; discriminate|]. split; [apply expand_group|apply maximal_group].
Qed.

(** non-vacuity on the schema generated from the sources now: every variant of BaseEncoding and a foreign name *)
Example base_variants_ok :
  forallb (fun k => match write_base_encoding (VEnum k) with
                    | TOk (PName s) => match read_base_encoding (fun _ => TErr (EBase 1)) (PName s) with
                                       | TOk (VEnum k') => k =? k' | _ => false end
                    | _ => false end) [0; 1; 2; 3; 4; 5; 6] = true.
Proof. vm_compute. reflexivity. Qed.

Lemma base_winansi_ok : base_ok (VEnum 3).
Proof. exists [87; 105; 110; 65; 110; 115; 105; 69; 110; 99; 111; 100; 105; 110; 103]. split; [vm_compute; reflexivity|intros rs; vm_compute; reflexivity]. Qed.
Lemma base_other_ok : base_ok (VEnumOther [70; 111; 111]).
Proof. exists [70; 111; 111]. split; [vm_compute; reflexivity|intros rs; vm_compute; reflexivity]. Qed.

(* [1 /dotlessi /caron 5 /ring] — the case a `0` sentinel for "no previous code" loses *)
Example encoding_from_one :
  write_diffs [(1, [100]); (2, [99]); (5, [114])] None = [PInt 1; PName [100]; PName [99]; PInt 5; PName [114]]
  /\ read_diffs [PInt 1; PName [100]; PName [99]; PInt 5; PName [114]] 0 [] = TOk [(1, [100]); (2, [99]); (5, [114])]
  /\ group [(1, [100]); (2, [99]); (5, [114])] = [(1, [[100]; [99]]); (5, [[114]])].
Proof. vm_compute. repeat split; reflexivity. Qed.
