(** Typed/Derive.v — the derive macros of pdf_derive/src/lib.rs as an interpreter over schemas, and the container
    impls of pdf/src/object/mod.rs.  Executable; bugs included; no proofs here.

    Abstractions (DESIGN.md §12.C15): dictionary key order is not modelled (Prim.dremove keeps the order, the
    canonical output sorts keys); HashMap iteration order likewise; `warn!` logging is dropped. *)
From PdfV Require Import Base.Prelude Gen.Generated Typed.Prim Typed.Schema.

(** * the object table seen by Resolve (file.rs: Storage::resolve_ref, xref.rs: XRefTable::get) *)
Inductive xentry : Type := XObj (p : prim) | XFree | XInvalid.
Definition env := list xentry.

(* file.rs: resolve_ref — `changes`/Raw entries give the object; Free and Invalid give bare errors; a number
   beyond the table gives xref.rs:get's error, wrapped by t! when the source says so (generated constants) *)
Definition resolve (E : env) (id : N) : tres prim :=
  match nth_error E (N.to_nat id) with
  | Some (XObj p) => TOk p
  | Some XFree => TErr (EBase resolve_ref_free_err)
  | Some XInvalid => TErr (EBase resolve_ref_invalid_err)
  | None => if resolve_ref_get_in_try then TErr (ETry (EBase xref_get_none_err)) else TErr (EBase xref_get_none_err)
  end.

(** * Option<T>::from_primitive's view of errors (object/mod.rs:737-753, error.rs) *)
(* error.rs: the look-through predicate, when the Option reader uses one (generated: which wrappers, which codes) *)
Fixpoint is_missing (e : perr) : bool :=
  match e with
  | EBase c => memN c option_none_through
  | EMissing _ => false
  | ETry e' => N.testbit option_through_wrappers 0 && is_missing e'
  | EShared e' => N.testbit option_through_wrappers 1 && is_missing e'
  | EFromPrim _ e' => N.testbit option_through_wrappers 2 && is_missing e'
  end.
(* the arms `Err(PdfError::NullRef {..}) => Ok(None)` … (bare constructors) and the predicate arm *)
Definition opt_none (e : perr) : bool :=
  match e with EBase c => memN c option_none_bare | _ => false end || is_missing e.

(** * hand-written Object/ObjectWrite pairs are a parameter (Typed/Hand.v instantiates) *)
Record hand : Type := {
  h_read : N -> (N -> tres prim) -> prim -> tres value;
  h_write : N -> value -> tres prim }.

Definition ill_typed {A} : tres A := TErr (EBase 98).     (* value/type mismatch: impossible in Rust (static typing) *)
Definition unmodelled {A} : tres A := TErr (EBase c_Unmodelled).

Definition map_err {A} (f : perr -> perr) (r : tres A) : tres A :=
  match r with TErr e => TErr (f e) | x => x end.

(* primitive.rs: Dictionary::expect *)
Definition expect (d : dict) (key value : bytes) (required : bool) : tres unit :=
  match dget key d with
  | Some t => tdo n <- as_name t; if beqb n value then TOk tt else TErr (EBase c_KeyValue)
  | None => if required then TErr (EMissing key) else TOk tt
  end.

Fixpoint expect_all (d : dict) (cs : list (bytes * bytes)) : tres unit :=
  match cs with [] => TOk tt | (k, v) :: t => tdo _ <- expect d k v true; expect_all d t end.

Fixpoint find_pair (n : bytes) (l : list (bytes * bytes)) (i : N) : option N :=
  match l with [] => None | (_, nm) :: t => if beqb n nm then Some i else find_pair n t (i + 1) end.
Fixpoint find_disc (z : Z) (l : list (bytes * Z)) (i : N) : option N :=
  match l with [] => None | (_, d) :: t => if (z =? d)%Z then Some i else find_disc z t (i + 1) end.

Definition default_value (d : dflt) (sofar : list value) : value :=
  match d with
  | DInt z => VInt z | DBool b => VBool b | DF32 b => VF32 b
  | DVec0 i => VVec [VInt 0; nth (N.to_nat i) sofar VUnit]
  | DEnum _ v => VEnum v
  | _ => VUnit
  end.

Fixpoint chain_has (i g : N) (c : list (N * N)) : bool :=
  match c with [] => false | (i', g') :: t => ((i =? i') && (g =? g')) || chain_has i g t end.

(** * the struct loops of the derive macros, parameterised by the field reader / writer *)
Definition TypeKey : bytes := [84; 121; 112; 101].

(* pdf_derive: impl_object_for_struct — the `let #name = …;` sequence of from_dict *)
Fixpoint read_fields (rd : ty -> prim -> tres value) (fs : list field) (d : dict) (acc : list value) : tres value :=
  match fs with
  | [] => TOk (VStruct (rev acc))
  | fd :: rest =>
    if f_skip fd then read_fields rd rest d (VUnit :: acc)
    else if f_other fd then read_fields rd rest d (VDict d :: acc)
    else
      let (po, d') := dremove (f_key fd) d in
      tdo v <- (match po with
                | Some q => map_err (EFromPrim (f_name fd)) (rd (f_ty fd) q)
                | None =>
                  match f_default fd with
                  | DNone => map_err (fun _ => EMissing (f_name fd)) (rd (f_ty fd) PNull)
                  | dv => TOk (default_value dv (rev acc))
                  end
                end);
      read_fields rd rest d' (v :: acc)
  end.

(* the type and key checks at the head of from_dict *)
Definition read_checks (s : schema) (d : dict) : tres unit :=
  tdo _ <- (if s_tmode s =? 0 then TOk tt else expect d TypeKey (s_type s) (s_tmode s =? 2));
  expect_all d (s_checks s).

(* pdf_derive: impl_objectwrite_for_struct — `let mut dict = self.#other.clone()` *)
Fixpoint other_of (fs : list field) (vs : list value) : dict :=
  match fs, vs with
  | fd :: fr, x :: vr => if f_other fd then match x with VDict d => d | _ => [] end else other_of fr vr
  | _, _ => []
  end.
Definition ins_name (d : dict) (kv : bytes * bytes) : dict := dinsert (fst kv) (PName (snd kv)) d.
(* … then `dict.insert("Type", …)` and the checks *)
Definition base_of (s : schema) (vs : list value) : dict :=
  let base0 := other_of (s_fields s) vs in
  let base1 := if s_tmode s =? 0 then base0 else dinsert TypeKey (PName (s_type s)) base0 in
  fold_left ins_name (s_checks s) base1.

(* … then one `dict.insert(key, val)` per field whose value is not Null (pure part: `indirect` only keeps references) *)
Fixpoint write_fields (wr : ty -> value -> tres prim) (fs : list field) (vs : list value) (d : dict) : tres prim :=
  match fs, vs with
  | [], [] => TOk (PDict d)
  | fd :: fr, x :: vr =>
    if f_skip fd || f_other fd then write_fields wr fr vr d
    else
      tdo val <- wr (f_ty fd) x;
      if is_null val then write_fields wr fr vr d
      else if f_indirect fd then
        match val with PRef _ _ => write_fields wr fr vr (dinsert (f_key fd) val d) | _ => unmodelled end
      else write_fields wr fr vr (dinsert (f_key fd) val d)
  | _, _ => ill_typed
  end.

Definition is_ref (p : prim) : bool := match p with PRef _ _ => true | _ => false end.

(* object/mod.rs: impl Object for Vec<T>, one element of the array (after fix C18-b): an element that is a reference
   and whose reader fails with a missing-object error is the null object — kept when T reads Null, left out otherwise *)
Definition read_elem (rd : prim -> tres value) (p : prim) : tres (list value) :=
  match rd p with
  | TOk v => TOk [v]
  | TErr e =>
    if vec_missing_element_null && is_ref p && is_missing e then
      match rd PNull with TOk v => TOk [v] | TErr _ => TOk [] | TPanic s => TPanic s | TFuel => TFuel end
    else TErr e
  | TPanic s => TPanic s
  | TFuel => TFuel
  end.
Fixpoint read_elems (rd : prim -> tres value) (l : list prim) : tres (list value) :=
  match l with
  | [] => TOk []
  | p :: t => tdo a <- read_elem rd p; tdo b <- read_elems rd t; TOk (a ++ b)
  end.

Section Interp.
Variable SC : schemas.
Variable H : hand.
Variable allow : bool.          (* ParseOptions::allow_error_in_option *)
Variable E : env.

(* object/mod.rs: impl Object for Dictionary *)
Fixpoint read_dict (fuel : nat) (p : prim) : tres dict :=
  match fuel with
  | O => TFuel
  | S f =>
    match p with
    | PDict d => TOk d
    | PRef i _ => tdo q <- resolve E i; read_dict f q
    | _ => unexpected
    end
  end.

(* T::from_primitive for every T of the universe.  [chain] is StorageResolver::chain. *)
Fixpoint read (fuel : nat) (chain : list (N * N)) (t : ty) (p : prim) {struct fuel} : tres value :=
  match fuel with
  | O => TFuel
  | S f =>
    (* file.rs: StorageResolver::get *)
    let get (t0 : ty) (i g : N) : tres value :=
      if chain_has i g chain then TErr (EBase c_Other)
      else match (tdo q <- resolve E i; read f ((i, g) :: chain) t0 q) with
           | TErr e => TErr (if get_wraps_shared then EShared e else e)
           | TOk v => TOk (VIndirect i g v)
           | x => x
           end in
    (* `Primitive::Reference(id) => r.resolve(id)?.as_X()`, `p => p.as_X()` *)
    let scalar (A : Type) (acc : prim -> tres A) (k : A -> value) : tres value :=
      match p with
      | PRef i _ => tdo q <- resolve E i; tmap k (acc q)
      | _ => tmap k (acc p)
      end in
    match t with
    | TI32 => scalar _ as_integer VInt
    | TU32 | TUsize => scalar _ as_u32 VInt
    | TF32 => scalar _ as_number VF32
    | TBool => scalar _ as_bool VBool
    | TName => scalar _ as_name VName                     (* p.resolve(resolve)?.into_name() *)
    | TStr =>                                           (* primitive.rs: impl Object for PdfString *)
      match p with
      | PStr s => TOk (VStr s)
      | PRef i _ => tdo q <- resolve E i;
                    match q with PStr s => TOk (VStr s) | PRef _ _ => TErr (EBase 10) | _ => unexpected end
      | _ => unexpected
      end
    | TPrim => TOk (VPrim p)
    | TLazy _ => TOk (VPrim p)
    | TDict => tmap VDict (read_dict fuel p)
    | TRef => match p with PRef i g => TOk (VRef i g) | _ => unexpected end
    | TUnit => TOk VUnit
    | TOption t0 =>
      match p with
      | PNull => TOk VNone
      | _ => match read f chain t0 p with
             | TOk v => TOk (VSome v)
             | TErr e => if opt_none e then TOk VNone else if allow then TOk VNone else TErr e
             | x => x
             end
      end
    | TVec t0 =>
      match p with
      | PArr l => tmap VVec (read_elems (read f chain t0) l)
      | PNull => TOk (VVec [])
      | PRef i _ => tdo q <- resolve E i; read f chain t q
      | _ => tdo v <- read f chain t0 p; TOk (VVec [v])
      end
    | TMap t0 =>
      match p with
      | PNull => TOk (VMap [])
      | PDict d => tmap VMap (tmapM (fun kv => tdo v <- read f chain t0 (snd kv); TOk (fst kv, v)) d)
      | PRef i _ => tdo q <- resolve E i; read f chain t q
      | _ => unexpected
      end
    | TPair a b =>
      tdo q <- (match p with PRef i _ => resolve E i | _ => TOk p end);
      tdo l <- into_array q;
      match l with
      | [x; y] => tdo va <- read f chain a x; tdo vb <- read f chain b y; TOk (VPair va vb)
      | _ => TErr (EBase c_Other)
      end
    | TBox t0 => read f chain t0 p
    | TMaybeRef t0 =>
      match p with
      | PRef i g => get t0 i g
      | _ => tmap VDirect (read f chain t0 p)
      end
    | TRcRef t0 =>
      match p with
      | PRef i g => get t0 i g
      | _ => unexpected
      end
    | TStruct i =>
      match get_struct SC i with
      | None => unmodelled
      | Some s =>
        tdo d <- read_dict fuel p;
        (* pdf_derive: impl_object_for_struct — from_dict *)
        tdo _ <- read_checks s d;
        read_fields (read f chain) (s_fields s) d []
      end
    | TNameEnum i =>
      match get_nenum SC i with
      | None => unmodelled
      | Some e =>
        (* pdf_derive: impl_object_for_enum — `match p.resolve(resolve)?` (after fix C18-c) *)
        tdo q <- (match p with PRef r _ => if name_enum_reader_resolves then resolve E r else TOk p | _ => TOk p end);
        match q with
        | PName n => match find_pair n (ne_pairs e) 0 with
                     | Some k => TOk (VEnum k)
                     | None => if ne_other e then TOk (VEnumOther n) else TErr (EBase c_UnknownVariant)
                     end
        | _ => unexpected
        end
      end
    | TIntEnum i =>
      match get_ienum SC i with
      | None => unmodelled
      | Some e =>
        tdo q <- (match p with PRef r _ => if int_enum_reader_resolves then resolve E r else TOk p | _ => TOk p end);
        match q with
        | PInt z => match find_disc z (ie_variants e) 0 with
                    | Some k => TOk (VEnum k)
                    | None => TErr (EBase c_UnknownVariant)
                    end
        | _ => unexpected
        end
      end
    | THand i => h_read H i (resolve E) p
    end
  end.

(* object/mod.rs: ObjectWrite for u32 / usize (after fix C15-f: values that do not fit an i32 are refused) *)
Definition write_unsigned (z : Z) : tres prim :=
  if (z <=? 2147483647)%Z then TOk (PInt z) else TErr (EBase c_Other).

(* T::to_primitive.  Pure: `indirect` fields (which need the Updater) are handled by [write_top] only; nested
   below the top level they are outside the model (schemas_wf: never the case in the generated schemas). *)
Fixpoint write (fuel : nat) (t : ty) (v : value) {struct fuel} : tres prim :=
  match fuel with
  | O => TFuel
  | S f =>
    match t, v with
    | TI32, VInt z => TOk (PInt z)
    | TU32, VInt z | TUsize, VInt z => write_unsigned z
    | TF32, VF32 b => TOk (PNum b)
    | TBool, VBool b => TOk (PBool b)
    | TName, VName s => TOk (PName s)
    | TStr, VStr s => TOk (PStr s)
    | TPrim, VPrim p => TOk p
    | TLazy _, VPrim p => TOk p
    | TDict, VDict d => TOk (PDict d)
    | TRef, VRef i g => TOk (PRef i g)
    | TUnit, VUnit => TOk PNull
    | TOption _, VNone => TOk PNull
    | TOption t0, VSome x => write f t0 x
    | TVec t0, VVec l => tmap PArr (tmapM (write f t0) l)
    | TMap t0, VMap l =>
      match l with
      | [] => TOk PNull
      | _ => tmap PDict (tmapM (fun kv => tdo p <- write f t0 (snd kv); TOk (fst kv, p)) l)
      end
    | TPair a b, VPair x y => tdo p <- write f a x; tdo q <- write f b y; TOk (PArr [p; q])
    | TBox t0, x => write f t0 x
    | TMaybeRef t0, VDirect x => write f t0 x
    | TMaybeRef _, VIndirect i g _ => TOk (PRef i g)
    | TRcRef _, VIndirect i g _ => TOk (PRef i g)
    | TStruct i, VStruct vs =>
      match get_struct SC i with
      | None => unmodelled
      | Some s =>
        (* pdf_derive: impl_objectwrite_for_struct — to_dict *)
        write_fields (write f) (s_fields s) vs (base_of s vs)
      end
    | TNameEnum i, VEnum k =>
      match get_nenum SC i with
      | None => unmodelled
      | Some e => match nth_error (ne_pairs e) (N.to_nat k) with Some (_, nm) => TOk (PName nm) | None => ill_typed end
      end
    | TNameEnum i, VEnumOther s =>
      match get_nenum SC i with
      | None => unmodelled
      | Some e => if ne_other e then TOk (PName s) else ill_typed
      end
    | TIntEnum i, VEnum k =>
      match get_ienum SC i with
      | None => unmodelled
      | Some e => match nth_error (ie_variants e) (N.to_nat k) with Some (_, d) => TOk (PInt d) | None => ill_typed end
      end
    | THand i, x => h_write H i x
    | _, _ => ill_typed
    end
  end.

End Interp.

(** * the top-level writer: to_dict with an Updater (file.rs: Storage::create appends to the table) *)
(* pdf_derive: `indirect` — `match val { Reference(r) => val, p => updater.create(p)?.into() }` *)
Definition write_top (SC : schemas) (H : hand) (fuel : nat) (E : env) (i : N) (v : value) : tres (prim * env) :=
  match get_struct SC i, v with
  | Some s, VStruct vs =>
    (fix fields (fs : list field) (vs : list value) (d : dict) (E : env) : tres (prim * env) :=
       match fs, vs with
       | [], [] => TOk (PDict d, E)
       | fd :: fr, x :: vr =>
         if f_skip fd || f_other fd then fields fr vr d E
         else
           tdo val <- write SC H fuel (f_ty fd) x;
           if is_null val then fields fr vr d E
           else if f_indirect fd then
             match val with
             | PRef _ _ => fields fr vr (dinsert (f_key fd) val d) E
             | _ => fields fr vr (dinsert (f_key fd) (PRef (lenN E) 0) d) (E ++ [XObj val])
             end
           else fields fr vr (dinsert (f_key fd) val d) E
       | _, _ => ill_typed
       end) (s_fields s) vs (base_of s vs) E
  | None, _ => unmodelled
  | _, _ => ill_typed
  end.
