(** Typed/TopProofs.v — C15 for the top-level writer (`indirect` fields written through the Updater): the object table
    is threaded as state, Storage::create appends the written primitive and yields a fresh reference.  The written
    dictionary reads back, in the table after the write, to a value whose own write gives the same dictionary — literally
    when every indirect field is an Option<MaybeRef<_>> (Page./Resources), and up to the number of a re-created object of
    equal content otherwise (Trailer./Info is Option<InfoDict>). *)
From PdfV Require Import Base.Prelude Gen.Generated Typed.Prim Typed.Schema Typed.Derive Typed.DictProofs Typed.DeriveProofs.

(** * BLOCK 1 — definitions (to be moved into Derive.v) *)

(* the field loop of to_dict with an Updater: state = the object table *)
Fixpoint write_fields_top (wr : ty -> value -> tres prim) (fs : list field) (vs : list value) (d : dict) (E : env) : tres (prim * env) :=
  match fs, vs with
  | [], [] => TOk (PDict d, E)
  | fd :: fr, x :: vr =>
    if f_skip fd || f_other fd then write_fields_top wr fr vr d E
    else
      tdo val <- wr (f_ty fd) x;
      if is_null val then write_fields_top wr fr vr d E
      else if f_indirect fd then
        match val with
        | PRef _ _ => write_fields_top wr fr vr (dinsert (f_key fd) val d) E
        | _ => write_fields_top wr fr vr (dinsert (f_key fd) (PRef (lenN E) 0) d) (E ++ [XObj val])
        end
      else write_fields_top wr fr vr (dinsert (f_key fd) val d) E
  | _, _ => ill_typed
  end.

Lemma write_top_unfold SC H fuel E i v : write_top SC H fuel E i v =
  match get_struct SC i, v with
  | Some s, VStruct vs => write_fields_top (write SC H fuel) (s_fields s) vs (base_of s vs) E
  | None, _ => unmodelled
  | _, _ => ill_typed
  end.
Proof.
  unfold write_top. destruct (get_struct SC i) as [s|]; destruct v as [| | | | | | | | | | | | | | | |vs| | |]; try reflexivity.
  generalize (base_of s vs). generalize E. generalize vs.
  induction (s_fields s) as [|fd fr IH]; intros [|x vr] E' d; cbn [write_fields_top]; try reflexivity.
  destruct (f_skip fd || f_other fd); [apply IH|].
  destruct (write SC H fuel (f_ty fd) x) as [val| | |]; cbn [tbind]; try reflexivity.
  destruct (is_null val); [apply IH|].
  destruct (f_indirect fd); [destruct val|]; apply IH.
Qed.

(** * BLOCK 2 — the round trip of the top-level writer *)

Definition ind_ty_ok (t : ty) : bool := match t with TOption (TMaybeRef _) | TOption (TStruct _) => true | _ => false end.

(* fields_wf of DictProofs with the `no indirect` clause replaced: an indirect field has one of the two shapes and
   no default expression *)
Fixpoint fields_wf_top (nn : ty -> bool) (fs : list field) : bool :=
  match fs with
  | [] => true
  | fd :: rest =>
    negb (f_skip fd) &&
    (if f_other fd then match rest with [] => true | _ => false end
     else key_fresh (f_key fd) rest
          && match f_default fd with DNone => true | _ => nn (f_ty fd) end
          && (negb (f_indirect fd) || (ind_ty_ok (f_ty fd) && match f_default fd with DNone => true | _ => false end)))
    && fields_wf_top nn rest
  end.
Definition schema_wf_top (s : schema) : bool :=
  head_wf s && fields_wf_top never_null (s_fields s) && key_fresh TypeKey (s_fields s)
  && forallb (fun c => key_fresh (fst c) (s_fields s)) (s_checks s).

Definition maybe_ref_only (s : schema) : bool :=
  forallb (fun fd => negb (f_indirect fd) || match f_ty fd with TOption (TMaybeRef _) => true | _ => false end) (s_fields s).

(* helpers: the shape test of maybe_ref_only as a function of the type, and the field-list form of maybe_ref_only *)
Definition top_is_optmref (t : ty) : bool := match t with TOption (TMaybeRef _) => true | _ => false end.
Definition top_maybe_ref_fields (fs : list field) : bool :=
  forallb (fun fd => negb (f_indirect fd) || top_is_optmref (f_ty fd)) fs.

(** ** the object table *)
Lemma top_lenN_snoc {A} (l : list A) x : lenN (l ++ [x]) = lenN l + 1.
Proof. unfold lenN. rewrite app_length. cbn [length]. lia. Qed.

Lemma top_resolve_some E n q : resolve E n = TOk q -> nth_error E (N.to_nat n) = Some (XObj q).
Proof.
  unfold resolve. destruct (nth_error E (N.to_nat n)) as [[p| |]|]; try discriminate.
  all: try (destruct resolve_ref_get_in_try; discriminate).
  intros Hq. inversion Hq. reflexivity.
Qed.

(* the table only grows: what resolved before resolves to the same object afterwards *)
Lemma top_resolve_app E X n q : resolve E n = TOk q -> resolve (E ++ X) n = TOk q.
Proof.
  intros Hq. pose proof (top_resolve_some _ _ _ Hq) as Hn. unfold resolve. rewrite nth_error_app1.
  - rewrite Hn. reflexivity.
  - apply nth_error_Some. rewrite Hn. discriminate.
Qed.

(* Storage::create: the object appended to a table of length n is object n *)
Lemma top_resolve_alloc E val X : resolve ((E ++ [XObj val]) ++ X) (lenN E) = TOk val.
Proof.
  unfold resolve, lenN. rewrite Nnat.Nat2N.id. rewrite <- app_assoc. rewrite nth_error_app2 by lia.
  rewrite Nat.sub_diag. reflexivity.
Qed.

Lemma top_match_nonref {A} (val : prim) (a b : A) : is_ref val = false ->
  match val with PRef _ _ => a | _ => b end = b.
Proof. destruct val; try reflexivity. discriminate. Qed.

(** ** the field loop with the table threaded, for an arbitrary field writer *)
Section TopLoops.
Variable wr : ty -> value -> tres prim.

Lemma write_fields_top_extends fs : forall vs d E p E',
  write_fields_top wr fs vs d E = TOk (p, E') -> exists X, E' = E ++ X.
Proof.
  induction fs as [|fd fr IH]; intros [|x vr] d E p E' Hw; cbn [write_fields_top] in Hw; try discriminate.
  - inversion Hw. exists []. rewrite app_nil_r. reflexivity.
  - destruct (f_skip fd || f_other fd); [eapply IH; exact Hw|].
    destruct (wr (f_ty fd) x) as [val| | |]; cbn [tbind] in Hw; try discriminate.
    destruct (is_null val); [eapply IH; exact Hw|].
    destruct (f_indirect fd); [|eapply IH; exact Hw].
    destruct (is_ref val) eqn:Href.
    + destruct val; try discriminate Href. eapply IH; exact Hw.
    + rewrite top_match_nonref in Hw by exact Href. destruct (IH _ _ _ _ _ Hw) as [X HX].
      exists ([XObj val] ++ X). rewrite HX. rewrite <- app_assoc. reflexivity.
Qed.

Lemma write_fields_top_dict fs : forall vs d E p E',
  write_fields_top wr fs vs d E = TOk (p, E') -> exists dw, p = PDict dw.
Proof.
  induction fs as [|fd fr IH]; intros [|x vr] d E p E' Hw; cbn [write_fields_top] in Hw; try discriminate.
  - inversion Hw. eexists. reflexivity.
  - destruct (f_skip fd || f_other fd); [eapply IH; exact Hw|].
    destruct (wr (f_ty fd) x) as [val| | |]; cbn [tbind] in Hw; try discriminate.
    destruct (is_null val); [eapply IH; exact Hw|].
    destruct (f_indirect fd); [destruct val|]; eapply IH; exact Hw.
Qed.

(* a key that is fresh for fs is untouched *)
Lemma write_fields_top_get k fs : key_fresh k fs = true ->
  forall vs d E dw E', write_fields_top wr fs vs d E = TOk (PDict dw, E') -> dget k dw = dget k d.
Proof.
  induction fs as [|fd fr IH]; intros Hk [|x vr] d E dw E' Hw; cbn [write_fields_top] in Hw; try discriminate.
  - inversion Hw. reflexivity.
  - cbn [key_fresh forallb] in Hk. apply andb_true_iff in Hk. destruct Hk as [Hk1 Hk2]. fold (key_fresh k fr) in Hk2.
    unfold normal in Hk1.
    destruct (f_skip fd || f_other fd) eqn:Hso; [eapply IH; eassumption|].
    cbn [negb orb] in Hk1. apply negb_true_iff in Hk1.
    destruct (wr (f_ty fd) x) as [val| | |]; cbn [tbind] in Hw; try discriminate.
    destruct (is_null val); [eapply IH; eassumption|].
    assert (Hi : forall v0 E0 dw', write_fields_top wr fr vr (dinsert (f_key fd) v0 d) E0 = TOk (PDict dw', E') -> dget k dw' = dget k d).
    { intros v0 E0 dw' Hw'. rewrite (IH Hk2 _ _ _ _ _ Hw'). apply dget_dinsert_other. exact Hk1. }
    destruct (f_indirect fd); [destruct val|]; eapply Hi; exact Hw.
Qed.

Lemma write_fields_top_del k fs : key_fresh k fs = true ->
  forall vs d E dw E', write_fields_top wr fs vs d E = TOk (PDict dw, E') ->
  write_fields_top wr fs vs (ddel k d) E = TOk (PDict (ddel k dw), E').
Proof.
  induction fs as [|fd fr IH]; intros Hk [|x vr] d E dw E' Hw; cbn [write_fields_top] in Hw |- *; try discriminate.
  - inversion Hw. reflexivity.
  - cbn [key_fresh forallb] in Hk. apply andb_true_iff in Hk. destruct Hk as [Hk1 Hk2]. fold (key_fresh k fr) in Hk2.
    unfold normal in Hk1.
    destruct (f_skip fd || f_other fd) eqn:Hso; [eapply IH; eassumption|].
    cbn [negb orb] in Hk1. apply negb_true_iff in Hk1.
    destruct (wr (f_ty fd) x) as [val| | |]; cbn [tbind] in Hw |- *; try discriminate.
    destruct (is_null val); [eapply IH; eassumption|].
    assert (Hi : forall v0 E0, write_fields_top wr fr vr (dinsert (f_key fd) v0 d) E0 = TOk (PDict dw, E') ->
                 write_fields_top wr fr vr (dinsert (f_key fd) v0 (ddel k d)) E0 = TOk (PDict (ddel k dw), E')).
    { intros v0 E0 Hw'. rewrite <- ddel_dinsert_other by exact Hk1. apply IH; assumption. }
    destruct (f_indirect fd); [destruct val|]; apply Hi; exact Hw.
Qed.

End TopLoops.

Section Top.
Variable SC : schemas. Variable H : hand. Variable allow : bool.
Variable E1 : env.                      (* the table AFTER the first write: all reads happen in it *)
Variable hand_ok : N -> value -> Prop.
Hypothesis hand_law : forall i x p, hand_ok i x -> h_write H i x = TOk p ->
  exists x', h_read H i (resolve E1) p = TOk x' /\ h_write H i x' = TOk p.
Variable F : nat.                       (* fuel of the field readers/writers *)

Notation rd := (read SC H allow E1).
Notation wr := (write SC H).

Definition allocates (fd : field) (val : prim) : bool := f_indirect fd && negb (is_null val) && negb (is_ref val).

Fixpoint top_ok (fs : list field) (vs : list value) (n : N) : Prop :=
  match fs, vs with
  | fd :: fr, x :: vr =>
    if normal fd then
      match write SC H F (f_ty fd) x with
      | TOk val =>
        if allocates fd val then
          val_ok SC H allow E1 hand_ok F (match f_ty fd with TOption (TMaybeRef _) => [(n, 0)] | _ => [] end) (f_ty fd) x
          /\ top_ok fr vr (n + 1)
        else val_ok SC H allow E1 hand_ok F [] (f_ty fd) x /\ top_ok fr vr n
      | _ => True
      end
    else top_ok fr vr n
  | _, _ => True
  end.

(* the two written dictionaries agree, except that an allocated entry may carry another reference to an equal object *)
Definition sim_dict (E : env) (dw dw' : dict) : Prop :=
  forall k, dget k dw' = dget k dw \/
    exists n n' q, dget k dw = Some (PRef n 0) /\ dget k dw' = Some (PRef n' 0) /\ resolve E n = TOk q /\ resolve E n' = TOk q.

(** ** sim_dict *)
Lemma top_sim_dict_refl E d : sim_dict E d d.
Proof. intros k. left. reflexivity. Qed.

Lemma top_sim_dict_mono E X d d' : sim_dict E d d' -> sim_dict (E ++ X) d d'.
Proof.
  intros Hs k. destruct (Hs k) as [He|[n [n' [q [H1 [H2 [H3 H4]]]]]]]; [left; exact He|].
  right. exists n, n', q. repeat split; try assumption; apply top_resolve_app; assumption.
Qed.

Lemma top_sim_dict_ins E k v d d' : sim_dict E d d' -> sim_dict E (dinsert k v d) (dinsert k v d').
Proof.
  intros Hs k0. destruct (beqb k0 k) eqn:Hk.
  - apply beqb_eq in Hk. subst k0. left. rewrite !dget_dinsert_same. reflexivity.
  - rewrite !(dget_dinsert_other _ _ _ _ Hk). apply Hs.
Qed.

Lemma top_sim_dict_ins_ref E k n n' q d d' : sim_dict E d d' -> resolve E n = TOk q -> resolve E n' = TOk q ->
  sim_dict E (dinsert k (PRef n 0) d) (dinsert k (PRef n' 0) d').
Proof.
  intros Hs Hn Hn' k0. destruct (beqb k0 k) eqn:Hk.
  - apply beqb_eq in Hk. subst k0. right. exists n, n', q. rewrite !dget_dinsert_same. repeat split; assumption.
  - rewrite !(dget_dinsert_other _ _ _ _ Hk). apply Hs.
Qed.

(** ** reading below an allocated entry *)
Lemma top_read_option_some f chain t0 p v :
  is_null p = false -> rd f chain t0 p = TOk v -> rd (S f) chain (TOption t0) p = TOk (VSome v).
Proof. intros Hn Hr. destruct p; try discriminate Hn; cbn [read]; rewrite Hr; reflexivity. Qed.

Lemma top_write_struct_dict f j y val : wr f (TStruct j) y = TOk val -> exists dd, val = PDict dd.
Proof.
  destruct f as [|f]; [discriminate|]. destruct y; cbn [write]; try discriminate.
  destruct (get_struct SC j); [|discriminate]. intros Hw. eapply write_fields_dict. exact Hw.
Qed.

Lemma top_read_struct_congr f chain j p p' :
  read_dict E1 (S f) p = read_dict E1 (S f) p' -> rd (S f) chain (TStruct j) p = rd (S f) chain (TStruct j) p'.
Proof. intros He. cbn [read]. destruct (get_struct SC j); [|reflexivity]. rewrite He. reflexivity. Qed.

(* the struct reader follows a reference to a dictionary (read_dict), without touching the chain *)
Lemma top_read_struct_ref f chain j n g dd : (2 <= f)%nat -> resolve E1 n = TOk (PDict dd) ->
  rd f chain (TStruct j) (PRef n g) = rd f chain (TStruct j) (PDict dd).
Proof.
  intros Hf Hres. destruct f as [|[|f]]; try lia. apply top_read_struct_congr.
  cbn [read_dict]. rewrite Hres. reflexivity.
Qed.

(* the field whose written form [val] became object n: it is re-read from `n 0 R`, and the re-read value writes to
   the reference itself (Option<MaybeRef<_>>) or to [val] again (Option<struct>) *)
Lemma top_field_alloc f t x val n :
  ind_ty_ok t = true -> wr f t x = TOk val -> is_null val = false -> is_ref val = false ->
  resolve E1 n = TOk val ->
  val_ok SC H allow E1 hand_ok f (match t with TOption (TMaybeRef _) => [(n, 0)] | _ => [] end) t x ->
  (top_is_optmref t = true \/ (3 <= f)%nat) ->
  exists x', rd f [] t (PRef n 0) = TOk x' /\ wr f t x' = TOk (if top_is_optmref t then PRef n 0 else val).
Proof.
  intros Hity Hw Hnull Href Hres Hok Hfuel.
  destruct t; try discriminate Hity. destruct t; try discriminate Hity; cbn [top_is_optmref] in *.
  - (* Option<MaybeRef<t>> *)
    destruct f as [|f1]; [discriminate Hw|]. destruct x; cbn [write] in Hw; try discriminate Hw.
    + inversion Hw. subst val. discriminate Hnull.
    + destruct f1 as [|f2]; [discriminate Hw|]. destruct x; cbn [write] in Hw; try discriminate Hw.
      * cbn [val_ok] in Hok. destruct Hok as [Hok _].
        destruct (value_rt SC H allow E1 hand_ok hand_law f2 [(n, 0)] t x val Hok Hw) as [x0 [Hr Hw0]].
        exists (VSome (VIndirect n 0 x0)). split; [|reflexivity].
        cbn [read chain_has]. rewrite Hres. cbn [tbind]. rewrite Hr. reflexivity.
      * inversion Hw. subst val. discriminate Href.
  - (* Option<struct i> *)
    destruct Hfuel as [Hc|Hf]; [discriminate Hc|].
    destruct f as [|f1]; [discriminate Hw|]. destruct x; cbn [write] in Hw; try discriminate Hw.
    + inversion Hw. subst val. discriminate Hnull.
    + cbn [val_ok] in Hok.
      destruct (value_rt SC H allow E1 hand_ok hand_law f1 [] (TStruct i) x val Hok Hw) as [x' [Hr Hw']].
      destruct (top_write_struct_dict _ _ _ _ Hw) as [dd Hdd]. subst val.
      exists (VSome x'). split; [|exact Hw'].
      apply top_read_option_some; [reflexivity|].
      rewrite (top_read_struct_ref f1 [] i n 0 dd); [exact Hr|lia|exact Hres].
Qed.

(** ** the relation between the first value list and the re-read one: per field, the written forms are equal, or
       — for an entry allocated as object n — the re-read value writes to `n 0 R` / to the same object again *)
Fixpoint top_sim (fs : list field) (vs vs' : list value) (n : N) : Prop :=
  match fs, vs, vs' with
  | [], [], [] => True
  | fd :: fr, x :: vr, x' :: vr' =>
    if normal fd then
      match wr F (f_ty fd) x with
      | TOk val =>
        if allocates fd val then
          resolve E1 n = TOk val
          /\ wr F (f_ty fd) x' = TOk (if top_is_optmref (f_ty fd) then PRef n 0 else val)
          /\ top_sim fr vr vr' (n + 1)
        else wr F (f_ty fd) x' = TOk val /\ top_sim fr vr vr' n
      | _ => True
      end
    else top_sim fr vr vr' n
  | _, _, _ => False
  end.

(** ** the reading half: the analogue of DictProofs.rt_fields with the table threaded *)
Lemma top_rt_fields fs : fields_wf_top never_null fs = true ->
  (top_maybe_ref_fields fs = true \/ (3 <= F)%nat) ->
  forall vs d dw acc E,
  (forall fd, In fd fs -> normal fd = true -> dget (f_key fd) d = None) ->
  write_fields_top (wr F) fs vs d E = TOk (PDict dw, E1) ->
  top_ok fs vs (lenN E) ->
  exists vs', read_fields (rd F []) fs dw acc = TOk (VStruct (rev acc ++ vs'))
              /\ top_sim fs vs vs' (lenN E)
              /\ (existsb f_other fs = true -> other_of fs vs' = d).
Proof.
  induction fs as [|fd fr IH]; intros Hwf Hfuel [|x vr] d dw acc E Hfresh Hw Htop; cbn [write_fields_top] in Hw; try discriminate.
  - injection Hw as Hd _. subst dw. exists []. cbn [read_fields top_sim existsb]. rewrite app_nil_r.
    split; [reflexivity|]. split; [exact I|discriminate].
  - cbn [fields_wf_top] in Hwf. apply andb_true_iff in Hwf. destruct Hwf as [Hwf Hwfr].
    apply andb_true_iff in Hwf. destruct Hwf as [Hskip Hfd]. apply negb_true_iff in Hskip.
    assert (Hfuelr : top_maybe_ref_fields fr = true \/ (3 <= F)%nat).
    { destruct Hfuel as [Hm|Hf]; [left|right; exact Hf].
      unfold top_maybe_ref_fields in Hm. cbn [forallb] in Hm. apply andb_true_iff in Hm. apply Hm. }
    destruct (f_other fd) eqn:Hoth.
    + (* the catch-all: last field *)
      destruct fr as [|g fr']; [|discriminate].
      rewrite Hskip in Hw. cbn [orb] in Hw. destruct vr as [|y vr']; cbn [write_fields_top] in Hw; [|discriminate].
      injection Hw as Hd _. subst dw.
      exists [VDict d]. cbn [read_fields]. rewrite Hskip, Hoth. cbn [read_fields rev].
      split; [reflexivity|]. split.
      * cbn [top_sim]. unfold normal. rewrite Hskip, Hoth. cbn [orb negb]. exact I.
      * intros _. cbn [other_of]. rewrite Hoth. reflexivity.
    + apply andb_true_iff in Hfd. destruct Hfd as [Hfd Hind].
      apply andb_true_iff in Hfd. destruct Hfd as [Hkf Hdef].
      rewrite Hskip in Hw. cbn [orb] in Hw.
      assert (Hn : normal fd = true) by (unfold normal; rewrite Hskip, Hoth; reflexivity).
      assert (Hkd : dget (f_key fd) d = None) by (apply Hfresh; [left; reflexivity|exact Hn]).
      cbn [top_ok] in Htop. rewrite Hn in Htop.
      destruct (wr F (f_ty fd) x) as [val| | |] eqn:Hwx; cbn [tbind] in Hw; try discriminate.
      assert (Hfresh' : forall g, In g fr -> normal g = true -> dget (f_key g) d = None)
        by (intros g Hg; apply Hfresh; right; exact Hg).
      destruct (allocates fd val) eqn:Hal.
      * (* the written form became a fresh object *)
        destruct Htop as [Hok Htopr].
        pose proof Hal as Hal0.
        unfold allocates in Hal0. apply andb_true_iff in Hal0. destruct Hal0 as [Hal0 Href].
        apply andb_true_iff in Hal0. destruct Hal0 as [Hi Hnull]. apply negb_true_iff in Href, Hnull.
        rewrite Hi in Hind. cbn [negb orb] in Hind. apply andb_true_iff in Hind. destruct Hind as [Hity Hdn].
        rewrite Hnull, Hi in Hw. rewrite top_match_nonref in Hw by exact Href.
        destruct (write_fields_top_extends _ _ _ _ _ _ _ Hw) as [X HX].
        assert (Hres : resolve E1 (lenN E) = TOk val) by (rewrite HX; apply top_resolve_alloc).
        assert (Hfu : top_is_optmref (f_ty fd) = true \/ (3 <= F)%nat).
        { destruct Hfuel as [Hm|Hf]; [left|right; exact Hf].
          unfold top_maybe_ref_fields in Hm. cbn [forallb] in Hm. apply andb_true_iff in Hm. destruct Hm as [Hm _].
          rewrite Hi in Hm. exact Hm. }
        destruct (top_field_alloc F (f_ty fd) x val (lenN E) Hity Hwx Hnull Href Hres Hok Hfu) as [x' [Hrx Hwx']].
        assert (Hg : dget (f_key fd) dw = Some (PRef (lenN E) 0)).
        { rewrite (write_fields_top_get _ _ _ Hkf _ _ _ _ _ Hw). apply dget_dinsert_same. }
        pose proof (write_fields_top_del _ _ _ Hkf _ _ _ _ _ Hw) as Hdel.
        rewrite ddel_dinsert_same in Hdel by exact Hkd.
        rewrite <- (top_lenN_snoc E (XObj val)) in Htopr.
        destruct (IH Hwfr Hfuelr vr d (ddel (f_key fd) dw) (x' :: acc) (E ++ [XObj val]) Hfresh' Hdel Htopr) as [vr' [Hr [Hs Ho]]].
        exists (x' :: vr'). cbn [read_fields]. rewrite Hskip, Hoth. unfold dremove. rewrite Hg, Hrx. cbn [map_err tbind].
        rewrite Hr. cbn [rev]. rewrite <- app_assoc.
        split; [reflexivity|]. split.
        -- cbn [top_sim]. rewrite Hn, Hwx, Hal.
           split; [exact Hres|]. split; [exact Hwx'|]. rewrite <- (top_lenN_snoc E (XObj val)). exact Hs.
        -- cbn [existsb other_of]. rewrite Hoth. cbn [orb]. exact Ho.
      * (* exactly as in rt_fields *)
        destruct Htop as [Hok Htopr].
        destruct (value_rt SC H allow E1 hand_ok hand_law F [] (f_ty fd) x val Hok Hwx) as [x' [Hrx Hwx']].
        destruct (is_null val) eqn:Hnull.
        -- (* nothing written for this field *)
           destruct val; try discriminate.
           assert (Hg : dget (f_key fd) dw = None) by (rewrite (write_fields_top_get _ _ _ Hkf _ _ _ _ _ Hw); exact Hkd).
           destruct (IH Hwfr Hfuelr vr d dw (x' :: acc) E Hfresh' Hw Htopr) as [vr' [Hr [Hs Ho]]].
           exists (x' :: vr'). cbn [read_fields]. rewrite Hskip, Hoth. unfold dremove. rewrite Hg.
           assert (Hdn : f_default fd = DNone).
           { destruct (f_default fd); try reflexivity; exfalso; eapply (never_null_write SC H); eassumption. }
           rewrite Hdn, Hrx. cbn [map_err tbind]. rewrite (ddel_fresh _ _ Hg). rewrite Hr. cbn [rev]. rewrite <- app_assoc.
           split; [reflexivity|]. split.
           ++ cbn [top_sim]. rewrite Hn, Hwx, Hal. split; [exact Hwx'|exact Hs].
           ++ cbn [existsb other_of]. rewrite Hoth. cbn [orb]. exact Ho.
        -- assert (Hw' : write_fields_top (wr F) fr vr (dinsert (f_key fd) val d) E = TOk (PDict dw, E1)).
           { unfold allocates in Hal. rewrite Hnull in Hal. destruct (f_indirect fd); [|exact Hw].
             cbn [andb negb] in Hal. apply negb_false_iff in Hal. destruct val; try discriminate Hal. exact Hw. }
           assert (Hg : dget (f_key fd) dw = Some val).
           { rewrite (write_fields_top_get _ _ _ Hkf _ _ _ _ _ Hw'). apply dget_dinsert_same. }
           pose proof (write_fields_top_del _ _ _ Hkf _ _ _ _ _ Hw') as Hdel.
           rewrite ddel_dinsert_same in Hdel by exact Hkd.
           destruct (IH Hwfr Hfuelr vr d (ddel (f_key fd) dw) (x' :: acc) E Hfresh' Hdel Htopr) as [vr' [Hr [Hs Ho]]].
           exists (x' :: vr'). cbn [read_fields]. rewrite Hskip, Hoth. unfold dremove. rewrite Hg, Hrx. cbn [map_err tbind].
           rewrite Hr. cbn [rev]. rewrite <- app_assoc.
           split; [reflexivity|]. split.
           ++ cbn [top_sim]. rewrite Hn, Hwx, Hal. split; [exact Hwx'|exact Hs].
           ++ cbn [existsb other_of]. rewrite Hoth. cbn [orb]. exact Ho.
Qed.

(** ** the second write: a second run of the loop over the re-read values, in the table E1 or an extension of it *)
Lemma top_second fs : forall vs vs' d d' dw E EE E',
  write_fields_top (wr F) fs vs d E = TOk (PDict dw, EE) ->
  top_sim fs vs vs' (lenN E) ->
  (exists X, E' = E1 ++ X) ->
  sim_dict E' d d' ->
  exists dw' E2, write_fields_top (wr F) fs vs' d' E' = TOk (PDict dw', E2)
                 /\ (exists X, E2 = E' ++ X) /\ sim_dict E2 dw dw'.
Proof.
  induction fs as [|fd fr IH]; intros [|x vr] [|x' vr'] d d' dw E EE E' Hw Hsim Hext Hd;
    cbn [write_fields_top] in Hw; try discriminate; cbn [top_sim] in Hsim; try contradiction.
  - injection Hw as Hdw _. subst dw. exists d', E'. cbn [write_fields_top].
    split; [reflexivity|]. split; [exists []; rewrite app_nil_r; reflexivity|exact Hd].
  - cbn [write_fields_top]. unfold normal in Hsim.
    destruct (f_skip fd || f_other fd) eqn:Hso; cbn [negb] in Hsim; [eapply IH; eassumption|].
    destruct (wr F (f_ty fd) x) as [val| | |] eqn:Hwx; cbn [tbind] in Hw; try discriminate.
    unfold allocates in Hsim.
    destruct (is_null val) eqn:Hnull.
    + rewrite andb_false_r in Hsim. cbn [andb] in Hsim. destruct Hsim as [Hwx' Hsim].
      rewrite Hwx'. cbn [tbind]. rewrite Hnull. eapply IH; eassumption.
    + destruct (f_indirect fd) eqn:Hind; cbn [andb negb] in Hsim.
      * destruct (is_ref val) eqn:Href; cbn [negb] in Hsim.
        -- (* the value holds the reference *)
           destruct val; try discriminate Href. destruct Hsim as [Hwx' Hsim].
           rewrite Hwx'. cbn [tbind is_null].
           eapply IH; [exact Hw|exact Hsim|exact Hext|]. apply top_sim_dict_ins. exact Hd.
        -- (* the first write allocated object lenN E *)
           rewrite top_match_nonref in Hw by exact Href. destruct Hsim as [Hres [Hwx' Hsim]].
           rewrite <- (top_lenN_snoc E (XObj val)) in Hsim.
           rewrite Hwx'. cbn [tbind]. destruct (top_is_optmref (f_ty fd)).
           ++ (* re-read value holds `n 0 R`: no allocation *)
              cbn [is_null].
              eapply IH; [exact Hw|exact Hsim|exact Hext|]. apply top_sim_dict_ins. exact Hd.
           ++ (* the same object is created again *)
              rewrite Hnull. rewrite top_match_nonref by exact Href.
              destruct Hext as [X HX].
              assert (Hd' : sim_dict (E' ++ [XObj val]) (dinsert (f_key fd) (PRef (lenN E) 0) d)
                                     (dinsert (f_key fd) (PRef (lenN E') 0) d')).
              { apply top_sim_dict_ins_ref with (q := val).
                - apply top_sim_dict_mono. exact Hd.
                - rewrite HX, <- app_assoc. apply top_resolve_app. exact Hres.
                - rewrite <- (app_nil_r (E' ++ [XObj val])). apply top_resolve_alloc. }
              assert (Hext' : exists X', E' ++ [XObj val] = E1 ++ X').
              { exists (X ++ [XObj val]). rewrite HX, <- app_assoc. reflexivity. }
              destruct (IH _ _ _ _ _ _ _ _ Hw Hsim Hext' Hd') as [dw' [E2 [Hw2 [[X2 HX2] Hs2]]]].
              exists dw', E2. split; [exact Hw2|]. split; [|exact Hs2].
              exists ([XObj val] ++ X2). rewrite HX2, <- app_assoc. reflexivity.
      * destruct Hsim as [Hwx' Hsim]. rewrite Hwx'. cbn [tbind]. rewrite Hnull.
        eapply IH; [exact Hw|exact Hsim|exact Hext|]. apply top_sim_dict_ins. exact Hd.
Qed.

(* when every indirect field is an Option<MaybeRef<_>> the second run inserts the same entries and allocates nothing *)
Lemma top_second_same fs : top_maybe_ref_fields fs = true ->
  forall vs vs' d dw E EE, write_fields_top (wr F) fs vs d E = TOk (PDict dw, EE) ->
  top_sim fs vs vs' (lenN E) ->
  forall E', write_fields_top (wr F) fs vs' d E' = TOk (PDict dw, E').
Proof.
  induction fs as [|fd fr IH]; intros Hm [|x vr] [|x' vr'] d dw E EE Hw Hsim E';
    cbn [write_fields_top] in Hw; try discriminate; cbn [top_sim] in Hsim; try contradiction.
  - injection Hw as Hdw _. subst dw. reflexivity.
  - unfold top_maybe_ref_fields in Hm. cbn [forallb] in Hm. apply andb_true_iff in Hm. destruct Hm as [Hm1 Hm].
    fold (top_maybe_ref_fields fr) in Hm.
    cbn [write_fields_top]. unfold normal in Hsim.
    destruct (f_skip fd || f_other fd) eqn:Hso; cbn [negb] in Hsim; [eapply IH; eassumption|].
    destruct (wr F (f_ty fd) x) as [val| | |] eqn:Hwx; cbn [tbind] in Hw; try discriminate.
    unfold allocates in Hsim.
    destruct (is_null val) eqn:Hnull.
    + rewrite andb_false_r in Hsim. cbn [andb] in Hsim. destruct Hsim as [Hwx' Hsim].
      rewrite Hwx'. cbn [tbind]. rewrite Hnull. eapply IH; eassumption.
    + destruct (f_indirect fd) eqn:Hind; cbn [andb negb] in Hsim.
      * destruct (is_ref val) eqn:Href; cbn [negb] in Hsim.
        -- destruct val; try discriminate Href. destruct Hsim as [Hwx' Hsim].
           rewrite Hwx'. cbn [tbind is_null]. eapply IH; eassumption.
        -- rewrite top_match_nonref in Hw by exact Href. destruct Hsim as [Hres [Hwx' Hsim]].
           rewrite <- (top_lenN_snoc E (XObj val)) in Hsim.
           cbn [negb orb] in Hm1. rewrite Hm1 in Hwx'.
           rewrite Hwx'. cbn [tbind is_null]. eapply IH; eassumption.
      * destruct Hsim as [Hwx' Hsim]. rewrite Hwx'. cbn [tbind]. rewrite Hnull. eapply IH; eassumption.
Qed.

(** ** the struct level *)
Lemma top_rt_read E0 i s vs dw :
  get_struct SC i = Some s -> schema_wf_top s = true ->
  (forall fd, In fd (s_fields s) -> normal fd = true -> dget (f_key fd) (other_of (s_fields s) vs) = None) ->
  write_top SC H F E0 i (VStruct vs) = TOk (PDict dw, E1) ->
  top_ok (s_fields s) vs (lenN E0) ->
  (maybe_ref_only s = true \/ (3 <= F)%nat) ->
  exists vs', read SC H allow E1 (S F) [] (TStruct i) (PDict dw) = TOk (VStruct vs')
    /\ write_fields_top (wr F) (s_fields s) vs (base_of s vs) E0 = TOk (PDict dw, E1)
    /\ top_sim (s_fields s) vs vs' (lenN E0)
    /\ base_of s vs' = base_of s vs.
Proof.
  intros Hs Hwf Hfresh Hw Htop Hfuel. rewrite write_top_unfold, Hs in Hw.
  unfold schema_wf_top in Hwf. apply andb_true_iff in Hwf. destruct Hwf as [Hwf Hck].
  apply andb_true_iff in Hwf. destruct Hwf as [Hwf Htk]. apply andb_true_iff in Hwf. destruct Hwf as [Hhead Hfwf].
  set (B := base_of s vs) in *.
  assert (HB : forall fd, In fd (s_fields s) -> normal fd = true -> dget (f_key fd) B = None).
  { intros fd Hin Hn. unfold B. rewrite base_of_from, base_from_get_other.
    - apply Hfresh; assumption.
    - eapply key_fresh_sym_get; eassumption.
    - rewrite forallb_forall in Hck |- *. intros c Hc. apply negb_true_iff.
      eapply key_fresh_sym_get; [apply Hck; exact Hc|exact Hin|exact Hn]. }
  destruct (top_rt_fields (s_fields s) Hfwf Hfuel vs B dw [] E0 HB Hw Htop) as [vs' [Hr [Hsim Hoth]]].
  cbn [rev app] in Hr.
  exists vs'. split; [|split; [exact Hw|split; [exact Hsim|]]].
  - cbn [read]. rewrite Hs. cbn [read_dict tbind].
    assert (Hchk : read_checks s dw = TOk tt).
    { unfold read_checks.
      assert (Ht : (if s_tmode s =? 0 then TOk tt else expect dw TypeKey (s_type s) (s_tmode s =? 2)) = TOk tt).
      { destruct (s_tmode s =? 0) eqn:Hm; [reflexivity|]. apply expect_ok.
        rewrite (write_fields_top_get _ _ _ Htk _ _ _ _ _ Hw). unfold B. rewrite base_of_from. apply base_from_type; assumption. }
      rewrite Ht. cbn [tbind]. apply expect_all_ok. intros k v Hin.
      rewrite forallb_forall in Hck. pose proof (Hck (k, v) Hin) as Hkf. cbn [fst] in Hkf.
      rewrite (write_fields_top_get _ _ _ Hkf _ _ _ _ _ Hw).
      unfold B. rewrite base_of_from. eapply base_from_check; eassumption. }
    rewrite Hchk. cbn [tbind]. exact Hr.
  - rewrite base_of_from. destruct (existsb f_other (s_fields s)) eqn:Hex.
    + rewrite (Hoth eq_refl). unfold B. rewrite base_of_from. apply base_from_idem. exact Hhead.
    + rewrite (other_of_none _ Hex). unfold B. rewrite base_of_from, (other_of_none _ Hex). reflexivity.
Qed.

Theorem top_rt E0 i s vs dw :
  get_struct SC i = Some s -> schema_wf_top s = true ->
  (forall fd, In fd (s_fields s) -> normal fd = true -> dget (f_key fd) (other_of (s_fields s) vs) = None) ->
  write_top SC H F E0 i (VStruct vs) = TOk (PDict dw, E1) ->
  top_ok (s_fields s) vs (lenN E0) ->
  (3 <= F)%nat ->
  exists vs', read SC H allow E1 (S F) [] (TStruct i) (PDict dw) = TOk (VStruct vs')
    /\ exists dw' E2, write_top SC H F E1 i (VStruct vs') = TOk (PDict dw', E2)
         /\ (exists X, E2 = E1 ++ X) /\ sim_dict E2 dw dw'.
Proof.
  intros Hs Hwf Hfresh Hw Htop Hfuel.
  destruct (top_rt_read E0 i s vs dw Hs Hwf Hfresh Hw Htop (or_intror Hfuel)) as [vs' [Hr [Hw1 [Hsim HB]]]].
  exists vs'. split; [exact Hr|].
  rewrite write_top_unfold, Hs, HB.
  apply (top_second (s_fields s) vs vs' (base_of s vs) (base_of s vs) dw E0 E1 E1 Hw1 Hsim).
  - exists []. rewrite app_nil_r. reflexivity.
  - apply top_sim_dict_refl.
Qed.

(* every indirect field an Option<MaybeRef<_>>: the second write is identical and allocates nothing (no fuel premise) *)
Theorem top_rt_maybe_ref E0 i s vs dw :
  get_struct SC i = Some s -> schema_wf_top s = true ->
  (forall fd, In fd (s_fields s) -> normal fd = true -> dget (f_key fd) (other_of (s_fields s) vs) = None) ->
  write_top SC H F E0 i (VStruct vs) = TOk (PDict dw, E1) ->
  top_ok (s_fields s) vs (lenN E0) ->
  maybe_ref_only s = true ->
  exists vs', read SC H allow E1 (S F) [] (TStruct i) (PDict dw) = TOk (VStruct vs')
    /\ write_top SC H F E1 i (VStruct vs') = TOk (PDict dw, E1).
Proof.
  intros Hs Hwf Hfresh Hw Htop Hm.
  destruct (top_rt_read E0 i s vs dw Hs Hwf Hfresh Hw Htop (or_introl Hm)) as [vs' [Hr [Hw1 [Hsim HB]]]].
  exists vs'. split; [exact Hr|].
  rewrite write_top_unfold, Hs, HB.
  exact (top_second_same (s_fields s) Hm vs vs' (base_of s vs) dw E0 E1 Hw1 Hsim E1).
Qed.

End Top.

(* the premises are met by the schemas of the Rust sources: every read+write struct — including those with
   `indirect` fields (Trailer, Page) — is schema_wf_top *)
Lemma top_generated_wf : forallb (fun s => negb (rw s) || schema_wf_top s) (structs gen_schemas) = true.
Proof. vm_compute. reflexivity. Qed.
