(** Typed/Prim.v — primitives, dictionaries, errors and the canonical text form used by the typed models.
    [prim] has the constructors of pdf::primitive::Primitive (to be unified with Syn.Prim later).
    No proofs here. *)
From PdfV Require Import Base.Prelude.

(* primitive.rs: enum Primitive.  Number carries the binary32 bit pattern (no float ever appears in Coq). *)
Inductive prim : Type :=
| PNull
| PInt (z : Z)
| PNum (bits : N)
| PBool (b : bool)
| PStr (s : bytes)
| PName (s : bytes)
| PRef (id gen : N)
| PArr (l : list prim)
| PDict (d : list (bytes * prim))
| PStream (d : list (bytes * prim)) (data : bytes).

Definition dict := list (bytes * prim).

Fixpoint beqb (a b : bytes) : bool :=
  match a, b with
  | [], [] => true
  | x :: a', y :: b' => N.eqb x y && beqb a' b'
  | _, _ => false
  end.

(* primitive.rs: Dictionary::get (IndexMap::get) *)
Fixpoint dget (k : bytes) (d : dict) : option prim :=
  match d with
  | [] => None
  | (k', v) :: t => if beqb k k' then Some v else dget k t
  end.

Definition dhas (k : bytes) (d : dict) : bool := match dget k d with Some _ => true | None => false end.

(* primitive.rs: Dictionary::insert (IndexMap::insert: replaces in place, else appends) *)
Fixpoint dinsert (k : bytes) (v : prim) (d : dict) : dict :=
  match d with
  | [] => [(k, v)]
  | (k', v') :: t => if beqb k k' then (k, v) :: t else (k', v') :: dinsert k v t
  end.

(* primitive.rs: Dictionary::remove.  IndexMap::remove is swap_remove; the *order* of the remaining entries is
   abstracted (the canonical output form sorts keys on both sides): the model keeps the order. *)
Fixpoint ddel (k : bytes) (d : dict) : dict :=
  match d with
  | [] => []
  | (k', v) :: t => if beqb k k' then t else (k', v) :: ddel k t
  end.
Definition dremove (k : bytes) (d : dict) : option prim * dict := (dget k d, ddel k d).

Definition is_null (p : prim) : bool := match p with PNull => true | _ => false end.

(** errors: error.rs enum PdfError, only as far as C15/C18 distinguish constructors *)
Inductive perr : Type :=
| EBase (code : N)                     (* a constructor without modelled payload, codes below *)
| EMissing (field : bytes)             (* MissingEntry { field } *)
| ETry (e : perr)                      (* Try { source }: the t! macro *)
| EShared (e : perr)                   (* Shared { source }: Resolve::get *)
| EFromPrim (field : bytes) (e : perr) (* FromPrimitive { field, source }: derived field reader *).

Definition c_NullRef : N := 1.
Definition c_FreeObject : N := 2.
Definition c_Unspecified : N := 3.      (* UnspecifiedXRefEntry *)
Definition c_Unexpected : N := 4.       (* UnexpectedPrimitive *)
Definition c_KeyValue : N := 5.         (* KeyValueMismatch *)
Definition c_UnknownVariant : N := 6.
Definition c_Other : N := 7.            (* Other { msg }: bail! *)
Definition c_NoOpArg : N := 8.
Definition c_Parse : N := 9.            (* Parse / Encoding (str::parse, from_utf8) *)
Definition c_Unmodelled : N := 99.      (* a type outside the model: never compared *)

(* outcome with structured errors *)
Inductive tres (A : Type) : Type :=
| TOk (a : A) | TErr (e : perr) | TPanic (site : N) | TFuel.
Arguments TOk {A} a.
Arguments TErr {A} e.
Arguments TPanic {A} site.
Arguments TFuel {A}.

Definition tbind {A B} (r : tres A) (f : A -> tres B) : tres B :=
  match r with TOk a => f a | TErr e => TErr e | TPanic s => TPanic s | TFuel => TFuel end.
Notation "'tdo' x <- r ; k" := (tbind r (fun x => k))
  (at level 200, x pattern, r at level 100, k at level 200, right associativity).

Definition tmap {A B} (f : A -> B) (r : tres A) : tres B :=
  match r with TOk a => TOk (f a) | TErr e => TErr e | TPanic s => TPanic s | TFuel => TFuel end.

(* error.rs: macro t! *)
Definition t_try {A} (r : tres A) : tres A :=
  match r with TErr e => TErr (ETry e) | x => x end.

Fixpoint tmapM {A B} (f : A -> tres B) (l : list A) : tres (list B) :=
  match l with
  | [] => TOk []
  | x :: t => tdo y <- f x; tdo ys <- tmapM f t; TOk (y :: ys)
  end.

(** accessors of primitive.rs *)
Definition unexpected {A} : tres A := TErr (EBase c_Unexpected).
Definition i32_ok (z : Z) : bool := ((-2147483648 <=? z) && (z <=? 2147483647))%Z.

(* primitive.rs: as_integer *)
Definition as_integer (p : prim) : tres Z := match p with PInt z => TOk z | _ => unexpected end.
(* primitive.rs: as_u32 *)
Definition as_u32 (p : prim) : tres Z :=
  match p with PInt z => if (0 <=? z)%Z then TOk z else TErr (EBase c_Other) | _ => unexpected end.
(* primitive.rs: as_bool *)
Definition as_bool (p : prim) : tres bool := match p with PBool b => TOk b | _ => unexpected end.
(* primitive.rs: into_name / as_name *)
Definition as_name (p : prim) : tres bytes := match p with PName s => TOk s | _ => unexpected end.
(* primitive.rs: into_array *)
Definition into_array (p : prim) : tres (list prim) := match p with PArr l => TOk l | _ => unexpected end.

(** binary32 conversion of an i32 (`n as f32`, round to nearest even) — exact, executable *)
Definition f32_of_nat_mag (m : N) : N :=          (* m > 0 : exponent/mantissa bits of the float nearest to m *)
  let e := N.log2 m in
  if e <=? 23 then (e + 127) * 8388608 + (N.shiftl m (23 - e) - 8388608)
  else
    let sh := e - 23 in
    let q := N.shiftr m sh in
    let r := m - N.shiftl q sh in
    let half := N.shiftl 1 (sh - 1) in
    let q' := if (half <? r) || ((half =? r) && N.odd q) then q + 1 else q in
    if q' =? 16777216 then (e + 1 + 127) * 8388608 else (e + 127) * 8388608 + (q' - 8388608).
Definition f32_of_i32 (z : Z) : N :=
  if (z =? 0)%Z then 0
  else if (z <? 0)%Z then 2147483648 + f32_of_nat_mag (Z.to_N (- z))
  else f32_of_nat_mag (Z.to_N z).

(* primitive.rs: as_number *)
Definition as_number (p : prim) : tres N :=
  match p with PInt z => TOk (f32_of_i32 z) | PNum b => TOk b | _ => unexpected end.

(** canonical text form (harness/src/util.rs::canon, tools/oracle/canon.py), printer.
    Dictionary keys are printed in sorted order (both sides), because IndexMap/HashMap order is not modelled. *)
Definition hexdigit (n : N) : N := if n <? 10 then 48 + n else 87 + n.
Fixpoint hex_of (l : bytes) : bytes :=
  match l with [] => [] | b :: t => hexdigit (b / 16) :: hexdigit (b mod 16) :: hex_of t end.
Fixpoint hex8 (n : nat) (v : N) (acc : bytes) : bytes :=
  match n with O => acc | S k => hex8 k (v / 16) (hexdigit (v mod 16) :: acc) end.

Fixpoint bleb (a b : bytes) : bool :=       (* lexicographic <= on byte strings *)
  match a, b with
  | [], _ => true
  | _ :: _, [] => false
  | x :: a', y :: b' => if x <? y then true else if y <? x then false else bleb a' b'
  end.
Fixpoint ins_sorted {A} (e : bytes * A) (l : list (bytes * A)) : list (bytes * A) :=
  match l with
  | [] => [e]
  | h :: t => if bleb (fst e) (fst h) then e :: l else h :: ins_sorted e t
  end.
Definition sort_keys {A} (l : list (bytes * A)) : list (bytes * A) := fold_right ins_sorted [] l.

Fixpoint join_sp (l : list bytes) : bytes :=
  match l with [] => [] | [x] => x | x :: t => x ++ 32 :: join_sp t end.

Fixpoint canon (p : prim) : bytes :=
  let cdict := fix cdict (d : list (bytes * prim)) : list (bytes * bytes) :=
    match d with [] => [] | (k, v) :: t => (k, canon v) :: cdict t end in
  let pdict := fun d => 123 :: join_sp (map (fun kv => hex_of (fst kv) ++ 58 :: snd kv) (sort_keys (cdict d))) ++ [125] in
  match p with
  | PNull => [110]
  | PBool true => [116]
  | PBool false => [102]
  | PInt z => 105 :: dec_of_Z z
  | PNum b => 114 :: hex8 8 b []
  | PName s => 78 :: hex_of s ++ [59]
  | PStr s => 83 :: hex_of s ++ [59]
  | PRef i g => 82 :: dec_of_N i ++ 44 :: dec_of_N g
  | PArr l => 91 :: join_sp ((fix go (l : list prim) := match l with [] => [] | x :: t => canon x :: go t end) l) ++ [93]
  | PDict d => pdict d
  | PStream d data => 115 :: pdict d ++ hex_of data ++ [59]
  end.

(** parser of the canonical form (fuel = input length is enough: every step consumes a byte) *)
Definition unhexdigit (c : N) : option N :=
  if (48 <=? c) && (c <=? 57) then Some (c - 48)
  else if (97 <=? c) && (c <=? 102) then Some (c - 87) else None.
(* hex pairs up to the terminator [stop]; returns decoded bytes and the rest after the terminator *)
Fixpoint unhex_until (fuel : nat) (stop : N) (l : bytes) (acc : bytes) : option (bytes * bytes) :=
  match fuel with
  | O => None
  | S f =>
    match l with
    | c :: t => if c =? stop then Some (rev acc, t) else
        match t with
        | c2 :: t2 => match unhexdigit c, unhexdigit c2 with
                      | Some a, Some b => unhex_until f stop t2 ((a * 16 + b) :: acc)
                      | _, _ => None end
        | [] => None end
    | [] => None
    end
  end.
Definition is_digit (c : N) : bool := (48 <=? c) && (c <=? 57).
Fixpoint span_num (l : bytes) : bytes * bytes :=
  match l with
  | c :: t => if is_digit c || (c =? 45) then let (a, b) := span_num t in (c :: a, b) else ([], l)
  | [] => ([], [])
  end.
Fixpoint hexN (l : bytes) (acc : N) : option N :=
  match l with [] => Some acc | c :: t => match unhexdigit c with Some d => hexN t (acc * 16 + d) | None => None end end.

Fixpoint uncanon (fuel : nat) (l : bytes) : option (prim * bytes) :=
  match fuel with
  | O => None
  | S f =>
    let items := fix items (n : nat) (l : bytes) (acc : list prim) : option (list prim * bytes) :=
      match n with
      | O => None
      | S n' =>
        match l with
        | c :: t =>
          if c =? 93 then Some (rev acc, t)
          else if c =? 32 then items n' t acc
          else match uncanon f l with Some (v, r) => items n' r (v :: acc) | None => None end
        | [] => None
        end
      end in
    let entries := fix entries (n : nat) (l : bytes) (acc : dict) : option (dict * bytes) :=
      match n with
      | O => None
      | S n' =>
        match l with
        | c :: t =>
          if c =? 125 then Some (acc, t)
          else if c =? 32 then entries n' t acc
          else match unhex_until (S (length l)) 58 l [] with
               | Some (k, r) => match uncanon f r with Some (v, r') => entries n' r' (dinsert k v acc) | None => None end
               | None => None end
        | [] => None
        end
      end in
    match l with
    | [] => None
    | c :: t =>
      if c =? 110 then Some (PNull, t)
      else if c =? 116 then Some (PBool true, t)
      else if c =? 102 then Some (PBool false, t)
      else if c =? 105 then let (d, r) := span_num t in Some (PInt (Z_of_dec d), r)
      else if c =? 114 then match hexN (firstn 8 t) 0 with Some b => Some (PNum b, skipn 8 t) | None => None end
      else if c =? 78 then match unhex_until (S (length t)) 59 t [] with Some (s, r) => Some (PName s, r) | None => None end
      else if c =? 83 then match unhex_until (S (length t)) 59 t [] with Some (s, r) => Some (PStr s, r) | None => None end
      else if c =? 82 then
        let (a, r) := span_num t in
        match r with
        | c2 :: r' => if c2 =? 44 then let (b, r'') := span_num r' in Some (PRef (N_of_dec a) (N_of_dec b), r'') else None
        | [] => None end
      else if c =? 91 then match items (S (length t)) t [] with Some (vs, r) => Some (PArr vs, r) | None => None end
      else if c =? 123 then match entries (S (length t)) t [] with Some (d, r) => Some (PDict d, r) | None => None end
      else if c =? 115 then
        match t with
        | c2 :: t2 =>
          if c2 =? 123 then
            match entries (S (length t2)) t2 [] with
            | Some (d, r) => match unhex_until (S (length r)) 59 r [] with
                             | Some (data, r') => Some (PStream d data, r') | None => None end
            | None => None end
          else None
        | [] => None end
      else None
    end
  end.
Definition parse_canon (l : bytes) : option prim :=
  match uncanon (S (length l)) l with Some (p, []) => Some p | _ => None end.
