(** Typed/Hand.v — hand-written Object/ObjectWrite pairs: Date (primitive.rs), Rectangle (object/types.rs),
    Matrix (content.rs), Action with named destinations and NameTree<Primitive> (object/types.rs).  Other hand-written
    types are outside the model ([unmodelled]).  No proofs here. *)
From PdfV Require Import Base.Prelude Gen.Generated Typed.Prim Typed.Schema Typed.Derive.

Definition hid_Date : N := 0.
Definition hid_Rectangle : N := 1.
Definition hid_Matrix : N := 2.

(** * Rectangle, Matrix *)
Fixpoint numbers (l : list prim) : tres (list Z) :=
  match l with
  | [] => TOk []
  | p :: t => tdo b <- as_number p; tdo r <- numbers t; TOk (Z.of_N b :: r)
  end.

Definition resolve_if_ref (rs : N -> tres prim) (p : prim) : tres prim :=   (* primitive.rs: Primitive::resolve *)
  match p with PRef i _ => rs i | _ => TOk p end.

(* object/types.rs: impl Object for Rectangle *)
Definition read_rectangle (rs : N -> tres prim) (p : prim) : tres value :=
  tdo q <- resolve_if_ref rs p;
  tdo arr <- into_array q;
  if negb (length arr =? 4)%nat then TErr (EBase c_Other)
  else tmap VNums (numbers arr).

(* content.rs: fn number — args.next().ok_or(NoOpArg)?.as_number() *)
Fixpoint take_numbers (n : nat) (l : list prim) : tres (list Z) :=
  match n with
  | O => TOk []
  | S k => match l with
           | [] => TErr (EBase c_NoOpArg)
           | p :: t => tdo b <- as_number p; tdo r <- take_numbers k t; TOk (Z.of_N b :: r)
           end
  end.

(* content.rs: impl Object for Matrix — matrix(&mut p.resolve(resolve)?.into_array()?.into_iter()) (the resolve: after
   fix C18-c); extra elements ignored *)
Definition read_matrix (rs : N -> tres prim) (p : prim) : tres value :=
  tdo q <- (if matrix_reader_resolves then resolve_if_ref rs p else TOk p);
  tdo arr <- into_array q; tmap VNums (take_numbers 6 arr).

(* ObjectWrite for Rectangle / Matrix: Primitive::array::<f32>([..]) *)
Definition write_numbers (n : nat) (v : value) : tres prim :=
  match v with
  | VNums l => if (length l =? n)%nat then TOk (PArr (map (fun z => PNum (Z.to_N z)) l)) else ill_typed
  | _ => ill_typed
  end.

(** * Date *)
Definition is_sep (c : N) : bool := (c =? 43) || (c =? 45) || (c =? 90).      (* s.find(['+', '-', 'Z']) *)
Fixpoint find_sep (l : bytes) (i : nat) : option (nat * N) :=
  match l with [] => None | c :: t => if is_sep c then Some (i, c) else find_sep t (Datatypes.S i) end.

(* str::get(a..b) on an ASCII string *)
Definition slice (l : bytes) (a b : nat) : option bytes :=
  if (b <=? length l)%nat then Some (skipn a (firstn b l)) else None.

(* str::parse::<uN>: optional '+', at least one digit, only digits, value <= max *)
Fixpoint digits_val (l : bytes) (acc : N) : option N :=
  match l with
  | [] => Some acc
  | c :: t => if is_digit c then digits_val t (acc * 10 + (c - 48)) else None
  end.
Definition parse_unsigned (l : bytes) (max : N) : option N :=
  let body := match l with c :: t => if c =? 43 then t else l | [] => [] end in
  match body with
  | [] => None
  | _ => match digits_val body 0 with Some v => if v <=? max then Some v else None | None => None end
  end.

(* primitive.rs: fn parse_or (for u8) *)
Definition parse_or (buf : bytes) (a b : nat) (default : N) : N :=
  match slice buf a b with
  | Some s => match parse_unsigned s 255 with Some v => v | None => default end
  | None => default
  end.

Definition ascii (l : bytes) : bool := forallb (fun c => c <? 128) l.

(* primitive.rs: impl Object for Date.  Defined for ASCII strings; a string with a byte >= 128 is outside the
   model (char-boundary rules of str::get). VNums [year; month; day; hour; minute; second; rel; tz_hour; tz_minute],
   rel: 0 Earlier ('-'), 1 Later ('+'), 2 Universal ('Z') *)
Definition read_date (rs : N -> tres prim) (p : prim) : tres value :=
  tdo q <- resolve_if_ref rs p;
  match q with
  | PStr s =>
    if negb (ascii s) then unmodelled
    else
      match s with
      | c0 :: c1 :: rest =>
        if (c0 =? 68) && (c1 =? 58) then
          match slice s 2 6 with
          | None => TErr (EBase c_Other)
          | Some ys =>
            match parse_unsigned ys 65535 with
            | None => TErr (EBase c_Parse)
            | Some year =>
              let '(time, rel, zone) :=
                match find_sep s 0 with
                | Some (i, c) => (firstn i s, (if c =? 45 then 0 else if c =? 43 then 1 else 2), skipn (Datatypes.S i) s)
                | None => (s, 2, [])
                end in
              TOk (VNums (map Z.of_N [year; parse_or time 6 8 1; parse_or time 8 10 1; parse_or time 10 12 0;
                                      parse_or time 12 14 0; parse_or time 14 16 0; rel;
                                      parse_or zone 0 2 0; parse_or zone 3 5 0]))
            end
          end
        else TErr (EBase c_Other)
      | _ => TErr (EBase c_Other)
      end
  | _ => unexpected
  end.

(* format!("{:0w}") of an unsigned number: at least w digits *)
Definition pad (w : nat) (n : N) : bytes :=
  let d := dec_of_N n in repeatN 48 (w - length d) ++ d.

(* primitive.rs: impl ObjectWrite for Date (after fix C15-d: month > 99 is refused like day > 99) *)
Definition write_date (v : value) : tres prim :=
  match v with
  | VNums [year; month; day; hour; minute; second; rel; tzh; tzm] =>
    let n := Z.to_N in
    if (9999 <? n year) || (99 <? n month) || (99 <? n day) || (23 <? n hour) || (60 <=? n minute) || (60 <=? n second)
       || (24 <=? n tzh) || (60 <=? n tzm)
    then TErr (EBase c_Other)
    else
      let o := if n rel =? 0 then 45 else if n rel =? 1 then 43 else 90 in
      TOk (PStr ([68; 58] ++ pad 4 (n year) ++ pad 2 (n month) ++ pad 2 (n day) ++ pad 2 (n hour) ++ pad 2 (n minute)
                 ++ pad 2 (n second) ++ [o] ++ pad 2 (n tzh) ++ [39] ++ pad 2 (n tzm)))
  | _ => ill_typed
  end.

(** * Action (object/types.rs): Goto with a named destination, and every other action kept as its dictionary.
      An explicit destination array (Dest::from_array) is outside the model. *)
Definition hid_Action : N := 3.
Definition hid_NameTreePrim : N := 4.
Definition c_NoneError : N := 11.            (* PdfError::NoneError: the try_opt! macro *)
Definition k_S : bytes := [83].
Definition k_D : bytes := [68].
Definition n_GoTo : bytes := [71; 111; 84; 111].

(* primitive.rs: into_dictionary *)
Definition into_dictionary (p : prim) : tres dict := match p with PDict d => TOk d | _ => unexpected end.
(* primitive.rs: into_string *)
Definition into_string (p : prim) : tres bytes := match p with PStr s => TOk s | _ => unexpected end.

(* object/types.rs: impl Object for MaybeNamedDest *)
Definition read_maybe_named_dest (rs : N -> tres prim) (p : prim) : tres value :=
  tdo q <- resolve_if_ref rs p;
  match q with
  | PStr s => TOk (VSome (VStr s))
  | PDict _ | PArr _ => unmodelled
  | _ => TErr (ETry (EBase c_Unexpected))     (* t!(p.as_array(), p) *)
  end.

(* object/types.rs: impl Object for Action.  Goto (Named s) = VSome (VStr s), Other d = VDict d *)
Definition read_action (rs : N -> tres prim) (p : prim) : tres value :=
  tdo q <- resolve_if_ref rs p;
  tdo d <- t_try (into_dictionary q);
  match dget k_S d with
  | None => TErr (EBase c_NoneError)
  | Some sp =>
    tdo s <- as_name sp;
    if beqb s n_GoTo then
      match dget k_D d with
      | None => TErr (EBase c_NoneError)
      | Some dp => t_try (read_maybe_named_dest rs dp)
      end
    else TOk (VDict d)
  end.

(* object/types.rs: impl ObjectWrite for Action (after fix C15-b: /S /GoTo is written) *)
Definition write_action (v : value) : tres prim :=
  match v with
  | VSome (VStr s) => TOk (PDict (dinsert k_D (PStr s) (dinsert k_S (PName n_GoTo) [])))
  | VDict d => TOk (PDict d)
  | _ => ill_typed
  end.

(** * NameTree<Primitive> (object/types.rs) *)
Definition k_Limits : bytes := [76; 105; 109; 105; 116; 115].
Definition k_Kids : bytes := [75; 105; 100; 115].
Definition k_Names : bytes := [78; 97; 109; 101; 115].

Fixpoint read_kids (l : list prim) : tres (list value) :=      (* Ref::<NameTree<T>>::from_primitive per kid *)
  match l with
  | [] => TOk []
  | PRef i g :: t => tdo r <- read_kids t; TOk (VRef i g :: r)
  | _ :: _ => unexpected
  end.
Fixpoint read_names (rs : N -> tres prim) (l : list prim) : tres (list value) :=     (* names.chunks_exact(2) *)
  match l with
  | k :: v :: t =>
    tdo q <- resolve_if_ref rs k; tdo n <- into_string q;
    tdo r <- read_names rs t; TOk (VPair (VStr n) (VPrim v) :: r)
  | _ => TOk []
  end.

(* Leaf l = VPair limits (VSome (VVec l)), Intermediate l = VPair limits (VDirect (VVec l)) *)
Definition read_nametree (rs : N -> tres prim) (p : prim) : tres value :=
  tdo q <- resolve_if_ref rs p;
  tdo d <- t_try (into_dictionary q);
  tdo limits <- (match dget k_Limits d with
                 | None => TOk VNone
                 | Some lp =>
                   tdo lq <- resolve_if_ref rs lp; tdo arr <- into_array lq;
                   match arr with
                   | [a; b] => tdo x <- into_string a; tdo y <- into_string b; TOk (VSome (VPair (VStr x) (VStr y)))
                   | _ => TErr (EBase c_Other)
                   end
                 end);
  match dget k_Kids d, dget k_Names d with
  | Some kp, _ =>
    tdo kq <- resolve_if_ref rs kp; tdo arr <- into_array kq;
    tdo ks <- t_try (read_kids arr); TOk (VPair limits (VDirect (VVec ks)))
  | None, Some np =>
    tdo nq <- resolve_if_ref rs np; tdo arr <- into_array nq;
    tdo ns <- read_names rs arr; TOk (VPair limits (VSome (VVec ns)))
  | None, None => TOk (VPair limits (VDirect (VVec [])))
  end.

(* object/types.rs: impl ObjectWrite for NameTree (after fix C15-c: the writer mirrors NumberTree's) *)
Fixpoint write_names (l : list value) : tres (list prim) :=
  match l with
  | [] => TOk []
  | VPair (VStr n) (VPrim v) :: t => tdo r <- write_names t; TOk (PStr n :: v :: r)
  | _ => ill_typed
  end.
Fixpoint write_kids (l : list value) : tres (list prim) :=
  match l with
  | [] => TOk []
  | VRef i g :: t => tdo r <- write_kids t; TOk (PRef i g :: r)
  | _ => ill_typed
  end.
Definition write_nametree (v : value) : tres prim :=
  match v with
  | VPair limits node =>
    tdo d0 <- (match limits with
               | VNone => TOk []
               | VSome (VPair (VStr x) (VStr y)) => TOk (dinsert k_Limits (PArr [PStr x; PStr y]) [])
               | _ => ill_typed
               end);
    match node with
    | VSome (VVec l) => tdo ns <- write_names l; TOk (PDict (dinsert k_Names (PArr ns) d0))
    | VDirect (VVec l) => tdo ks <- write_kids l; TOk (PDict (dinsert k_Kids (PArr ks) d0))
    | _ => ill_typed
    end
  | _ => ill_typed
  end.

(** * PagesRc (object/types.rs): an RcRef<PagesNode> that must be a page-tree node.  Modelled on the domain the
      generators use — the reference designates a minimal page-tree node << /Type /Pages /Kids [] /Count 0 >> — together
      with the error paths in front of PageTree::from_dict; any other node content is [unmodelled].  This is what lets
      the structs with a required PagesRc (Page, Catalog, and through it Trailer) run against the model, in particular
      [write_top] for their `indirect` fields. *)
Definition hid_PagesRc : N := 5.
Definition k_Count : bytes := [67; 111; 117; 110; 116].
Definition n_Pages : bytes := [80; 97; 103; 101; 115].
Definition n_Page : bytes := [80; 97; 103; 101].
Definition c_WrongType : N := 12.              (* PdfError::WrongDictionaryType *)

(* PagesNode::from_primitive on the resolved object *)
Definition read_pages_node (rs : N -> tres prim) (q : prim) : tres unit :=
  tdo q' <- resolve_if_ref rs q;
  tdo d <- into_dictionary q';
  match dget TypeKey d with
  | None => TErr (EMissing TypeKey)                      (* dict.require("PagesNode", "Type") *)
  | Some tp =>
    tdo n <- as_name tp;
    if beqb n n_Pages then
      match dget k_Kids d, dget k_Count d, d with
      | Some (PArr []), Some (PInt z), [_; _; _] => if (z =? 0)%Z then TOk tt else unmodelled
      | _, _, _ => unmodelled
      end
    else if beqb n n_Page then unmodelled
    else TErr (EBase c_WrongType)
  end.

(* impl Object for PagesRc: t!(RcRef::from_primitive(p, resolve)) — Resolve::get wraps its error in Shared *)
Definition read_pagesrc (rs : N -> tres prim) (p : prim) : tres value :=
  match p with
  | PRef i g =>
    match (tdo q <- rs i; read_pages_node rs q) with
    | TOk _ => TOk (VIndirect i g VUnit)
    | TErr e => if negb (match e with EBase c => c =? c_Unmodelled | _ => false end)
                then TErr (ETry (if get_wraps_shared then EShared e else e)) else TErr e
    | TPanic s => TPanic s
    | TFuel => TFuel
    end
  | _ => TErr (ETry (EBase c_Unexpected))
  end.
Definition write_pagesrc (v : value) : tres prim :=
  match v with VIndirect i g _ => TOk (PRef i g) | _ => ill_typed end.


(** * Encoding (encoding.rs): a font's /Encoding — a predefined name, or a dictionary with /BaseEncoding and the
      /Differences array (ISO 32000-1 9.6.6.1, Table 114).  Value: VPair base (VVec [VPair (VInt code) (VName glyph) …]),
      the HashMap<u32, SmallString> kept as the list sorted by code (the writer sorts it: `diff_list.sort()`). *)
Definition hid_Encoding : N := 6.
Definition k_BaseEncoding : bytes := [66; 97; 115; 101; 69; 110; 99; 111; 100; 105; 110; 103].
Definition k_Differences : bytes := [68; 105; 102; 102; 101; 114; 101; 110; 99; 101; 115].
Definition n_BaseEncodingTy : bytes := [66; 97; 115; 101; 69; 110; 99; 111; 100; 105; 110; 103].      (* the derived name enum BaseEncoding *)
Definition n_NoneVariant : bytes := [78; 111; 110; 101].

Definition base_enc : option nenum :=
  match find_name ne_name n_BaseEncodingTy (nenums gen_schemas) 0 with Some (_, e) => Some e | None => None end.
Fixpoint find_variant (v : bytes) (l : list (bytes * bytes)) (i : N) : option N :=
  match l with [] => None | (vn, _) :: t => if beqb v vn then Some i else find_variant v t (i + 1) end.

(* pdf_derive: impl_object_for_enum for BaseEncoding (as Derive.read at TNameEnum, over the hand resolver) *)
Definition read_base_encoding (rs : N -> tres prim) (p : prim) : tres value :=
  match base_enc with
  | None => unmodelled
  | Some e =>
    tdo q <- (match p with PRef r _ => if name_enum_reader_resolves then rs r else TOk p | _ => TOk p end);
    match q with
    | PName n => match find_pair n (ne_pairs e) 0 with
                 | Some k => TOk (VEnum k)
                 | None => if ne_other e then TOk (VEnumOther n) else TErr (EBase c_UnknownVariant)
                 end
    | _ => unexpected
    end
  end.
Definition write_base_encoding (v : value) : tres prim :=
  match base_enc, v with
  | Some e, VEnum k => match nth_error (ne_pairs e) (N.to_nat k) with Some (_, nm) => TOk (PName nm) | None => ill_typed end
  | Some e, VEnumOther s => if ne_other e then TOk (PName s) else ill_typed
  | None, _ => unmodelled
  | _, _ => ill_typed
  end.
(* `None => BaseEncoding::None` *)
Definition base_none : tres value :=
  match base_enc with
  | Some e => match find_variant n_NoneVariant (ne_pairs e) 0 with Some k => TOk (VEnum k) | None => unmodelled end
  | None => unmodelled
  end.

Definition two32 : N := 4294967296.
Definition u32_of_i32 (z : Z) : N := Z.to_N (z mod 4294967296).                         (* `code as u32` *)
Definition i32_of_u32 (n : N) : Z := if n <? 2147483648 then Z.of_N n else (Z.of_N n - 4294967296)%Z.   (* `gid as i32` *)
Definition wrapping_succ (n : N) : N := (n + 1) mod two32.                               (* gid.wrapping_add(1) *)

(* HashMap::insert on the code-sorted list *)
Fixpoint dins (c : N) (nm : bytes) (m : list (N * bytes)) : list (N * bytes) :=
  match m with
  | [] => [(c, nm)]
  | (c', n') :: t => if c <? c' then (c, nm) :: m else if c =? c' then (c, nm) :: t else (c', n') :: dins c nm t
  end.

(* encoding.rs: the loop over the parts of /Differences *)
Fixpoint read_diffs (l : list prim) (gid : N) (m : list (N * bytes)) : tres (list (N * bytes)) :=
  match l with
  | [] => TOk m
  | PInt code :: t => read_diffs t (u32_of_i32 code) m
  | PName nm :: t => read_diffs t (wrapping_succ gid) (dins gid nm m)
  | _ :: _ => TErr (EBase c_Other)                      (* bail!("Unknown part primitive in dictionary") *)
  end.

Definition diffs_to_value (m : list (N * bytes)) : value :=
  VVec (map (fun cn => VPair (VInt (Z.of_N (fst cn))) (VName (snd cn))) m).
Fixpoint diffs_of_values (l : list value) : option (list (N * bytes)) :=
  match l with
  | [] => Some []
  | VPair (VInt z) (VName n) :: t => match diffs_of_values t with Some r => Some ((Z.to_N z, n) :: r) | None => None end
  | _ => None
  end.
Definition enc_value (b : value) (m : list (N * bytes)) : value := VPair b (diffs_to_value m).

(* encoding.rs: impl Object for Encoding, the arms for a primitive that is not a reference *)
Definition read_encoding_direct (rs : N -> tres prim) (p : prim) : tres value :=
  let from_dict (d : dict) :=
    tdo b <- (match dget k_BaseEncoding d with Some q => read_base_encoding rs q | None => base_none end);
    tdo m <- (match dget k_Differences d with
              | Some q => tdo a <- resolve_if_ref rs q; tdo arr <- into_array a; read_diffs arr 0 []
              | None => TOk []
              end);
    TOk (enc_value b m) in
  match p with
  | PName _ => tdo b <- read_base_encoding rs p; TOk (enc_value b [])
  | PDict d => from_dict d
  | PStream d _ => from_dict d
  | _ => TErr (EBase c_Other)                           (* bail!("Unknown element") *)
  end.
Definition read_encoding (rs : N -> tres prim) (p : prim) : tres value :=
  match p with
  | PRef r _ => tdo q <- rs r;
                match q with PRef _ _ => TErr (EBase c_Other) | _ => read_encoding_direct rs q end
  | _ => read_encoding_direct rs p
  end.

(* encoding.rs: impl ObjectWrite for Encoding — the run tracker `last: Option<u32>` *)
Fixpoint write_diffs (m : list (N * bytes)) (last : option N) : list prim :=
  match m with
  | [] => []
  | (c, nm) :: t =>
    (if match last with Some n => n + 1 =? c | None => false end then [] else [PInt (i32_of_u32 c)])
    ++ PName nm :: write_diffs t (Some c)
  end.
Definition write_encoding (v : value) : tres prim :=
  match v with
  | VPair b (VVec l) =>
    match diffs_of_values l with
    | None => ill_typed
    | Some m =>
      tdo bp <- write_base_encoding b;
      match m with
      | [] => TOk bp
      | _ => TOk (PDict (dinsert k_Differences (PArr (write_diffs m None)) (dinsert k_BaseEncoding bp [])))
      end
    end
  | _ => ill_typed
  end.

(** * the table *)
Definition hand_read (i : N) (rs : N -> tres prim) (p : prim) : tres value :=
  if i =? hid_Date then read_date rs p
  else if i =? hid_Rectangle then read_rectangle rs p
  else if i =? hid_Matrix then read_matrix rs p
  else if i =? hid_Action then read_action rs p
  else if i =? hid_NameTreePrim then read_nametree rs p
  else if i =? hid_PagesRc then read_pagesrc rs p
  else if i =? hid_Encoding then read_encoding rs p
  else unmodelled.
Definition hand_write (i : N) (v : value) : tres prim :=
  if i =? hid_Date then write_date v
  else if i =? hid_Rectangle then write_numbers 4 v
  else if i =? hid_Matrix then write_numbers 6 v
  else if i =? hid_Action then write_action v
  else if i =? hid_NameTreePrim then write_nametree v
  else if i =? hid_PagesRc then write_pagesrc v
  else if i =? hid_Encoding then write_encoding v
  else unmodelled.
Definition hands : hand := {| h_read := hand_read; h_write := hand_write |}.
