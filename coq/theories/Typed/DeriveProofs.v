(** Typed/DeriveProofs.v — C15: every value of every type of the universe, over well-formed schemas, writes to a
    primitive that reads back to a value writing to the identical primitive. *)
From PdfV Require Import Base.Prelude Gen.Generated Typed.Prim Typed.Schema Typed.Derive Typed.DictProofs.

(** * generic list lemma *)
Lemma tmapM_rt {A B} (w : A -> tres B) (r : B -> tres A) (P : A -> Prop) :
  (forall a b, P a -> w a = TOk b -> exists a', r b = TOk a' /\ w a' = TOk b) ->
  forall l bs, Forall P l -> tmapM w l = TOk bs -> exists l', tmapM r bs = TOk l' /\ tmapM w l' = TOk bs.
Proof.
  intros Hrt. induction l as [|a l IH]; intros bs HP Hw; cbn [tmapM] in Hw.
  - inversion Hw. exists []. split; reflexivity.
  - inversion HP as [|? ? Pa Pl]. subst.
    destruct (w a) as [b| | |] eqn:Hwa; cbn [tbind] in Hw; try discriminate.
    destruct (tmapM w l) as [bs'| | |] eqn:Hwl; cbn [tbind] in Hw; try discriminate.
    inversion Hw. subst bs.
    destruct (Hrt a b Pa Hwa) as [a' [Hr Hw']]. destruct (IH bs' Pl eq_refl) as [l' [Hrl Hwl']].
    exists (a' :: l'). cbn [tmapM]. rewrite Hr, Hrl, Hw', Hwl'. split; reflexivity.
Qed.

(* on a list whose elements all read, the element loop of Vec<T> is the plain map *)
Lemma read_elems_tmapM rd l : forall vs, tmapM rd l = TOk vs -> read_elems rd l = TOk vs.
Proof.
  induction l as [|p l IH]; intros vs Hm; cbn [tmapM] in Hm; cbn [read_elems]; [exact Hm|].
  unfold read_elem. destruct (rd p) as [v| | |]; cbn [tbind] in Hm; try discriminate.
  destruct (tmapM rd l) as [vs'| | |]; cbn [tbind] in Hm; try discriminate. inversion Hm.
  cbn [tbind]. rewrite (IH vs' eq_refl). reflexivity.
Qed.

Lemma tmapM_nonempty {A B} (w : A -> tres B) l bs : tmapM w l = TOk bs -> bs <> [] -> l <> [].
Proof. intros H Hb Hl. subst l. cbn in H. inversion H. subst. apply Hb. reflexivity. Qed.

Lemma tmapM_empty {A B} (w : A -> tres B) l : tmapM w l = TOk [] -> l = [].
Proof.
  destruct l as [|a l]; [reflexivity|]. cbn [tmapM]. destruct (w a); cbn [tbind]; try discriminate.
  destruct (tmapM w l); cbn [tbind]; discriminate.
Qed.

(** * enum lookups *)
Lemma find_pair_spec n l : forall i r, find_pair n l i = Some r ->
  exists k x, r = i + N.of_nat k /\ nth_error l k = Some (x, n).
Proof.
  induction l as [|[x nm] l IH]; intros i r H; cbn [find_pair] in H; [discriminate|].
  destruct (beqb n nm) eqn:Hb.
  - inversion H. subst r. apply beqb_eq in Hb. subst nm. exists O, x. split; [cbn; lia|reflexivity].
  - destruct (IH _ _ H) as [k [y [Hr Hn]]]. exists (S k), y. split; [lia|exact Hn].
Qed.

Lemma find_pair_in n l : forall i k x, nth_error l k = Some (x, n) -> exists r, find_pair n l i = Some r.
Proof.
  induction l as [|[y nm] l IH]; intros i k x H; [destruct k; discriminate|].
  cbn [find_pair]. destruct (beqb n nm) eqn:Hb; [eexists; reflexivity|].
  destruct k as [|k]; cbn [nth_error] in H.
  - inversion H. subst. rewrite beqb_refl in Hb. discriminate.
  - eapply IH. exact H.
Qed.

Lemma find_disc_spec z l : forall i r, find_disc z l i = Some r ->
  exists k x, r = i + N.of_nat k /\ nth_error l k = Some (x, z).
Proof.
  induction l as [|[x d] l IH]; intros i r H; cbn [find_disc] in H; [discriminate|].
  destruct (z =? d)%Z eqn:Hb.
  - inversion H. subst r. apply Z.eqb_eq in Hb. subst d. exists O, x. split; [cbn; lia|reflexivity].
  - destruct (IH _ _ H) as [k [y [Hr Hn]]]. exists (S k), y. split; [lia|exact Hn].
Qed.

Lemma find_disc_in z l : forall i k x, nth_error l k = Some (x, z) -> exists r, find_disc z l i = Some r.
Proof.
  induction l as [|[y d] l IH]; intros i k x H; [destruct k; discriminate|].
  cbn [find_disc]. destruct (z =? d)%Z eqn:Hb; [eexists; reflexivity|].
  destruct k as [|k]; cbn [nth_error] in H.
  - inversion H. subst. rewrite Z.eqb_refl in Hb. discriminate.
  - eapply IH. exact H.
Qed.

Lemma to_nat_of_nat0 k : N.to_nat (0 + N.of_nat k) = k.
Proof. rewrite N.add_0_l. apply Nnat.Nat2N.id. Qed.

(** * types whose writer never yields Null *)
Fixpoint never_null (t : ty) : bool :=
  match t with
  | TI32 | TU32 | TUsize | TF32 | TBool | TName | TStr | TDict | TRef | TVec _ | TPair _ _
  | TStruct _ | TNameEnum _ | TIntEnum _ | TRcRef _ => true
  | TBox t0 | TMaybeRef t0 => never_null t0
  | _ => false
  end.

(* well-formed schema (pdf_derive's implicit requirements + what the round trip needs) *)
Definition schema_wf (s : schema) : bool :=
  head_wf s && fields_wf never_null (s_fields s) && key_fresh TypeKey (s_fields s)
  && forallb (fun c => key_fresh (fst c) (s_fields s)) (s_checks s).

Fixpoint fields_all (P : ty -> value -> Prop) (fs : list field) (vs : list value) : Prop :=
  match fs, vs with
  | fd :: fr, x :: vr => (normal fd = true -> P (f_ty fd) x) /\ fields_all P fr vr
  | _, _ => True
  end.

Lemma other_of_none fs : existsb f_other fs = false -> forall vs, other_of fs vs = [].
Proof.
  induction fs as [|fd fr IH]; intros H vs; [destruct vs; reflexivity|].
  cbn [existsb] in H. apply orb_false_iff in H. destruct H as [H1 H2].
  destruct vs as [|x vr]; cbn [other_of]; [reflexivity|]. rewrite H1. apply IH. exact H2.
Qed.

Lemma key_fresh_sym_get k fs fd : key_fresh k fs = true -> In fd fs -> normal fd = true -> beqb (f_key fd) k = false.
Proof.
  intros Hk Hin Hn. unfold key_fresh in Hk. rewrite forallb_forall in Hk. specialize (Hk fd Hin).
  rewrite Hn in Hk. cbn [negb orb] in Hk. apply negb_true_iff in Hk. rewrite beqb_sym. exact Hk.
Qed.

Section RT.
Variable SC : schemas.
Variable H : hand.
Variable allow : bool.
Variable E : env.
Variable hand_ok : N -> value -> Prop.
Hypothesis hand_law : forall i x p, hand_ok i x -> h_write H i x = TOk p ->
  exists x', h_read H i (resolve E) p = TOk x' /\ h_write H i x' = TOk p.

Notation rd := (read SC H allow E).
Notation wr := (write SC H).

Lemma never_null_write : forall f t x, never_null t = true -> wr f t x <> TOk PNull.
Proof.
  induction f as [|f IH]; intros t x Hn Hw; [discriminate|].
  destruct t; try discriminate Hn; cbn [never_null] in Hn.
  all: try (destruct x; cbn [write] in Hw; try discriminate; fail).
  - (* u32 *) destruct x; cbn [write] in Hw; try discriminate. unfold write_unsigned in Hw. destruct (_ <=? _)%Z; discriminate.
  - destruct x; cbn [write] in Hw; try discriminate. unfold write_unsigned in Hw. destruct (_ <=? _)%Z; discriminate.
  - (* vec *) destruct x; cbn [write] in Hw; try discriminate. destruct (tmapM _ _); discriminate.
  - (* pair *) destruct x; cbn [write] in Hw; try discriminate.
    destruct (wr f t1 x1); cbn [tbind] in Hw; try discriminate. destruct (wr f t2 x2); cbn [tbind] in Hw; discriminate.
  - (* box *) cbn [write] in Hw. eapply IH; eassumption.
  - (* mayberef *) destruct x; cbn [write] in Hw; try discriminate. eapply IH; eassumption.
  - (* struct *) destruct x; cbn [write] in Hw; try discriminate. destruct (get_struct SC i); [|discriminate].
    apply write_fields_dict in Hw. destruct Hw as [dw Hd]. discriminate.
  - (* name enum *) destruct x; cbn [write] in Hw; try discriminate; destruct (get_nenum SC i); try discriminate.
    + destruct (nth_error _ _) as [[? ?]|]; discriminate.
    + destruct (ne_other n); discriminate.
  - destruct x; cbn [write] in Hw; try discriminate; destruct (get_ienum SC i); try discriminate.
    destruct (nth_error _ _) as [[? ?]|]; discriminate.
Qed.

(* what a value must satisfy for the round trip: references it holds resolve; a MaybeRef::Direct payload does not
   write to a reference; unsigned numbers are non-negative; a catch-all dictionary does not contain field keys;
   the schemas reached are well-formed *)
Fixpoint val_ok (f : nat) (chain : list (N * N)) (t : ty) (v : value) {struct f} : Prop :=
  match f with
  | O => False
  | S f' =>
    match t, v with
    | TU32, VInt z | TUsize, VInt z => (0 <= z)%Z
    | TOption t0, VSome x => val_ok f' chain t0 x
    | TVec t0, VVec l => Forall (val_ok f' chain t0) l
    | TMap t0, VMap l => Forall (fun kv => val_ok f' chain t0 (snd kv)) l
    | TPair a b, VPair x y => val_ok f' chain a x /\ val_ok f' chain b y
    | TBox t0, x => val_ok f' chain t0 x
    | TMaybeRef t0, VDirect x => val_ok f' chain t0 x /\ forall p, wr f' t0 x = TOk p -> is_ref p = false
    | TMaybeRef t0, VIndirect i g _ | TRcRef t0, VIndirect i g _ =>
      exists v0, rd (S f') chain (TRcRef t0) (PRef i g) = TOk v0
    | TStruct i, VStruct vs =>
      match get_struct SC i with
      | Some s => schema_wf s = true
                  /\ (forall fd, In fd (s_fields s) -> normal fd = true -> dget (f_key fd) (other_of (s_fields s) vs) = None)
                  /\ fields_all (val_ok f' chain) (s_fields s) vs
      | None => False
      end
    | THand i, x => hand_ok i x
    | _, _ => True
    end
  end.

Lemma get_shape f chain t0 i g v :
  rd (S f) chain (TRcRef t0) (PRef i g) = TOk v -> exists v0, v = VIndirect i g v0.
Proof.
  cbn [read]. destruct (chain_has i g chain); [discriminate|].
  destruct (tdo q <- resolve E i; rd f ((i, g) :: chain) t0 q); try discriminate.
  intros Hx. inversion Hx. eexists. reflexivity.
Qed.

Theorem value_rt : forall f chain t v p, val_ok f chain t v -> wr f t v = TOk p ->
  exists v', rd f chain t p = TOk v' /\ wr f t v' = TOk p.
Proof.
  induction f as [|f IH]; intros chain t v p Hok Hw; [destruct Hok|].
  destruct t.
  - (* i32 *) destruct v; cbn [write] in Hw; try discriminate. inversion Hw. subst p. exists (VInt z). split; reflexivity.
  - (* u32 *) destruct v; cbn [write] in Hw; try discriminate. cbn [val_ok] in Hok.
    unfold write_unsigned in Hw. destruct (z <=? 2147483647)%Z eqn:Hz; [|discriminate]. inversion Hw. subst p.
    exists (VInt z). cbn [read as_u32 tmap write]. apply Z.leb_le in Hok. rewrite Hok. cbn [tmap]. unfold write_unsigned. rewrite Hz. split; reflexivity.
  - (* usize *) destruct v; cbn [write] in Hw; try discriminate. cbn [val_ok] in Hok.
    unfold write_unsigned in Hw. destruct (z <=? 2147483647)%Z eqn:Hz; [|discriminate]. inversion Hw. subst p.
    exists (VInt z). cbn [read as_u32 tmap write]. apply Z.leb_le in Hok. rewrite Hok. cbn [tmap]. unfold write_unsigned. rewrite Hz. split; reflexivity.
  - (* f32 *) destruct v; cbn [write] in Hw; try discriminate. inversion Hw. subst p. exists (VF32 bits). split; reflexivity.
  - (* bool *) destruct v; cbn [write] in Hw; try discriminate. inversion Hw. subst p. exists (VBool b). split; reflexivity.
  - (* name *) destruct v; cbn [write] in Hw; try discriminate. inversion Hw. subst p. exists (VName s). split; reflexivity.
  - (* string *) destruct v; cbn [write] in Hw; try discriminate. inversion Hw. subst p. exists (VStr s). split; reflexivity.
  - (* primitive *) destruct v; cbn [write] in Hw; try discriminate. inversion Hw. subst p0. exists (VPrim p). split; reflexivity.
  - (* dictionary *) destruct v; cbn [write] in Hw; try discriminate. inversion Hw. subst p. exists (VDict d). split; reflexivity.
  - (* ref *) destruct v; cbn [write] in Hw; try discriminate. inversion Hw. subst p. exists (VRef i g). split; reflexivity.
  - (* unit *) destruct v; cbn [write] in Hw; try discriminate. inversion Hw. subst p. exists VUnit. split; reflexivity.
  - (* option *)
    destruct v; cbn [write] in Hw; try discriminate.
    + inversion Hw. subst p. exists VNone. split; reflexivity.
    + cbn [val_ok] in Hok. destruct (IH chain t v p Hok Hw) as [x' [Hr Hw']].
      destruct p; try (exists (VSome x'); cbn [read write]; rewrite Hr; split; [reflexivity|exact Hw']).
      exists VNone. split; reflexivity.
  - (* vec *)
    destruct v; cbn [write] in Hw; try discriminate. cbn [val_ok] in Hok.
    destruct (tmapM (wr f t) l) as [ps| | |] eqn:Hm; cbn [tmap] in Hw; try discriminate. inversion Hw. subst p.
    destruct (tmapM_rt (wr f t) (rd f chain t) (val_ok f chain t) (fun a b Pa Hb => IH chain t a b Pa Hb) l ps Hok Hm) as [l' [Hr Hw']].
    exists (VVec l'). cbn [read write]. rewrite (read_elems_tmapM _ _ _ Hr), Hw'. split; reflexivity.
  - (* map *)
    destruct v; cbn [write] in Hw; try discriminate. cbn [val_ok] in Hok.
    destruct l as [|kv l].
    + inversion Hw. subst p. exists (VMap []). split; reflexivity.
    + set (w := fun kv : bytes * value => tdo q <- wr f t (snd kv); TOk (fst kv, q)) in *.
      set (r := fun kp : bytes * prim => tdo x <- rd f chain t (snd kp); TOk (fst kp, x)).
      destruct (tmapM w (kv :: l)) as [d| | |] eqn:Hm; cbn [tmap] in Hw; try discriminate. inversion Hw. subst p.
      assert (Hrt : forall a b, val_ok f chain t (snd a) -> w a = TOk b -> exists a', r b = TOk a' /\ w a' = TOk b).
      { intros [k x] b Pa Hb. unfold w in Hb. cbn [fst snd] in Hb, Pa.
        destruct (wr f t x) as [q| | |] eqn:Hq; cbn [tbind] in Hb; try discriminate. inversion Hb. subst b.
        destruct (IH chain t x q Pa Hq) as [x' [Hr Hw']]. exists (k, x'). unfold r, w. cbn [fst snd]. rewrite Hr, Hw'. split; reflexivity. }
      destruct (tmapM_rt w r (fun a => val_ok f chain t (snd a)) Hrt (kv :: l) d Hok Hm) as [l' [Hr Hw']].
      exists (VMap l'). cbn [read write]. fold r. rewrite Hr. cbn [tmap]. split; [reflexivity|].
      fold w. destruct l' as [|a l']; [|rewrite Hw'; reflexivity].
      cbn [tmapM] in Hw'. inversion Hw'. subst d. apply tmapM_empty in Hm. discriminate.
  - (* pair *)
    destruct v; cbn [write] in Hw; try discriminate. cbn [val_ok] in Hok. destruct Hok as [Ha Hb].
    destruct (wr f t1 v1) as [p1| | |] eqn:H1; cbn [tbind] in Hw; try discriminate.
    destruct (wr f t2 v2) as [p2| | |] eqn:H2; cbn [tbind] in Hw; try discriminate. inversion Hw. subst p.
    destruct (IH chain t1 v1 p1 Ha H1) as [x1 [Hr1 Hw1]]. destruct (IH chain t2 v2 p2 Hb H2) as [x2 [Hr2 Hw2]].
    exists (VPair x1 x2). cbn [read write into_array tbind]. rewrite Hr1, Hr2, Hw1, Hw2. split; reflexivity.
  - (* box *)
    assert (Hw0 : wr f t v = TOk p) by (destruct v; exact Hw).
    assert (Hok0 : val_ok f chain t v) by (destruct v; exact Hok).
    destruct (IH chain t v p Hok0 Hw0) as [x' [Hr Hw']]. exists x'. split; [exact Hr|].
    destruct x'; exact Hw'.
  - (* mayberef *)
    destruct v; cbn [write] in Hw; try discriminate.
    + cbn [val_ok] in Hok. destruct Hok as [Hok Hnr]. specialize (Hnr p Hw).
      destruct (IH chain t v p Hok Hw) as [x' [Hr Hw']].
      destruct p; try discriminate Hnr; exists (VDirect x'); cbn [read write]; rewrite Hr; (split; [reflexivity|exact Hw']).
    + inversion Hw. subst p. cbn [val_ok] in Hok. destruct Hok as [v0 Hv0].
      destruct (get_shape _ _ _ _ _ _ Hv0) as [v1 Hv1]. subst v0. exists (VIndirect i g v1). split; [exact Hv0|reflexivity].
  - (* rcref *)
    destruct v; cbn [write] in Hw; try discriminate.
    inversion Hw. subst p. cbn [val_ok] in Hok. destruct Hok as [v0 Hv0].
    destruct (get_shape _ _ _ _ _ _ Hv0) as [v1 Hv1]. subst v0. exists (VIndirect i g v1). split; [exact Hv0|reflexivity].
  - (* lazy *) destruct v; cbn [write] in Hw; try discriminate. inversion Hw. subst p0. exists (VPrim p). split; reflexivity.
  - (* struct *)
    destruct v; cbn [write] in Hw; try discriminate. cbn [val_ok] in Hok.
    destruct (get_struct SC i) as [s|] eqn:Hs; [|destruct Hok]. destruct Hok as [Hwf [Hfresh Hall]].
    destruct (write_fields_dict _ _ _ _ _ Hw) as [dw Hd]. subst p.
    unfold schema_wf in Hwf. apply andb_true_iff in Hwf. destruct Hwf as [Hwf Hck].
    apply andb_true_iff in Hwf. destruct Hwf as [Hwf Htk]. apply andb_true_iff in Hwf. destruct Hwf as [Hhead Hfwf].
    set (B := base_of s fs) in *.
    assert (HB : forall fd, In fd (s_fields s) -> normal fd = true -> dget (f_key fd) B = None).
    { intros fd Hin Hn. unfold B. rewrite base_of_from, base_from_get_other.
      - apply Hfresh; assumption.
      - eapply key_fresh_sym_get; eassumption.
      - rewrite forallb_forall in Hck |- *. intros c Hc. apply negb_true_iff.
        eapply key_fresh_sym_get; [apply Hck; exact Hc|exact Hin|exact Hn]. }
    assert (Hrt : fields_rt (rd f chain) (wr f) (s_fields s) fs).
    { clear - IH Hall. revert fs Hall. induction (s_fields s) as [|fd fr IHf]; intros [|x vr] Hall; cbn [fields_rt]; try exact I.
      cbn [fields_all] in Hall. destruct Hall as [H1 H2]. split; [|apply IHf; exact H2].
      intros Hn q Hq. apply (IH chain (f_ty fd) x q); [apply H1; exact Hn|exact Hq]. }
    destruct (rt_fields (rd f chain) (wr f) never_null (never_null_write f) (s_fields s) Hfwf fs B dw [] HB Hw Hrt)
      as [vs' [Hr [Hsame Hoth]]].
    cbn [rev app] in Hr.
    exists (VStruct vs'). cbn [read write]. rewrite Hs. cbn [read_dict tbind].
    assert (Hchk : read_checks s dw = TOk tt).
    { unfold read_checks.
      assert (Ht : (if s_tmode s =? 0 then TOk tt else expect dw TypeKey (s_type s) (s_tmode s =? 2)) = TOk tt).
      { destruct (s_tmode s =? 0) eqn:Hm; [reflexivity|]. apply expect_ok.
        rewrite (write_fields_get _ _ _ Htk _ _ _ Hw). unfold B. rewrite base_of_from. apply base_from_type; assumption. }
      rewrite Ht. cbn [tbind]. apply expect_all_ok. intros k v Hin.
      rewrite forallb_forall in Hck. pose proof (Hck (k, v) Hin) as Hkf. cbn [fst] in Hkf. rewrite (write_fields_get _ _ _ Hkf _ _ _ Hw).
      unfold B. rewrite base_of_from. eapply base_from_check; eassumption. }
    rewrite Hchk. cbn [tbind]. rewrite Hr. split; [reflexivity|].
    assert (HB' : base_of s vs' = B).
    { rewrite base_of_from. destruct (existsb f_other (s_fields s)) eqn:Hex.
      - rewrite (Hoth eq_refl). unfold B. rewrite base_of_from. apply base_from_idem. exact Hhead.
      - rewrite (other_of_none _ Hex). unfold B. rewrite base_of_from, (other_of_none _ Hex). reflexivity. }
    rewrite HB'. rewrite (write_fields_ext _ _ _ _ Hsame). exact Hw.
  - (* name enum *)
    destruct v; cbn [write] in Hw; try discriminate; destruct (get_nenum SC i) as [e|] eqn:He; try discriminate.
    + destruct (nth_error (ne_pairs e) (N.to_nat idx)) as [[x nm]|] eqn:Hn; [|discriminate]. inversion Hw. subst p.
      destruct (find_pair_in nm _ 0 _ _ Hn) as [r Hr]. destruct (find_pair_spec _ _ _ _ Hr) as [k [y [Hrk Hy]]].
      exists (VEnum r). cbn [read write]. rewrite He. cbn [tbind]. rewrite Hr. split; [reflexivity|]. subst r. rewrite to_nat_of_nat0, Hy. reflexivity.
    + destruct (ne_other e) eqn:Ho; [|discriminate]. inversion Hw. subst p.
      destruct (find_pair s (ne_pairs e) 0) as [r|] eqn:Hr.
      * destruct (find_pair_spec _ _ _ _ Hr) as [k [y [Hrk Hy]]].
        exists (VEnum r). cbn [read write]. rewrite He. cbn [tbind]. rewrite Hr. split; [reflexivity|]. subst r. rewrite to_nat_of_nat0, Hy. reflexivity.
      * exists (VEnumOther s). cbn [read write]. rewrite He. cbn [tbind]. rewrite Hr, Ho. split; reflexivity.
  - (* int enum *)
    destruct v; cbn [write] in Hw; try discriminate; destruct (get_ienum SC i) as [e|] eqn:He; try discriminate.
    destruct (nth_error (ie_variants e) (N.to_nat idx)) as [[x d]|] eqn:Hn; [|discriminate]. inversion Hw. subst p.
    destruct (find_disc_in d _ 0 _ _ Hn) as [r Hr]. destruct (find_disc_spec _ _ _ _ Hr) as [k [y [Hrk Hy]]].
    exists (VEnum r). cbn [read write]. rewrite He. cbn [tbind]. rewrite Hr. split; [reflexivity|]. subst r. rewrite to_nat_of_nat0, Hy. reflexivity.
  - (* hand-written *)
    assert (Hw0 : h_write H i v = TOk p) by (destruct v; exact Hw).
    assert (Hok0 : hand_ok i v) by (destruct v; exact Hok).
    destruct (hand_law i v p Hok0 Hw0) as [x' [Hr Hw']]. exists x'. split; [exact Hr|]. destruct x'; exact Hw'.
Qed.

End RT.

(** * unrecognised entries: the writer half — an entry of the catch-all dictionary whose key is neither a field key
      nor /Type nor a checked key is written back verbatim *)
Theorem write_keeps_unknown SC H f i s vs dw k :
  get_struct SC i = Some s -> schema_wf s = true ->
  write SC H (S f) (TStruct i) (VStruct vs) = TOk (PDict dw) ->
  key_fresh k (s_fields s) = true -> beqb k TypeKey = false ->
  forallb (fun c => negb (beqb k (fst c))) (s_checks s) = true ->
  dget k dw = dget k (other_of (s_fields s) vs).
Proof.
  intros Hs Hwf Hw Hk Ht Hc. cbn [write] in Hw. rewrite Hs in Hw.
  rewrite (write_fields_get _ _ _ Hk _ _ _ Hw). rewrite base_of_from. apply base_from_get_other; assumption.
Qed.

(** * the schemas of the Rust sources as they are now (computed on Gen.Generated on every run) *)
Definition has_indirect (s : schema) : bool := existsb f_indirect (s_fields s).
Definition rw (s : schema) : bool := s_read s && s_write s.

Lemma generated_wf :
  forallb (fun s => negb (rw s) || has_indirect s || schema_wf s) (structs gen_schemas) = true.
Proof. vm_compute. reflexivity. Qed.

(* the structs with an `indirect` field (written through the Updater: Derive.write_top) are never nested by value in
   another derived type, so the pure writer never meets them below the top level *)
Fixpoint mentions_struct (fuel : nat) (j : N) (t : ty) : bool :=
  match fuel with
  | O => true
  | S f =>
    match t with
    | TStruct i => i =? j
    | TOption t0 | TVec t0 | TMap t0 | TBox t0 | TMaybeRef t0 => mentions_struct f j t0
    | TPair a b => mentions_struct f j a || mentions_struct f j b
    | _ => false      (* RcRef / Lazy / Ref hold references, not values *)
    end
  end.

Definition indirect_not_nested (SC : schemas) : bool :=
  forallb (fun js => negb (has_indirect (snd js)) ||
     forallb (fun s => forallb (fun fd => negb (mentions_struct 16 (fst js) (f_ty fd))) (s_fields s)) (structs SC))
    (combine (map N.of_nat (seq 0 (length (structs SC)))) (structs SC)).

Lemma generated_indirect_not_nested : indirect_not_nested gen_schemas = true.
Proof. vm_compute. reflexivity. Qed.

(* `indirect` fields are Option<MaybeRef<_>> (the re-read value holds the reference: no second allocation) or
   Option<struct> (Trailer.Info: the object is created anew, the reference number differs, its content is equal) *)
Lemma generated_indirect_fields :
  forallb (fun s => forallb (fun fd => negb (f_indirect fd) ||
      match f_ty fd with TOption (TMaybeRef _) | TOption (TStruct _) => true | _ => false end) (s_fields s))
    (structs gen_schemas) = true.
Proof. vm_compute. reflexivity. Qed.
