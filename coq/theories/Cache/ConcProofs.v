(** Cache/ConcProofs.v — proofs about the interleaving model Cache/Conc.v (property C13).

    Positive result: with the guard keyed by thread ([per_thread c = true]) and an acyclic document, every
    schedule of every set of reader threads gives each thread exactly the sequential answers, never panics,
    never poisons the chain mutex, never aborts and never deadlocks ([conc_per_thread_chain]).
    Negative results: with the shared guard stack the same programs yield a spurious "Recursive reference"
    error, a poisoned mutex with panics in both threads, or a process abort; and with cyclic eager references
    the cache protocol deadlocks even with the fixed guard. *)
From PdfV Require Import Base.Prelude Gen.Generated Cache.Model Cache.Conc Cache.Proofs.

(** The sequential answer of a typed call is the chain-free, cache-free denotation [D prog rank ty r] of
    Cache/Proofs.v (property C12): what get::<ty>(r) returns when it runs alone. *)
Definition call_ans (seq : tytag -> ref -> outcome) (cl : tcall) : outcome := seq (fst cl) (snd cl).

(** the answer of a program item: a lazy cell answers what the typed get of the reference it holds answers *)
Definition lazy_seq (cells : N -> tcall) (seq : tytag -> ref -> outcome) : tytag -> ref -> outcome :=
  fun ty r => if ty =? LAZY then seq (fst (cells r)) (snd (cells r)) else seq ty r.

Definition prefix_ok (seq : tytag -> ref -> outcome) (calls : list tcall) (res : list outcome) : Prop :=
  exists k, res = map (call_ans seq) (firstn k calls).

Definition state_ok (c : ccfg) (seq : tytag -> ref -> outcome) (progs : list (list tcall)) (g : gstate) : Prop :=
  aborted g = false /\ (forall rs, poisoned g rs = false) /\
  (forall t, prefix_ok seq (nth t progs []) (results (threads g t))) /\
  (forall t, finished g t = true -> results (threads g t) = map (call_ans seq) (nth t progs [])) /\
  deadlocked c g (length progs) = false.

Definition conc_statement (c : ccfg) (prog : tytag -> ref -> comp) (cells : N -> tcall)
           (seq : tytag -> ref -> outcome) : Prop :=
  forall progs sched, state_ok c seq progs (run_sched c prog cells (ginit cells progs) sched).

(** * generic list facts *)

Lemma split_last_app l x : split_last (l ++ [x]) = Some (l, x).
Proof.
  induction l as [|a l IH]; [reflexivity|].
  cbn [app split_last]. rewrite IH.
  destruct (l ++ [x]) as [|y l'] eqn:E; [|reflexivity].
  apply app_eq_nil in E. destruct E as [_ E]. discriminate E.
Qed.

Lemma map_prefix {A B} (f : A -> B) (l1 l2 : list B) (l : list A) :
  l1 ++ l2 = map f l -> l1 = map f (firstn (length l1) l).
Proof.
  intros H. apply (f_equal (firstn (length l1))) in H.
  rewrite firstn_app, firstn_all, Nat.sub_diag, firstn_O, app_nil_r, firstn_map in H. exact H.
Qed.

Lemma first_enabled_none c g : forall n s,
  first_enabled c g n s = None -> forall t, (s <= t < s + n)%nat -> enabled c g t = false.
Proof.
  induction n as [|n IH]; intros s H t Ht; [lia|].
  cbn [first_enabled] in H.
  destruct (enabled c g s) eqn:E; [discriminate H|].
  destruct (Nat.eq_dec t s) as [->|Hne]; [exact E|].
  apply (IH (S s) H). lia.
Qed.

Lemma forallb_false {A} (f : A -> bool) l :
  forallb f l = false -> exists x, In x l /\ f x = false.
Proof.
  induction l as [|a l IH]; cbn [forallb]; intros H; [discriminate H|].
  destruct (f a) eqn:E.
  - cbn [andb] in H. destruct (IH H) as (x & Hi & Hx). exists x. split; [right; exact Hi|exact Hx].
  - exists a. split; [left; reflexivity|exact E].
Qed.

Lemma all_finished_false g n :
  all_finished g n = false -> exists t, (t < n)%nat /\ finished g t = false.
Proof.
  unfold all_finished. intros H. apply forallb_false in H.
  destruct H as (t & Hi & Ht). exists t. split; [|exact Ht].
  apply in_seq in Hi. lia.
Qed.

(** * the once-cells of the lazily loaded references: exactly one publication per cell

    A cell changes only along  Empty -> Init t -> Full / Empty  (top_done, start): it is never overwritten once
    it is full — in every step of every thread, whatever the state (no invariant needed). *)
Lemma start_keeps_full cells t : forall td res cs th' cs' i o,
  start cells t td res cs = (th', cs') -> cs i = CFull o -> cs' i = CFull o.
Proof.
  induction td as [|[ty r] rest IH]; intros res cs th' cs' i o Hs Hi; cbn [start] in Hs.
  - inversion Hs; subst. exact Hi.
  - destruct (ty =? LAZY).
    + destruct (cs r) as [|t2|o2] eqn:Ecs.
      * inversion Hs; subst. unfold updN. destruct (N.eqb_spec i r) as [->|Hn]; [|exact Hi].
        rewrite Hi in Ecs. discriminate Ecs.
      * inversion Hs; subst. exact Hi.
      * exact (IH _ _ _ _ _ _ Hs Hi).
    + inversion Hs; subst. exact Hi.
Qed.

(** * the invariant of the fixed guard on an acyclic document *)
Section Safe.
  Variable c : ccfg.
  Variable prog : tytag -> ref -> comp.
  Variable cells : N -> tcall.
  Variable rank : ref -> nat.
  Hypothesis Hpt : per_thread c = true.
  Hypothesis Hac : acyclic prog rank.
  Variable progs : list (list tcall).

  Notation D := (Proofs.D prog rank).
  Notation evD := (evalD prog rank).
  Notation bnd := (bounded rank).
  Notation Dc := (call_ans (lazy_seq cells D)).
  Notation Dcell := (fun i : N => D (fst (cells i)) (snd (cells i))).

  Lemma D_eval ty r : D ty r = evD (prog ty r).
  Proof. apply cache_D_unfold. exact Hac. Qed.

  Lemma Dc_lazy ty i : (ty =? LAZY) = true -> Dc (ty, i) = Dcell i.
  Proof. intros H. unfold call_ans, lazy_seq. cbn [fst snd]. rewrite H. reflexivity. Qed.

  Lemma Dc_plain ty r : (ty =? LAZY) = false -> Dc (ty, r) = D ty r.
  Proof. intros H. unfold call_ans, lazy_seq. cbn [fst snd]. rewrite H. reflexivity. Qed.

  (* the frames below a frame of the call get::<cty>(child), down to the top-level call, whose answer is [ob] *)
  Fixpoint lower_ok (child : ref) (cty : tytag) (st : list frame) (ob : outcome) : Prop :=
    match st with
    | [] => D cty child = ob
    | (r, ty, p) :: rest =>
        match p with
        | InCall _ k => (rank child < rank r)%nat /\ (forall o, bnd (rank r) (k o)) /\
                      evD (k (D cty child)) = D ty r /\ lower_ok r ty rest ob
        | _ => False
        end
    end.

  (* a value or error found in the cache ([AtHit]) is the answer of the type it was computed as — whatever that
     type and whatever the error kind; everything this call computed itself is the answer of its own type *)
  Definition top_ok (p : pc) (r : ref) (ty : tytag) : Prop :=
    match p with
    | AtEnter | AtPushed => True
    | InCall _ _ => False
    | AtHit ty' o => o = D ty' r
    | AtPublish o | AtCached o | AtLeave o => o = D ty r
    end.

  Definition pushed (p : pc) : bool := match p with AtEnter => false | _ => true end.

  (* thread t: no open call (finished, or in front of a lazy cell another thread initialises, or not started):
     nothing pushed, initialiser of nothing; an open call: its answer will be [ob]; if it is the load of a lazy
     cell, the cell is marked as being initialised by t *)
  Definition thread_ok (t : tid) (calls : list tcall) (th : thread) (ch : list ref) (cs : N -> cstate) : Prop :=
    match stack th with
    | [] => results th ++ map Dc (todo th) = map Dc calls /\ ch = [] /\ lazy th = None
    | (r, ty, p) :: rest =>
        exists ob, top_ok p r ty /\ lower_ok r ty rest ob /\
          results th ++ ob :: map Dc (todo th) = map Dc calls /\
          ch = rev (map fref rest) ++ (if pushed p then [r] else []) /\
          (forall i, lazy th = Some i -> cs i = CInit t /\ ob = Dcell i)
    end.

  (* the frames that have to publish an entry: the compute closure, not the uncached re-load *)
  Definition is_owner (p : pc) : bool :=
    match p with InCall fb _ => negb fb | AtPublish _ => true | _ => false end.
  Definition owns (st : list frame) (r : ref) : Prop := exists ty p, In (r, ty, p) st /\ is_owner p = true.

  Record Inv (g : gstate) : Prop := {
    inv_ab : aborted g = false;
    inv_po : forall rs, poisoned g rs = false;
    inv_ca : forall r ty o, cache g r = Some (Computed ty o) -> o = D ty r;
    inv_th : forall t, thread_ok t (nth t progs []) (threads g t) (chains g (res_of c t) (tkey c t)) (cellst g);
    inv_ow : forall r, cache g r = Some InProcess ->
                       cache_on c = true /\ exists t, owns (stack (threads g t)) r;
    (* the once-cells: what is published is the sequential answer of the cell; a cell that is being
       initialised has exactly the initialiser recorded in it, and that thread is inside the cell's load *)
    inv_cf : forall i o, cellst g i = CFull o -> o = Dcell i;
    inv_ci : forall i t, cellst g i = CInit t -> stack (threads g t) <> [] /\ lazy (threads g t) = Some i
  }.

  Lemma lower_rank : forall rest r ty ob x,
    lower_ok r ty rest ob -> In x (map fref rest) -> (rank r < rank x)%nat.
  Proof.
    induction rest as [|[[r1 ty1] p1] rest IH]; intros r ty ob x H Hin; cbn [map In fref fst lower_ok] in *; [contradiction|].
    destruct p1; try contradiction.
    destruct H as (H1 & _ & _ & H4).
    destruct Hin as [<-|Hin]; [exact H1|].
    specialize (IH _ _ _ _ H4 Hin). lia.
  Qed.

  Lemma not_in_chain r ty rest ob : lower_ok r ty rest ob -> memN r (rev (map fref rest)) = false.
  Proof.
    intros H. destruct (memN r (rev (map fref rest))) eqn:E; [|reflexivity].
    apply memN_In in E. apply in_rev in E. apply (lower_rank _ _ _ _ _ H) in E. lia.
  Qed.

  Lemma advance_ok fb r ty p rest ob :
    bnd (rank r) p -> evD p = D ty r -> lower_ok r ty rest ob ->
    exists r2 ty2 p2 rest2, advance c fb r ty p rest = (r2, ty2, p2) :: rest2 /\ top_ok p2 r2 ty2 /\
      lower_ok r2 ty2 rest2 ob /\
      rev (map fref rest2) ++ (if pushed p2 then [r2] else []) = rev (map fref rest) ++ [r].
  Proof.
    intros Hb He Hl. destruct p as [o|ty' r' k]; cbn [advance].
    - exists r, ty, (if fb then AtLeave o else if cache_on c then AtPublish o else AtCached o), rest.
      cbn [evalD] in He. destruct fb; [|destruct (cache_on c)]; cbn [top_ok pushed]; auto.
    - exists r', ty', AtEnter, ((r, ty, InCall fb k) :: rest).
      cbn [bounded] in Hb. destruct Hb as [Hr Hk]. cbn [evalD] in He.
      cbn [top_ok pushed lower_ok map fref fst rev]. rewrite app_nil_r. auto 10.
  Qed.

  Lemma owns_cons f st x : owns st x -> owns (f :: st) x.
  Proof. intros (ty & p & Hi & Ho). exists ty, p. split; [right; exact Hi|exact Ho]. Qed.

  Lemma owns_tail r ty p st x : owns ((r, ty, p) :: st) x -> is_owner p = false \/ x <> r -> owns st x.
  Proof.
    intros (ty' & p' & Hi & Ho) Hn. destruct Hi as [E|Hi]; [|exists ty', p'; auto].
    inversion E; subst. destruct Hn as [Hn|Hn]; [congruence|contradiction].
  Qed.

  Lemma owns_advance r ty p rest : cache_on c = true -> owns (advance c false r ty p rest) r.
  Proof.
    intros Hc. destruct p as [o|ty' r' k]; cbn [advance].
    - rewrite Hc. exists ty, (AtPublish o). split; [left; reflexivity|reflexivity].
    - exists ty, (InCall false k). split; [right; left; reflexivity|reflexivity].
  Qed.

  Lemma owns_advance_rest fb r ty p rest x : owns rest x -> owns (advance c fb r ty p rest) x.
  Proof.
    intros H. destruct p as [o|ty' r' k]; cbn [advance]; repeat apply owns_cons; exact H.
  Qed.

  Lemma owns_nil x : ~ owns [] x.
  Proof. intros (ty & p & Hi & _). destruct Hi. Qed.

  Lemma advance_nonempty fb r ty p rest : advance c fb r ty p rest <> [].
  Proof. destruct p; cbn [advance]; discriminate. Qed.

  Lemma chain_frame (ch : N -> N -> list ref) t t' x : t' <> t ->
    updN ch (res_of c t) (updN (ch (res_of c t)) (tkey c t) x) (res_of c t') (tkey c t') =
    ch (res_of c t') (tkey c t').
  Proof.
    intros Hne. unfold updN.
    destruct (N.eqb_spec (res_of c t') (res_of c t)) as [E|E]; [|reflexivity].
    rewrite E. destruct (N.eqb_spec (tkey c t') (tkey c t)) as [E2|E2]; [|reflexivity].
    unfold tkey in E2. rewrite Hpt in E2. lia.
  Qed.

  Lemma chain_self (ch : N -> N -> list ref) t x :
    updN ch (res_of c t) (updN (ch (res_of c t)) (tkey c t) x) (res_of c t) (tkey c t) = x.
  Proof. unfold updN. rewrite !N.eqb_refl. reflexivity. Qed.

  Lemma upd_same {A} (f : tid -> A) t x : upd f t x t = x.
  Proof. unfold upd. rewrite Nat.eqb_refl. reflexivity. Qed.

  Lemma upd_other {A} (f : tid -> A) t t' x : t' <> t -> upd f t x t' = f t'.
  Proof. intros H. unfold upd. apply Nat.eqb_neq in H. rewrite H. reflexivity. Qed.

  (* rebuilding the invariant after thread t moved *)
  Lemma Inv_update g t th' chains' cache' cs' :
    Inv g ->
    (forall t', t' <> t -> chains' (res_of c t') (tkey c t') = chains g (res_of c t') (tkey c t')) ->
    thread_ok t (nth t progs []) th' (chains' (res_of c t) (tkey c t)) cs' ->
    (forall r ty o, cache' r = Some (Computed ty o) -> o = D ty r) ->
    (forall r, cache' r = Some InProcess ->
               cache_on c = true /\ exists t2, owns (stack (upd (threads g) t th' t2)) r) ->
    (forall i o, cs' i = CFull o -> o = Dcell i) ->
    (forall i t2, cs' i = CInit t2 ->
                  stack (upd (threads g) t th' t2) <> [] /\ lazy (upd (threads g) t th' t2) = Some i) ->
    (forall t' i, t' <> t -> cellst g i = CInit t' -> cs' i = CInit t') ->
    Inv (mkG chains' (poisoned g) cache' (upd (threads g) t th') (aborted g) cs').
  Proof.
    intros HI Hfr Hth Hca How Hcf Hci Hoth.
    constructor; cbn [aborted poisoned cache threads chains cellst].
    - apply HI.
    - apply HI.
    - exact Hca.
    - intros t'. destruct (Nat.eq_dec t' t) as [->|Hne].
      + rewrite upd_same. exact Hth.
      + rewrite upd_other by exact Hne. rewrite Hfr by exact Hne.
        pose proof (inv_th g HI t') as H. unfold thread_ok in H |- *.
        destruct (stack (threads g t')) as [|[[r ty] p] rest]; [exact H|].
        destruct H as (ob & H1 & H2 & H3 & H4 & H5). exists ob. repeat split; try assumption.
        * apply Hoth; [exact Hne|]. apply (H5 i H).
        * apply (H5 i H).
    - exact How.
    - exact Hcf.
    - exact Hci.
  Qed.

  (* ... when the cells are untouched and t stays inside its open call *)
  Lemma Inv_update_same g t th' chains' cache' :
    Inv g ->
    stack (threads g t) <> [] -> stack th' <> [] -> lazy th' = lazy (threads g t) ->
    (forall t', t' <> t -> chains' (res_of c t') (tkey c t') = chains g (res_of c t') (tkey c t')) ->
    thread_ok t (nth t progs []) th' (chains' (res_of c t) (tkey c t)) (cellst g) ->
    (forall r ty o, cache' r = Some (Computed ty o) -> o = D ty r) ->
    (forall r, cache' r = Some InProcess ->
               cache_on c = true /\ exists t2, owns (stack (upd (threads g) t th' t2)) r) ->
    Inv (mkG chains' (poisoned g) cache' (upd (threads g) t th') (aborted g) (cellst g)).
  Proof.
    intros HI Hne Hne' Hlz Hfr Hth Hca How.
    apply Inv_update; try assumption.
    - apply HI.
    - intros i t2 Hi. destruct (inv_ci g HI i t2 Hi) as [Hs Hl].
      destruct (Nat.eq_dec t2 t) as [->|Hn2].
      + rewrite upd_same. split; [exact Hne'|]. rewrite Hlz. exact Hl.
      + rewrite upd_other by exact Hn2. auto.
    - auto.
  Qed.

  (* the owners when the cache is unchanged and the mover keeps what it owns *)
  Lemma owners_keep g t th' :
    Inv g ->
    (forall r, cache_on c = true -> owns (stack (threads g t)) r -> owns (stack th') r) ->
    forall r, cache g r = Some InProcess ->
              cache_on c = true /\ exists t2, owns (stack (upd (threads g) t th' t2)) r.
  Proof.
    intros HI Hk r Hr. destruct (inv_ow g HI r Hr) as (Hc & t2 & Ho). split; [exact Hc|].
    exists t2. destruct (Nat.eq_dec t2 t) as [->|Hne].
    - rewrite upd_same. apply Hk; assumption.
    - rewrite upd_other by exact Hne. exact Ho.
  Qed.

  (** the once-cell protocol: what [start] does *)
  Lemma start_spec t : forall td res cs th' cs' tot,
    start cells t td res cs = (th', cs') ->
    res ++ map Dc td = tot ->
    (forall i o, cs i = CFull o -> o = Dcell i) ->
    (stack th' = [] /\ lazy th' = None /\ cs' = cs /\
     results th' ++ map Dc (todo th') = tot) \/
    (exists r ty, stack th' = [(r, ty, AtEnter)] /\
       results th' ++ D ty r :: map Dc (todo th') = tot /\
       ((lazy th' = None /\ cs' = cs) \/
        (exists i, lazy th' = Some i /\ cs i = CEmpty /\ cs' = updN cs i (CInit t) /\ D ty r = Dcell i))).
  Proof.
    induction td as [|[ty r] rest IH]; intros res cs th' cs' tot Hs Htot Hcf; cbn [start] in Hs.
    - inversion Hs; subst. left. cbn [stack lazy results todo map]. auto.
    - assert (Hhead : Dc (ty, r) = if ty =? LAZY then Dcell r else D ty r) by reflexivity.
      cbn [map] in Htot. rewrite Hhead in Htot. clear Hhead.
      destruct (ty =? LAZY) eqn:Ety.
      + destruct (cs r) as [|t2|o] eqn:Ecs.
        * inversion Hs; subst. right. exists (snd (cells r)), (fst (cells r)).
          cbn [stack lazy results todo]. split; [reflexivity|]. split; [reflexivity|].
          right. exists r. auto.
        * inversion Hs; subst. left. cbn [stack lazy results todo map].
          split; [reflexivity|]. split; [reflexivity|]. split; [reflexivity|].
          assert (Hhead : Dc (ty, r) = if ty =? LAZY then Dcell r else D ty r) by reflexivity.
          rewrite Hhead, Ety. reflexivity.
        * apply (IH (res ++ [o]) cs th' cs' tot Hs); [|exact Hcf].
          rewrite <- Htot, <- (Hcf r o Ecs), <- app_assoc. reflexivity.
      + inversion Hs; subst. right. exists r, ty. cbn [stack lazy results todo].
        split; [reflexivity|]. split; [reflexivity|]. left. auto.
  Qed.

  (* thread t, which has no open call in g (or is leaving its last frame: it owns no cache entry), goes on *)
  Lemma Inv_start g t chains' td res cs0 th' cs' :
    Inv g ->
    start cells t td res cs0 = (th', cs') ->
    (forall t', t' <> t -> chains' (res_of c t') (tkey c t') = chains g (res_of c t') (tkey c t')) ->
    chains' (res_of c t) (tkey c t) = [] ->
    res ++ map Dc td = map Dc (nth t progs []) ->
    (forall x, ~ owns (stack (threads g t)) x) ->
    (forall i o, cs0 i = CFull o -> o = Dcell i) ->
    (forall i t2, cs0 i = CInit t2 -> t2 <> t /\ cellst g i = CInit t2) ->
    (forall t' i, t' <> t -> cellst g i = CInit t' -> cs0 i = CInit t') ->
    Inv (mkG chains' (poisoned g) (cache g) (upd (threads g) t th') (aborted g) cs').
  Proof.
    intros HI Hs Hfr Hch Hres Hno Hcf Hci Hoth.
    assert (How : forall r, cache g r = Some InProcess ->
                   cache_on c = true /\ exists t2, owns (stack (upd (threads g) t th' t2)) r).
    { intros r Hr. destruct (inv_ow g HI r Hr) as (Hc & t2 & Ho). split; [exact Hc|]. exists t2.
      destruct (Nat.eq_dec t2 t) as [->|Hne]; [exfalso; exact (Hno r Ho)|].
      rewrite upd_other by exact Hne. exact Ho. }
    destruct (start_spec t td res cs0 th' cs' _ Hs Hres Hcf) as [(Hst & Hlz & Ecs & Hr)|(r & ty & Hst & Hr & Hk)].
    - subst cs'. apply Inv_update; try assumption.
      + unfold thread_ok. rewrite Hst, Hch. auto.
      + apply HI.
      + intros i t2 Hi. destruct (Hci i t2 Hi) as [Hn Hg]. rewrite upd_other by exact Hn.
        exact (inv_ci g HI i t2 Hg).
    - destruct Hk as [[Hlz Ecs]|(i & Hlz & Hemp & Ecs & Hdi)].
      + subst cs'. apply Inv_update; try assumption.
        * unfold thread_ok. rewrite Hst, Hch. exists (D ty r). cbn [top_ok lower_ok pushed map rev app].
          split; [exact I|]. split; [reflexivity|]. split; [exact Hr|]. split; [reflexivity|].
          intros i Hi; rewrite Hlz in Hi; discriminate Hi.
        * apply HI.
        * intros i t2 Hi. destruct (Hci i t2 Hi) as [Hn Hg]. rewrite upd_other by exact Hn.
          exact (inv_ci g HI i t2 Hg).
      + subst cs'. apply Inv_update; try assumption.
        * unfold thread_ok. rewrite Hst, Hch. exists (D ty r). cbn [top_ok lower_ok pushed map rev app].
          split; [exact I|]. split; [reflexivity|]. split; [exact Hr|]. split; [reflexivity|].
          intros i' Hi'; rewrite Hlz in Hi'; injection Hi' as <-. split.
          -- unfold updN. rewrite N.eqb_refl. reflexivity.
          -- exact Hdi.
        * apply HI.
        * intros i' o. unfold updN. destruct (i' =? i); [discriminate|]. apply Hcf.
        * intros i' t2. unfold updN. destruct (N.eqb_spec i' i) as [->|Hn].
          -- intros E. injection E as <-. rewrite upd_same, Hst, Hlz. split; [discriminate|reflexivity].
          -- intros Hi. destruct (Hci i' t2 Hi) as [Hn2 Hg]. rewrite upd_other by exact Hn2.
             exact (inv_ci g HI i' t2 Hg).
        * intros t' i' Hne Hg. unfold updN. destruct (N.eqb_spec i' i) as [->|Hn]; [|auto].
          rewrite (Hoth t' i Hne Hg) in Hemp. discriminate Hemp.
  Qed.

  Lemma start_next_inv g t : Inv g -> Inv (start_next cells g t).
  Proof.
    intros HI. unfold start_next.
    pose proof (inv_th g HI t) as Hth. unfold thread_ok in Hth.
    destruct (stack (threads g t)) as [|f st] eqn:Hst; [|exact HI].
    destruct Hth as (Hres & Hch & Hlz).
    destruct (start cells t (todo (threads g t)) (results (threads g t)) (cellst g)) as [th' cs'] eqn:Hs.
    unfold set_cells, set_thread; cbn [chains poisoned cache threads aborted cellst].
    apply (Inv_start g t (chains g) _ _ (cellst g) th' cs' HI Hs); auto.
    - intros x Ho. rewrite Hst in Ho. exact (owns_nil x Ho).
    - apply HI.
    - intros i t2 Hi. split; [|exact Hi]. intros ->.
      destruct (inv_ci g HI i t Hi) as [Hne _]. apply Hne. exact Hst.
  Qed.

  Lemma step_inv g t : Inv g -> Inv (step c prog cells g t).
  Proof.
    intros HI. unfold step, step_gen. rewrite (inv_ab g HI).
    destruct (stack (threads g t)) as [|[[r ty] p] rest] eqn:Hst.
    { (* no open call: in front of a lazy cell (or finished) *)
      pose proof (start_next_inv g t HI) as H. unfold start_next in H |- *. rewrite Hst in H |- *. exact H. }
    pose proof (inv_th g HI t) as Hth. unfold thread_ok in Hth. rewrite Hst in Hth.
    destruct Hth as (bot & Htop & Hlow & Hres & Hch & Hlz).
    assert (Hne : stack (threads g t) <> []) by (rewrite Hst; discriminate).
    cbv zeta. rewrite (inv_po g HI).
    destruct p as [| |fb k|o|o|ty' o|o]; cbn [pushed top_ok] in Htop, Hch.
    - (* AtEnter: push *)
      rewrite app_nil_r in Hch. rewrite Hch, (not_in_chain _ _ _ _ Hlow).
      unfold set_thread, set_chain; cbn [chains poisoned cache threads aborted cellst].
      apply Inv_update_same; try assumption; try discriminate; try reflexivity.
      + intros t' Hn. apply chain_frame. exact Hn.
      + rewrite chain_self. unfold thread_ok; cbn [stack todo results lazy].
        exists bot. cbn [top_ok pushed]. auto 10.
      + apply HI.
      + apply owners_keep; [exact HI|]. intros x _ Ho. rewrite Hst in Ho. cbn [stack].
        apply owns_cons. apply (owns_tail _ _ _ _ _ Ho). left; reflexivity.
    - (* AtPushed *)
      destruct (advance_ok false r ty (prog ty r) rest bot (Hac ty r) (eq_sym (D_eval ty r)) Hlow)
        as (r2 & ty2 & p2 & rest2 & Ea & Ht2 & Hl2 & Hc2).
      assert (Hthk : thread_ok t (nth t progs [])
                (mkThread (advance c false r ty (prog ty r) rest) (todo (threads g t)) (results (threads g t))
                          (lazy (threads g t)))
                (chains g (res_of c t) (tkey c t)) (cellst g)).
      { unfold thread_ok; cbn [stack todo results lazy]. rewrite Ea. exists bot.
        rewrite Hc2. auto 10. }
      destruct (cache_on c) eqn:Hc.
      + destruct (cache g r) as [[|ty' o]|] eqn:Hcr.
        * exact HI.
        * unfold set_thread; cbn [chains poisoned cache threads aborted cellst].
          apply Inv_update_same; try assumption; try discriminate; try reflexivity.
          -- unfold thread_ok; cbn [stack todo results lazy]. exists bot. cbn [top_ok pushed].
             pose proof (inv_ca g HI _ _ _ Hcr). auto 10.
          -- apply HI.
          -- apply owners_keep; [exact HI|]. intros x _ Ho. rewrite Hst in Ho. cbn [stack].
             apply owns_cons. apply (owns_tail _ _ _ _ _ Ho). left; reflexivity.
        * unfold set_thread, set_cache; cbn [chains poisoned cache threads aborted cellst].
          apply Inv_update_same; try assumption; try reflexivity.
          -- cbn [stack]. apply advance_nonempty.
          -- intros x tyx o Hx. unfold updN in Hx. destruct (x =? r); [discriminate Hx|].
             exact (inv_ca g HI _ _ _ Hx).
          -- intros x Hx. split; [exact Hc|]. unfold updN in Hx.
             destruct (N.eqb_spec x r) as [Exr|Hnx]; [subst x|].
             ++ exists t. rewrite upd_same. cbn [stack]. apply owns_advance. exact Hc.
             ++ destruct (inv_ow g HI x Hx) as (_ & t2 & Ho). exists t2.
                destruct (Nat.eq_dec t2 t) as [->|Hne2];
                  [rewrite upd_same|rewrite upd_other by exact Hne2; exact Ho].
                cbn [stack]. rewrite Hst in Ho. apply owns_advance_rest.
                apply (owns_tail _ _ _ _ _ Ho). left; reflexivity.
      + unfold set_thread; cbn [chains poisoned cache threads aborted cellst].
        apply Inv_update_same; try assumption; try reflexivity.
        * cbn [stack]. apply advance_nonempty.
        * apply HI.
        * apply owners_keep; [exact HI|]. intros x _ Ho. rewrite Hst in Ho. cbn [stack].
          apply owns_advance_rest. apply (owns_tail _ _ _ _ _ Ho). left; reflexivity.
    - (* InCall *) exact HI.
    - (* AtPublish *)
      unfold set_thread, set_cache; cbn [chains poisoned cache threads aborted cellst].
      apply Inv_update_same; try assumption; try discriminate; try reflexivity.
      + unfold thread_ok; cbn [stack todo results lazy]. exists bot. cbn [top_ok pushed]. auto 10.
      + intros x tyx o' Hx. unfold updN in Hx. destruct (N.eqb_spec x r) as [Exr|Hnx]; [subst x|].
        * injection Hx as <- <-. exact Htop.
        * exact (inv_ca g HI _ _ _ Hx).
      + intros x Hx. unfold updN in Hx. destruct (N.eqb_spec x r) as [Exr|Hnx]; [subst x|]; [discriminate Hx|].
        destruct (inv_ow g HI x Hx) as (Hcc & t2 & Ho). split; [exact Hcc|]. exists t2.
        destruct (Nat.eq_dec t2 t) as [->|Hne2];
          [rewrite upd_same|rewrite upd_other by exact Hne2; exact Ho].
        cbn [stack]. rewrite Hst in Ho. apply owns_cons.
        apply (owns_tail _ _ _ _ _ Ho). right; exact Hnx.
    - (* AtCached *)
      unfold set_thread; cbn [chains poisoned cache threads aborted cellst].
      apply Inv_update_same; try assumption; try discriminate; try reflexivity.
      + unfold thread_ok; cbn [stack todo results lazy]. exists bot. cbn [top_ok pushed]. auto 10.
      + apply HI.
      + apply owners_keep; [exact HI|]. intros x _ Ho. rewrite Hst in Ho. cbn [stack].
        apply owns_cons. apply (owns_tail _ _ _ _ _ Ho). left; reflexivity.
    - (* AtHit: served only if it is a value of the requested type; otherwise the load is repeated uncached *)
      assert (Hreload : Inv (set_thread g t (mkThread (advance c true r ty (prog ty r) rest) (todo (threads g t))
                                                      (results (threads g t)) (lazy (threads g t))))).
      { destruct (advance_ok true r ty (prog ty r) rest bot (Hac ty r) (eq_sym (D_eval ty r)) Hlow)
          as (r2 & ty2 & p2 & rest2 & Ea & Ht2 & Hl2 & Hc2).
        unfold set_thread; cbn [chains poisoned cache threads aborted cellst].
        apply Inv_update_same; try assumption; try reflexivity.
        + cbn [stack]. apply advance_nonempty.
        + unfold thread_ok; cbn [stack todo results lazy]. rewrite Ea. exists bot. rewrite Hc2. auto 10.
        + apply HI.
        + apply owners_keep; [exact HI|]. intros x _ Ho. rewrite Hst in Ho. cbn [stack].
          apply owns_advance_rest. apply (owns_tail _ _ _ _ _ Ho). left; reflexivity. }
      destruct o as [v|e|s|]; try exact Hreload.
      destruct (N.eqb_spec ty' ty) as [Ety|Hnty]; [subst ty'|exact Hreload].
      unfold set_thread; cbn [chains poisoned cache threads aborted cellst].
      apply Inv_update_same; try assumption; try discriminate; try reflexivity.
      + unfold thread_ok; cbn [stack todo results lazy]. exists bot. cbn [top_ok pushed]. auto 10.
      + apply HI.
      + apply owners_keep; [exact HI|]. intros x _ Ho. rewrite Hst in Ho. cbn [stack].
        apply owns_cons. apply (owns_tail _ _ _ _ _ Ho). left; reflexivity.
    - (* AtLeave: pop *)
      rewrite Hch, split_last_app, N.eqb_refl.
      destruct rest as [|[[r' ty'] p'] rest'].
      + (* the top-level call is done: a lazy cell is published (or left empty), the thread goes on *)
        cbn [lower_ok] in Hlow. subst o. cbn [finish]. unfold top_done.
        cbn [set_chain threads cellst].
        set (cs0 := match lazy (threads g t) with
                    | Some i => updN (cellst g) i (match D ty r with Ok _ => CFull (D ty r) | _ => CEmpty end)
                    | None => cellst g
                    end).
        destruct (start cells t (todo (threads g t)) (results (threads g t) ++ [D ty r]) cs0) as [th' cs'] eqn:Hs.
        unfold set_cells, set_thread, set_chain; cbn [chains poisoned cache threads aborted cellst].
        apply (Inv_start g t _ _ _ cs0 th' cs' HI Hs).
        * intros t' Hn. apply chain_frame. exact Hn.
        * rewrite chain_self. reflexivity.
        * rewrite <- app_assoc. cbn [app]. rewrite Hlow. exact Hres.
        * intros x Ho. rewrite Hst in Ho. apply (owns_nil x). apply (owns_tail _ _ _ _ _ Ho). left; reflexivity.
        * unfold cs0. destruct (lazy (threads g t)) as [i|] eqn:El; [|apply HI].
          intros i' o'. unfold updN. destruct (N.eqb_spec i' i) as [->|Hn]; [|apply HI].
          destruct (Hlz i eq_refl) as [_ Hb]. rewrite <- Hlow in Hb.
          destruct (D ty r); intros E; inversion E; subst; exact Hb.
        * unfold cs0. destruct (lazy (threads g t)) as [i|] eqn:El.
          -- intros i' t2. unfold updN. destruct (N.eqb_spec i' i) as [->|Hn].
             ++ destruct (D ty r); discriminate.
             ++ intros Hi. split; [|exact Hi]. intros ->.
                destruct (inv_ci g HI i' t Hi) as [_ Hl]. rewrite El in Hl. injection Hl as ->. contradiction.
          -- intros i' t2 Hi. split; [|exact Hi]. intros ->.
             destruct (inv_ci g HI i' t Hi) as [_ Hl]. rewrite El in Hl. discriminate Hl.
        * unfold cs0. destruct (lazy (threads g t)) as [i|] eqn:El; [|auto].
          intros t' i' Hn Hg. unfold updN. destruct (N.eqb_spec i' i) as [->|Hni]; [|exact Hg].
          destruct (Hlz i eq_refl) as [Hown _]. rewrite Hown in Hg. injection Hg as <-. contradiction.
      + cbn [lower_ok] in Hlow. destruct p' as [| |fb k|o'|o'|ty'' o'|o']; try contradiction.
        destruct Hlow as (Hrk & Hbk & Hev & Hlow'). subst o. cbn [finish].
        destruct (advance_ok fb r' ty' (k (D ty r)) rest' bot (Hbk _) Hev Hlow')
          as (r2 & ty2 & p2 & rest2 & Ea & Ht2 & Hl2 & Hc2).
        unfold set_thread, set_chain; cbn [chains poisoned cache threads aborted cellst].
        apply Inv_update_same; try assumption; try reflexivity.
        * cbn [stack]. apply advance_nonempty.
        * intros t' Hn. apply chain_frame. exact Hn.
        * rewrite chain_self. unfold thread_ok; cbn [stack todo results lazy]. rewrite Ea.
          exists bot. rewrite Hc2. cbn [map fref fst rev]. auto 10.
        * apply HI.
        * apply owners_keep; [exact HI|]. intros x Hcc Ho. rewrite Hst in Ho. cbn [stack].
          apply owns_tail in Ho; [|left; reflexivity].
          destruct fb.
          -- apply owns_advance_rest. apply (owns_tail _ _ _ _ _ Ho). left; reflexivity.
          -- destruct (N.eq_dec x r') as [->|Hnx].
             ++ apply owns_advance. exact Hcc.
             ++ apply owns_advance_rest. apply (owns_tail _ _ _ _ _ Ho). right; exact Hnx.
  Qed.

  (* a full cell is never written again: the only writes to a cell are by its initialiser, and a cell that has
     an initialiser is not full *)
  Lemma step_keeps_full g t i o :
    Inv g -> cellst g i = CFull o -> cellst (step c prog cells g t) i = CFull o.
  Proof.
    intros HI Hi. unfold step, step_gen. rewrite (inv_ab g HI).
    destruct (stack (threads g t)) as [|[[r ty] p] rest] eqn:Hst.
    { unfold start_next. rewrite Hst.
      destruct (start cells t (todo (threads g t)) (results (threads g t)) (cellst g)) as [th' cs'] eqn:Hs.
      cbn [set_cells cellst]. exact (start_keeps_full cells t _ _ _ _ _ i o Hs Hi). }
    pose proof (inv_th g HI t) as Hth. unfold thread_ok in Hth. rewrite Hst in Hth.
    destruct Hth as (bot & Htop & Hlow & Hres & Hch & Hlz).
    cbv zeta. rewrite (inv_po g HI).
    destruct p as [| |fb k|o1|o1|ty' o1|o1]; cbn [pushed top_ok] in Htop, Hch.
    - rewrite app_nil_r in Hch. rewrite Hch, (not_in_chain _ _ _ _ Hlow). exact Hi.
    - destruct (cache_on c); [destruct (cache g r) as [[|ty' o1]|]|]; exact Hi.
    - exact Hi.
    - exact Hi.
    - exact Hi.
    - destruct o1 as [v|e|s0|]; [destruct (ty' =? ty)| | |]; exact Hi.
    - rewrite Hch, split_last_app, N.eqb_refl.
      destruct rest as [|[[r' ty'] p'] rest'].
      + cbn [finish]. unfold top_done. cbn [set_chain threads cellst].
        destruct (start cells t (todo (threads g t)) (results (threads g t) ++ [o1]) _) as [th' cs'] eqn:Hs.
        cbn [set_cells cellst]. apply (start_keeps_full cells t _ _ _ _ _ i o Hs).
        destruct (lazy (threads g t)) as [i'|] eqn:El; [|exact Hi].
        unfold updN. destruct (N.eqb_spec i i') as [->|Hn]; [|exact Hi].
        destruct (Hlz i' eq_refl) as [Hown _]. rewrite Hown in Hi. discriminate Hi.
      + cbn [lower_ok] in Hlow. destruct p' as [| |fb k|o'|o'|ty'' o'|o']; try contradiction.
        exact Hi.
  Qed.

  (** deadlock freedom: a blocked thread waits for an entry whose owner is enabled or itself blocked on a
      reference of strictly smaller rank; a thread in front of a lazy cell waits for the cell's initialiser,
      which is inside the cell's load *)
  Lemma progress g : Inv g ->
    forall m t r ty p rest, stack (threads g t) = (r, ty, p) :: rest -> (rank r < m)%nat ->
    exists t', enabled c g t' = true.
  Proof.
    intros HI. induction m as [|m IH]; intros t r ty p rest Hst Hr; [lia|].
    pose proof (inv_th g HI t) as Hth. unfold thread_ok in Hth. rewrite Hst in Hth.
    destruct Hth as (bot & Htop & Hlow & _ & _).
    assert (Hen : enabled c g t = true \/ (p = AtPushed /\ cache g r = Some InProcess)).
    { unfold enabled. rewrite (inv_ab g HI), Hst. cbn [negb andb].
      destruct p; cbn [top_ok] in Htop; auto; try contradiction.
      destruct (cache_on c); auto. destruct (cache g r) as [[|ty' o]|]; auto. }
    destruct Hen as [Hen|[-> Hcr]]; [exists t; exact Hen|].
    destruct (inv_ow g HI r Hcr) as (_ & t2 & ty2 & p2 & Hin & Hown).
    destruct (stack (threads g t2)) as [|[[r2 ty2'] p2'] rest2] eqn:Hst2; [destruct Hin|].
    pose proof (inv_th g HI t2) as Hth2. unfold thread_ok in Hth2. rewrite Hst2 in Hth2.
    destruct Hth2 as (bot2 & Htop2 & Hlow2 & _ & _).
    destruct Hin as [E|Hin].
    - inversion E; subst r2 ty2' p2'. exists t2. unfold enabled. rewrite (inv_ab g HI), Hst2.
      destruct p2; cbn [is_owner] in Hown; try discriminate Hown; [contradiction Htop2|reflexivity].
    - apply (IH t2 r2 ty2' p2' rest2 Hst2).
      apply (in_map fref) in Hin. cbn [fref fst] in Hin.
      pose proof (lower_rank _ _ _ _ _ Hlow2 Hin). lia.
  Qed.

  Lemma unfinished_lt g t : Inv g -> finished g t = false -> (t < length progs)%nat.
  Proof.
    intros HI Hf. destruct (Nat.lt_ge_cases t (length progs)) as [H|H]; [exact H|]. exfalso.
    pose proof (inv_th g HI t) as Hth. rewrite (nth_overflow _ _ H) in Hth. unfold thread_ok in Hth.
    unfold finished in Hf.
    destruct (stack (threads g t)) as [|[[r ty] p] rest].
    - destruct Hth as (Hres & _ & _). cbn [map] in Hres.
      destruct (todo (threads g t)); [discriminate Hf|].
      apply app_eq_nil in Hres. destruct Hres as [_ Hres]. discriminate Hres.
    - destruct Hth as (bot & _ & _ & Hres & _). cbn [map] in Hres.
      exact (app_cons_not_nil _ _ _ (eq_sym Hres)).
  Qed.

  Lemma enabled_unfinished g t : enabled c g t = true -> finished g t = false.
  Proof.
    unfold enabled, finished. intros H. apply andb_prop in H. destruct H as [_ H].
    destruct (stack (threads g t)); [|reflexivity].
    destruct (todo (threads g t)); [discriminate H|reflexivity].
  Qed.

  Lemma no_deadlock g : Inv g -> deadlocked c g (length progs) = false.
  Proof.
    intros HI. unfold deadlocked. rewrite (inv_ab g HI). cbn [negb andb].
    destruct (all_finished g (length progs)) eqn:Haf; [reflexivity|]. cbn [negb andb].
    destruct (first_enabled c g (length progs) 0%nat) eqn:Hfe; [reflexivity|]. exfalso.
    apply all_finished_false in Haf. destruct Haf as (t & Ht & Hf).
    assert (Hex : exists t', enabled c g t' = true).
    { unfold finished in Hf. destruct (stack (threads g t)) as [|[[r ty] p] rest] eqn:Hst.
      - destruct (todo (threads g t)) as [|[ty r] td] eqn:Htd; [discriminate Hf|].
        destruct (enabled c g t) eqn:Hen; [exists t; exact Hen|].
        unfold enabled in Hen. rewrite (inv_ab g HI), Hst, Htd in Hen. cbn [negb andb] in Hen.
        destruct (ty =? LAZY); [|discriminate Hen].
        destruct (cellst g r) as [|t2|o] eqn:Ecs; try discriminate Hen.
        destruct (inv_ci g HI r t2 Ecs) as [Hne _].
        destruct (stack (threads g t2)) as [|[[r2 ty2] p2] rest2] eqn:Hst2; [contradiction Hne; reflexivity|].
        exact (progress g HI (S (rank r2)) t2 r2 ty2 p2 rest2 Hst2 (Nat.lt_succ_diag_r _)).
      - exact (progress g HI (S (rank r)) t r ty p rest Hst (Nat.lt_succ_diag_r _)). }
    destruct Hex as (t' & Hen).
    assert (Hlt : (t' < length progs)%nat).
    { apply (unfinished_lt g t' HI). apply enabled_unfinished. exact Hen. }
    rewrite (first_enabled_none c g _ _ Hfe t') in Hen by lia. discriminate Hen.
  Qed.

  Lemma Inv_state_ok g : Inv g -> state_ok c (lazy_seq cells D) progs g.
  Proof.
    intros HI. split; [apply HI|]. split; [apply HI|]. split; [|split].
    - intros t. pose proof (inv_th g HI t) as Hth. unfold thread_ok in Hth.
      destruct (stack (threads g t)) as [|[[r ty] p] rest].
      + destruct Hth as (Hres & _). eexists. exact (map_prefix _ _ _ _ Hres).
      + destruct Hth as (bot & _ & _ & Hres & _). eexists. exact (map_prefix _ _ _ _ Hres).
    - intros t Hf. unfold finished in Hf. pose proof (inv_th g HI t) as Hth. unfold thread_ok in Hth.
      destruct (stack (threads g t)) as [|[[r ty] p] rest]; [|discriminate Hf].
      destruct (todo (threads g t)); [|discriminate Hf].
      destruct Hth as (Hres & _). cbn [map] in Hres. rewrite app_nil_r in Hres. exact Hres.
    - apply no_deadlock. exact HI.
  Qed.

  Lemma Inv_raw : Inv (graw progs).
  Proof.
    unfold graw. constructor; cbn [aborted poisoned cache threads chains cellst].
    - reflexivity.
    - reflexivity.
    - intros r ty o H. discriminate H.
    - intros t. unfold thread_ok; cbn [stack todo results lazy]. auto.
    - intros r H. discriminate H.
    - intros i o H. discriminate H.
    - intros i t H. discriminate H.
  Qed.

  Lemma Inv_init : Inv (ginit cells progs).
  Proof.
    unfold ginit. generalize (seq 0 (length progs)) as l. generalize (graw progs) Inv_raw.
    intros g HI l. revert g HI. induction l as [|t l IH]; intros g HI; cbn [fold_left]; [exact HI|].
    apply IH. apply start_next_inv. exact HI.
  Qed.

  Lemma run_inv sched : forall g, Inv g -> Inv (run_sched c prog cells g sched).
  Proof.
    unfold run_sched. induction sched as [|t sched IH]; intros g HI; cbn [fold_left]; [exact HI|].
    apply IH. apply step_inv. exact HI.
  Qed.

  (** * termination: a step of an enabled thread decreases the remaining work *)
  Fixpoint pcostn (d : tytag -> ref -> nat) (p : comp) : nat :=
    match p with
    | Ret _ => O
    | Call ty r k => (d ty r + pcostn d (k (D ty r)))%nat
    end.

  (* number of steps of one get::<ty>(r) when nothing is cached *)
  Fixpoint costn (n : nat) (ty : tytag) (r : ref) : nat :=
    match n with
    | O => O
    | S m => (5 + pcostn (costn m) (prog ty r))%nat
    end.

  Definition cost (ty : tytag) (r : ref) : nat := costn (S (rank r)) ty r.
  Notation pcost := (pcostn cost).

  Lemma pcostn_ext d1 d2 b p :
    bnd b p -> (forall ty r, (rank r < b)%nat -> d1 ty r = d2 ty r) -> pcostn d1 p = pcostn d2 p.
  Proof.
    induction p as [o|ty r' k IH]; cbn [pcostn bounded]; intros Hb Hd; [reflexivity|].
    destruct Hb as [Hr Hk]. rewrite (Hd ty r' Hr). f_equal. apply IH; [apply Hk|exact Hd].
  Qed.

  Lemma costn_stable : forall n m ty r, (rank r < n)%nat -> (rank r < m)%nat -> costn n ty r = costn m ty r.
  Proof.
    induction n as [|n IH]; intros m ty r Hn Hm; [lia|].
    destruct m as [|m]; [lia|].
    cbn [costn]. f_equal. apply pcostn_ext with (b := rank r); [apply Hac|].
    intros ty' r' Hr'. apply IH; lia.
  Qed.

  Lemma cost_eq ty r : cost ty r = (5 + pcost (prog ty r))%nat.
  Proof.
    unfold cost at 1. cbn [costn]. f_equal.
    apply pcostn_ext with (b := rank r); [apply Hac|].
    intros ty' r' Hr'. unfold cost. apply costn_stable; lia.
  Qed.

  Definition top_meas (p : pc) (r : ref) (ty : tytag) : nat :=
    match p with
    | AtEnter => cost ty r
    | AtPushed => 4 + pcost (prog ty r)
    | InCall _ _ => 0
    | AtPublish _ => 3
    | AtCached _ => 2
    | AtHit _ _ => 2 + pcost (prog ty r)
    | AtLeave _ => 1
    end%nat.

  (* steps left after the computation of a frame returned: publish, cached, leave / leave *)
  Definition tailw (fb : bool) : nat := if fb then 1%nat else 3%nat.

  Fixpoint lmeas (child : ref) (cty : tytag) (st : list frame) : nat :=
    match st with
    | [] => O
    | (r, ty, p) :: rest =>
        match p with
        | InCall fb k => (tailw fb + pcost (k (D cty child)) + lmeas r ty rest)%nat
        | _ => O
        end
    end.

  Definition smeas (st : list frame) : nat :=
    match st with
    | [] => O
    | (r, ty, p) :: rest => (top_meas p r ty + lmeas r ty rest)%nat
    end.

  (* a program item still to do: one step to start it (or to pass a full cell) + the steps of its get *)
  Definition icost (cl : tcall) : nat :=
    if fst cl =? LAZY then S (cost (fst (cells (snd cl))) (snd (cells (snd cl)))) else S (cost (fst cl) (snd cl)).

  Definition tmeas (th : thread) : nat := (smeas (stack th) + list_sum (map icost (todo th)))%nat.

  Lemma advance_meas fb r ty p rest :
    (smeas (advance c fb r ty p rest) <= tailw fb + pcost p + lmeas r ty rest)%nat.
  Proof.
    destruct p as [o|ty' r' k]; cbn [advance smeas].
    - destruct fb; [|destruct (cache_on c)]; cbn [top_meas pcostn tailw]; lia.
    - cbn [top_meas lmeas pcostn]. lia.
  Qed.

  (* [start] never adds work, and removes some unless the thread stops in front of a cell being initialised *)
  Lemma start_meas t : forall td res cs th' cs',
    start cells t td res cs = (th', cs') ->
    (tmeas th' <= list_sum (map icost td))%nat /\
    (match td with
     | [] => False
     | (ty, r) :: _ => if ty =? LAZY then match cs r with CInit _ => False | _ => True end else True
     end -> (tmeas th' < list_sum (map icost td))%nat).
  Proof.
    induction td as [|[ty r] rest IH]; intros res cs th' cs' Hs; cbn [start] in Hs.
    - inversion Hs; subst. unfold tmeas; cbn [stack todo smeas map list_sum fold_right]. split; [lia|tauto].
    - cbn [map list_sum fold_right]. unfold icost at 1 3. cbn [fst snd].
      destruct (ty =? LAZY) eqn:Ety.
      + destruct (cs r) as [|t2|o] eqn:Ecs.
        * inversion Hs; subst. unfold tmeas; cbn [stack todo smeas top_meas lmeas].
          fold (list_sum (map icost rest)). split; [lia|intros _; lia].
        * inversion Hs; subst. unfold tmeas; cbn [stack todo smeas map list_sum fold_right].
          unfold icost at 1. cbn [fst snd]. rewrite Ety. fold (list_sum (map icost rest)). split; [lia|tauto].
        * destruct (IH (res ++ [o]) cs th' cs' Hs) as [Hle _].
          fold (list_sum (map icost rest)). split; [lia|intros _; lia].
      + inversion Hs; subst. unfold tmeas; cbn [stack todo smeas top_meas lmeas].
        fold (list_sum (map icost rest)). split; [lia|intros _; lia].
  Qed.

  Lemma step_meas g t : Inv g -> enabled c g t = true ->
    exists th', threads (step c prog cells g t) = upd (threads g) t th' /\
                (tmeas th' < tmeas (threads g t))%nat.
  Proof.
    intros HI Hen. unfold enabled in Hen. rewrite (inv_ab g HI) in Hen. cbn [negb andb] in Hen.
    unfold step, step_gen. rewrite (inv_ab g HI).
    destruct (stack (threads g t)) as [|[[r ty] p] rest] eqn:Hst.
    { (* in front of a lazy cell that is not being initialised (or not started yet) *)
      unfold start_next. rewrite Hst.
      destruct (start cells t (todo (threads g t)) (results (threads g t)) (cellst g)) as [th' cs'] eqn:Hs.
      exists th'. split; [reflexivity|].
      destruct (start_meas t _ _ _ _ _ Hs) as [_ Hlt].
      unfold tmeas at 2. rewrite Hst. cbn [smeas]. apply Hlt.
      destruct (todo (threads g t)) as [|[ty r] td]; [discriminate Hen|].
      destruct (ty =? LAZY); [|exact I]. destruct (cellst g r); [exact I|discriminate Hen|exact I]. }
    pose proof (inv_th g HI t) as Hth. unfold thread_ok in Hth. rewrite Hst in Hth.
    destruct Hth as (bot & Htop & Hlow & Hres & Hch & _).
    cbv zeta. rewrite (inv_po g HI).
    unfold tmeas at 2. rewrite Hst.
    pose proof (advance_meas false r ty (prog ty r) rest) as Hadv.
    pose proof (advance_meas true r ty (prog ty r) rest) as Hadv'.
    cbn [tailw] in Hadv, Hadv'.
    destruct p as [| |fb k|o|o|ty' o|o]; cbn [pushed top_ok] in Htop, Hch; cbn [smeas top_meas].
    - rewrite app_nil_r in Hch. rewrite Hch, (not_in_chain _ _ _ _ Hlow).
      eexists. split; [reflexivity|]. unfold tmeas; cbn [stack todo smeas top_meas].
      rewrite cost_eq. lia.
    - destruct (cache_on c).
      + destruct (cache g r) as [[|ty' o]|]; [discriminate Hen| |];
          (eexists; split; [reflexivity|]); unfold tmeas; cbn [stack todo smeas top_meas]; lia.
      + eexists. split; [reflexivity|]. unfold tmeas; cbn [stack todo]. lia.
    - discriminate Hen.
    - eexists. split; [reflexivity|]. unfold tmeas; cbn [stack todo smeas top_meas]. lia.
    - eexists. split; [reflexivity|]. unfold tmeas; cbn [stack todo smeas top_meas]. lia.
    - destruct o as [v|e|s|]; [destruct (ty' =? ty)| | |]; (eexists; split; [reflexivity|]);
        unfold tmeas; cbn [stack todo smeas top_meas]; lia.
    - rewrite Hch, split_last_app, N.eqb_refl.
      destruct rest as [|[[r' ty'] p'] rest'].
      + cbn [finish]. unfold top_done. cbn [set_chain threads cellst].
        destruct (start cells t (todo (threads g t)) (results (threads g t) ++ [o]) _) as [th' cs'] eqn:Hs.
        exists th'. split; [reflexivity|].
        destruct (start_meas t _ _ _ _ _ Hs) as [Hle _]. cbn [lmeas]. lia.
      + cbn [lower_ok] in Hlow. destruct p' as [| |fb k|o'|o'|ty'' o'|o']; try contradiction.
        subst o. cbn [finish]. eexists. split; [reflexivity|]. unfold tmeas; cbn [stack todo lmeas].
        pose proof (advance_meas fb r' ty' (k (D ty r)) rest'). lia.
  Qed.

  Fixpoint musum (f : tid -> nat) (n : nat) : nat :=
    match n with
    | O => O
    | S m => (musum f m + f m)%nat
    end.

  Lemma musum_upd_ge f t x : forall n, (n <= t)%nat -> musum (upd f t x) n = musum f n.
  Proof.
    induction n as [|n IH]; intros Hn; cbn [musum]; [reflexivity|].
    rewrite IH by lia. rewrite upd_other by lia. reflexivity.
  Qed.

  Lemma musum_upd_lt f t x : forall n, (t < n)%nat -> (x < f t)%nat -> (musum (upd f t x) n < musum f n)%nat.
  Proof.
    induction n as [|n IH]; intros Hn Hx; cbn [musum]; [lia|].
    destruct (Nat.eq_dec t n) as [E|Hne].
    - subst n. rewrite musum_upd_ge by lia. rewrite upd_same. lia.
    - rewrite upd_other by lia. assert (musum (upd f t x) n < musum f n)%nat by (apply IH; lia). lia.
  Qed.

  Definition gmeas (g : gstate) : nat := musum (fun t => tmeas (threads g t)) (length progs).

  Lemma first_enabled_some g : forall n s t,
    first_enabled c g n s = Some t -> enabled c g t = true.
  Proof.
    induction n as [|n IH]; intros s t H; cbn [first_enabled] in H; [discriminate H|].
    destruct (enabled c g s) eqn:E; [inversion H; subst; exact E|].
    exact (IH _ _ H).
  Qed.

  Lemma enabled_decr g t : Inv g -> enabled c g t = true -> (gmeas (step c prog cells g t) < gmeas g)%nat.
  Proof.
    intros HI Hen. destruct (step_meas g t HI Hen) as (th' & Eth & Hlt).
    unfold gmeas. rewrite Eth.
    assert (Ht : (t < length progs)%nat).
    { apply (unfinished_lt g t HI). apply enabled_unfinished. exact Hen. }
    assert (Hext : forall f f' n, (forall t', f t' = f' t') -> musum f n = musum f' n).
    { intros f f' n Hf. induction n as [|n IH]; cbn [musum]; [reflexivity|]. rewrite IH, Hf. reflexivity. }
    rewrite (Hext _ (upd (fun t0 => tmeas (threads g t0)) t (tmeas th'))).
    - apply musum_upd_lt; [exact Ht|exact Hlt].
    - intros t'. unfold upd. destruct (Nat.eqb t' t); reflexivity.
  Qed.

  Lemma none_finished g : Inv g ->
    first_enabled c g (length progs) 0%nat = None -> all_finished g (length progs) = true.
  Proof.
    intros HI Hfe. pose proof (no_deadlock g HI) as Hd. unfold deadlocked in Hd.
    rewrite (inv_ab g HI), Hfe in Hd. destruct (all_finished g (length progs)); [reflexivity|].
    discriminate Hd.
  Qed.

  Lemma complete_finishes : forall fuel g, Inv g -> (gmeas g <= fuel)%nat ->
    all_finished (complete c prog cells fuel (length progs) g) (length progs) = true.
  Proof.
    induction fuel as [|fuel IH]; intros g HI Hm; cbn [complete].
    - destruct (first_enabled c g (length progs) 0%nat) as [t|] eqn:Hfe;
        [|apply none_finished; assumption].
      pose proof (enabled_decr g t HI (first_enabled_some g _ _ _ Hfe)). lia.
    - destruct (first_enabled c g (length progs) 0%nat) as [t|] eqn:Hfe;
        [|apply none_finished; assumption].
      pose proof (enabled_decr g t HI (first_enabled_some g _ _ _ Hfe)).
      apply IH; [apply step_inv; exact HI|lia].
  Qed.
End Safe.

Theorem conc_per_thread_chain : forall c prog cells rank,
  per_thread c = true -> acyclic prog rank -> conc_statement c prog cells (lazy_seq cells (D prog rank)).
Proof.
  intros c prog cells rank Hpt Hac progs sched.
  apply (Inv_state_ok c prog cells rank progs).
  apply (run_inv c prog cells rank Hpt Hac progs).
  apply Inv_init.
Qed.

Theorem conc_complete_is_sched : forall c prog cells fuel n g,
  exists sched, complete c prog cells fuel n g = run_sched c prog cells g sched.
Proof.
  intros c prog cells. induction fuel as [|fuel IH]; intros n g; cbn [complete].
  - exists []. reflexivity.
  - destruct (first_enabled c g n 0%nat) as [t|].
    + destruct (IH n (step c prog cells g t)) as (sched & Hs). exists (t :: sched). exact Hs.
    + exists []. reflexivity.
Qed.

Corollary conc_per_thread_complete : forall c prog cells rank progs sched fuel,
  per_thread c = true -> acyclic prog rank ->
  state_ok c (lazy_seq cells (D prog rank)) progs
           (complete c prog cells fuel (length progs) (run_sched c prog cells (ginit cells progs) sched)).
Proof.
  intros c prog cells rank progs sched fuel Hpt Hac.
  destruct (conc_complete_is_sched c prog cells fuel (length progs)
                                   (run_sched c prog cells (ginit cells progs) sched)) as (sched' & Hs).
  rewrite Hs. unfold run_sched. rewrite <- fold_left_app.
  apply (conc_per_thread_chain c prog cells rank Hpt Hac progs (sched ++ sched')).
Qed.

Definition conc_full_statement : Prop :=
  forall c prog cells fuel,
    conc_statement c prog cells (lazy_seq cells (fun ty r => fst (get no_cache prog fuel [] ty r init))).

(* the refutations below need no lazy cells *)
Definition no_cells : N -> tcall := fun _ => (0, 0).

(** * refutations (C13-a: guard stack shared by all threads; C13-b: cyclic eager references) *)

Theorem conc_refuted_shared_chain : exists prog progs sched,
  let c := mkCcfg true false false in
  let g := complete c prog no_cells 100 (length progs) (run_sched c prog no_cells (ginit no_cells progs) sched) in
  results (threads g 1%nat) = [Err E_OTHER] /\
  (forall fuel, fst (get no_cache prog (S fuel) [] 0 1 init) = Ok 5).
Proof.
  exists (fun _ _ => Ret (Ok 5)), [[(0, 1)];[(0, 1)]], [0%nat; 1%nat].
  split; [vm_compute; reflexivity|]. intros fuel. reflexivity.
Qed.

Theorem conc_refuted_pop_assert : exists prog progs sched,
  let c := mkCcfg true false false in
  let g := complete c prog no_cells 100 (length progs) (run_sched c prog no_cells (ginit no_cells progs) sched) in
  poisoned g 0 = true /\ results (threads g 0%nat) = [Panic 1] /\ results (threads g 1%nat) = [Panic 1].
Proof.
  exists (fun _ _ => Ret (Ok 5)), [[(0, 1)];[(0, 2)]], [0%nat; 1%nat; 0%nat; 0%nat; 0%nat].
  vm_compute. auto.
Qed.

Theorem conc_refuted_abort : exists prog progs sched,
  let c := mkCcfg true false false in
  aborted (complete c prog no_cells 100 (length progs) (run_sched c prog no_cells (ginit no_cells progs) sched)) = true.
Proof.
  exists (fun _ r => if r =? 1 then Call 0 2 (fun o => Ret o) else Ret (Ok 5)), [[(0, 1)];[(0, 3)]],
         [0%nat; 0%nat; 0%nat; 1%nat; 0%nat].
  vm_compute. reflexivity.
Qed.

Theorem conc_cyclic_deadlock : exists prog progs sched,
  let c := mkCcfg true true true in
  deadlocked c (complete c prog no_cells 100 (length progs) (run_sched c prog no_cells (ginit no_cells progs) sched)) (length progs) = true.
Proof.
  exists (fun _ r => if r =? 1 then Call 0 2 (fun o => Ret o)
                     else if r =? 2 then Call 0 1 (fun o => Ret o) else Ret (Ok 5)),
         [[(0, 1)];[(0, 2)]], [0%nat; 0%nat; 1%nat; 1%nat].
  vm_compute. reflexivity.
Qed.

Theorem conc_full_refuted : ~ conc_full_statement.
Proof.
  intros H.
  specialize (H (mkCcfg true false false) (fun _ _ => Ret (Ok 5)) no_cells 1%nat [[(0, 1)];[(0, 1)]] [0%nat; 1%nat]).
  destruct H as (_ & _ & Hp & _). specialize (Hp 1%nat). destruct Hp as (k & Hk).
  vm_compute in Hk. destruct k as [|k]; [discriminate Hk|].
  destruct k; discriminate Hk.
Qed.

(** every run of the fixed code on an acyclic document terminates with all threads finished *)
Theorem conc_terminates : forall c prog cells rank progs sched,
  per_thread c = true -> acyclic prog rank ->
  exists fuel, all_finished (complete c prog cells fuel (length progs)
                                      (run_sched c prog cells (ginit cells progs) sched)) (length progs) = true.
Proof.
  intros c prog cells rank progs sched Hpt Hac.
  exists (gmeas prog cells rank progs (run_sched c prog cells (ginit cells progs) sched)).
  apply (complete_finishes c prog cells rank Hpt Hac progs); [|apply Nat.le_refl].
  apply (run_inv c prog cells rank Hpt Hac progs). apply Inv_init.
Qed.

(** the once-cell protocol under every schedule: a value that has been published into a lazy cell is the
    sequential answer of the reference the cell holds, and the cell is never written again (exactly one
    publication per cell; concurrent initialisers are serialised; later loads clone the published value) *)
Theorem conc_cell_once : forall c prog cells rank progs sched1 sched2 i o,
  per_thread c = true -> acyclic prog rank ->
  let g1 := run_sched c prog cells (ginit cells progs) sched1 in
  cellst g1 i = CFull o ->
  o = D prog rank (fst (cells i)) (snd (cells i)) /\
  cellst (run_sched c prog cells g1 sched2) i = CFull o.
Proof.
  intros c prog cells rank progs sched1 sched2 i o Hpt Hac g1 Hi.
  assert (HI : Inv c prog cells rank progs g1).
  { apply (run_inv c prog cells rank Hpt Hac progs). apply Inv_init. }
  split; [exact (inv_cf c prog cells rank progs g1 HI i o Hi)|].
  clearbody g1. revert g1 HI Hi. unfold run_sched.
  induction sched2 as [|t sched2 IH]; intros g1 HI Hi; cbn [fold_left]; [exact Hi|].
  apply IH; [apply step_inv; assumption|apply (step_keeps_full c prog cells rank progs); assumption].
Qed.
