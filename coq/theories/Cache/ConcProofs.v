(** Cache/ConcProofs.v — proofs about the interleaving model Cache/Conc.v (property C13).

    Positive result: with the guard keyed by thread ([per_thread c = true]) and an acyclic document, every
    schedule of every set of reader threads gives each thread exactly the sequential answers, never panics,
    never poisons the chain mutex, never aborts and never deadlocks ([conc_per_thread_chain]).
    Negative results: with the shared guard stack the same programs yield a spurious "Recursive reference"
    error, a poisoned mutex with panics in both threads, or a process abort; and with cyclic eager references
    the cache protocol deadlocks even with the fixed guard. *)
From PdfV Require Import Base.Prelude Gen.Generated Cache.Model Cache.Conc Cache.Proofs.

(** The sequential answer of a typed call is the chain-free, cache-free denotation [D prog rank ty r] of
    Cache/Proofs.v (property C12): what get::<ty>(r) returns when it runs alone. *)
Definition call_ans (seq : tytag -> ref -> outcome) (cl : tcall) : outcome := seq (fst cl) (snd cl).

Definition prefix_ok (seq : tytag -> ref -> outcome) (calls : list tcall) (res : list outcome) : Prop :=
  exists k, res = map (call_ans seq) (firstn k calls).

Definition state_ok (c : ccfg) (seq : tytag -> ref -> outcome) (progs : list (list tcall)) (g : gstate) : Prop :=
  aborted g = false /\ (forall rs, poisoned g rs = false) /\
  (forall t, prefix_ok seq (nth t progs []) (results (threads g t))) /\
  (forall t, finished g t = true -> results (threads g t) = map (call_ans seq) (nth t progs [])) /\
  deadlocked c g (length progs) = false.

Definition conc_statement (c : ccfg) (prog : tytag -> ref -> comp) (seq : tytag -> ref -> outcome) : Prop :=
  forall progs sched, state_ok c seq progs (run_sched c prog (ginit progs) sched).

(** * generic list facts *)

Lemma split_last_app l x : split_last (l ++ [x]) = Some (l, x).
Proof.
  induction l as [|a l IH]; [reflexivity|].
  cbn [app split_last]. rewrite IH.
  destruct (l ++ [x]) as [|y l'] eqn:E; [|reflexivity].
  apply app_eq_nil in E. destruct E as [_ E]. discriminate E.
Qed.

Lemma map_prefix {A B} (f : A -> B) (l1 l2 : list B) (l : list A) :
  l1 ++ l2 = map f l -> l1 = map f (firstn (length l1) l).
Proof.
  intros H. apply (f_equal (firstn (length l1))) in H.
  rewrite firstn_app, firstn_all, Nat.sub_diag, firstn_O, app_nil_r, firstn_map in H. exact H.
Qed.

Lemma first_enabled_none c g : forall n s,
  first_enabled c g n s = None -> forall t, (s <= t < s + n)%nat -> enabled c g t = false.
Proof.
  induction n as [|n IH]; intros s H t Ht; [lia|].
  cbn [first_enabled] in H.
  destruct (enabled c g s) eqn:E; [discriminate H|].
  destruct (Nat.eq_dec t s) as [->|Hne]; [exact E|].
  apply (IH (S s) H). lia.
Qed.

Lemma forallb_false {A} (f : A -> bool) l :
  forallb f l = false -> exists x, In x l /\ f x = false.
Proof.
  induction l as [|a l IH]; cbn [forallb]; intros H; [discriminate H|].
  destruct (f a) eqn:E.
  - cbn [andb] in H. destruct (IH H) as (x & Hi & Hx). exists x. split; [right; exact Hi|exact Hx].
  - exists a. split; [left; reflexivity|exact E].
Qed.

Lemma all_finished_false g n :
  all_finished g n = false -> exists t, (t < n)%nat /\ finished g t = false.
Proof.
  unfold all_finished. intros H. apply forallb_false in H.
  destruct H as (t & Hi & Ht). exists t. split; [|exact Ht].
  apply in_seq in Hi. lia.
Qed.

(** * the invariant of the fixed guard on an acyclic document *)
Section Safe.
  Variable c : ccfg.
  Variable prog : tytag -> ref -> comp.
  Variable rank : ref -> nat.
  Hypothesis Hpt : per_thread c = true.
  Hypothesis Hac : acyclic prog rank.
  Variable progs : list (list tcall).

  Notation D := (Proofs.D prog rank).
  Notation evD := (evalD prog rank).
  Notation bnd := (bounded rank).
  Notation Dc := (call_ans D).

  Lemma D_eval ty r : D ty r = evD (prog ty r).
  Proof. apply cache_D_unfold. exact Hac. Qed.

  (* the frames below a frame of the call get::<cty>(child), down to the top-level call [bot] *)
  Fixpoint lower_ok (child : ref) (cty : tytag) (st : list frame) (bot : tcall) : Prop :=
    match st with
    | [] => (cty, child) = bot
    | (r, ty, p) :: rest =>
        match p with
        | InCall _ k => (rank child < rank r)%nat /\ (forall o, bnd (rank r) (k o)) /\
                      evD (k (D cty child)) = D ty r /\ lower_ok r ty rest bot
        | _ => False
        end
    end.

  (* a value or error found in the cache ([AtHit]) is the answer of the type it was computed as — whatever that
     type and whatever the error kind; everything this call computed itself is the answer of its own type *)
  Definition top_ok (p : pc) (r : ref) (ty : tytag) : Prop :=
    match p with
    | AtEnter | AtPushed => True
    | InCall _ _ => False
    | AtHit ty' o => o = D ty' r
    | AtPublish o | AtCached o | AtLeave o => o = D ty r
    end.

  Definition pushed (p : pc) : bool := match p with AtEnter => false | _ => true end.

  Definition thread_ok (calls : list tcall) (th : thread) (ch : list ref) : Prop :=
    match stack th with
    | [] => todo th = [] /\ results th = map Dc calls /\ ch = []
    | (r, ty, p) :: rest =>
        exists bot, top_ok p r ty /\ lower_ok r ty rest bot /\
          results th ++ Dc bot :: map Dc (todo th) = map Dc calls /\
          ch = rev (map fref rest) ++ (if pushed p then [r] else [])
    end.

  (* the frames that have to publish an entry: the compute closure, not the uncached re-load *)
  Definition is_owner (p : pc) : bool :=
    match p with InCall fb _ => negb fb | AtPublish _ => true | _ => false end.
  Definition owns (st : list frame) (r : ref) : Prop := exists ty p, In (r, ty, p) st /\ is_owner p = true.

  Record Inv (g : gstate) : Prop := {
    inv_ab : aborted g = false;
    inv_po : forall rs, poisoned g rs = false;
    inv_ca : forall r ty o, cache g r = Some (Computed ty o) -> o = D ty r;
    inv_th : forall t, thread_ok (nth t progs []) (threads g t) (chains g (res_of c t) (tkey c t));
    inv_ow : forall r, cache g r = Some InProcess ->
                       cache_on c = true /\ exists t, owns (stack (threads g t)) r
  }.

  Lemma lower_rank : forall rest r ty bot x,
    lower_ok r ty rest bot -> In x (map fref rest) -> (rank r < rank x)%nat.
  Proof.
    induction rest as [|[[r1 ty1] p1] rest IH]; intros r ty bot x H Hin; cbn [map In fref fst lower_ok] in *; [contradiction|].
    destruct p1; try contradiction.
    destruct H as (H1 & _ & _ & H4).
    destruct Hin as [<-|Hin]; [exact H1|].
    specialize (IH _ _ _ _ H4 Hin). lia.
  Qed.

  Lemma not_in_chain r ty rest bot : lower_ok r ty rest bot -> memN r (rev (map fref rest)) = false.
  Proof.
    intros H. destruct (memN r (rev (map fref rest))) eqn:E; [|reflexivity].
    apply memN_In in E. apply in_rev in E. apply (lower_rank _ _ _ _ _ H) in E. lia.
  Qed.

  Lemma advance_ok fb r ty p rest bot :
    bnd (rank r) p -> evD p = D ty r -> lower_ok r ty rest bot ->
    exists r2 ty2 p2 rest2, advance c fb r ty p rest = (r2, ty2, p2) :: rest2 /\ top_ok p2 r2 ty2 /\
      lower_ok r2 ty2 rest2 bot /\
      rev (map fref rest2) ++ (if pushed p2 then [r2] else []) = rev (map fref rest) ++ [r].
  Proof.
    intros Hb He Hl. destruct p as [o|ty' r' k]; cbn [advance].
    - exists r, ty, (if fb then AtLeave o else if cache_on c then AtPublish o else AtCached o), rest.
      cbn [evalD] in He. destruct fb; [|destruct (cache_on c)]; cbn [top_ok pushed]; auto.
    - exists r', ty', AtEnter, ((r, ty, InCall fb k) :: rest).
      cbn [bounded] in Hb. destruct Hb as [Hr Hk]. cbn [evalD] in He.
      cbn [top_ok pushed lower_ok map fref fst rev]. rewrite app_nil_r. auto 10.
  Qed.

  Lemma owns_cons f st x : owns st x -> owns (f :: st) x.
  Proof. intros (ty & p & Hi & Ho). exists ty, p. split; [right; exact Hi|exact Ho]. Qed.

  Lemma owns_tail r ty p st x : owns ((r, ty, p) :: st) x -> is_owner p = false \/ x <> r -> owns st x.
  Proof.
    intros (ty' & p' & Hi & Ho) Hn. destruct Hi as [E|Hi]; [|exists ty', p'; auto].
    inversion E; subst. destruct Hn as [Hn|Hn]; [congruence|contradiction].
  Qed.

  Lemma owns_advance r ty p rest : cache_on c = true -> owns (advance c false r ty p rest) r.
  Proof.
    intros Hc. destruct p as [o|ty' r' k]; cbn [advance].
    - rewrite Hc. exists ty, (AtPublish o). split; [left; reflexivity|reflexivity].
    - exists ty, (InCall false k). split; [right; left; reflexivity|reflexivity].
  Qed.

  Lemma owns_advance_rest fb r ty p rest x : owns rest x -> owns (advance c fb r ty p rest) x.
  Proof.
    intros H. destruct p as [o|ty' r' k]; cbn [advance]; repeat apply owns_cons; exact H.
  Qed.

  Lemma chain_frame (ch : N -> N -> list ref) t t' x : t' <> t ->
    updN ch (res_of c t) (updN (ch (res_of c t)) (tkey c t) x) (res_of c t') (tkey c t') =
    ch (res_of c t') (tkey c t').
  Proof.
    intros Hne. unfold updN.
    destruct (N.eqb_spec (res_of c t') (res_of c t)) as [E|E]; [|reflexivity].
    rewrite E. destruct (N.eqb_spec (tkey c t') (tkey c t)) as [E2|E2]; [|reflexivity].
    unfold tkey in E2. rewrite Hpt in E2. lia.
  Qed.

  Lemma chain_self (ch : N -> N -> list ref) t x :
    updN ch (res_of c t) (updN (ch (res_of c t)) (tkey c t) x) (res_of c t) (tkey c t) = x.
  Proof. unfold updN. rewrite !N.eqb_refl. reflexivity. Qed.

  Lemma upd_same {A} (f : tid -> A) t x : upd f t x t = x.
  Proof. unfold upd. rewrite Nat.eqb_refl. reflexivity. Qed.

  Lemma upd_other {A} (f : tid -> A) t t' x : t' <> t -> upd f t x t' = f t'.
  Proof. intros H. unfold upd. apply Nat.eqb_neq in H. rewrite H. reflexivity. Qed.

  (* rebuilding the invariant after thread t moved *)
  Lemma Inv_update g t th' chains' cache' :
    Inv g ->
    (forall t', t' <> t -> chains' (res_of c t') (tkey c t') = chains g (res_of c t') (tkey c t')) ->
    thread_ok (nth t progs []) th' (chains' (res_of c t) (tkey c t)) ->
    (forall r ty o, cache' r = Some (Computed ty o) -> o = D ty r) ->
    (forall r, cache' r = Some InProcess ->
               cache_on c = true /\ exists t2, owns (stack (upd (threads g) t th' t2)) r) ->
    Inv (mkG chains' (poisoned g) cache' (upd (threads g) t th') (aborted g)).
  Proof.
    intros HI Hfr Hth Hca How. constructor; cbn [aborted poisoned cache threads chains].
    - apply HI.
    - apply HI.
    - exact Hca.
    - intros t'. destruct (Nat.eq_dec t' t) as [->|Hne].
      + rewrite upd_same. exact Hth.
      + rewrite upd_other by exact Hne. rewrite Hfr by exact Hne. apply HI.
    - exact How.
  Qed.

  (* the owners when the cache is unchanged and the mover keeps what it owns *)
  Lemma owners_keep g t th' :
    Inv g ->
    (forall r, cache_on c = true -> owns (stack (threads g t)) r -> owns (stack th') r) ->
    forall r, cache g r = Some InProcess ->
              cache_on c = true /\ exists t2, owns (stack (upd (threads g) t th' t2)) r.
  Proof.
    intros HI Hk r Hr. destruct (inv_ow g HI r Hr) as (Hc & t2 & Ho). split; [exact Hc|].
    exists t2. destruct (Nat.eq_dec t2 t) as [->|Hne].
    - rewrite upd_same. apply Hk; assumption.
    - rewrite upd_other by exact Hne. exact Ho.
  Qed.

  Lemma owns_nil x : ~ owns [] x.
  Proof. intros (ty & p & Hi & _). destruct Hi. Qed.

  Lemma step_inv g t : Inv g -> Inv (step c prog g t).
  Proof.
    intros HI. unfold step, step_gen. rewrite (inv_ab g HI).
    destruct (stack (threads g t)) as [|[[r ty] p] rest] eqn:Hst; [exact HI|].
    pose proof (inv_th g HI t) as Hth. unfold thread_ok in Hth. rewrite Hst in Hth.
    destruct Hth as (bot & Htop & Hlow & Hres & Hch).
    cbv zeta. rewrite (inv_po g HI).
    (* the uncached re-load of this frame (a cached error of any kind, or a value of another type, was found) *)
    destruct p as [| |fb k|o|o|ty' o|o]; cbn [pushed top_ok] in Htop, Hch.
    - (* AtEnter: push *)
      rewrite app_nil_r in Hch. rewrite Hch, (not_in_chain _ _ _ _ Hlow).
      unfold set_thread, set_chain; cbn [chains poisoned cache threads aborted].
      apply Inv_update.
      + exact HI.
      + intros t' Hne. apply chain_frame. exact Hne.
      + rewrite chain_self. unfold thread_ok; cbn [stack todo results].
        exists bot. cbn [top_ok pushed]. auto.
      + apply HI.
      + apply owners_keep; [exact HI|]. intros x _ Ho. rewrite Hst in Ho. cbn [stack].
        apply owns_cons. apply (owns_tail _ _ _ _ _ Ho). left; reflexivity.
    - (* AtPushed *)
      destruct (advance_ok false r ty (prog ty r) rest bot (Hac ty r) (eq_sym (D_eval ty r)) Hlow)
        as (r2 & ty2 & p2 & rest2 & Ea & Ht2 & Hl2 & Hc2).
      assert (Hthk : thread_ok (nth t progs [])
                (mkThread (advance c false r ty (prog ty r) rest) (todo (threads g t)) (results (threads g t)))
                (chains g (res_of c t) (tkey c t))).
      { unfold thread_ok; cbn [stack todo results]. rewrite Ea. exists bot.
        rewrite Hc2. auto. }
      destruct (cache_on c) eqn:Hc.
      + destruct (cache g r) as [[|ty' o]|] eqn:Hcr.
        * exact HI.
        * unfold set_thread; cbn [chains poisoned cache threads aborted].
          apply Inv_update.
          -- exact HI.
          -- reflexivity.
          -- unfold thread_ok; cbn [stack todo results]. exists bot. cbn [top_ok pushed].
             pose proof (inv_ca g HI _ _ _ Hcr). auto.
          -- apply HI.
          -- apply owners_keep; [exact HI|]. intros x _ Ho. rewrite Hst in Ho. cbn [stack].
             apply owns_cons. apply (owns_tail _ _ _ _ _ Ho). left; reflexivity.
        * unfold set_thread, set_cache; cbn [chains poisoned cache threads aborted].
          apply Inv_update.
          -- exact HI.
          -- reflexivity.
          -- exact Hthk.
          -- intros x tyx o Hx. unfold updN in Hx. destruct (x =? r); [discriminate Hx|].
             exact (inv_ca g HI _ _ _ Hx).
          -- intros x Hx. split; [exact Hc|]. unfold updN in Hx.
             destruct (N.eqb_spec x r) as [Exr|Hne]; [subst x|].
             ++ exists t. rewrite upd_same. cbn [stack]. apply owns_advance. exact Hc.
             ++ destruct (inv_ow g HI x Hx) as (_ & t2 & Ho). exists t2.
                destruct (Nat.eq_dec t2 t) as [->|Hne2];
                  [rewrite upd_same|rewrite upd_other by exact Hne2; exact Ho].
                cbn [stack]. rewrite Hst in Ho. apply owns_advance_rest.
                apply (owns_tail _ _ _ _ _ Ho). left; reflexivity.
      + unfold set_thread; cbn [chains poisoned cache threads aborted].
        apply Inv_update.
        * exact HI.
        * reflexivity.
        * exact Hthk.
        * apply HI.
        * apply owners_keep; [exact HI|]. intros x _ Ho. rewrite Hst in Ho. cbn [stack].
          apply owns_advance_rest. apply (owns_tail _ _ _ _ _ Ho). left; reflexivity.
    - (* InCall *) exact HI.
    - (* AtPublish *)
      unfold set_thread, set_cache; cbn [chains poisoned cache threads aborted].
      apply Inv_update.
      + exact HI.
      + reflexivity.
      + unfold thread_ok; cbn [stack todo results]. exists bot. cbn [top_ok pushed]. auto.
      + intros x tyx o' Hx. unfold updN in Hx. destruct (N.eqb_spec x r) as [Exr|Hne]; [subst x|].
        * injection Hx as <- <-. exact Htop.
        * exact (inv_ca g HI _ _ _ Hx).
      + intros x Hx. unfold updN in Hx. destruct (N.eqb_spec x r) as [Exr|Hne]; [subst x|]; [discriminate Hx|].
        destruct (inv_ow g HI x Hx) as (Hcc & t2 & Ho). split; [exact Hcc|]. exists t2.
        destruct (Nat.eq_dec t2 t) as [->|Hne2];
          [rewrite upd_same|rewrite upd_other by exact Hne2; exact Ho].
        cbn [stack]. rewrite Hst in Ho. apply owns_cons.
        apply (owns_tail _ _ _ _ _ Ho). right; exact Hne.
    - (* AtCached *)
      unfold set_thread; cbn [chains poisoned cache threads aborted].
      apply Inv_update.
      + exact HI.
      + reflexivity.
      + unfold thread_ok; cbn [stack todo results]. exists bot. cbn [top_ok pushed]. auto.
      + apply HI.
      + apply owners_keep; [exact HI|]. intros x _ Ho. rewrite Hst in Ho. cbn [stack].
        apply owns_cons. apply (owns_tail _ _ _ _ _ Ho). left; reflexivity.
    - (* AtHit: served only if it is a value of the requested type; otherwise the load is repeated uncached *)
      assert (Hreload : Inv (set_thread g t (mkThread (advance c true r ty (prog ty r) rest) (todo (threads g t))
                                                      (results (threads g t))))).
      { destruct (advance_ok true r ty (prog ty r) rest bot (Hac ty r) (eq_sym (D_eval ty r)) Hlow)
          as (r2 & ty2 & p2 & rest2 & Ea & Ht2 & Hl2 & Hc2).
        unfold set_thread; cbn [chains poisoned cache threads aborted].
        apply Inv_update.
        + exact HI.
        + reflexivity.
        + unfold thread_ok; cbn [stack todo results]. rewrite Ea. exists bot. rewrite Hc2. auto.
        + apply HI.
        + apply owners_keep; [exact HI|]. intros x _ Ho. rewrite Hst in Ho. cbn [stack].
          apply owns_advance_rest. apply (owns_tail _ _ _ _ _ Ho). left; reflexivity. }
      destruct o as [v|e|s|]; try exact Hreload.
      destruct (N.eqb_spec ty' ty) as [Ety|Hne]; [subst ty'|exact Hreload].
      unfold set_thread; cbn [chains poisoned cache threads aborted].
      apply Inv_update.
      + exact HI.
      + reflexivity.
      + unfold thread_ok; cbn [stack todo results]. exists bot. cbn [top_ok pushed]. auto.
      + apply HI.
      + apply owners_keep; [exact HI|]. intros x _ Ho. rewrite Hst in Ho. cbn [stack].
        apply owns_cons. apply (owns_tail _ _ _ _ _ Ho). left; reflexivity.
    - (* AtLeave: pop *)
      rewrite Hch, split_last_app, N.eqb_refl.
      unfold set_thread, set_chain; cbn [chains poisoned cache threads aborted].
      destruct rest as [|[[r' ty'] p'] rest'].
      + cbn [lower_ok] in Hlow. subst bot. subst o. cbn [return_to].
        apply Inv_update.
        * exact HI.
        * intros t' Hne. apply chain_frame. exact Hne.
        * rewrite chain_self. cbn [map rev].
          destruct (todo (threads g t)) as [|[ty1 r1] todo'] eqn:Htd;
            unfold next_call, thread_ok; cbn [stack todo results].
          -- cbn [map] in Hres. auto.
          -- exists (ty1, r1). cbn [top_ok lower_ok pushed map rev app].
             rewrite <- app_assoc. cbn [app map] in Hres |- *. auto.
        * apply HI.
        * apply owners_keep; [exact HI|]. intros x _ Ho. rewrite Hst in Ho.
          exfalso. apply (owns_nil x). apply (owns_tail _ _ _ _ _ Ho). left; reflexivity.
      + cbn [lower_ok] in Hlow. destruct p' as [| |fb k|o'|o'|ty'' o'|o']; try contradiction.
        destruct Hlow as (Hrk & Hbk & Hev & Hlow'). subst o. cbn [return_to].
        destruct (advance_ok fb r' ty' (k (D ty r)) rest' bot (Hbk _) Hev Hlow')
          as (r2 & ty2 & p2 & rest2 & Ea & Ht2 & Hl2 & Hc2).
        apply Inv_update.
        * exact HI.
        * intros t' Hne. apply chain_frame. exact Hne.
        * rewrite chain_self. unfold thread_ok; cbn [stack todo results]. rewrite Ea.
          exists bot. rewrite Hc2. cbn [map fref fst rev]. auto.
        * apply HI.
        * apply owners_keep; [exact HI|]. intros x Hcc Ho. rewrite Hst in Ho. cbn [stack].
          apply owns_tail in Ho; [|left; reflexivity].
          destruct fb.
          -- apply owns_advance_rest. apply (owns_tail _ _ _ _ _ Ho). left; reflexivity.
          -- destruct (N.eq_dec x r') as [->|Hne].
             ++ apply owns_advance. exact Hcc.
             ++ apply owns_advance_rest. apply (owns_tail _ _ _ _ _ Ho). right; exact Hne.
  Qed.

  (** deadlock freedom: a blocked thread waits for an entry whose owner is enabled or itself blocked on a
      reference of strictly smaller rank *)
  Lemma progress g : Inv g ->
    forall m t r ty p rest, stack (threads g t) = (r, ty, p) :: rest -> (rank r < m)%nat ->
    exists t', enabled c g t' = true.
  Proof.
    intros HI. induction m as [|m IH]; intros t r ty p rest Hst Hr; [lia|].
    pose proof (inv_th g HI t) as Hth. unfold thread_ok in Hth. rewrite Hst in Hth.
    destruct Hth as (bot & Htop & Hlow & _ & _).
    assert (Hen : enabled c g t = true \/ (p = AtPushed /\ cache g r = Some InProcess)).
    { unfold enabled. rewrite (inv_ab g HI), Hst. cbn [negb andb].
      destruct p; cbn [top_ok] in Htop; auto; try contradiction.
      destruct (cache_on c); auto. destruct (cache g r) as [[|ty' o]|]; auto. }
    destruct Hen as [Hen|[-> Hcr]]; [exists t; exact Hen|].
    destruct (inv_ow g HI r Hcr) as (_ & t2 & ty2 & p2 & Hin & Hown).
    destruct (stack (threads g t2)) as [|[[r2 ty2'] p2'] rest2] eqn:Hst2; [destruct Hin|].
    pose proof (inv_th g HI t2) as Hth2. unfold thread_ok in Hth2. rewrite Hst2 in Hth2.
    destruct Hth2 as (bot2 & Htop2 & Hlow2 & _ & _).
    destruct Hin as [E|Hin].
    - inversion E; subst r2 ty2' p2'. exists t2. unfold enabled. rewrite (inv_ab g HI), Hst2.
      destruct p2; cbn [is_owner] in Hown; try discriminate Hown; [contradiction Htop2|reflexivity].
    - apply (IH t2 r2 ty2' p2' rest2 Hst2).
      apply (in_map fref) in Hin. cbn [fref fst] in Hin.
      pose proof (lower_rank _ _ _ _ _ Hlow2 Hin). lia.
  Qed.

  Lemma stack_nonempty_lt g t : Inv g -> stack (threads g t) <> [] -> (t < length progs)%nat.
  Proof.
    intros HI Hne. destruct (Nat.lt_ge_cases t (length progs)) as [H|H]; [exact H|]. exfalso.
    pose proof (inv_th g HI t) as Hth. rewrite (nth_overflow _ _ H) in Hth. unfold thread_ok in Hth.
    destruct (stack (threads g t)) as [|[[r ty] p] rest]; [congruence|].
    destruct Hth as (bot & _ & _ & Hres & _). cbn [map] in Hres.
    exact (app_cons_not_nil _ _ _ (eq_sym Hres)).
  Qed.

  Lemma no_deadlock g : Inv g -> deadlocked c g (length progs) = false.
  Proof.
    intros HI. unfold deadlocked. rewrite (inv_ab g HI). cbn [negb andb].
    destruct (all_finished g (length progs)) eqn:Haf; [reflexivity|]. cbn [negb andb].
    destruct (first_enabled c g (length progs) 0%nat) eqn:Hfe; [reflexivity|]. exfalso.
    apply all_finished_false in Haf. destruct Haf as (t & Ht & Hf).
    unfold finished in Hf. destruct (stack (threads g t)) as [|[[r ty] p] rest] eqn:Hst; [discriminate Hf|].
    destruct (progress g HI (S (rank r)) t r ty p rest Hst (Nat.lt_succ_diag_r _)) as (t' & Hen).
    assert (Hlt : (t' < length progs)%nat).
    { apply (stack_nonempty_lt g t' HI). intros E. unfold enabled in Hen. rewrite E in Hen.
      rewrite andb_false_r in Hen. discriminate Hen. }
    rewrite (first_enabled_none c g _ _ Hfe t') in Hen by lia. discriminate Hen.
  Qed.

  Lemma Inv_state_ok g : Inv g -> state_ok c D progs g.
  Proof.
    intros HI. split; [apply HI|]. split; [apply HI|]. split; [|split].
    - intros t. pose proof (inv_th g HI t) as Hth. unfold thread_ok in Hth.
      destruct (stack (threads g t)) as [|[[r ty] p] rest].
      + destruct Hth as (_ & Hr & _). exists (length (nth t progs [])). rewrite firstn_all. exact Hr.
      + destruct Hth as (bot & _ & _ & Hres & _). eexists. exact (map_prefix _ _ _ _ Hres).
    - intros t Hf. unfold finished in Hf. pose proof (inv_th g HI t) as Hth. unfold thread_ok in Hth.
      destruct (stack (threads g t)) as [|[[r ty] p] rest]; [|discriminate Hf]. apply Hth.
    - apply no_deadlock. exact HI.
  Qed.

  Lemma init_threads_spec : forall ps s t,
    init_threads ps s t = init_thread (if (s <=? t)%nat then nth (t - s) ps [] else []).
  Proof.
    induction ps as [|p ps IH]; intros s t; cbn [init_threads].
    - destruct (s <=? t)%nat; [destruct (t - s)%nat|]; reflexivity.
    - unfold upd. destruct (Nat.eqb_spec t s) as [E|Hne].
      + subst t. rewrite Nat.leb_refl, Nat.sub_diag. reflexivity.
      + rewrite IH. destruct (Nat.leb_spec s t) as [H1|H1]; destruct (Nat.leb_spec (S s) t) as [H2|H2]; try lia.
        * replace (t - s)%nat with (S (t - S s)) by lia. reflexivity.
        * reflexivity.
  Qed.

  Lemma Inv_init : Inv (ginit progs).
  Proof.
    unfold ginit. constructor; cbn [aborted poisoned cache threads chains].
    - reflexivity.
    - reflexivity.
    - intros r ty o H. discriminate H.
    - intros t. rewrite init_threads_spec. cbn [Nat.leb]. rewrite Nat.sub_0_r.
      generalize (nth t progs []) as calls. intros [|[ty0 r0] calls];
        unfold thread_ok, init_thread, next_call; cbn [stack todo results].
      + auto.
      + exists (ty0, r0). cbn [top_ok lower_ok pushed map rev app]. auto.
    - intros r H. discriminate H.
  Qed.

  Lemma run_inv sched : forall g, Inv g -> Inv (run_sched c prog g sched).
  Proof.
    unfold run_sched. induction sched as [|t sched IH]; intros g HI; cbn [fold_left]; [exact HI|].
    apply IH. apply step_inv. exact HI.
  Qed.

  (** * termination: a step of an enabled thread decreases the remaining work *)
  Fixpoint pcostn (d : tytag -> ref -> nat) (p : comp) : nat :=
    match p with
    | Ret _ => O
    | Call ty r k => (d ty r + pcostn d (k (D ty r)))%nat
    end.

  (* number of steps of one get::<ty>(r) when nothing is cached *)
  Fixpoint costn (n : nat) (ty : tytag) (r : ref) : nat :=
    match n with
    | O => O
    | S m => (5 + pcostn (costn m) (prog ty r))%nat
    end.

  Definition cost (ty : tytag) (r : ref) : nat := costn (S (rank r)) ty r.
  Notation pcost := (pcostn cost).

  Lemma pcostn_ext d1 d2 b p :
    bnd b p -> (forall ty r, (rank r < b)%nat -> d1 ty r = d2 ty r) -> pcostn d1 p = pcostn d2 p.
  Proof.
    induction p as [o|ty r' k IH]; cbn [pcostn bounded]; intros Hb Hd; [reflexivity|].
    destruct Hb as [Hr Hk]. rewrite (Hd ty r' Hr). f_equal. apply IH; [apply Hk|exact Hd].
  Qed.

  Lemma costn_stable : forall n m ty r, (rank r < n)%nat -> (rank r < m)%nat -> costn n ty r = costn m ty r.
  Proof.
    induction n as [|n IH]; intros m ty r Hn Hm; [lia|].
    destruct m as [|m]; [lia|].
    cbn [costn]. f_equal. apply pcostn_ext with (b := rank r); [apply Hac|].
    intros ty' r' Hr'. apply IH; lia.
  Qed.

  Lemma cost_eq ty r : cost ty r = (5 + pcost (prog ty r))%nat.
  Proof.
    unfold cost at 1. cbn [costn]. f_equal.
    apply pcostn_ext with (b := rank r); [apply Hac|].
    intros ty' r' Hr'. unfold cost. apply costn_stable; lia.
  Qed.

  Definition top_meas (p : pc) (r : ref) (ty : tytag) : nat :=
    match p with
    | AtEnter => cost ty r
    | AtPushed => 4 + pcost (prog ty r)
    | InCall _ _ => 0
    | AtPublish _ => 3
    | AtCached _ => 2
    | AtHit _ _ => 2 + pcost (prog ty r)
    | AtLeave _ => 1
    end%nat.

  (* steps left after the computation of a frame returned: publish, cached, leave / leave *)
  Definition tailw (fb : bool) : nat := if fb then 1%nat else 3%nat.

  Fixpoint lmeas (child : ref) (cty : tytag) (st : list frame) : nat :=
    match st with
    | [] => O
    | (r, ty, p) :: rest =>
        match p with
        | InCall fb k => (tailw fb + pcost (k (D cty child)) + lmeas r ty rest)%nat
        | _ => O
        end
    end.

  Definition smeas (st : list frame) : nat :=
    match st with
    | [] => O
    | (r, ty, p) :: rest => (top_meas p r ty + lmeas r ty rest)%nat
    end.

  Definition tmeas (th : thread) : nat :=
    (smeas (stack th) + list_sum (map (fun cl => cost (fst cl) (snd cl)) (todo th)))%nat.

  Lemma advance_meas fb r ty p rest :
    (smeas (advance c fb r ty p rest) <= tailw fb + pcost p + lmeas r ty rest)%nat.
  Proof.
    destruct p as [o|ty' r' k]; cbn [advance smeas].
    - destruct fb; [|destruct (cache_on c)]; cbn [top_meas pcostn tailw]; lia.
    - cbn [top_meas lmeas pcostn]. lia.
  Qed.

  Lemma step_meas g t : Inv g -> enabled c g t = true ->
    exists th', threads (step c prog g t) = upd (threads g) t th' /\
                (tmeas th' < tmeas (threads g t))%nat.
  Proof.
    intros HI Hen. unfold enabled in Hen. rewrite (inv_ab g HI) in Hen. cbn [negb andb] in Hen.
    unfold step, step_gen. rewrite (inv_ab g HI).
    destruct (stack (threads g t)) as [|[[r ty] p] rest] eqn:Hst; [discriminate Hen|].
    pose proof (inv_th g HI t) as Hth. unfold thread_ok in Hth. rewrite Hst in Hth.
    destruct Hth as (bot & Htop & Hlow & Hres & Hch).
    cbv zeta. rewrite (inv_po g HI).
    unfold tmeas at 2. rewrite Hst.
    pose proof (advance_meas false r ty (prog ty r) rest) as Hadv.
    pose proof (advance_meas true r ty (prog ty r) rest) as Hadv'.
    cbn [tailw] in Hadv, Hadv'.
    destruct p as [| |fb k|o|o|ty' o|o]; cbn [pushed top_ok] in Htop, Hch; cbn [smeas top_meas].
    - rewrite app_nil_r in Hch. rewrite Hch, (not_in_chain _ _ _ _ Hlow).
      eexists. split; [reflexivity|]. unfold tmeas; cbn [stack todo smeas top_meas].
      rewrite cost_eq. lia.
    - destruct (cache_on c).
      + destruct (cache g r) as [[|ty' o]|]; [discriminate Hen| |];
          (eexists; split; [reflexivity|]); unfold tmeas; cbn [stack todo smeas top_meas]; lia.
      + eexists. split; [reflexivity|]. unfold tmeas; cbn [stack todo]. lia.
    - discriminate Hen.
    - eexists. split; [reflexivity|]. unfold tmeas; cbn [stack todo smeas top_meas]. lia.
    - eexists. split; [reflexivity|]. unfold tmeas; cbn [stack todo smeas top_meas]. lia.
    - destruct o as [v|e|s|]; [destruct (ty' =? ty)| | |]; (eexists; split; [reflexivity|]);
        unfold tmeas; cbn [stack todo smeas top_meas]; lia.
    - rewrite Hch, split_last_app, N.eqb_refl.
      eexists. split; [reflexivity|].
      destruct rest as [|[[r' ty'] p'] rest'].
      + cbn [return_to].
        destruct (todo (threads g t)) as [|[ty1 r1] todo'] eqn:Htd;
          unfold next_call, tmeas; cbn [stack todo results smeas top_meas lmeas map list_sum fold_right fst snd]; lia.
      + cbn [lower_ok] in Hlow. destruct p' as [| |fb k|o'|o'|ty'' o'|o']; try contradiction.
        subst o. cbn [return_to]. unfold tmeas; cbn [stack todo lmeas].
        pose proof (advance_meas fb r' ty' (k (D ty r)) rest'). lia.
  Qed.

  Fixpoint musum (f : tid -> nat) (n : nat) : nat :=
    match n with
    | O => O
    | S m => (musum f m + f m)%nat
    end.

  Lemma musum_upd_ge f t x : forall n, (n <= t)%nat -> musum (upd f t x) n = musum f n.
  Proof.
    induction n as [|n IH]; intros Hn; cbn [musum]; [reflexivity|].
    rewrite IH by lia. rewrite upd_other by lia. reflexivity.
  Qed.

  Lemma musum_upd_lt f t x : forall n, (t < n)%nat -> (x < f t)%nat -> (musum (upd f t x) n < musum f n)%nat.
  Proof.
    induction n as [|n IH]; intros Hn Hx; cbn [musum]; [lia|].
    destruct (Nat.eq_dec t n) as [E|Hne].
    - subst n. rewrite musum_upd_ge by lia. rewrite upd_same. lia.
    - rewrite upd_other by lia. assert (musum (upd f t x) n < musum f n)%nat by (apply IH; lia). lia.
  Qed.

  Definition gmeas (g : gstate) : nat := musum (fun t => tmeas (threads g t)) (length progs).

  Lemma first_enabled_some g : forall n s t,
    first_enabled c g n s = Some t -> enabled c g t = true.
  Proof.
    induction n as [|n IH]; intros s t H; cbn [first_enabled] in H; [discriminate H|].
    destruct (enabled c g s) eqn:E; [inversion H; subst; exact E|].
    exact (IH _ _ H).
  Qed.

  Lemma enabled_decr g t : Inv g -> enabled c g t = true -> (gmeas (step c prog g t) < gmeas g)%nat.
  Proof.
    intros HI Hen. destruct (step_meas g t HI Hen) as (th' & Eth & Hlt).
    unfold gmeas. rewrite Eth.
    assert (Ht : (t < length progs)%nat).
    { apply (stack_nonempty_lt g t HI). intros E. unfold enabled in Hen. rewrite E in Hen.
      rewrite andb_false_r in Hen. discriminate Hen. }
    assert (Hext : forall f f' n, (forall t', f t' = f' t') -> musum f n = musum f' n).
    { intros f f' n Hf. induction n as [|n IH]; cbn [musum]; [reflexivity|]. rewrite IH, Hf. reflexivity. }
    rewrite (Hext _ (upd (fun t0 => tmeas (threads g t0)) t (tmeas th'))).
    - apply musum_upd_lt; [exact Ht|exact Hlt].
    - intros t'. unfold upd. destruct (Nat.eqb t' t); reflexivity.
  Qed.

  Lemma none_finished g : Inv g ->
    first_enabled c g (length progs) 0%nat = None -> all_finished g (length progs) = true.
  Proof.
    intros HI Hfe. pose proof (no_deadlock g HI) as Hd. unfold deadlocked in Hd.
    rewrite (inv_ab g HI), Hfe in Hd. destruct (all_finished g (length progs)); [reflexivity|].
    discriminate Hd.
  Qed.

  Lemma complete_finishes : forall fuel g, Inv g -> (gmeas g <= fuel)%nat ->
    all_finished (complete c prog fuel (length progs) g) (length progs) = true.
  Proof.
    induction fuel as [|fuel IH]; intros g HI Hm; cbn [complete].
    - destruct (first_enabled c g (length progs) 0%nat) as [t|] eqn:Hfe;
        [|apply none_finished; assumption].
      pose proof (enabled_decr g t HI (first_enabled_some g _ _ _ Hfe)). lia.
    - destruct (first_enabled c g (length progs) 0%nat) as [t|] eqn:Hfe;
        [|apply none_finished; assumption].
      pose proof (enabled_decr g t HI (first_enabled_some g _ _ _ Hfe)).
      apply IH; [apply step_inv; exact HI|lia].
  Qed.
End Safe.

Theorem conc_per_thread_chain : forall c prog rank,
  per_thread c = true -> acyclic prog rank -> conc_statement c prog (D prog rank).
Proof.
  intros c prog rank Hpt Hac progs sched.
  apply (Inv_state_ok c prog rank progs).
  apply (run_inv c prog rank Hpt Hac progs).
  apply Inv_init.
Qed.

Theorem conc_complete_is_sched : forall c prog fuel n g,
  exists sched, complete c prog fuel n g = run_sched c prog g sched.
Proof.
  intros c prog. induction fuel as [|fuel IH]; intros n g; cbn [complete].
  - exists []. reflexivity.
  - destruct (first_enabled c g n 0%nat) as [t|].
    + destruct (IH n (step c prog g t)) as (sched & Hs). exists (t :: sched). exact Hs.
    + exists []. reflexivity.
Qed.

Corollary conc_per_thread_complete : forall c prog rank progs sched fuel,
  per_thread c = true -> acyclic prog rank ->
  state_ok c (D prog rank) progs
           (complete c prog fuel (length progs) (run_sched c prog (ginit progs) sched)).
Proof.
  intros c prog rank progs sched fuel Hpt Hac.
  destruct (conc_complete_is_sched c prog fuel (length progs) (run_sched c prog (ginit progs) sched))
    as (sched' & Hs).
  rewrite Hs. unfold run_sched. rewrite <- fold_left_app.
  apply (conc_per_thread_chain c prog rank Hpt Hac progs (sched ++ sched')).
Qed.

Definition conc_full_statement : Prop :=
  forall c prog fuel, conc_statement c prog (fun ty r => fst (get no_cache prog fuel [] ty r init)).

(** * refutations (C13-a: guard stack shared by all threads; C13-b: cyclic eager references) *)

Theorem conc_refuted_shared_chain : exists prog progs sched,
  let c := mkCcfg true false false in
  let g := complete c prog 100 (length progs) (run_sched c prog (ginit progs) sched) in
  results (threads g 1%nat) = [Err E_OTHER] /\
  (forall fuel, fst (get no_cache prog (S fuel) [] 0 1 init) = Ok 5).
Proof.
  exists (fun _ _ => Ret (Ok 5)), [[(0, 1)];[(0, 1)]], [0%nat; 1%nat].
  split; [vm_compute; reflexivity|]. intros fuel. reflexivity.
Qed.

Theorem conc_refuted_pop_assert : exists prog progs sched,
  let c := mkCcfg true false false in
  let g := complete c prog 100 (length progs) (run_sched c prog (ginit progs) sched) in
  poisoned g 0 = true /\ results (threads g 0%nat) = [Panic 1] /\ results (threads g 1%nat) = [Panic 1].
Proof.
  exists (fun _ _ => Ret (Ok 5)), [[(0, 1)];[(0, 2)]], [0%nat; 1%nat; 0%nat; 0%nat; 0%nat].
  vm_compute. auto.
Qed.

Theorem conc_refuted_abort : exists prog progs sched,
  let c := mkCcfg true false false in
  aborted (complete c prog 100 (length progs) (run_sched c prog (ginit progs) sched)) = true.
Proof.
  exists (fun _ r => if r =? 1 then Call 0 2 (fun o => Ret o) else Ret (Ok 5)), [[(0, 1)];[(0, 3)]],
         [0%nat; 0%nat; 0%nat; 1%nat; 0%nat].
  vm_compute. reflexivity.
Qed.

Theorem conc_cyclic_deadlock : exists prog progs sched,
  let c := mkCcfg true true true in
  deadlocked c (complete c prog 100 (length progs) (run_sched c prog (ginit progs) sched)) (length progs) = true.
Proof.
  exists (fun _ r => if r =? 1 then Call 0 2 (fun o => Ret o)
                     else if r =? 2 then Call 0 1 (fun o => Ret o) else Ret (Ok 5)),
         [[(0, 1)];[(0, 2)]], [0%nat; 0%nat; 1%nat; 1%nat].
  vm_compute. reflexivity.
Qed.

Theorem conc_full_refuted : ~ conc_full_statement.
Proof.
  intros H.
  specialize (H (mkCcfg true false false) (fun _ _ => Ret (Ok 5)) 1%nat [[(0, 1)];[(0, 1)]] [0%nat; 1%nat]).
  destruct H as (_ & _ & Hp & _). specialize (Hp 1%nat). destruct Hp as (k & Hk).
  vm_compute in Hk. destruct k as [|k]; [discriminate Hk|].
  destruct k; discriminate Hk.
Qed.

(** every run of the fixed code on an acyclic document terminates with all threads finished *)
Theorem conc_terminates : forall c prog rank progs sched,
  per_thread c = true -> acyclic prog rank ->
  exists fuel, all_finished (complete c prog fuel (length progs) (run_sched c prog (ginit progs) sched))
                            (length progs) = true.
Proof.
  intros c prog rank progs sched Hpt Hac.
  exists (gmeas prog rank progs (run_sched c prog (ginit progs) sched)).
  apply (complete_finishes c prog rank Hpt Hac progs); [|apply Nat.le_refl].
  apply (run_inv c prog rank Hpt Hac progs). apply Inv_init.
Qed.
