(** Cache/ConcProofs.v — proofs about the interleaving model Cache/Conc.v (property C13).

    Positive result: with the guard keyed by thread ([per_thread c = true]) and an acyclic document, every
    schedule of every set of reader threads gives each thread exactly the sequential answers, never panics,
    never poisons the chain mutex, never aborts and never deadlocks ([conc_per_thread_chain]).
    Negative results: with the shared guard stack the same programs yield a spurious "Recursive reference"
    error, a poisoned mutex with panics in both threads, or a process abort; and with cyclic eager references
    the cache protocol deadlocks even with the fixed guard. *)
From PdfV Require Import Base.Prelude Gen.Generated Cache.Model Cache.Conc.

Section CP.
  Variable prog : ref -> comp.
  Variable rank : ref -> nat.

  Fixpoint bounded1 (n : nat) (p : comp) : Prop :=
    match p with
    | Ret _ => True
    | Call _ r k => (rank r < n)%nat /\ forall o, bounded1 n (k o)
    end.

  Definition acyclic1 : Prop := forall r, bounded1 (rank r) (prog r).

  Fixpoint den1 (n : nat) (r : ref) : outcome :=
    match n with
    | O => OutOfFuel
    | S m => (fix ev (p : comp) : outcome :=
                match p with
                | Ret o => o
                | Call _ r' k => ev (k (den1 m r'))
                end) (prog r)
    end.

  Definition D1 (r : ref) : outcome := den1 (S (rank r)) r.       (* the sequential answer *)

  Fixpoint evalD1 (p : comp) : outcome :=
    match p with
    | Ret o => o
    | Call _ r k => evalD1 (k (D1 r))
    end.

  (* evaluation of a computation against an oracle for the nested gets *)
  Fixpoint ev1 (d : ref -> outcome) (p : comp) : outcome :=
    match p with
    | Ret o => o
    | Call _ r k => ev1 d (k (d r))
    end.

  Lemma den1_S m r : den1 (S m) r = ev1 (den1 m) (prog r).
  Proof.
    cbn [den1]. generalize (prog r) as p.
    induction p as [o|ty r' k IH]; cbn [ev1]; [reflexivity|apply IH].
  Qed.

  Lemma ev1_ext d1 d2 b p :
    bounded1 b p -> (forall r, (rank r < b)%nat -> d1 r = d2 r) -> ev1 d1 p = ev1 d2 p.
  Proof.
    induction p as [o|ty r' k IH]; cbn [ev1 bounded1]; intros Hb Hd; [reflexivity|].
    destruct Hb as [Hr Hk]. rewrite (Hd r' Hr). apply IH; [apply Hk|exact Hd].
  Qed.

  Lemma evalD1_ev1 p : evalD1 p = ev1 D1 p.
  Proof. induction p as [o|ty r' k IH]; cbn [evalD1 ev1]; [reflexivity|apply IH]. Qed.

  Hypothesis Hac : acyclic1.

  Lemma den1_stable : forall n m r, (rank r < n)%nat -> (rank r < m)%nat -> den1 n r = den1 m r.
  Proof.
    induction n as [|n IH]; intros m r Hn Hm; [lia|].
    destruct m as [|m]; [lia|].
    rewrite !den1_S. apply ev1_ext with (b := rank r); [apply Hac|].
    intros r' Hr'. apply IH; lia.
  Qed.

  Lemma D1_eval r : D1 r = evalD1 (prog r).
  Proof.
    unfold D1 at 1. rewrite den1_S, evalD1_ev1.
    apply ev1_ext with (b := rank r); [apply Hac|].
    intros r' Hr'. unfold D1. apply den1_stable; lia.
  Qed.
End CP.

Definition prefix_ok (seq : ref -> outcome) (calls : list ref) (res : list outcome) : Prop :=
  exists k, res = map seq (firstn k calls).

Definition state_ok (c : ccfg) (seq : ref -> outcome) (progs : list (list ref)) (g : gstate) : Prop :=
  aborted g = false /\ (forall rs, poisoned g rs = false) /\
  (forall t, prefix_ok seq (nth t progs []) (results (threads g t))) /\
  (forall t, finished g t = true -> results (threads g t) = map seq (nth t progs [])) /\
  deadlocked c g (length progs) = false.

Definition conc_statement (c : ccfg) (prog : ref -> comp) (seq : ref -> outcome) : Prop :=
  forall progs sched, state_ok c seq progs (run_sched c prog (ginit progs) sched).

(** * generic list facts *)

Lemma split_last_app l x : split_last (l ++ [x]) = Some (l, x).
Proof.
  induction l as [|a l IH]; [reflexivity|].
  cbn [app split_last]. rewrite IH.
  destruct (l ++ [x]) as [|y l'] eqn:E; [|reflexivity].
  apply app_eq_nil in E. destruct E as [_ E]. discriminate E.
Qed.

Lemma map_prefix {A B} (f : A -> B) (l1 l2 : list B) (l : list A) :
  l1 ++ l2 = map f l -> l1 = map f (firstn (length l1) l).
Proof.
  intros H. apply (f_equal (firstn (length l1))) in H.
  rewrite firstn_app, firstn_all, Nat.sub_diag, firstn_O, app_nil_r, firstn_map in H. exact H.
Qed.

Lemma first_enabled_none c g : forall n s,
  first_enabled c g n s = None -> forall t, (s <= t < s + n)%nat -> enabled c g t = false.
Proof.
  induction n as [|n IH]; intros s H t Ht; [lia|].
  cbn [first_enabled] in H.
  destruct (enabled c g s) eqn:E; [discriminate H|].
  destruct (Nat.eq_dec t s) as [->|Hne]; [exact E|].
  apply (IH (S s) H). lia.
Qed.

Lemma forallb_false {A} (f : A -> bool) l :
  forallb f l = false -> exists x, In x l /\ f x = false.
Proof.
  induction l as [|a l IH]; cbn [forallb]; intros H; [discriminate H|].
  destruct (f a) eqn:E.
  - cbn [andb] in H. destruct (IH H) as (x & Hi & Hx). exists x. split; [right; exact Hi|exact Hx].
  - exists a. split; [left; reflexivity|exact E].
Qed.

Lemma all_finished_false g n :
  all_finished g n = false -> exists t, (t < n)%nat /\ finished g t = false.
Proof.
  unfold all_finished. intros H. apply forallb_false in H.
  destruct H as (t & Hi & Ht). exists t. split; [|exact Ht].
  apply in_seq in Hi. lia.
Qed.

(** * the invariant of the fixed guard on an acyclic document *)
Section Safe.
  Variable c : ccfg.
  Variable prog : ref -> comp.
  Variable rank : ref -> nat.
  Hypothesis Hpt : per_thread c = true.
  Hypothesis Hac : acyclic1 prog rank.
  Variable progs : list (list ref).

  Notation D := (D1 prog rank).
  Notation evD := (evalD1 prog rank).
  Notation bnd := (bounded1 rank).

  (* the frames below a frame of [child], down to the top-level call [bot] *)
  Fixpoint lower_ok (child : ref) (st : list frame) (bot : ref) : Prop :=
    match st with
    | [] => child = bot
    | (r, p) :: rest =>
        match p with
        | InCall _ k => (rank child < rank r)%nat /\ (forall o, bnd (rank r) (k o)) /\
                      evD (k (D child)) = D r /\ lower_ok r rest bot
        | _ => False
        end
    end.

  Definition top_ok (p : pc) (r : ref) : Prop :=
    match p with
    | AtEnter | AtPushed => True
    | InCall _ _ => False
    | AtPublish o | AtCached o | AtHit o | AtLeave o => o = D r
    end.

  Definition pushed (p : pc) : bool := match p with AtEnter => false | _ => true end.

  Definition thread_ok (calls : list ref) (th : thread) (ch : list ref) : Prop :=
    match stack th with
    | [] => todo th = [] /\ results th = map D calls /\ ch = []
    | (r, p) :: rest =>
        exists bot, top_ok p r /\ lower_ok r rest bot /\
          results th ++ D bot :: map D (todo th) = map D calls /\
          ch = rev (map fst rest) ++ (if pushed p then [r] else [])
    end.

  (* the frames that have to publish an entry: the compute closure, not the uncached re-load *)
  Definition is_owner (p : pc) : bool :=
    match p with InCall fb _ => negb fb | AtPublish _ => true | _ => false end.
  Definition owns (st : list frame) (r : ref) : Prop := exists p, In (r, p) st /\ is_owner p = true.

  Record Inv (g : gstate) : Prop := {
    inv_ab : aborted g = false;
    inv_po : forall rs, poisoned g rs = false;
    inv_ca : forall r o, cache g r = Some (Computed o) -> o = D r;
    inv_th : forall t, thread_ok (nth t progs []) (threads g t) (chains g (res_of c t) (tkey c t));
    inv_ow : forall r, cache g r = Some InProcess ->
                       cache_on c = true /\ exists t, owns (stack (threads g t)) r
  }.

  Lemma lower_rank : forall rest r bot x,
    lower_ok r rest bot -> In x (map fst rest) -> (rank r < rank x)%nat.
  Proof.
    induction rest as [|[r1 p1] rest IH]; intros r bot x H Hin; cbn [map In fst lower_ok] in *; [contradiction|].
    destruct p1; try contradiction.
    destruct H as (H1 & _ & _ & H4).
    destruct Hin as [<-|Hin]; [exact H1|].
    specialize (IH _ _ _ H4 Hin). lia.
  Qed.

  Lemma lower_incall : forall rest r bot x p,
    lower_ok r rest bot -> In (x, p) rest -> exists fb k, p = InCall fb k.
  Proof.
    induction rest as [|[r1 p1] rest IH]; intros r bot x p H Hin; cbn [In lower_ok] in *; [contradiction|].
    destruct p1; try contradiction.
    destruct H as (_ & _ & _ & H4).
    destruct Hin as [E|Hin]; [inversion E; subst; eexists; eexists; reflexivity|].
    exact (IH _ _ _ _ H4 Hin).
  Qed.

  Lemma not_in_chain r rest bot : lower_ok r rest bot -> memN r (rev (map fst rest)) = false.
  Proof.
    intros H. destruct (memN r (rev (map fst rest))) eqn:E; [|reflexivity].
    apply memN_In in E. apply in_rev in E. apply (lower_rank _ _ _ _ H) in E. lia.
  Qed.

  Lemma advance_ok fb r p rest bot :
    bnd (rank r) p -> evD p = D r -> lower_ok r rest bot ->
    exists r2 p2 rest2, advance c fb r p rest = (r2, p2) :: rest2 /\ top_ok p2 r2 /\ lower_ok r2 rest2 bot /\
      rev (map fst rest2) ++ (if pushed p2 then [r2] else []) = rev (map fst rest) ++ [r].
  Proof.
    intros Hb He Hl. destruct p as [o|ty r' k]; cbn [advance].
    - exists r, (if fb then AtLeave o else if cache_on c then AtPublish o else AtCached o), rest.
      cbn [evalD1] in He. destruct fb; [|destruct (cache_on c)]; cbn [top_ok pushed]; auto.
    - exists r', AtEnter, ((r, InCall fb k) :: rest).
      cbn [bounded1] in Hb. destruct Hb as [Hr Hk]. cbn [evalD1] in He.
      cbn [top_ok pushed lower_ok map fst rev]. rewrite app_nil_r. auto 10.
  Qed.

  Lemma owns_cons f st x : owns st x -> owns (f :: st) x.
  Proof. intros (p & Hi & Ho). exists p. split; [right; exact Hi|exact Ho]. Qed.

  Lemma owns_tail r p st x : owns ((r, p) :: st) x -> is_owner p = false \/ x <> r -> owns st x.
  Proof.
    intros (p' & Hi & Ho) Hn. destruct Hi as [E|Hi]; [|exists p'; auto].
    inversion E; subst. destruct Hn as [Hn|Hn]; [congruence|contradiction].
  Qed.

  Lemma owns_advance r p rest : cache_on c = true -> owns (advance c false r p rest) r.
  Proof.
    intros Hc. destruct p as [o|ty r' k]; cbn [advance].
    - rewrite Hc. exists (AtPublish o). split; [left; reflexivity|reflexivity].
    - exists (InCall false k). split; [right; left; reflexivity|reflexivity].
  Qed.

  Lemma owns_advance_rest fb r p rest x : owns rest x -> owns (advance c fb r p rest) x.
  Proof.
    intros H. destruct p as [o|ty r' k]; cbn [advance]; repeat apply owns_cons; exact H.
  Qed.

  Lemma chain_frame (ch : N -> N -> list ref) t t' x : t' <> t ->
    updN ch (res_of c t) (updN (ch (res_of c t)) (tkey c t) x) (res_of c t') (tkey c t') =
    ch (res_of c t') (tkey c t').
  Proof.
    intros Hne. unfold updN.
    destruct (N.eqb_spec (res_of c t') (res_of c t)) as [E|E]; [|reflexivity].
    rewrite E. destruct (N.eqb_spec (tkey c t') (tkey c t)) as [E2|E2]; [|reflexivity].
    unfold tkey in E2. rewrite Hpt in E2. lia.
  Qed.

  Lemma chain_self (ch : N -> N -> list ref) t x :
    updN ch (res_of c t) (updN (ch (res_of c t)) (tkey c t) x) (res_of c t) (tkey c t) = x.
  Proof. unfold updN. rewrite !N.eqb_refl. reflexivity. Qed.

  Lemma upd_same {A} (f : tid -> A) t x : upd f t x t = x.
  Proof. unfold upd. rewrite Nat.eqb_refl. reflexivity. Qed.

  Lemma upd_other {A} (f : tid -> A) t t' x : t' <> t -> upd f t x t' = f t'.
  Proof. intros H. unfold upd. apply Nat.eqb_neq in H. rewrite H. reflexivity. Qed.

  (* rebuilding the invariant after thread t moved *)
  Lemma Inv_update g t th' chains' cache' :
    Inv g ->
    (forall t', t' <> t -> chains' (res_of c t') (tkey c t') = chains g (res_of c t') (tkey c t')) ->
    thread_ok (nth t progs []) th' (chains' (res_of c t) (tkey c t)) ->
    (forall r o, cache' r = Some (Computed o) -> o = D r) ->
    (forall r, cache' r = Some InProcess ->
               cache_on c = true /\ exists t2, owns (stack (upd (threads g) t th' t2)) r) ->
    Inv (mkG chains' (poisoned g) cache' (upd (threads g) t th') (aborted g)).
  Proof.
    intros HI Hfr Hth Hca How. constructor; cbn [aborted poisoned cache threads chains].
    - apply HI.
    - apply HI.
    - exact Hca.
    - intros t'. destruct (Nat.eq_dec t' t) as [->|Hne].
      + rewrite upd_same. exact Hth.
      + rewrite upd_other by exact Hne. rewrite Hfr by exact Hne. apply HI.
    - exact How.
  Qed.

  (* the owners when the cache is unchanged and the mover keeps what it owns *)
  Lemma owners_keep g t th' :
    Inv g ->
    (forall r, cache_on c = true -> owns (stack (threads g t)) r -> owns (stack th') r) ->
    forall r, cache g r = Some InProcess ->
              cache_on c = true /\ exists t2, owns (stack (upd (threads g) t th' t2)) r.
  Proof.
    intros HI Hk r Hr. destruct (inv_ow g HI r Hr) as (Hc & t2 & Ho). split; [exact Hc|].
    exists t2. destruct (Nat.eq_dec t2 t) as [->|Hne].
    - rewrite upd_same. apply Hk; assumption.
    - rewrite upd_other by exact Hne. exact Ho.
  Qed.

  Lemma owns_nil x : ~ owns [] x.
  Proof. intros (p & Hi & _). destruct Hi. Qed.

  Lemma step_inv g t : Inv g -> Inv (step c prog g t).
  Proof.
    intros HI. unfold step. rewrite (inv_ab g HI).
    destruct (stack (threads g t)) as [|[r p] rest] eqn:Hst; [exact HI|].
    pose proof (inv_th g HI t) as Hth. unfold thread_ok in Hth. rewrite Hst in Hth.
    destruct Hth as (bot & Htop & Hlow & Hres & Hch).
    cbv zeta. rewrite (inv_po g HI).
    destruct p as [| |fb k|o|o|o|o]; cbn [pushed top_ok] in Htop, Hch.
    - (* AtEnter: push *)
      rewrite app_nil_r in Hch. rewrite Hch, (not_in_chain _ _ _ Hlow).
      unfold set_thread, set_chain; cbn [chains poisoned cache threads aborted].
      apply Inv_update.
      + exact HI.
      + intros t' Hne. apply chain_frame. exact Hne.
      + rewrite chain_self. unfold thread_ok; cbn [stack todo results].
        exists bot. cbn [top_ok pushed]. auto.
      + apply HI.
      + apply owners_keep; [exact HI|]. intros x _ Ho. rewrite Hst in Ho. cbn [stack].
        apply owns_cons. apply (owns_tail _ _ _ _ Ho). left; reflexivity.
    - (* AtPushed *)
      destruct (advance_ok false r (prog r) rest bot (Hac r) (eq_sym (D1_eval prog rank Hac r)) Hlow)
        as (r2 & p2 & rest2 & Ea & Ht2 & Hl2 & Hc2).
      assert (Hthk : thread_ok (nth t progs [])
                (mkThread (advance c false r (prog r) rest) (todo (threads g t)) (results (threads g t)))
                (chains g (res_of c t) (tkey c t))).
      { unfold thread_ok; cbn [stack todo results]. rewrite Ea. exists bot.
        rewrite Hc2. auto. }
      destruct (cache_on c) eqn:Hc.
      + destruct (cache g r) as [[|o]|] eqn:Hcr.
        * exact HI.
        * unfold set_thread; cbn [chains poisoned cache threads aborted].
          apply Inv_update.
          -- exact HI.
          -- reflexivity.
          -- unfold thread_ok; cbn [stack todo results]. exists bot. cbn [top_ok pushed].
             pose proof (inv_ca g HI _ _ Hcr). auto.
          -- apply HI.
          -- apply owners_keep; [exact HI|]. intros x _ Ho. rewrite Hst in Ho. cbn [stack].
             apply owns_cons. apply (owns_tail _ _ _ _ Ho). left; reflexivity.
        * unfold set_thread, set_cache; cbn [chains poisoned cache threads aborted].
          apply Inv_update.
          -- exact HI.
          -- reflexivity.
          -- exact Hthk.
          -- intros x o Hx. unfold updN in Hx. destruct (x =? r); [discriminate Hx|].
             exact (inv_ca g HI _ _ Hx).
          -- intros x Hx. split; [exact Hc|]. unfold updN in Hx.
             destruct (N.eqb_spec x r) as [Exr|Hne]; [subst x|].
             ++ exists t. rewrite upd_same. cbn [stack]. apply owns_advance. exact Hc.
             ++ destruct (inv_ow g HI x Hx) as (_ & t2 & Ho). exists t2.
                destruct (Nat.eq_dec t2 t) as [->|Hne2];
                  [rewrite upd_same|rewrite upd_other by exact Hne2; exact Ho].
                cbn [stack]. rewrite Hst in Ho. apply owns_advance_rest.
                apply (owns_tail _ _ _ _ Ho). left; reflexivity.
      + unfold set_thread; cbn [chains poisoned cache threads aborted].
        apply Inv_update.
        * exact HI.
        * reflexivity.
        * exact Hthk.
        * apply HI.
        * apply owners_keep; [exact HI|]. intros x _ Ho. rewrite Hst in Ho. cbn [stack].
          apply owns_advance_rest. apply (owns_tail _ _ _ _ Ho). left; reflexivity.
    - (* InCall *) exact HI.
    - (* AtPublish *)
      unfold set_thread, set_cache; cbn [chains poisoned cache threads aborted].
      apply Inv_update.
      + exact HI.
      + reflexivity.
      + unfold thread_ok; cbn [stack todo results]. exists bot. cbn [top_ok pushed]. auto.
      + intros x o' Hx. unfold updN in Hx. destruct (N.eqb_spec x r) as [Exr|Hne]; [subst x|].
        * congruence.
        * exact (inv_ca g HI _ _ Hx).
      + intros x Hx. unfold updN in Hx. destruct (N.eqb_spec x r) as [Exr|Hne]; [subst x|]; [discriminate Hx|].
        destruct (inv_ow g HI x Hx) as (Hcc & t2 & Ho). split; [exact Hcc|]. exists t2.
        destruct (Nat.eq_dec t2 t) as [->|Hne2];
          [rewrite upd_same|rewrite upd_other by exact Hne2; exact Ho].
        cbn [stack]. rewrite Hst in Ho. apply owns_cons.
        apply (owns_tail _ _ _ _ Ho). right; exact Hne.
    - (* AtCached *)
      unfold set_thread; cbn [chains poisoned cache threads aborted].
      apply Inv_update.
      + exact HI.
      + reflexivity.
      + unfold thread_ok; cbn [stack todo results]. exists bot. cbn [top_ok pushed]. auto.
      + apply HI.
      + apply owners_keep; [exact HI|]. intros x _ Ho. rewrite Hst in Ho. cbn [stack].
        apply owns_cons. apply (owns_tail _ _ _ _ Ho). left; reflexivity.
    - (* AtHit: a cached error is not served, the load is repeated uncached *)
      assert (Hlv : Inv (set_thread g t (mkThread ((r, AtLeave o) :: rest) (todo (threads g t))
                                                  (results (threads g t))))).
      { unfold set_thread; cbn [chains poisoned cache threads aborted].
        apply Inv_update.
        + exact HI.
        + reflexivity.
        + unfold thread_ok; cbn [stack todo results]. exists bot. cbn [top_ok pushed]. auto.
        + apply HI.
        + apply owners_keep; [exact HI|]. intros x _ Ho. rewrite Hst in Ho. cbn [stack].
          apply owns_cons. apply (owns_tail _ _ _ _ Ho). left; reflexivity. }
      destruct o as [v|e|s|]; try exact Hlv.
      destruct (advance_ok true r (prog r) rest bot (Hac r) (eq_sym (D1_eval prog rank Hac r)) Hlow)
        as (r2 & p2 & rest2 & Ea & Ht2 & Hl2 & Hc2).
      unfold set_thread; cbn [chains poisoned cache threads aborted].
      apply Inv_update.
      + exact HI.
      + reflexivity.
      + unfold thread_ok; cbn [stack todo results]. rewrite Ea. exists bot. rewrite Hc2. auto.
      + apply HI.
      + apply owners_keep; [exact HI|]. intros x _ Ho. rewrite Hst in Ho. cbn [stack].
        apply owns_advance_rest. apply (owns_tail _ _ _ _ Ho). left; reflexivity.
    - (* AtLeave: pop *)
      rewrite Hch, split_last_app, N.eqb_refl.
      unfold set_thread, set_chain; cbn [chains poisoned cache threads aborted].
      destruct rest as [|[r' p'] rest'].
      + cbn [lower_ok] in Hlow. subst bot. subst o. cbn [return_to].
        apply Inv_update.
        * exact HI.
        * intros t' Hne. apply chain_frame. exact Hne.
        * rewrite chain_self. cbn [map rev].
          destruct (todo (threads g t)) as [|r1 todo'] eqn:Htd;
            unfold next_call, thread_ok; cbn [stack todo results].
          -- cbn [map] in Hres. auto.
          -- exists r1. cbn [top_ok lower_ok pushed map rev app].
             rewrite <- app_assoc. cbn [app map] in Hres |- *. auto.
        * apply HI.
        * apply owners_keep; [exact HI|]. intros x _ Ho. rewrite Hst in Ho.
          exfalso. apply (owns_nil x). apply (owns_tail _ _ _ _ Ho). left; reflexivity.
      + cbn [lower_ok] in Hlow. destruct p' as [| |fb k|o'|o'|o'|o']; try contradiction.
        destruct Hlow as (Hrk & Hbk & Hev & Hlow'). subst o. cbn [return_to].
        destruct (advance_ok fb r' (k (D r)) rest' bot (Hbk _) Hev Hlow')
          as (r2 & p2 & rest2 & Ea & Ht2 & Hl2 & Hc2).
        apply Inv_update.
        * exact HI.
        * intros t' Hne. apply chain_frame. exact Hne.
        * rewrite chain_self. unfold thread_ok; cbn [stack todo results]. rewrite Ea.
          exists bot. rewrite Hc2. cbn [map fst rev]. auto.
        * apply HI.
        * apply owners_keep; [exact HI|]. intros x Hcc Ho. rewrite Hst in Ho. cbn [stack].
          apply owns_tail in Ho; [|left; reflexivity].
          destruct fb.
          -- apply owns_advance_rest. apply (owns_tail _ _ _ _ Ho). left; reflexivity.
          -- destruct (N.eq_dec x r') as [->|Hne].
             ++ apply owns_advance. exact Hcc.
             ++ apply owns_advance_rest. apply (owns_tail _ _ _ _ Ho). right; exact Hne.
  Qed.

  (** deadlock freedom: a blocked thread waits for an entry whose owner is enabled or itself blocked on a
      reference of strictly smaller rank *)
  Lemma progress g : Inv g ->
    forall m t r p rest, stack (threads g t) = (r, p) :: rest -> (rank r < m)%nat ->
    exists t', enabled c g t' = true.
  Proof.
    intros HI. induction m as [|m IH]; intros t r p rest Hst Hr; [lia|].
    pose proof (inv_th g HI t) as Hth. unfold thread_ok in Hth. rewrite Hst in Hth.
    destruct Hth as (bot & Htop & Hlow & _ & _).
    assert (Hen : enabled c g t = true \/ (p = AtPushed /\ cache g r = Some InProcess)).
    { unfold enabled. rewrite (inv_ab g HI), Hst. cbn [negb andb].
      destruct p; cbn [top_ok] in Htop; auto; try contradiction.
      destruct (cache_on c); auto. destruct (cache g r) as [[|o]|]; auto. }
    destruct Hen as [Hen|[-> Hcr]]; [exists t; exact Hen|].
    destruct (inv_ow g HI r Hcr) as (_ & t2 & p2 & Hin & Hown).
    destruct (stack (threads g t2)) as [|[r2 p2'] rest2] eqn:Hst2; [destruct Hin|].
    pose proof (inv_th g HI t2) as Hth2. unfold thread_ok in Hth2. rewrite Hst2 in Hth2.
    destruct Hth2 as (bot2 & Htop2 & Hlow2 & _ & _).
    destruct Hin as [E|Hin].
    - inversion E; subst r2 p2'. exists t2. unfold enabled. rewrite (inv_ab g HI), Hst2.
      destruct p2; cbn [is_owner] in Hown; try discriminate Hown; [contradiction Htop2|reflexivity].
    - apply (IH t2 r2 p2' rest2 Hst2).
      apply (in_map fst) in Hin. cbn [fst] in Hin.
      pose proof (lower_rank _ _ _ _ Hlow2 Hin). lia.
  Qed.

  Lemma stack_nonempty_lt g t : Inv g -> stack (threads g t) <> [] -> (t < length progs)%nat.
  Proof.
    intros HI Hne. destruct (Nat.lt_ge_cases t (length progs)) as [H|H]; [exact H|]. exfalso.
    pose proof (inv_th g HI t) as Hth. rewrite (nth_overflow _ _ H) in Hth. unfold thread_ok in Hth.
    destruct (stack (threads g t)) as [|[r p] rest]; [congruence|].
    destruct Hth as (bot & _ & _ & Hres & _). cbn [map] in Hres.
    exact (app_cons_not_nil _ _ _ (eq_sym Hres)).
  Qed.

  Lemma no_deadlock g : Inv g -> deadlocked c g (length progs) = false.
  Proof.
    intros HI. unfold deadlocked. rewrite (inv_ab g HI). cbn [negb andb].
    destruct (all_finished g (length progs)) eqn:Haf; [reflexivity|]. cbn [negb andb].
    destruct (first_enabled c g (length progs) 0%nat) eqn:Hfe; [reflexivity|]. exfalso.
    apply all_finished_false in Haf. destruct Haf as (t & Ht & Hf).
    unfold finished in Hf. destruct (stack (threads g t)) as [|[r p] rest] eqn:Hst; [discriminate Hf|].
    destruct (progress g HI (S (rank r)) t r p rest Hst (Nat.lt_succ_diag_r _)) as (t' & Hen).
    assert (Hlt : (t' < length progs)%nat).
    { apply (stack_nonempty_lt g t' HI). intros E. unfold enabled in Hen. rewrite E in Hen.
      rewrite andb_false_r in Hen. discriminate Hen. }
    rewrite (first_enabled_none c g _ _ Hfe t') in Hen by lia. discriminate Hen.
  Qed.

  Lemma Inv_state_ok g : Inv g -> state_ok c D progs g.
  Proof.
    intros HI. split; [apply HI|]. split; [apply HI|]. split; [|split].
    - intros t. pose proof (inv_th g HI t) as Hth. unfold thread_ok in Hth.
      destruct (stack (threads g t)) as [|[r p] rest].
      + destruct Hth as (_ & Hr & _). exists (length (nth t progs [])). rewrite firstn_all. exact Hr.
      + destruct Hth as (bot & _ & _ & Hres & _). eexists. exact (map_prefix _ _ _ _ Hres).
    - intros t Hf. unfold finished in Hf. pose proof (inv_th g HI t) as Hth. unfold thread_ok in Hth.
      destruct (stack (threads g t)) as [|[r p] rest]; [|discriminate Hf]. apply Hth.
    - apply no_deadlock. exact HI.
  Qed.

  Lemma init_threads_spec : forall ps s t,
    init_threads ps s t = init_thread (if (s <=? t)%nat then nth (t - s) ps [] else []).
  Proof.
    induction ps as [|p ps IH]; intros s t; cbn [init_threads].
    - destruct (s <=? t)%nat; [destruct (t - s)%nat|]; reflexivity.
    - unfold upd. destruct (Nat.eqb_spec t s) as [E|Hne].
      + subst t. rewrite Nat.leb_refl, Nat.sub_diag. reflexivity.
      + rewrite IH. destruct (Nat.leb_spec s t) as [H1|H1]; destruct (Nat.leb_spec (S s) t) as [H2|H2]; try lia.
        * replace (t - s)%nat with (S (t - S s)) by lia. reflexivity.
        * reflexivity.
  Qed.

  Lemma Inv_init : Inv (ginit progs).
  Proof.
    unfold ginit. constructor; cbn [aborted poisoned cache threads chains].
    - reflexivity.
    - reflexivity.
    - intros r o H. discriminate H.
    - intros t. rewrite init_threads_spec. cbn [Nat.leb]. rewrite Nat.sub_0_r.
      generalize (nth t progs []) as calls. intros [|r0 calls];
        unfold thread_ok, init_thread, next_call; cbn [stack todo results].
      + auto.
      + exists r0. cbn [top_ok lower_ok pushed map rev app]. auto.
    - intros r H. discriminate H.
  Qed.

  Lemma run_inv sched : forall g, Inv g -> Inv (run_sched c prog g sched).
  Proof.
    unfold run_sched. induction sched as [|t sched IH]; intros g HI; cbn [fold_left]; [exact HI|].
    apply IH. apply step_inv. exact HI.
  Qed.

  (** * termination: a step of an enabled thread decreases the remaining work *)
  Fixpoint pcostn (d : ref -> nat) (p : comp) : nat :=
    match p with
    | Ret _ => O
    | Call _ r k => (d r + pcostn d (k (D r)))%nat
    end.

  (* number of steps of one get of r when nothing is cached *)
  Fixpoint costn (n : nat) (r : ref) : nat :=
    match n with
    | O => O
    | S m => (5 + pcostn (costn m) (prog r))%nat
    end.

  Definition cost (r : ref) : nat := costn (S (rank r)) r.
  Notation pcost := (pcostn cost).

  Lemma pcostn_ext d1 d2 b p :
    bnd b p -> (forall r, (rank r < b)%nat -> d1 r = d2 r) -> pcostn d1 p = pcostn d2 p.
  Proof.
    induction p as [o|ty r' k IH]; cbn [pcostn bounded1]; intros Hb Hd; [reflexivity|].
    destruct Hb as [Hr Hk]. rewrite (Hd r' Hr). f_equal. apply IH; [apply Hk|exact Hd].
  Qed.

  Lemma costn_stable : forall n m r, (rank r < n)%nat -> (rank r < m)%nat -> costn n r = costn m r.
  Proof.
    induction n as [|n IH]; intros m r Hn Hm; [lia|].
    destruct m as [|m]; [lia|].
    cbn [costn]. f_equal. apply pcostn_ext with (b := rank r); [apply Hac|].
    intros r' Hr'. apply IH; lia.
  Qed.

  Lemma cost_eq r : cost r = (5 + pcost (prog r))%nat.
  Proof.
    unfold cost at 1. cbn [costn]. f_equal.
    apply pcostn_ext with (b := rank r); [apply Hac|].
    intros r' Hr'. unfold cost. apply costn_stable; lia.
  Qed.

  Definition top_meas (p : pc) (r : ref) : nat :=
    match p with
    | AtEnter => cost r
    | AtPushed => 4 + pcost (prog r)
    | InCall _ _ => 0
    | AtPublish _ => 3
    | AtCached _ => 2
    | AtHit _ => 2 + pcost (prog r)
    | AtLeave _ => 1
    end%nat.

  (* steps left after the computation of a frame returned: publish, cached, leave / leave *)
  Definition tailw (fb : bool) : nat := if fb then 1%nat else 3%nat.

  Fixpoint lmeas (child : ref) (st : list frame) : nat :=
    match st with
    | [] => O
    | (r, p) :: rest =>
        match p with
        | InCall fb k => (tailw fb + pcost (k (D child)) + lmeas r rest)%nat
        | _ => O
        end
    end.

  Definition smeas (st : list frame) : nat :=
    match st with
    | [] => O
    | (r, p) :: rest => (top_meas p r + lmeas r rest)%nat
    end.

  Definition tmeas (th : thread) : nat := (smeas (stack th) + list_sum (map cost (todo th)))%nat.

  Lemma advance_meas fb r p rest :
    (smeas (advance c fb r p rest) <= tailw fb + pcost p + lmeas r rest)%nat.
  Proof.
    destruct p as [o|ty r' k]; cbn [advance smeas].
    - destruct fb; [|destruct (cache_on c)]; cbn [top_meas pcostn tailw]; lia.
    - cbn [top_meas lmeas pcostn]. lia.
  Qed.

  Lemma step_meas g t : Inv g -> enabled c g t = true ->
    exists th', threads (step c prog g t) = upd (threads g) t th' /\
                (tmeas th' < tmeas (threads g t))%nat.
  Proof.
    intros HI Hen. unfold enabled in Hen. rewrite (inv_ab g HI) in Hen. cbn [negb andb] in Hen.
    unfold step. rewrite (inv_ab g HI).
    destruct (stack (threads g t)) as [|[r p] rest] eqn:Hst; [discriminate Hen|].
    pose proof (inv_th g HI t) as Hth. unfold thread_ok in Hth. rewrite Hst in Hth.
    destruct Hth as (bot & Htop & Hlow & Hres & Hch).
    cbv zeta. rewrite (inv_po g HI).
    unfold tmeas at 2. rewrite Hst.
    pose proof (advance_meas false r (prog r) rest) as Hadv.
    pose proof (advance_meas true r (prog r) rest) as Hadv'.
    cbn [tailw] in Hadv, Hadv'.
    destruct p as [| |fb k|o|o|o|o]; cbn [pushed top_ok] in Htop, Hch; cbn [smeas top_meas].
    - rewrite app_nil_r in Hch. rewrite Hch, (not_in_chain _ _ _ Hlow).
      eexists. split; [reflexivity|]. unfold tmeas; cbn [stack todo smeas top_meas].
      rewrite cost_eq. lia.
    - destruct (cache_on c).
      + destruct (cache g r) as [[|o]|]; [discriminate Hen| |];
          (eexists; split; [reflexivity|]); unfold tmeas; cbn [stack todo smeas top_meas]; lia.
      + eexists. split; [reflexivity|]. unfold tmeas; cbn [stack todo]. lia.
    - discriminate Hen.
    - eexists. split; [reflexivity|]. unfold tmeas; cbn [stack todo smeas top_meas]. lia.
    - eexists. split; [reflexivity|]. unfold tmeas; cbn [stack todo smeas top_meas]. lia.
    - destruct o as [v|e|s|]; (eexists; split; [reflexivity|]);
        unfold tmeas; cbn [stack todo smeas top_meas]; lia.
    - rewrite Hch, split_last_app, N.eqb_refl.
      eexists. split; [reflexivity|].
      destruct rest as [|[r' p'] rest'].
      + cbn [return_to].
        destruct (todo (threads g t)) as [|r1 todo'] eqn:Htd;
          unfold next_call, tmeas; cbn [stack todo results smeas top_meas lmeas map list_sum fold_right]; lia.
      + cbn [lower_ok] in Hlow. destruct p' as [| |fb k|o'|o'|o'|o']; try contradiction.
        subst o. cbn [return_to]. unfold tmeas; cbn [stack todo lmeas].
        pose proof (advance_meas fb r' (k (D r)) rest'). lia.
  Qed.

  Fixpoint musum (f : tid -> nat) (n : nat) : nat :=
    match n with
    | O => O
    | S m => (musum f m + f m)%nat
    end.

  Lemma musum_upd_ge f t x : forall n, (n <= t)%nat -> musum (upd f t x) n = musum f n.
  Proof.
    induction n as [|n IH]; intros Hn; cbn [musum]; [reflexivity|].
    rewrite IH by lia. rewrite upd_other by lia. reflexivity.
  Qed.

  Lemma musum_upd_lt f t x : forall n, (t < n)%nat -> (x < f t)%nat -> (musum (upd f t x) n < musum f n)%nat.
  Proof.
    induction n as [|n IH]; intros Hn Hx; cbn [musum]; [lia|].
    destruct (Nat.eq_dec t n) as [E|Hne].
    - subst n. rewrite musum_upd_ge by lia. rewrite upd_same. lia.
    - rewrite upd_other by lia. assert (musum (upd f t x) n < musum f n)%nat by (apply IH; lia). lia.
  Qed.

  Definition gmeas (g : gstate) : nat := musum (fun t => tmeas (threads g t)) (length progs).

  Lemma first_enabled_some g : forall n s t,
    first_enabled c g n s = Some t -> enabled c g t = true.
  Proof.
    induction n as [|n IH]; intros s t H; cbn [first_enabled] in H; [discriminate H|].
    destruct (enabled c g s) eqn:E; [inversion H; subst; exact E|].
    exact (IH _ _ H).
  Qed.

  Lemma enabled_decr g t : Inv g -> enabled c g t = true -> (gmeas (step c prog g t) < gmeas g)%nat.
  Proof.
    intros HI Hen. destruct (step_meas g t HI Hen) as (th' & Eth & Hlt).
    unfold gmeas. rewrite Eth.
    assert (Ht : (t < length progs)%nat).
    { apply (stack_nonempty_lt g t HI). intros E. unfold enabled in Hen. rewrite E in Hen.
      rewrite andb_false_r in Hen. discriminate Hen. }
    assert (Hext : forall f f' n, (forall t', f t' = f' t') -> musum f n = musum f' n).
    { intros f f' n Hf. induction n as [|n IH]; cbn [musum]; [reflexivity|]. rewrite IH, Hf. reflexivity. }
    rewrite (Hext _ (upd (fun t0 => tmeas (threads g t0)) t (tmeas th'))).
    - apply musum_upd_lt; [exact Ht|exact Hlt].
    - intros t'. unfold upd. destruct (Nat.eqb t' t); reflexivity.
  Qed.

  Lemma none_finished g : Inv g ->
    first_enabled c g (length progs) 0%nat = None -> all_finished g (length progs) = true.
  Proof.
    intros HI Hfe. pose proof (no_deadlock g HI) as Hd. unfold deadlocked in Hd.
    rewrite (inv_ab g HI), Hfe in Hd. destruct (all_finished g (length progs)); [reflexivity|].
    discriminate Hd.
  Qed.

  Lemma complete_finishes : forall fuel g, Inv g -> (gmeas g <= fuel)%nat ->
    all_finished (complete c prog fuel (length progs) g) (length progs) = true.
  Proof.
    induction fuel as [|fuel IH]; intros g HI Hm; cbn [complete].
    - destruct (first_enabled c g (length progs) 0%nat) as [t|] eqn:Hfe;
        [|apply none_finished; assumption].
      pose proof (enabled_decr g t HI (first_enabled_some g _ _ _ Hfe)). lia.
    - destruct (first_enabled c g (length progs) 0%nat) as [t|] eqn:Hfe;
        [|apply none_finished; assumption].
      pose proof (enabled_decr g t HI (first_enabled_some g _ _ _ Hfe)).
      apply IH; [apply step_inv; exact HI|lia].
  Qed.
End Safe.

Theorem conc_per_thread_chain : forall c prog rank,
  per_thread c = true -> acyclic1 prog rank -> conc_statement c prog (D1 prog rank).
Proof.
  intros c prog rank Hpt Hac progs sched.
  apply (Inv_state_ok c prog rank progs).
  apply (run_inv c prog rank Hpt Hac progs).
  apply Inv_init.
Qed.

Theorem conc_complete_is_sched : forall c prog fuel n g,
  exists sched, complete c prog fuel n g = run_sched c prog g sched.
Proof.
  intros c prog. induction fuel as [|fuel IH]; intros n g; cbn [complete].
  - exists []. reflexivity.
  - destruct (first_enabled c g n 0%nat) as [t|].
    + destruct (IH n (step c prog g t)) as (sched & Hs). exists (t :: sched). exact Hs.
    + exists []. reflexivity.
Qed.

Corollary conc_per_thread_complete : forall c prog rank progs sched fuel,
  per_thread c = true -> acyclic1 prog rank ->
  state_ok c (D1 prog rank) progs
           (complete c prog fuel (length progs) (run_sched c prog (ginit progs) sched)).
Proof.
  intros c prog rank progs sched fuel Hpt Hac.
  destruct (conc_complete_is_sched c prog fuel (length progs) (run_sched c prog (ginit progs) sched))
    as (sched' & Hs).
  rewrite Hs. unfold run_sched. rewrite <- fold_left_app.
  apply (conc_per_thread_chain c prog rank Hpt Hac progs (sched ++ sched')).
Qed.

Definition conc_full_statement : Prop :=
  forall c prog fuel, conc_statement c prog (fun r => fst (get no_cache (fun _ => prog) fuel [] 0 r init)).

(** * refutations (C13-a: guard stack shared by all threads; C13-b: cyclic eager references) *)

Theorem conc_refuted_shared_chain : exists prog progs sched,
  let c := mkCcfg true false false in
  let g := complete c prog 100 (length progs) (run_sched c prog (ginit progs) sched) in
  results (threads g 1%nat) = [Err E_OTHER] /\
  (forall fuel, fst (get no_cache (fun _ => prog) (S fuel) [] 0 1 init) = Ok 5).
Proof.
  exists (fun _ => Ret (Ok 5)), [[1];[1]], [0%nat; 1%nat].
  split; [vm_compute; reflexivity|]. intros fuel. reflexivity.
Qed.

Theorem conc_refuted_pop_assert : exists prog progs sched,
  let c := mkCcfg true false false in
  let g := complete c prog 100 (length progs) (run_sched c prog (ginit progs) sched) in
  poisoned g 0 = true /\ results (threads g 0%nat) = [Panic 1] /\ results (threads g 1%nat) = [Panic 1].
Proof.
  exists (fun _ => Ret (Ok 5)), [[1];[2]], [0%nat; 1%nat; 0%nat; 0%nat; 0%nat].
  vm_compute. auto.
Qed.

Theorem conc_refuted_abort : exists prog progs sched,
  let c := mkCcfg true false false in
  aborted (complete c prog 100 (length progs) (run_sched c prog (ginit progs) sched)) = true.
Proof.
  exists (fun r => if r =? 1 then Call 0 2 (fun o => Ret o) else Ret (Ok 5)), [[1];[3]],
         [0%nat; 0%nat; 0%nat; 1%nat; 0%nat].
  vm_compute. reflexivity.
Qed.

Theorem conc_cyclic_deadlock : exists prog progs sched,
  let c := mkCcfg true true true in
  deadlocked c (complete c prog 100 (length progs) (run_sched c prog (ginit progs) sched)) (length progs) = true.
Proof.
  exists (fun r => if r =? 1 then Call 0 2 (fun o => Ret o)
                   else if r =? 2 then Call 0 1 (fun o => Ret o) else Ret (Ok 5)),
         [[1];[2]], [0%nat; 0%nat; 1%nat; 1%nat].
  vm_compute. reflexivity.
Qed.

Theorem conc_full_refuted : ~ conc_full_statement.
Proof.
  intros H.
  specialize (H (mkCcfg true false false) (fun _ => Ret (Ok 5)) 1%nat [[1];[1]] [0%nat; 1%nat]).
  destruct H as (_ & _ & Hp & _). specialize (Hp 1%nat). destruct Hp as (k & Hk).
  vm_compute in Hk. destruct k as [|k]; [discriminate Hk|].
  destruct k; discriminate Hk.
Qed.

(** every run of the fixed code on an acyclic document terminates with all threads finished *)
Theorem conc_terminates : forall c prog rank progs sched,
  per_thread c = true -> acyclic1 prog rank ->
  exists fuel, all_finished (complete c prog fuel (length progs) (run_sched c prog (ginit progs) sched))
                            (length progs) = true.
Proof.
  intros c prog rank progs sched Hpt Hac.
  exists (gmeas prog rank progs (run_sched c prog (ginit progs) sched)).
  apply (complete_finishes c prog rank Hpt Hac progs); [|apply Nat.le_refl].
  apply (run_inv c prog rank Hpt Hac progs). apply Inv_init.
Qed.
