(** Cache/Model.v — the object cache and the stream cache of pdf/src/file.rs as a sequential
    state machine (property C12).  No proofs in this file.

    What is modelled exactly (bugs included, selected by the two [fix_*] flags of [cfg]):
      file.rs   StorageResolver::get            -> [get]     (recursion guard, cache look-up, type-checked
                                                              downcast with uncached fallback, cached errors)
      file.rs   Cache / NoCache / SyncCache::get (sequential view: Vacant -> compute -> Computed)
      file.rs   StorageResolver::get_data_or_decode, Storage::decode -> [get_data], [sdecode]
      any.rs    AnySync::downcast               -> the [ty' =? ty] test on the stored type tag
      stream.rs Stream::data                    -> [stream_data]
      types.rs  ImageXObject::raw_image_data / image_data -> [raw_image_data], [image_data]
    What is abstract (Section variables = the document and the external codecs):
      [prog ty r]   the computation `resolve(r).and_then(T::from_primitive)` as an interaction tree whose
                    only effects are nested typed gets;  [filters], [raw], [appf] (enc::decode), [imgc]
                    (the image codecs dct/fax/jpx/jbig2/flate + post-processing of image_data). *)
From PdfV Require Import Base.Prelude Gen.Generated.

Definition ref := N.        (* object number (PlainRef.id; the generation is not used for look-up) *)
Definition tytag := N.      (* std::any::TypeId of the requested Rust type, as a small number *)
Definition val := N.        (* canonical digest of a loaded value / of a byte string *)
Definition filt := N.       (* StreamFilter variant code, see gen/extract_cache.py: 1 ASCIIHex 2 ASCII85 3 LZW
                               4 RunLength 5 Flate 6 DCT 7 CCITTFax 8 JPX 9 JBIG2 10 Crypt *)
Definition outcome := res val.

Definition E_OTHER : N := 1.    (* PdfError::Other (bail!) — "Recursive reference", "??? filters" *)

(** the uncached computation of one typed load: returns, or asks for a nested typed get *)
Inductive comp : Type :=
| Ret (o : outcome)
| Call (ty : tytag) (r : ref) (k : outcome -> comp).

(** object cache entry: Result<AnySync, Arc<PdfError>> *)
Inductive oentry := EOk (ty : tytag) (v : val) | EErr (e : N).

Record state := mkState {
  ocache : list (ref * oentry);      (* Storage.cache *)
  scache : list (ref * outcome)      (* Storage.stream_cache: keyed by the reference only *)
}.
Definition init : state := mkState [] [].

Record cfg := mkCfg {
  oc_on : bool;        (* object cache: SyncCache (true) / NoCache (false) *)
  sc_on : bool;        (* stream cache *)
  fix_a : bool;        (* raw_image_data by-passes the stream cache for a partial filter list *)
  fix_b : bool         (* get does not serve a cached error (it re-runs the load uncached) *)
}.

Fixpoint lookup {A} (r : ref) (l : list (ref * A)) : option A :=
  match l with
  | [] => None
  | (k, v) :: t => if k =? r then Some v else lookup r t
  end.

Definition set_oc (st : state) (r : ref) (e : oentry) : state := mkState ((r, e) :: ocache st) (scache st).
Definition set_sc (st : state) (r : ref) (x : outcome) : state := mkState (ocache st) ((r, x) :: scache st).

(* what SyncCache stores for the result of the compute closure of get *)
Definition entry_of (ty : tytag) (o : outcome) : option oentry :=
  match o with Ok v => Some (EOk ty v) | Err e => Some (EErr e) | _ => None end.

(** types.rs raw_image_data: the closure given to rposition *)
Definition is_image_filter (f : filt) : bool :=
  match lookup f cache_rpos_arms with Some b => b | None => cache_rpos_default end.

(* slice::iter().rposition(p): index of the last element satisfying p *)
Fixpoint rposition {A} (p : A -> bool) (l : list A) : option nat :=
  match l with
  | [] => None
  | x :: t => match rposition p t with
              | Some i => Some (S i)
              | None => if p x then Some O else None
              end
  end.

Section Doc.
  Variable c : cfg.
  Variable prog : tytag -> ref -> comp.            (* resolve + T::from_primitive *)
  Variable filters : ref -> list filt.             (* StreamInfo.filters of the stream object r *)
  Variable raw : ref -> outcome.                   (* backend.read(range) + decrypt *)
  Variable appf : filt -> val -> outcome.          (* enc::decode(data, filter) *)
  Variable imgc : ref -> filt -> val -> outcome.   (* image_data's final codec + post-processing *)

  (* file.rs StorageResolver::get  (fuel = bound on the nesting depth; chain = StorageResolver.chain).
     [serve e]: is an error of kind e that this call found in the cache (it did not compute it) returned as it is?
     The code: never (`Err(e) if computed => …; Err(_) => load again`); before fix C12-b: always.  The parameter
     exists so that the whole class "serve cached errors of some kinds" can be refuted (Cache/Proofs.v). *)
  Fixpoint get_gen (serve : N -> bool) (fuel : nat) (chain : list ref) (ty : tytag) (r : ref) (st : state) {struct fuel}
    : outcome * state :=
    match fuel with
    | O => (OutOfFuel, st)
    | S f =>
      if memN r chain then (Err E_OTHER, st)                   (* bail!("Recursive reference") *)
      else
        let chain' := chain ++ [r] in                          (* chain.push(key); popped by Defer *)
        let ev := fix ev (p : comp) (st : state) {struct p} : outcome * state :=
                    match p with
                    | Ret o => (o, st)
                    | Call ty' r' k => let '(o, st1) := get_gen serve f chain' ty' r' st in ev (k o) st1
                    end in
        if oc_on c then
          match lookup r (ocache st) with
          | None =>                                            (* Entry::Vacant: compute, store, return *)
              let '(o, st1) := ev (prog ty r) st in
              match entry_of ty o with
              | Some e => (o, set_oc st1 r e)
              | None => (o, st1)
              end
          | Some (EOk ty' v) =>
              if ty' =? ty then (Ok v, st)                     (* any.downcast() succeeds *)
              else ev (prog ty r) st                           (* mismatch: resolve + from_primitive again, not stored *)
          | Some (EErr e) =>
              if serve e then (Err e, st)                      (* C12-b: Err(PdfError::Shared{source}) *)
              else ev (prog ty r) st                           (* fixed: a cached error is not served *)
          end
        else ev (prog ty r) st                                 (* NoCache::get_or_compute = compute() *)
    end.

  Definition get : nat -> list ref -> tytag -> ref -> state -> outcome * state :=
    get_gen (fun _ => negb (fix_b c)).

  (* the computation of a load with its nested gets (the [ev] above, as a function of its own) *)
  Fixpoint eval (fuel : nat) (chain : list ref) (p : comp) (st : state) {struct p} : outcome * state :=
    match p with
    | Ret o => (o, st)
    | Call ty' r' k => let '(o, st1) := get fuel chain ty' r' st in eval fuel chain (k o) st1
    end.

  (* file.rs Storage::decode(id, range, filters) *)
  Fixpoint apply_filters (fs : list filt) (d : val) : outcome :=
    match fs with
    | [] => Ok d
    | f :: t => do d' <- appf f d; apply_filters t d'
    end.
  Definition sdecode (r : ref) (fs : list filt) : outcome := do d <- raw r; apply_filters fs d.

  (* file.rs StorageResolver::get_data_or_decode(id, range, filters): key = id only *)
  Definition get_data (r : ref) (fs : list filt) (st : state) : outcome * state :=
    if sc_on c then
      match lookup r (scache st) with
      | Some x => (x, st)
      | None => let x := sdecode r fs in (x, set_sc st r x)
      end
    else (sdecode r fs, st).

  (* stream.rs Stream::data for StreamData::Original *)
  Definition stream_data (r : ref) (st : state) : outcome * state := get_data r (filters r) st.

  (* types.rs ImageXObject::raw_image_data: (data, remaining codec code or 0) *)
  Definition raw_image_data (r : ref) (st : state) : res (val * filt) * state :=
    let fs := filters r in
    let e := match rposition is_image_filter fs with Some i => i | None => length fs end in
    let normal := firstn e fs in
    let image := skipn e fs in
    let '(d, st1) :=
      match image with
      | [] => get_data r normal st
      | _ :: _ => if fix_a c then (sdecode r normal, st)      (* fixed: stream_data + decode loop, no cache *)
                  else get_data r normal st                    (* C12-a *)
      end in
    match d with
    | Ok data =>
        match image with
        | [] => (Ok (data, 0), st1)
        | [f] => if memN f cache_image_codecs then (Ok (data, f), st1) else (Err E_OTHER, st1)
        | _ => (Err E_OTHER, st1)                              (* bail!("??? filters") *)
        end
    | Err e => (Err e, st1)
    | Panic s => (Panic s, st1)
    | OutOfFuel => (OutOfFuel, st1)
    end.

  (* types.rs ImageXObject::image_data *)
  Definition image_data (r : ref) (st : state) : outcome * state :=
    let '(x, st1) := raw_image_data r st in
    match x with
    | Ok (data, f) => if f =? 0 then (Ok data, st1) else (imgc r f data, st1)
    | Err e => (Err e, st1)
    | Panic s => (Panic s, st1)
    | OutOfFuel => (OutOfFuel, st1)
    end.

  (** read calls of the property; every call uses a fresh resolver (file.resolver(), File::get_page) *)
  Inductive call :=
  | CGet (ty : tytag) (r : ref)      (* resolver.get::<T>(r) *)
  | CComp (ty : tytag) (r : ref)     (* an uncached top-level computation with nested gets: resolve(r), get_page(n) *)
  | CData (ty : tytag) (r : ref)     (* get::<T>(r) then Stream::data *)
  | CRaw (ty : tytag) (r : ref)      (* get::<ImageXObject>(r) then raw_image_data *)
  | CImage (ty : tytag) (r : ref).   (* get::<ImageXObject>(r) then image_data *)

  Definition call_ref (cl : call) : ref :=
    match cl with CGet _ r | CComp _ r | CData _ r | CRaw _ r | CImage _ r => r end.

  Definition pair_code (x : val * filt) : val := fst x * 16 + snd x.

  Definition after_get (fuel : nat) (ty : tytag) (r : ref) (st : state)
             (k : state -> outcome * state) : outcome * state :=
    let '(o, st1) := get fuel [] ty r st in
    match o with
    | Ok _ => k st1
    | _ => (o, st1)
    end.

  Definition do_call (fuel : nat) (cl : call) (st : state) : outcome * state :=
    match cl with
    | CGet ty r => get fuel [] ty r st
    | CComp ty r => eval fuel [] (prog ty r) st
    | CData ty r => after_get fuel ty r st (stream_data r)
    | CRaw ty r => after_get fuel ty r st (fun st1 =>
                     let '(x, st2) := raw_image_data r st1 in (rmap pair_code x, st2))
    | CImage ty r => after_get fuel ty r st (image_data r)
    end.

  Fixpoint run (fuel : nat) (calls : list call) (st : state) : list outcome :=
    match calls with
    | [] => []
    | cl :: t => let '(o, st1) := do_call fuel cl st in o :: run fuel t st1
    end.
End Doc.

Definition no_cache : cfg := mkCfg false false true true.
Definition cfg_fixed (oc sc : bool) : cfg := mkCfg oc sc true true.
