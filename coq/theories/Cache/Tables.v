(** Cache/Tables.v — facts about the tables regenerated from the Rust sources (Gen/Generated.v), proved by
    computation: a changed arm in types.rs raw_image_data changes the generated term and fails a lemma here. *)
From PdfV Require Import Base.Prelude Gen.Generated Cache.Model.

(** ISO 32000-1 §7.4 / §8.9.5: ASCIIHex (1), ASCII85 (2), LZW (3) and RunLength (4) only change the
    representation of the data; every other filter (Flate 5, DCT 6, CCITTFax 7, JPX 8, JBIG2 9, Crypt 10) is
    where a consumer that wants the image codec's input stops. *)
Definition spec_is_image (f : filt) : bool := negb (memN f [1; 2; 3; 4]).
Definition filter_codes : list N := seqN 1 10.

Lemma split_table : forall f, In f filter_codes -> is_image_filter f = spec_is_image f.
Proof.
  assert (H : forallb (fun f => Bool.eqb (is_image_filter f) (spec_is_image f)) filter_codes = true)
    by (vm_compute; reflexivity).
  intros f Hf. rewrite forallb_forall in H. apply Bool.eqb_prop. apply H. exact Hf.
Qed.

(** the codecs after which raw_image_data hands the data to the image decoder *)
Lemma codecs_table : forall f, In f filter_codes -> memN f cache_image_codecs = memN f [5; 6; 7; 8; 9].
Proof.
  assert (H : forallb (fun f => Bool.eqb (memN f cache_image_codecs) (memN f [5; 6; 7; 8; 9])) filter_codes = true)
    by (vm_compute; reflexivity).
  intros f Hf. rewrite forallb_forall in H. apply Bool.eqb_prop. apply H. exact Hf.
Qed.

(** file.rs StorageResolver.chain carries the ThreadId (the guard is per thread): the interleaving theorem
    C13_per_thread_chain is about [per_thread c = true] *)
Lemma chain_table : cache_chain_per_thread = true.
Proof. vm_compute. reflexivity. Qed.
