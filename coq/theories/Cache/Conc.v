(** Cache/Conc.v — small-step interleaving model of concurrent `StorageResolver::get` calls (property C13).
    No proofs in this file.

    One model step of thread t = the code t executes between two yield points of the instrumented build
    (pdf/src/verif_hooks.rs: "enter", "pushed", "cached", "leave" in file.rs StorageResolver::get, and
    "publish" inside the instrumented Cache implementation of harness/src/modes/cache.rs which mirrors
    globalcache-0.2.4 sync::SyncCache::get: Vacant -> InProcess -> compute -> Computed + notify_all,
    Occupied(Computed) -> clone, Occupied(InProcess) -> condvar wait).

    A frame (r, ty, pc) is one open call get::<ty>(r):
      (r, ty, AtEnter)     at "enter"  : next = lock chain; contains? push            (file.rs get, first block)
      (r, ty, AtPushed)    at "pushed" : next = cache.get_or_compute begin             (SyncCache::get entry match)
      (r, ty, InCall fb k) inside compute() (fb = false) or inside the uncached re-load (fb = true: a cached
                           error, or a value cached as another type, was found), waiting for the nested get above it
      (r, ty, AtHit ty' o) at "cached" : the cache held Computed ty' o (this call did not compute it: the entry was
                           there, or another thread published it while this one waited).  Served only when it is a
                           value of the requested type (AnySync::downcast, any.rs); an error found this way — of
                           whatever kind — and a value of another type are not served: resolve + from_primitive run
                           again, uncached (file.rs get: `Err(e) if computed`, `Err(_)`, `any.downcast() Err(_)`)
      (r, ty, AtPublish o) at "publish": next = store Computed ty o, notify_all
      (r, ty, AtCached o)  at "cached" : next = match res / downcast (thread-local; own value: downcast succeeds)
      (r, ty, AtLeave o)   at "leave"  : next = Defer: lock chain; pop; assert_eq      (file.rs get, drop guard)

    [per_thread c = false] is the code before the fix (one guard stack per resolver shared by all threads),
    [true] the fixed code (guard entries keyed by ThreadId).  Outside the model: OS scheduling, lock fairness,
    memory ordering (every step is atomic and sequentially consistent here), panics in user callbacks. *)
From PdfV Require Import Base.Prelude Gen.Generated Cache.Model.

Definition tid := nat.

Inductive pc :=
| AtEnter | AtPushed | InCall (fb : bool) (k : outcome -> comp)
| AtPublish (o : outcome) | AtCached (o : outcome) | AtHit (ty' : tytag) (o : outcome) | AtLeave (o : outcome).
Definition frame := (ref * tytag * pc)%type.
Definition fref (f : frame) : ref := fst (fst f).
Definition tcall := (tytag * ref)%type.       (* one top-level call get::<ty>(r) *)

Record thread := mkThread {
  stack : list frame;        (* open gets of the current top-level call, innermost first *)
  todo : list tcall;         (* top-level calls still to make *)
  results : list outcome     (* answers of the finished top-level calls ([Panic 1] = the call panicked) *)
}.

(* Result<AnySync, Arc<PdfError>>: a stored value carries the TypeId it was loaded as *)
Inductive centry := InProcess | Computed (ty : tytag) (o : outcome).

Record ccfg := mkCcfg {
  shared_res : bool;     (* all threads use one StorageResolver / one each *)
  per_thread : bool;     (* guard keyed by thread (fixed code) *)
  cache_on : bool        (* object cache with the SyncCache protocol / NoCache *)
}.

Record gstate := mkG {
  chains : N -> N -> list ref;     (* resolver -> thread key -> guard stack *)
  poisoned : N -> bool;            (* resolver -> chain mutex poisoned *)
  cache : ref -> option centry;
  threads : tid -> thread;
  aborted : bool                   (* a panic while unwinding: the process aborted *)
}.

Definition upd {A} (f : tid -> A) (t : tid) (x : A) : tid -> A := fun t' => if Nat.eqb t' t then x else f t'.
Definition updN {A} (f : N -> A) (k : N) (x : A) : N -> A := fun k' => if k' =? k then x else f k'.

Section Conc.
  Variable c : ccfg.
  Variable prog : tytag -> ref -> comp.     (* resolve + T::from_primitive, as in Cache/Model.v *)

  Definition res_of (t : tid) : N := if shared_res c then 0 else N.of_nat t + 1.
  Definition tkey (t : tid) : N := if per_thread c then N.of_nat t + 1 else 0.

  Definition set_thread (g : gstate) (t : tid) (th : thread) : gstate :=
    mkG (chains g) (poisoned g) (cache g) (upd (threads g) t th) (aborted g).
  Definition set_chain (g : gstate) (rs tk : N) (ch : list ref) : gstate :=
    mkG (updN (chains g) rs (updN (chains g rs) tk ch)) (poisoned g) (cache g) (threads g) (aborted g).
  Definition set_cache (g : gstate) (r : ref) (e : centry) : gstate :=
    mkG (chains g) (poisoned g) (updN (cache g) r (Some e)) (threads g) (aborted g).
  Definition set_poison (g : gstate) (rs : N) : gstate :=
    mkG (chains g) (updN (poisoned g) rs true) (cache g) (threads g) (aborted g).
  Definition set_abort (g : gstate) : gstate :=
    mkG (chains g) (poisoned g) (cache g) (threads g) true.

  (* the harness thread body: for r in todo { catch_unwind(get(r)) } *)
  Definition next_call (th : thread) : thread :=
    match stack th, todo th with
    | [], (ty, r) :: rest => mkThread [(r, ty, AtEnter)] rest (results th)
    | _, _ => th
    end.

  (* run the computation p of frame r up to its next yield point; fb: p is the uncached re-load of get's
     Err arm (its result is returned as it is: next yield point "leave") *)
  Definition advance (fb : bool) (r : ref) (ty : tytag) (p : comp) (rest : list frame) : list frame :=
    match p with
    | Ret o => (r, ty, if fb then AtLeave o else if cache_on c then AtPublish o else AtCached o) :: rest
    | Call ty' r' k => (r', ty', AtEnter) :: (r, ty, InCall fb k) :: rest
    end.

  (* the innermost get returned o: its caller continues up to its next yield point *)
  Definition return_to (th : thread) (rest : list frame) (o : outcome) : thread :=
    match rest with
    | [] => next_call (mkThread [] (todo th) (results th ++ [o]))
    | (r, ty, InCall fb k) :: rest' => mkThread (advance fb r ty (k o) rest') (todo th) (results th)
    | _ :: _ => th      (* unreachable: frames below the top are InCall *)
    end.

  (* a panic in the innermost get: outer gets of this thread hold drop guards that lock the (now poisoned)
     chain mutex while unwinding -> second panic -> abort; a top-level get unwinds to catch_unwind *)
  Definition panic_here (g : gstate) (t : tid) (th : thread) (rest : list frame) : gstate :=
    match rest with
    | [] => set_thread g t (next_call (mkThread [] (todo th) (results th ++ [Panic 1])))
    | _ :: _ => set_abort g
    end.

  Fixpoint split_last (l : list ref) : option (list ref * ref) :=
    match l with
    | [] => None
    | [x] => Some ([], x)
    | x :: t => match split_last t with Some (l', y) => Some (x :: l', y) | None => None end
    end.

  (* [serve e]: is an error of kind e found in the cache (computed = false) returned as it is?  The code: never
     ([step]); the parameter exists to refute the whole class of variants (Cache/ConcProofs.v) *)
  Definition step_gen (serve : N -> bool) (g : gstate) (t : tid) : gstate :=
    if aborted g then g else
    let th := threads g t in
    match stack th with
    | [] => g
    | (r, ty, p) :: rest =>
      let rs := res_of t in
      let tk := tkey t in
      match p with
      | AtEnter =>                                                     (* self.chain.lock().unwrap() *)
          if poisoned g rs then panic_here g t th rest
          else if memN r (chains g rs tk) then                          (* bail!("Recursive reference") *)
            set_thread g t (return_to th rest (Err E_OTHER))
          else set_thread (set_chain g rs tk (chains g rs tk ++ [r])) t
                          (mkThread ((r, ty, AtPushed) :: rest) (todo th) (results th))
      | AtPushed =>
          if cache_on c then
            match cache g r with
            | None => set_thread (set_cache g r InProcess) t            (* Entry::Vacant *)
                                 (mkThread (advance false r ty (prog ty r) rest) (todo th) (results th))
            | Some (Computed ty' o) => set_thread g t (mkThread ((r, ty, AtHit ty' o) :: rest) (todo th) (results th))
            | Some InProcess => g                                       (* condvar.wait: not enabled *)
            end
          else set_thread g t (mkThread (advance false r ty (prog ty r) rest) (todo th) (results th))
      | InCall _ _ => g
      | AtPublish o => set_thread (set_cache g r (Computed ty o)) t
                                  (mkThread ((r, ty, AtCached o) :: rest) (todo th) (results th))
      | AtCached o => set_thread g t (mkThread ((r, ty, AtLeave o) :: rest) (todo th) (results th))
      | AtHit ty' o =>                                                  (* match res, computed = false *)
          match o with
          | Ok v => if ty' =? ty                                        (* any.downcast() *)
                    then set_thread g t (mkThread ((r, ty, AtLeave (Ok v)) :: rest) (todo th) (results th))
                    else set_thread g t (mkThread (advance true r ty (prog ty r) rest) (todo th) (results th))
          | Err e => if serve e                                         (* Err(e) if computed => …; Err(_) => load again *)
                     then set_thread g t (mkThread ((r, ty, AtLeave (Err e)) :: rest) (todo th) (results th))
                     else set_thread g t (mkThread (advance true r ty (prog ty r) rest) (todo th) (results th))
          | _ => set_thread g t (mkThread (advance true r ty (prog ty r) rest) (todo th) (results th))
          end
      | AtLeave o =>                                                    (* Defer: lock, pop, assert_eq *)
          if poisoned g rs then panic_here g t th rest
          else match split_last (chains g rs tk) with
               | Some (ch', x) =>
                   if x =? r then set_thread (set_chain g rs tk ch') t (return_to th rest o)
                   else panic_here (set_poison (set_chain g rs tk ch') rs) t th rest
               | None => panic_here (set_poison g rs) t th rest
               end
      end
    end.

  Definition step : gstate -> tid -> gstate := step_gen (fun _ => false).

  Definition enabled (g : gstate) (t : tid) : bool :=
    negb (aborted g) &&
    match stack (threads g t) with
    | [] => false
    | (r, _, AtPushed) :: _ =>
        if cache_on c then match cache g r with Some InProcess => false | _ => true end else true
    | (_, _, InCall _ _) :: _ => false
    | _ => true
    end.

  Definition finished (g : gstate) (t : tid) : bool :=
    match stack (threads g t) with [] => true | _ => false end.

  Definition init_thread (calls : list tcall) : thread := next_call (mkThread [] calls []).

  Fixpoint init_threads (progs : list (list tcall)) (t : tid) : tid -> thread :=
    match progs with
    | [] => fun _ => mkThread [] [] []
    | p :: ps => upd (init_threads ps (S t)) t (init_thread p)
    end.

  Definition ginit (progs : list (list tcall)) : gstate :=
    mkG (fun _ _ => []) (fun _ => false) (fun _ => None) (init_threads progs O) false.

  (* a schedule names, step by step, the thread that is released; naming a thread that is not enabled is a no-op *)
  Definition run_sched (g : gstate) (sched : list tid) : gstate := fold_left step sched g.

  Fixpoint first_enabled (g : gstate) (n : nat) (t : tid) : option tid :=
    match n with
    | O => None
    | S m => if enabled g t then Some t else first_enabled g m (S t)
    end.

  (* after the schedule: lowest enabled thread first, until nobody is enabled *)
  Fixpoint complete (fuel : nat) (n : nat) (g : gstate) : gstate :=
    match fuel with
    | O => g
    | S f => match first_enabled g n O with
             | Some t => complete f n (step g t)
             | None => g
             end
    end.

  Definition all_finished (g : gstate) (n : nat) : bool := forallb (finished g) (seq 0 n).
  Definition deadlocked (g : gstate) (n : nat) : bool :=
    negb (aborted g) && negb (all_finished g n) &&
    match first_enabled g n O with None => true | Some _ => false end.
End Conc.
