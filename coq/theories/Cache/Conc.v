(** Cache/Conc.v — small-step interleaving model of concurrent `StorageResolver::get` calls (property C13).
    No proofs in this file.

    One model step of thread t = the code t executes between two yield points of the instrumented build
    (pdf/src/verif_hooks.rs: "enter", "pushed", "cached", "leave" in file.rs StorageResolver::get, and
    "publish" inside the instrumented Cache implementation of harness/src/modes/cache.rs which mirrors
    globalcache-0.2.4 sync::SyncCache::get: Vacant -> InProcess -> compute -> Computed + notify_all,
    Occupied(Computed) -> clone, Occupied(InProcess) -> condvar wait).

    A frame (r, ty, pc) is one open call get::<ty>(r):
      (r, ty, AtEnter)     at "enter"  : next = lock chain; contains? push            (file.rs get, first block)
      (r, ty, AtPushed)    at "pushed" : next = cache.get_or_compute begin             (SyncCache::get entry match)
      (r, ty, InCall fb k) inside compute() (fb = false) or inside the uncached re-load (fb = true: a cached
                           error, or a value cached as another type, was found), waiting for the nested get above it
      (r, ty, AtHit ty' o) at "cached" : the cache held Computed ty' o (this call did not compute it: the entry was
                           there, or another thread published it while this one waited).  Served only when it is a
                           value of the requested type (AnySync::downcast, any.rs); an error found this way — of
                           whatever kind — and a value of another type are not served: resolve + from_primitive run
                           again, uncached (file.rs get: `Err(e) if computed`, `Err(_)`, `any.downcast() Err(_)`)
      (r, ty, AtPublish o) at "publish": next = store Computed ty o, notify_all
      (r, ty, AtCached o)  at "cached" : next = match res / downcast (thread-local; own value: downcast succeeds)
      (r, ty, AtLeave o)   at "leave"  : next = Defer: lock chain; pop; assert_eq      (file.rs get, drop guard)

    Lazily loaded references (object/mod.rs `Lazy<T>`: the primitive + a once-cell; a page's fonts, annotations, …).
    A program item (LAZY, i) is `Lazy::load` of cell i of a holder value that all threads share; [cells i] is the
    typed reference (ty, r) the cell holds.  The once-cell protocol of `OnceCell::get_or_try_init` (once_cell 1.x,
    sync): a full cell is cloned; the first thread that finds the cell empty becomes its initialiser ([CInit t]) and
    runs `resolve.get::<ty>(r)` — the frames above — while it holds the cell; a thread that finds the cell being
    initialised blocks (it is not enabled) until the initialiser is done; an initialiser whose load succeeded
    publishes the value ([CFull]: exactly one publication per cell), one whose load failed (or panicked) leaves
    the cell empty and returns its error, and a waiter then tries again as initialiser.  There is no yield point
    between "cell found empty" and the "enter" of the nested get, nor between the "leave" of that get and the
    publication: both are part of one step, as in the harness.  Not modelled: a cell whose primitive is not a
    reference (T::from_primitive on an inline object), re-entrant initialisation of a cell by its own initialiser.

    [per_thread c = false] is the code before the fix (one guard stack per resolver shared by all threads),
    [true] the fixed code (guard entries keyed by ThreadId).  Outside the model: OS scheduling, lock fairness,
    memory ordering (every step is atomic and sequentially consistent here), panics in user callbacks. *)
From PdfV Require Import Base.Prelude Gen.Generated Cache.Model.

Definition tid := nat.

Inductive pc :=
| AtEnter | AtPushed | InCall (fb : bool) (k : outcome -> comp)
| AtPublish (o : outcome) | AtCached (o : outcome) | AtHit (ty' : tytag) (o : outcome) | AtLeave (o : outcome).
Definition frame := (ref * tytag * pc)%type.
Definition fref (f : frame) : ref := fst (fst f).
Definition tcall := (tytag * ref)%type.       (* one top-level call get::<ty>(r), or (LAZY, i): load lazy cell i *)
Definition LAZY : tytag := 9.

Record thread := mkThread {
  stack : list frame;        (* open gets of the current top-level call, innermost first *)
  todo : list tcall;         (* top-level calls still to make *)
  results : list outcome;    (* answers of the finished top-level calls ([Panic 1] = the call panicked) *)
  lazy : option N            (* the lazy cell whose initialiser this thread is (its open get is the cell's load) *)
}.

(* once_cell::sync::OnceCell<MaybeRef<T>> of a Lazy<T> *)
Inductive cstate := CEmpty | CInit (t : tid) | CFull (o : outcome).

(* Result<AnySync, Arc<PdfError>>: a stored value carries the TypeId it was loaded as *)
Inductive centry := InProcess | Computed (ty : tytag) (o : outcome).

Record ccfg := mkCcfg {
  shared_res : bool;     (* all threads use one StorageResolver / one each *)
  per_thread : bool;     (* guard keyed by thread (fixed code) *)
  cache_on : bool        (* object cache with the SyncCache protocol / NoCache *)
}.

Record gstate := mkG {
  chains : N -> N -> list ref;     (* resolver -> thread key -> guard stack *)
  poisoned : N -> bool;            (* resolver -> chain mutex poisoned *)
  cache : ref -> option centry;
  threads : tid -> thread;
  aborted : bool;                  (* a panic while unwinding: the process aborted *)
  cellst : N -> cstate             (* the lazy cells of the shared holder *)
}.

Definition upd {A} (f : tid -> A) (t : tid) (x : A) : tid -> A := fun t' => if Nat.eqb t' t then x else f t'.
Definition updN {A} (f : N -> A) (k : N) (x : A) : N -> A := fun k' => if k' =? k then x else f k'.

Section Conc.
  Variable c : ccfg.
  Variable prog : tytag -> ref -> comp.     (* resolve + T::from_primitive, as in Cache/Model.v *)
  Variable cells : N -> tcall.              (* lazy cell -> the typed reference it holds *)

  Definition res_of (t : tid) : N := if shared_res c then 0 else N.of_nat t + 1.
  Definition tkey (t : tid) : N := if per_thread c then N.of_nat t + 1 else 0.

  Definition set_thread (g : gstate) (t : tid) (th : thread) : gstate :=
    mkG (chains g) (poisoned g) (cache g) (upd (threads g) t th) (aborted g) (cellst g).
  Definition set_chain (g : gstate) (rs tk : N) (ch : list ref) : gstate :=
    mkG (updN (chains g) rs (updN (chains g rs) tk ch)) (poisoned g) (cache g) (threads g) (aborted g) (cellst g).
  Definition set_cache (g : gstate) (r : ref) (e : centry) : gstate :=
    mkG (chains g) (poisoned g) (updN (cache g) r (Some e)) (threads g) (aborted g) (cellst g).
  Definition set_poison (g : gstate) (rs : N) : gstate :=
    mkG (chains g) (updN (poisoned g) rs true) (cache g) (threads g) (aborted g) (cellst g).
  Definition set_abort (g : gstate) : gstate :=
    mkG (chains g) (poisoned g) (cache g) (threads g) true (cellst g).
  Definition set_cells (g : gstate) (cs : N -> cstate) : gstate :=
    mkG (chains g) (poisoned g) (cache g) (threads g) (aborted g) cs.

  (* the harness thread body: for item in todo { catch_unwind(get / Lazy::load) }: thread t, with no open call,
     goes on to its next yield point: it takes the answers of full cells, becomes the initialiser of an empty cell
     (and is then at the "enter" of the cell's load), stops in front of a cell another thread initialises, or is
     at the "enter" of a plain get *)
  Fixpoint start (t : tid) (td : list tcall) (res : list outcome) (cs : N -> cstate) : thread * (N -> cstate) :=
    match td with
    | [] => (mkThread [] [] res None, cs)
    | (ty, r) :: rest =>
        if ty =? LAZY then
          match cs r with
          | CFull o => start t rest (res ++ [o]) cs                       (* get_or_try_init: initialised, clone *)
          | CEmpty => (mkThread [(snd (cells r), fst (cells r), AtEnter)] rest res (Some r), updN cs r (CInit t))
          | CInit _ => (mkThread [] td res None, cs)                      (* blocks on the cell *)
          end
        else (mkThread [(r, ty, AtEnter)] rest res None, cs)
    end.

  Definition start_next (g : gstate) (t : tid) : gstate :=
    let th := threads g t in
    match stack th with
    | [] => let '(th', cs') := start t (todo th) (results th) (cellst g) in set_cells (set_thread g t th') cs'
    | _ :: _ => g
    end.

  (* the top-level call of thread t returned o (its stack is empty now).  If it was the load of a lazy cell:
     Ok -> the value is published (the one publication of this cell), anything else -> the cell is empty again *)
  Definition top_done (g : gstate) (t : tid) (th : thread) (o : outcome) : gstate :=
    let cs := match lazy th with
              | Some i => updN (cellst g) i (match o with Ok _ => CFull o | _ => CEmpty end)
              | None => cellst g
              end in
    let '(th', cs') := start t (todo th) (results th ++ [o]) cs in
    set_cells (set_thread g t th') cs'.

  (* run the computation p of frame r up to its next yield point; fb: p is the uncached re-load of get's
     Err arm (its result is returned as it is: next yield point "leave") *)
  Definition advance (fb : bool) (r : ref) (ty : tytag) (p : comp) (rest : list frame) : list frame :=
    match p with
    | Ret o => (r, ty, if fb then AtLeave o else if cache_on c then AtPublish o else AtCached o) :: rest
    | Call ty' r' k => (r', ty', AtEnter) :: (r, ty, InCall fb k) :: rest
    end.

  (* the innermost get returned o: its caller continues up to its next yield point *)
  Definition finish (g : gstate) (t : tid) (th : thread) (rest : list frame) (o : outcome) : gstate :=
    match rest with
    | [] => top_done g t th o
    | (r, ty, InCall fb k) :: rest' =>
        set_thread g t (mkThread (advance fb r ty (k o) rest') (todo th) (results th) (lazy th))
    | _ :: _ => set_thread g t th      (* unreachable: frames below the top are InCall *)
    end.

  (* a panic in the innermost get: outer gets of this thread hold drop guards that lock the (now poisoned)
     chain mutex while unwinding -> second panic -> abort; a top-level get unwinds to catch_unwind (through
     get_or_try_init, which leaves the cell empty) *)
  Definition panic_here (g : gstate) (t : tid) (th : thread) (rest : list frame) : gstate :=
    match rest with
    | [] => top_done g t th (Panic 1)
    | _ :: _ => set_abort g
    end.

  Fixpoint split_last (l : list ref) : option (list ref * ref) :=
    match l with
    | [] => None
    | [x] => Some ([], x)
    | x :: t => match split_last t with Some (l', y) => Some (x :: l', y) | None => None end
    end.

  (* [serve e]: is an error of kind e found in the cache (computed = false) returned as it is?  The code: never
     ([step]); the parameter exists to refute the whole class of variants (Cache/ConcProofs.v) *)
  Definition step_gen (serve : N -> bool) (g : gstate) (t : tid) : gstate :=
    if aborted g then g else
    let th := threads g t in
    match stack th with
    | [] => start_next g t                                              (* a thread in front of a lazy cell *)
    | (r, ty, p) :: rest =>
      let rs := res_of t in
      let tk := tkey t in
      match p with
      | AtEnter =>                                                     (* self.chain.lock().unwrap() *)
          if poisoned g rs then panic_here g t th rest
          else if memN r (chains g rs tk) then                          (* bail!("Recursive reference") *)
            finish g t th rest (Err E_OTHER)
          else set_thread (set_chain g rs tk (chains g rs tk ++ [r])) t
                          (mkThread ((r, ty, AtPushed) :: rest) (todo th) (results th) (lazy th))
      | AtPushed =>
          if cache_on c then
            match cache g r with
            | None => set_thread (set_cache g r InProcess) t            (* Entry::Vacant *)
                                 (mkThread (advance false r ty (prog ty r) rest) (todo th) (results th) (lazy th))
            | Some (Computed ty' o) => set_thread g t (mkThread ((r, ty, AtHit ty' o) :: rest) (todo th) (results th) (lazy th))
            | Some InProcess => g                                       (* condvar.wait: not enabled *)
            end
          else set_thread g t (mkThread (advance false r ty (prog ty r) rest) (todo th) (results th) (lazy th))
      | InCall _ _ => g
      | AtPublish o => set_thread (set_cache g r (Computed ty o)) t
                                  (mkThread ((r, ty, AtCached o) :: rest) (todo th) (results th) (lazy th))
      | AtCached o => set_thread g t (mkThread ((r, ty, AtLeave o) :: rest) (todo th) (results th) (lazy th))
      | AtHit ty' o =>                                                  (* match res, computed = false *)
          match o with
          | Ok v => if ty' =? ty                                        (* any.downcast() *)
                    then set_thread g t (mkThread ((r, ty, AtLeave (Ok v)) :: rest) (todo th) (results th) (lazy th))
                    else set_thread g t (mkThread (advance true r ty (prog ty r) rest) (todo th) (results th) (lazy th))
          | Err e => if serve e                                         (* Err(e) if computed => …; Err(_) => load again *)
                     then set_thread g t (mkThread ((r, ty, AtLeave (Err e)) :: rest) (todo th) (results th) (lazy th))
                     else set_thread g t (mkThread (advance true r ty (prog ty r) rest) (todo th) (results th) (lazy th))
          | _ => set_thread g t (mkThread (advance true r ty (prog ty r) rest) (todo th) (results th) (lazy th))
          end
      | AtLeave o =>                                                    (* Defer: lock, pop, assert_eq *)
          if poisoned g rs then panic_here g t th rest
          else match split_last (chains g rs tk) with
               | Some (ch', x) =>
                   if x =? r then finish (set_chain g rs tk ch') t th rest o
                   else panic_here (set_poison (set_chain g rs tk ch') rs) t th rest
               | None => panic_here (set_poison g rs) t th rest
               end
      end
    end.

  Definition step : gstate -> tid -> gstate := step_gen (fun _ => false).

  Definition enabled (g : gstate) (t : tid) : bool :=
    negb (aborted g) &&
    match stack (threads g t) with
    | [] => match todo (threads g t) with
            | [] => false
            | (ty, r) :: _ => if ty =? LAZY then match cellst g r with CInit _ => false | _ => true end else true
            end
    | (r, _, AtPushed) :: _ =>
        if cache_on c then match cache g r with Some InProcess => false | _ => true end else true
    | (_, _, InCall _ _) :: _ => false
    | _ => true
    end.

  Definition finished (g : gstate) (t : tid) : bool :=
    match stack (threads g t), todo (threads g t) with [], [] => true | _, _ => false end.

  (* before the schedule the harness starts the threads one after the other, each up to its first yield point *)
  Definition graw (progs : list (list tcall)) : gstate :=
    mkG (fun _ _ => []) (fun _ => false) (fun _ => None) (fun t => mkThread [] (nth t progs []) [] None) false
        (fun _ => CEmpty).
  Definition ginit (progs : list (list tcall)) : gstate := fold_left start_next (seq 0 (length progs)) (graw progs).

  (* a schedule names, step by step, the thread that is released; naming a thread that is not enabled is a no-op *)
  Definition run_sched (g : gstate) (sched : list tid) : gstate := fold_left step sched g.

  Fixpoint first_enabled (g : gstate) (n : nat) (t : tid) : option tid :=
    match n with
    | O => None
    | S m => if enabled g t then Some t else first_enabled g m (S t)
    end.

  (* after the schedule: lowest enabled thread first, until nobody is enabled *)
  Fixpoint complete (fuel : nat) (n : nat) (g : gstate) : gstate :=
    match fuel with
    | O => g
    | S f => match first_enabled g n O with
             | Some t => complete f n (step g t)
             | None => g
             end
    end.

  Definition all_finished (g : gstate) (n : nat) : bool := forallb (finished g) (seq 0 n).
  Definition deadlocked (g : gstate) (n : nat) : bool :=
    negb (aborted g) && negb (all_finished g n) &&
    match first_enabled g n O with None => true | Some _ => false end.
End Conc.
