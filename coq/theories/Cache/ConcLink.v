(** Cache/ConcLink.v — the sequential answer [D1] of Cache/ConcProofs.v (one type, C13) is the denotation
    [D] of Cache/Proofs.v (C12) of the type-indifferent document [fun _ => prog]. *)
From PdfV Require Import Base.Prelude Gen.Generated Cache.Model Cache.Conc Cache.Proofs Cache.ConcProofs.

Lemma den1_is_den (prog : ref -> comp) : forall n ty r,
  den1 prog n r = den (fun _ => prog) n ty r.
Proof.
  induction n as [|n IH]; intros ty r; cbn [den1 den]; [reflexivity|].
  generalize (prog r) as p. induction p as [o|ty' r' k IHp]; [reflexivity|].
  rewrite (IH ty' r'). apply IHp.
Qed.

Lemma D1_is_D : forall prog rank ty r, D1 prog rank r = D (fun _ => prog) rank ty r.
Proof. intros prog rank ty r. unfold D1, D. apply den1_is_den. Qed.

Lemma bounded1_is_bounded rank n p : bounded1 rank n p <-> bounded rank n p.
Proof.
  induction p as [o|ty r k IH]; cbn [bounded1 bounded]; [tauto|].
  split; intros [H1 H2]; (split; [exact H1|]); intros o; apply IH; apply H2.
Qed.

Lemma acyclic1_is_acyclic prog rank : acyclic1 prog rank <-> acyclic (fun _ => prog) rank.
Proof.
  unfold acyclic1, acyclic. split.
  - intros H ty r. apply bounded1_is_bounded. apply H.
  - intros H r. apply bounded1_is_bounded. apply (H 0 r).
Qed.

(** the expected answer [D1] of the interleaving theorems is what the sequential model of file.rs get
    (Cache/Model.v, any cache configuration) returns for that reference *)
Lemma D1_is_sequential_answer : forall (prog : ref -> comp) (rank : ref -> nat) (oc sc : bool) (fuel : nat)
    (r : ref) (o : outcome) (st' : state),
  acyclic1 prog rank -> (rank r < fuel)%nat ->
  get (cfg_fixed oc sc) (fun _ => prog) fuel [] 0 r init = (o, st') -> o = D1 prog rank r.
Proof.
  intros prog rank oc sc fuel r o st' Hac Hf Hg.
  rewrite (D1_is_D prog rank 0 r).
  apply (cache_answers_D (fun _ => prog) (fun _ => []) (fun _ => Ok 0) (fun _ d => Ok d) (fun _ _ d => Ok d)
                         rank oc sc fuel 0 r st' o); [|exact Hf|exact Hg].
  apply acyclic1_is_acyclic. exact Hac.
Qed.
