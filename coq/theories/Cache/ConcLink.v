(** Cache/ConcLink.v — the expected answers [D prog rank ty r] of the interleaving theorems (Cache/ConcProofs.v,
    C13) are the answers of the sequential model of file.rs get (Cache/Model.v, C12): what get::<ty>(r) returns
    when it runs alone — cached or not, after any sequential history.  Hence the statement of the property
    itself: every call of every thread returns what it returns when it runs alone. *)
From PdfV Require Import Base.Prelude Gen.Generated Cache.Model Cache.Conc Cache.Proofs Cache.ConcProofs.

Definition no_filters : ref -> list filt := fun _ => [].
Definition no_raw : ref -> outcome := fun _ => Ok 0.
Definition id_appf : filt -> val -> outcome := fun _ d => Ok d.
Definition id_imgc : ref -> filt -> val -> outcome := fun _ _ d => Ok d.

Lemma D_is_alone_answer : forall (prog : tytag -> ref -> comp) (rank : ref -> nat) (fuel : nat) (ty : tytag) (r : ref),
  acyclic prog rank -> (rank r < fuel)%nat ->
  fst (get no_cache prog fuel [] ty r init) = D prog rank ty r.
Proof.
  intros prog rank fuel ty r Hac Hr.
  apply (cache_typed_get_any_history prog no_filters no_raw id_appf id_imgc rank false false fuel [] ty r Hac);
    [constructor|exact Hr].
Qed.

(** the sequential model of get (any cache configuration, after any sequential history of read calls of any
    types) returns [D ty r] for a typed get — the expected answer of the interleaving theorems *)
Lemma D_is_sequential_answer :
  forall (prog : tytag -> ref -> comp) (filters : ref -> list filt) (raw : ref -> outcome)
         (appf : filt -> val -> outcome) (imgc : ref -> filt -> val -> outcome)
         (rank : ref -> nat) (oc sc : bool) (fuel : nat) (history : list call) (ty : tytag) (r : ref),
    acyclic prog rank -> fuel_ok rank fuel history -> (rank r < fuel)%nat ->
    let st := final_state prog filters raw appf imgc oc sc fuel history init in
    fst (get (cfg_fixed oc sc) prog fuel [] ty r st) = D prog rank ty r /\
    fst (get no_cache prog fuel [] ty r init) = D prog rank ty r.
Proof. exact cache_typed_get_any_history. Qed.

(** the property as it is worded: under every schedule prefix of any number of threads making any number of
    typed calls and loads of shared lazy cells, a thread that has finished has received, item by item, what each
    item returns when it runs alone on a cache-free resolver (a lazy cell alone = the typed get of the reference it
    holds); an unfinished thread has received a prefix of that *)
Definition item_ref (cells : N -> tcall) (cl : tcall) : ref :=
  if fst cl =? LAZY then snd (cells (snd cl)) else snd cl.

Theorem conc_answers_alone : forall c prog cells rank progs sched fuel t,
  per_thread c = true -> acyclic prog rank ->
  (forall cl, In cl (nth t progs []) -> (rank (item_ref cells cl) < fuel)%nat) ->
  let g := run_sched c prog cells (ginit cells progs) sched in
  let alone := call_ans (lazy_seq cells (fun ty r => fst (get no_cache prog fuel [] ty r init))) in
  (exists k, results (threads g t) = map alone (firstn k (nth t progs []))) /\
  (finished g t = true -> results (threads g t) = map alone (nth t progs [])).
Proof.
  intros c prog cells rank progs sched fuel t Hpt Hac Hfuel g alone.
  destruct (conc_per_thread_chain c prog cells rank Hpt Hac progs sched) as (_ & _ & Hpre & Hfin & _).
  assert (Hext : forall l, (forall cl, In cl l -> In cl (nth t progs [])) ->
                           map (call_ans (lazy_seq cells (D prog rank))) l = map alone l).
  { intros l Hl. apply map_ext_in. intros cl Hin. unfold alone, call_ans, lazy_seq. symmetry.
    specialize (Hfuel cl (Hl cl Hin)). unfold item_ref in Hfuel.
    destruct (fst cl =? LAZY); apply D_is_alone_answer; assumption. }
  split.
  - destruct (Hpre t) as (k & Hk). exists k. fold g in Hk. rewrite Hk. apply Hext.
    intros cl Hin. rewrite <- (firstn_skipn k (nth t progs [])). apply in_or_app. left. exact Hin.
  - intros Hf. fold g in Hfin. rewrite (Hfin t Hf). apply Hext. auto.
Qed.

(** * the class of changes "serve a cached error of some kinds" under concurrency

    [step_gen serve] is [step] with the decision "return an error found in the cache as it is?" left open ([step]
    = never, the code).  For every error kind k of the harness' kind codes (1 other / "Recursive reference", 2 NullRef,
    3 FreeObject, 4 MissingEntry, 5 EOF, 6 UnspecifiedXRefEntry, 7 PageOutOfBounds, 8 MaxDepth, 9 InvalidPassword,
    10 UnexpectedPrimitive, 11 parse error) the variant that serves cached errors of kind k is wrong: thread 0 loads
    reference 3 as type 1 and fails with kind k; thread 1, which loads the same reference as type 2 (alone: the
    value 7), arrives while thread 0 computes, waits on InProcess, receives the published error — and returns it.
    (The sequential theorem [serving_cached_errors_refuted] of Cache/Proofs.v is for an arbitrary predicate.) *)
Definition error_kinds : list N := [1; 2; 3; 4; 5; 6; 7; 8; 9; 10; 11].

Theorem conc_serving_cached_errors_refuted : forall k : N, In k error_kinds ->
  let serve := fun e : N => e =? k in
  let prog := kind_prog k in
  let c := mkCcfg true true true in
  let g := fold_left (step_gen c prog no_cells serve) [0; 0; 1; 1; 0; 0; 0; 1; 1; 1; 1; 1]%nat (ginit no_cells [[(1, 3)]; [(2, 3)]]) in
  acyclic prog (fun _ => O) /\ finished g 1%nat = true /\
  results (threads g 1%nat) = [Err k] /\ fst (get no_cache prog 2 [] 2 3 init) = Ok 7.
Proof.
  intros k Hk.
  assert (Hac : forall k', acyclic (kind_prog k') (fun _ => O)).
  { intros k' ty r. unfold kind_prog. destruct (ty =? 1); exact I. }
  unfold error_kinds in Hk. cbn [In] in Hk.
  repeat (destruct Hk as [<-|Hk]; [split; [apply Hac|vm_compute; repeat split; reflexivity]|]).
  contradiction.
Qed.
