(** Cache/Run.v — harness entry points of the cache models.
    cache_history : cfg doc streams appf imgc flat calls   ->  one field per call (o<dec> | e<dec> | p | f)
    schedule      : ccfg doc programs schedule             ->  one field per thread, or Panic 99 = process abort
                    (programs: one row of references per thread, every call is get::<Node<0>>)
    tschedule     : the same with typed programs: one row "ty r ty r …" per thread; an item "9 i" loads lazy cell i
                    of the shared holder, whose entries "ty r ty r …" are the optional fifth field *)
From PdfV Require Import Base.Prelude Gen.Generated Cache.Model Cache.Node Cache.Conc.

Definition field (fs : list bytes) (i : nat) : bytes := nth i fs [].
Definition bit (l : bytes) (i : nat) : bool := nth i l 48 =? 49.

Fixpoint lookup2 {A} (a b : N) (l : list (N * N * A)) : option A :=
  match l with
  | [] => None
  | (x, y, v) :: t => if (x =? a) && (y =? b) then Some v else lookup2 a b t
  end.
Fixpoint lookup3 {A} (a b d : N) (l : list (N * N * N * A)) : option A :=
  match l with
  | [] => None
  | (x, y, z, v) :: t => if (x =? a) && (y =? b) && (z =? d) then Some v else lookup3 a b d t
  end.

(* streams: r tag val f1 … fn   (raw outcome, filter codes) *)
Definition stream_rows (l : bytes) : list (ref * (outcome * list filt)) :=
  somes (map (fun row => match row with
                         | r :: tg :: v :: fs => Some (r, (outcome_of tg v, fs))
                         | _ => None end) (rows l)).
(* appf: f in tag out *)
Definition appf_rows (l : bytes) : list (N * N * outcome) :=
  somes (map (fun row => match row with
                         | [f; i; tg; v] => Some (f, i, outcome_of tg v)
                         | _ => None end) (rows l)).
(* imgc: r f in tag out *)
Definition imgc_rows (l : bytes) : list (N * N * N * outcome) :=
  somes (map (fun row => match row with
                         | [r; f; i; tg; v] => Some (r, f, i, outcome_of tg v)
                         | _ => None end) (rows l)).
(* flat: ty r tag val   — loads whose nested structure is not modelled (library types): prog = Ret answer *)
Definition flat_rows (l : bytes) : list (N * N * outcome) :=
  somes (map (fun row => match row with
                         | [ty; r; tg; v] => Some (ty, r, outcome_of tg v)
                         | _ => None end) (rows l)).
(* calls: kind ty r  (0 get, 1 comp, 2 data, 3 raw image, 4 image) *)
Definition call_of_row (row : list N) : option call :=
  match row with
  | [k; ty; r] => Some (if k =? 0 then CGet ty r else if k =? 1 then CComp ty r else if k =? 2 then CData ty r
                        else if k =? 3 then CRaw ty r else CImage ty r)
  | _ => None
  end.

Definition HISTORY_FUEL : nat := 64.

Definition run_cache_history (fs : list bytes) : res (list bytes) :=
  let cf := field fs 0 in
  let c := mkCfg (bit cf 0) (bit cf 1) (bit cf 2) (bit cf 3) in
  let doc := doc_of (field fs 1) in
  let streams := stream_rows (field fs 2) in
  let at_ := appf_rows (field fs 3) in
  let it := imgc_rows (field fs 4) in
  let flat := flat_rows (field fs 5) in
  let calls := somes (map call_of_row (rows (field fs 6))) in
  let prog := fun ty r => match lookup2 ty r flat with Some o => Ret o | None => node_prog doc ty r end in
  let filters := fun r => match lookup r streams with Some (_, f) => f | None => [] end in
  let raw := fun r => match lookup r streams with Some (o, _) => o | None => Err E_OTHER end in
  let appf := fun f d => match lookup2 f d at_ with Some o => o | None => Err E_OTHER end in
  let imgc := fun r f d => match lookup3 r f d it with Some o => o | None => Err E_OTHER end in
  Ok (map show_outcome (run c prog filters raw appf imgc HISTORY_FUEL calls init)).

(* ---- schedule ---------------------------------------------------------------------------- *)
Fixpoint join (sep : N) (l : list bytes) : bytes :=
  match l with [] => [] | [x] => x | x :: t => x ++ sep :: join sep t end.

Definition show_thread (g : gstate) (t : tid) : bytes :=
  let th := threads g t in
  let done := map show_outcome (results th) in
  join 32 (done ++ (if finished g t then [] else [[33]])).       (* "!" = call still open: deadlock *)

Definition SCHED_FUEL : nat := 4000.

Definition run_sched_gen (fs : list bytes) (progs : list (list tcall)) : res (list bytes) :=
  let cf := field fs 0 in
  let c := mkCcfg (bit cf 0) (bit cf 1) (bit cf 2) in
  let doc := doc_of (field fs 1) in
  let sched := map N.to_nat (nums (field fs 3)) in
  let n := length progs in
  let prog := node_prog doc in
  let ctab := pairs (nums (field fs 4)) in                    (* the holder's /L entries: ty r ty r … *)
  let cells := fun i => nth (N.to_nat i) ctab (0, 0) in
  let g := complete c prog cells SCHED_FUEL n (run_sched c prog cells (ginit cells progs) sched) in
  if aborted g then Panic 99
  else if negb (all_finished g n) && (match first_enabled c g n O with Some _ => true | None => false end) then OutOfFuel
  else Ok (map (show_thread g) (seq 0 n)).

Definition run_schedule (fs : list bytes) : res (list bytes) :=
  run_sched_gen fs (map (fun row => map (fun r => (0, r)) (nums row)) (split 10 (field fs 2))).

Definition run_tschedule (fs : list bytes) : res (list bytes) :=
  run_sched_gen fs (map (fun row => pairs (nums row)) (split 10 (field fs 2))).
