(** Cache/Proofs.v — property C12: the object cache and the stream cache are invisible.

    Under an acyclic document ([acyclic]: every nested typed get goes to an object of strictly
    smaller rank) and enough fuel, every read call answers exactly what it answers alone on a
    cache-free resolver, whatever was read before ([cache_invisible], [cache_order_independent]);
    a typed get returns the chain-free, cache-free denotation [D] ([cache_answers_D]).
    Without acyclicity the statement is false ([cyclic_refuted]); the two pre-fix behaviours
    C12-a and C12-b are refuted by concrete documents ([prefix_a_refuted], [prefix_b_refuted]). *)
From PdfV Require Import Base.Prelude Gen.Generated Cache.Model.

Section P.
  Variable prog : tytag -> ref -> comp.
  Variable filters : ref -> list filt.
  Variable raw : ref -> outcome.
  Variable appf : filt -> val -> outcome.
  Variable imgc : ref -> filt -> val -> outcome.
  Variable rank : ref -> nat.

  Fixpoint bounded (n : nat) (p : comp) : Prop :=
    match p with
    | Ret _ => True
    | Call _ r k => (rank r < n)%nat /\ forall o, bounded n (k o)
    end.

  Definition acyclic : Prop := forall ty r, bounded (rank r) (prog ty r).

  (* chain-free, cache-free denotation *)
  Fixpoint den (n : nat) (ty : tytag) (r : ref) : outcome :=
    match n with
    | O => OutOfFuel
    | S m => (fix ev (p : comp) : outcome :=
                match p with
                | Ret o => o
                | Call ty' r' k => ev (k (den m ty' r'))
                end) (prog ty r)
    end.

  Definition D (ty : tytag) (r : ref) : outcome := den (S (rank r)) ty r.

  Fixpoint evalD (p : comp) : outcome :=
    match p with
    | Ret o => o
    | Call ty r k => evalD (k (D ty r))
    end.

  Definition answer_alone (fuel : nat) (cl : call) : outcome :=
    fst (do_call no_cache prog filters raw appf imgc fuel cl init).

  Definition fuel_ok (fuel : nat) (calls : list call) : Prop :=
    Forall (fun cl => (rank (call_ref cl) < fuel)%nat) calls.

  (** * the denotation is stable above the rank *)

  (* the inner [fix ev] of [den (S m)] as a function of its own *)
  Fixpoint evd (m : nat) (p : comp) : outcome :=
    match p with
    | Ret o => o
    | Call ty' r' k => evd m (k (den m ty' r'))
    end.

  Lemma den_S m ty r : den (S m) ty r = evd m (prog ty r).
  Proof.
    cbn [den]. generalize (prog ty r). intros p.
    induction p as [o|ty' r' k IH]; cbn [evd].
    - reflexivity.
    - apply IH.
  Qed.

  Lemma den_evalD_aux :
    acyclic ->
    forall n m, (m <= n)%nat -> forall ty r, (rank r < m)%nat -> den m ty r = evalD (prog ty r).
  Proof.
    intros Hac n. induction n as [|n IHn]; intros m Hm ty r Hr.
    - lia.
    - destruct m as [|m']; [lia|]. rewrite den_S.
      assert (Hin : forall b p, bounded b p -> (b <= m')%nat -> evd m' p = evalD p).
      { intros b p. induction p as [o|ty' r' k IHk]; cbn [bounded evd evalD]; intros Hb Hle.
        - reflexivity.
        - destruct Hb as [Hlt Hk].
          assert (Hd : den m' ty' r' = D ty' r').
          { unfold D.
            rewrite (IHn m' ltac:(lia) ty' r' ltac:(lia)).
            rewrite (IHn (S (rank r')) ltac:(lia) ty' r' ltac:(lia)).
            reflexivity. }
          rewrite Hd. apply IHk; [apply Hk|exact Hle]. }
      apply (Hin (rank r)); [apply Hac|lia].
  Qed.

  Lemma D_unfold : acyclic -> forall ty r, D ty r = evalD (prog ty r).
  Proof.
    intros Hac ty r. unfold D.
    apply (den_evalD_aux Hac (S (rank r)) (S (rank r))); lia.
  Qed.

  Lemma den_stable : acyclic -> forall n ty r, (rank r < n)%nat -> den n ty r = D ty r.
  Proof.
    intros Hac n ty r Hr. rewrite (D_unfold Hac).
    apply (den_evalD_aux Hac n n); [lia|exact Hr].
  Qed.

  (** * [get] in terms of [eval] *)

  Lemma ev_eval (c : cfg) (f : nat) (chain : list ref) (p : comp) : forall st,
    (fix ev (p : comp) (st : state) {struct p} : outcome * state :=
       match p with
       | Ret o => (o, st)
       | Call ty' r' k => let '(o, st1) := get c prog f chain ty' r' st in ev (k o) st1
       end) p st = eval c prog f chain p st.
  Proof.
    induction p as [o|ty' r' k IH]; intros st; cbn [eval].
    - reflexivity.
    - destruct (get c prog f chain ty' r' st) as [o st1]. apply IH.
  Qed.

  Lemma get_S (c : cfg) (f : nat) (chain : list ref) (ty : tytag) (r : ref) (st : state) :
    get c prog (S f) chain ty r st =
    if memN r chain then (Err E_OTHER, st)
    else if oc_on c then
      match lookup r (ocache st) with
      | None =>
          let '(o, st1) := eval c prog f (chain ++ [r]) (prog ty r) st in
          match entry_of ty o with
          | Some e => (o, set_oc st1 r e)
          | None => (o, st1)
          end
      | Some (EOk ty' v) =>
          if ty' =? ty then (Ok v, st) else eval c prog f (chain ++ [r]) (prog ty r) st
      | Some (EErr e) =>
          if fix_b c then eval c prog f (chain ++ [r]) (prog ty r) st else (Err e, st)
      end
    else eval c prog f (chain ++ [r]) (prog ty r) st.
  Proof.
    unfold get. cbn [get_gen]. fold (get c prog).
    destruct (memN r chain); [reflexivity|].
    destruct (oc_on c); [|apply ev_eval].
    destruct (lookup r (ocache st)) as [[ty' v|e]|].
    - destruct (ty' =? ty); [reflexivity|apply ev_eval].
    - destruct (fix_b c); cbn [negb]; [apply ev_eval|reflexivity].
    - rewrite ev_eval. reflexivity.
  Qed.

  (** * the cache invariant *)

  Definition Inv (st : state) : Prop :=
    (forall r ty v, lookup r (ocache st) = Some (EOk ty v) -> D ty r = Ok v) /\
    (forall r x, lookup r (scache st) = Some x -> x = sdecode raw appf r (filters r)).

  Lemma Inv_init : Inv init.
  Proof.
    split; cbn [init ocache scache lookup]; intros; discriminate.
  Qed.

  Lemma Inv_set_oc_ok st r ty v : Inv st -> D ty r = Ok v -> Inv (set_oc st r (EOk ty v)).
  Proof.
    intros [Ho Hs] HD. split; cbn [set_oc ocache scache lookup]; [|exact Hs].
    intros r0 ty0 v0. destruct (r =? r0) eqn:Er.
    - apply N.eqb_eq in Er. subst r0. intros H. injection H as Hty Hv. subst ty0 v0. exact HD.
    - apply Ho.
  Qed.

  Lemma Inv_set_oc_err st r e : Inv st -> Inv (set_oc st r (EErr e)).
  Proof.
    intros [Ho Hs]. split; cbn [set_oc ocache scache lookup]; [|exact Hs].
    intros r0 ty0 v0. destruct (r =? r0) eqn:Er.
    - intros H. discriminate H.
    - apply Ho.
  Qed.

  Lemma Inv_set_sc st r : Inv st -> Inv (set_sc st r (sdecode raw appf r (filters r))).
  Proof.
    intros [Ho Hs]. split; cbn [set_sc ocache scache lookup]; [exact Ho|].
    intros r0 x. destruct (r =? r0) eqn:Er.
    - apply N.eqb_eq in Er. subst r0. intros H. injection H as H. symmetry. exact H.
    - apply Hs.
  Qed.

  (** * the object cache *)

  Section C.
    Variables oc sc : bool.
    Hypothesis Hac : acyclic.
    Notation c := (cfg_fixed oc sc).

    Lemma eval_ok_aux f chain :
      (forall ty r st, Inv st -> (rank r < f)%nat ->
                       (forall x, In x chain -> (rank r < rank x)%nat) ->
                       exists st', get c prog f chain ty r st = (D ty r, st') /\ Inv st') ->
      forall p n st, bounded n p -> (n <= f)%nat ->
                     (forall x, In x chain -> (n <= rank x)%nat) -> Inv st ->
                     exists st', eval c prog f chain p st = (evalD p, st') /\ Inv st'.
    Proof.
      intros Hget p. induction p as [o|ty' r' k IH]; intros n st Hb Hn Hch Hinv;
        cbn [eval evalD bounded] in *.
      - exists st. split; [reflexivity|exact Hinv].
      - destruct Hb as [Hlt Hk].
        destruct (Hget ty' r' st Hinv ltac:(lia)) as [st1 [E1 I1]].
        { intros x Hx. specialize (Hch x Hx). lia. }
        rewrite E1. apply (IH (D ty' r') n st1 (Hk _) Hn Hch I1).
    Qed.

    Lemma get_ok : forall f chain ty r st,
      Inv st -> (rank r < f)%nat -> (forall x, In x chain -> (rank r < rank x)%nat) ->
      exists st', get c prog f chain ty r st = (D ty r, st') /\ Inv st'.
    Proof.
      induction f as [|f IHf]; intros chain ty r st Hinv Hr Hch; [lia|].
      rewrite get_S.
      assert (Hmem : memN r chain = false).
      { destruct (memN r chain) eqn:Em; [|reflexivity].
        apply memN_In in Em. specialize (Hch r Em). lia. }
      rewrite Hmem.
      assert (Hev : forall st0, Inv st0 ->
                exists st', eval c prog f (chain ++ [r]) (prog ty r) st0 = (D ty r, st') /\ Inv st').
      { intros st0 I0. rewrite (D_unfold Hac ty r).
        apply (eval_ok_aux f (chain ++ [r]) (IHf (chain ++ [r])) (prog ty r) (rank r) st0).
        - apply Hac.
        - lia.
        - intros x Hx. apply in_app_or in Hx. destruct Hx as [Hx|Hx].
          + specialize (Hch x Hx). lia.
          + cbn [In] in Hx. destruct Hx as [Hx|[]]. subst x. lia.
        - exact I0. }
      cbn [oc_on fix_b cfg_fixed].
      destruct oc; [|apply Hev; exact Hinv].
      destruct (lookup r (ocache st)) as [[ty' v|e]|] eqn:El.
      - destruct (ty' =? ty) eqn:Et; [|apply Hev; exact Hinv].
        apply N.eqb_eq in Et. subst ty'.
        exists st. split; [|exact Hinv].
        destruct Hinv as [Ho _]. rewrite (Ho r ty v El). reflexivity.
      - apply Hev. exact Hinv.
      - destruct (Hev st Hinv) as [st1 [E1 I1]]. rewrite E1.
        destruct (D ty r) as [v|e|s|] eqn:HD; cbn [entry_of].
        + eexists. split; [reflexivity|]. apply Inv_set_oc_ok; assumption.
        + eexists. split; [reflexivity|]. apply Inv_set_oc_err; assumption.
        + eexists. split; [reflexivity|exact I1].
        + eexists. split; [reflexivity|exact I1].
    Qed.

    Lemma eval_ok fuel ty r st :
      Inv st -> (rank r < fuel)%nat ->
      exists st', eval c prog fuel [] (prog ty r) st = (evalD (prog ty r), st') /\ Inv st'.
    Proof.
      intros Hinv Hr.
      apply (eval_ok_aux fuel [] (get_ok fuel []) (prog ty r) (rank r) st).
      - apply Hac.
      - lia.
      - intros x [].
      - exact Hinv.
    Qed.

    (** * the stream cache *)

    Lemma get_data_ok r st :
      Inv st ->
      exists st', get_data c raw appf r (filters r) st = (sdecode raw appf r (filters r), st')
                  /\ Inv st'.
    Proof.
      intros Hinv. unfold get_data. cbn [sc_on cfg_fixed].
      destruct sc; [|exists st; split; [reflexivity|exact Hinv]].
      destruct (lookup r (scache st)) as [x|] eqn:El.
      - exists st. split; [|exact Hinv].
        destruct Hinv as [_ Hs]. rewrite (Hs r x El). reflexivity.
      - eexists. split; [reflexivity|]. apply Inv_set_sc. exact Hinv.
    Qed.

    Definition raw_image_pure (r : ref) : res (val * filt) :=
      let fs := filters r in
      let e := match rposition is_image_filter fs with Some i => i | None => length fs end in
      let normal := firstn e fs in
      let image := skipn e fs in
      match sdecode raw appf r normal with
      | Ok data =>
          match image with
          | [] => Ok (data, 0)
          | [f] => if memN f cache_image_codecs then Ok (data, f) else Err E_OTHER
          | _ => Err E_OTHER
          end
      | Err e => Err e
      | Panic s => Panic s
      | OutOfFuel => OutOfFuel
      end.

    Lemma raw_image_ok r st :
      Inv st ->
      exists st', raw_image_data c filters raw appf r st = (raw_image_pure r, st') /\ Inv st'.
    Proof.
      intros Hinv. unfold raw_image_data, raw_image_pure. cbv zeta.
      generalize (match rposition is_image_filter (filters r) with
                  | Some i => i
                  | None => length (filters r)
                  end).
      intros e.
      destruct (skipn e (filters r)) as [|f t] eqn:Hsk.
      - pose proof (firstn_skipn e (filters r)) as Hfs.
        rewrite Hsk, app_nil_r in Hfs. rewrite Hfs.
        destruct (get_data_ok r st Hinv) as [st1 [E1 I1]]. rewrite E1.
        exists st1. split; [|exact I1].
        destruct (sdecode raw appf r (filters r)); reflexivity.
      - cbn [fix_a cfg_fixed].
        exists st. split; [|exact Hinv].
        destruct (sdecode raw appf r (firstn e (filters r))) as [data|e0|s|]; try reflexivity.
        destruct t as [|f' t']; [|reflexivity].
        destruct (memN f cache_image_codecs); reflexivity.
    Qed.

    Definition image_pure (r : ref) : outcome :=
      match raw_image_pure r with
      | Ok (data, f) => if f =? 0 then Ok data else imgc r f data
      | Err e => Err e
      | Panic s => Panic s
      | OutOfFuel => OutOfFuel
      end.

    Lemma image_ok r st :
      Inv st ->
      exists st', image_data c filters raw appf imgc r st = (image_pure r, st') /\ Inv st'.
    Proof.
      intros Hinv. unfold image_data, image_pure.
      destruct (raw_image_ok r st Hinv) as [st1 [E1 I1]]. rewrite E1.
      exists st1. split; [|exact I1].
      destruct (raw_image_pure r) as [[data f]|e|s|]; try reflexivity.
      destruct (f =? 0); reflexivity.
    Qed.

    (** * read calls *)

    Definition after_pure (ty : tytag) (r : ref) (k : outcome) : outcome :=
      match D ty r with
      | Ok _ => k
      | o => o
      end.

    Definition spec (cl : call) : outcome :=
      match cl with
      | CGet ty r => D ty r
      | CComp ty r => evalD (prog ty r)
      | CData ty r => after_pure ty r (sdecode raw appf r (filters r))
      | CRaw ty r => after_pure ty r (rmap pair_code (raw_image_pure r))
      | CImage ty r => after_pure ty r (image_pure r)
      end.

    Lemma after_get_ok fuel ty r st (k : state -> outcome * state) (kp : outcome) :
      Inv st -> (rank r < fuel)%nat ->
      (forall st1, Inv st1 -> exists st2, k st1 = (kp, st2) /\ Inv st2) ->
      exists st', after_get c prog fuel ty r st k = (after_pure ty r kp, st') /\ Inv st'.
    Proof.
      intros Hinv Hr Hk. unfold after_get, after_pure.
      destruct (get_ok fuel [] ty r st Hinv Hr) as [st1 [E1 I1]]; [intros x []|].
      rewrite E1.
      destruct (D ty r) as [v|e|s|].
      - apply Hk. exact I1.
      - exists st1. split; [reflexivity|exact I1].
      - exists st1. split; [reflexivity|exact I1].
      - exists st1. split; [reflexivity|exact I1].
    Qed.

    Lemma do_call_ok fuel cl st :
      Inv st -> (rank (call_ref cl) < fuel)%nat ->
      exists st', do_call c prog filters raw appf imgc fuel cl st = (spec cl, st') /\ Inv st'.
    Proof.
      intros Hinv Hr. destruct cl as [ty r|ty r|ty r|ty r|ty r];
        cbn [call_ref] in Hr; cbn [do_call spec].
      - apply get_ok; [exact Hinv|exact Hr|intros x []].
      - apply eval_ok; assumption.
      - apply after_get_ok; [exact Hinv|exact Hr|].
        intros st1 I1. unfold stream_data. apply get_data_ok. exact I1.
      - apply after_get_ok; [exact Hinv|exact Hr|].
        intros st1 I1. destruct (raw_image_ok r st1 I1) as [st2 [E2 I2]]. rewrite E2.
        exists st2. split; [reflexivity|exact I2].
      - apply after_get_ok; [exact Hinv|exact Hr|].
        intros st1 I1. apply image_ok. exact I1.
    Qed.

    Lemma run_ok fuel calls : forall st,
      Inv st -> fuel_ok fuel calls ->
      run c prog filters raw appf imgc fuel calls st = map spec calls.
    Proof.
      induction calls as [|cl t IH]; intros st Hinv Hf; cbn [run map].
      - reflexivity.
      - unfold fuel_ok in Hf. apply Forall_cons_iff in Hf. destruct Hf as [Hcl Ht].
        destruct (do_call_ok fuel cl st Hinv Hcl) as [st1 [E1 I1]]. rewrite E1.
        f_equal. apply IH; [exact I1|exact Ht].
    Qed.

    (** * every history: the state reached by any sequence of read calls *)
    Fixpoint final_state (fuel : nat) (calls : list call) (st : state) : state :=
      match calls with
      | [] => st
      | cl :: t => final_state fuel t (snd (do_call c prog filters raw appf imgc fuel cl st))
      end.

    Lemma final_state_inv fuel calls : forall st,
      Inv st -> fuel_ok fuel calls -> Inv (final_state fuel calls st).
    Proof.
      induction calls as [|cl t IH]; intros st Hinv Hf; cbn [final_state]; [exact Hinv|].
      unfold fuel_ok in Hf. apply Forall_cons_iff in Hf. destruct Hf as [Hcl Ht].
      destruct (do_call_ok fuel cl st Hinv Hcl) as [st1 [E1 I1]]. rewrite E1. cbn [snd].
      apply IH; [exact I1|exact Ht].
    Qed.

    (* an error entry of any kind, planted for any reference, does not disturb the invariant: the fixed
       [get] never trusts a cached error *)
    Lemma get_ok_planted_error fuel ty r st r0 k :
      Inv st -> (rank r < fuel)%nat ->
      fst (get c prog fuel [] ty r (set_oc st r0 (EErr k))) = D ty r.
    Proof.
      intros Hinv Hr.
      destruct (get_ok fuel [] ty r (set_oc st r0 (EErr k)) (Inv_set_oc_err st r0 k Hinv) Hr) as [st1 [E1 _]];
        [intros x []|].
      rewrite E1. reflexivity.
    Qed.

    (* a value entry of another type is not served either; it only has to be right for its own type *)
    Lemma get_ok_planted_value fuel ty r st r0 ty0 v0 :
      Inv st -> (rank r < fuel)%nat -> D ty0 r0 = Ok v0 ->
      fst (get c prog fuel [] ty r (set_oc st r0 (EOk ty0 v0))) = D ty r.
    Proof.
      intros Hinv Hr Hv.
      destruct (get_ok fuel [] ty r (set_oc st r0 (EOk ty0 v0)) (Inv_set_oc_ok st r0 ty0 v0 Hinv Hv) Hr)
        as [st1 [E1 _]]; [intros x []|].
      rewrite E1. reflexivity.
    Qed.

    (* the partial-decode path of raw_image_data (image filters left over) does not touch the stream cache *)
    Lemma raw_image_bypass r st :
      skipn (match rposition is_image_filter (filters r) with Some i => i | None => length (filters r) end)
            (filters r) <> [] ->
      snd (raw_image_data c filters raw appf r st) = st.
    Proof.
      unfold raw_image_data. cbv zeta.
      generalize (match rposition is_image_filter (filters r) with
                  | Some i => i
                  | None => length (filters r)
                  end).
      intros e Hne.
      destruct (skipn e (filters r)) as [|f t] eqn:Hsk; [contradiction Hne; reflexivity|].
      cbn [fix_a cfg_fixed].
      destruct (sdecode raw appf r (firstn e (filters r))) as [data|e0|s|]; try reflexivity.
      destruct t as [|f' t']; [|reflexivity].
      destruct (memN f cache_image_codecs); reflexivity.
    Qed.
  End C.

  Lemma answer_alone_spec fuel cl :
    acyclic -> (rank (call_ref cl) < fuel)%nat -> answer_alone fuel cl = spec cl.
  Proof.
    intros Hac Hr. unfold answer_alone.
    change no_cache with (cfg_fixed false false).
    destruct (do_call_ok false false Hac fuel cl init Inv_init Hr) as [st1 [E1 _]].
    rewrite E1. reflexivity.
  Qed.

  Lemma cache_invisible_sec oc sc fuel calls :
    acyclic -> fuel_ok fuel calls ->
    run (cfg_fixed oc sc) prog filters raw appf imgc fuel calls init
    = map (answer_alone fuel) calls.
  Proof.
    intros Hac Hf. rewrite (run_ok oc sc Hac fuel calls init Inv_init Hf).
    apply map_ext_in. intros cl Hin. symmetry. apply answer_alone_spec; [exact Hac|].
    unfold fuel_ok in Hf. rewrite Forall_forall in Hf. apply Hf. exact Hin.
  Qed.

  Lemma nth_map_last (f : call -> outcome) pre cl d :
    nth (length pre) (map f (pre ++ [cl])) d = f cl.
  Proof.
    rewrite map_app. cbn [map].
    rewrite <- (map_length f pre). apply nth_middle.
  Qed.
End P.

Theorem cache_invisible :
  forall prog filters raw appf imgc rank oc sc fuel calls,
    acyclic prog rank -> fuel_ok rank fuel calls ->
    run (cfg_fixed oc sc) prog filters raw appf imgc fuel calls init
    = map (answer_alone prog filters raw appf imgc fuel) calls.
Proof.
  intros prog filters raw appf imgc rank oc sc fuel calls Hac Hf.
  apply (cache_invisible_sec prog filters raw appf imgc rank oc sc fuel calls Hac Hf).
Qed.

(* a typed get returns the denotation *)
Theorem cache_answers_D :
  forall (prog : tytag -> ref -> comp) (filters : ref -> list filt) (raw : ref -> outcome)
         (appf : filt -> val -> outcome) (imgc : ref -> filt -> val -> outcome)
         (rank : ref -> nat) (oc sc : bool) (fuel : nat) (ty : tytag) (r : ref)
         (st' : state) (o : outcome),
    acyclic prog rank -> (rank r < fuel)%nat ->
    get (cfg_fixed oc sc) prog fuel [] ty r init = (o, st') -> o = D prog rank ty r.
Proof.
  intros prog filters raw appf imgc rank oc sc fuel ty r st' o Hac Hr Hg.
  destruct (get_ok prog filters raw appf rank oc sc Hac fuel [] ty r init
                   (Inv_init prog filters raw appf rank) Hr) as [st1 [E1 _]].
  - intros x [].
  - rewrite E1 in Hg. injection Hg as Ho _. symmetry. exact Ho.
Qed.

Theorem cache_order_independent :
  forall prog filters raw appf imgc rank oc sc fuel pre1 pre2 cl,
    acyclic prog rank -> fuel_ok rank fuel (pre1 ++ [cl]) -> fuel_ok rank fuel (pre2 ++ [cl]) ->
    nth (length pre1) (run (cfg_fixed oc sc) prog filters raw appf imgc fuel (pre1 ++ [cl]) init) OutOfFuel
    = nth (length pre2) (run (cfg_fixed oc sc) prog filters raw appf imgc fuel (pre2 ++ [cl]) init) OutOfFuel.
Proof.
  intros prog filters raw appf imgc rank oc sc fuel pre1 pre2 cl Hac H1 H2.
  rewrite (cache_invisible prog filters raw appf imgc rank oc sc fuel _ Hac H1).
  rewrite (cache_invisible prog filters raw appf imgc rank oc sc fuel _ Hac H2).
  rewrite !nth_map_last. reflexivity.
Qed.

(** the typed-load dimension, for every history: whatever was read before (as whatever types, with whatever
    outcomes: values, errors of any kind, re-loads), get::<ty>(r) returns the denotation of loading r AS ty,
    which is also what the uncached resolver returns for that type *)
Theorem cache_typed_get_any_history :
  forall (prog : tytag -> ref -> comp) (filters : ref -> list filt) (raw : ref -> outcome)
         (appf : filt -> val -> outcome) (imgc : ref -> filt -> val -> outcome)
         (rank : ref -> nat) (oc sc : bool) (fuel : nat) (history : list call) (ty : tytag) (r : ref),
    acyclic prog rank -> fuel_ok rank fuel history -> (rank r < fuel)%nat ->
    let st := final_state prog filters raw appf imgc oc sc fuel history init in
    fst (get (cfg_fixed oc sc) prog fuel [] ty r st) = D prog rank ty r /\
    fst (get no_cache prog fuel [] ty r init) = D prog rank ty r.
Proof.
  intros prog filters raw appf imgc rank oc sc fuel history ty r Hac Hf Hr st.
  assert (Hinv : Inv prog filters raw appf rank st).
  { apply (final_state_inv prog filters raw appf imgc rank oc sc Hac fuel history init);
      [apply Inv_init|exact Hf]. }
  split.
  - destruct (get_ok prog filters raw appf rank oc sc Hac fuel [] ty r st Hinv Hr) as [st1 [E1 _]];
      [intros x []|].
    rewrite E1. reflexivity.
  - change no_cache with (cfg_fixed false false).
    destruct (get_ok prog filters raw appf rank false false Hac fuel [] ty r init
                     (Inv_init prog filters raw appf rank) Hr) as [st1 [E1 _]]; [intros x []|].
    rewrite E1. reflexivity.
Qed.

(** cached errors are never trusted: after any history, an error entry of ANY kind planted under ANY
    reference (what an earlier load as another type, a concurrent load, or a retried load may have left
    there) leaves every typed answer unchanged *)
Theorem cache_error_entries_irrelevant :
  forall (prog : tytag -> ref -> comp) (filters : ref -> list filt) (raw : ref -> outcome)
         (appf : filt -> val -> outcome) (imgc : ref -> filt -> val -> outcome)
         (rank : ref -> nat) (oc sc : bool) (fuel : nat) (history : list call) (ty : tytag) (r r0 : ref) (k : N),
    acyclic prog rank -> fuel_ok rank fuel history -> (rank r < fuel)%nat ->
    let st := final_state prog filters raw appf imgc oc sc fuel history init in
    fst (get (cfg_fixed oc sc) prog fuel [] ty r (set_oc st r0 (EErr k))) = D prog rank ty r.
Proof.
  intros prog filters raw appf imgc rank oc sc fuel history ty r r0 k Hac Hf Hr st.
  apply (get_ok_planted_error prog filters raw appf rank oc sc Hac); [|exact Hr].
  apply (final_state_inv prog filters raw appf imgc rank oc sc Hac fuel history init);
    [apply Inv_init|exact Hf].
Qed.

(** a value cached as one type is never served as another: the entry only has to be right for its own type *)
Theorem cache_value_entries_typed :
  forall (prog : tytag -> ref -> comp) (filters : ref -> list filt) (raw : ref -> outcome)
         (appf : filt -> val -> outcome) (imgc : ref -> filt -> val -> outcome)
         (rank : ref -> nat) (oc sc : bool) (fuel : nat) (history : list call) (ty ty0 : tytag) (r r0 : ref) (v0 : val),
    acyclic prog rank -> fuel_ok rank fuel history -> (rank r < fuel)%nat ->
    D prog rank ty0 r0 = Ok v0 ->
    let st := final_state prog filters raw appf imgc oc sc fuel history init in
    fst (get (cfg_fixed oc sc) prog fuel [] ty r (set_oc st r0 (EOk ty0 v0))) = D prog rank ty r.
Proof.
  intros prog filters raw appf imgc rank oc sc fuel history ty ty0 r r0 v0 Hac Hf Hr Hv st.
  apply (get_ok_planted_value prog filters raw appf rank oc sc Hac); [|exact Hr|exact Hv].
  apply (final_state_inv prog filters raw appf imgc rank oc sc Hac fuel history init);
    [apply Inv_init|exact Hf].
Qed.

(** the stream cache (keyed by the reference only) holds nothing but full decodes, after every history; the
    partial-decode path of raw_image_data leaves it untouched and returns the pure split decode *)
Theorem cache_stream_entries_full :
  forall (prog : tytag -> ref -> comp) (filters : ref -> list filt) (raw : ref -> outcome)
         (appf : filt -> val -> outcome) (imgc : ref -> filt -> val -> outcome)
         (rank : ref -> nat) (oc sc : bool) (fuel : nat) (history : list call) (r : ref) (x : outcome),
    acyclic prog rank -> fuel_ok rank fuel history ->
    let st := final_state prog filters raw appf imgc oc sc fuel history init in
    lookup r (scache st) = Some x -> x = sdecode raw appf r (filters r).
Proof.
  intros prog filters raw appf imgc rank oc sc fuel history r x Hac Hf st Hl.
  assert (Hinv : Inv prog filters raw appf rank st).
  { apply (final_state_inv prog filters raw appf imgc rank oc sc Hac fuel history init);
      [apply Inv_init|exact Hf]. }
  destruct Hinv as [_ Hs]. exact (Hs r x Hl).
Qed.

Theorem cache_partial_decode :
  forall (prog : tytag -> ref -> comp) (filters : ref -> list filt) (raw : ref -> outcome)
         (appf : filt -> val -> outcome) (imgc : ref -> filt -> val -> outcome)
         (rank : ref -> nat) (oc sc : bool) (fuel : nat) (history : list call) (r : ref),
    acyclic prog rank -> fuel_ok rank fuel history ->
    let st := final_state prog filters raw appf imgc oc sc fuel history init in
    fst (raw_image_data (cfg_fixed oc sc) filters raw appf r st) = raw_image_pure filters raw appf r /\
    (skipn (match rposition is_image_filter (filters r) with Some i => i | None => length (filters r) end)
           (filters r) <> [] ->
     snd (raw_image_data (cfg_fixed oc sc) filters raw appf r st) = st).
Proof.
  intros prog filters raw appf imgc rank oc sc fuel history r Hac Hf st.
  assert (Hinv : Inv prog filters raw appf rank st).
  { apply (final_state_inv prog filters raw appf imgc rank oc sc Hac fuel history init);
      [apply Inv_init|exact Hf]. }
  split.
  - destruct (raw_image_ok prog filters raw appf rank oc sc r st Hinv) as [st1 [E1 _]].
    rewrite E1. reflexivity.
  - apply raw_image_bypass.
Qed.

Theorem cache_D_unfold :
  forall prog rank ty r, acyclic prog rank -> D prog rank ty r = evalD prog rank (prog ty r).
Proof.
  intros prog rank ty r Hac. apply D_unfold. exact Hac.
Qed.

(* under acyclicity the guard never fires and fuel suffices *)
Theorem cache_no_spurious_recursion :
  forall (prog : tytag -> ref -> comp) (rank : ref -> nat) (oc sc : bool) (fuel : nat)
         (ty : tytag) (r : ref),
    acyclic prog rank -> (rank r < fuel)%nat ->
    (forall ty r, evalD prog rank (prog ty r) <> OutOfFuel -> True) ->
    D prog rank ty r = evalD prog rank (prog ty r).
Proof.
  intros prog rank oc sc fuel ty r Hac _ _. apply D_unfold. exact Hac.
Qed.

(** * the statement without acyclicity is false *)

Definition full_statement : Prop :=
  forall prog filters raw appf imgc oc sc fuel calls,
    run (cfg_fixed oc sc) prog filters raw appf imgc fuel calls init
    = map (fun cl => fst (do_call no_cache prog filters raw appf imgc fuel cl init)) calls.

(* two objects 1 and 2 that eagerly load each other and swallow the nested error *)
Definition cyc_prog (ty : tytag) (r : ref) : comp :=
  if r =? 1 then Call 0 2 (fun o => Ret (Ok (match o with Ok v => 10 + v | _ => 10 end)))
  else if r =? 2 then Call 0 1 (fun o => Ret (Ok (match o with Ok v => 20 + v | _ => 20 end)))
  else Ret (Err 1).

Theorem cyclic_refuted : ~ full_statement.
Proof.
  intros H.
  specialize (H cyc_prog (fun _ => []) (fun _ => Ok 0) (fun _ d => Ok d) (fun _ _ d => Ok d)
                true true 5%nat [CGet 0 1; CGet 0 2]).
  vm_compute in H. discriminate H.
Qed.

(* defect C12-a before its fix: a partial filter list poisons the stream cache *)
Theorem prefix_a_refuted :
  exists prog filters raw appf imgc fuel calls,
    run (mkCfg true true false true) prog filters raw appf imgc fuel calls init
    <> map (fun cl => fst (do_call no_cache prog filters raw appf imgc fuel cl init)) calls.
Proof.
  exists (fun _ _ => Ret (Ok 0)), (fun _ => [1; 6]), (fun _ => Ok 100),
         (fun f d => Ok (d + f)), (fun _ _ d => Ok d), 5%nat, [CRaw 0 5; CData 0 5].
  vm_compute. intros H. discriminate H.
Qed.

(* defect C12-b before its fix: a cached error is served to a request of another type *)
Theorem prefix_b_refuted :
  exists prog filters raw appf imgc fuel calls,
    run (mkCfg true true true false) prog filters raw appf imgc fuel calls init
    <> map (fun cl => fst (do_call no_cache prog filters raw appf imgc fuel cl init)) calls.
Proof.
  exists (fun ty _ => if ty =? 1 then Ret (Err 1) else Ret (Ok 7)), (fun _ => []),
         (fun _ => Ok 0), (fun _ d => Ok d), (fun _ _ d => Ok d), 5%nat, [CGet 1 3; CGet 2 3].
  vm_compute. intros H. discriminate H.
Qed.

(** * the class of changes "serve a cached error of some kinds" is wrong for every kind

    [get_gen serve] is [get] with the decision "return an error found in the cache (not computed by this call)
    as it is?" left open.  The code answers no for every kind.  Whatever the kinds for which a variant answers
    yes — missing object, wrong type, parse error, recursion, … — it breaks the property: reference 3 below fails
    with kind k when it is loaded as type 1 and loads as type 2; after the first load the second one is served
    the error. *)
Definition kind_prog (k : N) (ty : tytag) (r : ref) : comp := if ty =? 1 then Ret (Err k) else Ret (Ok 7).

Theorem serving_cached_errors_refuted : forall (serve : N -> bool) (k : N),
  serve k = true ->
  exists (prog : tytag -> ref -> comp) (rank : ref -> nat) (fuel : nat) (ty1 ty2 : tytag) (r : ref),
    acyclic prog rank /\
    let first := get_gen (cfg_fixed true true) prog serve fuel [] ty1 r init in
    fst (get_gen (cfg_fixed true true) prog serve fuel [] ty2 r (snd first))
    <> fst (get no_cache prog fuel [] ty2 r init).
Proof.
  intros serve k Hk.
  exists (kind_prog k), (fun _ => O), 2%nat, 1, 2, 3.
  split; [intros ty r; unfold kind_prog; destruct (ty =? 1); exact I|].
  cbv. rewrite Hk. discriminate.
Qed.

(* ... and the code's choice is the one the theorems are about *)
Lemma get_is_get_gen_never : forall c prog, fix_b c = true -> get c prog = get_gen c prog (fun _ => false).
Proof. intros c prog H. unfold get. rewrite H. reflexivity. Qed.
