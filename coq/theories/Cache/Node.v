(** Cache/Node.v — the test documents of the cache area as model-side objects.

    harness/src/modes/cache.rs defines the Rust types Node<0>, Node<1>, Node<2> (three distinct TypeIds over
    the same dictionary shape  << /V int /F flags /E0 mask /E1 mask /D [ty ref ty ref …] >>;
    flags: bit 0 = nested errors are swallowed, bits 1..3 = types that are *lazy* (do not follow /D, like
    Vec<Ref<T>> against Vec<MaybeRef<T>>), bits 4.. = the error kind raised by the E0/E1 masks, 0 = Other); their
    `from_primitive` is [node_prog] below, their value digest is [digest].  This file is the *document
    abstraction* ([prog] of Cache/Model.v) for those documents — it is harness code that is modelled here,
    not library code; the library code under test is what Model.v / Conc.v describe.  No proofs. *)
From PdfV Require Import Base.Prelude Cache.Model.

Definition DIGEST_MOD : N := 2305843009213693951.   (* 2^61 - 1 *)
Definition dstep (h x : N) : N :=
  let t := (h * 1000003 + x + 1) mod DIGEST_MOD in (t * t + t + 7) mod DIGEST_MOD.
Definition item (o : outcome) : list N :=
  match o with Ok d => [0; d] | Err e => [1; e] | Panic s => [2; s] | OutOfFuel => [3; 0] end.
(* cache.rs: Node::digest *)
Definition digest (ty : tytag) (v : N) (kids : list outcome) : N :=
  fold_left dstep ([ty; v] ++ flat_map item kids) 7.

Record node := mkNode { n_v : N; n_swallow : bool; n_lazy : N; n_kind : N; n_e0 : N; n_e1 : N; n_deps : list (tytag * ref) }.

(* cache.rs: the loop over /D in Node::from_primitive *)
Fixpoint deps_prog (swallow : bool) (deps : list (tytag * ref)) (acc : list outcome)
         (fin : list outcome -> outcome) : comp :=
  match deps with
  | [] => Ret (fin acc)
  | (ty, r) :: t =>
      Call ty r (fun o =>
        match o with
        | Ok _ => deps_prog swallow t (acc ++ [o]) fin
        | Err e => if swallow then deps_prog swallow t (acc ++ [o]) fin else Ret (Err e)
        | _ => Ret o
        end)
  end.

Definition E_FREE : N := 3.   (* PdfError::FreeObject: the reference names a free entry *)

(* cache.rs: Node<TAG>::from_primitive after resolve(key) *)
Definition node_prog (doc : list (ref * node)) (ty : tytag) (r : ref) : comp :=
  match lookup r doc with
  | None => Ret (Err E_FREE)
  | Some nd =>
      if N.testbit (n_e0 nd) ty then Ret (Err (n_kind nd))
      else deps_prog (n_swallow nd) (if N.testbit (n_lazy nd) ty then [] else n_deps nd) []
             (fun kids => if N.testbit (n_e1 nd) ty then Err (n_kind nd) else Ok (digest ty (n_v nd) kids))
  end.

(** ---- decoding of harness fields (all-numeric rows) ---------------------------------------- *)
Fixpoint split_acc (sep : N) (l : bytes) (cur : bytes) : list bytes :=
  match l with
  | [] => [rev cur]
  | b :: t => if b =? sep then rev cur :: split_acc sep t [] else split_acc sep t (b :: cur)
  end.
Definition split (sep : N) (l : bytes) : list bytes := split_acc sep l [].
Definition nonempty (l : bytes) : bool := match l with [] => false | _ => true end.
Definition nums (l : bytes) : list N := map N_of_dec (filter nonempty (split 32 l)).
Definition rows (l : bytes) : list (list N) := filter (fun r => match r with [] => false | _ => true end) (map nums (split 10 l)).

Fixpoint pairs (l : list N) : list (N * N) :=
  match l with a :: b :: t => (a, b) :: pairs t | _ => [] end.

(* row: id v flags e0 e1 ty1 r1 ty2 r2 … *)
Definition node_of_row (row : list N) : option (ref * node) :=
  match row with
  | id :: v :: fl :: e0 :: e1 :: ds =>
      Some (id, mkNode v (N.testbit fl 0) ((fl / 2) mod 8) (if fl / 16 =? 0 then E_OTHER else fl / 16) e0 e1 (pairs ds))
  | _ => None
  end.
Fixpoint somes {A} (l : list (option A)) : list A :=
  match l with [] => [] | Some x :: t => x :: somes t | None :: t => somes t end.
Definition doc_of (l : bytes) : list (ref * node) := somes (map node_of_row (rows l)).

(* outcome as two numbers: tag (0 Ok, 1 Err) value *)
Definition outcome_of (tag v : N) : outcome := if tag =? 0 then Ok v else Err v.

(* printing of one answer: o<dec> | e<dec> | p | f *)
Definition show_outcome (o : outcome) : bytes :=
  match o with
  | Ok v => 111 :: dec_of_N v
  | Err e => 101 :: dec_of_N e
  | Panic _ => [112]
  | OutOfFuel => [102]
  end.
