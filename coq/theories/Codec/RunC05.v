(** Codec/RunC05.v — harness entry points for the chain / stream-level models (C05).
    libflate and weezl are Section oracles of the model; for execution they are given
    extensionally by a finite table (input -> answer) that the plugin computes with the python
    reference codecs; the implementation's answers on the same inputs are compared with the
    model's on every run, which is what tests the oracle premises of the theorems. *)
From PdfV Require Import Base.Prelude Gen.Generated Codec.Model Codec.Dispatch Codec.Pairing Codec.Run.

Fixpoint split_on (sep : N) (l : bytes) (cur : bytes) : list bytes :=
  match l with
  | [] => [rev cur]
  | c :: t => if c =? sep then rev cur :: split_on sep t [] else split_on sep t (c :: cur)
  end.

Definition zfield (l : list bytes) (i : nat) (d : Z) : Z :=
  match nth_error l i with
  | Some [] => d
  | Some b => Z_of_dec b
  | None => d
  end.

(* filter spec: name[:pred:colors:columns:bpc:early]  (harness/src/modes/codec.rs: filter_of) *)
Definition filter_of_spec (s : bytes) : option filter :=
  let parts := split_on 58 s [] in
  let name := nth 0 parts [] in
  let nums := tl parts in
  let p := {| p_predictor := zfield nums 0 1; p_colors := zfield nums 1 1; p_columns := zfield nums 2 1;
              p_bpc := zfield nums 3 8; p_early := zfield nums 4 1 |} in
  if bytes_eqb name [104; 101; 120] then Some FHex
  else if bytes_eqb name [97; 56; 53] then Some FA85
  else if bytes_eqb name [114; 108; 101] then Some FRle
  else if bytes_eqb name [108; 122; 119] then Some (FLzw p)
  else if bytes_eqb name [102; 108; 97; 116; 101] then Some (FFlate p)
  else None.

(* oracle table: (kind, input, answer); kind z = zlib inflate, r = raw inflate, l / L = LZW without / with
   the early size switch.  A missing entry is an error of the external decoder. *)
Definition otable := list (N * bytes * res bytes).
Fixpoint olookup (kind : N) (inp : bytes) (t : otable) : res bytes :=
  match t with
  | [] => Err 4
  | (k, i, a) :: t' => if (k =? kind) && bytes_eqb i inp then a else olookup kind inp t'
  end.
Definition ans_of (b : bytes) : res bytes :=
  match b with
  | c :: t => if c =? 75 then Ok t else Err 4      (* K<bytes> | E *)
  | [] => Err 4
  end.
Fixpoint table_of (k : nat) (fs : list bytes) : otable * list bytes :=
  match k with
  | O => ([], fs)
  | S k' =>
      match fs with
      | kind :: inp :: ans :: rest =>
          let (t, r) := table_of k' rest in ((nth 0 kind 0, inp, ans_of ans) :: t, r)
      | _ => ([], fs)
      end
  end.

Fixpoint all_some {A} (l : list (option A)) : option (list A) :=
  match l with
  | [] => Some []
  | Some a :: t => match all_some t with Some r => Some (a :: r) | None => None end
  | None :: _ => None
  end.

Definition chain_with (t : otable) (fs : list filter) (data : bytes) : res bytes :=
  decode_chain (fun d => olookup 122 d t) (fun d => olookup 114 d t)
               (fun early d => olookup (if early then 76 else 108) d t) fs data.

(* fields: k, 3k table fields, spec_1 … spec_n, data *)
Definition run_decchain (fs : list bytes) : res (list bytes) :=
  let k := N.to_nat (N_of_dec (field fs 0)) in
  let (t, rest) := table_of k (tl fs) in
  match all_some (map filter_of_spec (removelast rest)) with
  | Some filters => rmap (fun o => [o]) (chain_with t filters (last rest []))
  | None => Err 99
  end.

(* a parameter dictionary as Key:val:Key:val ; the empty field is the null object *)
Fixpoint dict_of_parts (l : list bytes) : pdict :=
  match l with
  | k :: v :: t => match k with [] => dict_of_parts t | _ => (k, Z_of_dec v) :: dict_of_parts t end
  | _ => []
  end.
Definition parm_of_field (b : bytes) : option pdict :=
  match b with [] => None | _ => Some (dict_of_parts (split_on 58 b [])) end.

(* fields: k, 3k table fields, fshape (n|s|a), pshape (n|d|a), nnames, names…, nparms, parms…, raw *)
Definition run_streamdata (fs : list bytes) : res (list bytes) :=
  let k := N.to_nat (N_of_dec (field fs 0)) in
  let (t, rest) := table_of k (tl fs) in
  let fshape := nth 0 (field rest 0) 0 in
  let pshape := nth 0 (field rest 1) 0 in
  let nn := N.to_nat (N_of_dec (field rest 2)) in
  let names := firstn nn (skipn 3 rest) in
  let rest2 := skipn (3 + nn) rest in
  let np := N.to_nat (N_of_dec (field rest2 0)) in
  let parms := map parm_of_field (firstn np (skipn 1 rest2)) in
  let raw := field (skipn (1 + np) rest2) 0 in
  let f := if fshape =? 110 then FvNull else if fshape =? 115 then FvName (nth 0 names []) else FvArr names in
  let p := if pshape =? 110 then PvNull
           else if pshape =? 100 then match nth 0 parms None with Some d => PvDict d | None => PvNull end
           else PvArr parms in
  rmap (fun o => [o])
    (stream_data (fun d => olookup 122 d t) (fun d => olookup 114 d t)
                 (fun early d => olookup (if early then 76 else 108) d t) f p raw).
