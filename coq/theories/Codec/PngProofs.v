From PdfV Require Import Base.Prelude Gen.Generated Codec.Model Codec.Spec.

(* ------------------------------------------------------------------ *)
(** * Table lemmas (by computation on the generated tables) *)

Lemma predictor_tags_iso :
  map (fun t => ptype_of_tag t) [0;1;2;3;4] = [Some PNone; Some PSub; Some PUp; Some PAvg; Some PPaeth].
Proof. vm_compute. reflexivity. Qed.

Lemma bpc_allowed_iso : bpc_allowed = [1;2;4;8;16]%Z.
Proof. reflexivity. Qed.

Lemma png_from_iso : png_from = 10%Z.
Proof. reflexivity. Qed.

Lemma tag0_iso : ptype_of_tag 0 = Some PNone.
Proof. exact (f_equal (fun l => nth 0 l None) predictor_tags_iso). Qed.
Lemma tag1_iso : ptype_of_tag 1 = Some PSub.
Proof. exact (f_equal (fun l => nth 1 l None) predictor_tags_iso). Qed.
Lemma tag2_iso : ptype_of_tag 2 = Some PUp.
Proof. exact (f_equal (fun l => nth 2 l None) predictor_tags_iso). Qed.
Lemma tag3_iso : ptype_of_tag 3 = Some PAvg.
Proof. exact (f_equal (fun l => nth 3 l None) predictor_tags_iso). Qed.
Lemma tag4_iso : ptype_of_tag 4 = Some PPaeth.
Proof. exact (f_equal (fun l => nth 4 l None) predictor_tags_iso). Qed.

Lemma tag_ptype t : t < 5 -> exists ft, ptype_of_tag t = Some ft.
Proof.
  intros Ht. pose proof tag0_iso as T0. pose proof tag1_iso as T1. pose proof tag2_iso as T2.
  pose proof tag3_iso as T3. pose proof tag4_iso as T4.
  assert (C : t = 0 \/ t = 1 \/ t = 2 \/ t = 3 \/ t = 4) by lia.
  destruct C as [C|[C|[C|[C|C]]]]; subst t; eauto.
Qed.

(* ------------------------------------------------------------------ *)
(** * Paeth *)

Lemma wrap16_small z : (-32768 <= z < 32768)%Z -> wrap16 z = z.
Proof. intros H. unfold wrap16. rewrite Z.mod_small; lia. Qed.

Lemma paeth_spec : forall a b c, a < 256 -> b < 256 -> c < 256 -> filter_paeth a b c = paeth_iso a b c.
Proof.
  intros a b c Ha Hb Hc. unfold filter_paeth, paeth_iso. cbv zeta.
  rewrite (wrap16_small (Z.of_N a + Z.of_N b)) by lia.
  rewrite (wrap16_small (Z.of_N a + Z.of_N b - Z.of_N c)) by lia.
  rewrite !wrap16_small by lia. reflexivity.
Qed.

Lemma filter_paeth_cases a b c :
  filter_paeth a b c = a \/ filter_paeth a b c = b \/ filter_paeth a b c = c.
Proof.
  unfold filter_paeth. cbv zeta.
  destruct (_ && _)%bool; [auto|]. destruct (_ <=? _)%Z; auto.
Qed.

Lemma filter_paeth_lt a b c : a < 256 -> b < 256 -> c < 256 -> filter_paeth a b c < 256.
Proof. intros Ha Hb Hc. destruct (filter_paeth_cases a b c) as [E|[E|E]]; rewrite E; assumption. Qed.

(* ------------------------------------------------------------------ *)
(** * One row *)

Lemma wadd_cancel v p : v < 256 -> p < 256 -> wadd ((v + 256 - p) mod 256) p = v.
Proof.
  intros Hv Hp. unfold wadd. rewrite N.add_mod_idemp_l by lia.
  replace (v + 256 - p + p) with (v + 1 * 256) by lia.
  rewrite N.mod_add by lia. apply N.mod_small. exact Hv.
Qed.

Lemma nth_wf l i : wf_bytes l -> nth i l 0 < 256.
Proof.
  intros H. revert i. induction H as [|x l Hx Hl IH]; intros i.
  - destruct i; cbn [nth]; lia.
  - destruct i as [|i]; cbn [nth]; [exact Hx|apply IH].
Qed.

Lemma back_rev (done rest : bytes) bpp : (1 <= bpp <= length done)%nat ->
  back 0 (rev done) bpp = nth (length done - bpp) (done ++ rest) 0.
Proof.
  intros H. unfold back. rewrite rev_nth by lia.
  rewrite app_nth1 by lia. f_equal. lia.
Qed.

Lemma have_rev (done : bytes) bpp : have (rev done) bpp = Nat.leb bpp (length done).
Proof. unfold have. rewrite rev_length. reflexivity. Qed.

Definition spec_pred (tag : N) (bpp : nat) (prior row : bytes) (i : nat) : N :=
  png_pred tag (if Nat.ltb i bpp then 0 else nth (i - bpp) row 0) (nth i prior 0)
               (if Nat.ltb i bpp then 0 else nth (i - bpp) prior 0).

Definition filt (tag : N) (bpp : nat) (prior row : bytes) (i : nat) : N :=
  (nth i row 0 + 256 - spec_pred tag bpp prior row i) mod 256.

Lemma png_filter_row_filt tag bpp prior row :
  png_filter_row tag bpp prior row = map (filt tag bpp prior row) (seq 0 (length row)).
Proof. reflexivity. Qed.

Lemma png_filter_row_length tag bpp prior row : length (png_filter_row tag bpp prior row) = length row.
Proof. unfold png_filter_row. rewrite map_length, seq_length. reflexivity. Qed.

Lemma png_pred_0 a b c : png_pred 0 a b c = 0. Proof. reflexivity. Qed.
Lemma png_pred_1 a b c : png_pred 1 a b c = a. Proof. reflexivity. Qed.
Lemma png_pred_2 a b c : png_pred 2 a b c = b. Proof. reflexivity. Qed.
Lemma png_pred_3 a b c : png_pred 3 a b c = (a + b) / 2. Proof. reflexivity. Qed.
Lemma png_pred_4 a b c : png_pred 4 a b c = paeth_iso a b c. Proof. reflexivity. Qed.

Lemma avg_lt a b : a < 256 -> b < 256 -> (a + b) / 2 < 256.
Proof. intros Ha Hb. apply N.div_lt_upper_bound; lia. Qed.

Lemma predict_spec tag ft bpp dr dp u rr rp :
  tag < 5 -> ptype_of_tag tag = Some ft -> (1 <= bpp)%nat -> length dr = length dp ->
  wf_bytes (dr ++ rr) -> wf_bytes (dp ++ u :: rp) ->
  predict ft bpp (rev dr) (rev dp) u = spec_pred tag bpp (dp ++ u :: rp) (dr ++ rr) (length dr)
  /\ predict ft bpp (rev dr) (rev dp) u < 256.
Proof.
  intros Htag Hft Hbpp Hlen Hwr Hwp.
  assert (Hu : nth (length dr) (dp ++ u :: rp) 0 = u) by (rewrite Hlen; apply nth_middle).
  assert (Hu256 : u < 256) by (rewrite <- Hu; apply nth_wf; exact Hwp).
  pose proof tag0_iso as T0. pose proof tag1_iso as T1. pose proof tag2_iso as T2.
  pose proof tag3_iso as T3. pose proof tag4_iso as T4.
  unfold spec_pred. rewrite Hu.
  destruct (Nat.ltb_spec (length dr) bpp) as [Hlt|Hge].
  - (* left of the row: a = c = 0 *)
    assert (Hh : have (rev dr) bpp = false).
    { rewrite have_rev. apply Nat.leb_gt. exact Hlt. }
    assert (C : tag = 0 \/ tag = 1 \/ tag = 2 \/ tag = 3 \/ tag = 4) by lia.
    destruct C as [C|[C|[C|[C|C]]]]; subst tag.
    + rewrite T0 in Hft. injection Hft as <-. cbn [predict]. rewrite png_pred_0. split; [reflexivity|lia].
    + rewrite T1 in Hft. injection Hft as <-. cbn [predict]. rewrite Hh, png_pred_1. split; [reflexivity|lia].
    + rewrite T2 in Hft. injection Hft as <-. cbn [predict]. rewrite png_pred_2. split; [reflexivity|exact Hu256].
    + rewrite T3 in Hft. injection Hft as <-. cbn [predict]. rewrite Hh, png_pred_3.
      rewrite N.add_0_l. split; [reflexivity|]. apply N.div_lt_upper_bound; lia.
    + rewrite T4 in Hft. injection Hft as <-. cbn [predict]. rewrite Hh, png_pred_4.
      split; [apply paeth_spec; lia|apply filter_paeth_lt; lia].
  - assert (Hh : have (rev dr) bpp = true).
    { rewrite have_rev. apply Nat.leb_le. exact Hge. }
    assert (Ha : back 0 (rev dr) bpp = nth (length dr - bpp) (dr ++ rr) 0)
      by (apply back_rev; lia).
    assert (Hc : back 0 (rev dp) bpp = nth (length dr - bpp) (dp ++ u :: rp) 0)
      by (rewrite Hlen; apply back_rev; lia).
    assert (Ha256 : nth (length dr - bpp) (dr ++ rr) 0 < 256) by (apply nth_wf; exact Hwr).
    assert (Hc256 : nth (length dr - bpp) (dp ++ u :: rp) 0 < 256) by (apply nth_wf; exact Hwp).
    assert (C : tag = 0 \/ tag = 1 \/ tag = 2 \/ tag = 3 \/ tag = 4) by lia.
    destruct C as [C|[C|[C|[C|C]]]]; subst tag.
    + rewrite T0 in Hft. injection Hft as <-. cbn [predict]. rewrite png_pred_0. split; [reflexivity|lia].
    + rewrite T1 in Hft. injection Hft as <-. cbn [predict]. rewrite Hh, png_pred_1, Ha.
      split; [reflexivity|exact Ha256].
    + rewrite T2 in Hft. injection Hft as <-. cbn [predict]. rewrite png_pred_2. split; [reflexivity|exact Hu256].
    + rewrite T3 in Hft. injection Hft as <-. cbn [predict]. rewrite Hh, png_pred_3, Ha.
      split; [reflexivity|apply avg_lt; assumption].
    + rewrite T4 in Hft. injection Hft as <-. cbn [predict]. rewrite Hh, png_pred_4, Ha, Hc.
      split; [apply paeth_spec; assumption|apply filter_paeth_lt; assumption].
Qed.

Lemma unfilter_go_inverts tag ft bpp prior row :
  tag < 5 -> ptype_of_tag tag = Some ft -> (1 <= bpp)%nat -> wf_bytes prior -> wf_bytes row ->
  forall rr dr dp rp, length dr = length dp -> length rr = length rp ->
    row = dr ++ rr -> prior = dp ++ rp ->
    unfilter_go ft bpp (rev dr) (rev dp) rp
                (map (filt tag bpp prior row) (seq (length dr) (length rr))) = rr.
Proof.
  intros Htag Hft Hbpp Hwp Hwr. induction rr as [|x rr IH]; intros dr dp rp Hl1 Hl2 Er Ep.
  - destruct rp; reflexivity.
  - destruct rp as [|u rp]; [discriminate|].
    cbn [length seq map unfilter_go].
    assert (Hx : nth (length dr) row 0 = x) by (rewrite Er; apply nth_middle).
    assert (Hx256 : x < 256) by (rewrite <- Hx; apply nth_wf; exact Hwr).
    assert (Ho : wadd (filt tag bpp prior row (length dr)) (predict ft bpp (rev dr) (rev dp) u) = x).
    { destruct (predict_spec tag ft bpp dr dp u (x :: rr) rp Htag Hft Hbpp Hl1) as [Hp Hlt].
      - rewrite <- Er. exact Hwr.
      - rewrite <- Ep. exact Hwp.
      - unfold filt. rewrite Hx. rewrite Er, Ep at 1. rewrite <- Hp.
        apply wadd_cancel; assumption. }
    rewrite Ho. f_equal.
    specialize (IH (dr ++ [x]) (dp ++ [u]) rp).
    rewrite !rev_unit, app_length in IH. cbn [length] in IH. rewrite Nat.add_1_r in IH.
    apply IH.
    + rewrite !app_length. cbn [length]. lia.
    + cbn [length] in Hl2. lia.
    + rewrite <- app_assoc. exact Er.
    + rewrite <- app_assoc. exact Ep.
Qed.

Theorem png_row_inverts : forall tag ft bpp prior row,
    tag < 5 -> ptype_of_tag tag = Some ft -> (1 <= bpp <= length row)%nat -> length prior = length row ->
    wf_bytes prior -> wf_bytes row ->
    unfilter ft bpp prior (png_filter_row tag bpp prior row) = Ok row.
Proof.
  intros tag ft bpp prior row Htag Hft Hbpp Hlen Hwp Hwr.
  unfold unfilter. rewrite png_filter_row_length, Hlen, Nat.eqb_refl. cbn [negb].
  destruct (Nat.ltb_spec (length row) bpp) as [Hlt|Hge]; [lia|].
  f_equal. rewrite png_filter_row_filt.
  apply (unfilter_go_inverts tag ft bpp prior row Htag Hft (proj1 Hbpp) Hwp Hwr row [] [] prior);
    try reflexivity. symmetry. exact Hlen.
Qed.

(* ------------------------------------------------------------------ *)
(** * Geometry *)

Lemma ceil8_eq n : ceil8 n = (n + 7) / 8.
Proof.
  unfold ceil8. assert (D : n = 8 * (n / 8) + n mod 8) by (apply N.div_mod; lia).
  assert (L : n mod 8 < 8) by (apply N.mod_lt; lia).
  destruct (N.eqb_spec (n mod 8) 0) as [E|E].
  - apply N.div_unique with (r := 7); lia.
  - apply N.div_unique with (r := n mod 8 - 1); [lia|].
    generalize dependent (n mod 8). generalize dependent (n / 8). intros q m D L E. lia.
Qed.

Lemma memZ_In x l : In x l -> memZ x l = true.
Proof.
  intros H. unfold memZ. apply existsb_exists. exists x. split; [exact H|apply Z.eqb_refl].
Qed.

Lemma geometry_iso : forall p,
    (1 <= p_colors p)%Z -> (1 <= p_columns p)%Z -> In (p_bpc p) [1;2;4;8;16]%Z ->
    Z.to_N (p_columns p) * (Z.to_N (p_colors p) * Z.to_N (p_bpc p)) < usize_lim ->
    predictor_geometry p = Ok (iso_row_bytes (Z.to_N (p_colors p)) (Z.to_N (p_bpc p)) (Z.to_N (p_columns p)),
                               iso_pixel_bytes (Z.to_N (p_colors p)) (Z.to_N (p_bpc p))).
Proof.
  intros p Hc Hw Hb Hlim. unfold predictor_geometry.
  rewrite (proj2 (Z.ltb_ge _ _) Hc), (proj2 (Z.ltb_ge _ _) Hw).
  rewrite memZ_In by (rewrite bpc_allowed_iso; exact Hb).
  cbn [orb negb].
  set (c := Z.to_N (p_colors p)) in *. set (b := Z.to_N (p_bpc p)) in *.
  set (w := Z.to_N (p_columns p)) in *.
  assert (Hw1 : 1 <= w) by (unfold w; lia).
  assert (Hle : c * b <= w * (c * b)).
  { rewrite <- (N.mul_1_l (c * b)) at 1. apply N.mul_le_mono_r. exact Hw1. }
  destruct (N.leb_spec usize_lim (c * b)) as [H1|H1]; [lia|].
  destruct (N.leb_spec usize_lim (w * (c * b))) as [H2|H2]; [lia|].
  rewrite !ceil8_eq. unfold iso_row_bytes, iso_pixel_bytes.
  replace (c * b * w) with (w * (c * b)) by lia. reflexivity.
Qed.

(* ------------------------------------------------------------------ *)
(** * No panic *)

Lemma repeatN_length {A} (x : A) n : length (repeatN x n) = n.
Proof. induction n as [|n IH]; cbn [repeatN length]; [reflexivity|rewrite IH; reflexivity]. Qed.

Lemma unfilter_go_length ft bpp : forall inp outrev prevrev prev,
  length prev = length inp -> length (unfilter_go ft bpp outrev prevrev prev inp) = length inp.
Proof.
  induction inp as [|x inp IH]; intros outrev prevrev prev H.
  - destruct prev; reflexivity.
  - destruct prev as [|u prev]; [discriminate|]. cbn [unfilter_go length].
    rewrite IH; [reflexivity|]. cbn [length] in H. lia.
Qed.

Lemma unfilter_ok_length ft bpp prev inp :
  length prev = length inp ->
  exists row, unfilter ft bpp prev inp = Ok row /\ length row = length inp.
Proof.
  intros H. unfold unfilter. rewrite H, Nat.eqb_refl. cbn [negb].
  destruct (Nat.ltb (length inp) bpp).
  - eexists. split; [reflexivity|apply repeatN_length].
  - eexists. split; [reflexivity|apply unfilter_go_length; exact H].
Qed.

Lemma rows_no_panic stride bpp : forall fuel prev inp,
  length prev = stride -> (length inp < fuel)%nat ->
  no_panic (unpredict_rows fuel stride bpp prev inp).
Proof.
  induction fuel as [|f IH]; intros prev inp Hp Hf; [lia|].
  cbn [unpredict_rows].
  destruct (Nat.ltb_spec stride (length inp)) as [Hlt|Hge]; [|exact I].
  destruct inp as [|tag body]; [exact I|].
  destruct (ptype_of_tag tag) as [ft|]; [|exact I].
  cbn [length] in Hlt, Hf.
  destruct (Nat.ltb_spec (length body) stride) as [Hb|Hb]; [lia|].
  assert (Hfl : length (firstn stride body) = stride) by (apply firstn_length_le; exact Hb).
  destruct (unfilter_ok_length ft bpp prev (firstn stride body)) as [row [Hrow Hlen]];
    [rewrite Hfl; exact Hp|].
  rewrite Hrow.
  assert (Hrec : no_panic (unpredict_rows f stride bpp row (skipn stride body))).
  { apply IH; [rewrite Hlen; exact Hfl|]. rewrite skipn_length. lia. }
  destruct (unpredict_rows f stride bpp row (skipn stride body)); cbn [no_panic] in *; auto.
Qed.

Lemma geometry_no_panic p : no_panic (predictor_geometry p).
Proof.
  unfold predictor_geometry.
  destruct (_ || _ || _)%bool; [exact I|].
  destruct (N.leb _ _); [exact I|]. destruct (N.leb _ _); exact I.
Qed.

Theorem png_no_panic : forall p d, (png_from <= p_predictor p)%Z -> no_panic (unpredict p d).
Proof.
  intros p d H. unfold unpredict. rewrite (proj2 (Z.leb_le _ _) H).
  pose proof (geometry_no_panic p) as G.
  destruct (predictor_geometry p) as [[stride bpp]|e|s|]; cbn [no_panic] in *; try exact G.
  destruct (N.eqb _ _); [exact I|].
  apply rows_no_panic; [apply repeatN_length|lia].
Qed.

(* ------------------------------------------------------------------ *)
(** * Whole image *)

Lemma firstn_app_exact {A} (l r : list A) n : length l = n -> firstn n (l ++ r) = l.
Proof.
  intros <-. rewrite firstn_app, Nat.sub_diag, firstn_all. cbn [firstn]. apply app_nil_r.
Qed.

Lemma skipn_app_exact {A} (l r : list A) n : length l = n -> skipn n (l ++ r) = r.
Proof.
  intros <-. rewrite skipn_app, Nat.sub_diag, skipn_all. reflexivity.
Qed.

Lemma wf_repeat0 n : wf_bytes (repeatN 0 n).
Proof.
  induction n as [|n IH]; cbn [repeatN]; [constructor|].
  apply wf_bytes_cons. split; [lia|exact IH].
Qed.

Lemma rows_invert bpp stride : (1 <= bpp <= stride)%nat ->
  forall rows fts prior fuel,
  length prior = stride -> wf_bytes prior -> length fts = length rows ->
  Forall (fun t => t < 5) fts -> Forall (fun r => length r = stride) rows -> Forall wf_bytes rows ->
  (length (png_encode_rows bpp prior fts rows) < fuel)%nat ->
  unpredict_rows fuel stride bpp prior (png_encode_rows bpp prior fts rows) = Ok (concat rows).
Proof.
  intros Hb. induction rows as [|row rows IH]; intros fts prior fuel Hp Hwp Hlen Hfts Hrl Hrw Hfuel.
  - destruct fts as [|t fts]; [|discriminate].
    destruct fuel as [|f]; [cbn [png_encode_rows length] in Hfuel; lia|].
    cbn [png_encode_rows unpredict_rows length concat].
    destruct (Nat.ltb_spec stride 0) as [H0|H0]; [lia|reflexivity].
  - destruct fts as [|t fts]; [discriminate|].
    apply Forall_cons_iff in Hfts as [Ht Hfts].
    apply Forall_cons_iff in Hrl as [Hrow Hrl].
    apply Forall_cons_iff in Hrw as [Hwrow Hrw].
    cbn [length] in Hlen.
    cbn [png_encode_rows] in *.
    assert (HF : length (png_filter_row t bpp prior row) = stride)
      by (rewrite png_filter_row_length; exact Hrow).
    destruct (tag_ptype t Ht) as [ft Hft].
    assert (Hinv : unfilter ft bpp prior (png_filter_row t bpp prior row) = Ok row).
    { apply png_row_inverts; try assumption; [lia|lia]. }
    set (F := png_filter_row t bpp prior row) in *.
    set (E := png_encode_rows bpp row fts rows) in *.
    cbn [length] in Hfuel. rewrite app_length in Hfuel.
    destruct fuel as [|f]; [lia|].
    cbn [unpredict_rows].
    destruct (Nat.ltb_spec stride (length (t :: F ++ E))) as [H1|H1];
      [|cbn [length] in H1; rewrite app_length in H1; lia].
    rewrite Hft.
    destruct (Nat.ltb_spec (length (F ++ E)) stride) as [H2|H2];
      [rewrite app_length in H2; lia|].
    rewrite (firstn_app_exact F E stride HF), (skipn_app_exact F E stride HF).
    rewrite Hinv. unfold E. rewrite IH; try assumption.
    + reflexivity.
    + lia.
    + fold E. lia.
Qed.

Lemma pixel_bytes_ge1 c b : 1 <= c -> 1 <= b -> 1 <= iso_pixel_bytes c b.
Proof.
  intros Hc Hb. unfold iso_pixel_bytes.
  assert (H : 1 <= c * b).
  { change 1 with (1 * 1) at 1. apply N.mul_le_mono; assumption. }
  apply N.div_le_lower_bound; lia.
Qed.

Lemma pixel_le_row c b w : 1 <= w -> iso_pixel_bytes c b <= iso_row_bytes c b w.
Proof.
  intros Hw. unfold iso_pixel_bytes, iso_row_bytes.
  apply N.div_le_mono; [lia|].
  assert (H : c * b <= c * b * w).
  { rewrite <- (N.mul_1_r (c * b)) at 1. apply N.mul_le_mono_l. exact Hw. }
  lia.
Qed.

Lemma encode_rows_length_ge bpp prior t fts row rows :
  (S (length row) <= length (png_encode_rows bpp prior (t :: fts) (row :: rows)))%nat.
Proof.
  cbn [png_encode_rows length]. rewrite app_length, png_filter_row_length. lia.
Qed.

Theorem png_image_inverts : forall p fts rows,
    (png_from <= p_predictor p)%Z ->
    (1 <= p_colors p)%Z -> (1 <= p_columns p)%Z -> In (p_bpc p) [1;2;4;8;16]%Z ->
    Z.to_N (p_columns p) * (Z.to_N (p_colors p) * Z.to_N (p_bpc p)) < usize_lim ->
    length fts = length rows -> Forall (fun t => t < 5) fts ->
    Forall (fun r => lenN r = iso_row_bytes (Z.to_N (p_colors p)) (Z.to_N (p_bpc p)) (Z.to_N (p_columns p))) rows ->
    Forall wf_bytes rows ->
    unpredict p (png_encode (Z.to_N (p_colors p)) (Z.to_N (p_bpc p)) (Z.to_N (p_columns p)) fts rows) = Ok (concat rows).
Proof.
  intros p fts rows Hpred Hc Hw Hb Hlim Hlen Hfts Hrl Hrw.
  unfold unpredict. rewrite (proj2 (Z.leb_le _ _) Hpred).
  rewrite (geometry_iso p Hc Hw Hb Hlim).
  unfold png_encode.
  set (c := Z.to_N (p_colors p)) in *. set (b := Z.to_N (p_bpc p)) in *.
  set (w := Z.to_N (p_columns p)) in *.
  assert (Hc1 : 1 <= c) by (unfold c; lia).
  assert (Hw1 : 1 <= w) by (unfold w; lia).
  assert (Hb1 : 1 <= b).
  { unfold b. cbn [In] in Hb. destruct Hb as [Hb|[Hb|[Hb|[Hb|[Hb|[]]]]]]; rewrite <- Hb; lia. }
  pose proof (pixel_bytes_ge1 c b Hc1 Hb1) as Hbpp1.
  pose proof (pixel_le_row c b w Hw1) as Hbpp2.
  set (stride := iso_row_bytes c b w) in *. set (bpp := iso_pixel_bytes c b) in *.
  assert (Hrl' : Forall (fun r => length r = N.to_nat stride) rows).
  { eapply Forall_impl; [|exact Hrl]. intros r Hr. cbv beta in Hr. unfold lenN in Hr. lia. }
  set (E := png_encode_rows (N.to_nat bpp) (repeatN 0 (N.to_nat stride)) fts rows).
  destruct (N.eqb_spec (lenN E / (stride + 1)) 0) as [Hq|Hq].
  - (* no whole row: there are no rows *)
    destruct rows as [|row rows]; [reflexivity|].
    destruct fts as [|t fts]; [discriminate|]. exfalso.
    apply N.div_small_iff in Hq; [|lia].
    pose proof (encode_rows_length_ge (N.to_nat bpp) (repeatN 0 (N.to_nat stride)) t fts row rows) as HE.
    fold E in HE. apply Forall_cons_iff in Hrl' as [Hrow _]. unfold lenN in Hq. lia.
  - unfold E. apply rows_invert; try assumption.
    + lia.
    + apply repeatN_length.
    + apply wf_repeat0.
    + fold E. lia.
Qed.

Example png_example :
  unpredict {| p_predictor := 15; p_colors := 1; p_bpc := 8; p_columns := 3; p_early := 1 |}
            (png_encode 1 8 3 [4; 1] [[10; 200; 30]; [250; 5; 60]])
  = Ok (concat [[10; 200; 30]; [250; 5; 60]]).
Proof. vm_compute. reflexivity. Qed.

(* the encoding in the example is not the identity: the filters do something *)
Example png_example_encoded :
  png_encode 1 8 3 [4; 1] [[10; 200; 30]; [250; 5; 60]] = [4; 10; 190; 86; 1; 250; 11; 55].
Proof. vm_compute. reflexivity. Qed.

Print Assumptions paeth_spec.
Print Assumptions png_row_inverts.
Print Assumptions geometry_iso.
Print Assumptions png_image_inverts.
Print Assumptions png_no_panic.
