(** Codec/Spec.v — specification objects for C05, written from the standards
    (ISO 32000-1 §7.4.2–§7.4.5, PNG (ISO/IEC 15948) §9, TIFF 6.0 §14), not from the code.
    Nothing here mentions a definition of Codec/Model.v or a generated table. *)
From PdfV Require Import Base.Prelude.

(** ISO 32000-1 Table 1: the six white-space characters *)
Definition iso_white : list N := [0; 9; 10; 12; 13; 32].

(** [spaced g s]: [s] is the symbol string [g] with white-space inserted anywhere
    (before, between and after symbols); the symbols themselves are not white-space. *)
Inductive spaced : bytes -> bytes -> Prop :=
| sp_nil : spaced [] []
| sp_ws w g s : In w iso_white -> spaced g s -> spaced g (w :: s)
| sp_sym c g s : ~ In c iso_white -> spaced g s -> spaced (c :: g) (c :: s).

(* ------------------------------------------------------------------ *)
(** * ASCII85 (§7.4.3) *)

(** the five base-85 digits of a 32-bit group, most significant first, as characters ! .. u *)
Definition a85_digits (n : N) : bytes :=
  [n / 52200625 + 33; (n / 614125) mod 85 + 33; (n / 7225) mod 85 + 33; (n / 85) mod 85 + 33; n mod 85 + 33].

Definition group_value (a b c d : N) : N := a * 16777216 + b * 65536 + c * 256 + d.

(** [a85_syms x t]: the symbol string [t] (no white-space, no EOD) encodes the bytes [x]:
    full groups of 4 bytes as 5 digits (an all-zero group also as [z]), a final group of
    k = 1..3 bytes as the first k+1 digits of the group padded with zero bytes. *)
Inductive a85_syms : bytes -> bytes -> Prop :=
| as_nil : a85_syms [] []
| as_z x t : a85_syms x t -> a85_syms (0 :: 0 :: 0 :: 0 :: x) (122 :: t)
| as_group a b c d x t : a < 256 -> b < 256 -> c < 256 -> d < 256 ->
    a85_syms x t -> a85_syms (a :: b :: c :: d :: x) (a85_digits (group_value a b c d) ++ t)
| as_tail1 a : a < 256 -> a85_syms [a] (firstn 2 (a85_digits (group_value a 0 0 0)))
| as_tail2 a b : a < 256 -> b < 256 -> a85_syms [a; b] (firstn 3 (a85_digits (group_value a b 0 0)))
| as_tail3 a b c : a < 256 -> b < 256 -> c < 256 ->
    a85_syms [a; b; c] (firstn 4 (a85_digits (group_value a b c 0))).

(** a spelling: the symbols followed by the EOD marker [~>], white-space anywhere *)
Definition a85_spells (x s : bytes) : Prop :=
  exists t, a85_syms x t /\ spaced (t ++ [126; 62]) s.

(* ------------------------------------------------------------------ *)
(** * RunLength (§7.4.5) *)

(** a length byte 0..127 is followed by length+1 literal bytes; 129..255 by one byte to be
    repeated 257-length times; 128 is EOD.  Any partition of the data into such runs encodes it. *)
Inductive rle_runs : bytes -> bytes -> Prop :=
| rr_nil : rle_runs [] []
| rr_lit l x e : (1 <= length l <= 128)%nat -> rle_runs x e ->
    rle_runs (l ++ x) (N.of_nat (length l) - 1 :: l ++ e)
| rr_rep b k x e : (2 <= k <= 128)%nat -> rle_runs x e ->
    rle_runs (repeatN b k ++ x) (257 - N.of_nat k :: b :: e).

(** the runs, then EOD (anything after it is not data) or simply the end of the data *)
Definition rle_encodes (x e : bytes) : Prop :=
  exists r, rle_runs x r /\ (e = r \/ exists rest, e = r ++ 128 :: rest).

(* ------------------------------------------------------------------ *)
(** * PNG predictors (PNG §9.2–9.4; ISO 32000-1 §7.4.4.4) *)

(** PaethPredictor(a, b, c) of PNG §9.4 *)
Definition paeth_iso (a b c : N) : N :=
  let p := (Z.of_N a + Z.of_N b - Z.of_N c)%Z in
  let pa := Z.abs (p - Z.of_N a) in
  let pb := Z.abs (p - Z.of_N b) in
  let pc := Z.abs (p - Z.of_N c) in
  if ((pa <=? pb) && (pa <=? pc))%Z then a else if (pb <=? pc)%Z then b else c.

(** the value subtracted by filter type [ft] (0 None, 1 Sub, 2 Up, 3 Average, 4 Paeth) from
    a = Orig(x - bpp), b = Prior(x), c = Prior(x - bpp) *)
Definition png_pred (ft a b c : N) : N :=
  if ft =? 0 then 0 else if ft =? 1 then a else if ft =? 2 then b
  else if ft =? 3 then (a + b) / 2 else paeth_iso a b c.

(** Filt(x) = Orig(x) - pred, modulo 256, for every byte x of the row; bytes to the left of
    the row count as 0 *)
Definition png_filter_row (ft : N) (bpp : nat) (prior row : bytes) : bytes :=
  map (fun i =>
         let a := if Nat.ltb i bpp then 0 else nth (i - bpp) row 0 in
         let b := nth i prior 0 in
         let c := if Nat.ltb i bpp then 0 else nth (i - bpp) prior 0 in
         (nth i row 0 + 256 - png_pred ft a b c) mod 256)
      (seq 0 (length row)).

(** the predicted image: each row preceded by its filter-type byte; the prior row of the first
    row is all zero *)
Fixpoint png_encode_rows (bpp : nat) (prior : bytes) (fts : list N) (rows : list bytes) : bytes :=
  match fts, rows with
  | ft :: fts', row :: rows' => ft :: png_filter_row ft bpp prior row ++ png_encode_rows bpp row fts' rows'
  | _, _ => []
  end.

(** geometry (ISO 32000-1 Table 8): bytes per row and bytes per pixel *)
Definition iso_row_bytes (colors bpc columns : N) : N := (colors * bpc * columns + 7) / 8.
Definition iso_pixel_bytes (colors bpc : N) : N := (colors * bpc + 7) / 8.

Definition png_encode (colors bpc columns : N) (fts : list N) (rows : list bytes) : bytes :=
  png_encode_rows (N.to_nat (iso_pixel_bytes colors bpc))
                  (repeatN 0 (N.to_nat (iso_row_bytes colors bpc columns))) fts rows.

(* ------------------------------------------------------------------ *)
(** * TIFF predictor 2 (TIFF 6.0 §14: horizontal differencing) *)

(** samples of a row, most significant bits first; 16-bit samples are big-endian *)
Definition spec_unpack_byte (bpc : N) (b : N) : list N :=
  map (fun k => (b / 2 ^ (8 - bpc * (N.of_nat k + 1))) mod 2 ^ bpc) (seq 0 (N.to_nat (8 / bpc))).
Fixpoint spec_pairs (row : bytes) : list N :=
  match row with a :: b :: t => (256 * a + b) :: spec_pairs t | _ => [] end.
Definition spec_unpack (bpc : N) (row : bytes) : list N :=
  if bpc =? 16 then spec_pairs row else flat_map (spec_unpack_byte bpc) row.

Fixpoint horner (bpc : N) (acc : N) (l : list N) : N :=
  match l with [] => acc | s :: t => horner bpc (acc * 2 ^ bpc + s) t end.
Fixpoint spec_pack_bytes (fuel : nat) (bpc : N) (per_byte : nat) (samples : list N) : bytes :=
  match fuel with
  | O => []
  | S f => match samples with
           | [] => []
           | _ => horner bpc 0 (firstn per_byte samples) :: spec_pack_bytes f bpc per_byte (skipn per_byte samples)
           end
  end.
Definition spec_pack (bpc : N) (samples : list N) : bytes :=
  if bpc =? 16 then flat_map (fun s => [s / 256; s mod 256]) samples
  else spec_pack_bytes (length samples) bpc (N.to_nat (8 / bpc)) samples.

(** each of the first [n] samples minus the sample of the same colour component of the pixel to
    its left (modulo 2^bpc); the first pixel and the bits after the last sample are unchanged *)
Definition tiff_diff (colors : nat) (bpc : N) (n : nat) (s : list N) : list N :=
  map (fun i => if Nat.ltb i colors || Nat.leb n i then nth i s 0
                else (nth i s 0 + 2 ^ bpc - nth (i - colors) s 0) mod 2 ^ bpc)
      (seq 0 (length s)).

Definition tiff_encode_row (colors bpc columns : N) (row : bytes) : bytes :=
  spec_pack bpc (tiff_diff (N.to_nat colors) bpc (N.to_nat (colors * columns)) (spec_unpack bpc row)).

Definition tiff_encode (colors bpc columns : N) (rows : list bytes) : bytes :=
  concat (map (tiff_encode_row colors bpc columns) rows).
