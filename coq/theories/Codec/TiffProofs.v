From PdfV Require Import Base.Prelude Gen.Generated Codec.Model Codec.Spec.

(** * TIFF predictor 2: the model of un-prediction inverts the specification encoder *)

(* ------------------------------------------------------------------ *)
(** ** table facts, by computation *)

Lemma tiff_consts : tiff_pred = 2%Z /\ (tiff_pred < png_from)%Z /\ bpc_allowed = [1;2;4;8;16]%Z.
Proof. repeat split; reflexivity. Qed.

Lemma tiff_not_png : (png_from <=? tiff_pred)%Z = false.
Proof. reflexivity. Qed.

Lemma bpc_allowed_tbl : bpc_allowed = [1;2;4;8;16]%Z.
Proof. reflexivity. Qed.

(* ------------------------------------------------------------------ *)
(** ** list helpers *)

Lemma firstn_len_app {A} (a b : list A) k : length a = k -> firstn k (a ++ b) = a.
Proof. intros <-. induction a as [|x a IH]; cbn [length firstn app]; [destruct b; reflexivity|]. rewrite IH. reflexivity. Qed.

Lemma skipn_len_app {A} (a b : list A) k : length a = k -> skipn k (a ++ b) = b.
Proof. intros <-. induction a as [|x a IH]; cbn [length skipn app]; [reflexivity|exact IH]. Qed.

Lemma flat_map_length_const {A B} (f : A -> list B) k l :
  (forall x, length (f x) = k) -> length (flat_map f l) = (length l * k)%nat.
Proof.
  intros Hf. induction l as [|x l IH]; cbn [flat_map length]; [reflexivity|].
  rewrite app_length, Hf, IH. lia.
Qed.

Lemma pairs16_length : forall row, (length row <= 2 * length (pairs16 row) + 1)%nat.
Proof.
  fix IH 1. intros [|a [|b t]]; cbn [pairs16 length]; [lia|lia|].
  specialize (IH t). lia.
Qed.

Lemma unpack_byte_length bpc b : length (unpack_byte bpc b) = N.to_nat (8 / bpc).
Proof. unfold unpack_byte. rewrite map_length, seq_length. reflexivity. Qed.

Lemma spec_unpack_byte_length bpc b : length (spec_unpack_byte bpc b) = N.to_nat (8 / bpc).
Proof. unfold spec_unpack_byte. rewrite map_length, seq_length. reflexivity. Qed.

(* ------------------------------------------------------------------ *)
(** ** geometry *)

(* bring a / b and a mod b (b a positive constant) within reach of lia *)
Ltac dm a b :=
  let q := fresh "q" in let r := fresh "r" in
  let Eq := fresh "Eq" in let Er := fresh "Er" in
  pose proof (N.div_mod a b ltac:(lia)); pose proof (N.mod_lt a b ltac:(lia));
  remember (a / b) as q eqn:Eq; remember (a mod b) as r eqn:Er; clear Eq Er.

Lemma ceil8_spec n : ceil8 n = (n + 7) / 8.
Proof.
  unfold ceil8. dm n 8.
  destruct (N.eqb_spec r 0) as [Z0|NZ].
  - apply N.div_unique with (r := 7); lia.
  - apply N.div_unique with (r := r - 1); lia.
Qed.

Lemma ceil8_bounds n : n <= 8 * ceil8 n < n + 8.
Proof.
  rewrite ceil8_spec. dm (n + 7) 8. lia.
Qed.

Lemma memZ_allowed x : memZ x bpc_allowed = true <-> In x [1;2;4;8;16]%Z.
Proof.
  rewrite bpc_allowed_tbl. unfold memZ. rewrite existsb_exists. split.
  - intros [y [Hy He]]. apply Z.eqb_eq in He. subst. exact Hy.
  - intros H. exists x. split; [exact H|apply Z.eqb_refl].
Qed.

Lemma geometry_cases p :
  (exists e, predictor_geometry p = Err e) \/
  (exists bpp, predictor_geometry p =
      Ok (ceil8 (Z.to_N (p_columns p) * (Z.to_N (p_colors p) * Z.to_N (p_bpc p))), bpp) /\
    (1 <= p_colors p)%Z /\ (1 <= p_columns p)%Z /\ In (p_bpc p) [1;2;4;8;16]%Z).
Proof.
  unfold predictor_geometry.
  destruct (Z.ltb_spec (p_colors p) 1) as [H1|H1]; cbn [orb]; [left; eauto|].
  destruct (Z.ltb_spec (p_columns p) 1) as [H2|H2]; cbn [orb]; [left; eauto|].
  destruct (memZ (p_bpc p) bpc_allowed) eqn:M; cbn [negb]; [|left; eauto].
  apply memZ_allowed in M.
  destruct (usize_lim <=? _); [left; eauto|].
  destruct (usize_lim <=? _); [left; eauto|].
  right. eexists. split; [reflexivity|]. auto.
Qed.

Lemma geometry_ok p :
  (1 <= p_colors p)%Z -> (1 <= p_columns p)%Z -> In (p_bpc p) [1;2;4;8;16]%Z ->
  Z.to_N (p_columns p) * (Z.to_N (p_colors p) * Z.to_N (p_bpc p)) < usize_lim ->
  exists bpp, predictor_geometry p =
    Ok (iso_row_bytes (Z.to_N (p_colors p)) (Z.to_N (p_bpc p)) (Z.to_N (p_columns p)), bpp).
Proof.
  intros H1 H2 H3 H4. unfold predictor_geometry.
  destruct (Z.ltb_spec (p_colors p) 1) as [H1'|_]; [lia|].
  destruct (Z.ltb_spec (p_columns p) 1) as [H2'|_]; [lia|].
  apply memZ_allowed in H3. rewrite H3. cbn [orb negb].
  destruct (N.leb_spec usize_lim (Z.to_N (p_colors p) * Z.to_N (p_bpc p))) as [H5|_].
  - exfalso. assert (1 <= Z.to_N (p_columns p)) by lia. nia.
  - destruct (N.leb_spec usize_lim (Z.to_N (p_columns p) * (Z.to_N (p_colors p) * Z.to_N (p_bpc p)))) as [H6|_]; [lia|].
    eexists. rewrite ceil8_spec. unfold iso_row_bytes.
    replace (Z.to_N (p_colors p) * Z.to_N (p_bpc p) * Z.to_N (p_columns p))
      with (Z.to_N (p_columns p) * (Z.to_N (p_colors p) * Z.to_N (p_bpc p))) by lia.
    reflexivity.
Qed.

(* samples of a full row are at least colors * columns *)
Lemma samples_fit B M : In B [1;2;4;8] -> M <= ceil8 (B * M) * (8 / B).
Proof.
  intros HB. cbn [In] in HB.
  pose proof (ceil8_bounds (B * M)) as Hc.
  destruct HB as [<-|[<-|[<-|[<-|[]]]]].
  - change (8 / 1) with 8. lia.
  - change (8 / 2) with 4. lia.
  - change (8 / 4) with 2. lia.
  - change (8 / 8) with 1. lia.
Qed.

Lemma samples_fit16 M : 2 * M <= ceil8 (16 * M).
Proof. pose proof (ceil8_bounds (16 * M)) as Hc. lia. Qed.

(* ------------------------------------------------------------------ *)
(** ** no panic *)

Lemma tiff_go_ok colors mask : forall n outrev s, (n <= length s)%nat ->
  exists r, tiff_go colors mask n outrev s = Ok r.
Proof.
  induction n as [|n IH]; intros outrev s Hn; cbn [tiff_go].
  - eauto.
  - destruct s as [|x t]; [cbn in Hn; lia|].
    cbn [length] in Hn. cbv zeta.
    match goal with |- context [tiff_go _ _ _ (?o :: _) _] =>
      destruct (IH (o :: outrev) t ltac:(lia)) as [r Hr]; rewrite Hr end.
    eauto.
Qed.

Lemma tiff_rows_no_panic stride colors bpc n :
  (1 <= stride)%nat ->
  (forall row, length row = stride -> (n <= length (unpack_samples bpc row))%nat) ->
  forall fuel d, (length d < fuel)%nat -> no_panic (tiff_rows fuel stride colors bpc n d).
Proof.
  intros Hs Hrow. induction fuel as [|f IH]; intros d Hd; [lia|].
  cbn [tiff_rows].
  destruct (Nat.leb_spec stride (length d)) as [Hle|Hgt]; [|exact I].
  assert (Hf : length (firstn stride d) = stride) by (rewrite firstn_length; lia).
  unfold tiff_unpredict_row.
  destruct (tiff_go_ok colors (2 ^ bpc - 1) n [] (unpack_samples bpc (firstn stride d)) (Hrow _ Hf)) as [r Hr].
  rewrite Hr.
  specialize (IH (skipn stride d)). rewrite skipn_length in IH. specialize (IH ltac:(lia)).
  destruct (tiff_rows f stride colors bpc n (skipn stride d)); cbn in *; auto.
Qed.

Lemma unpack_samples_enough B M row :
  In B [1;2;4;8;16] ->
  length row = N.to_nat (ceil8 (B * M)) ->
  (N.to_nat M <= length (unpack_samples B row))%nat.
Proof.
  intros HB Hl. unfold unpack_samples.
  destruct (N.eqb_spec B 16) as [->|Hne].
  - pose proof (pairs16_length row) as Hp. pose proof (samples_fit16 M). lia.
  - assert (HB' : In B [1;2;4;8]) by (cbn [In] in *; intuition congruence).
    rewrite (flat_map_length_const _ _ _ (unpack_byte_length B)), Hl.
    pose proof (samples_fit B M HB'). lia.
Qed.

Lemma bpc_Z_N z : In z [1;2;4;8;16]%Z -> In (Z.to_N z) [1;2;4;8;16].
Proof.
  cbn [In]. intros [<-|[<-|[<-|[<-|[<-|[]]]]]]; cbn; auto 10.
Qed.

Theorem tiff_no_panic : forall p d, p_predictor p = tiff_pred -> no_panic (unpredict p d).
Proof.
  intros p d Hp. unfold unpredict. rewrite Hp, tiff_not_png, Z.eqb_refl.
  destruct (geometry_cases p) as [[e G]|[bpp [G [H1 [H2 H3]]]]]; rewrite G; [exact I|].
  set (C := Z.to_N (p_colors p)). set (W := Z.to_N (p_columns p)). set (B := Z.to_N (p_bpc p)).
  assert (HB : In B [1;2;4;8;16]) by (apply bpc_Z_N; exact H3).
  assert (HC : 1 <= C) by (unfold C; lia). assert (HW : 1 <= W) by (unfold W; lia).
  assert (HB1 : 1 <= B) by (cbn [In] in HB; lia).
  replace (W * (C * B)) with (B * (C * W)) by lia.
  assert (HM : 1 <= B * (C * W)) by nia.
  pose proof (ceil8_bounds (B * (C * W))) as Hc.
  destruct (N.eqb_spec (ceil8 (B * (C * W))) 0) as [E0|N0]; [lia|].
  destruct (lenN d <? ceil8 (B * (C * W))); [exact I|].
  apply tiff_rows_no_panic.
  - lia.
  - intros row Hrow.
    replace (Z.to_nat (p_colors p) * Z.to_nat (p_columns p))%nat with (N.to_nat (C * W)).
    + apply unpack_samples_enough; assumption.
    + unfold C, W. rewrite N2Nat.inj_mul, !Z_N_nat. reflexivity.
  - lia.
Qed.

(* ------------------------------------------------------------------ *)
(** ** sample level: tiff_go undoes tiff_diff *)

Lemma land_mask bpc z : N.land z (2 ^ bpc - 1) = z mod 2 ^ bpc.
Proof. rewrite <- N.land_ones. f_equal. rewrite N.ones_equiv, N.pred_sub. reflexivity. Qed.

Lemma pow_bpc_pos bpc : 0 < 2 ^ bpc.
Proof. assert (2 ^ bpc <> 0) by (apply N.pow_nonzero; lia). lia. Qed.

Lemma undiff_mod P x y : 0 < P -> x < P -> y < P -> ((x + P - y) mod P + y) mod P = x.
Proof.
  intros HP Hx Hy. rewrite N.add_mod_idemp_l by lia.
  replace (x + P - y + y) with (x + 1 * P) by lia.
  rewrite N.mod_add by lia. apply N.mod_small. exact Hx.
Qed.

Lemma mod_mod_mul a b c : b <> 0 -> c <> 0 -> (a mod (b * c)) mod b = a mod b.
Proof.
  intros Hb Hc. rewrite N.mod_mul_r by assumption.
  rewrite (N.mul_comm b), N.mod_add by assumption. apply N.mod_mod. assumption.
Qed.

Lemma undiff bpc x y : In bpc [1;2;4;8;16] -> x < 2 ^ bpc -> y < 2 ^ bpc ->
  N.land (((x + 2 ^ bpc - y) mod 2 ^ bpc + y) mod 65536) (2 ^ bpc - 1) = x.
Proof.
  intros HB Hx Hy. rewrite land_mask.
  pose proof (pow_bpc_pos bpc) as HP.
  replace 65536 with (2 ^ bpc * 2 ^ (16 - bpc))
    by (cbn [In] in HB; destruct HB as [<-|[<-|[<-|[<-|[<-|[]]]]]]; reflexivity).
  rewrite mod_mod_mul; [|lia|apply N.pow_nonzero; lia].
  apply undiff_mod; assumption.
Qed.

Definition dfun (colors : nat) (bpc : N) (n : nat) (s : list N) (i : nat) : N :=
  if Nat.ltb i colors || Nat.leb n i then nth i s 0
  else (nth i s 0 + 2 ^ bpc - nth (i - colors) s 0) mod 2 ^ bpc.

Lemma tiff_go_inv colors bpc Ntot s :
  (1 <= colors)%nat -> In bpc [1;2;4;8;16] -> Forall (fun x => x < 2 ^ bpc) s ->
  (Ntot <= length s)%nat ->
  forall post pre n, s = pre ++ post -> n = (Ntot - length pre)%nat ->
  tiff_go colors (2 ^ bpc - 1) n (rev pre)
          (map (dfun colors bpc Ntot s) (seq (length pre) (length post))) = Ok post.
Proof.
  intros Hc HB Hs HN. induction post as [|x post IH]; intros pre n Es En.
  - cbn [length seq map]. rewrite app_nil_r in Es. subst pre.
    replace n with 0%nat by lia. reflexivity.
  - cbn [length seq map].
    assert (Es' : s = (pre ++ [x]) ++ post) by (rewrite <- app_assoc; exact Es).
    assert (Hx : nth (length pre) s 0 = x) by (rewrite Es; apply nth_middle).
    assert (Hlen : length s = (length pre + S (length post))%nat)
      by (rewrite Es, app_length; reflexivity).
    specialize (IH (pre ++ [x])). rewrite app_length, rev_app_distr in IH.
    cbn [length rev app] in IH.
    replace (length pre + 1)%nat with (S (length pre)) in IH by lia.
    destruct n as [|n'].
    + cbn [tiff_go]. f_equal. f_equal.
      * unfold dfun. destruct (Nat.leb_spec Ntot (length pre)) as [_|Hlt]; [|lia].
        rewrite orb_true_r. exact Hx.
      * specialize (IH 0%nat Es' ltac:(lia)). cbn [tiff_go] in IH. injection IH as IH. exact IH.
    + cbn [tiff_go]. cbv zeta.
      match goal with |- context [tiff_go _ _ _ (?o :: _) _] => assert (Ho : o = x) end.
      { unfold have. rewrite rev_length.
        destruct (Nat.leb_spec colors (length pre)) as [Hle|Hlt].
        - unfold dfun.
          destruct (Nat.ltb_spec (length pre) colors) as [Hl|_]; [lia|].
          destruct (Nat.leb_spec Ntot (length pre)) as [Hl|_]; [lia|].
          cbn [orb]. unfold back. rewrite rev_nth by lia.
          replace (length pre - S (colors - 1))%nat with (length pre - colors)%nat by lia.
          assert (Hy : nth (length pre - colors) s 0 = nth (length pre - colors) pre 0)
            by (rewrite Es; apply app_nth1; lia).
          rewrite <- Hy, Hx.
          apply undiff; [exact HB| |].
          + rewrite <- Hx. apply Forall_nth; [exact Hs|lia].
          + apply Forall_nth; [exact Hs|lia].
        - unfold dfun.
          destruct (Nat.ltb_spec (length pre) colors) as [_|Hl]; [|lia].
          cbn [orb]. exact Hx. }
      rewrite Ho. rewrite (IH n' Es' ltac:(lia)). reflexivity.
Qed.

Theorem tiff_go_inverts colors bpc n s :
  (1 <= colors)%nat -> In bpc [1;2;4;8;16] -> Forall (fun x => x < 2 ^ bpc) s ->
  (n <= length s)%nat ->
  tiff_go colors (2 ^ bpc - 1) n [] (tiff_diff colors bpc n s) = Ok s.
Proof.
  intros Hc HB Hs Hn.
  change (tiff_diff colors bpc n s)
    with (map (dfun colors bpc n s) (seq (length (@nil N)) (length s))).
  apply (tiff_go_inv colors bpc n s Hc HB Hs Hn s [] n); [reflexivity|cbn [length]; lia].
Qed.

Lemma tiff_diff_length colors bpc n s : length (tiff_diff colors bpc n s) = length s.
Proof. unfold tiff_diff. rewrite map_length, seq_length. reflexivity. Qed.

Lemma tiff_diff_bound colors bpc n s :
  Forall (fun x => x < 2 ^ bpc) s -> Forall (fun x => x < 2 ^ bpc) (tiff_diff colors bpc n s).
Proof.
  intros Hs. unfold tiff_diff. apply Forall_forall. intros y Hy.
  apply in_map_iff in Hy. destruct Hy as [i [<- Hi]]. apply in_seq in Hi.
  destruct (Nat.ltb i colors || Nat.leb n i).
  - apply Forall_nth; [exact Hs|lia].
  - apply N.mod_lt. pose proof (pow_bpc_pos bpc). lia.
Qed.

(* ------------------------------------------------------------------ *)
(** ** per-byte facts, by computation over the complete finite domains *)

Fixpoint leqb (a b : list N) : bool :=
  match a, b with
  | [], [] => true
  | x :: a', y :: b' => (x =? y) && leqb a' b'
  | _, _ => false
  end.

Lemma leqb_eq : forall a b, leqb a b = true -> a = b.
Proof.
  induction a as [|x a IH]; intros [|y b] H; cbn [leqb] in H; try discriminate; [reflexivity|].
  apply andb_true_iff in H. destruct H as [H1 H2]. apply N.eqb_eq in H1. apply IH in H2.
  subst. reflexivity.
Qed.

(* every list of [k] values below [m] *)
Fixpoint all_lists (m : nat) (k : nat) : list (list N) :=
  match k with
  | O => [[]]
  | S k' => flat_map (fun x => map (cons x) (all_lists m k')) (seqN 0 m)
  end.

Lemma all_lists_spec m : forall k l,
  length l = k -> Forall (fun x => x < N.of_nat m) l -> In l (all_lists m k).
Proof.
  induction k as [|k IH]; intros l Hl Hf.
  - destruct l; [left; reflexivity|discriminate].
  - destruct l as [|x l]; [discriminate|]. cbn [all_lists]. apply in_flat_map. exists x.
    inversion Hf as [|? ? Hx Hf']; subst. split.
    + apply seqN_In. lia.
    + apply in_map. apply IH; [cbn [length] in Hl; lia|exact Hf'].
Qed.

Definition chunk_ok (bpc : N) (c : list N) : bool := leqb (unpack_byte bpc (horner bpc 0 c)) c.

(* 4 x 256 cases: all chunks of 8/bpc samples below 2^bpc *)
Lemma chunks_ok_tbl :
  forallb (fun bpc => forallb (chunk_ok bpc) (all_lists (N.to_nat (2 ^ bpc)) (N.to_nat (8 / bpc))))
          [1;2;4;8] = true.
Proof. vm_compute. reflexivity. Qed.

Lemma unpack_horner bpc c : In bpc [1;2;4;8] -> length c = N.to_nat (8 / bpc) ->
  Forall (fun x => x < 2 ^ bpc) c -> unpack_byte bpc (horner bpc 0 c) = c.
Proof.
  intros HB Hl Hc. pose proof chunks_ok_tbl as T. rewrite forallb_forall in T.
  specialize (T bpc HB). rewrite forallb_forall in T. apply leqb_eq. apply T.
  apply all_lists_spec; [exact Hl|]. rewrite N2Nat.id. exact Hc.
Qed.

Definition byte_ok (bpc b : N) : bool :=
  ((fold_left (fun acc s => N.lor (N.shiftl acc bpc) s) (spec_unpack_byte bpc b) 0) mod 256 =? b)
  && leqb (unpack_byte bpc b) (spec_unpack_byte bpc b)
  && (horner bpc 0 (spec_unpack_byte bpc b) =? b).

(* 4 x 256 cases *)
Lemma bytes_ok_tbl : forallb (fun bpc => forallb (byte_ok bpc) all_bytes) [1;2;4;8] = true.
Proof. vm_compute. reflexivity. Qed.

Lemma byte_facts bpc b : In bpc [1;2;4;8] -> b < 256 ->
  (fold_left (fun acc s => N.lor (N.shiftl acc bpc) s) (spec_unpack_byte bpc b) 0) mod 256 = b /\
  unpack_byte bpc b = spec_unpack_byte bpc b /\
  horner bpc 0 (spec_unpack_byte bpc b) = b.
Proof.
  intros HB Hb. pose proof bytes_ok_tbl as T. rewrite forallb_forall in T.
  specialize (T bpc HB). pose proof (forall_bytes _ T b Hb) as T'. unfold byte_ok in T'.
  apply andb_true_iff in T'. destruct T' as [T1 T3]. apply andb_true_iff in T1. destruct T1 as [T1 T2].
  apply N.eqb_eq in T1. apply N.eqb_eq in T3. apply leqb_eq in T2. auto.
Qed.

Lemma per_byte_pos bpc : In bpc [1;2;4;8] -> (1 <= N.to_nat (8 / bpc))%nat.
Proof. cbn [In]. intros [<-|[<-|[<-|[<-|[]]]]]; vm_compute; lia. Qed.

Lemma spec_unpack_byte_bound bpc b : Forall (fun x => x < 2 ^ bpc) (spec_unpack_byte bpc b).
Proof.
  unfold spec_unpack_byte. apply Forall_forall. intros y Hy.
  apply in_map_iff in Hy. destruct Hy as [i [<- _]].
  apply N.mod_lt. pose proof (pow_bpc_pos bpc). lia.
Qed.

(* ------------------------------------------------------------------ *)
(** ** row level, sub-byte and 8-bit depths *)

Lemma app_nonnil {A} (a b : list A) : (1 <= length a)%nat -> a ++ b <> [].
Proof. destruct a; cbn [length app]; [lia|discriminate]. Qed.

Lemma pack_bytes_cons bpc k e t samples : samples <> [] ->
  pack_bytes bpc k (e :: t) samples =
  (fold_left (fun acc s => N.lor (N.shiftl acc bpc) s) (firstn k samples) 0) mod 256
    :: pack_bytes bpc k t (skipn k samples).
Proof. destruct samples; [congruence|reflexivity]. Qed.

Lemma pack_bytes_unpack bpc : In bpc [1;2;4;8] ->
  forall row enc, length enc = length row -> wf_bytes row ->
  pack_bytes bpc (N.to_nat (8 / bpc)) enc (flat_map (spec_unpack_byte bpc) row) = row.
Proof.
  intros HB. pose proof (per_byte_pos bpc HB) as Hk.
  induction row as [|b row IH]; intros enc Hl Hw.
  - destruct enc; [reflexivity|discriminate].
  - destruct enc as [|e enc]; [discriminate|].
    apply wf_bytes_cons in Hw. destruct Hw as [Hb Hw].
    cbn [flat_map]. pose proof (spec_unpack_byte_length bpc b) as Hlen.
    rewrite pack_bytes_cons by (apply app_nonnil; lia).
    rewrite firstn_len_app, skipn_len_app by exact Hlen.
    rewrite IH; [|cbn [length] in Hl; lia|exact Hw].
    destruct (byte_facts bpc b HB Hb) as [-> _]. reflexivity.
Qed.

Lemma spec_pack_bytes_cons f bpc k d : d <> [] ->
  spec_pack_bytes (S f) bpc k d =
  horner bpc 0 (firstn k d) :: spec_pack_bytes f bpc k (skipn k d).
Proof. destruct d; [congruence|reflexivity]. Qed.

Lemma spec_pack_bytes_facts bpc : In bpc [1;2;4;8] ->
  forall m d fuel, length d = (m * N.to_nat (8 / bpc))%nat -> (m <= fuel)%nat ->
  Forall (fun x => x < 2 ^ bpc) d ->
  flat_map (unpack_byte bpc) (spec_pack_bytes fuel bpc (N.to_nat (8 / bpc)) d) = d /\
  length (spec_pack_bytes fuel bpc (N.to_nat (8 / bpc)) d) = m.
Proof.
  intros HB. pose proof (per_byte_pos bpc HB) as Hk. set (k := N.to_nat (8 / bpc)) in *.
  induction m as [|m IH]; intros d fuel Hl Hf Hd.
  - destruct d; [|discriminate]. destruct fuel; split; reflexivity.
  - destruct fuel as [|f]; [lia|].
    assert (Hne : d <> []) by (intros ->; cbn [length] in Hl; lia).
    rewrite spec_pack_bytes_cons by exact Hne.
    assert (Hfl : length (firstn k d) = k) by (rewrite firstn_length; lia).
    assert (Hsl : length (skipn k d) = (m * k)%nat) by (rewrite skipn_length; lia).
    rewrite <- (firstn_skipn k d) in Hd. apply Forall_app in Hd. destruct Hd as [Hd1 Hd2].
    destruct (IH (skipn k d) f Hsl ltac:(lia) Hd2) as [IH1 IH2].
    cbn [flat_map length]. rewrite IH1, IH2.
    rewrite unpack_horner; [|exact HB|exact Hfl|exact Hd1].
    rewrite firstn_skipn. split; reflexivity.
Qed.

(* ------------------------------------------------------------------ *)
(** ** row level, 16-bit *)

Lemma divmod256 a b : b < 256 -> (256 * a + b) / 256 = a /\ (256 * a + b) mod 256 = b.
Proof.
  intros Hb. split; symmetry.
  - apply N.div_unique with (r := b); [exact Hb|reflexivity].
  - apply N.mod_unique with (q := a); [exact Hb|reflexivity].
Qed.

Lemma pairs_facts : forall m row, length row = (2 * m)%nat -> wf_bytes row ->
  length (spec_pairs row) = m /\ Forall (fun x => x < 65536) (spec_pairs row) /\
  forall enc, length enc = (2 * m)%nat -> pack16 enc (spec_pairs row) = row.
Proof.
  induction m as [|m IH]; intros row Hl Hw.
  - destruct row; [|discriminate]. cbn [spec_pairs]. repeat split; [constructor|].
    intros enc He. destruct enc; [reflexivity|discriminate].
  - destruct row as [|a [|b row]]; [discriminate|cbn [length] in Hl; lia|].
    apply wf_bytes_cons in Hw. destruct Hw as [Ha Hw].
    apply wf_bytes_cons in Hw. destruct Hw as [Hb Hw].
    cbn [length] in Hl. destruct (IH row ltac:(lia) Hw) as [I1 [I2 I3]].
    cbn [spec_pairs length]. split; [lia|]. split; [constructor; [lia|exact I2]|].
    intros enc He. destruct enc as [|e1 [|e2 enc]]; [discriminate|cbn [length] in He; lia|].
    cbn [pack16]. cbn [length] in He. rewrite I3 by lia.
    destruct (divmod256 a b Hb) as [-> ->]. rewrite N.mod_small by exact Ha. reflexivity.
Qed.

Lemma pairs16_pack d : pairs16 (flat_map (fun s => [s / 256; s mod 256]) d) = d.
Proof.
  induction d as [|s d IH]; [reflexivity|].
  cbn [flat_map app pairs16]. rewrite IH. f_equal. dm s 256. lia.
Qed.

(* ------------------------------------------------------------------ *)
(** ** one row *)

Lemma iso_row_bytes_ceil8 colors bpc columns :
  iso_row_bytes colors bpc columns = ceil8 (bpc * (colors * columns)).
Proof.
  unfold iso_row_bytes. rewrite ceil8_spec.
  replace (colors * bpc * columns) with (bpc * (colors * columns)) by lia. reflexivity.
Qed.

Lemma spec_unpack_sub_bound bpc row :
  Forall (fun x => x < 2 ^ bpc) (flat_map (spec_unpack_byte bpc) row).
Proof.
  induction row as [|b row IH]; cbn [flat_map]; [constructor|].
  apply Forall_app. split; [apply spec_unpack_byte_bound|exact IH].
Qed.

Theorem tiff_row_inverts : forall colors bpc columns row,
  1 <= colors -> 1 <= columns -> In bpc [1;2;4;8;16] -> wf_bytes row ->
  lenN row = iso_row_bytes colors bpc columns ->
  tiff_unpredict_row (N.to_nat colors) bpc (N.to_nat (colors * columns))
                     (tiff_encode_row colors bpc columns row) = Ok row.
Proof.
  intros colors bpc columns row Hc Hw HB Hwf Hl.
  rewrite iso_row_bytes_ceil8 in Hl. unfold lenN in Hl.
  unfold tiff_encode_row, tiff_unpredict_row, spec_unpack, spec_pack, unpack_samples, pack_samples.
  destruct (N.eqb_spec bpc 16) as [->|Hne].
  - pose proof (ceil8_bounds (16 * (colors * columns))) as Hb.
    assert (Hrow : length row = (2 * N.to_nat (colors * columns))%nat) by lia.
    destruct (pairs_facts _ row Hrow Hwf) as [P1 [P2 P3]].
    rewrite pairs16_pack.
    rewrite tiff_go_inverts; [|lia|exact HB|exact P2|rewrite P1; lia].
    rewrite P3; [reflexivity|].
    rewrite (flat_map_length_const _ 2%nat) by (intros; reflexivity).
    rewrite tiff_diff_length, P1. lia.
  - assert (HB' : In bpc [1;2;4;8]) by (cbn [In] in *; intuition congruence).
    pose proof (per_byte_pos bpc HB') as Hk.
    pose proof (samples_fit bpc (colors * columns) HB') as Hfit.
    set (s := flat_map (spec_unpack_byte bpc) row).
    assert (Hs : Forall (fun x => x < 2 ^ bpc) s) by apply spec_unpack_sub_bound.
    assert (Hsl : length s = (length row * N.to_nat (8 / bpc))%nat)
      by (apply flat_map_length_const; apply spec_unpack_byte_length).
    assert (Hn : (N.to_nat (colors * columns) <= length s)%nat).
    { rewrite Hsl. remember (8 / bpc) as kk. remember (ceil8 (bpc * (colors * columns))) as L.
      rewrite <- (Nat2N.id (length row)), Hl, <- N2Nat.inj_mul. lia. }
    set (d := tiff_diff (N.to_nat colors) bpc (N.to_nat (colors * columns)) s).
    assert (Hd : Forall (fun x => x < 2 ^ bpc) d) by (apply tiff_diff_bound; exact Hs).
    assert (Hdl : length d = (length row * N.to_nat (8 / bpc))%nat)
      by (unfold d; rewrite tiff_diff_length; exact Hsl).
    destruct (spec_pack_bytes_facts bpc HB' (length row) d (length d) Hdl ltac:(nia) Hd) as [F1 F2].
    rewrite F1. unfold d at 1.
    rewrite tiff_go_inverts; [|lia|exact HB|exact Hs|exact Hn].
    unfold s. rewrite pack_bytes_unpack; [reflexivity|exact HB'|exact F2|exact Hwf].
Qed.

Lemma tiff_encode_row_length colors bpc columns row :
  In bpc [1;2;4;8;16] -> wf_bytes row -> lenN row = iso_row_bytes colors bpc columns ->
  length (tiff_encode_row colors bpc columns row) = length row.
Proof.
  intros HB Hwf Hl.
  rewrite iso_row_bytes_ceil8 in Hl. unfold lenN in Hl.
  unfold tiff_encode_row, spec_unpack, spec_pack.
  destruct (N.eqb_spec bpc 16) as [->|Hne].
  - pose proof (ceil8_bounds (16 * (colors * columns))) as Hb.
    assert (Hrow : length row = (2 * N.to_nat (colors * columns))%nat) by lia.
    destruct (pairs_facts _ row Hrow Hwf) as [P1 _].
    rewrite (flat_map_length_const _ 2%nat) by (intros; reflexivity).
    rewrite tiff_diff_length, P1. lia.
  - assert (HB' : In bpc [1;2;4;8]) by (cbn [In] in *; intuition congruence).
    pose proof (per_byte_pos bpc HB') as Hk.
    set (s := flat_map (spec_unpack_byte bpc) row).
    assert (Hs : Forall (fun x => x < 2 ^ bpc) s) by apply spec_unpack_sub_bound.
    assert (Hsl : length s = (length row * N.to_nat (8 / bpc))%nat)
      by (apply flat_map_length_const; apply spec_unpack_byte_length).
    set (d := tiff_diff (N.to_nat colors) bpc (N.to_nat (colors * columns)) s).
    assert (Hd : Forall (fun x => x < 2 ^ bpc) d) by (apply tiff_diff_bound; exact Hs).
    assert (Hdl : length d = (length row * N.to_nat (8 / bpc))%nat)
      by (unfold d; rewrite tiff_diff_length; exact Hsl).
    destruct (spec_pack_bytes_facts bpc HB' (length row) d (length d) Hdl ltac:(nia) Hd) as [_ F2].
    exact F2.
Qed.

(* ------------------------------------------------------------------ *)
(** ** whole image *)

Lemma stride_pos colors bpc columns :
  1 <= colors -> 1 <= columns -> In bpc [1;2;4;8;16] -> 1 <= iso_row_bytes colors bpc columns.
Proof.
  intros Hc Hw HB. rewrite iso_row_bytes_ceil8.
  assert (1 <= bpc) by (cbn [In] in HB; lia).
  assert (1 <= bpc * (colors * columns)) by nia.
  pose proof (ceil8_bounds (bpc * (colors * columns))). lia.
Qed.

Lemma tiff_rows_inverts colors bpc columns :
  1 <= colors -> 1 <= columns -> In bpc [1;2;4;8;16] ->
  forall rows,
  Forall (fun r => lenN r = iso_row_bytes colors bpc columns) rows -> Forall wf_bytes rows ->
  forall fuel, (length (tiff_encode colors bpc columns rows) < fuel)%nat ->
  tiff_rows fuel (N.to_nat (iso_row_bytes colors bpc columns)) (N.to_nat colors) bpc
            (N.to_nat (colors * columns)) (tiff_encode colors bpc columns rows) = Ok (concat rows).
Proof.
  intros Hc Hw HB. pose proof (stride_pos colors bpc columns Hc Hw HB) as Hs.
  unfold tiff_encode.
  induction rows as [|r rows IH]; intros Hl Hwf fuel Hf.
  - destruct fuel as [|f]; [lia|]. cbn [map concat tiff_rows length].
    destruct (Nat.leb_spec (N.to_nat (iso_row_bytes colors bpc columns)) 0) as [H0|_]; [lia|].
    reflexivity.
  - inversion Hl as [|? ? Hr Hl']; inversion Hwf as [|? ? Hwr Hwf']; subst.
    destruct fuel as [|f]; [lia|]. cbn [map concat] in *. cbn [tiff_rows].
    pose proof (tiff_encode_row_length colors bpc columns r HB Hwr Hr) as He.
    assert (He' : length (tiff_encode_row colors bpc columns r)
                  = N.to_nat (iso_row_bytes colors bpc columns))
      by (rewrite He; unfold lenN in Hr; lia).
    rewrite app_length in *.
    destruct (Nat.leb_spec (N.to_nat (iso_row_bytes colors bpc columns))
               (length (tiff_encode_row colors bpc columns r)
                + length (concat (map (tiff_encode_row colors bpc columns) rows)))) as [_|Hlt]; [|lia].
    rewrite firstn_len_app, skipn_len_app by exact He'.
    rewrite tiff_row_inverts by assumption.
    rewrite IH; [reflexivity|exact Hl'|exact Hwf'|lia].
Qed.

Theorem tiff_image_inverts : forall p rows,
  p_predictor p = tiff_pred ->
  (1 <= p_colors p)%Z -> (1 <= p_columns p)%Z -> In (p_bpc p) [1;2;4;8;16]%Z ->
  Z.to_N (p_columns p) * (Z.to_N (p_colors p) * Z.to_N (p_bpc p)) < usize_lim ->
  Forall (fun r => lenN r = iso_row_bytes (Z.to_N (p_colors p)) (Z.to_N (p_bpc p)) (Z.to_N (p_columns p))) rows ->
  Forall wf_bytes rows ->
  unpredict p (tiff_encode (Z.to_N (p_colors p)) (Z.to_N (p_bpc p)) (Z.to_N (p_columns p)) rows) = Ok (concat rows).
Proof.
  intros p rows Hp H1 H2 H3 H4 Hl Hwf.
  unfold unpredict. rewrite Hp, tiff_not_png, Z.eqb_refl.
  destruct (geometry_ok p H1 H2 H3 H4) as [bpp G]. rewrite G.
  replace (Z.to_nat (p_colors p) * Z.to_nat (p_columns p))%nat
    with (N.to_nat (Z.to_N (p_colors p) * Z.to_N (p_columns p)))
    by (rewrite N2Nat.inj_mul, !Z_N_nat; reflexivity).
  rewrite <- (Z_N_nat (p_colors p)).
  set (C := Z.to_N (p_colors p)) in *. set (W := Z.to_N (p_columns p)) in *.
  set (B := Z.to_N (p_bpc p)) in *.
  assert (HB : In B [1;2;4;8;16]) by (apply bpc_Z_N; exact H3).
  assert (HC : 1 <= C) by (unfold C; lia). assert (HW : 1 <= W) by (unfold W; lia).
  pose proof (stride_pos C B W HC HW HB) as Hs.
  destruct (N.eqb_spec (iso_row_bytes C B W) 0) as [E0|_]; [lia|].
  destruct (N.ltb_spec (lenN (tiff_encode C B W rows)) (iso_row_bytes C B W)) as [Hlt|_].
  - destruct rows as [|r rows]; [reflexivity|]. exfalso.
    inversion Hl as [|? ? Hr _]; inversion Hwf as [|? ? Hwr _]; subst.
    pose proof (tiff_encode_row_length C B W r HB Hwr Hr) as He.
    unfold tiff_encode, lenN in Hlt. cbn [map concat] in Hlt. rewrite app_length in Hlt.
    unfold lenN in Hr. lia.
  - apply tiff_rows_inverts; try assumption. lia.
Qed.

(* ------------------------------------------------------------------ *)
(** ** non-vacuity: colors 3, bpc 4, columns 3 (36 bits = 5 bytes with 4 pad bits), two rows;
       and a 16-bit, a 1-bit and an 8-bit instance *)

Example tiff_example :
  unpredict {| p_predictor := tiff_pred; p_colors := 3; p_bpc := 4; p_columns := 3; p_early := 1 |}
            (tiff_encode 3 4 3 [[18;52;86;120;154]; [255;0;171;205;239]])
  = Ok (concat [[18;52;86;120;154]; [255;0;171;205;239]]).
Proof. vm_compute. reflexivity. Qed.

(* the encoding is not the identity: samples 1..9 (+ pad A) become 1 2 3 3 3 3 3 3 3 (A) *)
Example tiff_example_enc :
  tiff_encode 3 4 3 [[18;52;86;120;154]; [255;0;171;205;239]]
  = [18; 51; 51; 51; 58; 255; 1; 187; 195; 63].
Proof. vm_compute. reflexivity. Qed.

Example tiff_example16 :
  unpredict {| p_predictor := tiff_pred; p_colors := 2; p_bpc := 16; p_columns := 2; p_early := 1 |}
            (tiff_encode 2 16 2 [[255;254;0;1;0;2;255;255]; [1;2;3;4;5;6;7;8]])
  = Ok (concat [[255;254;0;1;0;2;255;255]; [1;2;3;4;5;6;7;8]]).
Proof. vm_compute. reflexivity. Qed.

Example tiff_example1 :
  unpredict {| p_predictor := tiff_pred; p_colors := 1; p_bpc := 1; p_columns := 11; p_early := 1 |}
            (tiff_encode 1 1 11 [[173;95]; [0;255]; [200;1]])
  = Ok (concat [[173;95]; [0;255]; [200;1]]).
Proof. vm_compute. reflexivity. Qed.

Example tiff_example8 :
  unpredict {| p_predictor := tiff_pred; p_colors := 3; p_bpc := 8; p_columns := 2; p_early := 1 |}
            (tiff_encode 3 8 2 [[10;200;30;5;100;250]])
  = Ok (concat [[10;200;30;5;100;250]]).
Proof. vm_compute. reflexivity. Qed.

Print Assumptions tiff_row_inverts.
Print Assumptions tiff_image_inverts.
Print Assumptions tiff_no_panic.
