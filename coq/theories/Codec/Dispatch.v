(** Codec/Dispatch.v — enc.rs: flate_decode / lzw_decode / encode / decode with the external
    crates (libflate, weezl) as Section oracles: nothing is assumed about them here; each theorem
    that needs a fact about them takes it as an explicit premise. *)
From PdfV Require Import Base.Prelude Gen.Generated Codec.Model.

(* enc.rs: impl Default for LZWFlateParams *)
Definition default_params : params :=
  {| p_predictor := 1; p_colors := 1; p_bpc := 8; p_columns := 1; p_early := 1 |}.

Inductive filter := FHex | FA85 | FRle | FLzw (p : params) | FFlate (p : params).

Section Ext.
  Variable inflate_zlib : bytes -> res bytes.   (* libflate::zlib::Decoder, read_to_end *)
  Variable inflate_raw : bytes -> res bytes.    (* libflate::deflate::Decoder, read_to_end *)
  Variable deflate_zlib : bytes -> bytes.       (* libflate::zlib::Encoder new / write_all / finish *)
  Variable lzw_dec : bool -> bytes -> res bytes.   (* weezl decoder, Msb, 8; true = with_tiff_size_switch *)
  Variable lzw_enc : bytes -> res bytes.           (* weezl encoder, Msb, 8 *)

  (* enc.rs: flate_decode — zlib framing first, raw deflate as fall-back, then the predictor *)
  Definition flate_decode (p : params) (data : bytes) : res bytes :=
    match inflate_zlib data with
    | Ok d => unpredict p d
    | Err _ => match inflate_raw data with
               | Ok d => unpredict p d
               | Err _ => Err 4
               | Panic s => Panic s
               | OutOfFuel => OutOfFuel
               end
    | Panic s => Panic s
    | OutOfFuel => OutOfFuel
    end.

  (* enc.rs: flate_encode *)
  Definition flate_encode (data : bytes) : bytes := deflate_zlib data.

  (* enc.rs: lzw_decode — weezl (Msb, 8 bit symbols; EarlyChange != 0 selects the TIFF size switch),
     then the predictor *)
  Definition lzw_decode (p : params) (data : bytes) : res bytes :=
    do d <- lzw_dec (negb (p_early p =? 0)%Z) data; unpredict p d.

  (* enc.rs: lzw_encode *)
  Definition lzw_encode (p : params) (data : bytes) : res bytes :=
    if (p_early p =? 0)%Z then lzw_enc data else Err 5.

  (* enc.rs: decode (the filters the properties speak about) *)
  Definition decode (f : filter) (data : bytes) : res bytes :=
    match f with
    | FHex => decode_hex data
    | FA85 => decode_85 data
    | FRle => run_length_decode data
    | FLzw p => lzw_decode p data
    | FFlate p => flate_decode p data
    end.

  (* enc.rs: encode *)
  Definition encode (f : filter) (data : bytes) : res bytes :=
    match f with
    | FHex => encode_hex data
    | FA85 => Ok (encode_85 data)
    | FRle => Err 6                      (* unimplemented!() is an Err in this crate *)
    | FLzw p => lzw_encode p data
    | FFlate _ => Ok (flate_encode data)
    end.

  Fixpoint decode_chain (fs : list filter) (data : bytes) : res bytes :=
    match fs with
    | [] => Ok data
    | f :: t => do d <- decode f data; decode_chain t d
    end.
End Ext.
