(** Codec/A85Proofs.v — ASCII85: decode_85 inverts encode_85 for every byte string (C16),
    all 2^32 groups by arithmetic (C05 quantifier "exhaustively all 2^32 ASCII85 groups"). *)
From PdfV Require Import Base.Prelude Gen.Generated Codec.Model.
Require Import ZifyBool ZifyNat ZifyN.

(* the generated constants this file depends on, as equations (re-checked on every run) *)
Lemma a85_consts :
  sym85_lo = 33 /\ sym85_hi = 117 /\ a85_z = 122 /\ a85_pad = 117 /\ a85_tilde = 126 /\ a85_gt = 62 /\
  a85_ws = [0; 9; 10; 12; 13; 32].
Proof. repeat split; reflexivity. Qed.

Definition digit (s : N) : Prop := 33 <= s <= 117.

Lemma sym_85_digit s : digit s -> sym_85 s = Some (s - 33).
Proof.
  unfold digit, sym_85, sym85_lo, sym85_hi. intros [H1 H2].
  assert (33 <=? s = true) as -> by (apply N.leb_le; lia).
  assert (s <=? 117 = true) as -> by (apply N.leb_le; lia). reflexivity.
Qed.

(* value of five symbols *)
Definition val5 (a b c d e : N) : N :=
  ((((a - 33) * 85 + (b - 33)) * 85 + (c - 33)) * 85 + (d - 33)) * 85 + (e - 33).

Lemma word_85_digits a b c d e :
  digit a -> digit b -> digit c -> digit d -> digit e -> val5 a b c d e < 4294967296 ->
  word_85 a b c d e = Some (be4 (val5 a b c d e)).
Proof.
  intros Ha Hb Hc Hd He Hq. unfold word_85.
  rewrite !sym_85_digit by assumption. fold (val5 a b c d e).
  apply N.ltb_lt in Hq. rewrite Hq. reflexivity.
Qed.

Lemma base85_chunk_spec n : n < 4294967296 ->
  exists a b c d e, base85_chunk n = [a; b; c; d; e] /\
    digit a /\ digit b /\ digit c /\ digit d /\ digit e /\ a <= 115 /\ val5 a b c d e = n.
Proof.
  intros Hn. unfold base85_chunk, sym85_lo. cbn [map].
  pose proof (N.div_mod n 85) as E1. pose proof (N.mod_lt n 85) as L1.
  set (n1 := n / 85) in *. set (e := n mod 85) in *.
  pose proof (N.div_mod n1 85) as E2. pose proof (N.mod_lt n1 85) as L2.
  set (n2 := n1 / 85) in *. set (d := n1 mod 85) in *.
  pose proof (N.div_mod n2 85) as E3. pose proof (N.mod_lt n2 85) as L3.
  set (n3 := n2 / 85) in *. set (c := n2 mod 85) in *.
  pose proof (N.div_mod n3 85) as E4. pose proof (N.mod_lt n3 85) as L4.
  set (a := n3 / 85) in *. set (b := n3 mod 85) in *.
  assert (a <= 82) by lia.
  rewrite !(N.mod_small (_ + 33) 256) by lia.
  do 5 eexists. split; [reflexivity|]. unfold digit, val5. repeat split; try lia.
Qed.

Lemma divk a k r : r < k -> (a * k + r) / k = a.
Proof. intros H. symmetry. apply (N.div_unique _ k a r); lia. Qed.
Lemma modk a k r : r < k -> (a * k + r) mod k = r.
Proof. intros H. symmetry. apply (N.mod_unique _ k a r); lia. Qed.

Lemma be4_of_be4 a b c d : a < 256 -> b < 256 -> c < 256 -> d < 256 ->
  be4 (of_be4 a b c d) = [a; b; c; d].
Proof.
  intros. unfold be4, of_be4.
  set (X := ((a * 256 + b) * 256 + c) * 256 + d).
  assert (E1 : X = a * 16777216 + (b * 65536 + (c*256 + d))) by (unfold X; lia).
  assert (E2 : X = (a * 256 + b) * 65536 + (c*256 + d)) by (unfold X; lia).
  assert (E3 : X = ((a * 256 + b) * 256 + c) * 256 + d) by reflexivity.
  f_equal; [|f_equal; [|f_equal; [|f_equal]]].
  - rewrite E1. apply divk. lia.
  - rewrite E2, divk by lia. apply modk. lia.
  - rewrite E3, divk by lia. apply modk. lia.
  - rewrite E3. apply modk. lia.
Qed.

Lemma of_be4_bound a b c d : a < 256 -> b < 256 -> c < 256 -> d < 256 -> of_be4 a b c d < 4294967296.
Proof. intros. unfold of_be4. lia. Qed.

(** every one of the 2^32 groups *)
Theorem a85_group a b c d : a < 256 -> b < 256 -> c < 256 -> d < 256 ->
  exists s0 s1 s2 s3 s4, base85_chunk (of_be4 a b c d) = [s0; s1; s2; s3; s4] /\
    digit s0 /\ digit s1 /\ digit s2 /\ digit s3 /\ digit s4 /\
    word_85 s0 s1 s2 s3 s4 = Some [a; b; c; d].
Proof.
  intros Ha Hb Hc Hd.
  destruct (base85_chunk_spec _ (of_be4_bound a b c d Ha Hb Hc Hd))
    as (s0 & s1 & s2 & s3 & s4 & E & D0 & D1 & D2 & D3 & D4 & H0 & V).
  exists s0, s1, s2, s3, s4. split; [exact E|]. repeat (split; [assumption|]).
  rewrite word_85_digits; try assumption.
  - rewrite V. rewrite be4_of_be4 by assumption. reflexivity.
  - rewrite V. apply of_be4_bound; assumption.
Qed.

(** partial final groups: k data bytes are written as k+1 symbols, the reader pads with 'u' *)
Lemma be4_first1 a r : r < 16777216 -> firstn 1 (be4 (a * 16777216 + r)) = [a].
Proof. intros. unfold be4. cbn [firstn]. rewrite divk by assumption. reflexivity. Qed.

Lemma be4_first2 a b r : b < 256 -> r < 65536 -> firstn 2 (be4 ((a * 256 + b) * 65536 + r)) = [a; b].
Proof.
  intros. unfold be4. cbn [firstn]. f_equal; [|f_equal].
  - replace ((a * 256 + b) * 65536 + r) with (a * 16777216 + (b * 65536 + r)) by lia. apply divk. lia.
  - rewrite divk by assumption. apply modk. assumption.
Qed.

Lemma be4_first3 a b c r : b < 256 -> c < 256 -> r < 256 ->
  firstn 3 (be4 (((a * 256 + b) * 256 + c) * 256 + r)) = [a; b; c].
Proof.
  intros. unfold be4. cbn [firstn]. f_equal; [|f_equal; [|f_equal]].
  - replace (((a * 256 + b) * 256 + c) * 256 + r) with (a * 16777216 + (b * 65536 + (c * 256 + r))) by lia. apply divk. lia.
  - replace (((a * 256 + b) * 256 + c) * 256 + r) with ((a * 256 + b) * 65536 + (c * 256 + r)) by lia.
    rewrite divk by lia. apply modk. assumption.
  - rewrite divk by assumption. apply modk. assumption.
Qed.

Lemma tail1 a : a < 256 ->
  exists s0 s1 s2 s3 s4 w, base85_chunk (of_be4 a 0 0 0) = [s0; s1; s2; s3; s4] /\ digit s0 /\ digit s1 /\
    word_85 s0 s1 117 117 117 = Some w /\ firstn 1 w = [a].
Proof.
  intros Ha.
  destruct (base85_chunk_spec (of_be4 a 0 0 0)) as (s0 & s1 & s2 & s3 & s4 & E & D0 & D1 & D2 & D3 & D4 & H0 & V).
  { unfold of_be4. lia. }
  exists s0, s1, s2, s3, s4. eexists. split; [exact E|]. do 2 (split; [assumption|]).
  unfold digit, val5, of_be4 in *.
  set (r := (117 - s2) * 7225 + (117 - s3) * 85 + (117 - s4)).
  assert (Hv : val5 s0 s1 117 117 117 = a * 16777216 + r) by (unfold val5, r; lia).
  assert (Hr : r < 16777216) by (unfold r; lia).
  rewrite word_85_digits by (unfold digit; rewrite ?Hv; lia).
  split; [reflexivity|]. rewrite Hv. apply be4_first1. exact Hr.
Qed.

Lemma tail2 a b : a < 256 -> b < 256 ->
  exists s0 s1 s2 s3 s4 w, base85_chunk (of_be4 a b 0 0) = [s0; s1; s2; s3; s4] /\ digit s0 /\ digit s1 /\ digit s2 /\
    word_85 s0 s1 s2 117 117 = Some w /\ firstn 2 w = [a; b].
Proof.
  intros Ha Hb.
  destruct (base85_chunk_spec (of_be4 a b 0 0)) as (s0 & s1 & s2 & s3 & s4 & E & D0 & D1 & D2 & D3 & D4 & H0 & V).
  { unfold of_be4. lia. }
  exists s0, s1, s2, s3, s4. eexists. split; [exact E|]. do 3 (split; [assumption|]).
  unfold digit, val5, of_be4 in *.
  set (r := (117 - s3) * 85 + (117 - s4)).
  assert (Hv : val5 s0 s1 s2 117 117 = (a * 256 + b) * 65536 + r) by (unfold val5, r; lia).
  assert (Hr : r < 65536) by (unfold r; lia).
  rewrite word_85_digits by (unfold digit; rewrite ?Hv; lia).
  split; [reflexivity|]. rewrite Hv. apply be4_first2; assumption.
Qed.

Lemma tail3 a b c : a < 256 -> b < 256 -> c < 256 ->
  exists s0 s1 s2 s3 s4 w, base85_chunk (of_be4 a b c 0) = [s0; s1; s2; s3; s4] /\ digit s0 /\ digit s1 /\ digit s2 /\ digit s3 /\
    word_85 s0 s1 s2 s3 117 = Some w /\ firstn 3 w = [a; b; c].
Proof.
  intros Ha Hb Hc.
  destruct (base85_chunk_spec (of_be4 a b c 0)) as (s0 & s1 & s2 & s3 & s4 & E & D0 & D1 & D2 & D3 & D4 & H0 & V).
  { unfold of_be4. lia. }
  exists s0, s1, s2, s3, s4. eexists. split; [exact E|]. do 4 (split; [assumption|]).
  unfold digit, val5, of_be4 in *.
  set (r := 117 - s4).
  assert (Hv : val5 s0 s1 s2 s3 117 = ((a * 256 + b) * 256 + c) * 256 + r) by (unfold val5, r; lia).
  assert (Hr : r < 256) by (unfold r; lia).
  rewrite word_85_digits by (unfold digit; rewrite ?Hv; lia).
  split; [reflexivity|]. rewrite Hv. apply be4_first3; assumption.
Qed.

(* ------------------------------------------------------------------ *)
(** the whole string *)

Definition sym_ok (s : N) : Prop := digit s \/ s = 122.

Lemma sym_ok_clean s : sym_ok s -> memN s a85_ws = false /\ (s =? a85_tilde) = false.
Proof.
  unfold sym_ok, digit, a85_ws, a85_tilde, memN. intros H. cbn [existsb].
  repeat match goal with |- context [?a =? ?b] => destruct (N.eqb_spec a b) end; cbn; try lia; auto.
Qed.

Lemma strip_clean l : Forall sym_ok l -> strip a85_ws l = l.
Proof.
  induction 1 as [|s l Hs Hl IH]; [reflexivity|]. unfold strip in *. cbn [filter].
  destruct (sym_ok_clean s Hs) as [-> _]. cbn [negb]. rewrite IH. reflexivity.
Qed.

Lemma strip_app ws a b : strip ws (a ++ b) = strip ws a ++ strip ws b.
Proof. unfold strip. apply filter_app. Qed.

Lemma take_until_clean l rest : Forall sym_ok l -> take_until a85_tilde (l ++ a85_tilde :: rest) = l.
Proof.
  induction 1 as [|s l Hs Hl IH]; cbn [app take_until].
  - rewrite N.eqb_refl. reflexivity.
  - destruct (sym_ok_clean s Hs) as [_ ->]. rewrite IH. reflexivity.
Qed.

Lemma drop_until_clean l rest : Forall sym_ok l -> drop_until a85_tilde (l ++ a85_tilde :: rest) = rest.
Proof.
  induction 1 as [|s l Hs Hl IH]; cbn [app drop_until].
  - rewrite N.eqb_refl. reflexivity.
  - destruct (sym_ok_clean s Hs) as [_ ->]. exact IH.
Qed.

Lemma digit_not_z s : digit s -> (s =? a85_z) = false.
Proof. unfold digit, a85_z. intros. apply N.eqb_neq. lia. Qed.

Lemma of_be4_zero a b c d : of_be4 a b c d = 0 -> a = 0 /\ b = 0 /\ c = 0 /\ d = 0.
Proof. unfold of_be4. lia. Qed.

Lemma body_roundtrip : forall f x g, wf_bytes x -> (length x < f)%nat ->
  (length (encode_85_body f x) < g)%nat ->
  a85_loop g (encode_85_body f x) = Ok x /\ Forall sym_ok (encode_85_body f x).
Proof.
  induction f as [|f IH]; intros x g Hwf Hf Hg; [lia|].
  destruct x as [|a [|b [|c [|d t]]]].
  - cbn [encode_85_body]. destruct g; [cbn in Hg; lia|]. split; [reflexivity|constructor].
  - (* one byte *)
    apply wf_bytes_cons in Hwf. destruct Hwf as [Ha _].
    destruct (tail1 a Ha) as (s0 & s1 & s2 & s3 & s4 & w & E & D0 & D1 & W & F).
    cbn [encode_85_body length app repeatN Nat.sub]. rewrite E. cbn [firstn Nat.add].
    destruct g; [cbn in Hg; lia|]. split.
    + cbn [a85_loop]. rewrite (digit_not_z s0 D0). cbn [length app repeatN Nat.sub].
      change a85_pad with 117. rewrite W. cbn [Nat.sub]. rewrite F. reflexivity.
    + repeat (apply Forall_cons; [left; assumption|]). apply Forall_nil.
  - apply wf_bytes_cons in Hwf. destruct Hwf as [Ha Hwf].
    apply wf_bytes_cons in Hwf. destruct Hwf as [Hb _].
    destruct (tail2 a b Ha Hb) as (s0 & s1 & s2 & s3 & s4 & w & E & D0 & D1 & D2 & W & F).
    cbn [encode_85_body length app repeatN Nat.sub]. rewrite E. cbn [firstn Nat.add].
    destruct g; [cbn in Hg; lia|]. split.
    + cbn [a85_loop]. rewrite (digit_not_z s0 D0). cbn [length app repeatN Nat.sub].
      change a85_pad with 117. rewrite W. cbn [Nat.sub]. rewrite F. reflexivity.
    + repeat (apply Forall_cons; [left; assumption|]). apply Forall_nil.
  - apply wf_bytes_cons in Hwf. destruct Hwf as [Ha Hwf].
    apply wf_bytes_cons in Hwf. destruct Hwf as [Hb Hwf].
    apply wf_bytes_cons in Hwf. destruct Hwf as [Hc _].
    destruct (tail3 a b c Ha Hb Hc) as (s0 & s1 & s2 & s3 & s4 & w & E & D0 & D1 & D2 & D3 & W & F).
    cbn [encode_85_body length app repeatN Nat.sub]. rewrite E. cbn [firstn Nat.add].
    destruct g; [cbn in Hg; lia|]. split.
    + cbn [a85_loop]. rewrite (digit_not_z s0 D0). cbn [length app repeatN Nat.sub].
      change a85_pad with 117. rewrite W. cbn [Nat.sub]. rewrite F. reflexivity.
    + repeat (apply Forall_cons; [left; assumption|]). apply Forall_nil.
  - apply wf_bytes_cons in Hwf. destruct Hwf as [Ha Hwf].
    apply wf_bytes_cons in Hwf. destruct Hwf as [Hb Hwf].
    apply wf_bytes_cons in Hwf. destruct Hwf as [Hc Hwf].
    apply wf_bytes_cons in Hwf. destruct Hwf as [Hd Hwf].
    cbn [encode_85_body] in *. cbn [length] in Hf.
    destruct (N.eqb_spec (of_be4 a b c d) 0) as [Z|NZ].
    + apply of_be4_zero in Z. destruct Z as (-> & -> & -> & ->).
      cbn [app length] in *. destruct g; [lia|].
      destruct (IH t g Hwf ltac:(lia) ltac:(lia)) as [L S].
      split.
      * cbn [a85_loop]. rewrite N.eqb_refl. rewrite L. reflexivity.
      * constructor; [right; reflexivity|exact S].
    + destruct (a85_group a b c d Ha Hb Hc Hd) as (s0 & s1 & s2 & s3 & s4 & E & D0 & D1 & D2 & D3 & D4 & W).
      rewrite E in *. cbn [app length] in *. destruct g; [lia|].
      destruct (IH t g Hwf ltac:(lia) ltac:(lia)) as [L S].
      split.
      * cbn [a85_loop]. rewrite (digit_not_z s0 D0). rewrite W, L. reflexivity.
      * repeat (apply Forall_cons; [left; assumption|]). exact S.
Qed.

(** C16 (ASCII85): the decoder inverts the encoder on every byte string. *)
Theorem a85_roundtrip : forall x, wf_bytes x -> decode_85 (encode_85 x) = Ok x.
Proof.
  intros x Hwf. unfold decode_85, encode_85.
  set (body := encode_85_body (S (length x)) x).
  destruct (body_roundtrip (S (length x)) x (S (length body)) Hwf (Nat.lt_succ_diag_r _) (Nat.lt_succ_diag_r _)) as [L S].
  fold body in L, S.
  rewrite strip_app, (strip_clean body S).
  change (strip a85_ws [a85_tilde; a85_gt]) with [a85_tilde; a85_gt].
  rewrite take_until_clean, drop_until_clean by assumption.
  rewrite L. rewrite N.eqb_refl. reflexivity.
Qed.

(** the encoder's output is standard: only digits !..u, z, and the ~> terminator *)
Theorem a85_output_standard : forall x, wf_bytes x ->
  exists body, encode_85 x = body ++ [126; 62] /\ Forall sym_ok body.
Proof.
  intros x Hwf. exists (encode_85_body (S (length x)) x). split; [reflexivity|].
  set (body := encode_85_body (S (length x)) x).
  destruct (body_roundtrip (S (length x)) x (S (length body)) Hwf (Nat.lt_succ_diag_r _) (Nat.lt_succ_diag_r _)) as [_ S]. exact S.
Qed.
