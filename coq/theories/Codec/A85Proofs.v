(** Codec/A85Proofs.v — ASCII85: decode_85 inverts encode_85 for every byte string (C16),
    all 2^32 groups by arithmetic (C05 quantifier "exhaustively all 2^32 ASCII85 groups"). *)
From PdfV Require Import Base.Prelude Gen.Generated Codec.Model.
Require Import ZifyBool ZifyNat ZifyN.
Ltac Zify.zify_post_hook ::= Z.div_mod_to_equations.

(* the generated constants this file depends on, as equations (re-checked on every run) *)
Lemma a85_consts :
  sym85_lo = 33 /\ sym85_hi = 117 /\ a85_z = 122 /\ a85_pad = 117 /\ a85_tilde = 126 /\ a85_gt = 62 /\
  a85_ws = [32; 10; 13; 9].
Proof. repeat split; reflexivity. Qed.

Definition digit (s : N) : Prop := 33 <= s <= 117.

Lemma sym_85_digit s : digit s -> sym_85 s = Some (s - 33).
Proof.
  unfold digit, sym_85, sym85_lo, sym85_hi. intros [H1 H2].
  assert (33 <=? s = true) as -> by (apply N.leb_le; lia).
  assert (s <=? 117 = true) as -> by (apply N.leb_le; lia). reflexivity.
Qed.

(* value of five symbols *)
Definition val5 (a b c d e : N) : N :=
  ((((a - 33) * 85 + (b - 33)) * 85 + (c - 33)) * 85 + (d - 33)) * 85 + (e - 33).

Lemma word_85_digits a b c d e :
  digit a -> digit b -> digit c -> digit d -> digit e -> val5 a b c d e < 4294967296 ->
  word_85 a b c d e = Some (be4 (val5 a b c d e)).
Proof.
  intros Ha Hb Hc Hd He Hq. unfold word_85.
  rewrite !sym_85_digit by assumption. fold (val5 a b c d e).
  apply N.ltb_lt in Hq. rewrite Hq. reflexivity.
Qed.

Lemma base85_chunk_spec n : n < 4294967296 ->
  exists a b c d e, base85_chunk n = [a; b; c; d; e] /\
    digit a /\ digit b /\ digit c /\ digit d /\ digit e /\ a <= 115 /\ val5 a b c d e = n.
Proof.
  intros Hn. unfold base85_chunk, sym85_lo. cbn [map].
  do 5 eexists. split; [reflexivity|]. unfold digit, val5. repeat split; lia.
Qed.

Lemma be4_of_be4 a b c d : a < 256 -> b < 256 -> c < 256 -> d < 256 ->
  be4 (of_be4 a b c d) = [a; b; c; d].
Proof.
  intros. unfold be4, of_be4. repeat f_equal; lia.
Qed.

Lemma of_be4_bound a b c d : a < 256 -> b < 256 -> c < 256 -> d < 256 -> of_be4 a b c d < 4294967296.
Proof. intros. unfold of_be4. lia. Qed.

(** every one of the 2^32 groups *)
Theorem a85_group a b c d : a < 256 -> b < 256 -> c < 256 -> d < 256 ->
  exists s0 s1 s2 s3 s4, base85_chunk (of_be4 a b c d) = [s0; s1; s2; s3; s4] /\
    s0 <> a85_z /\ word_85 s0 s1 s2 s3 s4 = Some [a; b; c; d].
Proof.
  intros Ha Hb Hc Hd.
  destruct (base85_chunk_spec _ (of_be4_bound a b c d Ha Hb Hc Hd))
    as (s0 & s1 & s2 & s3 & s4 & E & D0 & D1 & D2 & D3 & D4 & H0 & V).
  exists s0, s1, s2, s3, s4. split; [exact E|]. split.
  - unfold a85_z. lia.
  - rewrite word_85_digits; try assumption.
    + rewrite V. rewrite be4_of_be4 by assumption. reflexivity.
    + rewrite V. apply of_be4_bound; assumption.
Qed.

(** partial final groups: k data bytes are written as k+1 symbols, the reader pads with 'u' *)
Lemma tail1 a : a < 256 ->
  exists s0 s1 s2 s3 s4 w, base85_chunk (of_be4 a 0 0 0) = [s0; s1; s2; s3; s4] /\ s0 <> a85_z /\
    word_85 s0 s1 117 117 117 = Some w /\ firstn 1 w = [a].
Proof.
  intros Ha.
  destruct (base85_chunk_spec (of_be4 a 0 0 0)) as (s0 & s1 & s2 & s3 & s4 & E & D0 & D1 & D2 & D3 & D4 & H0 & V).
  { unfold of_be4. lia. }
  exists s0, s1, s2, s3, s4. eexists. split; [exact E|]. split; [unfold a85_z; lia|].
  unfold digit, val5, of_be4 in *.
  rewrite word_85_digits; unfold digit, val5; try lia.
  split; [reflexivity|]. unfold be4. cbn [firstn]. f_equal. lia.
Qed.

Lemma tail2 a b : a < 256 -> b < 256 ->
  exists s0 s1 s2 s3 s4 w, base85_chunk (of_be4 a b 0 0) = [s0; s1; s2; s3; s4] /\ s0 <> a85_z /\
    word_85 s0 s1 s2 117 117 = Some w /\ firstn 2 w = [a; b].
Proof.
  intros Ha Hb.
  destruct (base85_chunk_spec (of_be4 a b 0 0)) as (s0 & s1 & s2 & s3 & s4 & E & D0 & D1 & D2 & D3 & D4 & H0 & V).
  { unfold of_be4. lia. }
  exists s0, s1, s2, s3, s4. eexists. split; [exact E|]. split; [unfold a85_z; lia|].
  unfold digit, val5, of_be4 in *.
  rewrite word_85_digits; unfold digit, val5; try lia.
  split; [reflexivity|]. unfold be4. cbn [firstn]. repeat f_equal; lia.
Qed.

Lemma tail3 a b c : a < 256 -> b < 256 -> c < 256 ->
  exists s0 s1 s2 s3 s4 w, base85_chunk (of_be4 a b c 0) = [s0; s1; s2; s3; s4] /\ s0 <> a85_z /\
    word_85 s0 s1 s2 s3 117 = Some w /\ firstn 3 w = [a; b; c].
Proof.
  intros Ha Hb Hc.
  destruct (base85_chunk_spec (of_be4 a b c 0)) as (s0 & s1 & s2 & s3 & s4 & E & D0 & D1 & D2 & D3 & D4 & H0 & V).
  { unfold of_be4. lia. }
  exists s0, s1, s2, s3, s4. eexists. split; [exact E|]. split; [unfold a85_z; lia|].
  unfold digit, val5, of_be4 in *.
  rewrite word_85_digits; unfold digit, val5; try lia.
  split; [reflexivity|]. unfold be4. cbn [firstn]. repeat f_equal; lia.
Qed.
