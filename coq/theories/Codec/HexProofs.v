(** Codec/HexProofs.v — ASCIIHex: the decoder inverts the encoder (C16) and every
    ISO 32000-1 §7.4.2 spelling of the data (C05). *)
From PdfV Require Import Base.Prelude Gen.Generated Codec.Model.

(* ------------------------------------------------------------------ *)
(** Per-byte facts, by computation on the generated tables (all 256 bytes). *)

Definition optN_eqb (a : option N) (b : N) : bool :=
  match a with Some x => x =? b | None => false end.

Definition clean (c : N) : bool := negb (memN c hexfilter_ws) && negb (c =? hex_eod).

Definition hex_byte_ok (b : N) : bool :=
  match encode_nibble (b / 16), encode_nibble (b mod 16) with
  | Ok h, Ok l =>
      clean h && clean l && optN_eqb (decode_nibble h) (b / 16) && optN_eqb (decode_nibble l) (b mod 16)
      && (hex_combine (b / 16) (b mod 16) =? b)
  | _, _ => false
  end.

Lemma hex_bytes_ok : forallb hex_byte_ok all_bytes = true.
Proof. vm_compute. reflexivity. Qed.

Lemma hex_byte_ok_spec b : b < 256 ->
  exists h l, encode_nibble (b / 16) = Ok h /\ encode_nibble (b mod 16) = Ok l /\
    clean h = true /\ clean l = true /\
    decode_nibble h = Some (b / 16) /\ decode_nibble l = Some (b mod 16) /\
    hex_combine (b / 16) (b mod 16) = b.
Proof.
  intros Hb. pose proof (forall_bytes _ hex_bytes_ok b Hb) as H.
  unfold hex_byte_ok in H.
  destruct (encode_nibble (b / 16)) as [h| | |]; try discriminate.
  destruct (encode_nibble (b mod 16)) as [l| | |]; try discriminate.
  repeat rewrite andb_true_iff in H. destruct H as [[[[H1 H2] H3] H4] H5].
  exists h, l. repeat split; auto.
  - unfold optN_eqb in H3. destruct (decode_nibble h); [apply N.eqb_eq in H3; subst; reflexivity|discriminate].
  - unfold optN_eqb in H4. destruct (decode_nibble l); [apply N.eqb_eq in H4; subst; reflexivity|discriminate].
  - apply N.eqb_eq. exact H5.
Qed.

(* ------------------------------------------------------------------ *)
(** The decoder on a text that starts with two clean digits. *)

Lemma clean_split c : clean c = true -> memN c hexfilter_ws = false /\ (c =? hex_eod) = false.
Proof.
  unfold clean. rewrite andb_true_iff, !negb_true_iff. tauto.
Qed.

Definition hex_text (s : bytes) : bytes := strip hexfilter_ws (take_until hex_eod s).

Lemma hex_text_clean c s : clean c = true -> hex_text (c :: s) = c :: hex_text s.
Proof.
  intros H. apply clean_split in H. destruct H as [Hw He].
  unfold hex_text. cbn [take_until]. rewrite He. unfold strip. cbn [filter]. rewrite Hw. reflexivity.
Qed.

Lemma hex_text_ws c s : memN c hexfilter_ws = true -> (c =? hex_eod) = false -> hex_text (c :: s) = hex_text s.
Proof.
  intros Hw He. unfold hex_text. cbn [take_until]. rewrite He. unfold strip. cbn [filter]. rewrite Hw. reflexivity.
Qed.

Lemma hex_text_eod s : hex_text (hex_eod :: s) = [].
Proof. unfold hex_text. cbn [take_until]. rewrite N.eqb_refl. reflexivity. Qed.

Lemma decode_hex_unfold s : decode_hex s = hex_pairs (hex_text s).
Proof. reflexivity. Qed.

(* ------------------------------------------------------------------ *)
(** C16: decode_hex (encode_hex x) = x *)

Theorem hex_roundtrip : forall x, wf_bytes x ->
  exists e, encode_hex x = Ok e /\ decode_hex e = Ok x.
Proof.
  induction x as [|b x IH]; intros Hwf.
  - exists []. split; reflexivity.
  - apply wf_bytes_cons in Hwf. destruct Hwf as [Hb Hx].
    destruct (IH Hx) as [e [He Hd]].
    destruct (hex_byte_ok_spec b Hb) as [h [l [Eh [El [Ch [Cl [Dh [Dl Hc]]]]]]]].
    exists (h :: l :: e). split.
    + cbn [encode_hex]. rewrite Eh, El, He. reflexivity.
    + rewrite decode_hex_unfold, (hex_text_clean h), (hex_text_clean l) by assumption.
      cbn [hex_pairs]. rewrite Dl, Dh. rewrite decode_hex_unfold in Hd. rewrite Hd, Hc. reflexivity.
Qed.

(** the encoder never reaches its unreachable!() on bytes *)
Theorem encode_hex_no_panic : forall x, wf_bytes x -> exists e, encode_hex x = Ok e.
Proof. intros x H. destruct (hex_roundtrip x H) as [e [He _]]. exists e. exact He. Qed.

(* ------------------------------------------------------------------ *)
(** C05: every conforming spelling.  ISO 32000-1 §7.4.2: hexadecimal digits in
    either case, white-space anywhere (ignored), `>` = EOD; (an odd number of
    digits — final digit assumed 0 — is treated separately below). *)

Definition iso_ws : list N := [0; 9; 10; 12; 13; 32].

(* digit characters for a nibble value, in the three ranges of ISO 32000 *)
Definition hexdigit_of (n c : N) : Prop :=
  (n < 10 /\ c = 48 + n) \/ (10 <= n < 16 /\ (c = 87 + n \/ c = 55 + n)).

(* text that spells a whole number of bytes, with white-space anywhere *)
Inductive hex_body : bytes -> bytes -> Prop :=
| hb_nil : hex_body [] []
| hb_ws w x s : In w iso_ws -> hex_body x s -> hex_body x (w :: s)
| hb_byte b h l ws x s :
    b < 256 -> hexdigit_of (b / 16) h -> hexdigit_of (b mod 16) l ->
    Forall (fun w => In w iso_ws) ws -> hex_body x s ->
    hex_body (b :: x) (h :: ws ++ l :: s).

(* a spelling of x: a body, then either end of data or `>` followed by anything *)
Definition hex_spells (x s : bytes) : Prop :=
  exists body, hex_body x body /\ (s = body \/ exists rest, s = body ++ 62 :: rest).

(* table lemmas: the decoder's sets against the standard's *)
Lemma iso_ws_skipped : forallb (fun w => memN w hexfilter_ws && negb (w =? hex_eod)) iso_ws = true.
Proof. vm_compute. reflexivity. Qed.

Lemma hex_eod_is_gt : hex_eod = 62.
Proof. reflexivity. Qed.

Definition digit_chars (n : N) : list N :=
  if n <? 10 then [48 + n] else [87 + n; 55 + n].

Lemma digits_decode :
  forallb (fun n => forallb (fun c => clean c && optN_eqb (decode_nibble c) n) (digit_chars n)) (seqN 0 16) = true.
Proof. vm_compute. reflexivity. Qed.

Lemma hexdigit_decodes n c : n < 16 -> hexdigit_of n c -> clean c = true /\ decode_nibble c = Some n.
Proof.
  intros Hn Hd.
  pose proof digits_decode as H. rewrite forallb_forall in H.
  assert (Hin : In n (seqN 0 16)) by (apply seqN_In; cbn; lia).
  specialize (H n Hin). rewrite forallb_forall in H.
  assert (Hc : In c (digit_chars n)).
  { unfold digit_chars. destruct Hd as [[H1 H2]|[H1 [H2|H2]]].
    - apply N.ltb_lt in H1. rewrite H1. left. auto.
    - assert (n <? 10 = false) as -> by (apply N.ltb_ge; lia). left. auto.
    - assert (n <? 10 = false) as -> by (apply N.ltb_ge; lia). right. left. auto. }
  specialize (H c Hc). apply andb_true_iff in H. destruct H as [H1 H2]. split; [exact H1|].
  unfold optN_eqb in H2. destruct (decode_nibble c); [apply N.eqb_eq in H2; subst; reflexivity|discriminate].
Qed.

Lemma iso_ws_spec w : In w iso_ws -> memN w hexfilter_ws = true /\ (w =? hex_eod) = false.
Proof.
  intros H. pose proof iso_ws_skipped as A. rewrite forallb_forall in A. specialize (A w H).
  apply andb_true_iff in A. rewrite negb_true_iff in A. exact A.
Qed.

Lemma hex_text_skip_ws ws s : Forall (fun w => In w iso_ws) ws -> hex_text (ws ++ s) = hex_text s.
Proof.
  induction ws as [|w ws IH]; intros H; [reflexivity|].
  inversion H; subst. cbn [app]. destruct (iso_ws_spec w) as [A B]; [assumption|].
  rewrite hex_text_ws by assumption. apply IH. assumption.
Qed.

Lemma combine_div_mod b : b < 256 -> hex_combine (b / 16) (b mod 16) = b.
Proof.
  intros Hb. destruct (hex_byte_ok_spec b Hb) as [h [l [_ [_ [_ [_ [_ [_ H]]]]]]]]. exact H.
Qed.

Lemma hex_body_decodes_gen x body tail y :
  hex_body x body -> hex_pairs (hex_text tail) = Ok y -> hex_pairs (hex_text (body ++ tail)) = Ok (x ++ y).
Proof.
  intros H Ht. induction H as [|w x s Hw Hb IH|b h l ws x s Hb Hh Hl Hws Hbody IH].
  - cbn [app]. exact Ht.
  - cbn [app]. destruct (iso_ws_spec w Hw) as [A B]. rewrite hex_text_ws by assumption. exact IH.
  - assert (b / 16 < 16) by (apply N.div_lt_upper_bound; lia).
    assert (b mod 16 < 16) by (apply N.mod_lt; lia).
    destruct (hexdigit_decodes _ _ H Hh) as [Ch Dh].
    destruct (hexdigit_decodes _ _ H0 Hl) as [Cl Dl].
    cbn [app]. rewrite hex_text_clean by assumption.
    rewrite <- app_assoc. rewrite hex_text_skip_ws by assumption.
    cbn [app]. rewrite hex_text_clean by assumption.
    cbn [hex_pairs]. rewrite Dl, Dh, IH, combine_div_mod by assumption. reflexivity.
Qed.

Lemma hex_body_decodes x body tail :
  hex_body x body -> hex_text tail = [] -> hex_pairs (hex_text (body ++ tail)) = Ok x.
Proof.
  intros H Ht. rewrite <- (app_nil_r x). apply hex_body_decodes_gen; [assumption|]. rewrite Ht. reflexivity.
Qed.

Theorem hex_decodes_every_spelling : forall x s, hex_spells x s -> decode_hex s = Ok x.
Proof.
  intros x s [body [Hb [Hs|[rest Hs]]]]; subst s; rewrite decode_hex_unfold.
  - rewrite <- (app_nil_r body). apply hex_body_decodes; [assumption|reflexivity].
  - apply hex_body_decodes; [assumption|]. rewrite <- hex_eod_is_gt. apply hex_text_eod.
Qed.

(** The odd-digit case of §7.4.2: "if the filter encounters the EOD marker after reading an odd
    number of hexadecimal digits, it shall behave as if a 0 (zero) followed the last digit".
    A spelling may therefore drop the final digit of a last byte whose low nibble is 0. *)
Definition hex_spells_odd (x s : bytes) : Prop :=
  exists x0 b h body ws, x = x0 ++ [b] /\ hex_body x0 body /\ b < 256 /\ b mod 16 = 0 /\
    hexdigit_of (b / 16) h /\ Forall (fun w => In w iso_ws) ws /\
    (s = body ++ h :: ws \/ exists rest, s = body ++ h :: ws ++ 62 :: rest).

Lemma hex_text_ws_only ws : Forall (fun w => In w iso_ws) ws -> hex_text ws = [].
Proof. intros H. rewrite <- (app_nil_r ws). rewrite hex_text_skip_ws by assumption. reflexivity. Qed.

Theorem hex_decodes_odd_spelling : forall x s, hex_spells_odd x s -> decode_hex s = Ok x.
Proof.
  intros x s (x0 & b & h & body & ws & -> & Hb & Hlt & Hlow & Hh & Hws & Hs).
  assert (Hhi : b / 16 < 16) by (apply N.div_lt_upper_bound; lia).
  destruct (hexdigit_decodes _ _ Hhi Hh) as [Ch Dh].
  assert (Hval : (b / 16 * 16) mod 256 = b).
  { pose proof (N.div_mod b 16 ltac:(lia)) as E. rewrite Hlow in E. rewrite N.mod_small; lia. }
  rewrite decode_hex_unfold.
  assert (Hone : forall tail, hex_text tail = [] -> hex_pairs (hex_text (h :: ws ++ tail)) = Ok [b]).
  { intros tail Ht. rewrite hex_text_clean by assumption. rewrite hex_text_skip_ws by assumption.
    rewrite Ht. cbn [hex_pairs]. rewrite Dh, Hval. reflexivity. }
  destruct Hs as [->|[rest ->]].
  - apply hex_body_decodes_gen; [assumption|]. rewrite <- (app_nil_r ws). apply Hone. reflexivity.
  - apply hex_body_decodes_gen; [assumption|]. apply Hone. rewrite <- hex_eod_is_gt. apply hex_text_eod.
Qed.

(** every spelling the standard allows *)
Definition hex_spells_iso (x s : bytes) : Prop := hex_spells x s \/ hex_spells_odd x s.
Theorem hex_decodes_iso : forall x s, hex_spells_iso x s -> decode_hex s = Ok x.
Proof. intros x s [H|H]; [apply hex_decodes_every_spelling|apply hex_decodes_odd_spelling]; exact H. Qed.

(* non-vacuity: "417>" spells "Ap" (the witness of the former finding C05-a) *)
Example hex_odd_example : hex_spells_odd [65; 112] [52; 49; 55; 62].
Proof.
  exists [65], 112, 55, [52; 49], [].
  split; [reflexivity|]. split.
  { apply (hb_byte 65 52 49 [] [] []).
    - reflexivity.
    - left. split; reflexivity.
    - left. split; reflexivity.
    - apply Forall_nil.
    - apply hb_nil. }
  split; [reflexivity|]. split; [reflexivity|]. split; [left; split; reflexivity|].
  split; [apply Forall_nil|]. right. exists []. reflexivity.
Qed.
