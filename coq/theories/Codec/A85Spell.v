From PdfV Require Import Base.Prelude Gen.Generated Codec.Model Codec.Spec Codec.A85Proofs.
Require Import ZifyBool ZifyNat ZifyN.

(** Codec/A85Spell — the ASCII85 decoder accepts every spelling of the standard (§7.4.3):
    any white-space of ISO 32000-1 Table 1 anywhere, [z] or [!!!!!] for a zero group,
    short final groups, then [~>]. *)

(* ------------------------------------------------------------------ *)
(** table lemmas (by computation on the generated tables) *)

Lemma a85_ws_is_iso_white :
  forallb (fun w => memN w a85_ws) iso_white = true /\
  forallb (fun w => memN w iso_white) a85_ws = true.
Proof. split; vm_compute; reflexivity. Qed.

Lemma a85_eod_table : a85_tilde = 126 /\ a85_gt = 62.
Proof. split; reflexivity. Qed.

Lemma iso_white_in_ws w : In w iso_white -> memN w a85_ws = true.
Proof.
  intros H. destruct a85_ws_is_iso_white as [H1 _].
  rewrite forallb_forall in H1. exact (H1 w H).
Qed.

Lemma ws_in_iso_white c : ~ In c iso_white -> memN c a85_ws = false.
Proof.
  intros H. destruct (memN c a85_ws) eqn:E; [|reflexivity].
  exfalso. apply H. apply memN_In in E.
  destruct a85_ws_is_iso_white as [_ H2].
  rewrite forallb_forall in H2. apply memN_In. exact (H2 c E).
Qed.

(* ------------------------------------------------------------------ *)
(** (1) white-space removal *)

Lemma spaced_strip : forall g s, spaced g s -> strip a85_ws s = g.
Proof.
  induction 1 as [|w g s Hw Hs IH|c g s Hc Hs IH]; unfold strip in *; cbn [filter].
  - reflexivity.
  - rewrite (iso_white_in_ws w Hw). cbn [negb]. exact IH.
  - rewrite (ws_in_iso_white c Hc). cbn [negb]. rewrite IH. reflexivity.
Qed.

(* ------------------------------------------------------------------ *)
(** (3) the standard's digits are the encoder's digits *)

Lemma group_value_of_be4 a b c d : group_value a b c d = of_be4 a b c d.
Proof. unfold group_value, of_be4. lia. Qed.

Lemma a85_digits_chunk n : n < 4294967296 -> a85_digits n = base85_chunk n.
Proof.
  intros Hn. unfold a85_digits, base85_chunk, sym85_lo. cbn [map].
  rewrite !N.div_div by lia.
  change (85 * 85 * 85 * 85) with 52200625.
  change (85 * 85 * 85) with 614125.
  change (85 * 85) with 7225.
  pose proof (N.mod_lt (n / 614125) 85).
  pose proof (N.mod_lt (n / 7225) 85).
  pose proof (N.mod_lt (n / 85) 85).
  pose proof (N.mod_lt n 85).
  assert (n / 52200625 <= 82).
  { pose proof (N.div_mod n 52200625). pose proof (N.mod_lt n 52200625). lia. }
  rewrite !(N.mod_small (_ + 33) 256) by lia.
  reflexivity.
Qed.

Lemma a85_digits_group a b c d : a < 256 -> b < 256 -> c < 256 -> d < 256 ->
  a85_digits (group_value a b c d) = base85_chunk (of_be4 a b c d).
Proof.
  intros. rewrite group_value_of_be4. apply a85_digits_chunk. apply of_be4_bound; assumption.
Qed.

Lemma syms_loop : forall x t, a85_syms x t ->
  Forall sym_ok t /\ forall fuel, (length t < fuel)%nat -> a85_loop fuel t = Ok x.
Proof.
  induction 1 as [|x t H [S L]|a b c d x t Ha Hb Hc Hd H [S L]|a Ha|a b Ha Hb|a b c Ha Hb Hc].
  - split; [constructor|]. intros [|f] Hf; [cbn in Hf; lia|reflexivity].
  - split; [constructor; [right; reflexivity|exact S]|].
    intros [|f] Hf; cbn [length] in Hf; [lia|].
    cbn [a85_loop]. change (122 =? a85_z) with true. cbv iota.
    rewrite L by lia. reflexivity.
  - rewrite a85_digits_group by assumption.
    destruct (a85_group a b c d Ha Hb Hc Hd) as (s0 & s1 & s2 & s3 & s4 & E & D0 & D1 & D2 & D3 & D4 & W).
    rewrite E. cbn [app]. split.
    + repeat (apply Forall_cons; [left; assumption|]). exact S.
    + intros [|f] Hf; cbn [length] in Hf; [lia|].
      cbn [a85_loop]. rewrite (digit_not_z s0 D0). rewrite W, L by lia. reflexivity.
  - rewrite (a85_digits_group a 0 0 0) by lia.
    destruct (tail1 a Ha) as (s0 & s1 & s2 & s3 & s4 & w & E & D0 & D1 & W & F).
    rewrite E. cbn [firstn]. split.
    + repeat (apply Forall_cons; [left; assumption|]). apply Forall_nil.
    + intros [|f] Hf; cbn [length] in Hf; [lia|].
      cbn [a85_loop]. rewrite (digit_not_z s0 D0). cbn [length app repeatN Nat.sub].
      change a85_pad with 117. rewrite W. cbn [Nat.sub]. rewrite F. reflexivity.
  - rewrite (a85_digits_group a b 0 0) by lia.
    destruct (tail2 a b Ha Hb) as (s0 & s1 & s2 & s3 & s4 & w & E & D0 & D1 & D2 & W & F).
    rewrite E. cbn [firstn]. split.
    + repeat (apply Forall_cons; [left; assumption|]). apply Forall_nil.
    + intros [|f] Hf; cbn [length] in Hf; [lia|].
      cbn [a85_loop]. rewrite (digit_not_z s0 D0). cbn [length app repeatN Nat.sub].
      change a85_pad with 117. rewrite W. cbn [Nat.sub]. rewrite F. reflexivity.
  - rewrite (a85_digits_group a b c 0) by lia.
    destruct (tail3 a b c Ha Hb Hc) as (s0 & s1 & s2 & s3 & s4 & w & E & D0 & D1 & D2 & D3 & W & F).
    rewrite E. cbn [firstn]. split.
    + repeat (apply Forall_cons; [left; assumption|]). apply Forall_nil.
    + intros [|f] Hf; cbn [length] in Hf; [lia|].
      cbn [a85_loop]. rewrite (digit_not_z s0 D0). cbn [length app repeatN Nat.sub].
      change a85_pad with 117. rewrite W. cbn [Nat.sub]. rewrite F. reflexivity.
Qed.

(* ------------------------------------------------------------------ *)
(** C03/C05: every spelling of the standard decodes to the data it spells *)

Theorem a85_decodes_every_spelling : forall x s, a85_spells x s -> decode_85 s = Ok x.
Proof.
  intros x s (t & Hsyms & Hsp).
  destruct (syms_loop x t Hsyms) as [S L].
  unfold decode_85. rewrite (spaced_strip _ _ Hsp).
  destruct a85_eod_table as [Et Eg].
  replace (t ++ [126; 62]) with (t ++ a85_tilde :: [a85_gt]) by (rewrite Et, Eg; reflexivity).
  rewrite take_until_clean, drop_until_clean by assumption.
  rewrite L by lia. rewrite N.eqb_refl. reflexivity.
Qed.

(* ------------------------------------------------------------------ *)
(** non-vacuity: "z 5<FF>l~>" spells 00 00 00 00 41 *)

Example a85_spelling_example : a85_spells [0;0;0;0;65] [122; 32; 53; 12; 108; 126; 62].
Proof.
  exists [122; 53; 108]. split.
  - apply as_z.
    replace [53; 108] with (firstn 2 (a85_digits (group_value 65 0 0 0))) by (vm_compute; reflexivity).
    apply as_tail1. lia.
  - cbn [app].
    repeat first [ apply sp_nil
                 | apply sp_sym; [unfold iso_white, In; lia|]
                 | apply sp_ws; [unfold iso_white, In; lia|] ].
Qed.

Example a85_spelling_example_decodes :
  decode_85 [122; 32; 53; 12; 108; 126; 62] = Ok [0;0;0;0;65].
Proof. vm_compute. reflexivity. Qed.

Print Assumptions a85_decodes_every_spelling.
