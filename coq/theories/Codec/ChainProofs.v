(** Codec/ChainProofs.v — C05 at the level of enc.rs: decode, stream.rs: StreamInfo::from_primitive /
    Stream::data, file.rs: Storage::decode: Flate and LZW with the external crates as oracles,
    chains of filters, the /Filter–/DecodeParms pairing, and "never a panic". *)
From PdfV Require Import Base.Prelude Gen.Generated Codec.Model Codec.Spec Codec.Dispatch Codec.Pairing
  Codec.HexProofs Codec.A85Spell Codec.RleProofs Codec.PngProofs Codec.TiffProofs.

(* ------------------------------------------------------------------ *)
(** * What a conforming encoder hands to the compressor (ISO 32000-1 §7.4.4.4, Table 8) *)

Definition pC (p : params) : N := Z.to_N (p_colors p).
Definition pB (p : params) : N := Z.to_N (p_bpc p).
Definition pW (p : params) : N := Z.to_N (p_columns p).

(** parameters that describe an image geometry: Colors >= 1, Columns >= 1, BitsPerComponent one
    of 1, 2, 4, 8, 16; the number of bits of a row fits the machine word (always true of 32-bit
    Colors x Columns x 8; stated because the code checks it) *)
Definition geom_ok (p : params) : Prop :=
  (1 <= p_colors p)%Z /\ (1 <= p_columns p)%Z /\ In (p_bpc p) [1; 2; 4; 8; 16]%Z /\
  pW p * (pC p * pB p) < usize_lim.

(** the data is a whole number of rows of the geometry *)
Definition rows_ok (p : params) (rows : list bytes) : Prop :=
  Forall (fun r => lenN r = iso_row_bytes (pC p) (pB p) (pW p)) rows /\ Forall wf_bytes rows.

Inductive predicted (p : params) : bytes -> bytes -> Prop :=
| pr_none x : p_predictor p = 1%Z -> predicted p x x
| pr_tiff rows : p_predictor p = 2%Z -> geom_ok p -> rows_ok p rows ->
    predicted p (concat rows) (tiff_encode (pC p) (pB p) (pW p) rows)
| pr_png fts rows : (10 <= p_predictor p <= 15)%Z -> geom_ok p -> rows_ok p rows ->
    length fts = length rows -> Forall (fun t => t < 5) fts ->
    predicted p (concat rows) (png_encode (pC p) (pB p) (pW p) fts rows).

(* the two constants of enc.rs: unpredict, as they are in the source now *)
Lemma predictor_consts : png_from = 10%Z /\ tiff_pred = 2%Z.
Proof. split; reflexivity. Qed.

Theorem unpredict_predicted : forall p x y, predicted p x y -> unpredict p y = Ok x.
Proof.
  intros p x y H. destruct predictor_consts as [Hpng Htiff].
  destruct H as [x H1|rows H2 (Hc & Hw & Hb & Hov) (Hlen & Hwf)|fts rows H10 (Hc & Hw & Hb & Hov) (Hlen & Hwf) Hf Ht].
  - unfold unpredict. rewrite Hpng, Htiff, H1. try reflexivity.
  - apply tiff_image_inverts; try assumption; rewrite Htiff; exact H2.
  - apply png_image_inverts; try assumption; rewrite Hpng; lia.
Qed.

(** for every parameter record and every byte string: a value or an error *)
Theorem unpredict_no_panic : forall p d, no_panic (unpredict p d).
Proof.
  intros p d. destruct (Z.leb_spec png_from (p_predictor p)) as [H|H].
  - apply png_no_panic. exact H.
  - destruct (Z.eqb_spec (p_predictor p) tiff_pred) as [E|E].
    + apply tiff_no_panic. exact E.
    + unfold unpredict. destruct (Z.leb_spec png_from (p_predictor p)); [lia|].
      destruct (Z.eqb_spec (p_predictor p) tiff_pred); [contradiction|]. exact I.
Qed.

(* ------------------------------------------------------------------ *)
(** * /Filter and /DecodeParms as the standard spells them (ISO 32000-1 Table 5, Table 6, Table 8) *)

Definition iso_name (f : filter) : bytes :=
  match f with
  | FHex => [65; 83; 67; 73; 73; 72; 101; 120; 68; 101; 99; 111; 100; 101]               (* ASCIIHexDecode *)
  | FA85 => [65; 83; 67; 73; 73; 56; 53; 68; 101; 99; 111; 100; 101]                     (* ASCII85Decode *)
  | FRle => [82; 117; 110; 76; 101; 110; 103; 116; 104; 68; 101; 99; 111; 100; 101]      (* RunLengthDecode *)
  | FLzw _ => [76; 90; 87; 68; 101; 99; 111; 100; 101]                                   (* LZWDecode *)
  | FFlate _ => [70; 108; 97; 116; 101; 68; 101; 99; 111; 100; 101]                      (* FlateDecode *)
  end.

Definition k_predictor : bytes := [80; 114; 101; 100; 105; 99; 116; 111; 114].
Definition k_colors : bytes := [67; 111; 108; 111; 114; 115].
Definition k_bpc : bytes := [66; 105; 116; 115; 80; 101; 114; 67; 111; 109; 112; 111; 110; 101; 110; 116].
Definition k_columns : bytes := [67; 111; 108; 117; 109; 110; 115].
Definition k_early : bytes := [69; 97; 114; 108; 121; 67; 104; 97; 110; 103; 101].

(** the value of key k in a dictionary, or the default of Table 8 *)
Definition spec_entry (k : bytes) (dflt : Z) (d : pdict) : Z :=
  match find (fun e => if list_eq_dec N.eq_dec k (fst e) then true else false) d with
  | Some e => snd e
  | None => dflt
  end.

Definition dict_denotes (d : pdict) (p : params) : Prop :=
  p_predictor p = spec_entry k_predictor 1 d /\ p_colors p = spec_entry k_colors 1 d /\
  p_bpc p = spec_entry k_bpc 8 d /\ p_columns p = spec_entry k_columns 1 d /\
  p_early p = spec_entry k_early 1 d.

(** the DecodeParms entry of one filter: the null object stands for "all defaults"; filters
    without parameters may carry null or any dictionary *)
Definition parm_spells (f : filter) (o : option pdict) : Prop :=
  match f with
  | FLzw p | FFlate p => match o with Some d => dict_denotes d p | None => dict_denotes [] p end
  | _ => True
  end.

Definition dict_spells (fs : list filter) (f : fval) (pv : pval) : Prop :=
  (f = FvArr (map iso_name fs) \/ (exists f1, fs = [f1] /\ f = FvName (iso_name f1)) \/ (fs = [] /\ f = FvNull)) /\
  ((pv = PvNull /\ Forall (fun f => parm_spells f None) fs) \/
   (exists l, pv = PvArr l /\ Forall2 parm_spells fs l) \/
   (exists f1 d, fs = [f1] /\ pv = PvDict d /\ parm_spells f1 (Some d))).

Lemma bytes_eqb_eq a : forall b, bytes_eqb a b = true <-> a = b.
Proof.
  induction a as [|x a IH]; intros [|y b]; cbn [bytes_eqb]; split; intros H; try discriminate; try reflexivity.
  - apply andb_true_iff in H. destruct H as [H1 H2]. apply N.eqb_eq in H1. apply IH in H2. subst. reflexivity.
  - inversion H; subst. rewrite N.eqb_refl. cbn [andb]. apply IH. reflexivity.
Qed.

Lemma dict_get_spec k dflt : forall d,
  match dict_get k d with Some v => v | None => dflt end = spec_entry k dflt d.
Proof.
  induction d as [|[k' v] d IH]; [reflexivity|].
  unfold spec_entry in *. cbn [dict_get find fst snd].
  destruct (list_eq_dec N.eq_dec k k') as [E|E].
  - apply bytes_eqb_eq in E. rewrite E. reflexivity.
  - destruct (bytes_eqb k k') eqn:B; [apply bytes_eqb_eq in B; contradiction|]. exact IH.
Qed.

(* table lemma: the keys and defaults the derive macro was given are those of Table 8 *)
Lemma lzw_param_keys_iso :
  lzw_param_keys = [(k_predictor, 1%Z); (k_colors, 1%Z); (k_bpc, 8%Z); (k_columns, 1%Z); (k_early, 1%Z)].
Proof. reflexivity. Qed.

Lemma params_of_dict_denotes d p : dict_denotes d p -> params_of_dict d = p.
Proof.
  intros (H1 & H2 & H3 & H4 & H5). unfold params_of_dict, param_field. rewrite lzw_param_keys_iso.
  cbn [nth_error]. rewrite !dict_get_spec. destruct p; cbn in *; subst; reflexivity.
Qed.

(* table lemma: the five names of Table 6 select the five decoders *)
Lemma filter_names_iso : forall d p,
  filter_of_name (iso_name FHex) d = Ok FHex /\ filter_of_name (iso_name FA85) d = Ok FA85 /\
  filter_of_name (iso_name FRle) d = Ok FRle /\
  filter_of_name (iso_name (FLzw p)) d = Ok (FLzw (params_of_dict d)) /\
  filter_of_name (iso_name (FFlate p)) d = Ok (FFlate (params_of_dict d)).
Proof. intros d p. repeat split; reflexivity. Qed.

(* table lemma: enc.rs: decode sends each variant to its own decoder *)
Lemma decode_arms_iso : decode_arms = [(0, 0); (1, 1); (2, 2); (3, 3); (9, 4); (5, 5)].
Proof. reflexivity. Qed.

(* table lemma: the dictionary keys StreamInfo reads *)
Lemma stream_keys_iso :
  key_filter = [70; 105; 108; 116; 101; 114] /\ key_parms = [68; 101; 99; 111; 100; 101; 80; 97; 114; 109; 115].
Proof. split; reflexivity. Qed.

(* table lemma: weezl is configured for 8-bit symbols (9-bit initial codes) in both branches *)
Lemma lzw_symbol_size : lzw_sym_early = 8 /\ lzw_sym_plain = 8.
Proof. split; reflexivity. Qed.

Lemma filter_of_name_spells f o :
  parm_spells f o -> filter_of_name (iso_name f) (match o with Some d => d | None => [] end) = Ok f.
Proof.
  intros H. destruct (filter_names_iso (match o with Some d => d | None => [] end) default_params) as (A & B & C & D & E).
  destruct f as [| | |p|p].
  - exact A.
  - exact B.
  - exact C.
  - change (iso_name (FLzw p)) with (iso_name (FLzw default_params)). rewrite D.
    destruct o as [d|]; cbn [parm_spells] in H; rewrite (params_of_dict_denotes _ _ H); reflexivity.
  - change (iso_name (FFlate p)) with (iso_name (FFlate default_params)). rewrite E.
    destruct o as [d|]; cbn [parm_spells] in H; rewrite (params_of_dict_denotes _ _ H); reflexivity.
Qed.

Lemma pair_filters_arr : forall fs l pre, Forall2 parm_spells fs l ->
  pair_filters (map iso_name fs) (pre ++ l) (length pre) = Ok fs.
Proof.
  induction fs as [|f fs IH]; intros l pre H; inversion H as [|f' o fs' l' Hf Hrest]; subst; [reflexivity|].
  cbn [map pair_filters].
  rewrite nth_error_app2 by lia. rewrite Nat.sub_diag. cbn [nth_error].
  assert (E : filter_of_name (iso_name f) (match o with Some d => d | None => [] end) = Ok f)
    by (apply filter_of_name_spells; exact Hf).
  assert (R : pair_filters (map iso_name fs) (pre ++ o :: l') (S (length pre)) = Ok fs).
  { replace (pre ++ o :: l') with ((pre ++ [o]) ++ l') by (rewrite <- app_assoc; reflexivity).
    replace (S (length pre)) with (length (pre ++ [o])) by (rewrite app_length; cbn [length]; lia).
    apply IH. exact Hrest. }
  destruct o as [d|]; rewrite E; cbn [bind]; rewrite R; reflexivity.
Qed.

Lemma pair_filters_none : forall fs i, Forall (fun f => parm_spells f None) fs ->
  pair_filters (map iso_name fs) [] i = Ok fs.
Proof.
  induction fs as [|f fs IH]; intros i H; [reflexivity|]. inversion H as [|? ? Hf Hrest]; subst.
  cbn [map pair_filters]. assert (nth_error (@nil (option pdict)) i = None) as -> by (destruct i; reflexivity).
  rewrite (filter_of_name_spells f None Hf). cbn [bind]. rewrite (IH _ Hrest). reflexivity.
Qed.

(** the pairing: whichever of the spellings of Table 5 is used, the filters and their parameters
    come out as written *)
Theorem pairing_correct : forall fs f pv, dict_spells fs f pv -> filters_of f pv = Ok fs.
Proof.
  intros fs f pv [Hf Hp]. unfold filters_of.
  assert (Hn : names_of f = map iso_name fs).
  { destruct Hf as [->|[(f1 & -> & ->)|(-> & ->)]]; reflexivity. }
  rewrite Hn. destruct Hp as [(-> & H)|[(l & -> & H)|(f1 & d & -> & -> & H)]]; cbn [parms_of].
  - apply pair_filters_none. exact H.
  - apply (pair_filters_arr fs l []). exact H.
  - apply (pair_filters_arr [f1] [Some d] []). constructor; [exact H|constructor].
Qed.

(* ------------------------------------------------------------------ *)
(** * Flate, LZW, chains, streams — libflate and weezl as oracles *)

Section Ext.
  Variable inflate_zlib inflate_raw : bytes -> res bytes.   (* libflate *)
  Variable lzw_dec : bool -> bytes -> res bytes.            (* weezl; true = size switch one code early *)
  (* the standard encoders: RFC 1950 / RFC 1951 streams, §7.4.4.2 LZW with EarlyChange 1 (true) / 0 *)
  Variable zlib_enc raw_enc : bytes -> bytes.
  Variable lzw_enc : bool -> bytes -> bytes.

  Let dec := decode inflate_zlib inflate_raw lzw_dec.
  Let chain := decode_chain inflate_zlib inflate_raw lzw_dec.

  (** the oracle premises: the external decoders decode what the standard encoders produce;
      a raw deflate stream is not accepted as a zlib stream *)
  Definition flate_oracle : Prop :=
    (forall y, inflate_zlib (zlib_enc y) = Ok y) /\
    (forall y, inflate_raw (raw_enc y) = Ok y) /\
    (forall y, exists e, inflate_zlib (raw_enc y) = Err e).
  Definition lzw_oracle : Prop := forall ec y, lzw_dec ec (lzw_enc ec y) = Ok y.
  (** … and return a value or an error on every input *)
  Definition oracles_total : Prop :=
    (forall d, no_panic (inflate_zlib d)) /\ (forall d, no_panic (inflate_raw d)) /\
    (forall ec d, no_panic (lzw_dec ec d)).

  Definition early_of (p : params) : bool := negb (p_early p =? 0)%Z.

  (** [encodes f x e]: e is an encoding of x for filter f that the standard allows *)
  Definition encodes (f : filter) (x e : bytes) : Prop :=
    match f with
    | FHex => hex_spells_iso x e
    | FA85 => a85_spells x e
    | FRle => rle_encodes x e
    | FFlate p => exists y, predicted p x y /\ (e = zlib_enc y \/ e = raw_enc y)
    | FLzw p => exists y, predicted p x y /\ e = lzw_enc (early_of p) y
    end.

  Theorem flate_correct : flate_oracle -> forall p x y, predicted p x y ->
    dec (FFlate p) (zlib_enc y) = Ok x /\ dec (FFlate p) (raw_enc y) = Ok x.
  Proof.
    intros (Hz & Hr & Hzr) p x y H. unfold dec, decode, flate_decode. split.
    - rewrite Hz. apply unpredict_predicted. exact H.
    - destruct (Hzr y) as [e ->]. rewrite Hr. apply unpredict_predicted. exact H.
  Qed.

  Theorem lzw_correct : lzw_oracle -> forall p x y, predicted p x y ->
    dec (FLzw p) (lzw_enc (early_of p) y) = Ok x.
  Proof.
    intros Hl p x y H. unfold dec, decode, lzw_decode. fold (early_of p). rewrite Hl. cbn [bind].
    apply unpredict_predicted. exact H.
  Qed.

  Theorem decode_correct : flate_oracle -> lzw_oracle -> forall f x e, encodes f x e -> dec f e = Ok x.
  Proof.
    intros Hf Hl f x e H. destruct f as [| | |p|p]; cbn [encodes] in H.
    - apply hex_decodes_iso. exact H.
    - apply a85_decodes_every_spelling. exact H.
    - apply rle_decodes. exact H.
    - destruct H as (y & Hp & ->). apply lzw_correct; assumption.
    - destruct H as (y & Hp & [->| ->]); [apply (flate_correct Hf p x y Hp)|apply (flate_correct Hf p x y Hp)].
  Qed.

  (** filters in the order of the /Filter array: the first is decoded first, so it was applied last *)
  Inductive chain_encodes : list filter -> bytes -> bytes -> Prop :=
  | ce_nil x : chain_encodes [] x x
  | ce_cons f fs x mid e : chain_encodes fs x mid -> encodes f mid e -> chain_encodes (f :: fs) x e.

  Theorem chain_correct : flate_oracle -> lzw_oracle -> forall fs x e, chain_encodes fs x e -> chain fs e = Ok x.
  Proof.
    intros Hf Hl fs x e H. induction H as [x|f fs x mid e Hc IH He]; [reflexivity|].
    unfold chain in *. cbn [decode_chain]. fold dec. rewrite (decode_correct Hf Hl f mid e He). cbn [bind]. exact IH.
  Qed.

  (** a stream object: dictionary spelled per Table 5, data encoded by the chain *)
  Theorem stream_correct : flate_oracle -> lzw_oracle -> forall fs f pv x e,
    dict_spells fs f pv -> chain_encodes fs x e ->
    stream_data inflate_zlib inflate_raw lzw_dec f pv e = Ok x.
  Proof.
    intros Hf Hl fs f pv x e Hd Hc. unfold stream_data. rewrite (pairing_correct fs f pv Hd). cbn [bind].
    apply (chain_correct Hf Hl). exact Hc.
  Qed.

  (** never a panic: every filter, every parameter record, every byte string *)
  Theorem decode_no_panic : oracles_total -> forall f d, no_panic (dec f d).
  Proof.
    intros (Tz & Tr & Tl) f d. destruct f as [| | |p|p]; unfold dec, decode.
    - apply hex_no_panic.
    - apply a85_no_panic.
    - apply rle_no_panic.
    - unfold lzw_decode. specialize (Tl (negb (p_early p =? 0)%Z) d).
      destruct (lzw_dec (negb (p_early p =? 0)%Z) d); cbn [bind no_panic] in *; try exact I; try contradiction.
      apply unpredict_no_panic.
    - unfold flate_decode. specialize (Tz d). specialize (Tr d).
      destruct (inflate_zlib d); cbn [no_panic] in *; try contradiction; [apply unpredict_no_panic|].
      destruct (inflate_raw d); cbn [no_panic] in *; try contradiction; [apply unpredict_no_panic|exact I].
  Qed.

  Theorem chain_no_panic : oracles_total -> forall fs d, no_panic (chain fs d).
  Proof.
    intros T fs. induction fs as [|f fs IH]; intros d; [exact I|].
    unfold chain in *. cbn [decode_chain]. fold dec. pose proof (decode_no_panic T f d) as H.
    destruct (dec f d); cbn [bind no_panic] in *; try exact I; try contradiction. apply IH.
  Qed.

  Lemma pair_filters_no_panic : forall names parms i, no_panic (pair_filters names parms i).
  Proof.
    induction names as [|n t IH]; intros parms i; [exact I|]. cbn [pair_filters].
    set (d := match nth_error parms i with Some (Some d) => d | _ => [] end).
    assert (H : no_panic (filter_of_name n d)).
    { unfold filter_of_name.
      destruct (find (fun e => bytes_eqb n (fst e)) filter_names) as [[? idx]|]; [|exact I].
      repeat match goal with |- context [if ?c then _ else _] => destruct c end; exact I. }
    destruct (filter_of_name n d); cbn [bind no_panic] in *; try exact I; try contradiction.
    specialize (IH parms (S i)). destruct (pair_filters t parms (S i)); cbn [bind no_panic] in *; try exact I; try contradiction.
  Qed.

  Theorem stream_no_panic : oracles_total -> forall f pv d,
    no_panic (stream_data inflate_zlib inflate_raw lzw_dec f pv d).
  Proof.
    intros T f pv d. unfold stream_data, filters_of.
    pose proof (pair_filters_no_panic (names_of f) (parms_of pv) 0) as H.
    destruct (pair_filters (names_of f) (parms_of pv) 0); cbn [bind no_panic] in *; try exact I; try contradiction.
    apply (chain_no_panic T).
  Qed.
End Ext.

(* ------------------------------------------------------------------ *)
(** non-vacuity: the oracle premises are satisfiable (framing by one tag byte, identity payload) *)
Definition toy_unframe (tag : N) (d : bytes) : res bytes :=
  match d with c :: t => if c =? tag then Ok t else Err 4 | [] => Err 4 end.

Example oracles_consistent :
  flate_oracle (toy_unframe 120) (toy_unframe 0) (fun y => 120 :: y) (fun y => 0 :: y) /\
  lzw_oracle (fun _ d => Ok d) (fun _ y => y) /\
  oracles_total (toy_unframe 120) (toy_unframe 0) (fun _ d => Ok d).
Proof.
  split; [|split].
  - repeat split; intros; try reflexivity. exists 4. reflexivity.
  - intros ec y. reflexivity.
  - repeat split; intros; try exact I; unfold toy_unframe; destruct d as [|c t]; try exact I;
      destruct (c =? _); exact I.
Qed.

(** non-vacuity: a two-filter chain written out ("aaab" run-length encoded, then ASCII85 with a blank) *)
Example chain_example :
  chain_encodes (fun y => 120 :: y) (fun y => 0 :: y) (fun _ y => y)
    [FA85; FRle] [97; 97; 97; 98]
    (a85_digits (group_value 254 97 0 98) ++ [32] ++ firstn 2 (a85_digits (group_value 128 0 0 0)) ++ [126; 62]).
Proof.
  apply (ce_cons _ _ _ FA85 [FRle] [97; 97; 97; 98] [254; 97; 0; 98; 128]).
  - apply (ce_cons _ _ _ FRle [] [97; 97; 97; 98] [97; 97; 97; 98]); [apply ce_nil|].
    cbn [encodes]. exists [254; 97; 0; 98]. split; [|right; exists []; reflexivity].
    apply (rr_rep 97 3 [98] [0; 98]); [lia|]. apply (rr_lit [98] [] []); [cbn; lia|apply rr_nil].
  - cbn [encodes]. exists (a85_digits (group_value 254 97 0 98) ++ firstn 2 (a85_digits (group_value 128 0 0 0))). split.
    + apply (as_group 254 97 0 98 [128]); try reflexivity. apply as_tail1. reflexivity.
    + vm_compute. repeat (first [apply sp_nil | apply sp_ws; [cbn; tauto|] | apply sp_sym; [cbn; lia|]]).
Qed.

(** non-vacuity: data a conforming encoder hands to the compressor under a PNG predictor *)
Definition ex_params : params := {| p_predictor := 12; p_colors := 1; p_bpc := 8; p_columns := 3; p_early := 1 |}.
Example predicted_example :
  predicted ex_params (concat [[10; 200; 30]; [250; 5; 60]])
            (png_encode (pC ex_params) (pB ex_params) (pW ex_params) [2; 4] [[10; 200; 30]; [250; 5; 60]]).
Proof.
  apply pr_png.
  - cbn. lia.
  - unfold geom_ok, usize_lim. repeat split; try (cbn; lia); try (cbn; tauto).
  - split; repeat constructor.
  - reflexivity.
  - repeat constructor.
Qed.
