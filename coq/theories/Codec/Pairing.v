(** Codec/Pairing.v — stream.rs: StreamInfo::from_primitive (the /Filter × /DecodeParms pairing),
    enc.rs: StreamFilter::from_kind_and_params, #[derive(Object)] LZWFlateParams,
    stream.rs: Stream::data and file.rs: Storage::decode (the filters applied in stream order).
    Model only — proofs in PairProofs.v. *)
From PdfV Require Import Base.Prelude Gen.Generated Codec.Model Codec.Dispatch.

(** the value of /Filter after resolution: absent or null, a name, an array of names *)
Inductive fval := FvNull | FvName (n : bytes) | FvArr (l : list bytes).
(** a parameter dictionary: its integer entries, in file order *)
Definition pdict := list (bytes * Z).
(** the value of /DecodeParms: absent or null, a dictionary, an array of dictionaries and nulls *)
Inductive pval := PvNull | PvDict (d : pdict) | PvArr (l : list (option pdict)).

Fixpoint bytes_eqb (a b : bytes) : bool :=
  match a, b with
  | [], [] => true
  | x :: a', y :: b' => (x =? y) && bytes_eqb a' b'
  | _, _ => false
  end.

(* object/mod.rs: impl Object for Vec<T> — Null => [], an array => its items, anything else => [item] *)
Definition names_of (f : fval) : list bytes :=
  match f with FvNull => [] | FvName n => [n] | FvArr l => l end.
(* … with T = Option<Dictionary>: a null item is None *)
Definition parms_of (p : pval) : list (option pdict) :=
  match p with PvNull => [] | PvDict d => [Some d] | PvArr l => l end.

(* primitive.rs: Dictionary::get (IndexMap: a key occurs once; first match) *)
Fixpoint dict_get (k : bytes) (d : pdict) : option Z :=
  match d with
  | [] => None
  | (k', v) :: t => if bytes_eqb k k' then Some v else dict_get k t
  end.

(* #[derive(Object)] struct LZWFlateParams: field i = dict[key_i] or default_i *)
Definition param_field (d : pdict) (i : nat) : Z :=
  match nth_error lzw_param_keys i with
  | Some (k, dflt) => match dict_get k d with Some v => v | None => dflt end
  | None => 0%Z
  end.
Definition params_of_dict (d : pdict) : params :=
  {| p_predictor := param_field d 0; p_colors := param_field d 1; p_bpc := param_field d 2;
     p_columns := param_field d 3; p_early := param_field d 4 |}.

(* enc.rs: StreamFilter::from_kind_and_params; the index is the position of the variant in
   enum StreamFilter (0 ASCIIHexDecode 1 ASCII85Decode 2 LZWDecode 3 FlateDecode … 9 RunLengthDecode).
   Filters outside the property (DCT, JPX, CCITT, JBIG2, Crypt) are not modelled: Err 11. *)
Definition filter_of_name (n : bytes) (d : pdict) : res filter :=
  match find (fun e => bytes_eqb n (fst e)) filter_names with
  | None => Err 10                               (* bail!("Unrecognized filter type") *)
  | Some (_, idx) =>
      if idx =? 0 then Ok FHex else if idx =? 1 then Ok FA85
      else if idx =? 2 then Ok (FLzw (params_of_dict d))
      else if idx =? 3 then Ok (FFlate (params_of_dict d))
      else if idx =? 9 then Ok FRle else Err 11
  end.

(* stream.rs: StreamInfo::from_primitive, `for (i, filter) in filters.iter().enumerate()`:
   the parameters of filter i are decode_params.get(i) if that is Some(Some(dict)), else empty *)
Fixpoint pair_filters (names : list bytes) (parms : list (option pdict)) (i : nat) : res (list filter) :=
  match names with
  | [] => Ok []
  | n :: t =>
      let d := match nth_error parms i with Some (Some d) => d | _ => [] end in
      do f <- filter_of_name n d;
      do r <- pair_filters t parms (S i);
      Ok (f :: r)
  end.
Definition filters_of (f : fval) (p : pval) : res (list filter) :=
  pair_filters (names_of f) (parms_of p) 0.

Section Ext.
  Variable inflate_zlib inflate_raw : bytes -> res bytes.
  Variable lzw_dec : bool -> bytes -> res bytes.
  (* stream.rs: Stream::data -> file.rs: Storage::decode (no decryption): `for filter in filters` *)
  Definition stream_data (f : fval) (p : pval) (raw : bytes) : res bytes :=
    do fs <- filters_of f p; decode_chain inflate_zlib inflate_raw lzw_dec fs raw.
End Ext.
