(** Codec/Model.v — executable models of pdf/src/enc.rs (filters).
    Every definition names its Rust anchor.  Tables come from Gen.Generated,
    i.e. from the Rust source as it is now. *)
From PdfV Require Import Base.Prelude Gen.Generated.

(* ------------------------------------------------------------------ *)
(** * ASCIIHex *)

(* enc.rs: decode_nibble — first matching arm; value = c - lo + base *)
Fixpoint find_range (c : N) (rs : list (N * N * N)) : option N :=
  match rs with
  | [] => None
  | (lo, hi, base) :: t =>
      if (lo <=? c) && (c <=? hi) then Some (c - lo + base) else find_range c t
  end.
Definition decode_nibble (c : N) : option N := find_range c nibble_ranges.

(* enc.rs: encode_nibble *)
Definition encode_nibble (c : N) : res N :=
  match find_range c enc_nibble_ranges with
  | Some v => Ok v
  | None => Panic 101   (* unreachable!() *)
  end.

(* Iterator::take_while(|b| b != stop) *)
Fixpoint take_until (stop : N) (l : bytes) : bytes :=
  match l with
  | [] => []
  | b :: t => if b =? stop then [] else b :: take_until stop t
  end.

Definition strip (ws : list N) (l : bytes) : bytes :=
  filter (fun b => negb (memN b ws)) l.

(* u8: high << 4 | low   (the shift drops the bits that leave the byte) *)
Definition hex_combine (high low : N) : N := N.lor ((high * 16) mod 256) low.

(* itertools tuples(): pairs; a trailing single element stays in the buffer (into_buffer) and is
   decoded as the high nibble of a last byte: `high << 4` *)
Fixpoint hex_pairs (l : bytes) : res bytes :=
  match l with
  | high :: low :: t =>
      match decode_nibble low, decode_nibble high with
      | Some lo, Some hi =>
          match hex_pairs t with
          | Ok r => Ok (hex_combine hi lo :: r)
          | e => e
          end
      | _, _ => Err 1
      end
  | [high] =>
      match decode_nibble high with
      | Some hi => Ok [(hi * 16) mod 256]
      | None => Err 1
      end
  | [] => Ok []
  end.

(* enc.rs: decode_hex *)
Definition decode_hex (data : bytes) : res bytes :=
  hex_pairs (strip hexfilter_ws (take_until hex_eod data)).

(* enc.rs: encode_hex *)
Fixpoint encode_hex (data : bytes) : res bytes :=
  match data with
  | [] => Ok []
  | b :: t =>
      do h <- encode_nibble (b / 16);
      do l <- encode_nibble (b mod 16);
      do r <- encode_hex t;
      Ok (h :: l :: r)
  end.

(* ------------------------------------------------------------------ *)
(** * ASCII85 *)

(* enc.rs: sym_85 *)
Definition sym_85 (b : N) : option N :=
  if (sym85_lo <=? b) && (b <=? sym85_hi) then Some (b - sym85_lo) else None.

Definition be4 (n : N) : bytes :=
  [n / 16777216; (n / 65536) mod 256; (n / 256) mod 256; n mod 256].

(* enc.rs: word_85 *)
Definition word_85 (a b c d e : N) : option bytes :=
  match sym_85 a, sym_85 b, sym_85 c, sym_85 d, sym_85 e with
  | Some a, Some b, Some c, Some d, Some e =>
      let q := (((a * 85 + b) * 85 + c) * 85 + d) * 85 + e in
      if q <? 4294967296 then Some (be4 q) else None      (* u32::try_from *)
  | _, _, _, _, _ => None
  end.

(* the main loop of decode_85 over the symbols before '~' *)
Fixpoint a85_loop (fuel : nat) (syms : bytes) : res bytes :=
  match fuel with
  | O => OutOfFuel
  | S f =>
    match syms with
    | [] => Ok []
    | a :: t =>
      if a =? a85_z then
        match a85_loop f t with Ok r => Ok (0 :: 0 :: 0 :: 0 :: r) | e => e end
      else
        match t with
        | b :: c :: d :: e :: t' =>
            match word_85 a b c d e with
            | Some w => match a85_loop f t' with Ok r => Ok (w ++ r) | e => e end
            | None => Err 2
            end
        | _ =>
            (* tail: pad with 'u' to five symbols, keep tail_len - 1 bytes *)
            let n := length syms in
            let padded := syms ++ repeatN a85_pad (5 - n)%nat in
            match padded with
            | [a; b; c; d; e] =>
                match word_85 a b c d e with
                | Some w => Ok (firstn (n - 1)%nat w)
                | None => Err 2
                end
            | _ => Err 2
            end
        end
    end
  end.

Fixpoint drop_until (stop : N) (l : bytes) : bytes :=
  match l with
  | [] => []
  | b :: t => if b =? stop then t else drop_until stop t
  end.

(* enc.rs: decode_85 *)
Definition decode_85 (data : bytes) : res bytes :=
  let stream := strip a85_ws data in
  let syms := take_until a85_tilde stream in
  let after := drop_until a85_tilde stream in   (* take_while consumed the '~' *)
  match a85_loop (S (length syms)) syms with
  | Ok out =>
      match after with
      | [g] => if g =? a85_gt then Ok out else Err 2
      | _ => Err 2
      end
  | e => e
  end.

(* enc.rs: base85_chunk *)
Definition base85_chunk (n : N) : bytes :=
  let e := n mod 85 in let n1 := n / 85 in
  let d := n1 mod 85 in let n2 := n1 / 85 in
  let c := n2 mod 85 in let n3 := n2 / 85 in
  let b := n3 mod 85 in let a := n3 / 85 in
  map (fun x => (x + sym85_lo) mod 256) [a; b; c; d; e].   (* a85(): n as u8 + 0x21 *)

Definition of_be4 (a b c d : N) : N := ((a * 256 + b) * 256 + c) * 256 + d.

(* enc.rs: encode_85 *)
Fixpoint encode_85_body (fuel : nat) (data : bytes) : bytes :=
  match fuel with
  | O => []
  | S f =>
    match data with
    | a :: b :: c :: d :: t =>
        (if (of_be4 a b c d =? 0) then [a85_z] else base85_chunk (of_be4 a b c d))
        ++ encode_85_body f t
    | [] => []
    | r =>
        let n := length r in
        match r ++ repeatN 0 (4 - n)%nat with
        | [a; b; c; d] => firstn (n + 1)%nat (base85_chunk (of_be4 a b c d))
        | _ => []
        end
    end
  end.
Definition encode_85 (data : bytes) : bytes :=
  encode_85_body (S (length data)) data ++ [a85_tilde; a85_gt].

(* ------------------------------------------------------------------ *)
(** * RunLength *)

(* enc.rs: run_length_decode.  `d.get(start..end)` / `d.get(c + 1)` past the end are Err(EOF). *)
Fixpoint rle_loop (fuel : nat) (d : bytes) : res bytes :=
  match fuel with
  | O => OutOfFuel
  | S f =>
    match d with
    | [] => Ok []
    | len :: t =>
      if len <? rle_lit_below then
        let n := (N.to_nat len + 1)%nat in
        if Nat.leb n (length t) then
          match rle_loop f (skipn n t) with
          | Ok r => Ok (firstn n t ++ r)
          | e => e
          end
        else Err 9                           (* d.get(start..end) = None *)
      else if rle_rep_from <=? len then
        match t with
        | b :: t' =>
            match rle_loop f t' with
            | Ok r => Ok (repeatN b (N.to_nat (rle_rep_base - len)) ++ r)
            | e => e
            end
        | [] => Err 9                        (* d.get(c + 1) = None *)
        end
      else Ok []                             (* EOD *)
    end
  end.
Definition run_length_decode (d : bytes) : res bytes := rle_loop (S (length d)) d.

(* ------------------------------------------------------------------ *)
(** * Predictors *)

Inductive ptype := PNone | PSub | PUp | PAvg | PPaeth.

(* enc.rs: PredictorType::from_u8; predictor_tags maps a tag byte to the
   index of the enum variant (NoFilter, Sub, Up, Avg, Paeth) *)
Definition ptype_of_idx (i : N) : option ptype :=
  if i =? 0 then Some PNone else if i =? 1 then Some PSub else if i =? 2 then Some PUp
  else if i =? 3 then Some PAvg else if i =? 4 then Some PPaeth else None.
Definition ptype_of_tag (t : N) : option ptype :=
  match find (fun p => fst p =? t) predictor_tags with
  | Some p => ptype_of_idx (snd p)
  | None => None
  end.

(* i16 arithmetic as the machine does it when overflow checks are off: wrap to [-2^15, 2^15) *)
Definition wrap16 (z : Z) : Z := ((z + 32768) mod 65536 - 32768)%Z.

(* enc.rs: filter_paeth *)
Definition filter_paeth (a b c : N) : N :=
  let ia := Z.of_N a in let ib := Z.of_N b in let ic := Z.of_N c in
  let p := wrap16 (wrap16 (ia + ib) - ic) in
  let pa := Z.abs (wrap16 (p - ia)) in let pb := Z.abs (wrap16 (p - ib)) in let pc := Z.abs (wrap16 (p - ic)) in
  if ((pa <=? pb) && (pa <=? pc))%Z then a else if (pb <=? pc)%Z then b else c.

Definition wadd (a b : N) : N := (a + b) mod 256.   (* u8::wrapping_add *)
Definition wsub (a b : N) : N := (a + 256 - b) mod 256.   (* u8::wrapping_sub *)

(* The row loop of unfilter.  [outrev] = bytes of this row already written,
   most recent first; [prevrev] = the corresponding bytes of the previous
   row, most recent first.  out[i-bpp] is the (bpp-1)-th element of outrev. *)
Definition back {A} (d : A) (l : list A) (bpp : nat) : A := nth (bpp - 1)%nat l d.
Definition have {A} (l : list A) (bpp : nat) : bool := Nat.leb bpp (length l).

Definition predict (ft : ptype) (bpp : nat) (outrev prevrev : bytes) (up : N) : N :=
  match ft with
  | PNone => 0
  | PSub => if have outrev bpp then back 0 outrev bpp else 0
  | PUp => up
  | PAvg => if have outrev bpp then (back 0 outrev bpp + up) / 2 else up / 2
  | PPaeth => if have outrev bpp
              then filter_paeth (back 0 outrev bpp) up (back 0 prevrev bpp)
              else filter_paeth 0 up 0
  end.

Fixpoint unfilter_go (ft : ptype) (bpp : nat) (outrev prevrev : bytes) (prev inp : bytes) : bytes :=
  match inp, prev with
  | x :: inp', u :: prev' =>
      let o := wadd x (predict ft bpp outrev prevrev u) in
      o :: unfilter_go ft bpp (o :: outrev) (u :: prevrev) prev' inp'
  | _, _ => []
  end.

(* enc.rs: unfilter — assert_eq!(len, prev.len()) (the out slice is cut to len by the caller);
   `if bpp > len { return }` leaves the zero-initialised row *)
Definition unfilter (ft : ptype) (bpp : nat) (prev inp : bytes) : res bytes :=
  if negb (Nat.eqb (length prev) (length inp)) then Panic 106
  else if Nat.ltb (length inp) bpp then Ok (repeatN 0 (length inp))
  else Ok (unfilter_go ft bpp [] [] prev inp).

(* enc.rs: unpredict, the PNG loop.  Loop condition: in_off + stride < inp.len();
   inp[in_off .. in_off + stride] panics when the slice is out of range; a trailing partial
   row is dropped. *)
Fixpoint unpredict_rows (fuel : nat) (stride bpp : nat) (prev : bytes) (inp : bytes) : res bytes :=
  match fuel with
  | O => OutOfFuel
  | S f =>
    if Nat.ltb stride (length inp) then   (* in_off + stride < len *)
      match inp with
      | tag :: body =>
          match ptype_of_tag tag with
          | None => Err 3
          | Some ft =>
              if Nat.ltb (length body) stride then Panic 107 else
              match unfilter ft bpp prev (firstn stride body) with
              | Ok row =>
                  match unpredict_rows f stride bpp row (skipn stride body) with
                  | Ok r => Ok (row ++ r)
                  | e => e
                  end
              | Err e => Err e | Panic s => Panic s | OutOfFuel => OutOfFuel
              end
          end
      | [] => Ok []
      end
    else Ok []
  end.

(* enc.rs: struct LZWFlateParams (i32 fields) *)
Record params := { p_predictor : Z; p_colors : Z; p_bpc : Z; p_columns : Z; p_early : Z }.

Definition usize_lim : N := 18446744073709551616.
Definition memZ (x : Z) (l : list Z) : bool := existsb (Z.eqb x) l.
Definition ceil8 (n : N) : N := n / 8 + (if n mod 8 =? 0 then 0 else 1).

(* enc.rs: predictor_geometry -> (bytes per row, bytes per pixel) *)
Definition predictor_geometry (p : params) : res (N * N) :=
  if ((p_colors p <? 1) || (p_columns p <? 1) || negb (memZ (p_bpc p) bpc_allowed))%Z then Err 7 else
  let bits_per_pixel := Z.to_N (p_colors p) * Z.to_N (p_bpc p) in
  if usize_lim <=? bits_per_pixel then Err 8 else
  let bits_per_row := Z.to_N (p_columns p) * bits_per_pixel in
  if usize_lim <=? bits_per_row then Err 8 else
  Ok (ceil8 bits_per_row, ceil8 bits_per_pixel).

(* enc.rs: unpack_samples *)
Definition unpack_byte (bpc : N) (b : N) : list N :=
  map (fun k => N.land (N.shiftr b (8 - bpc * (N.of_nat k + 1))) (2 ^ bpc - 1)) (seq 0 (N.to_nat (8 / bpc))).
Fixpoint pairs16 (row : bytes) : list N :=          (* chunks_exact(2), u16::from_be_bytes *)
  match row with
  | a :: b :: t => (a * 256 + b) :: pairs16 t
  | _ => []
  end.
Definition unpack_samples (bpc : N) (row : bytes) : list N :=
  if bpc =? 16 then pairs16 row else flat_map (unpack_byte bpc) row.

(* enc.rs: pack_samples (zip: stops with the shorter side, the rest of the row keeps its bytes) *)
Fixpoint pack16 (row : bytes) (samples : list N) : bytes :=
  match row, samples with
  | _ :: _ :: t, s :: ss => (s / 256) mod 256 :: s mod 256 :: pack16 t ss
  | _, _ => row
  end.
Fixpoint pack_bytes (bpc : N) (per_byte : nat) (row : bytes) (samples : list N) : bytes :=
  match row with
  | [] => []
  | b :: t =>
      match samples with
      | [] => row
      | _ => (fold_left (fun acc s => N.lor (N.shiftl acc bpc) s) (firstn per_byte samples) 0) mod 256
             :: pack_bytes bpc per_byte t (skipn per_byte samples)
      end
  end.
Definition pack_samples (bpc : N) (samples : list N) (row : bytes) : bytes :=
  if bpc =? 16 then pack16 row samples else pack_bytes bpc (N.to_nat (8 / bpc)) row samples.

(* enc.rs: tiff_unpredict_row, the loop `for i in colors .. n_samples`; [n] = n_samples - i,
   [outrev] = samples already final, most recent first.  samples[i] past the end panics. *)
Fixpoint tiff_go (colors : nat) (mask : N) (n : nat) (outrev : list N) (s : list N) : res (list N) :=
  match n with
  | O => Ok s
  | S n' =>
      match s with
      | [] => Panic 108
      | x :: t =>
          let o := if have outrev colors
                   then N.land ((x + back 0 outrev colors) mod 65536) mask   (* u16 wrapping_add, & mask *)
                   else x in
          match tiff_go colors mask n' (o :: outrev) t with
          | Ok r => Ok (o :: r)
          | e => e
          end
      end
  end.
Definition tiff_unpredict_row (colors : nat) (bpc : N) (n_samples : nat) (row : bytes) : res bytes :=
  match tiff_go colors (2 ^ bpc - 1) n_samples [] (unpack_samples bpc row) with
  | Ok s => Ok (pack_samples bpc s row)
  | Err e => Err e | Panic s => Panic s | OutOfFuel => OutOfFuel
  end.

(* chunks_exact_mut(stride): whole rows; the remainder is left as it is *)
Fixpoint tiff_rows (fuel : nat) (stride colors : nat) (bpc : N) (n_samples : nat) (d : bytes) : res bytes :=
  match fuel with
  | O => OutOfFuel
  | S f =>
    if Nat.leb stride (length d) then
      match tiff_unpredict_row colors bpc n_samples (firstn stride d) with
      | Ok row =>
          match tiff_rows f stride colors bpc n_samples (skipn stride d) with
          | Ok r => Ok (row ++ r)
          | e => e
          end
      | e => e
      end
    else Ok d
  end.

(* enc.rs: unpredict *)
Definition unpredict (p : params) (decoded : bytes) : res bytes :=
  if (png_from <=? p_predictor p)%Z then
    match predictor_geometry p with
    | Ok (stride, bpp) =>
        if lenN decoded / (stride + 1) =? 0 then Ok [] else
        unpredict_rows (S (length decoded)) (N.to_nat stride) (N.to_nat bpp)
                       (repeatN 0 (N.to_nat stride)) decoded
    | Err e => Err e | Panic s => Panic s | OutOfFuel => OutOfFuel
    end
  else if (p_predictor p =? tiff_pred)%Z then
    match predictor_geometry p with
    | Ok (stride, _) =>
        if stride =? 0 then Panic 109 else        (* chunks_exact_mut(0) *)
        if lenN decoded <? stride then Ok decoded else   (* no whole row (keeps the model's nat small) *)
        tiff_rows (S (length decoded)) (N.to_nat stride) (Z.to_nat (p_colors p)) (Z.to_N (p_bpc p))
                  (Z.to_nat (p_colors p) * Z.to_nat (p_columns p)) decoded
    | Err e => Err e | Panic s => Panic s | OutOfFuel => OutOfFuel
    end
  else Ok decoded.
