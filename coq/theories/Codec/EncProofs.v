(** Codec/EncProofs.v — C16: every encoder is inverted by its decoder. *)
From PdfV Require Import Base.Prelude Gen.Generated Codec.Model Codec.Dispatch Codec.HexProofs Codec.A85Proofs.

(** the encoder's output is a §7.4.2 spelling (lower-case digits, no white-space, no EOD) *)
Lemma enc_nibble_digit :
  forallb (fun n => match encode_nibble n with
                    | Ok c => if n <? 10 then c =? 48 + n else c =? 87 + n
                    | _ => false end) (seqN 0 16) = true.
Proof. vm_compute. reflexivity. Qed.

Lemma encode_nibble_hexdigit n c : n < 16 -> encode_nibble n = Ok c -> hexdigit_of n c.
Proof.
  intros Hn E. pose proof enc_nibble_digit as H. rewrite forallb_forall in H.
  specialize (H n ltac:(apply seqN_In; cbn; lia)). rewrite E in H. unfold hexdigit_of.
  destruct (N.ltb_spec n 10); apply N.eqb_eq in H; [left|right]; split; lia.
Qed.

Lemma encode_hex_body : forall x e, wf_bytes x -> encode_hex x = Ok e -> hex_body x e.
Proof.
  induction x as [|b x IH]; intros e Hwf E.
  - cbn in E. inversion E. constructor.
  - apply wf_bytes_cons in Hwf. destruct Hwf as [Hb Hx]. cbn [encode_hex] in E.
    destruct (encode_nibble (b / 16)) as [h| | |] eqn:Eh; try discriminate.
    destruct (encode_nibble (b mod 16)) as [l| | |] eqn:El; try discriminate.
    destruct (encode_hex x) as [r| | |] eqn:Er; try discriminate.
    cbn [bind] in E. inversion E; subst e.
    apply (hb_byte b h l [] x r); auto.
    + apply encode_nibble_hexdigit; [apply N.div_lt_upper_bound; lia|exact Eh].
    + apply encode_nibble_hexdigit; [apply N.mod_lt; lia|exact El].
Qed.

Section Ext.
  Variable inflate_zlib inflate_raw : bytes -> res bytes.
  Variable deflate_zlib : bytes -> bytes.
  Variable lzw_dec : bool -> bytes -> res bytes.
  Variable lzw_enc : bytes -> res bytes.
  Let dec := decode inflate_zlib inflate_raw lzw_dec.
  Let enc := encode deflate_zlib lzw_enc.

  Theorem enc_dec_hex : forall x, wf_bytes x ->
    exists e, enc FHex x = Ok e /\ dec FHex e = Ok x /\ hex_spells x e.
  Proof.
    intros x H. destruct (hex_roundtrip x H) as [e [E D]]. exists e. repeat split; auto.
    exists e. split; [apply encode_hex_body; assumption|left; reflexivity].
  Qed.

  Theorem enc_dec_a85 : forall x, wf_bytes x ->
    exists e, enc FA85 x = Ok e /\ dec FA85 e = Ok x /\
      exists body, e = body ++ [126; 62] /\ Forall sym_ok body.
  Proof.
    intros x H. exists (encode_85 x). split; [reflexivity|]. split; [apply a85_roundtrip; exact H|].
    apply a85_output_standard. exact H.
  Qed.

  (** Flate: whatever libflate's encoder produces, if libflate's zlib decoder inverts it
      (premise), flate_decode with the parameters the writer uses returns the input. *)
  Theorem enc_dec_flate : (forall y, inflate_zlib (deflate_zlib y) = Ok y) ->
    forall p x, (p_predictor p < png_from)%Z -> p_predictor p <> tiff_pred ->
      exists e, enc (FFlate p) x = Ok e /\ dec (FFlate p) e = Ok x.
  Proof.
    intros Hrt p x Hp Ht. exists (deflate_zlib x). split; [reflexivity|].
    unfold dec, decode, flate_decode. rewrite Hrt. unfold unpredict.
    destruct (Z.leb_spec png_from (p_predictor p)); [lia|].
    destruct (Z.eqb_spec (p_predictor p) tiff_pred); [contradiction|reflexivity].
  Qed.

  (** LZW: encoding is offered for EarlyChange 0 only; there the decoder selected by the same
      parameters is weezl's plain decoder, assumed (premise) to invert weezl's encoder. *)
  Theorem enc_dec_lzw : (forall y e, lzw_enc y = Ok e -> lzw_dec false e = Ok y) ->
    forall p x e, p_early p = 0%Z -> (p_predictor p < png_from)%Z -> p_predictor p <> tiff_pred ->
      enc (FLzw p) x = Ok e -> dec (FLzw p) e = Ok x.
  Proof.
    intros Hrt p x e Hp Hq Ht E. unfold enc, encode, lzw_encode in E. rewrite Hp in E. cbn in E.
    unfold dec, decode, lzw_decode. rewrite Hp. change (negb (0 =? 0)%Z) with false.
    rewrite (Hrt _ _ E). cbn [bind]. unfold unpredict.
    destruct (Z.leb_spec png_from (p_predictor p)); [lia|].
    destruct (Z.eqb_spec (p_predictor p) tiff_pred); [contradiction|reflexivity].
  Qed.

  (** with any other EarlyChange the encoder refuses (an error value, not a wrong answer) *)
  Theorem enc_lzw_early_refused : forall p x, p_early p <> 0%Z -> enc (FLzw p) x = Err 5.
  Proof.
    intros p x Hp. unfold enc, encode, lzw_encode.
    destruct (Z.eqb_spec (p_early p) 0); [contradiction|reflexivity].
  Qed.
End Ext.
