(** Codec/Run.v — harness entry points for the codec models (one per mode). *)
From PdfV Require Import Base.Prelude Gen.Generated Codec.Model.

Definition field (fs : list bytes) (i : nat) : bytes := nth i fs [].

Definition run_hexdec (fs : list bytes) : res (list bytes) :=
  rmap (fun o => [o]) (decode_hex (field fs 0)).
Definition run_hexenc (fs : list bytes) : res (list bytes) :=
  rmap (fun o => [o]) (encode_hex (field fs 0)).
Definition run_a85dec (fs : list bytes) : res (list bytes) :=
  rmap (fun o => [o]) (decode_85 (field fs 0)).
Definition run_a85enc (fs : list bytes) : res (list bytes) :=
  Ok [encode_85 (field fs 0)].
Definition run_rledec (fs : list bytes) : res (list bytes) :=
  rmap (fun o => [o]) (run_length_decode (field fs 0)).
(* fields: predictor colors columns bpc (signed decimals), decompressed data; [compressed data: impl only] *)
Definition params_of (fs : list bytes) (i : nat) : params :=
  {| p_predictor := Z_of_dec (field fs i); p_colors := Z_of_dec (field fs (i + 1));
     p_columns := Z_of_dec (field fs (i + 2)); p_bpc := Z_of_dec (field fs (i + 3)); p_early := 1 |}.
Definition run_unpredict (fs : list bytes) : res (list bytes) :=
  rmap (fun o => [o]) (unpredict (params_of fs 0) (field fs 4)).
