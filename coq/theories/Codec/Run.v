(** Codec/Run.v — harness entry points for the codec models (one per mode). *)
From PdfV Require Import Base.Prelude Gen.Generated Codec.Model.

Definition field (fs : list bytes) (i : nat) : bytes := nth i fs [].

Definition run_hexdec (fs : list bytes) : res (list bytes) :=
  rmap (fun o => [o]) (decode_hex (field fs 0)).
Definition run_hexenc (fs : list bytes) : res (list bytes) :=
  rmap (fun o => [o]) (encode_hex (field fs 0)).
Definition run_a85dec (fs : list bytes) : res (list bytes) :=
  rmap (fun o => [o]) (decode_85 (field fs 0)).
Definition run_a85enc (fs : list bytes) : res (list bytes) :=
  Ok [encode_85 (field fs 0)].
Definition run_rledec (fs : list bytes) : res (list bytes) :=
  rmap (fun o => [o]) (run_length_decode (field fs 0)).
(* fields: predictor colors columns (signed decimals), inflated data, [zlib data: impl only] *)
Definition run_unpredict (fs : list bytes) : res (list bytes) :=
  rmap (fun o => [o])
    (unpredict (Z_of_dec (field fs 0)) (Z_of_dec (field fs 1)) (Z_of_dec (field fs 2)) (field fs 3)).
