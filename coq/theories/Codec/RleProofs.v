From PdfV Require Import Base.Prelude Gen.Generated Codec.Model Codec.Spec.

(* table facts, by computation *)
Lemma rle_consts : rle_lit_below = 128 /\ rle_rep_from = 129 /\ rle_rep_base = 257.
Proof. repeat split; reflexivity. Qed.

Lemma firstn_len_app {A} (l r : list A) : firstn (length l) (l ++ r) = l.
Proof. induction l as [|a l IH]; cbn [length firstn app]; [destruct r; reflexivity|now rewrite IH]. Qed.

Lemma skipn_len_app {A} (l r : list A) : skipn (length l) (l ++ r) = r.
Proof. induction l as [|a l IH]; cbn [length skipn app]; [reflexivity|exact IH]. Qed.

Lemma rle_runs_loop : forall x r, rle_runs x r ->
  forall tail fuel, (length (r ++ tail) < fuel)%nat ->
    (tail = [] \/ exists rest, tail = 128 :: rest) ->
    rle_loop fuel (r ++ tail) = Ok x.
Proof.
  destruct rle_consts as (E1 & E2 & E3).
  intros x r H. induction H as [|l x e Hl Hr IH|b k x e Hk Hr IH]; intros tail fuel Hf Ht.
  - destruct fuel as [|f]; [inversion Hf|].
    cbn [app]. destruct Ht as [->|[rest ->]]; cbn [rle_loop]; [reflexivity|].
    rewrite E1, E2.
    destruct (N.ltb_spec 128 128); [lia|].
    destruct (N.leb_spec 129 128); [lia|]. reflexivity.
  - destruct fuel as [|f]; [inversion Hf|].
    cbn [app length] in Hf. rewrite <- app_assoc in Hf. rewrite !app_length in Hf.
    cbn [app rle_loop]. rewrite E1.
    destruct (N.ltb_spec (N.of_nat (length l) - 1) 128); [|lia].
    cbv zeta.
    replace (N.to_nat (N.of_nat (length l) - 1) + 1)%nat with (length l) by lia.
    rewrite <- app_assoc.
    destruct (Nat.leb_spec (length l) (length (l ++ e ++ tail))) as [_|Hc];
      [|rewrite app_length in Hc; lia].
    rewrite skipn_len_app, firstn_len_app.
    rewrite IH; [reflexivity| |exact Ht].
    rewrite app_length. lia.
  - destruct fuel as [|f]; [inversion Hf|].
    cbn [app length] in Hf.
    cbn [app rle_loop]. rewrite E1, E2, E3.
    destruct (N.ltb_spec (257 - N.of_nat k) 128); [lia|].
    destruct (N.leb_spec 129 (257 - N.of_nat k)); [|lia].
    rewrite IH; [| lia | exact Ht].
    replace (N.to_nat (257 - (257 - N.of_nat k))) with k by lia.
    reflexivity.
Qed.

Theorem rle_decodes : forall x e, rle_encodes x e -> run_length_decode e = Ok x.
Proof.
  intros x e (r & Hr & He). unfold run_length_decode.
  destruct He as [->|[rest ->]].
  - rewrite <- (app_nil_r r) at 2.
    apply (rle_runs_loop x r Hr); [rewrite app_nil_r; lia|left; reflexivity].
  - apply (rle_runs_loop x r Hr); [lia|right; eexists; reflexivity].
Qed.

Lemma rle_loop_no_panic : forall fuel d, (length d < fuel)%nat -> no_panic (rle_loop fuel d).
Proof.
  induction fuel as [|f IH]; intros d Hd; [inversion Hd|].
  destruct d as [|len t]; cbn [rle_loop]; [exact I|].
  cbn [length] in Hd.
  destruct (len <? rle_lit_below).
  - cbv zeta. destruct (Nat.leb_spec (N.to_nat len + 1) (length t)); [|exact I].
    assert (Hs : (length (skipn (N.to_nat len + 1) t) < f)%nat)
      by (rewrite skipn_length; lia).
    specialize (IH _ Hs).
    destruct (rle_loop f (skipn (N.to_nat len + 1) t)); cbn in *; auto.
  - destruct (rle_rep_from <=? len); [|exact I].
    destruct t as [|b t']; [exact I|].
    cbn [length] in Hd.
    assert (Hs : (length t' < f)%nat) by lia.
    specialize (IH _ Hs).
    destruct (rle_loop f t'); cbn in *; auto.
Qed.

Theorem rle_no_panic : forall d, no_panic (run_length_decode d).
Proof. intros d. unfold run_length_decode. apply rle_loop_no_panic. lia. Qed.

Lemma hex_pairs_no_panic : forall l, no_panic (hex_pairs l).
Proof.
  assert (H : forall l, no_panic (hex_pairs l) /\ forall a, no_panic (hex_pairs (a :: l))).
  { induction l as [|b l [IH1 IH2]].
    - split; [exact I|]. intros a. cbn [hex_pairs].
      destruct (decode_nibble a); exact I.
    - split; [apply IH2|]. intros a. cbn [hex_pairs].
      destruct (decode_nibble b); destruct (decode_nibble a); try exact I.
      destruct (hex_pairs l); cbn in *; auto. }
  intros l. apply H.
Qed.

Theorem hex_no_panic : forall d, no_panic (decode_hex d).
Proof. intros d. unfold decode_hex. apply hex_pairs_no_panic. Qed.

Lemma a85_tail_no_panic : forall (p : bytes) (n : nat),
  no_panic (match p with
            | [a; b; c; d; e] =>
                match word_85 a b c d e with
                | Some w => Ok (firstn n w)
                | None => Err 2
                end
            | _ => Err 2
            end).
Proof.
  intros p n.
  destruct p as [|a [|b [|c [|d [|e [|g p]]]]]]; try exact I.
  destruct (word_85 a b c d e); exact I.
Qed.

Lemma a85_loop_no_panic : forall fuel syms, (length syms < fuel)%nat -> no_panic (a85_loop fuel syms).
Proof.
  induction fuel as [|f IH]; intros syms Hs; [inversion Hs|].
  destruct syms as [|a t]; cbn [a85_loop]; [exact I|].
  cbn [length] in Hs.
  destruct (a =? a85_z).
  - assert (Ht : (length t < f)%nat) by lia. specialize (IH _ Ht).
    destruct (a85_loop f t); cbn in *; auto.
  - destruct t as [|b [|c [|d [|e t']]]]; cbv zeta; try apply a85_tail_no_panic.
    destruct (word_85 a b c d e); [|exact I].
    cbn [length] in Hs.
    assert (Ht : (length t' < f)%nat) by lia. specialize (IH _ Ht).
    destruct (a85_loop f t'); cbn in *; auto.
Qed.

Theorem a85_no_panic : forall d, no_panic (decode_85 d).
Proof.
  intros d. unfold decode_85. cbv zeta.
  pose proof (a85_loop_no_panic (S (length (take_until a85_tilde (strip a85_ws d))))
                (take_until a85_tilde (strip a85_ws d)) (Nat.lt_succ_diag_r _)) as H.
  destruct (a85_loop _ _); cbn in *; auto.
  destruct (drop_until a85_tilde (strip a85_ws d)) as [|g [|g' r]]; try exact I.
  destruct (g =? a85_gt); exact I.
Qed.

(* the former defect (C01-a / C05-b): truncated runs are errors now, not panics *)
Example rle_truncated_literal : run_length_decode [5; 1] = Err 9.
Proof. vm_compute. reflexivity. Qed.

Example rle_truncated_repeat : run_length_decode [200] = Err 9.
Proof. vm_compute. reflexivity. Qed.

Example rle_example : rle_encodes [97;97;97;98;99] [254; 97; 1; 98; 99; 128].
Proof.
  exists [254; 97; 1; 98; 99]. split.
  - apply (rr_rep 97 3 [98; 99] [1; 98; 99]); [lia|].
    apply (rr_lit [98; 99] [] []); [cbn; lia|].
    apply rr_nil.
  - right. exists []. reflexivity.
Qed.

Print Assumptions rle_decodes.
Print Assumptions rle_no_panic.
Print Assumptions hex_no_panic.
Print Assumptions a85_no_panic.
